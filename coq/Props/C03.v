(* C03 — integer operators are bit-exact: the arithmetic gadgets of circuit.rs, for EVERY
   width (lists of any length; no bound).  Each theorem says: for every builder invariant
   [inv] for which the primitive requests are sound ([builder_ops_sound inv], proved for
   the concrete invariant in Builder/BuilderProofs.v), on every builder state satisfying it
   and all valid operand wires, the gadget (the transliteration of circuit.rs in
   Gadgets/Gadgets.v, tied gate for gate to the Rust code by the `builder` jobs of
   tools/c03.py) succeeds, keeps the invariant, only extends the builder, returns valid
   wires, and for EVERY input assignment its result wires denote the stated number.
   [bits_to_N] = unsigned reading, [bits_to_Z_signed] = two's complement, MSB first.
   Proofs: Gadgets/GadgetHoare.v (builder form = pure boolean function),
   Gadgets/Arith.v (pure boolean function = arithmetic), Gadgets/GadgetCorrect.v. *)
From GV Require Import Base.Util Base.NMap Base.Bits Base.BitsProofs
  Builder.Builder Builder.BuilderSem Builder.BuilderSpec
  Gadgets.Gadgets Gadgets.GadgetSpec Gadgets.Arith Gadgets.GadgetHoare Gadgets.GadgetCorrect
  Gadgets.Extend Gadgets.ExtendProofs.

(* ---- addition: sum = (x+y) mod 2^n, carry = (x+y >= 2^n), carry_prev = carry into the MSB *)
Theorem C03_add : forall inv, builder_ops_sound inv -> forall b x y,
  inv b -> valids b x -> valids b y -> length x = length y ->
  exists sum c cp b',
    push_addition_circuit b x y = Ok ((sum, c, cp), b') /\ inv b' /\ ext b b' /\
    valids b' sum /\ valid b' c /\ valid b' cp /\
    forall inp, ins_ok b inp ->
      let X := bits_to_N (dens inp b x) in let Y := bits_to_N (dens inp b y) in
      length sum = length x /\
      bits_to_N (dens inp b' sum) = (X + Y) mod 2 ^ lenN x /\
      N.b2n (den inp b' c) = (X + Y) / 2 ^ lenN x /\
      (den inp b' c = true <-> 2 ^ lenN x <= X + Y) /\
      N.b2n (den inp b' cp)
      = (bits_to_N (dens inp b (tl x)) + bits_to_N (dens inp b (tl y))) / 2 ^ lenN (tl x).
Proof. exact add_gadget_correct. Qed.
Print Assumptions C03_add.

(* signed reading: the sum is x+y in two's complement and (carry xor carry_prev) <-> overflow *)
Theorem C03_add_signed : forall inv, builder_ops_sound inv -> forall b x y,
  inv b -> valids b x -> valids b y -> length x = length y -> x <> [] ->
  exists sum c cp b',
    push_addition_circuit b x y = Ok ((sum, c, cp), b') /\ inv b' /\ ext b b' /\
    forall inp, ins_ok b inp ->
      let D := (bits_to_Z_signed (dens inp b x) + bits_to_Z_signed (dens inp b y))%Z in
      let H := Z.of_N (2 ^ (lenN x - 1)) in
      Z.of_N (bits_to_N (dens inp b' sum)) = (D mod Z.of_N (2 ^ lenN x))%Z /\
      (xorb (den inp b' c) (den inp b' cp) = true <-> ~ (- H <= D < H)%Z) /\
      (xorb (den inp b' c) (den inp b' cp) = false -> bits_to_Z_signed (dens inp b' sum) = D).
Proof. exact add_gadget_signed. Qed.
Print Assumptions C03_add_signed.

(* ---- negation: two's complement *)
Theorem C03_neg : forall inv, builder_ops_sound inv -> forall b x,
  inv b -> valids b x ->
  exists r b', push_negation_circuit b x = Ok (r, b') /\ inv b' /\ ext b b' /\ valids b' r /\
    forall inp, ins_ok b inp ->
      length r = length x /\
      bits_to_N (dens inp b' r) = (2 ^ lenN x - bits_to_N (dens inp b x)) mod 2 ^ lenN x.
Proof. exact neg_gadget_correct. Qed.
Print Assumptions C03_neg.

(* ---- subtraction, unsigned: (x-y) mod 2^n and overflow bit <-> x < y *)
Theorem C03_sub_unsigned : forall inv, builder_ops_sound inv -> forall b x y,
  inv b -> valids b x -> valids b y -> length x = length y ->
  exists d ov b', push_subtraction_circuit b x y false = Ok ((d, ov), b') /\ inv b' /\ ext b b' /\
    valids b' d /\ valid b' ov /\
    forall inp, ins_ok b inp ->
      let X := bits_to_N (dens inp b x) in let Y := bits_to_N (dens inp b y) in
      length d = length x /\
      bits_to_N (dens inp b' d) = (X + 2 ^ lenN x - Y) mod 2 ^ lenN x /\
      Z.of_N (bits_to_N (dens inp b' d)) = ((Z.of_N X - Z.of_N Y) mod Z.of_N (2 ^ lenN x))%Z /\
      den inp b' ov = (X <? Y).
Proof. exact sub_gadget_unsigned. Qed.
Print Assumptions C03_sub_unsigned.

(* ---- subtraction, signed: two's complement of x-y; overflow bit <-> x-y outside [-2^(n-1), 2^(n-1)) *)
Theorem C03_sub_signed : forall inv, builder_ops_sound inv -> forall b x y,
  inv b -> valids b x -> valids b y -> length x = length y -> x <> [] ->
  exists d ov b', push_subtraction_circuit b x y true = Ok ((d, ov), b') /\ inv b' /\ ext b b' /\
    valids b' d /\ valid b' ov /\
    forall inp, ins_ok b inp ->
      let D := (bits_to_Z_signed (dens inp b x) - bits_to_Z_signed (dens inp b y))%Z in
      let H := Z.of_N (2 ^ (lenN x - 1)) in
      length d = length x /\
      Z.of_N (bits_to_N (dens inp b' d)) = (D mod Z.of_N (2 ^ lenN x))%Z /\
      (den inp b' ov = true <-> ~ (- H <= D < H)%Z) /\
      (den inp b' ov = false -> bits_to_Z_signed (dens inp b' d) = D).
Proof. exact sub_gadget_signed. Qed.
Print Assumptions C03_sub_signed.

(* ---- unsigned division: x = q*y + r, r < y for y > 0; for y = 0 the circuit returns
   q = 2^n - 1 (all ones) and r = x (compile.rs raises the DivByZero panic separately) *)
Theorem C03_udiv : forall inv, builder_ops_sound inv -> forall b x y,
  inv b -> valids b x -> valids b y -> length x = length y ->
  exists q r b', push_unsigned_division_circuit b x y = Ok ((q, r), b') /\ inv b' /\ ext b b' /\
    valids b' q /\ valids b' r /\
    forall inp, ins_ok b inp ->
      let X := bits_to_N (dens inp b x) in let Y := bits_to_N (dens inp b y) in
      let Q := bits_to_N (dens inp b' q) in let R := bits_to_N (dens inp b' r) in
      length q = length x /\ length r = length x /\
      X = Q * Y + R /\
      (0 < Y -> R < Y /\ Q = X / Y /\ R = X mod Y) /\
      (Y = 0 -> Q = 2 ^ lenN x - 1 /\ R = X).
Proof. exact udiv_gadget_correct. Qed.
Print Assumptions C03_udiv.

(* ---- signed division (through absolute values): Rust's truncating quotient and remainder
   everywhere except MIN / -1, where the gadget returns MIN and remainder 0 without any
   signal (DESIGN.md §6-4: compile.rs must add the Overflow panic), and except y = 0 *)
Theorem C03_sdiv : forall inv, builder_ops_sound inv -> forall b x y,
  inv b -> valids b x -> valids b y -> length x = length y -> x <> [] ->
  exists q r b', push_signed_division_circuit b x y = Ok ((q, r), b') /\ inv b' /\ ext b b' /\
    valids b' q /\ valids b' r /\
    forall inp, ins_ok b inp ->
      let SX := bits_to_Z_signed (dens inp b x) in let SY := bits_to_Z_signed (dens inp b y) in
      let MIN := (- Z.of_N (2 ^ (lenN x - 1)))%Z in
      length q = length x /\ length r = length x /\
      (SY <> 0%Z -> ~ (SX = MIN /\ SY = (-1)%Z) ->
         bits_to_Z_signed (dens inp b' q) = Z.quot SX SY /\
         bits_to_Z_signed (dens inp b' r) = Z.rem SX SY) /\
      (SX = MIN -> SY = (-1)%Z ->
         bits_to_Z_signed (dens inp b' q) = MIN /\ bits_to_N (dens inp b' r) = 0) /\
      (SY = 0%Z ->
         bits_to_N (dens inp b' q) = (if (SX <? 0)%Z then 1 else 2 ^ lenN x - 1) /\
         bits_to_N (dens inp b' r) = bits_to_N (dens inp b x)).
Proof. exact sdiv_gadget_correct. Qed.
Print Assumptions C03_sdiv.

(* ---- comparisons *)
Theorem C03_gt : forall inv, builder_ops_sound inv -> forall b bits x y,
  inv b -> valids b x -> valids b y -> (bits <= length x)%nat -> (bits <= length y)%nat ->
  exists r b', push_gt_circuit b bits x y = Ok (r, b') /\ inv b' /\ ext b b' /\ valid b' r /\
    forall inp, ins_ok b inp ->
      den inp b' r = (bits_to_N (dens inp b (firstn bits y)) <? bits_to_N (dens inp b (firstn bits x))).
Proof. exact gt_gadget_correct. Qed.
Print Assumptions C03_gt.

Theorem C03_cmp_unsigned : forall inv, builder_ops_sound inv -> forall b bits x y,
  inv b -> valids b x -> valids b y -> (bits <= length x)%nat -> (bits <= length y)%nat ->
  exists lt gt b', push_comparator_circuit b bits x false y false = Ok ((lt, gt), b') /\
    inv b' /\ ext b b' /\ valid b' lt /\ valid b' gt /\
    forall inp, ins_ok b inp ->
      let X := bits_to_N (dens inp b (firstn bits x)) in
      let Y := bits_to_N (dens inp b (firstn bits y)) in
      den inp b' lt = (X <? Y) /\ den inp b' gt = (Y <? X).
Proof. exact cmp_gadget_unsigned. Qed.
Print Assumptions C03_cmp_unsigned.

Theorem C03_cmp_signed : forall inv, builder_ops_sound inv -> forall b bits x sx y sy,
  inv b -> valids b x -> valids b y -> (bits <= length x)%nat -> (bits <= length y)%nat ->
  sx || sy = true ->
  exists lt gt b', push_comparator_circuit b bits x sx y sy = Ok ((lt, gt), b') /\
    inv b' /\ ext b b' /\ valid b' lt /\ valid b' gt /\
    forall inp, ins_ok b inp ->
      let SX := bits_to_Z_signed (dens inp b (firstn bits x)) in
      let SY := bits_to_Z_signed (dens inp b (firstn bits y)) in
      den inp b' lt = (SX <? SY)%Z /\ den inp b' gt = (SY <? SX)%Z.
Proof. exact cmp_gadget_signed. Qed.
Print Assumptions C03_cmp_signed.

Theorem C03_eq : forall inv, builder_ops_sound inv -> forall b x y,
  inv b -> valids b x -> valids b y ->
  exists r b', push_eq_circuit b x y = Ok (r, b') /\ inv b' /\ ext b b' /\ valid b' r /\
    forall inp, ins_ok b inp ->
      (den inp b' r = true <-> dens inp b x = dens inp b y) /\
      (length x = length y ->
       den inp b' r = (bits_to_N (dens inp b x) =? bits_to_N (dens inp b y))).
Proof. exact eq_gadget_correct. Qed.
Print Assumptions C03_eq.

(* ---- multiplexer, conditional swap, one cell of the array multiplier *)
Theorem C03_mux : forall inv, builder_ops_sound inv -> forall b s x0 x1,
  inv b -> valid b s -> valid b x0 -> valid b x1 ->
  exists r b', push_mux b s x0 x1 = Ok (r, b') /\ inv b' /\ ext b b' /\ valid b' r /\
    forall inp, ins_ok b inp -> den inp b' r = if den inp b s then den inp b x0 else den inp b x1.
Proof. exact mux_gadget_correct. Qed.
Print Assumptions C03_mux.

Theorem C03_condswap : forall inv, builder_ops_sound inv -> forall b s x y,
  inv b -> valid b s -> valid b x -> valid b y ->
  exists x' y' b', push_condswap b s x y = Ok ((x', y'), b') /\ inv b' /\ ext b b' /\
    valid b' x' /\ valid b' y' /\
    forall inp, ins_ok b inp ->
      (den inp b' x', den inp b' y')
      = if den inp b s then (den inp b y, den inp b x) else (den inp b x, den inp b y).
Proof. exact condswap_gadget_correct. Qed.
Print Assumptions C03_condswap.

Theorem C03_multiplier_cell : forall inv, builder_ops_sound inv -> forall b x y z c,
  inv b -> valid b x -> valid b y -> valid b z -> valid b c ->
  exists s c' b', push_multiplier b x y z c = Ok ((s, c'), b') /\ inv b' /\ ext b b' /\
    valid b' s /\ valid b' c' /\
    forall inp, ins_ok b inp ->
      N.b2n (den inp b' s) + 2 * N.b2n (den inp b' c')
      = N.b2n (den inp b x) * N.b2n (den inp b y) + N.b2n (den inp b z) + N.b2n (den inp b c).
Proof. exact multiplier_gadget_correct. Qed.
Print Assumptions C03_multiplier_cell.

(* ---- casts: widening through extend_to_bits (compile.rs, with the repaired fill count:
   DESIGN.md §6-3) keeps the unsigned value (zero extension) / the two's-complement value
   (sign extension) for EVERY pair of widths and emits no gate; narrowing keeps the value
   modulo 2^k.  (Before the repair the model of the code refuted the sign-extension clause
   for targets >= 4x wider: witness i8 -3 as i32 = -16776963.) *)
Theorem C03_cast_widen : forall inv, builder_ops_sound inv -> forall b v signed bits,
  inv b -> valids b v -> (length v <= bits)%nat ->
  exists r, extend_to_bits v signed bits = Ok r /\ valids b r /\ length r = bits /\
    forall inp, ins_ok b inp ->
      (signed = false -> bits_to_N (dens inp b r) = bits_to_N (dens inp b v)) /\
      (signed = true -> v <> [] ->
       bits_to_Z_signed (dens inp b r) = bits_to_Z_signed (dens inp b v)).
Proof. exact cast_widen_correct. Qed.
Print Assumptions C03_cast_widen.

Theorem C03_cast_truncate : forall (v : list bool) k, (k <= length v)%nat ->
  length (cast_truncate v k) = k /\
  bits_to_N (cast_truncate v k) = bits_to_N v mod 2 ^ N.of_nat k.
Proof. exact truncate_correct. Qed.
Print Assumptions C03_cast_truncate.

(* ---- the pure level (no builder hypothesis at all): what the boolean functions compute *)
Theorem C03_spec_udiv : forall x y, length x = length y ->
  let '(q, r) := udiv_s x y in
  let X := bits_to_N x in let Y := bits_to_N y in
  length q = length x /\ length r = length x /\
  X = bits_to_N q * Y + bits_to_N r /\
  (0 < Y -> bits_to_N r < Y) /\
  (Y = 0 -> bits_to_N q = 2 ^ lenN x - 1 /\ bits_to_N r = X).
Proof. exact udiv_correct. Qed.
Print Assumptions C03_spec_udiv.

Theorem C03_spec_sdiv_min_minus_one : forall x y, x <> [] -> length x = length y ->
  bits_to_Z_signed x = (- Z.of_N (2 ^ (lenN x - 1)))%Z -> bits_to_Z_signed y = (-1)%Z ->
  bits_to_Z_signed (fst (sdiv_s x y)) = (- Z.of_N (2 ^ (lenN x - 1)))%Z /\
  bits_to_N (snd (sdiv_s x y)) = 0.
Proof. exact sdiv_min_minus_one. Qed.
Print Assumptions C03_spec_sdiv_min_minus_one.

(* ---- the overflow signals of the repaired compile.rs (fixes/2-neg-min-overflow,
   fixes/3-signed-div-min-by-minus-one): sign(x) & sign(-x) is set exactly at x = MIN, and
   sign(x) & sign(y) & sign(x/y) exactly at MIN / -1 *)
Theorem C03_neg_overflow_signal : forall x : list bool, x <> [] ->
  let SX := bits_to_Z_signed x in let MIN := (- Z.of_N (2 ^ (lenN x - 1)))%Z in
  (hd false x && hd false (negation_s x) = true <-> SX = MIN) /\
  (SX <> MIN -> bits_to_Z_signed (negation_s x) = (- SX)%Z).
Proof. exact neg_overflow_signal. Qed.
Print Assumptions C03_neg_overflow_signal.

Theorem C03_sdiv_overflow_signal : forall x y, x <> [] -> length x = length y ->
  let SX := bits_to_Z_signed x in let SY := bits_to_Z_signed y in
  let MIN := (- Z.of_N (2 ^ (lenN x - 1)))%Z in
  hd false x && hd false y && hd false (fst (sdiv_s x y)) = true <-> (SX = MIN /\ SY = (-1)%Z).
Proof. exact sdiv_overflow_signal. Qed.
Print Assumptions C03_sdiv_overflow_signal.

(* ---- non-vacuity: the hypotheses are satisfiable and the functions really compute.
   (a) the pure functions on concrete 8-bit operands: 200 + 100 = 44 carry 1; -128 / -1 = -128;
       77 / 0 = 255 rem 77; 100 - 200 borrows; *)
Example C03_example_values :
  let b8 v := N_to_bits 8 v in
  addition_s (b8 200) (b8 100) = (b8 44, true, true) /\
  sdiv_s (b8 128) (b8 255) = (b8 128, b8 0) /\
  udiv_s (b8 77) (b8 0) = (b8 255, b8 77) /\
  subtraction_s (b8 100) (b8 200) false = (b8 156, true) /\
  subtraction_s (b8 127) (b8 255) true = (b8 128, true) /\
  cmp_s 8 (b8 128) true (b8 1) true = (true, false) /\
  gt_s 8 (b8 128) (b8 1) = true.
Proof. vm_compute. repeat split. Qed.

(* (b) the executable builder model on a fresh builder: the adder gadget over two 4-bit
   inputs succeeds and returns 4 sum wires (valid wires exist, lengths agree) *)
Example C03_example_builder :
  match push_addition_circuit (new_builder true [4; 4]) [2; 3; 4; 5] [6; 7; 8; 9] with
  | Ok ((sum, c, cp), b') => length sum = 4%nat /\ c <> cp /\ counter b' > 10
  | _ => False
  end.
Proof. vm_compute. repeat split; congruence. Qed.

(* (c) the hypothesis [builder_ops_sound inv] of every theorem above is inhabited by the
   concrete builder invariant of Builder/BuilderProofs.v (C04), which holds of every fresh
   builder: the theorems are not vacuous and apply to every state reachable from
   [new_builder] through the sound requests. *)
From GV Require Builder.BuilderProofs.
Theorem C03_hypothesis_inhabited :
  exists inv : builder -> Prop,
    builder_ops_sound inv /\ forall dedup inputs, inv (new_builder dedup inputs).
Proof.
  exists BuilderProofs.inv. split; [exact BuilderProofs.builder_sound|].
  exact (bs_new _ BuilderProofs.builder_sound).
Qed.
Print Assumptions C03_hypothesis_inhabited.

(* one instance spelled out with the concrete invariant *)
Theorem C03_sub_unsigned_concrete : forall b x y,
  BuilderProofs.inv b -> valids b x -> valids b y -> length x = length y ->
  exists d ov b', push_subtraction_circuit b x y false = Ok ((d, ov), b') /\
    BuilderProofs.inv b' /\ ext b b' /\ valids b' d /\ valid b' ov /\
    forall inp, ins_ok b inp ->
      let X := bits_to_N (dens inp b x) in let Y := bits_to_N (dens inp b y) in
      length d = length x /\
      bits_to_N (dens inp b' d) = (X + 2 ^ lenN x - Y) mod 2 ^ lenN x /\
      Z.of_N (bits_to_N (dens inp b' d)) = ((Z.of_N X - Z.of_N Y) mod Z.of_N (2 ^ lenN x))%Z /\
      den inp b' ov = (X <? Y).
Proof. exact (sub_gadget_unsigned BuilderProofs.inv BuilderProofs.builder_sound). Qed.
Print Assumptions C03_sub_unsigned_concrete.

(* ------------------------------------------------------------------------------------
   Operator LOWERING (Compile/Lower.v = the model of src/compile.rs, tied gate for gate to the real
   compiler; instance TSem.tops = its bit-level semantics, which every emitted circuit computes
   for all inputs by C01_circuit_computes_bit_semantics): each operator, for EVERY width, is
   bit-exact checked two's-complement arithmetic in the vocabulary of Lang/Sem.v (in_range,
   wrap): result bits, which panic, and exactly when.  Statements: Compile/TSemArith1.v (add,
   sub, neg, comparisons, equality, bitwise, division and remainder) and Compile/TSemArith2.v
   (casts, shifts, the array multiplier unsigned and signed). *)
From GV Require Import Compile.Lower Compile.TSem Compile.TSemArith1 Compile.TSemArith2.
Theorem C03_lowering_lower_add_unsigned : ltac:(let T := type of lower_add_unsigned in exact T).
Proof. exact lower_add_unsigned. Qed.
Print Assumptions C03_lowering_lower_add_unsigned.
Theorem C03_lowering_lower_add_signed : ltac:(let T := type of lower_add_signed in exact T).
Proof. exact lower_add_signed. Qed.
Print Assumptions C03_lowering_lower_add_signed.
Theorem C03_lowering_lower_sub_unsigned : ltac:(let T := type of lower_sub_unsigned in exact T).
Proof. exact lower_sub_unsigned. Qed.
Print Assumptions C03_lowering_lower_sub_unsigned.
Theorem C03_lowering_lower_sub_signed : ltac:(let T := type of lower_sub_signed in exact T).
Proof. exact lower_sub_signed. Qed.
Print Assumptions C03_lowering_lower_sub_signed.
Theorem C03_lowering_lower_neg_correct : ltac:(let T := type of lower_neg_correct in exact T).
Proof. exact lower_neg_correct. Qed.
Print Assumptions C03_lowering_lower_neg_correct.
Theorem C03_lowering_lower_lt_unsigned : ltac:(let T := type of lower_lt_unsigned in exact T).
Proof. exact lower_lt_unsigned. Qed.
Print Assumptions C03_lowering_lower_lt_unsigned.
Theorem C03_lowering_lower_gt_unsigned : ltac:(let T := type of lower_gt_unsigned in exact T).
Proof. exact lower_gt_unsigned. Qed.
Print Assumptions C03_lowering_lower_gt_unsigned.
Theorem C03_lowering_lower_lt_signed : ltac:(let T := type of lower_lt_signed in exact T).
Proof. exact lower_lt_signed. Qed.
Print Assumptions C03_lowering_lower_lt_signed.
Theorem C03_lowering_lower_gt_signed : ltac:(let T := type of lower_gt_signed in exact T).
Proof. exact lower_gt_signed. Qed.
Print Assumptions C03_lowering_lower_gt_signed.
Theorem C03_lowering_lower_eq_unsigned : ltac:(let T := type of lower_eq_unsigned in exact T).
Proof. exact lower_eq_unsigned. Qed.
Print Assumptions C03_lowering_lower_eq_unsigned.
Theorem C03_lowering_lower_ne_unsigned : ltac:(let T := type of lower_ne_unsigned in exact T).
Proof. exact lower_ne_unsigned. Qed.
Print Assumptions C03_lowering_lower_ne_unsigned.
Theorem C03_lowering_lower_eq_signed : ltac:(let T := type of lower_eq_signed in exact T).
Proof. exact lower_eq_signed. Qed.
Print Assumptions C03_lowering_lower_eq_signed.
Theorem C03_lowering_lower_ne_signed : ltac:(let T := type of lower_ne_signed in exact T).
Proof. exact lower_ne_signed. Qed.
Print Assumptions C03_lowering_lower_ne_signed.
Theorem C03_lowering_lower_bitand_unsigned : ltac:(let T := type of lower_bitand_unsigned in exact T).
Proof. exact lower_bitand_unsigned. Qed.
Print Assumptions C03_lowering_lower_bitand_unsigned.
Theorem C03_lowering_lower_bitxor_unsigned : ltac:(let T := type of lower_bitxor_unsigned in exact T).
Proof. exact lower_bitxor_unsigned. Qed.
Print Assumptions C03_lowering_lower_bitxor_unsigned.
Theorem C03_lowering_lower_bitor_unsigned : ltac:(let T := type of lower_bitor_unsigned in exact T).
Proof. exact lower_bitor_unsigned. Qed.
Print Assumptions C03_lowering_lower_bitor_unsigned.
Theorem C03_lowering_lower_bitand_signed : ltac:(let T := type of lower_bitand_signed in exact T).
Proof. exact lower_bitand_signed. Qed.
Print Assumptions C03_lowering_lower_bitand_signed.
Theorem C03_lowering_lower_bitxor_signed : ltac:(let T := type of lower_bitxor_signed in exact T).
Proof. exact lower_bitxor_signed. Qed.
Print Assumptions C03_lowering_lower_bitxor_signed.
Theorem C03_lowering_lower_bitor_signed : ltac:(let T := type of lower_bitor_signed in exact T).
Proof. exact lower_bitor_signed. Qed.
Print Assumptions C03_lowering_lower_bitor_signed.
Theorem C03_lowering_lower_div_unsigned : ltac:(let T := type of lower_div_unsigned in exact T).
Proof. exact lower_div_unsigned. Qed.
Print Assumptions C03_lowering_lower_div_unsigned.
Theorem C03_lowering_lower_mod_unsigned : ltac:(let T := type of lower_mod_unsigned in exact T).
Proof. exact lower_mod_unsigned. Qed.
Print Assumptions C03_lowering_lower_mod_unsigned.
Theorem C03_lowering_lower_div_signed : ltac:(let T := type of lower_div_signed in exact T).
Proof. exact lower_div_signed. Qed.
Print Assumptions C03_lowering_lower_div_signed.
Theorem C03_lowering_lower_mod_signed : ltac:(let T := type of lower_mod_signed in exact T).
Proof. exact lower_mod_signed. Qed.
Print Assumptions C03_lowering_lower_mod_signed.
Theorem C03_lowering_sval_enc_in_range : ltac:(let T := type of sval_enc_in_range in exact T).
Proof. exact sval_enc_in_range. Qed.
Print Assumptions C03_lowering_sval_enc_in_range.
Theorem C03_lowering_uval_enc_in_range : ltac:(let T := type of uval_enc_in_range in exact T).
Proof. exact uval_enc_in_range. Qed.
Print Assumptions C03_lowering_uval_enc_in_range.
Theorem C03_lowering_tsem_zext_correct : ltac:(let T := type of tsem_zext_correct in exact T).
Proof. exact tsem_zext_correct. Qed.
Print Assumptions C03_lowering_tsem_zext_correct.
Theorem C03_lowering_tsem_sext_correct : ltac:(let T := type of tsem_sext_correct in exact T).
Proof. exact tsem_sext_correct. Qed.
Print Assumptions C03_lowering_tsem_sext_correct.
Theorem C03_lowering_tsem_truncate_correct : ltac:(let T := type of tsem_truncate_correct in exact T).
Proof. exact tsem_truncate_correct. Qed.
Print Assumptions C03_lowering_tsem_truncate_correct.
Theorem C03_lowering_tsem_cast_correct : ltac:(let T := type of tsem_cast_correct in exact T).
Proof. exact tsem_cast_correct. Qed.
Print Assumptions C03_lowering_tsem_cast_correct.
Theorem C03_lowering_tsem_shift_layers_value : ltac:(let T := type of tsem_shift_layers_value in exact T).
Proof. exact tsem_shift_layers_value. Qed.
Print Assumptions C03_lowering_tsem_shift_layers_value.
Theorem C03_lowering_tsem_shift_correct : ltac:(let T := type of tsem_shift_correct in exact T).
Proof. exact tsem_shift_correct. Qed.
Print Assumptions C03_lowering_tsem_shift_correct.
Theorem C03_lowering_tsem_lower_shift_other_width : ltac:(let T := type of tsem_lower_shift_other_width in exact T).
Proof. exact tsem_lower_shift_other_width. Qed.
Print Assumptions C03_lowering_tsem_lower_shift_other_width.
Theorem C03_lowering_tsem_mul_unsigned : ltac:(let T := type of tsem_mul_unsigned in exact T).
Proof. exact tsem_mul_unsigned. Qed.
Print Assumptions C03_lowering_tsem_mul_unsigned.
Theorem C03_lowering_tsem_mul_signed : ltac:(let T := type of tsem_mul_signed in exact T).
Proof. exact tsem_mul_signed. Qed.
Print Assumptions C03_lowering_tsem_mul_signed.
Theorem C03_lowering_tsem_binop_mul_checked : ltac:(let T := type of tsem_binop_mul_checked in exact T).
Proof. exact tsem_binop_mul_checked. Qed.
Print Assumptions C03_lowering_tsem_binop_mul_checked.
