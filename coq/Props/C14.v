(* C14 — no shared mutable state.  Frame properties of the specification's environments
   (Lang/Sem.v); the compiled circuits are compared with this specification on
   mutation-heavy programs by tools/c14.py. *)
From GV Require Import Base.Util Lang.Ast Lang.Sem Lang.SemProofs.

Theorem C14_assign_reads_back : forall e x v e',
  assign_var e x v = Some e' -> lookup_var e' x = Some v.
Proof. exact assign_var_same. Qed.
Print Assumptions C14_assign_reads_back.

Theorem C14_assign_frame : forall e x v e' y,
  assign_var e x v = Some e' -> y <> x -> lookup_var e' y = lookup_var e y.
Proof. exact assign_var_other. Qed.
Print Assumptions C14_assign_frame.

Theorem C14_assign_keeps_bindings : forall e x v e',
  assign_var e x v = Some e' ->
  map (map fst) (scopes e') = map (map fst) (scopes e) /\ lenient e' = lenient e.
Proof. exact assign_var_shape. Qed.
Print Assumptions C14_assign_keeps_bindings.

Theorem C14_assign_innermost : forall e x v e' s r,
  scopes e = s :: r -> assocN x s <> None -> assign_var e x v = Some e' -> tl (scopes e') = r.
Proof. exact assign_var_innermost. Qed.
Print Assumptions C14_assign_innermost.

Theorem C14_scope_ends : forall e bs, scopes (pop_scope (bind_all (push_scope e) bs)) = scopes e.
Proof. exact scope_ends. Qed.
Print Assumptions C14_scope_ends.

Theorem C14_shadowing : forall e x v,
  lookup_var (bind_var (push_scope e) x v) x = Some v /\
  lookup_var (pop_scope (bind_var (push_scope e) x v)) x = lookup_var e x.
Proof. exact shadow_then_pop. Qed.
Print Assumptions C14_shadowing.

(* ------------------------------------------------------------------------------------
   The environments of the compiler itself (Compile/Lower.v: the model of src/env.rs, tied
   to the real compiler gate for gate) have the same frame properties, for any wire type:
   values are wire vectors, copied structurally, never shared. *)
From GV Require Import Base.Util Panic.PanicRec Compile.Lower Compile.TSem Compile.TSemFacts.

Theorem C14_compiler_assign_reads_back : forall (E E' : @cenv N) x v,
  env_assign E x v = Ok E' -> env_get E' x = Some v.
Proof. intros E E' x v. apply env_assign_get. Qed.
Print Assumptions C14_compiler_assign_reads_back.

Theorem C14_compiler_assign_frame : forall (E E' : @cenv N) x v y,
  env_assign E x v = Ok E' -> y <> x -> env_get E' y = env_get E y.
Proof. intros E E' x v y. apply env_assign_frame. Qed.
Print Assumptions C14_compiler_assign_frame.

Theorem C14_compiler_assign_keeps_scopes : forall (E E' : @cenv N) x v,
  env_assign E x v = Ok E' -> length E' = length E.
Proof. intros E E' x v. apply env_assign_depth. Qed.
Print Assumptions C14_compiler_assign_keeps_scopes.

Theorem C14_compiler_let_frame : forall (E E' : @cenv N) x v y,
  env_let E x v = Ok E' -> env_get E' x = Some v /\ (y <> x -> env_get E' y = env_get E y).
Proof. intros E E' x v y H. split; [eapply env_let_get; eauto|intro; eapply env_let_frame; eauto]. Qed.
Print Assumptions C14_compiler_let_frame.

Theorem C14_compiler_shadowing_ends_with_scope : forall (E E1 E2 : @cenv N) x v y,
  env_let (env_push E) x v = Ok E1 -> env_pop E1 = Ok E2 -> env_get E2 y = env_get E y.
Proof. intros E E1 E2 x v y. apply env_shadow_ends. Qed.
Print Assumptions C14_compiler_shadowing_ends_with_scope.

(* after an if / else every variable holds the value it has on the path taken: merging two
   environments under a condition bit yields the whole environment of the taken side *)
Theorem C14_merge_selects_taken_path : forall c a b o, same_env_shape a b -> Forall keys_distinct b ->
  mux_envs tops c a b o = Ok (if c then a else b, o).
Proof. exact tsem_mux_envs. Qed.
Print Assumptions C14_merge_selects_taken_path.

(* blocks push a scope, run their statements in order threading variables and panic, pop the
   scope; let / let mut bind in the current scope (Compile/TSemControl.v) *)
From GV Require Import Compile.TSemControl.
Theorem C14_bitsem_tsem_block : ltac:(let T := type of tsem_block in exact T).
Proof. exact tsem_block. Qed.
Print Assumptions C14_bitsem_tsem_block.
Theorem C14_bitsem_tsem_let : ltac:(let T := type of tsem_let in exact T).
Proof. exact tsem_let. Qed.
Print Assumptions C14_bitsem_tsem_let.
Theorem C14_bitsem_tsem_let_mut : ltac:(let T := type of tsem_let_mut in exact T).
Proof. exact tsem_let_mut. Qed.
Print Assumptions C14_bitsem_tsem_let_mut.
Theorem C14_bitsem_tsem_land_short_circuit : ltac:(let T := type of tsem_land_short_circuit in exact T).
Proof. exact tsem_land_short_circuit. Qed.
Print Assumptions C14_bitsem_tsem_land_short_circuit.
Theorem C14_bitsem_tsem_lor_short_circuit : ltac:(let T := type of tsem_lor_short_circuit in exact T).
Proof. exact tsem_lor_short_circuit. Qed.
Print Assumptions C14_bitsem_tsem_lor_short_circuit.

(* Array indexing and accessor writes in the bit-level semantics (Compile/TSemArray.v): a read
   through the mux tree returns exactly element I (any length, not only powers of two), a write
   replaces exactly element I and nothing else, an out-of-bounds index leaves the array unchanged
   and records OutOfBounds; a tuple / struct field read or write touches exactly that field. *)
From GV Require Import Compile.TSemArray.
Theorem C14_bitsem_tsem_array_read : ltac:(let T := type of tsem_array_read in exact T).
Proof. exact tsem_array_read. Qed.
Print Assumptions C14_bitsem_tsem_array_read.
Theorem C14_bitsem_tsem_array_write : ltac:(let T := type of tsem_array_write in exact T).
Proof. exact tsem_array_write. Qed.
Print Assumptions C14_bitsem_tsem_array_write.
Theorem C14_bitsem_tsem_array_write_in_bounds : ltac:(let T := type of tsem_array_write_in_bounds in exact T).
Proof. exact tsem_array_write_in_bounds. Qed.
Print Assumptions C14_bitsem_tsem_array_write_in_bounds.
Theorem C14_bitsem_tsem_array_write_out_of_bounds : ltac:(let T := type of tsem_array_write_out_of_bounds in exact T).
Proof. exact tsem_array_write_out_of_bounds. Qed.
Print Assumptions C14_bitsem_tsem_array_write_out_of_bounds.
Theorem C14_bitsem_tsem_array_read_after_write : ltac:(let T := type of tsem_array_read_after_write in exact T).
Proof. exact tsem_array_read_after_write. Qed.
Print Assumptions C14_bitsem_tsem_array_read_after_write.
Theorem C14_bitsem_slice_field : ltac:(let T := type of (@slice_field bool) in exact T).
Proof. exact (@slice_field bool). Qed.
Print Assumptions C14_bitsem_slice_field.
Theorem C14_bitsem_splice_field : ltac:(let T := type of (@splice_field bool) in exact T).
Proof. exact (@splice_field bool). Qed.
Print Assumptions C14_bitsem_splice_field.
Theorem C14_bitsem_slice_splice_same : ltac:(let T := type of (@slice_splice_same bool) in exact T).
Proof. exact (@slice_splice_same bool). Qed.
Print Assumptions C14_bitsem_slice_splice_same.
Theorem C14_bitsem_slice_splice_other : ltac:(let T := type of (@slice_splice_other bool) in exact T).
Proof. exact (@slice_splice_other bool). Qed.
Print Assumptions C14_bitsem_slice_splice_other.

(* ------------------------------------------------------------------ source level, proved for the
   imperative scalar fragment: after a block with let / let mut / assignments / if-else /
   && / || (branches and operands with effects), every variable of the enclosing scopes holds,
   in the bit-level semantics, the encoding of the value the source semantics gives it
   (env_rel3 is preserved), i.e. the values of the path actually taken and of no other. *)
From GV Require Import Lang.Wt Compile.TSemSemExpr Compile.TSemSemStmt.

Theorem C14_imperative_scalar_blocks_merge_variables_as_the_source_semantics :
  forall P fuel fw g b t en E fT w E' o',
  sc_block fw ([] :: g) b = Some t -> forallb imp_stmt b = true -> env_rel3 VRs en E g ->
  lower_block tops fT P b E None = Ok ((w, E'), o') ->
  match Sem.obind (Sem.exec_block fuel P (Sem.push_scope en) b)
                  (fun '(v, en1) => Sem.Done (v, Sem.pop_scope en1)) with
  | Sem.Done (v, en') => o' = None /\ VRs t v w /\ env_rel3 VRs en' E' g
  | Sem.Panicked r m => o' = Some (preason_num (pr r), PanicSem.ploc32 (ploc_of m))
  | Sem.Stuck _ | Sem.NoFuel => True
  end.
Proof. exact tsem_sem_imp_block. Qed.
Print Assumptions C14_imperative_scalar_blocks_merge_variables_as_the_source_semantics.

(* ------------------------------------------------------------------ the same for the FULL
   fragment (values of every type, aggregates, dynamic indexing, assignment through accessor
   chains, loops over arrays and ranges, patterns, match; Compile/TSemSemFull.v): after a block,
   every variable of the enclosing scopes holds the encoding of the value the source semantics
   gives it - after if/else and match the value assigned on the path actually taken, after a loop
   the value of the last iteration; nested writes change exactly the addressed element (Sem.v's
   write_path); values are copied, never shared (Sem.v is by-value). *)
From GV Require Import Compile.ValEnc Compile.TSemSemAgg Compile.TSemSemFull Lang.ValTy.

Theorem C14_full_fragment_blocks_merge_variables_as_the_source_semantics :
  forall P fuel fw g b t en E fT w E' o',
  enums_small P = true -> scf_block fw P ([] :: g) b = Some t -> env_rel3 (VRa P) en E g ->
  lower_block tops fT P b E None = Ok ((w, E'), o') ->
  match Sem.obind (Sem.exec_block fuel P (Sem.push_scope en) b)
                  (fun '(v, en1) => Sem.Done (v, Sem.pop_scope en1)) with
  | Sem.Done (v, en') => o' = None /\ VRa P t v w /\ env_rel3 (VRa P) en' E' g
  | Sem.Panicked r m => o' = Some (preason_num (pr r), PanicSem.ploc32 (ploc_of m))
  | Sem.Stuck _ | Sem.NoFuel => True
  end.
Proof. exact tsem_sem_full_block. Qed.
Print Assumptions C14_full_fragment_blocks_merge_variables_as_the_source_semantics.
