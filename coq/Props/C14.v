(* C14 — no shared mutable state.  Frame properties of the specification's environments
   (Lang/Sem.v); the compiled circuits are compared with this specification on
   mutation-heavy programs by tools/c14.py. *)
From GV Require Import Base.Util Lang.Ast Lang.Sem Lang.SemProofs.

Theorem C14_assign_reads_back : forall e x v e',
  assign_var e x v = Some e' -> lookup_var e' x = Some v.
Proof. exact assign_var_same. Qed.
Print Assumptions C14_assign_reads_back.

Theorem C14_assign_frame : forall e x v e' y,
  assign_var e x v = Some e' -> y <> x -> lookup_var e' y = lookup_var e y.
Proof. exact assign_var_other. Qed.
Print Assumptions C14_assign_frame.

Theorem C14_assign_keeps_bindings : forall e x v e',
  assign_var e x v = Some e' ->
  map (map fst) (scopes e') = map (map fst) (scopes e) /\ lenient e' = lenient e.
Proof. exact assign_var_shape. Qed.
Print Assumptions C14_assign_keeps_bindings.

Theorem C14_assign_innermost : forall e x v e' s r,
  scopes e = s :: r -> assocN x s <> None -> assign_var e x v = Some e' -> tl (scopes e') = r.
Proof. exact assign_var_innermost. Qed.
Print Assumptions C14_assign_innermost.

Theorem C14_scope_ends : forall e bs, scopes (pop_scope (bind_all (push_scope e) bs)) = scopes e.
Proof. exact scope_ends. Qed.
Print Assumptions C14_scope_ends.

Theorem C14_shadowing : forall e x v,
  lookup_var (bind_var (push_scope e) x v) x = Some v /\
  lookup_var (pop_scope (bind_var (push_scope e) x v)) x = lookup_var e x.
Proof. exact shadow_then_pop. Qed.
Print Assumptions C14_shadowing.
