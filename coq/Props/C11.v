(* C11 — Bristol export/import preserves the function; malformed files are rejected.
   This file only states the property theorems; proofs live in Circuit/BristolProofs.v.
   Model: Circuit/Bristol.v (format_as_bristol / bristol_to_garble / parse_line of
   src/convert.rs on token lines; the importer as repaired by fixes/1-*.patch, 2-*.patch). *)
From GV Require Import Base.Util Circuit.Ssa Circuit.Bristol Circuit.BristolProofs.

(* Round trip.  For every valid circuit shaped like a compiled one (>= 161 panic outputs)
   none of whose non-panic outputs is an input wire, and which fits the machine ([lim] words
   can be allocated, lim <= usize::MAX): the exporter writes a file, the importer accepts that
   file, and the imported circuit has the same parties and computes, for EVERY input
   (whatever its shape), exactly the non-panic output bits of c in the same order. *)
Theorem C11_roundtrip : forall (lim : N) (c : circuit),
  ssa_validate c = None /\
  (PANIC_BITS <= length (output_gates c))%nat /\
  (forall o, In o (skipn PANIC_BITS (output_gates c)) -> num_inputs c <= o) /\
  lim <= USIZE_MAX /\
  wires_len c + 2 * lenN (output_gates c) <= lim ->
  exists ls c',
    export lim c = Ok (inl ls) /\ import ls = Ok (inl c') /\
    input_gates c' = input_gates c /\
    forall ins, ssa_eval c' ins = option_map (skipn PANIC_BITS) (ssa_eval c ins).
Proof. exact export_import_roundtrip. Qed.
Print Assumptions C11_roundtrip.

(* The circuits excluded above are refused, not mis-exported. *)
Theorem C11_export_refuses_input_output : forall (lim : N) (c : circuit),
  ssa_validate c = None -> (PANIC_BITS <= length (output_gates c))%nat ->
  lim <= USIZE_MAX -> wires_len c + 2 * lenN (output_gates c) <= lim ->
  (exists o, In o (skipn PANIC_BITS (output_gates c)) /\ o < num_inputs c) ->
  export lim c = Ok (inr XOutputWireIsInput).
Proof. exact export_refuses_input_output. Qed.
Print Assumptions C11_export_refuses_input_output.

(* The exported text is well-formed Bristol ([bristol_wf], Circuit/Bristol.v): header with
   the right gate and wire counts and the parties of c; one output value of
   |outputs| - 161 bits (one wire per output position, so repeated outputs are de-aliased);
   every gate line has the arity of its gate type; the gate lines assign pairwise distinct
   non-input wires and there are exactly as many of them as non-input wires; every wire
   read is an input or assigned by an earlier line.  That the last wires carry the outputs
   *in order* is C11_export_sem below (and, through the importer, C11_roundtrip). *)
Theorem C11_export_wf : forall (lim : N) (c : circuit) (ls : list line),
  exportable lim c -> export lim c = Ok (inl ls) ->
  bristol_wf (input_gates c) (lenN (output_gates c) - N.of_nat PANIC_BITS) ls.
Proof. exact export_wf. Qed.
Print Assumptions C11_export_wf.

(* ... hence every non-input wire is assigned by exactly one gate line. *)
Theorem C11_wf_assigned_exactly_once : forall ig n_out ls gl,
  ls = [TNum (lenN gl); TNum (sumN ig + lenN gl)]
         :: (TNum (lenN ig) :: map TNum ig) :: [TNum 1; TNum n_out] :: [] :: map bgate_line gl ->
  NoDup (map bg_out gl) ->
  (forall g, In g gl -> sumN ig <= bg_out g < sumN ig + lenN gl) ->
  forall w, sumN ig <= w < sumN ig + lenN gl ->
  exists k g, nthN gl k = Some g /\ bg_out g = w /\
              forall k' g', nthN gl k' = Some g' -> bg_out g' = w -> k' = k.
Proof. exact wf_assigned_exactly_once. Qed.
Print Assumptions C11_wf_assigned_exactly_once.

(* "The outputs are the last wires in order", independently of the importer: the exported
   file read with the reference Bristol semantics ([bristol_eval], Circuit/Bristol.v: inputs
   on the first wires, gates in file order, result = the last n_out wires in ascending
   order) computes exactly the non-panic output bits of c, for every input. *)
Theorem C11_export_sem : forall (lim : N) (c : circuit) (ls : list line),
  exportable lim c -> export lim c = Ok (inl ls) ->
  exists gl,
    ls = [TNum (lenN gl); TNum (sumN (input_gates c) + lenN gl)]
           :: (TNum (lenN (input_gates c)) :: map TNum (input_gates c))
           :: [TNum 1; TNum (lenN (output_gates c) - N.of_nat PANIC_BITS)]
           :: []
           :: map bgate_line gl /\
    forall ins,
      bristol_eval (input_gates c) (lenN (output_gates c) - N.of_nat PANIC_BITS) gl ins =
      option_map (skipn PANIC_BITS) (ssa_eval c ins).
Proof. exact export_bristol_sem. Qed.
Print Assumptions C11_export_sem.

(* Importing any file (any list of token lines) returns a circuit or an error: the model of
   the (repaired) importer contains every panicking primitive of the Rust code (slices,
   indexing, checked usize subtraction and addition) and none of them fires; its one fuelled
   loop never runs out of fuel. *)
Theorem C11_import_total : forall ls : list line,
  import ls <> Crash /\ import ls <> OutOfFuel.
Proof. exact import_total. Qed.
Print Assumptions C11_import_total.

(* the hypotheses of C11_roundtrip / C11_export_wf are satisfiable by a circuit with
   repeated outputs, an output feeding later gates and a Not gate *)
Theorem C11_nonvacuous : exportable 67108864 ex_circuit.
Proof. exact ex_exportable. Qed.
Print Assumptions C11_nonvacuous.
