(* C04 — circuit optimisations never change the computed function.
   (property theorems are added below as the proofs in Builder/*Proofs.v land) *)
From GV Require Import Base.Util Base.NMap Circuit.Ssa Builder.Builder Builder.Build.

(* sanity: the model really rewrites — (a&b) ^ (a&c) becomes a & (b^c) *)
Theorem C04_model_rewrites_example :
  let b0 := new_builder true [3] in
  match push_and_top b0 2 3 with
  | Ok (w1, b1) =>
    match push_and_top b1 2 4 with
    | Ok (w2, b2) =>
      match push_xor_top b2 w1 w2 with
      | Ok (w3, b3) => rev (b_gates_rev b3) = [BAnd 2 3; BAnd 2 4; BXor 3 4; BAnd 2 7] /\ w3 = 8
      | _ => False
      end
    | _ => False
    end
  | _ => False
  end.
Proof. vm_compute. split; reflexivity. Qed.
Print Assumptions C04_model_rewrites_example.
