(* C04 — circuit optimisations never change the computed function.
   (property theorems are added below as the proofs in Builder/*Proofs.v land) *)
From GV Require Import Base.Util Base.NMap Circuit.Ssa Builder.Builder Builder.Build
  Builder.BuilderSem Builder.BuilderSpec Builder.BuilderProofs.

(* sanity: the model really rewrites — (a&b) ^ (a&c) becomes a & (b^c) *)
Theorem C04_model_rewrites_example :
  let b0 := new_builder true [3] in
  match push_and_top b0 2 3 with
  | Ok (w1, b1) =>
    match push_and_top b1 2 4 with
    | Ok (w2, b2) =>
      match push_xor_top b2 w1 w2 with
      | Ok (w3, b3) => rev (b_gates_rev b3) = [BAnd 2 3; BAnd 2 4; BXor 3 4; BAnd 2 7] /\ w3 = 8
      | _ => False
      end
    | _ => False
    end
  | _ => False
  end.
Proof. vm_compute. split; reflexivity. Qed.
Print Assumptions C04_model_rewrites_example.

(* Every wire handed back by a builder request denotes the requested Boolean function of its
   operands -- for every builder state reachable by any request sequence ([inv] holds for
   [new_builder] and is preserved by every request), with gate de-duplication on or off
   ([b_dedup] is arbitrary), whatever fold, cache hit or algebraic rewrite fired; wires
   handed out earlier keep their meaning ([ext]); the explicit recursion fuel of the model
   never runs out and the model never crashes on valid wires (the result is [Ok]). *)
Theorem C04_requests_sound : builder_ops_sound inv.
Proof. exact builder_sound. Qed.
Print Assumptions C04_requests_sound.

(* the two primitive requests, spelled out *)
Theorem C04_push_xor : forall b x y, inv b -> valid b x -> valid b y ->
  exists r b', push_xor_top b x y = Ok (r, b') /\ inv b' /\ ext b b' /\ valid b' r /\
    forall inp, ins_ok b inp -> den inp b' r = xorb (den inp b x) (den inp b y).
Proof. exact push_xor_top_sound. Qed.
Print Assumptions C04_push_xor.

Theorem C04_push_and : forall b x y, inv b -> valid b x -> valid b y ->
  exists r b', push_and_top b x y = Ok (r, b') /\ inv b' /\ ext b b' /\ valid b' r /\
    forall inp, ins_ok b inp -> den inp b' r = andb (den inp b x) (den inp b y).
Proof. exact push_and_top_sound. Qed.
Print Assumptions C04_push_and.

Theorem C04_new_builder_inv : forall dedup inputs, inv (new_builder dedup inputs).
Proof. exact inv_new. Qed.
Print Assumptions C04_new_builder_inv.

(* ---- pruning + final numbering ---- *)
From GV Require Import Circuit.SsaProofs Builder.BuildProofs Builder.Requests.

(* build: for every reachable builder state and every list of requested output wires, the
   circuit returned by build (after removing the gates that reach no output and
   renumbering to the final numbering) passes its own validation and outputs, on every
   input, exactly the denotations of the 161 panic-record wires followed by the requested
   wires. *)
Theorem C04_build_sound : forall b pw outs,
  inv b -> valids b pw -> valids b outs -> pw ++ outs <> [] ->
  2 < b_shift b -> counter b + (b_shift b - 2) <= MAX_GATES ->
  exists c, build b pw outs = Ok c /\
    ssa_validate c = None /\
    input_gates c = b_inputs b /\
    length (output_gates c) = length (pw ++ outs) /\
    forall ins inp, load_inputs (b_inputs b) ins = Some inp ->
      ssa_eval c ins = Some (map (den inp b) (pw ++ outs)).
Proof. exact build_sound. Qed.
Print Assumptions C04_build_sound.

(* THE HEADLINE: for any sequence of gate requests (xor / and / or / eq / not / mux over
   earlier results, inputs and the two constants), with de-duplication on or off, the built
   circuit computes the same outputs as the same requests executed literally on Booleans
   with no simplification at all ([lit_reqs]); the 161 leading outputs are the bits of the
   untouched panic record. *)
Theorem C04_builder : forall dedup inputs rs outs ins inp vs ovs,
  load_inputs inputs ins = Some inp -> 1 <= sumN inputs ->
  lit_reqs inp [] rs = Some vs ->
  mapM (lit_opnd inp vs) outs = Some ovs ->
  exists b hs ows,
    run_reqs (new_builder dedup inputs) [] rs = Ok (b, hs) /\
    mapM (resolve hs) outs = Some ows /\
    (counter b + (b_shift b - 2) <= MAX_GATES ->
     exists c, build b panic_ok_wires ows = Ok c /\
       ssa_validate c = None /\
       ssa_eval c ins = Some (panic_ok_bits ++ ovs)).
Proof. exact requests_then_build. Qed.
Print Assumptions C04_builder.

(* consequently dedup on and dedup off compute the same function *)
Theorem C04_dedup_irrelevant : forall inputs rs outs ins inp vs ovs,
  load_inputs inputs ins = Some inp -> 1 <= sumN inputs ->
  lit_reqs inp [] rs = Some vs -> mapM (lit_opnd inp vs) outs = Some ovs ->
  forall b1 hs1 ows1 c1 b2 hs2 ows2 c2,
    run_reqs (new_builder true inputs) [] rs = Ok (b1, hs1) -> mapM (resolve hs1) outs = Some ows1 ->
    run_reqs (new_builder false inputs) [] rs = Ok (b2, hs2) -> mapM (resolve hs2) outs = Some ows2 ->
    counter b1 + (b_shift b1 - 2) <= MAX_GATES -> counter b2 + (b_shift b2 - 2) <= MAX_GATES ->
    build b1 panic_ok_wires ows1 = Ok c1 -> build b2 panic_ok_wires ows2 = Ok c2 ->
    ssa_eval c1 ins = ssa_eval c2 ins.
Proof.
  intros inputs rs outs ins inp vs ovs Hl Hp Hr Ho b1 hs1 ows1 c1 b2 hs2 ows2 c2 R1 O1 R2 O2 M1 M2 B1 B2.
  destruct (requests_then_build true inputs rs outs ins inp vs ovs Hl Hp Hr Ho) as (b1' & hs1' & ows1' & R1' & O1' & K1).
  destruct (requests_then_build false inputs rs outs ins inp vs ovs Hl Hp Hr Ho) as (b2' & hs2' & ows2' & R2' & O2' & K2).
  rewrite R1 in R1'. injection R1' as <- <-. rewrite O1 in O1'. injection O1' as <-.
  rewrite R2 in R2'. injection R2' as <- <-. rewrite O2 in O2'. injection O2' as <-.
  destruct (K1 M1) as (c1' & B1' & _ & E1). destruct (K2 M2) as (c2' & B2' & _ & E2).
  rewrite B1 in B1'. injection B1' as <-. rewrite B2 in B2'. injection B2' as <-. congruence.
Qed.
Print Assumptions C04_dedup_irrelevant.

(* program level: whatever a program computes (Compile/TSem.v), the circuits emitted with
   and without gate de-duplication decode to the same panic / the same value *)
From GV Require Import Builder.Build Panic.PanicRec Panic.PanicSem Lang.Ast Compile.Lower Compile.TSem Compile.LowerSound.

Theorem C04_program_dedup_irrelevant : forall fuel P s1 outs1 s2 outs2,
  lower_main_with fuel true P = Ok (PreOk s1 outs1) -> lower_main_with fuel false P = Ok (PreOk s2 outs2) ->
  counter (cb s1) + (b_shift (cb s1) - 2) <= MAX_GATES ->
  counter (cb s2) + (b_shift (cb s2) - 2) <= MAX_GATES ->
  exists fd igs bindings,
    find_fn P (p_main P) = Some fd /\ param_wiring P (fn_params fd) = (igs, bindings) /\
    forall ins inp o vouts,
      load_inputs igs ins = Some inp ->
      tsem_program fuel P (param_args bindings inp) = Ok (o, vouts) ->
      exists c1 c2 out1 out2,
        lower_program_with fuel true P = Ok (LCircuit c1) /\ lower_program_with fuel false P = Ok (LCircuit c2) /\
        ssa_eval c1 ins = Some out1 /\ ssa_eval c2 ins = Some out2 /\
        parse_panic out1 = parse_panic out2 /\ (o = None -> skipn 161 out1 = skipn 161 out2).
Proof. exact lower_dedup_irrelevant. Qed.
Print Assumptions C04_program_dedup_irrelevant.
