(* C04 — circuit optimisations never change the computed function.
   (property theorems are added below as the proofs in Builder/*Proofs.v land) *)
From GV Require Import Base.Util Base.NMap Circuit.Ssa Builder.Builder Builder.Build
  Builder.BuilderSem Builder.BuilderSpec Builder.BuilderProofs.

(* sanity: the model really rewrites — (a&b) ^ (a&c) becomes a & (b^c) *)
Theorem C04_model_rewrites_example :
  let b0 := new_builder true [3] in
  match push_and_top b0 2 3 with
  | Ok (w1, b1) =>
    match push_and_top b1 2 4 with
    | Ok (w2, b2) =>
      match push_xor_top b2 w1 w2 with
      | Ok (w3, b3) => rev (b_gates_rev b3) = [BAnd 2 3; BAnd 2 4; BXor 3 4; BAnd 2 7] /\ w3 = 8
      | _ => False
      end
    | _ => False
    end
  | _ => False
  end.
Proof. vm_compute. split; reflexivity. Qed.
Print Assumptions C04_model_rewrites_example.

(* Every wire handed back by a builder request denotes the requested Boolean function of its
   operands -- for every builder state reachable by any request sequence ([inv] holds for
   [new_builder] and is preserved by every request), with gate de-duplication on or off
   ([b_dedup] is arbitrary), whatever fold, cache hit or algebraic rewrite fired; wires
   handed out earlier keep their meaning ([ext]); the explicit recursion fuel of the model
   never runs out and the model never crashes on valid wires (the result is [Ok]). *)
Theorem C04_requests_sound : builder_ops_sound inv.
Proof. exact builder_sound. Qed.
Print Assumptions C04_requests_sound.

(* the two primitive requests, spelled out *)
Theorem C04_push_xor : forall b x y, inv b -> valid b x -> valid b y ->
  exists r b', push_xor_top b x y = Ok (r, b') /\ inv b' /\ ext b b' /\ valid b' r /\
    forall inp, ins_ok b inp -> den inp b' r = xorb (den inp b x) (den inp b y).
Proof. exact push_xor_top_sound. Qed.
Print Assumptions C04_push_xor.

Theorem C04_push_and : forall b x y, inv b -> valid b x -> valid b y ->
  exists r b', push_and_top b x y = Ok (r, b') /\ inv b' /\ ext b b' /\ valid b' r /\
    forall inp, ins_ok b inp -> den inp b' r = andb (den inp b x) (den inp b y).
Proof. exact push_and_top_sound. Qed.
Print Assumptions C04_push_and.

Theorem C04_new_builder_inv : forall dedup inputs, inv (new_builder dedup inputs).
Proof. exact inv_new. Qed.
Print Assumptions C04_new_builder_inv.
