(* C08 — proofs about Pat.v / Covers.v. *)
From GV Require Import Base.Util Exhaust.Pat Exhaust.Covers.
Local Open Scope Z_scope.

(* ================================================================ generic list lemmas *)

Lemma forall2b_nil {A B} (f : A -> B -> bool) : forall2b f [] [] = true.
Proof. reflexivity. Qed.

Lemma forall2b_cons {A B} (f : A -> B -> bool) a r1 b r2 :
  forall2b f (a :: r1) (b :: r2) = f a b && forall2b f r1 r2.
Proof. reflexivity. Qed.

Lemma forall2b_Forall2 {A B} (f : A -> B -> bool) l1 l2 :
  forall2b f l1 l2 = true <-> Forall2 (fun a b => f a b = true) l1 l2.
Proof.
  revert l2. induction l1 as [|a r1 IH]; intros [|b r2].
  - split; [constructor|reflexivity].
  - split; [discriminate|intro H; inversion H].
  - split; [discriminate|intro H; inversion H].
  - rewrite forall2b_cons, andb_true_iff, IH. split.
    + intros [Hab Hr]. now constructor.
    + intro H. inversion H; subst. now split.
Qed.

Lemma Forall2_length' {A B} (R : A -> B -> Prop) l1 l2 : Forall2 R l1 l2 -> length l1 = length l2.
Proof. induction 1; cbn [length]; congruence. Qed.

Lemma mapM_Forall2 {A B} (f : A -> option B) l bs :
  mapM f l = Some bs <-> Forall2 (fun a b => f a = Some b) l bs.
Proof.
  revert bs. induction l as [|a r IH]; intros bs; cbn [mapM].
  - split.
    + intro H. inversion H. constructor.
    + intro H. inversion H. reflexivity.
  - split.
    + intro H. destruct (f a) as [b|] eqn:Ea; [|discriminate].
      destruct (mapM f r) as [bs'|] eqn:Er; [|discriminate].
      inversion H; subst. constructor; [assumption|]. now apply IH.
    + intro H. inversion H as [|a' b r' bs' Hab Hr]; subst.
      rewrite Hab. apply IH in Hr. now rewrite Hr.
Qed.

Lemma mapM_map {A B C} (g : A -> B) (f : B -> option C) l :
  mapM (fun a => f (g a)) l = mapM f (map g l).
Proof.
  induction l as [|a r IH]; cbn [mapM map]; [reflexivity|]. now rewrite IH.
Qed.

Lemma Forall2_In_l {A B} (R : A -> B -> Prop) l1 l2 a :
  Forall2 R l1 l2 -> In a l1 -> exists b, In b l2 /\ R a b.
Proof.
  induction 1 as [|x y r1 r2 Hxy Hr IH]; intro Hin; [destruct Hin|].
  destruct Hin as [->|Hin].
  - exists y. split; [now left|assumption].
  - destruct (IH Hin) as [b [Hb HR]]. exists b. split; [now right|assumption].
Qed.

Lemma Forall2_In_r {A B} (R : A -> B -> Prop) l1 l2 b :
  Forall2 R l1 l2 -> In b l2 -> exists a, In a l1 /\ R a b.
Proof.
  induction 1 as [|x y r1 r2 Hxy Hr IH]; intro Hin; [destruct Hin|].
  destruct Hin as [->|Hin].
  - exists x. split; [now left|assumption].
  - destruct (IH Hin) as [a [Ha HR]]. exists a. split; [now right|assumption].
Qed.

Lemma assocN_In {A} k (l : list (N * A)) a : assocN k l = Some a -> In (k, a) l.
Proof.
  induction l as [|[k' a'] r IH]; cbn [assocN]; [discriminate|].
  destruct (N.eqb_spec k k') as [->|Hne]; intro H.
  - inversion H; subst. now left.
  - right. now apply IH.
Qed.

Lemma memN_In k l : memN k l = true <-> In k l.
Proof.
  unfold memN. rewrite existsb_exists. split.
  - intros [x [Hin Hx]]. apply N.eqb_eq in Hx. now subst.
  - intro Hin. exists k. split; [assumption|apply N.eqb_refl].
Qed.

Lemma assocN_nodup {A} k (l : list (N * A)) a :
  nodupN (map fst l) = true -> In (k, a) l -> assocN k l = Some a.
Proof.
  induction l as [|[k' a'] r IH]; cbn [map fst nodupN assocN]; intros Hnd Hin; [destruct Hin|].
  apply andb_true_iff in Hnd. destruct Hnd as [Hnot Hnd].
  destruct Hin as [Heq|Hin].
  - inversion Heq; subst. now rewrite N.eqb_refl.
  - destruct (N.eqb_spec k k') as [->|Hne]; [|now apply IH].
    exfalso. apply negb_true_iff in Hnot.
    assert (Hm : memN k' (map fst r) = true).
    { apply memN_In. change k' with (fst (k', a)). now apply in_map. }
    congruence.
Qed.

Lemma incl_flat_map {A B} (f : A -> list B) l a sp :
  incl (flat_map f l) sp -> In a l -> incl (f a) sp.
Proof.
  intros Hincl Hin x Hx. apply Hincl. apply in_flat_map. now exists a.
Qed.

Lemma forallb_ext_in' {A} (f g : A -> bool) l :
  (forall a, In a l -> f a = g a) -> forallb f l = forallb g l.
Proof.
  induction l as [|a r IH]; intro H; cbn [forallb]; [reflexivity|].
  rewrite (H a (or_introl eq_refl)). f_equal. apply IH. intros; apply H; now right.
Qed.

(* ================================================================ induction on patterns *)

Section PatternInd.
  Variable P : pattern -> Prop.
  Hypothesis HVar : forall x, P (PVar x).
  Hypothesis HBool : forall b, P (PBool b).
  Hypothesis HNum : forall sl z, P (PNum sl z).
  Hypothesis HRange : forall sl lo hi, P (PRange sl lo hi).
  Hypothesis HTuple : forall ps, Forall P ps -> P (PTuple ps).
  Hypothesis HStruct : forall n fs rest, Forall (fun fp => P (snd fp)) fs -> P (PStruct n fs rest).
  Hypothesis HEnumU : forall n x, P (PEnum n x None).
  Hypothesis HEnumT : forall n x ps, Forall P ps -> P (PEnum n x (Some ps)).

  Fixpoint pattern_ind' (p : pattern) : P p :=
    match p with
    | PVar x => HVar x
    | PBool b => HBool b
    | PNum sl z => HNum sl z
    | PRange sl lo hi => HRange sl lo hi
    | PTuple ps =>
        HTuple ps ((fix go (l : list pattern) : Forall P l :=
                      match l with
                      | [] => Forall_nil P
                      | q :: r => Forall_cons q (pattern_ind' q) (go r)
                      end) ps)
    | PStruct n fs rest =>
        HStruct n fs rest
                ((fix go (l : list (N * pattern)) : Forall (fun fp => P (snd fp)) l :=
                    match l with
                    | [] => Forall_nil _
                    | (f, q) :: r => Forall_cons (f, q) (pattern_ind' q) (go r)
                    end) fs)
    | PEnum n x None => HEnumU n x
    | PEnum n x (Some ps) =>
        HEnumT n x ps ((fix go (l : list pattern) : Forall P l :=
                          match l with
                          | [] => Forall_nil P
                          | q :: r => Forall_cons q (pattern_ind' q) (go r)
                          end) ps)
    end.
End PatternInd.

(* ================================================================ unfolding lemmas *)

Lemma pm_tuple ps vs : pat_matches (PTuple ps) (VTuple vs) = forall2b pat_matches ps vs.
Proof. reflexivity. Qed.

Lemma pm_struct n fs rest n' fvs :
  pat_matches (PStruct n fs rest) (VStruct n' fvs) =
  N.eqb n n' &&
  forallb (fun fp : N * pattern =>
             let '(f, p') := fp in
             match assocN f fvs with Some v' => pat_matches p' v' | None => false end) fs.
Proof. reflexivity. Qed.

Lemma pm_enum n x pl n' x' vs :
  pat_matches (PEnum n x pl) (VEnum n' x' vs) =
  N.eqb n n' && N.eqb x x' &&
  match pl with None => true | Some ps => forall2b pat_matches ps vs end.
Proof. reflexivity. Qed.

Lemma simb_tuple sp vs rs : simb sp (VTuple vs) (VTuple rs) = forall2b (simb sp) vs rs.
Proof. reflexivity. Qed.

Definition sim_field (sp : list Z) (fv fr : N * value) : bool :=
  let '(f, v') := fv in let '(f', r') := fr in N.eqb f f' && simb sp v' r'.

Lemma simb_struct sp n fvs n' frs :
  simb sp (VStruct n fvs) (VStruct n' frs) = N.eqb n n' && forall2b (sim_field sp) fvs frs.
Proof. reflexivity. Qed.

Lemma simb_enum sp n x vs n' x' rs :
  simb sp (VEnum n x vs) (VEnum n' x' rs) = N.eqb n n' && N.eqb x x' && forall2b (simb sp) vs rs.
Proof. reflexivity. Qed.

Definition ht_field (env : tyenv) (fv : N * value) (ft : N * ty) : bool :=
  let '(f, v') := fv in let '(f', t') := ft in N.eqb f f' && has_type env v' t'.

Lemma ht_tuple env vs ts : has_type env (VTuple vs) (TTuple ts) = forall2b (has_type env) vs ts.
Proof. reflexivity. Qed.

Lemma ht_struct env n fvs n' :
  has_type env (VStruct n fvs) (TStruct n') =
  N.eqb n n' &&
  match assocN n (structs env) with
  | Some fts => forall2b (ht_field env) fvs fts
  | None => false
  end.
Proof. reflexivity. Qed.

Lemma ht_enum env n x vs n' :
  has_type env (VEnum n x vs) (TEnum n') =
  N.eqb n n' &&
  match assocN n (enums env) with
  | Some variants =>
      match assocN x variants with
      | Some None => match vs with [] => true | _ => false end
      | Some (Some ts) => forall2b (has_type env) vs ts
      | None => false
      end
  | None => false
  end.
Proof. reflexivity. Qed.

(* ================================================================ regions *)

Lemma same_side_spec sp a b s :
  same_side sp a b = true -> In s sp -> (s <= a <-> s <= b).
Proof.
  unfold same_side. rewrite forallb_forall. intros H Hin.
  specialize (H s Hin). apply eqb_prop in H.
  split; intro Hle.
  - apply Z.leb_le. rewrite <- H. now apply Z.leb_le.
  - apply Z.leb_le. rewrite H. now apply Z.leb_le.
Qed.

Lemma same_side_refl sp a : same_side sp a a = true.
Proof. unfold same_side. apply forallb_forall. intros s _. apply eqb_reflx. Qed.

(* an association list lookup sees similar values in similar field lists *)
Lemma sim_assoc sp f fvs frs :
  forall2b (sim_field sp) fvs frs = true ->
  match assocN f fvs, assocN f frs with
  | Some v', Some r' => simb sp v' r' = true
  | None, None => True
  | _, _ => False
  end.
Proof.
  revert frs. induction fvs as [|[g v'] r IH]; intros [|[g' r'] rr] H.
  - exact I.
  - discriminate.
  - discriminate.
  - rewrite forall2b_cons in H. apply andb_true_iff in H. destruct H as [Hhd Htl].
    unfold sim_field in Hhd. apply andb_true_iff in Hhd. destruct Hhd as [Hg Hs].
    apply N.eqb_eq in Hg. subst g'. cbn [assocN].
    destruct (N.eqb f g); [assumption|]. now apply IH.
Qed.

Lemma sim_forall2 sp (ps : list pattern) :
  Forall (fun p => forall v r, simb sp v r = true -> pat_matches p v = pat_matches p r) ps ->
  forall vs rs, forall2b (simb sp) vs rs = true ->
  forall2b pat_matches ps vs = forall2b pat_matches ps rs.
Proof.
  induction 1 as [|p ps' Hp Hps IH]; intros vs rs Hs.
  - destruct vs, rs; try reflexivity; discriminate.
  - destruct vs as [|v vs'], rs as [|r rs']; try reflexivity; try discriminate.
    rewrite forall2b_cons in Hs. apply andb_true_iff in Hs. destruct Hs as [Hv Hvs].
    rewrite !forall2b_cons. rewrite (Hp v r Hv). now rewrite (IH vs' rs' Hvs).
Qed.

(* patterns cannot tell apart two values of one region *)
Lemma sim_matches sp p :
  incl (pat_points p) sp ->
  forall v r, simb sp v r = true -> pat_matches p v = pat_matches p r.
Proof.
  induction p as [x|b|sl z|sl lo hi|ps IH|n fs rest IH|n x|n x ps IH] using pattern_ind';
    intros Hincl v r Hsim.
  - reflexivity.
  - destruct v, r; try discriminate; try reflexivity.
    cbn [simb] in Hsim. apply eqb_prop in Hsim. now subst.
  - destruct v as [| a | | |], r as [| c | | |]; try discriminate; try reflexivity.
    cbn [simb] in Hsim. cbn [pat_matches].
    assert (H1 := same_side_spec sp a c z Hsim (Hincl z (or_introl eq_refl))).
    assert (H2 := same_side_spec sp a c (z + 1) Hsim (Hincl (z + 1) (or_intror (or_introl eq_refl)))).
    destruct (Z.eqb_spec a z), (Z.eqb_spec c z); try reflexivity; lia.
  - destruct v as [| a | | |], r as [| c | | |]; try discriminate; try reflexivity.
    cbn [simb] in Hsim. cbn [pat_matches].
    assert (H1 := same_side_spec sp a c lo Hsim (Hincl lo (or_introl eq_refl))).
    assert (H2 := same_side_spec sp a c (hi + 1) Hsim (Hincl (hi + 1) (or_intror (or_introl eq_refl)))).
    destruct (Z.leb_spec lo a), (Z.leb_spec lo c), (Z.leb_spec a hi), (Z.leb_spec c hi);
      try reflexivity; lia.
  - destruct v as [| | vs | |], r as [| | rs | |]; try discriminate; try reflexivity.
    rewrite simb_tuple in Hsim. rewrite !pm_tuple.
    apply sim_forall2 with (sp := sp); [|assumption].
    rewrite Forall_forall in IH |- *. intros p Hp. apply IH; [assumption|].
    cbn [pat_points] in Hincl. now apply incl_flat_map with (l := ps).
  - destruct v as [| | | n1 fvs |], r as [| | | n2 frs |]; try discriminate; try reflexivity.
    rewrite simb_struct in Hsim. apply andb_true_iff in Hsim. destruct Hsim as [Hn Hf].
    apply N.eqb_eq in Hn. subst n2. rewrite !pm_struct. f_equal.
    apply forallb_ext_in'. intros [f p] Hin.
    assert (Hp := sim_assoc sp f fvs frs Hf).
    destruct (assocN f fvs) as [v'|], (assocN f frs) as [r'|]; try reflexivity; try contradiction.
    rewrite Forall_forall in IH. apply (IH (f, p) Hin); [|assumption].
    cbn [pat_points] in Hincl.
    apply (incl_flat_map (fun fp : N * pattern => let '(_, p') := fp in pat_points p') fs (f, p) sp Hincl Hin).
  - destruct v as [| | | | n1 x1 vs], r as [| | | | n2 x2 rs]; try discriminate; try reflexivity.
    rewrite simb_enum in Hsim. apply andb_true_iff in Hsim. destruct Hsim as [Hnx _].
    apply andb_true_iff in Hnx. destruct Hnx as [Hn Hx].
    apply N.eqb_eq in Hn. apply N.eqb_eq in Hx. subst. reflexivity.
  - destruct v as [| | | | n1 x1 vs], r as [| | | | n2 x2 rs]; try discriminate; try reflexivity.
    rewrite simb_enum in Hsim. apply andb_true_iff in Hsim. destruct Hsim as [Hnx Hvs].
    apply andb_true_iff in Hnx. destruct Hnx as [Hn Hx].
    apply N.eqb_eq in Hn. apply N.eqb_eq in Hx. subst. rewrite !pm_enum. f_equal.
    apply sim_forall2 with (sp := sp); [|assumption].
    rewrite Forall_forall in IH |- *. intros p Hp. apply IH; [assumption|].
    cbn [pat_points] in Hincl. now apply incl_flat_map with (l := ps).
Qed.


(* ================================================================ integer representatives *)

Lemma int_lo_le_hi_or_empty sg w z : in_int sg w z = true -> int_lo sg w <= z <= int_hi sg w.
Proof.
  unfold in_int. intro H. apply andb_true_iff in H. destruct H as [H1 H2].
  apply Z.leb_le in H1. apply Z.leb_le in H2. lia.
Qed.

(* the largest split point in (lo, v], or lo *)
Definition best (sp : list Z) (lo v : Z) : Z :=
  fold_right (fun s acc => if (acc <? s) && (s <=? v) then s else acc) lo sp.

Lemma best_spec sp lo v :
  lo <= v ->
  lo <= best sp lo v <= v /\
  (best sp lo v = lo \/ (In (best sp lo v) sp /\ lo < best sp lo v)) /\
  (forall s, In s sp -> s <= v -> s <= best sp lo v).
Proof.
  intro Hlo. induction sp as [|s r IH]; cbn [best fold_right].
  - split; [lia|]. split; [now left|]. intros s [].
  - fold (best r lo v). destruct IH as [Hr [Hin Hmax]].
    destruct (Z.ltb_spec (best r lo v) s) as [Hlt|Hge];
      destruct (Z.leb_spec s v) as [Hsv|Hsv]; cbn [andb].
    + split; [lia|]. split.
      * right. split; [now left|lia].
      * intros s' [<-|Hs'] Hle; [lia|]. specialize (Hmax s' Hs' Hle). lia.
    + split; [lia|]. split.
      * destruct Hin as [Heq|[Hi Hl]]; [now left|right; split; [now right|assumption]].
      * intros s' [<-|Hs'] Hle; [lia|]. now apply Hmax.
    + split; [lia|]. split.
      * destruct Hin as [Heq|[Hi Hl]]; [now left|right; split; [now right|assumption]].
      * intros s' [<-|Hs'] Hle; [lia|]. now apply Hmax.
    + split; [lia|]. split.
      * destruct Hin as [Heq|[Hi Hl]]; [now left|right; split; [now right|assumption]].
      * intros s' [<-|Hs'] Hle; [lia|]. now apply Hmax.
Qed.

Lemma int_reps_In sp lo hi r :
  In r (int_reps sp lo hi) <-> lo <= hi /\ (r = lo \/ (In r sp /\ lo < r <= hi)).
Proof.
  unfold int_reps. destruct (Z.ltb_spec hi lo) as [Hlt|Hge].
  - split; [intros []|]. intros [H _]. lia.
  - cbn [In]. rewrite nodup_In, filter_In. split.
    + intros [<-|[Hin Hb]]; (split; [assumption|]); [now left|].
      apply andb_true_iff in Hb. destruct Hb as [H1 H2].
      apply Z.ltb_lt in H1. apply Z.leb_le in H2. right. split; [assumption|lia].
    + intros [_ [->|[Hin [H1 H2]]]]; [now left|].
      right. split; [assumption|]. apply andb_true_iff. split; [now apply Z.ltb_lt|now apply Z.leb_le].
Qed.

Lemma int_reps_complete sp lo hi v :
  lo <= v <= hi -> exists r, In r (int_reps sp lo hi) /\ same_side sp v r = true.
Proof.
  intros [Hlo Hhi]. exists (best sp lo v).
  destruct (best_spec sp lo v Hlo) as [Hr [Hin Hmax]]. split.
  - apply int_reps_In. split; [lia|].
    destruct Hin as [Heq|[Hi Hl]]; [now left|right; split; [assumption|lia]].
  - unfold same_side. apply forallb_forall. intros s Hs.
    destruct (Z.leb_spec s v) as [Hsv|Hsv], (Z.leb_spec s (best sp lo v)) as [Hsb|Hsb];
      try reflexivity; exfalso.
    + specialize (Hmax s Hs Hsv). lia.
    + lia.
Qed.

Lemma int_reps_range sp lo hi r : In r (int_reps sp lo hi) -> lo <= r <= hi.
Proof. rewrite int_reps_In. intros [H [->|[_ H2]]]; lia. Qed.

(* ================================================================ products *)

Lemma lprod_In {A} cap (ls : list (list A)) out :
  lprod cap ls = Some out ->
  forall xs, In xs out <-> Forall2 (fun x l => In x l) xs ls.
Proof.
  revert out. induction ls as [|l rest IH]; intros out H xs; cbn [lprod] in H.
  - inversion H; subst. cbn [In]. split.
    + intros [<-|[]]. constructor.
    + intro HF. inversion HF. now left.
  - destruct (lprod cap rest) as [tails|] eqn:Et; [|discriminate].
    destruct (N.leb (lenN l * lenN tails) cap); [|discriminate].
    inversion H; subst. rewrite in_flat_map. split.
    + intros [x [Hx Hin]]. apply in_map_iff in Hin. destruct Hin as [t [<- Ht]].
      constructor; [assumption|]. now apply (IH tails eq_refl).
    + intro HF. inversion HF as [|x l' t rest' Hx Ht]; subst.
      exists x. split; [assumption|]. apply in_map. now apply (IH tails eq_refl).
Qed.

(* ================================================================ representatives *)

Section Reps.
  Variable env : tyenv.
  Variable sp : list Z.
  Variable cap : N.

  (* picking, for a list of values, one similar representative per position *)
  Lemma pick_reps (g : ty -> option (list value)) ts rss :
    (forall t rs, In t ts -> g t = Some rs ->
                  forall v, has_type env v t = true -> exists r, In r rs /\ simb sp v r = true) ->
    Forall2 (fun t rs => g t = Some rs) ts rss ->
    forall vs, Forall2 (fun v t => has_type env v t = true) vs ts ->
    exists rl, Forall2 (fun r rs => In r rs) rl rss /\ Forall2 (fun v r => simb sp v r = true) vs rl.
  Proof.
    intros Hg HF. induction HF as [|t rs ts' rss' Ht Hts IH]; intros vs Hvs.
    - inversion Hvs; subst. exists []. split; constructor.
    - inversion Hvs as [|v t' vs' ts'' Hv Hvs']; subst.
      destruct (Hg t rs (or_introl eq_refl) Ht v Hv) as [r [Hr Hsim]].
      destruct IH with (vs := vs') as [rl [Hrl Hsl]].
      + intros t0 rs0 Hin. apply Hg. now right.
      + assumption.
      + exists (r :: rl). split; now constructor.
  Qed.

  Lemma typed_reps (g : ty -> option (list value)) ts rss :
    (forall t rs, In t ts -> g t = Some rs -> forall r, In r rs -> has_type env r t = true) ->
    Forall2 (fun t rs => g t = Some rs) ts rss ->
    forall rl, Forall2 (fun r rs => In r rs) rl rss ->
    Forall2 (fun r t => has_type env r t = true) rl ts.
  Proof.
    intros Hg HF. induction HF as [|t rs ts' rss' Ht Hts IH]; intros rl Hrl.
    - inversion Hrl; subst. constructor.
    - inversion Hrl as [|r rs' rl' rss'' Hr Hrl']; subst. constructor.
      + now apply (Hg t rs (or_introl eq_refl) Ht).
      + apply IH; [|assumption]. intros t0 rs0 Hin. apply Hg. now right.
  Qed.

  Lemma fields_split fvs fts :
    Forall2 (fun fv ft => ht_field env fv ft = true) fvs fts ->
    map fst fvs = map fst fts /\
    Forall2 (fun v t => has_type env v t = true) (map snd fvs) (map snd fts).
  Proof.
    induction 1 as [|[f v] [f' t] r1 r2 Hhd Htl IH]; cbn [map fst snd].
    - split; [reflexivity|constructor].
    - unfold ht_field in Hhd. apply andb_true_iff in Hhd. destruct Hhd as [Hf Hv].
      apply N.eqb_eq in Hf. subst f'. destruct IH as [IH1 IH2].
      split; [now f_equal|now constructor].
  Qed.

  Lemma fields_sim fvs names rl :
    map fst fvs = names ->
    Forall2 (fun v r => simb sp v r = true) (map snd fvs) rl ->
    forall2b (sim_field sp) fvs (combine names rl) = true.
  Proof.
    revert names rl. induction fvs as [|[f v] r IH]; intros names rl Hn HF; cbn [map fst snd] in *.
    - subst names. reflexivity.
    - subst names. inversion HF as [|v' r' vs' rl' Hv Hvs]; subst.
      cbn [combine]. rewrite forall2b_cons. apply andb_true_iff. split.
      + unfold sim_field. now rewrite N.eqb_refl.
      + now apply IH.
  Qed.

  Lemma fields_typed fts rl :
    Forall2 (fun r t => has_type env r t = true) rl (map snd fts) ->
    forall2b (ht_field env) (combine (map fst fts) rl) fts = true.
  Proof.
    revert rl. induction fts as [|[f t] r IH]; intros rl HF; cbn [map fst snd] in *.
    - inversion HF; subst. reflexivity.
    - inversion HF as [|r0 t0 rl' ts' Hr Hrl]; subst.
      cbn [combine]. rewrite forall2b_cons. apply andb_true_iff. split.
      + unfold ht_field. now rewrite N.eqb_refl.
      + now apply IH.
  Qed.

  (* every value of the type lies in the region of a representative *)
  Lemma reps_complete fuel : forall t rs,
    reps env sp cap fuel t = Some rs ->
    forall v, has_type env v t = true -> exists r, In r rs /\ simb sp v r = true.
  Proof.
    induction fuel as [|f IH]; intros t rs Hreps v Hty; [discriminate|].
    cbn [reps] in Hreps. destruct t as [|sg w|ts|n|n].
    - (* bool *) inversion Hreps; subst.
      destruct v as [b| | | |]; try discriminate.
      exists (VBool b). split; [destruct b; cbn [In]; auto|]. cbn [simb]. apply eqb_reflx.
    - (* int *) inversion Hreps; subst.
      destruct v as [|z| | |]; try discriminate. cbn [has_type] in Hty.
      apply int_lo_le_hi_or_empty in Hty.
      destruct (int_reps_complete sp _ _ z Hty) as [r [Hin Hs]].
      exists (VInt r). split; [now apply in_map|exact Hs].
    - (* tuple *)
      destruct (mapM (reps env sp cap f) ts) as [rss|] eqn:Em; [|discriminate].
      destruct (lprod cap rss) as [prod|] eqn:Ep; [|discriminate].
      cbn [option_map] in Hreps. inversion Hreps; subst.
      destruct v as [| |vs| |]; try discriminate.
      rewrite ht_tuple in Hty. apply forall2b_Forall2 in Hty. apply mapM_Forall2 in Em.
      destruct (pick_reps (reps env sp cap f) ts rss) with (vs := vs) as [rl [Hrl Hsl]];
        [intros t rs _; apply IH|assumption|assumption|].
      exists (VTuple rl). split.
      + apply in_map. now apply (lprod_In cap rss prod Ep).
      + rewrite simb_tuple. now apply forall2b_Forall2.
    - (* struct *)
      destruct (assocN n (structs env)) as [fts|] eqn:Ea; [|discriminate].
      rewrite mapM_map in Hreps.
      destruct (mapM (reps env sp cap f) (map snd fts)) as [rss|] eqn:Em; [|discriminate].
      destruct (lprod cap rss) as [prod|] eqn:Ep; [|discriminate].
      cbn [option_map] in Hreps. inversion Hreps; subst.
      destruct v as [| | |n1 fvs|]; try discriminate.
      rewrite ht_struct in Hty. apply andb_true_iff in Hty. destruct Hty as [Hn Hf].
      apply N.eqb_eq in Hn. subst n1. rewrite Ea in Hf.
      apply forall2b_Forall2 in Hf. apply fields_split in Hf. destruct Hf as [Hnames Hvals].
      apply mapM_Forall2 in Em.
      destruct (pick_reps (reps env sp cap f) (map snd fts) rss) with (vs := map snd fvs)
        as [rl [Hrl Hsl]]; [intros t rs _; apply IH|assumption|assumption|].
      exists (VStruct n (combine (map fst fts) rl)). split.
      + apply in_map with (f := fun vs => VStruct n (combine (map fst fts) vs)).
        now apply (lprod_In cap rss prod Ep).
      + rewrite simb_struct, N.eqb_refl. cbn [andb]. now apply fields_sim.
    - (* enum *)
      destruct (assocN n (enums env)) as [variants|] eqn:Ea; [|discriminate].
      match type of Hreps with concat_opt (mapM ?g variants) = _ => set (G := g) in * end.
      destruct (mapM G variants) as [lists|] eqn:Em; [|discriminate].
      cbn [concat_opt] in Hreps. inversion Hreps; subst.
      destruct v as [| | | |n1 x vs]; try discriminate.
      rewrite ht_enum in Hty. apply andb_true_iff in Hty. destruct Hty as [Hn Hp].
      apply N.eqb_eq in Hn. subst n1. rewrite Ea in Hp.
      destruct (assocN x variants) as [payload|] eqn:Ex; [|discriminate].
      apply assocN_In in Ex. apply mapM_Forall2 in Em.
      destruct (Forall2_In_l _ _ _ _ Em Ex) as [l [Hl HG]].
      unfold G in HG. cbn [fst snd] in HG.
      destruct payload as [ts|].
      + destruct (mapM (reps env sp cap f) ts) as [rss|] eqn:Emt; [|discriminate].
        destruct (lprod cap rss) as [prod|] eqn:Ep; [|discriminate].
        cbn [option_map] in HG. inversion HG; subst.
        apply forall2b_Forall2 in Hp. apply mapM_Forall2 in Emt.
        destruct (pick_reps (reps env sp cap f) ts rss) with (vs := vs) as [rl [Hrl Hsl]];
          [intros t rs _; apply IH|assumption|assumption|].
        exists (VEnum n x rl). split.
        * apply in_concat. exists (map (VEnum n x) prod). split; [assumption|].
          apply in_map. now apply (lprod_In cap rss prod Ep).
        * rewrite simb_enum, !N.eqb_refl. cbn [andb]. now apply forall2b_Forall2.
      + inversion HG; subst. destruct vs; [|discriminate].
        exists (VEnum n x []). split.
        * apply in_concat. exists [VEnum n x []]. split; [assumption|now left].
        * rewrite simb_enum, !N.eqb_refl. reflexivity.
  Qed.

  (* every representative is a value of the type *)
  Lemma reps_typed fuel : env_ok env = true -> forall t rs,
    reps env sp cap fuel t = Some rs ->
    forall r, In r rs -> has_type env r t = true.
  Proof.
    intro Hok. induction fuel as [|f IH]; intros t rs Hreps r Hin; [discriminate|].
    cbn [reps] in Hreps. destruct t as [|sg w|ts|n|n].
    - inversion Hreps; subst. destruct Hin as [<-|[<-|[]]]; reflexivity.
    - inversion Hreps; subst. apply in_map_iff in Hin. destruct Hin as [z [<- Hz]].
      cbn [has_type]. apply int_reps_range in Hz. unfold in_int.
      apply andb_true_iff. split; apply Z.leb_le; lia.
    - destruct (mapM (reps env sp cap f) ts) as [rss|] eqn:Em; [|discriminate].
      destruct (lprod cap rss) as [prod|] eqn:Ep; [|discriminate].
      cbn [option_map] in Hreps. inversion Hreps; subst.
      apply in_map_iff in Hin. destruct Hin as [rl [<- Hrl]].
      apply (lprod_In cap rss prod Ep) in Hrl. apply mapM_Forall2 in Em.
      rewrite ht_tuple. apply forall2b_Forall2.
      apply (typed_reps (reps env sp cap f) ts rss); [intros t rs _; apply IH|assumption|assumption].
    - destruct (assocN n (structs env)) as [fts|] eqn:Ea; [|discriminate].
      rewrite mapM_map in Hreps.
      destruct (mapM (reps env sp cap f) (map snd fts)) as [rss|] eqn:Em; [|discriminate].
      destruct (lprod cap rss) as [prod|] eqn:Ep; [|discriminate].
      cbn [option_map] in Hreps. inversion Hreps; subst.
      apply in_map_iff in Hin. destruct Hin as [rl [<- Hrl]].
      apply (lprod_In cap rss prod Ep) in Hrl. apply mapM_Forall2 in Em.
      rewrite ht_struct, N.eqb_refl, Ea. cbn [andb]. apply fields_typed.
      apply (typed_reps (reps env sp cap f) (map snd fts) rss);
        [intros t rs _; apply IH|assumption|assumption].
    - destruct (assocN n (enums env)) as [variants|] eqn:Ea; [|discriminate].
      match type of Hreps with concat_opt (mapM ?g variants) = _ => set (G := g) in * end.
      destruct (mapM G variants) as [lists|] eqn:Em; [|discriminate].
      cbn [concat_opt] in Hreps. inversion Hreps; subst.
      apply in_concat in Hin. destruct Hin as [l [Hl Hr]].
      apply mapM_Forall2 in Em.
      destruct (Forall2_In_r _ _ _ _ Em Hl) as [[x payload] [Hvd HG]].
      assert (Hnd : nodupN (map fst variants) = true).
      { unfold env_ok in Hok. rewrite forallb_forall in Hok.
        apply (Hok (n, variants)). now apply assocN_In. }
      assert (Hx := assocN_nodup x variants payload Hnd Hvd).
      unfold G in HG. cbn [fst snd] in HG.
      destruct payload as [ts|].
      + destruct (mapM (reps env sp cap f) ts) as [rss|] eqn:Emt; [|discriminate].
        destruct (lprod cap rss) as [prod|] eqn:Ep; [|discriminate].
        cbn [option_map] in HG. inversion HG; subst.
        apply in_map_iff in Hr. destruct Hr as [rl [<- Hrl]].
        apply (lprod_In cap rss prod Ep) in Hrl. apply mapM_Forall2 in Emt.
        rewrite ht_enum, N.eqb_refl, Ea, Hx. cbn [andb]. apply forall2b_Forall2.
        apply (typed_reps (reps env sp cap f) ts rss); [intros t rs _; apply IH|assumption|assumption].
      + inversion HG; subst. destruct Hr as [<-|[]].
        rewrite ht_enum, N.eqb_refl, Ea, Hx. reflexivity.
  Qed.
End Reps.

(* ================================================================ the decision procedures *)

Lemma arm_matches_iff ps v :
  arm_matches ps v = true <-> exists p, In p ps /\ pat_matches p v = true.
Proof. unfold arm_matches. apply existsb_exists. Qed.

Lemma arm_matches_false ps v :
  arm_matches ps v = false <-> forall p, In p ps -> pat_matches p v = false.
Proof.
  split.
  - intros H p Hin. destruct (pat_matches p v) eqn:E; [|reflexivity].
    assert (arm_matches ps v = true) by (apply arm_matches_iff; eauto). congruence.
  - intro H. destruct (arm_matches ps v) eqn:E; [|reflexivity].
    apply arm_matches_iff in E. destruct E as [p [Hin Hp]]. rewrite (H p Hin) in Hp. discriminate.
Qed.

Lemma points_incl ps p : In p ps -> incl (pat_points p) (points ps).
Proof. intros Hin x Hx. unfold points. apply in_flat_map. now exists p. Qed.

(* values of one region are matched by the same arms *)
Lemma region_constant_lemma ps v r :
  simb (points ps) v r = true ->
  forall p, In p ps -> pat_matches p v = pat_matches p r.
Proof.
  intros Hsim p Hin. apply sim_matches with (sp := points ps); [now apply points_incl|assumption].
Qed.

Lemma region_arm_matches ps v r :
  simb (points ps) v r = true -> arm_matches ps v = arm_matches ps r.
Proof.
  intro Hsim. unfold arm_matches.
  destruct (existsb (fun p => pat_matches p r) ps) eqn:Er.
  - apply existsb_exists in Er. destruct Er as [p [Hin Hp]].
    apply existsb_exists. exists p. split; [assumption|].
    now rewrite (region_constant_lemma ps v r Hsim p Hin).
  - destruct (existsb (fun p => pat_matches p v) ps) eqn:Ev; [|reflexivity].
    apply existsb_exists in Ev. destruct Ev as [p [Hin Hp]].
    rewrite (region_constant_lemma ps v r Hsim p Hin) in Hp.
    assert (existsb (fun p => pat_matches p r) ps = true) by (apply existsb_exists; eauto).
    congruence.
Qed.

Lemma covers_iff env cap fuel t ps b :
  covers env cap fuel t ps = Some b ->
  (b = true <->
   forall v, has_type env v t = true -> exists p, In p ps /\ pat_matches p v = true).
Proof.
  unfold covers. destruct (env_ok env) eqn:Hok; [|discriminate].
  destruct (reps env (points ps) cap fuel t) as [rs|] eqn:Er; [|discriminate].
  intro H. inversion H; subst. clear H. split.
  - intros Hall v Hty. rewrite forallb_forall in Hall.
    destruct (reps_complete env (points ps) cap fuel t rs Er v Hty) as [r [Hin Hsim]].
    apply arm_matches_iff. rewrite (region_arm_matches ps v r Hsim). now apply Hall.
  - intro Hall. apply forallb_forall. intros r Hin. apply arm_matches_iff. apply Hall.
    now apply (reps_typed env (points ps) cap fuel Hok t rs Er).
Qed.

Lemma uncovered_covers env cap fuel t ps :
  uncovered env cap fuel t ps = Some None <-> covers env cap fuel t ps = Some true.
Proof.
  unfold uncovered, covers. destruct (env_ok env); [|split; discriminate].
  destruct (reps env (points ps) cap fuel t) as [rs|]; [|split; discriminate].
  split; intro H.
  - inversion H as [Hf]. f_equal. apply forallb_forall. intros r Hin.
    destruct (arm_matches ps r) eqn:E; [reflexivity|].
    exfalso. apply (find_none _ _ Hf) in Hin. rewrite E in Hin. discriminate.
  - inversion H as [Hf]. f_equal.
    destruct (find (fun r => negb (arm_matches ps r)) rs) as [r|] eqn:E; [|reflexivity].
    apply find_some in E. destruct E as [Hin Hn]. rewrite forallb_forall in Hf.
    rewrite (Hf r Hin) in Hn. discriminate.
Qed.

Lemma uncovered_sound env cap fuel t ps v :
  uncovered env cap fuel t ps = Some (Some v) ->
  has_type env v t = true /\ forall p, In p ps -> pat_matches p v = false.
Proof.
  unfold uncovered. destruct (env_ok env) eqn:Hok; [|discriminate].
  destruct (reps env (points ps) cap fuel t) as [rs|] eqn:Er; [|discriminate].
  intro H. inversion H as [Hf]. apply find_some in Hf. destruct Hf as [Hin Hn]. split.
  - now apply (reps_typed env (points ps) cap fuel Hok t rs Er).
  - apply arm_matches_false. now apply negb_true_iff.
Qed.

Lemma witness_iff env cap fuel t ps w b :
  witness_ok env cap fuel t ps w = Some b ->
  (b = true <->
   (exists v, has_type env v t = true /\ pat_matches w v = true) /\
   (forall v, has_type env v t = true -> pat_matches w v = true ->
              forall p, In p ps -> pat_matches p v = false)).
Proof.
  unfold witness_ok. destruct (env_ok env) eqn:Hok; [|discriminate].
  destruct (reps env (points (w :: ps)) cap fuel t) as [rs|] eqn:Er; [|discriminate].
  intro H. inversion H; subst. clear H.
  assert (Hw : forall v r, simb (points (w :: ps)) v r = true -> pat_matches w v = pat_matches w r).
  { intros v r Hs. apply (region_constant_lemma (w :: ps) v r Hs). now left. }
  assert (Hps : forall v r, simb (points (w :: ps)) v r = true -> arm_matches ps v = arm_matches ps r).
  { intros v r Hs. unfold arm_matches.
    assert (Hall : forall p, In p ps -> pat_matches p v = pat_matches p r).
    { intros p Hin. apply (region_constant_lemma (w :: ps) v r Hs). now right. }
    clear - Hall. induction ps as [|q qs IH]; cbn [existsb]; [reflexivity|].
    rewrite (Hall q (or_introl eq_refl)). f_equal. apply IH. intros p Hp. apply Hall. now right. }
  rewrite andb_true_iff, existsb_exists, forallb_forall. split.
  - intros [[r0 [Hin0 Hm0]] Hall]. split.
    + exists r0. split; [|assumption]. now apply (reps_typed env _ cap fuel Hok t rs Er).
    + intros v Hty Hm. apply arm_matches_false.
      destruct (reps_complete env _ cap fuel t rs Er v Hty) as [r [Hin Hsim]].
      specialize (Hall r Hin). rewrite (Hw v r Hsim) in Hm. rewrite Hm in Hall.
      cbn [negb orb] in Hall. rewrite (Hps v r Hsim). now apply negb_true_iff.
  - intros [[v [Hty Hm]] Hall]. split.
    + destruct (reps_complete env _ cap fuel t rs Er v Hty) as [r [Hin Hsim]].
      exists r. split; [assumption|]. now rewrite <- (Hw v r Hsim).
    + intros r Hin. destruct (pat_matches w r) eqn:Em; [|reflexivity]. cbn [negb orb].
      apply negb_true_iff. apply arm_matches_false.
      apply Hall; [|assumption]. now apply (reps_typed env _ cap fuel Hok t rs Er).
Qed.

Lemma region_reps_spec env cap fuel t ps rs :
  region_reps env cap fuel t ps = Some rs ->
  (forall r, In r rs -> has_type env r t = true) /\
  (forall v, has_type env v t = true ->
             exists r, In r rs /\ simb (points ps) v r = true).
Proof.
  unfold region_reps. destruct (env_ok env) eqn:Hok; [|discriminate]. intro Er. split.
  - intros r Hin. now apply (reps_typed env (points ps) cap fuel Hok t rs Er).
  - intros v Hty. now apply (reps_complete env (points ps) cap fuel t rs Er).
Qed.

(* ================================================================ first matching arm *)

Lemma select_from_spec ps : forall i v j bs,
  select_from i ps v = Some (j, bs) <->
  exists k p, j = (i + k)%nat /\ nth_error ps k = Some p /\ pat_matches p v = true /\
              bs = pat_bind p v /\
              forall k' q, (k' < k)%nat -> nth_error ps k' = Some q -> pat_matches q v = false.
Proof.
  induction ps as [|p0 r IH]; intros i v j bs; cbn [select_from].
  - split; [discriminate|]. intros [k [p [_ [Hn _]]]]. destruct k; discriminate.
  - destruct (pat_matches p0 v) eqn:E0.
    + split.
      * intro H. inversion H; subst. exists 0%nat, p0.
        split; [lia|]. split; [reflexivity|]. split; [assumption|]. split; [reflexivity|].
        intros k' q Hlt. lia.
      * intros [k [p [Hj [Hn [Hm [Hb Hprev]]]]]]. destruct k as [|k].
        -- cbn [nth_error] in Hn. inversion Hn; subst. f_equal. f_equal. lia.
        -- specialize (Hprev 0%nat p0 (Nat.lt_0_succ k) eq_refl). congruence.
    + rewrite IH. split.
      * intros [k [p [Hj [Hn [Hm [Hb Hprev]]]]]]. exists (S k), p.
        split; [lia|]. split; [assumption|]. split; [assumption|]. split; [assumption|].
        intros k' q Hlt Hq. destruct k' as [|k']; cbn [nth_error] in Hq.
        -- inversion Hq; subst. assumption.
        -- apply (Hprev k' q); [lia|assumption].
      * intros [k [p [Hj [Hn [Hm [Hb Hprev]]]]]]. destruct k as [|k].
        -- cbn [nth_error] in Hn. inversion Hn; subst. congruence.
        -- exists k, p. split; [lia|]. split; [assumption|]. split; [assumption|].
           split; [assumption|]. intros k' q Hlt Hq. apply (Hprev (S k') q); [lia|assumption].
Qed.

Lemma select_arm_spec ps v j bs :
  select_arm ps v = Some (j, bs) <->
  exists p, nth_error ps j = Some p /\ pat_matches p v = true /\ bs = pat_bind p v /\
            forall k q, (k < j)%nat -> nth_error ps k = Some q -> pat_matches q v = false.
Proof.
  unfold select_arm. rewrite select_from_spec. split.
  - intros [k [p [Hj H]]]. cbn in Hj. subst j. now exists p.
  - intros [p H]. exists j, p. split; [reflexivity|assumption].
Qed.

Lemma select_from_none ps : forall i v,
  select_from i ps v = None <-> forall p, In p ps -> pat_matches p v = false.
Proof.
  induction ps as [|p0 r IH]; intros i v; cbn [select_from].
  - split; [intros _ p []|reflexivity].
  - destruct (pat_matches p0 v) eqn:E0.
    + split; [discriminate|]. intro H. rewrite (H p0 (or_introl eq_refl)) in E0. discriminate.
    + rewrite IH. split.
      * intros H p [<-|Hin]; [assumption|now apply H].
      * intros H p Hin. apply H. now right.
Qed.

Lemma select_arm_none ps v :
  select_arm ps v = None <-> forall p, In p ps -> pat_matches p v = false.
Proof. apply select_from_none. Qed.

Lemma covers_select_total env cap fuel t ps v :
  covers env cap fuel t ps = Some true ->
  has_type env v t = true -> select_arm ps v <> None.
Proof.
  intros Hc Hty Hnone. rewrite select_arm_none in Hnone.
  destruct (proj1 (covers_iff env cap fuel t ps true Hc) eq_refl v Hty) as [p [Hin Hp]].
  rewrite (Hnone p Hin) in Hp. discriminate.
Qed.

(* ================================================================ bounds are exact *)

Lemma range_exact sl lo hi z :
  pat_matches (PRange sl lo hi) (VInt z) = true <-> lo <= z <= hi.
Proof.
  cbn [pat_matches]. rewrite andb_true_iff, !Z.leb_le. reflexivity.
Qed.

Lemma num_exact sl n z : pat_matches (PNum sl n) (VInt z) = true <-> z = n.
Proof. cbn [pat_matches]. apply Z.eqb_eq. Qed.

(* a well-typed number or range pattern only mentions values of the scrutinee's type
   (the repaired pattern type check): nothing is truncated *)
Lemma wt_num_in_type env sg w sl n :
  pat_wt env (TInt sg w) (PNum sl n) = true -> has_type env (VInt n) (TInt sg w) = true.
Proof.
  cbn [pat_wt has_type]. intro H. apply andb_true_iff in H. now destruct H.
Qed.

(* monotonicity in the fuel: a decided answer stays the same with more fuel *)
Lemma reps_fuel_mono env sp cap fuel : forall t rs,
  reps env sp cap fuel t = Some rs -> reps env sp cap (S fuel) t = Some rs.
Proof.
  induction fuel as [|f IH]; intros t rs H; [discriminate|].
  assert (HM : forall ts rss, mapM (reps env sp cap f) ts = Some rss ->
                              mapM (reps env sp cap (S f)) ts = Some rss).
  { intros ts rss Hm. apply mapM_Forall2. apply mapM_Forall2 in Hm.
    induction Hm; constructor; auto. }
  cbn [reps] in H. destruct t as [|sg w|ts|n|n].
  - exact H.
  - exact H.
  - destruct (mapM (reps env sp cap f) ts) as [rss|] eqn:Em; [|discriminate].
    change (reps env sp cap (S (S f)) (TTuple ts)) with
      (match mapM (reps env sp cap (S f)) ts with
       | None => None | Some rss => option_map (map VTuple) (lprod cap rss) end).
    now rewrite (HM ts rss Em).
  - destruct (assocN n (structs env)) as [fts|] eqn:Ea; [|discriminate].
    rewrite mapM_map in H.
    destruct (mapM (reps env sp cap f) (map snd fts)) as [rss|] eqn:Em; [|discriminate].
    change (reps env sp cap (S (S f)) (TStruct n)) with
      (match assocN n (structs env) with
       | None => None
       | Some fts =>
           match mapM (fun ft : N * ty => reps env sp cap (S f) (snd ft)) fts with
           | None => None
           | Some rss => option_map (map (fun vs => VStruct n (combine (map fst fts) vs))) (lprod cap rss)
           end
       end).
    rewrite Ea, mapM_map. now rewrite (HM _ rss Em).
  - destruct (assocN n (enums env)) as [variants|] eqn:Ea; [|discriminate].
    change (reps env sp cap (S (S f)) (TEnum n)) with
      (match assocN n (enums env) with
       | None => None
       | Some variants =>
           concat_opt
             (mapM (fun vd : N * option (list ty) =>
                      match snd vd with
                      | None => Some [VEnum n (fst vd) []]
                      | Some ts =>
                          match mapM (reps env sp cap (S f)) ts with
                          | None => None
                          | Some rss => option_map (map (VEnum n (fst vd))) (lprod cap rss)
                          end
                      end) variants)
       end).
    rewrite Ea.
    match type of H with concat_opt (mapM ?g variants) = _ => set (G := g) in * end.
    destruct (mapM G variants) as [lists|] eqn:Em; [|discriminate].
    match goal with |- concat_opt (mapM ?g variants) = _ => set (G' := g) end.
    assert (Hm' : mapM G' variants = Some lists).
    { apply mapM_Forall2. apply mapM_Forall2 in Em. clear - Em HM.
      induction Em as [|[x pl] l vr lr Hx Hr IHr]; constructor; [|assumption].
      unfold G in Hx. unfold G'. cbn [fst snd] in *.
      destruct pl as [ts|]; [|assumption].
      destruct (mapM (reps env sp cap f) ts) as [rss|] eqn:Emt; [|discriminate].
      now rewrite (HM ts rss Emt). }
    now rewrite Hm'.
Qed.

Lemma covers_fuel_mono env cap fuel t ps b :
  covers env cap fuel t ps = Some b -> covers env cap (S fuel) t ps = Some b.
Proof.
  unfold covers. destruct (env_ok env); [|discriminate].
  destruct (reps env (points ps) cap fuel t) as [rs|] eqn:Er; [|discriminate].
  now rewrite (reps_fuel_mono env (points ps) cap fuel t rs Er).
Qed.

(* `a..b` is stored by the parser as `a..=b-1` *)
Lemma excl_range_exact sl lo hi z :
  pat_matches (PRange sl lo (hi - 1)) (VInt z) = true <-> lo <= z < hi.
Proof. rewrite range_exact. lia. Qed.
