(* THE EXHAUSTIVENESS DEVELOPMENT (Exhaust/Pat.v, Useful.v = the model of the real algorithm,
   proved exact in UsefulProofs.v) CONNECTED TO THE SOURCE SEMANTICS (Lang/Sem.v [pmatch] over
   the patterns and values of Lang/Ast.v).

   1  translations:  [tr_ty] (Ast types; an array becomes the unit type: no pattern looks inside
      an array), [tr_env] (struct / enum definitions; variant number k is named k, a variant
      without payload is a unit variant), [tr_pat] (PNumU / PURange: unsigned spelling, PNumS /
      PSRange: signed spelling; a unit pattern on a variant WITH payload becomes the pattern
      with wildcards), [tr_val] (type directed: structs get their field names, enums their name)
   2  [tr_val_typed]: a value of the type ([has_enc], i.e. shape and integers in range) is a value
      of the translated type; [match_agree]: for a pattern typed at the type of the value
      ([gpat_ok], the typing of the strict checker) Sem.pmatch succeeds iff Pat.pat_matches
   3  [exh_pats]: the boolean check of one match / one irrefutable pattern (the real
      algorithm with its proved fuel bound, plus the side conditions of its correctness theorem,
      evaluated); [exh_pats_sound]: then every value of the type is matched by some pattern, in
      Sem.v; [exh_expr] / [exh_stmt] / [exh_fns]: every match / let / for / join-loop pattern of a
      program
   4  see Exhaust/ExhSound.v *)
From Coq Require Import Lia ZArith.
From GV Require Import Base.Util Lang.Ast Lang.Wt Lang.ValTy Lang.WtSound Lang.WtShape
  Compile.Lower Compile.TSemSemExpr Compile.ValEnc Compile.TSemSemStmt Compile.TSemSemAgg Compile.TSemSemFull.
From GV Require Lang.Sem.
From GV Require Exhaust.Pat Exhaust.Covers Exhaust.Useful Exhaust.UsefulProofs.
Module EP := GV.Exhaust.Pat.
Module EU := GV.Exhaust.Useful.
Module EUP := GV.Exhaust.UsefulProofs.
Local Open Scope N_scope.

(* ------------------------------------------------------------------ 1. translations *)

Fixpoint tr_ty (t : ty) : EP.ty :=
  match t with
  | TBool => EP.TBool
  | TInt sg b => EP.TInt sg b
  | TArr _ _ => EP.TTuple []            (* opaque for patterns *)
  | TTup ts => EP.TTuple (map tr_ty ts)
  | TStruct n => EP.TStruct n
  | TEnum n => EP.TEnum n
  end.

Definition tr_payload (ts : list ty) : option (list EP.ty) :=
  match ts with [] => None | _ :: _ => Some (map tr_ty ts) end.

Fixpoint tr_variants (vs : list (list ty)) (k : N) : list (N * option (list EP.ty)) :=
  match vs with
  | [] => []
  | ts :: r => (k, tr_payload ts) :: tr_variants r (k + 1)
  end.

Definition tr_fields (fs : list (N * ty)) : list (N * EP.ty) := map (fun ft => (fst ft, tr_ty (snd ft))) fs.

Definition tr_env (P : program) : EP.tyenv :=
  {| EP.structs := map (fun sd : N * list (N * ty) => (fst sd, tr_fields (snd sd))) (p_structs P);
     EP.enums := map (fun ed : N * list (list ty) => (fst ed, tr_variants (snd ed) 0)) (p_enums P) |}.

Definition wilds {A} (l : list A) : list EP.pattern := map (fun _ => EP.PVar 0) l.

Fixpoint tr_pat (P : program) (p : pattern) {struct p} : EP.pattern :=
  match p with
  | Pat pi _ _ =>
    match pi with
    | PId x => EP.PVar x
    | PTrue => EP.PBool true
    | PFalse => EP.PBool false
    | PNumU n => EP.PNum false (Z.of_N n)
    | PNumS z => EP.PNum true z
    | PURange lo hi => EP.PRange false (Z.of_N lo) (Z.of_N hi)
    | PSRange lo hi => EP.PRange true lo hi
    | PTup ps => EP.PTuple (map (tr_pat P) ps)
    | PStruct name _ fields =>
        (* the `..` flag: neither Sem.pmatch nor the matching of Exhaust/Pat.v looks at it, and the
           exporter prints 0 for a pattern with `..` (the checker has normalised it away); a
           struct pattern that names only some fields is `S { named fields, .. }` *)
        EP.PStruct name
          ((fix go (fs : list (N * pattern)) : list (N * EP.pattern) :=
              match fs with [] => [] | (f, fp) :: r => (f, tr_pat P fp) :: go r end) fields) true
    | PEnumUnit en v =>
        (* a unit pattern compares the tag only: on a variant with payload it is `V(_, .., _)` *)
        match assocN en (p_enums P) with
        | Some variants =>
            match nthN variants v with
            | Some (t0 :: tr) => EP.PEnum en v (Some (wilds (t0 :: tr)))
            | _ => EP.PEnum en v None
            end
        | None => EP.PEnum en v None
        end
    | PEnumTup en v ps =>
        match ps with
        | [] => EP.PEnum en v None
        | _ :: _ => EP.PEnum en v (Some (map (tr_pat P) ps))
        end
    end
  end.

Fixpoint tr_fpats (P : program) (fs : list (N * pattern)) : list (N * EP.pattern) :=
  match fs with [] => [] | (f, fp) :: r => (f, tr_pat P fp) :: tr_fpats P r end.

Lemma tr_pat_struct P name rest fields m t :
  tr_pat P (Pat (PStruct name rest fields) m t) = EP.PStruct name (tr_fpats P fields) true.
Proof.
  cbn [tr_pat]. f_equal. induction fields as [|[f fp] r IH]; [reflexivity|]. cbn [tr_fpats]. now rewrite <- IH.
Qed.

(* values, directed by the type *)
Section ValAux.
  Variable tv : Sem.value -> ty -> EP.value.
  Fixpoint tr_vals (vs : list Sem.value) (ts : list ty) : list EP.value :=
    match vs, ts with
    | v :: vr, t :: tr => tv v t :: tr_vals vr tr
    | _, _ => []
    end.
  Fixpoint tr_fvals (vs : list Sem.value) (fs : list (N * ty)) : list (N * EP.value) :=
    match vs, fs with
    | v :: vr, (f, t) :: fr => (f, tv v t) :: tr_fvals vr fr
    | _, _ => []
    end.
End ValAux.

Fixpoint tr_val (P : program) (v : Sem.value) (t : ty) {struct v} : EP.value :=
  match v, t with
  | Sem.VBool b, TBool => EP.VBool b
  | Sem.VInt z, TInt _ _ => EP.VInt z
  | Sem.VArr _, TArr _ _ => EP.VTuple []
  | Sem.VTup vs, TTup ts => EP.VTuple (tr_vals (tr_val P) vs ts)
  | Sem.VTup vs, TStruct name =>
      match assocN name (p_structs P) with
      | Some def => EP.VStruct name (tr_fvals (tr_val P) vs def)
      | None => EP.VTuple []
      end
  | Sem.VEnum tag vs, TEnum name =>
      match assocN name (p_enums P) with
      | Some variants =>
          match nthN variants tag with
          | Some ts => EP.VEnum name tag (tr_vals (tr_val P) vs ts)
          | None => EP.VTuple []
          end
      | None => EP.VTuple []
      end
  | _, _ => EP.VTuple []
  end.

(* ------------------------------------------------------------------ look-ups in the translated
   definitions *)

Lemma ep_assoc_map {A B} (h : A -> B) k (l : list (N * A)) :
  EP.assocN k (map (fun x => (fst x, h (snd x))) l) = option_map h (assocN k l).
Proof.
  induction l as [|[k0 a] l IH]; [reflexivity|]. cbn [map EP.assocN assocN fst snd].
  destruct (k =? k0); [reflexivity|exact IH].
Qed.

Lemma tr_env_struct P name : EP.assocN name (EP.structs (tr_env P)) = option_map tr_fields (assocN name (p_structs P)).
Proof. exact (ep_assoc_map tr_fields name (p_structs P)). Qed.

Lemma tr_env_enum P name :
  EP.assocN name (EP.enums (tr_env P)) = option_map (fun vs => tr_variants vs 0) (assocN name (p_enums P)).
Proof. exact (ep_assoc_map (fun vs => tr_variants vs 0) name (p_enums P)). Qed.

(* variant number j is found under the name j *)
Lemma tr_variants_assoc : forall vs k j ts, nth_error vs j = Some ts ->
  EP.assocN (k + N.of_nat j) (tr_variants vs k) = Some (tr_payload ts).
Proof.
  induction vs as [|ts0 vs IH]; intros k j ts Hj; [destruct j; discriminate Hj|].
  cbn [tr_variants EP.assocN]. destruct j as [|j]; cbn [nth_error] in Hj.
  - injection Hj as ->. replace (k + N.of_nat 0) with k by lia. now rewrite N.eqb_refl.
  - destruct (N.eqb_spec (k + N.of_nat (S j)) k) as [E|_]; [lia|].
    replace (k + N.of_nat (S j)) with (k + 1 + N.of_nat j) by lia. now apply IH.
Qed.

Lemma tr_variants_nth variants tag ts : nthN variants tag = Some ts ->
  EP.assocN tag (tr_variants variants 0) = Some (tr_payload ts).
Proof.
  rewrite nthN_spec. intro H. pose proof (tr_variants_assoc variants 0 (N.to_nat tag) ts H) as E.
  now rewrite N.add_0_l, N2Nat.id in E.
Qed.

(* ------------------------------------------------------------------ 2a. values stay typed *)

Lemma in_int_in_range sg b z : EP.in_int sg b z = Sem.in_range sg b z.
Proof.
  unfold EP.in_int, EP.int_lo, EP.int_hi, Sem.in_range. destruct sg.
  - f_equal. destruct (Z.leb_spec z (2 ^ (Z.of_N b - 1) - 1)); destruct (Z.ltb_spec z (2 ^ (Z.of_N b - 1))); try reflexivity; lia.
  - f_equal. destruct (Z.leb_spec z (2 ^ Z.of_N b - 1)); destruct (Z.ltb_spec z (2 ^ Z.of_N b)); try reflexivity; lia.
Qed.

Lemma forall2b_cons {A B} (h : A -> B -> bool) a b l1 l2 :
  EP.forall2b h (a :: l1) (b :: l2) = h a b && EP.forall2b h l1 l2.
Proof. reflexivity. Qed.

Lemma forall2b_nil {A B} (h : A -> B -> bool) : EP.forall2b h (@nil A) (@nil B) = true.
Proof. reflexivity. Qed.

Section Typed.
  Variable P : program.
  Notation env := (tr_env P).

  Lemma tr_vals_typed ts vs ws :
    Forall3 (fun t v (_ : list bool) => EP.has_type env (tr_val P v t) (tr_ty t) = true) ts vs ws ->
    EP.forall2b (EP.has_type env) (tr_vals (tr_val P) vs ts) (map tr_ty ts) = true.
  Proof.
    induction 1 as [|t v w ts vs ws H _ IH]; [reflexivity|].
    cbn [tr_vals map]. now rewrite forall2b_cons, H, IH.
  Qed.

  Theorem tr_val_typed : forall t v w, has_enc P t v w -> EP.has_type env (tr_val P v t) (tr_ty t) = true.
  Proof.
    apply has_enc_ind2.
    - reflexivity.
    - intros sg n z Hr. cbn [tr_val tr_ty EP.has_type]. now rewrite in_int_in_range.
    - reflexivity.
    - intros ts vs ws _ HQ. cbn [tr_val tr_ty EP.has_type]. exact (tr_vals_typed ts vs ws HQ).
    - intros name def vs ws Hd _ HQ. cbn [tr_val tr_ty]. rewrite Hd. cbn [EP.has_type].
      rewrite N.eqb_refl. rewrite tr_env_struct, Hd. cbn [option_map andb].
      apply (F3_map_l snd) in HQ. clear Hd. induction HQ as [|[f t] v w def vs ws H _ IH]; [reflexivity|].
      cbn [tr_fvals tr_fields map fst snd]. rewrite forall2b_cons. cbv beta iota. cbn [snd] in H.
      rewrite N.eqb_refl, H. exact IH.
    - intros name variants tag ts vs ws Hd Ht _ HQ. cbn [tr_val tr_ty]. rewrite Hd, Ht. cbn [EP.has_type].
      rewrite N.eqb_refl. rewrite tr_env_enum, Hd. cbn [option_map andb].
      rewrite (tr_variants_nth variants tag ts Ht). destruct ts as [|t0 tr].
      + inversion HQ; subst. reflexivity.
      + cbn [tr_payload]. exact (tr_vals_typed _ vs ws HQ).
  Qed.
End Typed.

(* ------------------------------------------------------------------ 2b. the two meanings of
   patterns agree *)

Section Agree.
  Variable P : program.

  Lemma wilds_match {A} (ts : list A) : forall vals, length vals = length ts ->
    EP.forall2b EP.pat_matches (wilds ts) vals = true.
  Proof.
    induction ts as [|t ts IH]; intros [|v vals] H; cbn [length] in H; try discriminate; [reflexivity|].
    cbn [wilds map]. rewrite forall2b_cons. cbn [EP.pat_matches andb]. apply IH. lia.
  Qed.

  Lemma tr_vals_length ts vs ws : Forall3 (has_enc P) ts vs ws -> length (tr_vals (tr_val P) vs ts) = length ts.
  Proof. induction 1; cbn [tr_vals length]; congruence. Qed.

  (* the field loop of Sem.pmatch, field by field *)
  Lemma sem_match_fields_iff def vs : forall fs,
    sem_match_fields P def vs fs <> None <->
    Forall (fun fp : N * pattern => exists k fv, Sem.index_of (fst fp) (map fst def) 0 = Some k /\
              nthN vs k = Some fv /\ Sem.pmatch P (snd fp) fv <> None) fs.
  Proof.
    induction fs as [|[fn fp] fs IH].
    - split; [constructor|discriminate].
    - change (sem_match_fields P def vs ((fn, fp) :: fs)) with
        (match Sem.index_of fn (map fst def) 0 with
         | Some k => match nthN vs k with
                     | Some fv => match Sem.pmatch P fp fv, sem_match_fields P def vs fs with
                                  | Some a, Some b => Some (a ++ b) | _, _ => None end
                     | None => None end
         | None => None end).
      split.
      + intro H. destruct (Sem.index_of fn (map fst def) 0) as [k|] eqn:Ek; [|congruence].
        destruct (nthN vs k) as [fv|] eqn:Ev; [|congruence].
        destruct (Sem.pmatch P fp fv) as [a|] eqn:Ea; [|congruence].
        destruct (sem_match_fields P def vs fs) as [b|] eqn:Eb; [|congruence].
        constructor; [exists k, fv; cbn [fst snd]; repeat split; congruence|]. apply IH. discriminate.
      + intro H. inversion H as [|x l (k & fv & Hk & Hv & Hm) Hr]; subst. cbn [fst snd] in *.
        rewrite Hk, Hv. apply IH in Hr. destruct (Sem.pmatch P fp fv); [|congruence].
        destruct (sem_match_fields P def vs fs); [discriminate|congruence].
  Qed.

  (* a field value by its name, in the translated struct value *)
  Lemma tr_fvals_assoc : forall def vs ws j fn fty, Forall3 (has_enc P) (map snd def) vs ws ->
    NoDup (map fst def) -> nth_error def j = Some (fn, fty) ->
    exists vj wj, nth_error vs j = Some vj /\ has_enc P fty vj wj /\
      EP.assocN fn (tr_fvals (tr_val P) vs def) = Some (tr_val P vj fty).
  Proof.
    induction def as [|[f0 t0] def IH]; intros vs ws j fn fty H3 Hnd Hj; [destruct j; discriminate Hj|].
    cbn [map snd fst] in H3, Hnd. inversion H3 as [|t v w ts vs' ws' Hv H3']; subst.
    inversion Hnd as [|x l Hnotin Hnd']; subst.
    destruct j as [|j]; cbn [nth_error] in Hj.
    - injection Hj as -> ->. exists v, w. cbn [tr_fvals EP.assocN]. rewrite N.eqb_refl. auto.
    - destruct (IH vs' ws' j fn fty H3' Hnd' Hj) as (vj & wj & H1 & H2 & H4).
      exists vj, wj. cbn [nth_error tr_fvals EP.assocN]. split; [exact H1|]. split; [exact H2|].
      destruct (N.eqb_spec fn f0) as [->|_]; [|exact H4].
      exfalso. apply Hnotin. apply nth_error_In in Hj. apply (in_map fst) in Hj. exact Hj.
  Qed.

  Lemma in_nth_error {A} (l : list A) a : In a l -> exists j, nth_error l j = Some a.
  Proof. intro H. apply In_nth_error in H. exact H. Qed.

  Definition agree_at (p : pattern) (t : ty) : Prop := forall v w, has_enc P t v w ->
    (Sem.pmatch P p v <> None <-> EP.pat_matches (tr_pat P p) (tr_val P v t) = true).

  Lemma match_agree_mut :
    (forall p t bs, gpat_ok P p t bs -> agree_at p t) /\
    (forall ps ts bs, gpats_ok P ps ts bs -> forall vs ws, Forall3 (has_enc P) ts vs ws ->
       (sem_match_list P ps vs <> None <->
        EP.forall2b EP.pat_matches (map (tr_pat P) ps) (tr_vals (tr_val P) vs ts) = true)) /\
    (forall fs ds bs, gfields_ok P fs ds bs ->
       Forall (fun fp : N * pattern => exists fty, In (fst fp, fty) ds /\ agree_at (snd fp) fty) fs).
  Proof.
    apply gpat_ok_mutind.
    - (* identifier *) intros x m t v w _. rewrite pmatch_id. cbn [tr_pat EP.pat_matches]. split; [reflexivity|discriminate].
    - (* true *) intros m v w H. apply has_enc_inv in H as (b & -> & _). cbn [Sem.pmatch tr_pat tr_val EP.pat_matches].
      destruct b; cbn [Bool.eqb]; split; congruence || discriminate.
    - (* false *) intros m v w H. apply has_enc_inv in H as (b & -> & _). cbn [Sem.pmatch tr_pat tr_val EP.pat_matches].
      destruct b; cbn [Bool.eqb]; split; congruence || discriminate.
    - (* unsigned literal *) intros n m sg b _ v w H. apply has_enc_inv in H as (z & -> & _).
      cbn [Sem.pmatch tr_pat tr_val EP.pat_matches]. destruct (z =? Z.of_N n)%Z; split; congruence || discriminate.
    - intros z0 m sg b _ v w H. apply has_enc_inv in H as (z & -> & _).
      cbn [Sem.pmatch tr_pat tr_val EP.pat_matches]. destruct (z =? z0)%Z; split; congruence || discriminate.
    - intros lo hi m sg b _ _ v w H. apply has_enc_inv in H as (z & -> & _).
      cbn [Sem.pmatch tr_pat tr_val EP.pat_matches].
      destruct ((Z.of_N lo <=? z)%Z && (z <=? Z.of_N hi)%Z); split; congruence || discriminate.
    - intros lo hi m sg b _ _ v w H. apply has_enc_inv in H as (z & -> & _).
      cbn [Sem.pmatch tr_pat tr_val EP.pat_matches].
      destruct ((lo <=? z)%Z && (z <=? hi)%Z); split; congruence || discriminate.
    - (* tuple *) intros ps m ts bs _ IH v w H. apply has_enc_inv in H as (vs & -> & Hs).
      apply has_encs_F3 in Hs as (ws & Hws & _). rewrite pmatch_tup. cbn [tr_pat tr_val EP.pat_matches].
      exact (IH vs ws Hws).
    - (* struct *) intros name ig fields m def bs Hd Hnd _ IH v w H.
      apply has_enc_inv in H as (def' & vs & -> & Hd' & Hs). assert (def' = def) as -> by congruence.
      apply has_encs_F3 in Hs as (ws & Hws & _).
      rewrite pmatch_struct, Hd, tr_pat_struct. cbn [tr_val]. rewrite Hd. cbn [EP.pat_matches].
      rewrite N.eqb_refl. cbn [andb]. rewrite sem_match_fields_iff.
      clear Hd. induction IH as [|[fn fp] fs (fty & Hin & Hag) _ IHfs]; [split; [reflexivity|constructor]|].
      cbn [tr_fpats forallb fst snd] in *.
      destruct (in_nth_error _ _ Hin) as [j Hj].
      destruct (tr_fvals_assoc def vs ws j fn fty Hws Hnd Hj) as (vj & wj & Hvj & Hej & Has).
      rewrite Has.
      assert (Hidx : Sem.index_of fn (map fst def) 0 = Some (N.of_nat j)).
      { rewrite (index_of_nth (map fst def) j fn 0 Hnd); [f_equal; lia|].
        rewrite nth_error_map, Hj. reflexivity. }
      split.
      + intro HF. inversion HF as [|x l (k & fv & Hk & Hv & Hm) Hr]; subst. cbn [fst snd] in *.
        rewrite Hidx in Hk. injection Hk as <-. rewrite nthN_spec, Nat2N.id, Hvj in Hv. injection Hv as <-.
        apply (Hag vj wj Hej) in Hm. rewrite Hm. cbn [andb]. now apply IHfs.
      + intro HB. apply andb_prop in HB as [H1 H2]. constructor; [|now apply IHfs].
        exists (N.of_nat j), vj. cbn [fst snd]. split; [exact Hidx|]. split; [now rewrite nthN_spec, Nat2N.id|].
        now apply (Hag vj wj Hej).
    - (* enum, unit pattern *) intros ename variant m variants ts Hd Hv v w H.
      apply has_enc_inv in H as (variants' & tag & ts' & vs & pw & -> & Hd' & Ht' & Hs & _).
      assert (variants' = variants) as -> by congruence. apply has_encs_F3 in Hs as (ws & Hws & _).
      rewrite pmatch_enum_unit. cbn [tr_pat tr_val]. rewrite Hd, Hv, Ht'.
      rewrite (N.eqb_sym tag variant). destruct (N.eqb_spec variant tag) as [->|Hne].
      + assert (ts' = ts) as -> by congruence. split; [intros _|discriminate].
        destruct ts as [|t0 tr]; cbn [EP.pat_matches]; rewrite !N.eqb_refl; [reflexivity|]. cbn [andb].
        apply wilds_match. exact (tr_vals_length _ vs ws Hws).
      + split; [congruence|]. intro HB. exfalso.
        destruct ts as [|t0 tr]; cbn [EP.pat_matches] in HB; rewrite N.eqb_refl in HB;
          apply N.eqb_neq in Hne; rewrite Hne in HB; discriminate HB.
    - (* enum, tuple pattern *) intros ename variant ps m variants ts bs Hd Hv Hps IH v w H.
      apply has_enc_inv in H as (variants' & tag & ts' & vs & pw & -> & Hd' & Ht' & Hs & _).
      assert (variants' = variants) as -> by congruence. apply has_encs_F3 in Hs as (ws & Hws & _).
      rewrite pmatch_enum_tup. cbn [tr_val]. rewrite Hd, Ht'.
      rewrite (N.eqb_sym tag variant). destruct (N.eqb_spec variant tag) as [->|Hne].
      + assert (ts' = ts) as -> by congruence. specialize (IH vs ws Hws). cbn [tr_pat].
        destruct ps as [|p0 pr].
        * inversion Hps; subst. inversion Hws; subst. cbn [sem_match_list EP.pat_matches]. rewrite !N.eqb_refl.
          split; [reflexivity|discriminate].
        * cbn [EP.pat_matches]. rewrite !N.eqb_refl. cbn [andb]. exact IH.
      + split; [congruence|]. intro HB. exfalso. cbn [tr_pat] in HB.
        apply N.eqb_neq in Hne.
        destruct ps as [|p0 pr]; cbn [EP.pat_matches] in HB; rewrite N.eqb_refl, Hne in HB; discriminate HB.
    - (* no patterns *) intros vs ws H. inversion H; subst. split; [reflexivity|discriminate].
    - (* a pattern *) intros p t ps ts b bs _ _ IH1 _ IH2 vs ws H.
      inversion H as [|t' v w ts' vs' ws' Hv H']; subst.
      change (sem_match_list P (p :: ps) (v :: vs')) with
        (match Sem.pmatch P p v, sem_match_list P ps vs' with Some a, Some b0 => Some (a ++ b0) | _, _ => None end).
      cbn [map tr_vals]. rewrite forall2b_cons. specialize (IH1 v w Hv). specialize (IH2 vs' ws' H').
      split.
      + intro HN. destruct (Sem.pmatch P p v) as [a|]; [|congruence].
        destruct (sem_match_list P ps vs') as [b0|]; [|congruence].
        rewrite (proj1 IH1), (proj1 IH2); [reflexivity|discriminate|discriminate].
      + intro HB. apply andb_prop in HB as [H1 H2]. apply IH1 in H1. apply IH2 in H2.
        destruct (Sem.pmatch P p v); [|congruence]. destruct (sem_match_list P ps vs'); [discriminate|congruence].
    - constructor.
    - intros fn fp fr fty r b bs _ IH1 _ IH2. constructor.
      + exists fty. cbn [fst snd]. split; [now left|exact IH1].
      + eapply Forall_impl; [|exact IH2]. intros [f p0] (ft & Hin & Hag). exists ft. split; [now right|exact Hag].
    - intros fs fn fty r bs _ _ IH. eapply Forall_impl; [|exact IH].
      intros [f p0] (ft & Hin & Hag). exists ft. split; [now right|exact Hag].
  Qed.

  Theorem match_agree p t bs v w : gpat_ok P p t bs -> has_enc P t v w ->
    (Sem.pmatch P p v <> None <-> EP.pat_matches (tr_pat P p) (tr_val P v t) = true).
  Proof. intros Hp Hv. exact (proj1 match_agree_mut p t bs Hp v w Hv). Qed.
End Agree.

(* ------------------------------------------------------------------ 3. the check of one match *)

(* the depth to which type definitions are unfolded (types within [ty_fits] unfold within it) *)
Definition exh_depth : nat := Sem.ty_fuel.

Definition is_some {A} (o : option A) : bool := match o with Some _ => true | None => false end.

(* [ps] cover every value of [t]: the patterns are typed at t by the strict checker ([gpat_b]);
   the real algorithm (Exhaust/Useful.v), run with its proved fuel bound, reports no missing
   case; the side conditions of its correctness theorem hold (definitions with distinct names,
   the type is closed and non-recursive, the translated patterns are well typed); the type is
   within the depth [Sem.encode] handles ([ty_fits_b]) *)
Definition exh_pats (P : program) (t : ty) (ps : list pattern) : bool :=
  let env := tr_env P in
  let t' := tr_ty t in
  let ps' := map (tr_pat P) ps in
  ty_fits_b P t && forallb (fun p => is_some (gpat_b P false p t)) ps &&
  EUP.env_wf env && EUP.tok env exh_depth t' && forallb (EP.pat_wt env t') ps' &&
  match EU.check_exhaustive (EU.fuel_bound env exh_depth [t']) env t' ps' with
  | Some [] => true
  | _ => false
  end.

Theorem exh_pats_sound P t ps v w : exh_pats P t ps = true -> has_enc P t v w ->
  exists p, In p ps /\ Sem.pmatch P p v <> None.
Proof.
  unfold exh_pats. cbv zeta. intros H Hv.
  apply andb_prop in H as [H Hc]. apply andb_prop in H as [H Hwt]. apply andb_prop in H as [H Htok].
  apply andb_prop in H as [H Hwf]. apply andb_prop in H as [_ Hg].
  destruct (EU.check_exhaustive _ (tr_env P) (tr_ty t) (map (tr_pat P) ps)) as [[|? ?]|] eqn:Ec; try discriminate Hc.
  rewrite forallb_forall in Hwt.
  pose proof (proj1 (EUP.useful_iff_covers (tr_env P) exh_depth (tr_ty t) (map (tr_pat P) ps) Hwf Htok Hwt _ (le_n _)) Ec
                (tr_val P v t) (tr_val_typed P t v w Hv)) as (p' & Hin & Hm).
  apply in_map_iff in Hin as (p & <- & Hp). exists p. split; [exact Hp|].
  rewrite forallb_forall in Hg. specialize (Hg p Hp).
  destruct (gpat_b P false p t) as [bs|] eqn:Eg; [|discriminate Hg].
  apply (match_agree P p t bs v w (gpat_b_sound P p t bs Eg) Hv). exact Hm.
Qed.

Lemma exh_pats_fits P t ps : exh_pats P t ps = true -> ty_fits P t.
Proof.
  unfold exh_pats. cbv zeta. intro H. repeat (apply andb_prop in H as [H _]). exact H.
Qed.

(* the same on values given by their shape and ranges *)
Corollary exh_pats_sound_ty P t ps v : exh_pats P t ps = true ->
  has_ty P v t = true -> in_rng P v t = true -> exists p, In p ps /\ Sem.pmatch P p v <> None.
Proof.
  intros H Ht Hr. destruct (has_enc_total P t v (exh_pats_fits P t ps H) Ht Hr) as [w Hw].
  exact (exh_pats_sound P t ps v w H Hw).
Qed.

(* the arms of a match: Sem.v takes the first one that matches, so the match is not stuck *)
Lemma sem_arms_first P f v en : forall arms,
  (exists arm, In arm arms /\ Sem.pmatch P (fst arm) v <> None) ->
  exists pre p body post bs, arms = pre ++ (p, body) :: post /\
    Forall (fun a => Sem.pmatch P (fst a) v = None) pre /\ Sem.pmatch P p v = Some bs /\
    sem_arms P f v en arms =
      Sem.obind (Sem.eval f P (Sem.bind_all (Sem.push_scope en) bs) body)
        (fun '(res, en1) => Sem.Done (res, Sem.pop_scope en1)).
Proof.
  induction arms as [|[p body] arms IH]; intros (arm & Hin & Hm); [contradiction|].
  change (sem_arms P f v en ((p, body) :: arms)) with
    (match Sem.pmatch P p v with
     | Some bs => Sem.obind (Sem.eval f P (Sem.bind_all (Sem.push_scope en) bs) body)
                    (fun '(res, en1) => Sem.Done (res, Sem.pop_scope en1))
     | None => sem_arms P f v en arms end).
  destruct (Sem.pmatch P p v) as [bs|] eqn:Ep.
  - exists [], p, body, arms, bs. repeat split; auto.
  - destruct Hin as [<-|Hin]; [cbn [fst] in Hm; congruence|].
    destruct (IH (ex_intro _ arm (conj Hin Hm))) as (pre & p' & body' & post & bs & -> & Hpre & Hp' & E).
    exists ((p, body) :: pre), p', body', post, bs. split; [reflexivity|]. split; [constructor; [exact Ep|exact Hpre]|]. auto.
Qed.

(* THE SITE THEOREM: an exhaustive match on a value of the scrutinee's type evaluates the body of
   an arm -- `Stuck 41` can only come out of that body *)
Theorem exh_match_not_stuck P f v w en scrut_ty arms :
  exh_pats P scrut_ty (map fst arms) = true -> has_enc P scrut_ty v w ->
  exists p body bs, In (p, body) arms /\ Sem.pmatch P p v = Some bs /\
    sem_arms P f v en arms =
      Sem.obind (Sem.eval f P (Sem.bind_all (Sem.push_scope en) bs) body)
        (fun '(res, en1) => Sem.Done (res, Sem.pop_scope en1)).
Proof.
  intros He Hv. destruct (exh_pats_sound P scrut_ty (map fst arms) v w He Hv) as (p & Hin & Hm).
  apply in_map_iff in Hin as (arm & <- & Hin).
  destruct (sem_arms_first P f v en arms (ex_intro _ arm (conj Hin Hm))) as (pre & p' & body & post & bs & -> & _ & Hp & E).
  exists p', body, bs. split; [apply in_or_app; right; now left|]. auto.
Qed.

(* one pattern that must always match (let / for / join loop) *)
Corollary exh_irrefutable P t p v w : exh_pats P t [p] = true -> has_enc P t v w ->
  exists bs, Sem.pmatch P p v = Some bs.
Proof.
  intros He Hv. destruct (exh_pats_sound P t [p] v w He Hv) as (p' & [<-|[]] & Hm).
  destruct (Sem.pmatch P p v) as [bs|]; [eauto|congruence].
Qed.

(* ------------------------------------------------------------------ the walk over a program *)

Fixpoint exh_expr (P : program) (e : expr) {struct e} : bool :=
  match e with
  | Ex ei _ t =>
    match ei with
    | ETrue | EFalse | ENumU _ _ | ENumS _ _ | EId _ | ERange _ _ _ => true
    | EArrLit es | ETupLit es | EEnumLit _ _ es | ECall _ es => forallb (exh_expr P) es
    | EArrRep e1 _ | ETupAcc e1 _ | EFld e1 _ | ENeg e1 | ENot e1 | ECast _ e1 => exh_expr P e1
    | EIdx a i => exh_expr P a && exh_expr P i
    | EStructLit _ fields => forallb (fun fe => exh_expr P (snd fe)) fields
    | EMatch s arms =>
        exh_expr P s && exh_pats P (e_ty s) (map fst arms) && forallb (fun arm => exh_expr P (snd arm)) arms
    | EOp _ x y => exh_expr P x && exh_expr P y
    | EBlock b => forallb (exh_stmt P) b
    | EJoin _ _ a b => exh_expr P a && exh_expr P b
    | EIf c a b => exh_expr P c && exh_expr P a && exh_expr P b
    end
  end
with exh_stmt (P : program) (s : stmt) {struct s} : bool :=
  match s with
  | St si _ =>
    match si with
    | SLet p e => exh_pats P (e_ty e) [p] && exh_expr P e
    | SLetMut _ e => exh_expr P e
    | SAssign _ accs e => forallb (exh_acc P) accs && exh_expr P e
    | SFor p arr body =>
        match e_ty arr with TArr el _ => exh_pats P el [p] | _ => false end
        && exh_expr P arr && forallb (exh_stmt P) body
    | SJoinLoop p _ a b body =>
        match e_ty a, e_ty b with
        | TArr ta _, TArr tb _ => exh_pats P (TTup [ta; tb]) [p]
        | _, _ => false
        end && exh_expr P a && exh_expr P b && forallb (exh_stmt P) body
    | SExpr e => exh_expr P e
    end
  end
with exh_acc (P : program) (a : accessor) {struct a} : bool :=
  match a with
  | AIdx _ i => exh_expr P i
  | ATup _ _ | AFld _ _ => true
  end.

Definition exh_fns (P : program) : bool :=
  forallb (fun d => forallb (exh_stmt P) (fn_body d)) (p_fns P).

Print Assumptions tr_val_typed.
Print Assumptions match_agree.
Print Assumptions exh_pats_sound.
Print Assumptions exh_match_not_stuck.
