(* C08 — a verified decision procedure for "the arms cover every value of the type"
   (region method).  Definitions only (proofs: CoversProofs.v).

   Every number or range bound written anywhere in the arms is a *split point*.  Two
   integers lie in the same region when they are on the same side of every split point;
   two values lie in the same region when they have the same shape (same bool, same enum
   variant) and their integers lie pairwise in the same region.  Patterns cannot tell
   values of one region apart ([region_constant]), every value of the type lies in the
   region of one of the finitely many representatives [reps] ([reps_complete]), and every
   representative is a value of the type ([reps_typed]); so testing the representatives
   decides coverage.

   The products for tuples/structs/enum payloads are capped ([cap]) and the recursion
   through the type definitions has [fuel]; beyond either the answer is [None] =
   "undecided" — never a wrong verdict. *)
From GV Require Import Base.Util Exhaust.Pat.
Local Open Scope Z_scope.

(* ---------------------------------------------------------------- split points *)

Fixpoint pat_points (p : pattern) {struct p} : list Z :=
  match p with
  | PVar _ | PBool _ => []
  | PNum _ z => [z; z + 1]
  | PRange _ lo hi => [lo; hi + 1]
  | PTuple ps => flat_map pat_points ps
  | PStruct _ fs _ => flat_map (fun fp : N * pattern => let '(_, p') := fp in pat_points p') fs
  | PEnum _ _ None => []
  | PEnum _ _ (Some ps) => flat_map pat_points ps
  end.

Definition points (ps : list pattern) : list Z := flat_map pat_points ps.

(* ---------------------------------------------------------------- regions *)

Definition same_side (sp : list Z) (a b : Z) : bool :=
  forallb (fun s => Bool.eqb (s <=? a) (s <=? b)) sp.

Fixpoint simb (sp : list Z) (v r : value) {struct v} : bool :=
  match v, r with
  | VBool a, VBool b => Bool.eqb a b
  | VInt a, VInt b => same_side sp a b
  | VTuple vs, VTuple rs => forall2b (simb sp) vs rs
  | VStruct n fvs, VStruct n' frs =>
      N.eqb n n' &&
      forall2b (fun (fv fr : N * value) =>
                  let '(f, v') := fv in
                  let '(f', r') := fr in
                  N.eqb f f' && simb sp v' r') fvs frs
  | VEnum n x vs, VEnum n' x' rs =>
      N.eqb n n' && N.eqb x x' && forall2b (simb sp) vs rs
  | _, _ => false
  end.

(* ---------------------------------------------------------------- representatives *)

Definition int_reps (sp : list Z) (lo hi : Z) : list Z :=
  if hi <? lo then []
  else lo :: nodup Z.eq_dec (filter (fun s => (lo <? s) && (s <=? hi)) sp).

(* cartesian product of a list of lists, refused beyond [cap] elements per step *)
Fixpoint lprod {A} (cap : N) (ls : list (list A)) : option (list (list A)) :=
  match ls with
  | [] => Some [[]]
  | l :: rest =>
      match lprod cap rest with
      | None => None
      | Some tails =>
          if (lenN l * lenN tails <=? cap)%N
          then Some (flat_map (fun x => map (cons x) tails) l)
          else None
      end
  end.

Definition concat_opt {A} (o : option (list (list A))) : option (list A) :=
  match o with Some ls => Some (concat ls) | None => None end.

Fixpoint reps (env : tyenv) (sp : list Z) (cap : N) (fuel : nat) (t : ty) {struct fuel}
  : option (list value) :=
  match fuel with
  | O => None
  | S f =>
      match t with
      | TBool => Some [VBool true; VBool false]
      | TInt sg w => Some (map VInt (int_reps sp (int_lo sg w) (int_hi sg w)))
      | TTuple ts =>
          match mapM (reps env sp cap f) ts with
          | None => None
          | Some rss => option_map (map VTuple) (lprod cap rss)
          end
      | TStruct n =>
          match assocN n (structs env) with
          | None => None
          | Some fts =>
              match mapM (fun ft : N * ty => reps env sp cap f (snd ft)) fts with
              | None => None
              | Some rss =>
                  option_map (map (fun vs => VStruct n (combine (map fst fts) vs)))
                             (lprod cap rss)
              end
          end
      | TEnum n =>
          match assocN n (enums env) with
          | None => None
          | Some variants =>
              concat_opt
                (mapM (fun vd : N * option (list ty) =>
                         match snd vd with
                         | None => Some [VEnum n (fst vd) []]
                         | Some ts =>
                             match mapM (reps env sp cap f) ts with
                             | None => None
                             | Some rss => option_map (map (VEnum n (fst vd))) (lprod cap rss)
                             end
                         end) variants)
          end
      end
  end.

(* variant names are distinct inside each enum definition (otherwise a later duplicate is
   unreachable for [has_type] and the procedure declines to answer) *)
Definition env_ok (env : tyenv) : bool :=
  forallb (fun ed : N * list (N * option (list ty)) => nodupN (map fst (snd ed))) (enums env).

(* ---------------------------------------------------------------- the decision procedures *)

Definition covers (env : tyenv) (cap : N) (fuel : nat) (t : ty) (ps : list pattern) : option bool :=
  if env_ok env then
    match reps env (points ps) cap fuel t with
    | Some rs => Some (forallb (arm_matches ps) rs)
    | None => None
    end
  else None.

(* Some None = covered; Some (Some v) = v is a value of the type that no arm matches *)
Definition uncovered (env : tyenv) (cap : N) (fuel : nat) (t : ty) (ps : list pattern)
  : option (option value) :=
  if env_ok env then
    match reps env (points ps) cap fuel t with
    | Some rs => Some (find (fun r => negb (arm_matches ps r)) rs)
    | None => None
    end
  else None.

(* a reported missing case [w]: it denotes at least one value of the type, and only values
   that no arm matches *)
Definition witness_ok (env : tyenv) (cap : N) (fuel : nat) (t : ty) (ps : list pattern)
           (w : pattern) : option bool :=
  if env_ok env then
    match reps env (points (w :: ps)) cap fuel t with
    | Some rs =>
        Some (existsb (pat_matches w) rs
              && forallb (fun r => negb (pat_matches w r) || negb (arm_matches ps r)) rs)
    | None => None
    end
  else None.

(* one representative per region, for the evaluation of compiled circuits *)
Definition region_reps (env : tyenv) (cap : N) (fuel : nat) (t : ty) (ps : list pattern)
  : option (list value) :=
  if env_ok env then reps env (points ps) cap fuel t else None.
