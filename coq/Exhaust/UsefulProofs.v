(* C08 -- the model of the real exhaustiveness algorithm (Useful.v) is SOUND and COMPLETE:
   every witness it returns is a well-typed, inhabited pattern stack all of whose values are
   matched by no row; and it returns at least one witness whenever some value is matched by
   no row.  Hence check_exhaustive answers [Some []] exactly when the arms cover the type,
   and agrees with the reference procedure Covers.covers wherever both answer. *)
From Coq Require Import Sorting.Sorted.
From GV Require Import Base.Util Exhaust.Pat Exhaust.Covers Exhaust.CoversProofs Exhaust.Useful.
Local Open Scope Z_scope.

(* ================================================================ lists *)

Lemma forall2b_length {A B} (f : A -> B -> bool) l1 l2 : forall2b f l1 l2 = true -> length l1 = length l2.
Proof. intro H. apply forall2b_Forall2 in H. eapply Forall2_length'; eauto. Qed.

Lemma forall2b_app {A B} (f : A -> B -> bool) l1 : forall l2 r1 r2, length l1 = length l2 ->
  forall2b f (l1 ++ r1) (l2 ++ r2) = forall2b f l1 l2 && forall2b f r1 r2.
Proof.
  induction l1 as [|a l1 IH]; intros [|b l2] r1 r2 L; cbn [length] in L; try discriminate.
  - reflexivity.
  - cbn [app]. rewrite !forall2b_cons, IH by congruence. now rewrite andb_assoc.
Qed.

Lemma forall2b_split {A B} (f : A -> B -> bool) l1 r1 l : forall2b f (l1 ++ r1) l = true ->
  exists l2 r2, l = l2 ++ r2 /\ length l2 = length l1 /\ forall2b f l1 l2 = true /\ forall2b f r1 r2 = true.
Proof.
  revert l. induction l1 as [|a l1 IH]; intros l H.
  - exists [], l. repeat split; auto.
  - destruct l as [|b l]; [discriminate|]. cbn [app] in H. rewrite forall2b_cons in H.
    apply andb_true_iff in H. destruct H as [H1 H2]. destruct (IH l H2) as (l2 & r2 & -> & L & F1 & F2).
    exists (b :: l2), r2. cbn [app length]. rewrite forall2b_cons, H1, F1. repeat split; auto.
Qed.

Lemma forall2b_split_r {A B} (f : A -> B -> bool) l l2 r2 : forall2b f l (l2 ++ r2) = true ->
  exists l1 r1, l = l1 ++ r1 /\ length l1 = length l2 /\ forall2b f l1 l2 = true /\ forall2b f r1 r2 = true.
Proof.
  revert l. induction l2 as [|b l2 IH]; intros l H.
  - exists [], l. repeat split; auto.
  - destruct l as [|a l]; [discriminate|]. cbn [app] in H. rewrite forall2b_cons in H.
    apply andb_true_iff in H. destruct H as [H1 H2]. destruct (IH l H2) as (l1 & r1 & -> & L & F1 & F2).
    exists (a :: l1), r1. cbn [app length]. rewrite forall2b_cons, H1, F1. repeat split; auto.
Qed.

Lemma oconcat_Some {A} (l : list (option (list A))) ws : oconcat l = Some ws ->
  exists xs, Forall2 (fun o x => o = Some x) l xs /\ ws = concat xs.
Proof.
  revert ws. induction l as [|[x|] r IH]; intros ws H; cbn [oconcat] in H; try discriminate.
  - injection H as <-. exists []. split; [constructor|reflexivity].
  - destruct (oconcat r) as [y|]; [|discriminate]. injection H as <-.
    destruct (IH y eq_refl) as (xs & HF & ->). exists (x :: xs). split; [constructor; auto|reflexivity].
Qed.

(* ================================================================ sorting and windows *)

Lemma insert_uniq_In x y l : In y (insert_uniq x l) <-> y = x \/ In y l.
Proof.
  induction l as [|z r IH]; cbn [insert_uniq].
  - cbn [In]. intuition.
  - destruct (Z.ltb_spec x z); [cbn [In]; intuition|].
    destruct (Z.eqb_spec x z) as [->|Hne]; [cbn [In]; intuition|].
    cbn [In]. rewrite IH. intuition.
Qed.

Lemma sort_dedup_In y l : In y (sort_dedup l) <-> In y l.
Proof.
  unfold sort_dedup. induction l as [|x r IH]; cbn [fold_right]; [reflexivity|].
  rewrite insert_uniq_In, IH. cbn [In]. intuition.
Qed.

Lemma insert_uniq_sorted x l : StronglySorted Z.lt l -> StronglySorted Z.lt (insert_uniq x l).
Proof.
  induction 1 as [|z r Hs IH Hz]; cbn [insert_uniq]; [repeat constructor|].
  destruct (Z.ltb_spec x z) as [Hlt|Hge].
  - constructor; [constructor; assumption|]. constructor; [exact Hlt|].
    eapply Forall_impl; [|exact Hz]. intros a Ha. cbn beta in Ha. lia.
  - destruct (Z.eqb_spec x z) as [->|Hne]; [constructor; assumption|].
    constructor; [exact IH|]. apply Forall_forall. intros a Ha. apply insert_uniq_In in Ha.
    destruct Ha as [->|Ha]; [lia|]. rewrite Forall_forall in Hz. auto.
Qed.

Lemma sort_dedup_sorted l : StronglySorted Z.lt (sort_dedup l).
Proof.
  unfold sort_dedup. induction l as [|x r IH]; cbn [fold_right]; [constructor|].
  apply insert_uniq_sorted. exact IH.
Qed.

(* [a], [b] are adjacent in [sp] *)
Definition consec (a b : Z) (sp : list Z) : Prop := exists pre post, sp = pre ++ a :: b :: post.

Lemma consec_cons a b x sp : consec a b sp -> consec a b (x :: sp).
Proof. intros (pre & post & ->). exists (x :: pre), post. reflexivity. Qed.

Lemma sorted_app_inv pre (post : list Z) : StronglySorted Z.lt (pre ++ post) ->
  StronglySorted Z.lt post /\ forall x y, In x pre -> In y post -> x < y.
Proof.
  induction pre as [|p pre IH]; cbn [app]; intro H.
  - split; [exact H|]. intros x y [].
  - inversion H as [|p' l Hs Hall]; subst. destruct (IH Hs) as [Hp Hlt]. split; [exact Hp|].
    intros x y [->|Hx] Hy; [|auto]. rewrite Forall_forall in Hall. apply Hall. apply in_or_app. now right.
Qed.

(* no point of a sorted list lies strictly between two adjacent ones *)
Lemma consec_gap a b sp : StronglySorted Z.lt sp -> consec a b sp ->
  a < b /\ forall s, In s sp -> s <= a \/ b <= s.
Proof.
  intros Hs (pre & post & ->). destruct (sorted_app_inv _ _ Hs) as [Hp Hlt].
  inversion Hp as [|a' l Hs1 Hall1]; subst. inversion Hs1 as [|b' l' Hs2 Hall2]; subst.
  rewrite Forall_forall in Hall1, Hall2. split; [apply Hall1; now left|].
  intros s Hin. apply in_app_or in Hin. destruct Hin as [Hin|[->|[->|Hin]]]; try lia.
  - left. assert (s < a) by (apply Hlt; [exact Hin|now left]). lia.
  - right. assert (b < s) by auto. lia.
Qed.

Lemma windows_u_In mn mx sp c : In c (windows_u mn mx sp) ->
  exists a b, consec a b sp /\
    ((a < b - 1 /\ c = CRange false a a) \/
     (mn <= a /\ b - 1 <= mx /\ a < b - 1 /\ c = CRange false (a + 1) (b - 1)) \/
     (mn <= a /\ b - 1 <= mx /\ ~ a < b - 1 /\ c = CRange false a (b - 1))).
Proof.
  induction sp as [|a [|b r] IH]; cbn [windows_u]; try (intros []).
  intro H. apply in_app_or in H. destruct H as [H|H]; [|apply in_app_or in H; destruct H as [H|H]].
  - destruct (Z.ltb_spec a (b - 1)); [|destruct H]. destruct H as [<-|[]].
    exists a, b. split; [exists [], r; reflexivity|]. left. auto.
  - destruct ((mn <=? a) && (b - 1 <=? mx)) eqn:E; [|destruct H].
    apply andb_true_iff in E. destruct E as [E1 E2]. apply Z.leb_le in E1, E2.
    destruct (Z.ltb_spec a (b - 1)); destruct H as [<-|[]]; exists a, b; (split; [exists [], r; reflexivity|]).
    + right. left. auto.
    + right. right. repeat split; auto. lia.
  - destruct (IH H) as (a' & b' & Hc & Hd). exists a', b'. split; [apply consec_cons; exact Hc|exact Hd].
Qed.

Lemma windows_s_In mn mx sp c : In c (windows_s mn mx sp) ->
  exists a b, consec a b sp /\ mn <= a /\ b - 1 <= mx /\
    ((a < b - 1 /\ c = CRange true a a) \/
     (a < b - 1 /\ c = CRange true (a + 1) (b - 1)) \/
     (~ a < b - 1 /\ c = CRange true a (b - 1))).
Proof.
  induction sp as [|a [|b r] IH]; cbn [windows_s]; try (intros []).
  intro H. apply in_app_or in H. destruct H as [H|H].
  - destruct ((mn <=? a) && (b - 1 <=? mx)) eqn:E; [|destruct H].
    apply andb_true_iff in E. destruct E as [E1 E2]. apply Z.leb_le in E1, E2.
    exists a, b. split; [exists [], r; reflexivity|]. split; [exact E1|]. split; [exact E2|].
    destruct (Z.ltb_spec a (b - 1)).
    + destruct H as [<-|[<-|[]]]; [left|right; left]; auto.
    + destruct H as [<-|[]]. right. right. split; [lia|reflexivity].
  - destruct (IH H) as (a' & b' & Hc & Hd). exists a', b'. split; [apply consec_cons; exact Hc|exact Hd].
Qed.

(* converse: the constructors of an adjacent pair inside the bounds are produced *)
Lemma windows_u_complete mn mx sp a b : consec a b sp -> mn <= a -> b - 1 <= mx ->
  (a < b - 1 -> In (CRange false a a) (windows_u mn mx sp) /\ In (CRange false (a + 1) (b - 1)) (windows_u mn mx sp)) /\
  (~ a < b - 1 -> In (CRange false a (b - 1)) (windows_u mn mx sp)).
Proof.
  intros (pre & post & ->) H1 H2. induction pre as [|p pre IH].
  - cbn [app windows_u]. rewrite (proj2 (Z.leb_le _ _) H1), (proj2 (Z.leb_le _ _) H2). cbn [andb].
    destruct (Z.ltb_spec a (b - 1)); split; intro Hc; try lia.
    + split; [now left|]. apply in_or_app. right. apply in_or_app. left. now left.
    + apply in_or_app. right. apply in_or_app. left. now left.
  - cbn [app]. destruct (pre ++ a :: b :: post) as [|x r] eqn:E; [destruct pre; discriminate|].
    cbn [windows_u]. destruct IH as [IH1 IH2]. split; intro Hc.
    + destruct (IH1 Hc). split; apply in_or_app; right; apply in_or_app; right; assumption.
    + apply in_or_app; right; apply in_or_app; right; auto.
Qed.

Lemma windows_s_complete mn mx sp a b : consec a b sp -> mn <= a -> b - 1 <= mx ->
  (a < b - 1 -> In (CRange true a a) (windows_s mn mx sp) /\ In (CRange true (a + 1) (b - 1)) (windows_s mn mx sp)) /\
  (~ a < b - 1 -> In (CRange true a (b - 1)) (windows_s mn mx sp)).
Proof.
  intros (pre & post & ->) H1 H2. induction pre as [|p pre IH].
  - cbn [app windows_s]. rewrite (proj2 (Z.leb_le _ _) H1), (proj2 (Z.leb_le _ _) H2). cbn [andb].
    destruct (Z.ltb_spec a (b - 1)); split; intro Hc; try lia.
    + split; apply in_or_app; left; [now left|right; now left].
    + apply in_or_app. left. now left.
  - cbn [app]. destruct (pre ++ a :: b :: post) as [|x r] eqn:E; [destruct pre; discriminate|].
    cbn [windows_s]. destruct IH as [IH1 IH2]. split; intro Hc.
    + destruct (IH1 Hc). split; apply in_or_app; right; assumption.
    + apply in_or_app; right; auto.
Qed.

(* the adjacent pair around z *)
Lemma find_consec sp : forall z, StronglySorted Z.lt sp ->
  (exists s, In s sp /\ s <= z) -> (exists s, In s sp /\ z < s) ->
  exists a b, consec a b sp /\ a <= z < b.
Proof.
  induction sp as [|a [|b r] IH]; intros z Hs (s1 & Hin1 & Hle) (s2 & Hin2 & Hlt).
  - destruct Hin1.
  - destruct Hin1 as [<-|[]]. destruct Hin2 as [<-|[]]. lia.
  - inversion Hs as [|a' l Hs' Hall]; subst. rewrite Forall_forall in Hall.
    destruct (Z.ltb_spec z b) as [Hzb|Hbz].
    + assert (a <= z).
      { destruct Hin1 as [<-|Hin1]; [exact Hle|]. assert (a < s1) by auto.
        destruct Hin1 as [<-|Hin1]; [lia|]. inversion Hs' as [|b' l' _ Hall']; subst.
        rewrite Forall_forall in Hall'. assert (b < s1) by auto. lia. }
      exists a, b. split; [exists [], r; reflexivity|lia].
    + destruct (IH z Hs') as (a' & b' & Hc & Hz).
      * exists b. split; [now left|exact Hbz].
      * exists s2. split; [|exact Hlt]. destruct Hin2 as [Heq|Hin2]; [|exact Hin2].
        assert (a < b) by (apply Hall; now left). lia.
      * exists a', b'. split; [apply consec_cons; exact Hc|exact Hz].
Qed.

(* ================================================================ vocabulary *)

Definition vmatch (ps : list pattern) (vs : list value) : bool := forall2b pat_matches ps vs.
Definition vtyped (env : tyenv) (vs : list value) (ts : list ty) : bool := forall2b (has_type env) vs ts.
(* a pattern stack is well typed against the column types *)
Definition swt (env : tyenv) (ts : list ty) (ps : list pattern) : bool :=
  forall2b (fun p t => pat_wt env t p) ps ts.
Definition allvar (q : list pattern) : bool := forallb is_var q.

(* definitions are well formed: variant names and field names are distinct *)
Definition env_wf (env : tyenv) : bool :=
  env_ok env && forallb (fun sd : N * list (N * ty) => nodupN (map fst (snd sd))) (structs env).

(* [t] unfolds within depth [d] through the definitions (closed, non-recursive), integer
   types are non-empty and enums have at least one variant: every such type is inhabited *)
Fixpoint tok (env : tyenv) (d : nat) (t : ty) {struct d} : bool :=
  match d with
  | O => false
  | S d' =>
      match t with
      | TBool => true
      | TInt sg w => int_lo sg w <=? int_hi sg w
      | TTuple ts => forallb (tok env d') ts
      | TStruct n =>
          match assocN n (structs env) with
          | Some fts => forallb (fun ft : N * ty => tok env d' (snd ft)) fts
          | None => false
          end
      | TEnum n =>
          match assocN n (enums env) with
          | Some variants =>
              match variants with [] => false | _ => true end &&
              forallb (fun vd : N * option (list ty) =>
                         match snd vd with Some ts => forallb (tok env d') ts | None => true end) variants
          | None => false
          end
      end
  end.

Lemma tok_mono env d : forall t, tok env d t = true -> tok env (S d) t = true.
Proof.
  induction d as [|d IH]; intros t H; [discriminate|].
  cbn [tok] in H. change (tok env (S (S d)) t) with
    (match t with
     | TBool => true
     | TInt sg w => int_lo sg w <=? int_hi sg w
     | TTuple ts => forallb (tok env (S d)) ts
     | TStruct n => match assocN n (structs env) with
                    | Some fts => forallb (fun ft : N * ty => tok env (S d) (snd ft)) fts | None => false end
     | TEnum n => match assocN n (enums env) with
                  | Some variants =>
                      match variants with [] => false | _ => true end &&
                      forallb (fun vd : N * option (list ty) =>
                                 match snd vd with Some ts => forallb (tok env (S d)) ts | None => true end) variants
                  | None => false end
     end).
  destruct t as [|sg w|ts|n|n]; try exact H.
  - rewrite forallb_forall in *. intros x Hx. apply IH, H, Hx.
  - destruct (assocN n (structs env)) as [fts|]; [|discriminate].
    rewrite forallb_forall in *. intros x Hx. apply IH, H, Hx.
  - destruct (assocN n (enums env)) as [variants|]; [|discriminate].
    apply andb_true_iff in H. destruct H as [H1 H2]. rewrite H1. cbn [andb].
    rewrite forallb_forall in *. intros x Hx. specialize (H2 x Hx). destruct (snd x) as [ts|]; [|reflexivity].
    rewrite forallb_forall in *. intros y Hy. apply IH, H2, Hy.
Qed.

(* every such type has a value *)
Lemma tok_inhabited env d : forall t, tok env d t = true -> exists v, has_type env v t = true.
Proof.
  induction d as [|d IH]; intros t H; [discriminate|].
  assert (Hl : forall ts, forallb (tok env d) ts = true -> exists vs, forall2b (has_type env) vs ts = true).
  { induction ts as [|t' ts IHt]; cbn [forallb]; intro Hts; [exists []; reflexivity|].
    apply andb_true_iff in Hts. destruct Hts as [H1 H2]. destruct (IH t' H1) as [v Hv]. destruct (IHt H2) as [vs Hvs].
    exists (v :: vs). rewrite forall2b_cons, Hv, Hvs. reflexivity. }
  cbn [tok] in H. destruct t as [|sg w|ts|n|n].
  - exists (VBool true). reflexivity.
  - exists (VInt (int_lo sg w)). cbn [has_type]. unfold in_int. rewrite Z.leb_refl, H. reflexivity.
  - destruct (Hl ts H) as [vs Hvs]. exists (VTuple vs). exact Hvs.
  - destruct (assocN n (structs env)) as [fts|] eqn:En; [|discriminate].
    assert (Hf : exists fvs, forall2b (ht_field env) fvs fts = true).
    { clear En. induction fts as [|[f t'] fts IHf]; cbn [forallb] in H; [exists []; reflexivity|].
      apply andb_true_iff in H. destruct H as [H1 H2]. cbn [snd] in H1. destruct (IH t' H1) as [v Hv].
      destruct (IHf H2) as [fvs Hfvs]. exists ((f, v) :: fvs). rewrite forall2b_cons, Hfvs.
      cbn [ht_field]. rewrite N.eqb_refl, Hv. reflexivity. }
    destruct Hf as [fvs Hfvs]. exists (VStruct n fvs). rewrite ht_struct, N.eqb_refl, En. exact Hfvs.
  - destruct (assocN n (enums env)) as [variants|] eqn:En; [|discriminate].
    destruct variants as [|[x o] variants]; [discriminate|]. cbn [andb forallb snd] in H.
    apply andb_true_iff in H. destruct H as [H1 _].
    destruct o as [ts|].
    + destruct (Hl ts H1) as [vs Hvs]. exists (VEnum n x vs). rewrite ht_enum, N.eqb_refl, En.
      cbn [assocN]. rewrite N.eqb_refl. exact Hvs.
    + exists (VEnum n x []). rewrite ht_enum, N.eqb_refl, En. cbn [assocN]. rewrite N.eqb_refl. reflexivity.
Qed.

Lemma toks_inhabited env d ts : Forall (fun t => tok env d t = true) ts -> exists vs, vtyped env vs ts = true.
Proof.
  induction 1 as [|t ts Ht _ IH]; [exists []; reflexivity|].
  destruct (tok_inhabited env d t Ht) as [v Hv]. destruct IH as [vs Hvs].
  exists (v :: vs). unfold vtyped in *. rewrite forall2b_cons, Hv, Hvs. reflexivity.
Qed.

(* ================================================================ constructors *)

(* the class of values of a constructor, and the sub-values it exposes *)
Definition in_ctor (c : ctor) (v : value) : bool :=
  match c, v with
  | CTrue, VBool b => b
  | CFalse, VBool b => negb b
  | CRange _ lo hi, VInt z => (lo <=? z) && (z <=? hi)
  | CTuple _, VTuple _ => true
  | CStruct _ _, VStruct _ _ => true
  | CVariant _ x _, VEnum _ x' _ => N.eqb x x'
  | _, _ => false
  end.

Definition args (v : value) : list value :=
  match v with
  | VTuple vs => vs
  | VStruct _ fvs => map snd fvs
  | VEnum _ _ vs => vs
  | _ => []
  end.

(* [c] is a constructor of type [t] *)
Definition ctor_for (env : tyenv) (t : ty) (c : ctor) : Prop :=
  match t, c with
  | TBool, CTrue | TBool, CFalse => True
  | TInt sg w, CRange sg' lo hi => sg' = sg /\ int_lo sg w <= lo /\ lo <= hi /\ hi <= int_hi sg w
  | TTuple ts, CTuple ts' => ts' = ts
  | TStruct n, CStruct n' fts => n' = n /\ assocN n (structs env) = Some fts
  | TEnum n, CVariant n' x o =>
      n' = n /\ exists variants, assocN n (enums env) = Some variants /\ In (x, o) variants
  | _, _ => False
  end.

(* a number / range pattern does not cut the class of a range constructor *)
Definition hom (c : ctor) (p : pattern) : Prop :=
  match c, p with
  | CRange _ lo hi, PNum _ n => (n = lo /\ n = hi) \/ n < lo \/ hi < n
  | CRange _ lo hi, PRange _ l h => (l <= lo /\ hi <= h) \/ h < lo \/ hi < l
  | _, _ => True
  end.

Definition heads (rows : list (list pattern)) : list pattern :=
  flat_map (fun r => match r with p :: _ => [p] | [] => [] end) rows.

Lemma heads_In p r rows : In (p :: r) rows -> In p (heads rows).
Proof. intro H. unfold heads. apply in_flat_map. exists (p :: r). split; [exact H|now left]. Qed.

Lemma head_points_In pts p rows s : In p (heads rows) -> In s (pts p) -> In s (head_points pts rows).
Proof.
  unfold heads, head_points. intros Hp Hs. apply in_flat_map in Hp. destruct Hp as (r & Hr & Hp).
  apply in_flat_map. exists r. split; [exact Hr|]. destruct r as [|p' r']; [destruct Hp|].
  destruct Hp as [->|[]]. exact Hs.
Qed.

Lemma head_points_inv pts rows s : In s (head_points pts rows) -> exists p, In p (heads rows) /\ In s (pts p).
Proof.
  unfold heads, head_points. intro H. apply in_flat_map in H. destruct H as (r & Hr & Hs).
  destruct r as [|p r']; [destruct Hs|]. exists p. split; [|exact Hs].
  apply in_flat_map. exists (p :: r'). split; [exact Hr|now left].
Qed.

Lemma pts_u_wt env w p : pat_wt env (TInt false w) p = true -> pts_u p = pts_s p.
Proof. destruct p as [x|b|sl z|sl lo hi|ps|n fs rest|n x pl]; try reflexivity; destruct sl; try reflexivity; discriminate. Qed.

Lemma pts_s_range env sg w p s : pat_wt env (TInt sg w) p = true -> In s (pts_s p) ->
  int_lo sg w <= s <= int_hi sg w + 1.
Proof.
  destruct p as [x|b|sl z|sl lo hi|ps|n fs rest|n x pl]; cbn [pts_s pat_wt]; try (intros _ Hin; destruct Hin; fail).
  - intros H [<-|[]]. apply andb_true_iff in H. destruct H as [_ Hz]. apply int_lo_le_hi_or_empty in Hz. lia.
  - intros H Hin. apply andb_true_iff in H. destruct H as [H0 H2]. apply andb_true_iff in H0. destruct H0 as [_ H1].
    apply int_lo_le_hi_or_empty in H1, H2. destruct Hin as [<-|[<-|[]]]; lia.
Qed.

(* the classes cut out of a sorted set of split points are homogeneous for every pattern
   whose bounds are among the points *)
Lemma class_hom sg sp a b p : StronglySorted Z.lt sp -> consec a b sp -> incl (pts_s p) sp ->
  hom (CRange sg a a) p /\ (a < b - 1 -> hom (CRange sg (a + 1) (b - 1)) p) /\
  (~ a < b - 1 -> hom (CRange sg a (b - 1)) p).
Proof.
  intros Hs Hc Hi. destruct (consec_gap _ _ _ Hs Hc) as [Hab Hgap].
  destruct p as [x|bb|sl z|sl lo hi|ps|n fs rest|n x pl]; cbn [hom]; try (repeat split; exact I).
  - assert (Hz : z <= a \/ b <= z) by (apply Hgap, Hi; now left). repeat split; intros; lia.
  - assert (H1 : lo <= a \/ b <= lo) by (apply Hgap, Hi; now left).
    assert (H2 : hi + 1 <= a \/ b <= hi + 1) by (apply Hgap, Hi; right; now left).
    repeat split; intros; lia.
Qed.

(* split_unsigned_range / split_signed_range on the whole type *)
Lemma split_range_ok env sg w rows c :
  int_lo sg w <= int_hi sg w ->
  (forall p, In p (heads rows) -> pat_wt env (TInt sg w) p = true) ->
  In c (if sg then split_signed_range rows (int_lo sg w) (int_hi sg w)
        else split_unsigned_range rows (int_lo sg w) (int_hi sg w)) ->
  ctor_for env (TInt sg w) c /\ forall p, In p (heads rows) -> hom c p.
Proof.
  intros Hne Hwt Hin.
  set (mn := int_lo sg w) in *. set (mx := int_hi sg w) in *.
  set (sp := sort_dedup ([mn; mx + 1] ++ head_points pts_s rows)).
  assert (Hsp : StronglySorted Z.lt sp) by apply sort_dedup_sorted.
  assert (Hu : head_points pts_u rows = head_points pts_s rows \/ sg = true).
  { destruct sg; [now right|left]. unfold head_points.
    assert (G : forall rs, (forall p, In p (heads rs) -> pat_wt env (TInt false w) p = true) ->
              flat_map (fun r => match r with p :: _ => pts_u p | [] => [] end) rs =
              flat_map (fun r => match r with p :: _ => pts_s p | [] => [] end) rs).
    { induction rs as [|r rs IH]; intro Hr; [reflexivity|]. cbn [flat_map]. rewrite IH.
      - destruct r as [|p r']; [reflexivity|]. rewrite (pts_u_wt env w p); [reflexivity|].
        apply Hr. unfold heads. cbn [flat_map]. now left.
      - intros p Hp. apply Hr. unfold heads in *. cbn [flat_map]. apply in_or_app. now right. }
    apply G. exact Hwt. }
  assert (Hbound : forall s, In s sp -> mn <= s <= mx + 1).
  { intros s Hs. unfold sp in Hs. apply (proj1 (sort_dedup_In _ _)) in Hs. apply in_app_or in Hs. destruct Hs as [[<-|[<-|[]]]|Hs]; try lia.
    destruct (head_points_inv _ _ _ Hs) as (p & Hp & Hsp'). apply (pts_s_range env sg w p s (Hwt p Hp) Hsp'). }
  assert (Hinc : forall p, In p (heads rows) -> incl (pts_s p) sp).
  { intros p Hp s Hs. apply sort_dedup_In. apply in_or_app. right. eapply head_points_In; eauto. }
  assert (Core : forall a b, consec a b sp ->
    forall lo hi, (lo = a /\ hi = a) \/ (a < b - 1 /\ lo = a + 1 /\ hi = b - 1) \/ (~ a < b - 1 /\ lo = a /\ hi = b - 1) ->
    ctor_for env (TInt sg w) (CRange sg lo hi) /\ forall p, In p (heads rows) -> hom (CRange sg lo hi) p).
  { intros a b Hc lo hi Hcase. destruct (consec_gap _ _ _ Hsp Hc) as [Hab _].
    assert (Ha : In a sp) by (destruct Hc as (pre & post & ->); apply in_or_app; right; now left).
    assert (Hb : In b sp) by (destruct Hc as (pre & post & ->); apply in_or_app; right; right; now left).
    pose proof (Hbound a Ha) as Ba. pose proof (Hbound b Hb) as Bb. split.
    - cbn [ctor_for]. split; [reflexivity|]. destruct Hcase as [[-> ->]|[(H1 & -> & ->)|(H1 & -> & ->)]]; lia.
    - intros p Hp. destruct (class_hom sg sp a b p Hsp Hc (Hinc p Hp)) as (C1 & C2 & C3).
      destruct Hcase as [[-> ->]|[(H1 & -> & ->)|(H1 & -> & ->)]]; auto. }
  destruct sg.
  - unfold split_signed_range in Hin. fold mn mx sp in Hin.
    destruct (windows_s_In _ _ _ _ Hin) as (a & b & Hc & _ & _ & Hcase).
    destruct Hcase as [(H1 & ->)|[(H1 & ->)|(H1 & ->)]]; apply (Core a b Hc); auto.
  - unfold split_unsigned_range in Hin. destruct Hu as [Hu|Hu]; [|discriminate]. rewrite Hu in Hin. fold mn mx sp in Hin.
    destruct (windows_u_In _ _ _ _ Hin) as (a & b & Hc & Hcase).
    destruct Hcase as [(H1 & ->)|[(_ & _ & H1 & ->)|(_ & _ & H1 & ->)]]; apply (Core a b Hc); auto.
Qed.

Lemma split_range_cover env sg w rows z :
  (forall p, In p (heads rows) -> pat_wt env (TInt sg w) p = true) ->
  int_lo sg w <= z <= int_hi sg w ->
  exists c, In c (if sg then split_signed_range rows (int_lo sg w) (int_hi sg w)
                  else split_unsigned_range rows (int_lo sg w) (int_hi sg w)) /\ in_ctor c (VInt z) = true.
Proof.
  intros Hwt Hz.
  set (mn := int_lo sg w) in *. set (mx := int_hi sg w) in *.
  assert (G : forall pts, let sp := sort_dedup ([mn; mx + 1] ++ head_points pts rows) in
     exists a b, consec a b sp /\ mn <= a /\ b - 1 <= mx /\ a <= z < b).
  { intros pts sp. assert (Hsp : StronglySorted Z.lt sp) by apply sort_dedup_sorted.
    assert (Hmn : In mn sp) by (apply sort_dedup_In; now left).
    assert (Hmx : In (mx + 1) sp) by (apply sort_dedup_In; right; now left).
    destruct (find_consec sp z Hsp) as (a & b & Hc & Hab); [exists mn; split; [exact Hmn|lia]|exists (mx + 1); split; [exact Hmx|lia]|].
    destruct (consec_gap _ _ _ Hsp Hc) as [_ Hgap]. exists a, b. split; [exact Hc|].
    pose proof (Hgap _ Hmn). pose proof (Hgap _ Hmx). lia. }
  assert (Hin : forall lo hi, (lo <=? z) && (z <=? hi) = true <-> lo <= z <= hi).
  { intros lo hi. rewrite andb_true_iff, !Z.leb_le. tauto. }
  destruct sg.
  - destruct (G pts_s) as (a & b & Hc & H1 & H2 & Hab). destruct (windows_s_complete mn mx _ a b Hc H1 H2) as [C1 C2].
    unfold split_signed_range. destruct (Z.lt_ge_cases a (b - 1)) as [Hlt|Hge].
    + destruct (C1 Hlt) as [I1 I2]. destruct (Z.eq_dec z a) as [->|Hne].
      * exists (CRange true a a). split; [exact I1|]. cbn [in_ctor]. apply Hin. lia.
      * exists (CRange true (a + 1) (b - 1)). split; [exact I2|]. cbn [in_ctor]. apply Hin. lia.
    + exists (CRange true a (b - 1)). split; [apply C2; lia|]. cbn [in_ctor]. apply Hin. lia.
  - destruct (G pts_u) as (a & b & Hc & H1 & H2 & Hab). destruct (windows_u_complete mn mx _ a b Hc H1 H2) as [C1 C2].
    unfold split_unsigned_range. destruct (Z.lt_ge_cases a (b - 1)) as [Hlt|Hge].
    + destruct (C1 Hlt) as [I1 I2]. destruct (Z.eq_dec z a) as [->|Hne].
      * exists (CRange false a a). split; [exact I1|]. cbn [in_ctor]. apply Hin. lia.
      * exists (CRange false (a + 1) (b - 1)). split; [exact I2|]. cbn [in_ctor]. apply Hin. lia.
    + exists (CRange false a (b - 1)). split; [apply C2; lia|]. cbn [in_ctor]. apply Hin. lia.
Qed.

(* ================================================================ split_ctor *)

Lemma env_wf_enum env n variants : env_wf env = true -> assocN n (enums env) = Some variants ->
  nodupN (map fst variants) = true.
Proof.
  intros H E. apply andb_true_iff in H. destruct H as [H _]. unfold env_ok in H. rewrite forallb_forall in H.
  apply (H (n, variants)). apply assocN_In. exact E.
Qed.

Lemma env_wf_struct env n fts : env_wf env = true -> assocN n (structs env) = Some fts ->
  nodupN (map fst fts) = true.
Proof.
  intros H E. apply andb_true_iff in H. destruct H as [_ H]. rewrite forallb_forall in H.
  apply (H (n, fts)). apply assocN_In. exact E.
Qed.

Lemma split_ctor_ok env d t rows qh c :
  tok env d t = true -> is_var qh = true ->
  (forall p, In p (heads rows) -> pat_wt env t p = true) ->
  In c (split_ctor env t rows qh) ->
  ctor_for env t c /\ forall p, In p (heads rows) -> hom c p.
Proof.
  intros Ht Hq Hwt Hin. destruct qh as [x| | | | | |]; try discriminate. clear Hq.
  destruct d as [|d]; [discriminate|]. cbn [tok] in Ht.
  destruct t as [|sg w|ts|n|n]; cbn [split_ctor] in Hin.
  - destruct Hin as [<-|[<-|[]]]; split; cbn; auto.
  - apply Z.leb_le in Ht. destruct sg.
    + apply (split_range_ok env true w rows c Ht Hwt Hin).
    + apply (split_range_ok env false w rows c Ht Hwt). exact Hin.
  - destruct Hin as [<-|[]]. split; [reflexivity|]. intros p _. exact I.
  - destruct (assocN n (structs env)) as [fts|] eqn:En; [|destruct Hin]. destruct Hin as [<-|[]].
    split; [split; [reflexivity|exact En]|]. intros p _. exact I.
  - destruct (assocN n (enums env)) as [variants|] eqn:En; [|destruct Hin].
    apply in_map_iff in Hin. destruct Hin as ([x' o] & <- & Hv). cbn [fst snd].
    split; [split; [reflexivity|]; exists variants; auto|]. intros p _. exact I.
Qed.

Lemma split_ctor_cover env t rows qh v :
  is_var qh = true -> (forall p, In p (heads rows) -> pat_wt env t p = true) ->
  has_type env v t = true ->
  exists c, In c (split_ctor env t rows qh) /\ in_ctor c v = true.
Proof.
  intros Hq Hwt Hv. destruct qh as [x| | | | | |]; try discriminate. clear Hq.
  destruct t as [|sg w|ts|n|n]; destruct v as [b|z|vs|n' fvs|n' x' vs]; try discriminate Hv; cbn [split_ctor].
  - destruct b; [exists CTrue|exists CFalse]; split; cbn; auto.
  - cbn [has_type] in Hv. apply int_lo_le_hi_or_empty in Hv. destruct sg.
    + apply (split_range_cover env true w rows z Hwt Hv).
    + apply (split_range_cover env false w rows z Hwt Hv).
  - exists (CTuple ts). split; [now left|reflexivity].
  - rewrite ht_struct in Hv. apply andb_true_iff in Hv. destruct Hv as [Hn Hv]. apply N.eqb_eq in Hn. subst n'.
    destruct (assocN n (structs env)) as [fts|]; [|discriminate]. exists (CStruct n fts). split; [now left|reflexivity].
  - rewrite ht_enum in Hv. apply andb_true_iff in Hv. destruct Hv as [Hn Hv]. apply N.eqb_eq in Hn. subst n'.
    destruct (assocN n (enums env)) as [variants|]; [|discriminate].
    destruct (assocN x' variants) as [o|] eqn:Ex; [|discriminate].
    exists (CVariant n x' o). split; [|cbn [in_ctor]; apply N.eqb_refl].
    apply in_map_iff. exists (x', o). split; [reflexivity|apply assocN_In; exact Ex].
Qed.

(* ================================================================ wildcards, alignment *)

Lemma wilds_length {A} (l : list A) : length (wilds l) = length l.
Proof. unfold wilds. apply map_length. Qed.

Lemma swt_wilds env {A} (l : list A) : forall ts, length l = length ts -> swt env ts (wilds l) = true.
Proof.
  unfold swt, wilds. induction l as [|a l IH]; intros [|t ts] L; cbn [length] in L; try discriminate; [reflexivity|].
  cbn [map]. rewrite forall2b_cons. cbn [pat_wt wild]. apply IH. congruence.
Qed.

Lemma vmatch_wilds {A} (l : list A) : forall vs, length l = length vs -> vmatch (wilds l) vs = true.
Proof.
  unfold vmatch, wilds. induction l as [|a l IH]; intros [|v vs] L; cbn [length] in L; try discriminate; [reflexivity|].
  cbn [map]. rewrite forall2b_cons. cbn [pat_matches wild]. apply IH. congruence.
Qed.

Lemma allvar_wilds {A} (l : list A) : allvar (wilds l) = true.
Proof. unfold allvar, wilds. induction l as [|a l IH]; [reflexivity|]. cbn [map forallb is_var wild]. exact IH. Qed.

Lemma vmatch_allvar q : forall vs, allvar q = true -> length q = length vs -> vmatch q vs = true.
Proof.
  unfold vmatch, allvar. induction q as [|p q IH]; intros [|v vs] Ha L; cbn [length] in L; try discriminate; [reflexivity|].
  cbn [forallb] in Ha. apply andb_true_iff in Ha. destruct Ha as [Hp Ha]. rewrite forall2b_cons.
  destruct p; try discriminate. cbn [pat_matches]. apply IH; [exact Ha|congruence].
Qed.

(* struct values are aligned with the definition *)
Lemma aligned env fvs : forall fts, forall2b (ht_field env) fvs fts = true ->
  map fst fvs = map fst fts /\ vtyped env (map snd fvs) (map snd fts) = true.
Proof.
  unfold vtyped. induction fvs as [|[f v] fvs IH]; intros [|[f' t'] fts] H; try discriminate; [split; reflexivity|].
  rewrite forall2b_cons in H. apply andb_true_iff in H. destruct H as [H1 H2]. cbn [ht_field] in H1.
  apply andb_true_iff in H1. destruct H1 as [Hf Hv]. apply N.eqb_eq in Hf. subst f'.
  destruct (IH fts H2) as [E1 E2]. cbn [map fst snd]. rewrite forall2b_cons, Hv, E2, E1. split; reflexivity.
Qed.

Lemma in_map_fst_inv {A} (f : N) (l : list (N * A)) : In f (map fst l) -> exists a, In (f, a) l.
Proof. intro H. apply in_map_iff in H. destruct H as ([f' a] & <- & Hin). exists a. exact Hin. Qed.

(* the columns of a struct pattern against the fields of a struct value *)
Lemma cols_spec (g : N -> pattern) (fts : list (N * ty)) : forall fvs : list (N * value),
  map fst fvs = map fst fts ->
  (forall2b pat_matches (map (fun ft : N * ty => g (fst ft)) fts) (map snd fvs) = true <->
   forall f v, In (f, v) fvs -> pat_matches (g f) v = true).
Proof.
  induction fts as [|[f t] fts IH]; intros [|[f' v] fvs] E; cbn [map fst] in E; try discriminate.
  - split; [intros _ f v []|reflexivity].
  - injection E as -> E. cbn [map fst snd]. rewrite forall2b_cons, andb_true_iff, (IH fvs E). split.
    + intros [H1 H2] f0 v0 [Heq|Hin]; [injection Heq as <- <-; exact H1|auto].
    + intro H. split; [apply H; now left|]. intros f0 v0 Hin. apply H. now right.
Qed.

Lemma struct_cols fs (fts : list (N * ty)) (fvs : list (N * value)) :
  map fst fvs = map fst fts -> nodupN (map fst fts) = true -> nodupN (map fst fs) = true ->
  (forall f p, In (f, p) fs -> In f (map fst fts)) ->
  forallb (fun fp : N * pattern => let '(f, p') := fp in
             match assocN f fvs with Some v' => pat_matches p' v' | None => false end) fs
  = forall2b pat_matches
      (map (fun ft : N * ty => match assocN (fst ft) fs with Some p => p | None => wild end) fts) (map snd fvs).
Proof.
  intros E Nd Ndf Hsub. apply Bool.eq_true_iff_eq.
  rewrite (cols_spec (fun f => match assocN f fs with Some p => p | None => wild end) fts fvs E).
  rewrite forallb_forall.
  assert (Ndv : nodupN (map fst fvs) = true) by (rewrite E; exact Nd).
  split.
  - intros H f v Hin. destruct (assocN f fs) as [p|] eqn:Ef; [|reflexivity].
    specialize (H (f, p) (assocN_In _ _ _ Ef)). cbn beta iota in H.
    rewrite (assocN_nodup f fvs v Ndv Hin) in H. exact H.
  - intros H [f p] Hin. specialize (Hsub f p Hin). rewrite <- E in Hsub.
    destruct (in_map_fst_inv f fvs Hsub) as [v Hv]. rewrite (assocN_nodup f fvs v Ndv Hv).
    specialize (H f v Hv). rewrite (assocN_nodup f fs p Ndf Hin) in H. exact H.
Qed.

(* ================================================================ specialize *)

(* the payload of the variant of a constructor is the one has_type uses *)
Lemma variant_payload env n x o variants : env_wf env = true ->
  assocN n (enums env) = Some variants -> In (x, o) variants -> assocN x variants = Some o.
Proof. intros W E Hin. apply assocN_nodup; [eapply env_wf_enum; eauto|exact Hin]. Qed.

(* For a value [v] of the class of [c]: specializing a row by [c] fails exactly when the head
   pattern does not match [v]; otherwise the head is replaced by well-typed sub-patterns
   that match the sub-values of [v] exactly when the head matches [v]. *)
Lemma spec_match env t c p tl v :
  env_wf env = true -> ctor_for env t c -> pat_wt env t p = true -> has_type env v t = true ->
  in_ctor c v = true -> hom c p ->
  match specialize c (p :: tl) with
  | [] => pat_matches p v = false
  | [r'] => exists sub, r' = sub ++ tl /\ swt env (ctor_tys c) sub = true /\
                        pat_matches p v = vmatch sub (args v)
  | _ => False
  end.
Proof.
  intros W Hc Hp Hv Hin Hh.
  destruct t as [|sg w|ts|n|n]; destruct c as [| |sg' lo hi|ts'|n' fts|n' x o]; try contradiction Hc;
    destruct v as [b|z|vs|n'' fvs|n'' x'' vs]; try discriminate Hv; try discriminate Hin.
  - (* true *) cbn [in_ctor] in Hin. subst b.
    destruct p as [y|[|]| | | | |]; try discriminate Hp; cbn [specialize].
    + exists []. split; [reflexivity|]. split; reflexivity.
    + exists []. split; [reflexivity|]. split; reflexivity.
    + reflexivity.
  - (* false *) cbn [in_ctor] in Hin. apply negb_true_iff in Hin. subst b.
    destruct p as [y|[|]| | | | |]; try discriminate Hp; cbn [specialize].
    + exists []. split; [reflexivity|]. split; reflexivity.
    + reflexivity.
    + exists []. split; [reflexivity|]. split; reflexivity.
  - (* range *) destruct Hc as (-> & Hc). cbn [in_ctor] in Hin. apply andb_true_iff in Hin. destruct Hin as [H1 H2].
    apply Z.leb_le in H1, H2.
    destruct p as [y| |sl m|sl l h| | |]; try discriminate Hp.
    + destruct sg; cbn [specialize]; (exists []; split; [reflexivity|split; reflexivity]).
    + cbn [pat_wt] in Hp. apply andb_true_iff in Hp. destruct Hp as [Hsl _]. cbn [hom] in Hh.
      assert (E : specialize (CRange sg lo hi) (PNum sl m :: tl) = if (m =? lo) && (m =? hi) then [tl] else []).
      { destruct sg; [reflexivity|]. destruct sl; [discriminate Hsl|reflexivity]. }
      rewrite E. destruct ((m =? lo) && (m =? hi)) eqn:Et.
      * apply andb_true_iff in Et. destruct Et as [E1 E2]. apply Z.eqb_eq in E1, E2.
        exists []. split; [reflexivity|]. split; [reflexivity|]. cbn [pat_matches args vmatch]. apply Z.eqb_eq. lia.
      * cbn [pat_matches]. apply Z.eqb_neq. apply andb_false_iff in Et.
        destruct Et as [Et|Et]; apply Z.eqb_neq in Et; lia.
    + cbn [pat_wt] in Hp. apply andb_true_iff in Hp. destruct Hp as [Hp _]. apply andb_true_iff in Hp. destruct Hp as [Hsl _].
      cbn [hom] in Hh.
      assert (E : specialize (CRange sg lo hi) (PRange sl l h :: tl) = if (l <=? lo) && (hi <=? h) then [tl] else []).
      { destruct sg; [reflexivity|]. destruct sl; [discriminate Hsl|reflexivity]. }
      rewrite E. destruct ((l <=? lo) && (hi <=? h)) eqn:Et.
      * apply andb_true_iff in Et. destruct Et as [E1 E2]. apply Z.leb_le in E1, E2.
        exists []. split; [reflexivity|]. split; [reflexivity|]. cbn [pat_matches args vmatch].
        apply andb_true_iff. split; apply Z.leb_le; lia.
      * cbn [pat_matches]. apply andb_false_iff. apply andb_false_iff in Et.
        assert (Hz : z < l \/ h < z) by (destruct Et as [Et|Et]; apply Z.leb_gt in Et; lia).
        destruct Hz as [Hz|Hz]; [left|right]; apply Z.leb_gt; lia.
  - (* tuple *) cbn [ctor_for] in Hc. subst ts'. rewrite ht_tuple in Hv.
    destruct p as [y| | | |ps| |]; try discriminate Hp; cbn [specialize ctor_tys args].
    + exists (wilds ts). split; [reflexivity|]. split; [apply swt_wilds; reflexivity|].
      cbn [pat_matches]. symmetry. apply vmatch_wilds. symmetry. eapply forall2b_length; eauto.
    + exists ps. split; [reflexivity|]. split; [exact Hp|]. apply pm_tuple.
  - (* struct *) destruct Hc as (-> & En). rewrite ht_struct in Hv. apply andb_true_iff in Hv. destruct Hv as [Hn Hv].
    apply N.eqb_eq in Hn. subst n''. rewrite En in Hv. destruct (aligned env fvs fts Hv) as [Ea Et].
    pose proof (env_wf_struct env n fts W En) as Nd.
    destruct p as [y| | | | |n0 fs rest|]; try discriminate Hp; cbn [specialize ctor_tys args].
    + exists (wilds fts). split; [reflexivity|]. split; [apply swt_wilds; now rewrite map_length|].
      cbn [pat_matches]. symmetry. apply vmatch_wilds. rewrite map_length.
      apply (f_equal (@length N)) in Ea. rewrite !map_length in Ea. congruence.
    + cbn [pat_wt] in Hp. apply andb_true_iff in Hp. destruct Hp as [Hn0 Hp]. apply N.eqb_eq in Hn0. subst n0.
      rewrite En in Hp. apply andb_true_iff in Hp. destruct Hp as [Hp _]. apply andb_true_iff in Hp. destruct Hp as [Hfs Ndf].
      rewrite forallb_forall in Hfs. rewrite N.eqb_refl.
      eexists. split; [reflexivity|]. split.
      * (* well typed *) unfold swt. clear - Hfs Nd. 
        assert (G : forall l, (forall ft, In ft l -> In ft fts) ->
          forall2b (fun p t => pat_wt env t p)
            (map (fun ft : N * ty => match assocN (fst ft) fs with Some p => p | None => wild end) l) (map snd l) = true).
        { induction l as [|[f t] l IH]; intro Hl; [reflexivity|]. cbn [map fst snd]. rewrite forall2b_cons.
          rewrite IH by (intros ft Hft; apply Hl; now right). rewrite andb_true_r.
          destruct (assocN f fs) as [p|] eqn:Ef; [|reflexivity].
          specialize (Hfs (f, p) (assocN_In _ _ _ Ef)). cbn beta iota in Hfs.
          rewrite (assocN_nodup f fts t Nd (Hl (f, t) (or_introl eq_refl))) in Hfs. exact Hfs. }
        apply G. auto.
      * rewrite pm_struct, N.eqb_refl. cbn [andb]. apply struct_cols; auto.
        intros f p Hfp. specialize (Hfs (f, p) Hfp). cbn beta iota in Hfs.
        destruct (assocN f fts) as [t'|] eqn:Ef; [|discriminate]. apply assocN_In in Ef.
        apply in_map_iff. exists (f, t'). split; [reflexivity|exact Ef].
  - (* enum *) destruct Hc as (-> & variants & En & Hvar). rewrite ht_enum in Hv.
    apply andb_true_iff in Hv. destruct Hv as [Hn Hv]. apply N.eqb_eq in Hn. subst n''. rewrite En in Hv.
    cbn [in_ctor] in Hin. apply N.eqb_eq in Hin. subst x''.
    rewrite (variant_payload env n x o variants W En Hvar) in Hv.
    destruct p as [y| | | | | |n0 x0 pl]; try discriminate Hp; cbn [specialize ctor_tys args].
    + exists (wilds (match o with Some ts => ts | None => [] end)). split; [reflexivity|].
      split; [apply swt_wilds; reflexivity|]. cbn [pat_matches]. symmetry. apply vmatch_wilds.
      destruct o as [ts|]; [symmetry; eapply forall2b_length; eauto|destruct vs; [reflexivity|discriminate]].
    + cbn [pat_wt] in Hp. apply andb_true_iff in Hp. destruct Hp as [Hn0 Hp]. apply N.eqb_eq in Hn0. subst n0.
      rewrite En in Hp. rewrite pm_enum, N.eqb_refl. cbn [andb].
      destruct (N.eqb_spec x x0) as [<-|Hne].
      * rewrite (variant_payload env n x o variants W En Hvar) in Hp. rewrite N.eqb_refl. cbn [andb].
        destruct o as [ts|], pl as [ps|]; try discriminate Hp.
        -- exists ps. split; [reflexivity|]. split; [exact Hp|reflexivity].
        -- exists []. split; [reflexivity|]. split; [reflexivity|]. destruct vs; [reflexivity|discriminate].
      * assert (Ex : N.eqb x0 x = false) by (apply N.eqb_neq; congruence). rewrite Ex.
        destruct pl; reflexivity.
Qed.

(* the sub-values of a value of the class of [c] have the types of the columns [c] opens *)
Lemma args_typed env t c v : env_wf env = true -> ctor_for env t c -> has_type env v t = true ->
  in_ctor c v = true -> vtyped env (args v) (ctor_tys c) = true.
Proof.
  intros W Hc Hv Hin.
  destruct t as [|sg w|ts|n|n]; destruct c as [| |sg' lo hi|ts'|n' fts|n' x o]; try contradiction Hc;
    destruct v as [b|z|vs|n'' fvs|n'' x'' vs]; try discriminate Hv; try discriminate Hin; try reflexivity.
  - cbn [ctor_for] in Hc. subst ts'. exact Hv.
  - destruct Hc as (-> & En). rewrite ht_struct in Hv. apply andb_true_iff in Hv. destruct Hv as [Hn Hv].
    apply N.eqb_eq in Hn. subst n''. rewrite En in Hv. apply (aligned env fvs fts Hv).
  - destruct Hc as (-> & variants & En & Hvar). rewrite ht_enum in Hv. apply andb_true_iff in Hv. destruct Hv as [Hn Hv].
    apply N.eqb_eq in Hn. subst n''. rewrite En in Hv. cbn [in_ctor] in Hin. apply N.eqb_eq in Hin. subst x''.
    rewrite (variant_payload env n x o variants W En Hvar) in Hv. cbn [args ctor_tys].
    destruct o as [ts|]; [exact Hv|destruct vs; [reflexivity|discriminate]].
Qed.

(* every typed stack of sub-values is the argument list of a value of the class *)
Lemma mk_value env t c vs : env_wf env = true -> ctor_for env t c -> vtyped env vs (ctor_tys c) = true ->
  exists v, has_type env v t = true /\ in_ctor c v = true /\ args v = vs.
Proof.
  intros W Hc Hvs.
  destruct t as [|sg w|ts|n|n]; destruct c as [| |sg' lo hi|ts'|n' fts|n' x o]; try contradiction Hc; cbn [ctor_tys] in Hvs.
  - exists (VBool true). destruct vs; [auto|discriminate].
  - exists (VBool false). destruct vs; [auto|discriminate].
  - destruct Hc as (-> & H1 & H2 & H3). exists (VInt lo). split; [|split].
    + cbn [has_type]. unfold in_int. apply andb_true_iff. split; apply Z.leb_le; lia.
    + cbn [in_ctor]. apply andb_true_iff. split; apply Z.leb_le; lia.
    + destruct vs; [reflexivity|discriminate].
  - cbn [ctor_for] in Hc. subst ts'. exists (VTuple vs). auto.
  - destruct Hc as (-> & En). exists (VStruct n (combine (map fst fts) vs)).
    pose proof (forall2b_length _ _ _ Hvs) as L. rewrite map_length in L.
    split; [|split; [reflexivity|]].
    + rewrite ht_struct, N.eqb_refl, En. cbn [andb]. clear En. unfold vtyped in Hvs. revert vs Hvs L.
      induction fts as [|[f t] fts IH]; intros [|v vs] Hvs L; try discriminate; [reflexivity|].
      cbn [map fst snd combine] in *. rewrite forall2b_cons in *. apply andb_true_iff in Hvs. destruct Hvs as [H1 H2].
      cbn [ht_field]. rewrite N.eqb_refl, H1. cbn [andb]. apply IH; [exact H2|cbn [length] in L; congruence].
    + cbn [args]. clear - L. revert vs L. induction fts as [|[f t] fts IH]; intros [|v vs] L; try discriminate; [reflexivity|].
      cbn [map fst combine snd]. f_equal. apply IH. cbn [length] in L. congruence.
  - destruct Hc as (-> & variants & En & Hvar). exists (VEnum n x vs). split; [|split; [apply N.eqb_refl|reflexivity]].
    rewrite ht_enum, N.eqb_refl, En, (variant_payload env n x o variants W En Hvar). cbn [andb].
    destruct o as [ts|]; [exact Hvs|destruct vs; [reflexivity|discriminate]].
Qed.

(* ================================================================ witness reconstruction *)

Lemma combine_fst {A B} (l : list A) : forall (r : list B), length l = length r -> map fst (combine l r) = l.
Proof. induction l as [|a l IH]; intros [|b r] L; cbn [length] in L; try discriminate; [reflexivity|]. cbn [combine map fst]. f_equal. apply IH. congruence. Qed.

Lemma cols_combine (fts : list (N * ty)) : forall sub : list pattern,
  nodupN (map fst fts) = true -> length sub = length fts ->
  map (fun ft : N * ty => match assocN (fst ft) (combine (map fst fts) sub) with Some p => p | None => wild end) fts = sub.
Proof.
  induction fts as [|[f t] fts IH]; intros [|p sub] Nd L; cbn [length] in L; try discriminate; [reflexivity|].
  cbn [map fst nodupN] in Nd. apply andb_true_iff in Nd. destruct Nd as [Hnot Nd]. apply negb_true_iff in Hnot.
  cbn [map fst combine assocN]. rewrite N.eqb_refl. f_equal.
  etransitivity; [|apply (IH sub Nd); congruence]. apply map_ext_in. intros [f' t'] Hin. cbn [fst].
  destruct (N.eqb_spec f' f) as [->|Hne]; [|reflexivity].
  exfalso. assert (Hm : memN f (map fst fts) = true) by (apply memN_In; apply in_map_iff; exists (f, t'); auto).
  congruence.
Qed.

Lemma firstn_skipn_app {A} (l r : list A) n : length l = n -> firstn n (l ++ r) = l /\ skipn n (l ++ r) = r.
Proof.
  intros <-. split.
  - rewrite firstn_app, Nat.sub_diag, firstn_all. cbn [firstn]. apply app_nil_r.
  - rewrite skipn_app, Nat.sub_diag, skipn_all. reflexivity.
Qed.

Lemma rebuild_match env t c w' v vs trest :
  env_wf env = true -> ctor_for env t c -> has_type env v t = true ->
  swt env (ctor_tys c ++ trest) w' = true ->
  swt env (t :: trest) (rebuild c w') = true /\
  vmatch (rebuild c w') (v :: vs) = in_ctor c v && vmatch w' (args v ++ vs).
Proof.
  intros W Hc Hv Hw. unfold swt in Hw. destruct (forall2b_split_r _ _ _ _ Hw) as (sub & rest & -> & L & Hsub & Hrest).
  assert (Hk : forall k, k = length (ctor_tys c) -> Nat.min k (length (sub ++ rest)) = length sub).
  { intros k ->. rewrite app_length. lia. }
  unfold swt, vmatch.
  destruct t as [|sg w|ts|n|n]; destruct c as [| |sg' lo hi|ts'|n' fts|n' x o]; try contradiction Hc;
    destruct v as [b|z|vs0|n'' fvs|n'' x'' vs0]; try discriminate Hv; cbn [ctor_tys] in *.
  - destruct sub; [|discriminate L]. cbn [rebuild app args]. rewrite !forall2b_cons. cbn [pat_wt pat_matches in_ctor].
    split; [exact Hrest|]. destruct b; reflexivity.
  - destruct sub; [|discriminate L]. cbn [rebuild app args]. rewrite !forall2b_cons. cbn [pat_wt pat_matches in_ctor].
    split; [exact Hrest|]. destruct b; reflexivity.
  - destruct sub; [|discriminate L]. destruct Hc as (-> & H1 & H2 & H3). cbn [rebuild app args]. rewrite !forall2b_cons.
    cbn [pat_wt pat_matches in_ctor]. split; [|reflexivity]. rewrite Hrest, andb_true_r.
    unfold in_int. destruct sg; cbn [implb andb]; repeat (apply andb_true_iff; split); apply Z.leb_le; lia.
  - cbn [ctor_for] in Hc. subst ts'. cbn [rebuild]. rewrite (Hk _ eq_refl).
    destruct (firstn_skipn_app sub rest _ eq_refl) as [-> ->]. rewrite !forall2b_cons. cbn [pat_wt in_ctor args].
    rewrite pm_tuple. split; [rewrite Hsub, Hrest; reflexivity|].
    rewrite ht_tuple in Hv. rewrite forall2b_app; [reflexivity|].
    rewrite L. symmetry. eapply forall2b_length; eauto.
  - destruct Hc as (-> & En). rewrite ht_struct in Hv. apply andb_true_iff in Hv. destruct Hv as [Hn Hv].
    apply N.eqb_eq in Hn. subst n''. rewrite En in Hv. destruct (aligned env fvs fts Hv) as [Ea Et].
    pose proof (env_wf_struct env n fts W En) as Nd. rewrite map_length in L.
    cbn [rebuild]. rewrite (Hk _ (eq_sym (map_length _ _))).
    destruct (firstn_skipn_app sub rest _ eq_refl) as [-> ->]. rewrite !forall2b_cons. cbn [in_ctor args andb].
    assert (Efst : map fst (combine (map fst fts) sub) = map fst fts) by (apply combine_fst; rewrite map_length; congruence).
    split.
    + rewrite Hrest, andb_true_r. cbn [pat_wt]. rewrite N.eqb_refl, En. cbn [andb orb]. rewrite Efst, Nd, andb_true_r.
      apply andb_true_iff. split.
      * clear - Hsub L Nd. revert sub Hsub L. induction fts as [|[f t] fts IH]; intros [|p sub] Hsub L; try discriminate; [reflexivity|].
        cbn [map fst snd combine forallb] in *. rewrite forall2b_cons in Hsub. apply andb_true_iff in Hsub. destruct Hsub as [Hp Hs].
        cbn [nodupN] in Nd. apply andb_true_iff in Nd. destruct Nd as [Hnot Nd]. apply negb_true_iff in Hnot.
        cbn [assocN]. rewrite N.eqb_refl, Hp. cbn [andb].
        specialize (IH Nd sub Hs (f_equal pred L)). rewrite forallb_forall in IH |- *. intros [f' p'] Hin.
        specialize (IH (f', p') Hin). cbn beta iota in IH |- *.
        destruct (N.eqb_spec f' f) as [->|Hne]; [|exact IH].
        exfalso. assert (Hm : memN f (map fst fts) = true).
        { apply memN_In. apply in_combine_l in Hin. exact Hin. }
        congruence.
      * apply forallb_forall. intros ft Hft. apply memN_In. apply in_map. exact Hft.
    + rewrite pm_struct, N.eqb_refl. cbn [andb].
      rewrite (struct_cols (combine (map fst fts) sub) fts fvs Ea Nd); [| rewrite Efst; exact Nd |].
      * rewrite (cols_combine fts sub Nd L). rewrite forall2b_app; [reflexivity|].
        rewrite map_length. apply (f_equal (@length N)) in Ea. rewrite !map_length in Ea. congruence.
      * intros f p Hin. apply in_combine_l in Hin. exact Hin.
  - destruct Hc as (-> & variants & En & Hvar). rewrite ht_enum in Hv. apply andb_true_iff in Hv. destruct Hv as [Hn Hv].
    apply N.eqb_eq in Hn. subst n''. rewrite En in Hv.
    pose proof (variant_payload env n x o variants W En Hvar) as Ex.
    destruct o as [ts|].
    + cbn [rebuild]. rewrite (Hk _ eq_refl).
      destruct (firstn_skipn_app sub rest _ eq_refl) as [-> ->]. rewrite !forall2b_cons. cbn [in_ctor args].
      split.
      * cbn [pat_wt]. rewrite N.eqb_refl, En, Ex, Hsub, Hrest. reflexivity.
      * rewrite pm_enum, N.eqb_refl. cbn [andb]. destruct (N.eqb_spec x x'') as [<-|Hne]; [|reflexivity].
        rewrite Ex in Hv. cbn [andb]. rewrite forall2b_app; [reflexivity|].
        rewrite L. symmetry. eapply forall2b_length; eauto.
    + destruct sub; [|discriminate L]. cbn [rebuild app]. rewrite !forall2b_cons. cbn [in_ctor args].
      split.
      * cbn [pat_wt]. rewrite N.eqb_refl, En, Ex, Hrest. reflexivity.
      * rewrite pm_enum, N.eqb_refl. cbn [andb]. destruct (N.eqb_spec x x'') as [<-|Hne]; [|reflexivity].
        rewrite Ex in Hv. destruct vs0; [|discriminate Hv]. reflexivity.
Qed.

(* ================================================================ the main induction *)

Lemma oconcat_map_In {A B} (F : A -> option (list B)) l : forall ws, oconcat (map F l) = Some ws ->
  (forall w, In w ws -> exists a x, In a l /\ F a = Some x /\ In w x) /\
  (forall a, In a l -> exists x, F a = Some x /\ incl x ws).
Proof.
  induction l as [|a l IH]; intros ws H; cbn [map oconcat] in H.
  - injection H as <-. split; [intros w []|intros a []].
  - destruct (F a) as [x|] eqn:Ea; [|discriminate]. destruct (oconcat (map F l)) as [y|] eqn:Ey; [|discriminate].
    injection H as <-. destruct (IH y eq_refl) as [I1 I2]. split.
    + intros w Hw. apply in_app_or in Hw. destruct Hw as [Hw|Hw].
      * exists a, x. split; [now left|]. split; assumption.
      * destruct (I1 w Hw) as (a' & x' & Ha' & E' & Hw'). exists a', x'. split; [now right|]. split; assumption.
    + intros a' [<-|Ha'].
      * exists x. split; [exact Ea|]. intros w Hw. apply in_or_app. now left.
      * destruct (I2 a' Ha') as (x' & E' & Hi). exists x'. split; [exact E'|]. intros w Hw. apply in_or_app. right. auto.
Qed.

Lemma swt_allvar env q : forall ts, allvar q = true -> length q = length ts -> swt env ts q = true.
Proof.
  unfold swt, allvar. induction q as [|p q IH]; intros [|t ts] Ha L; cbn [length] in L; try discriminate; [reflexivity|].
  cbn [forallb] in Ha. apply andb_true_iff in Ha. destruct Ha as [Hp Ha]. rewrite forall2b_cons.
  destruct p; try discriminate. cbn [pat_wt]. apply IH; [exact Ha|congruence].
Qed.

(* q[0] is an identifier: every constructor specializes q to wildcards *)
Lemma spec_var c qh qt : is_var qh = true -> allvar qt = true ->
  exists q', specialize c (qh :: qt) = [q'] /\ allvar q' = true /\ length q' = (length (ctor_tys c) + length qt)%nat.
Proof.
  intros Hq Ha. destruct qh as [x| | | | | |]; try discriminate.
  assert (G : forall {A} (l : list A) n, length l = n ->
    allvar (wilds l ++ qt) = true /\ length (wilds l ++ qt) = (n + length qt)%nat).
  { intros A l n <-. split; [|rewrite app_length, wilds_length; reflexivity].
    unfold allvar. rewrite forallb_app. fold (allvar (wilds l)). rewrite allvar_wilds. exact Ha. }
  destruct c as [| |[|] lo hi|ts|n fts|n y [ts|]]; cbn [specialize ctor_tys];
    try (exists qt; split; [reflexivity|]; split; [exact Ha|reflexivity]).
  - exists (wilds ts ++ qt). split; [reflexivity|]. apply G. reflexivity.
  - exists (wilds fts ++ qt). split; [reflexivity|]. apply G. now rewrite map_length.
  - exists (wilds ts ++ qt). split; [reflexivity|]. apply G. reflexivity.
Qed.

Lemma ctor_tys_tok_gen env d t c : tok env d t = true -> ctor_for env t c ->
  Forall (fun t' => tok env d t' = true) (ctor_tys c).
Proof.
  intros Ht Hc. destruct d as [|d']; [discriminate|]. cbn [tok] in Ht.
  destruct t as [|sg w|ts|n|n]; destruct c as [| |sg' lo hi|ts'|n' fts|n' x o]; try contradiction Hc; cbn [ctor_tys];
    try constructor.
  - cbn [ctor_for] in Hc. subst ts'. apply Forall_forall. intros t' Hin. apply tok_mono.
    rewrite forallb_forall in Ht. auto.
  - destruct Hc as (-> & En). rewrite En in Ht. apply Forall_forall. intros t' Hin. apply tok_mono.
    rewrite forallb_forall in Ht. apply in_map_iff in Hin. destruct Hin as (ft & <- & Hft). auto.
  - destruct Hc as (-> & variants & En & Hvar). rewrite En in Ht. apply andb_true_iff in Ht. destruct Ht as [_ Ht].
    rewrite forallb_forall in Ht. specialize (Ht (x, o) Hvar). cbn [snd] in Ht.
    destruct o as [ts|]; [|constructor]. apply Forall_forall. intros t' Hin. apply tok_mono.
    rewrite forallb_forall in Ht. auto.
Qed.

Section Main.
Variable env : tyenv.
Variable d : nat.
Hypothesis W : env_wf env = true.

Definition toks (ts : list ty) : Prop := Forall (fun t => tok env d t = true) ts.

Lemma ctor_tys_tok t c : tok env d t = true -> ctor_for env t c -> toks (ctor_tys c).
Proof. apply ctor_tys_tok_gen. Qed.

Lemma row_inv t trest r : swt env (t :: trest) r = true ->
  exists p tl, r = p :: tl /\ pat_wt env t p = true /\ swt env trest tl = true.
Proof.
  unfold swt. destruct r as [|p tl]; [discriminate|]. rewrite forall2b_cons. intro H. apply andb_true_iff in H.
  destruct H as [H1 H2]. exists p, tl. auto.
Qed.

Lemma spec_row t trest c r v vs :
  ctor_for env t c -> swt env (t :: trest) r = true -> (forall p tl, r = p :: tl -> hom c p) ->
  has_type env v t = true -> in_ctor c v = true ->
  (specialize c r = [] /\ vmatch r (v :: vs) = false) \/
  (exists r', specialize c r = [r'] /\ swt env (ctor_tys c ++ trest) r' = true /\
              vmatch r' (args v ++ vs) = vmatch r (v :: vs)).
Proof.
  intros Hc Hr Hh Hv Hin. destruct (row_inv _ _ _ Hr) as (p & tl & -> & Hp & Htl).
  pose proof (spec_match env t c p tl v W Hc Hp Hv Hin (Hh p tl eq_refl)) as H.
  destruct (specialize c (p :: tl)) as [|r' [|r'' l]]; [left|right|contradiction].
  - split; [reflexivity|]. unfold vmatch. rewrite forall2b_cons, H. reflexivity.
  - destruct H as (sub & -> & Hsub & Hm). exists (sub ++ tl). split; [reflexivity|].
    pose proof (forall2b_length _ _ _ Hsub) as L1.
    pose proof (forall2b_length _ _ _ (args_typed env t c v W Hc Hv Hin)) as L2.
    split.
    + unfold swt in *. rewrite forall2b_app by exact L1. rewrite Hsub, Htl. reflexivity.
    + unfold vmatch in *. rewrite forall2b_app by congruence. rewrite forall2b_cons, Hm. reflexivity.
Qed.

Lemma spec_rows_wt t trest c rows :
  tok env d t = true -> ctor_for env t c -> (forall p, In p (heads rows) -> hom c p) ->
  Forall (fun r => swt env (t :: trest) r = true) rows ->
  Forall (fun r => swt env (ctor_tys c ++ trest) r = true) (flat_map (specialize c) rows).
Proof.
  intros Ht Hc Hh Hrows.
  destruct (toks_inhabited env d _ (ctor_tys_tok t c Ht Hc)) as [vs0 Hvs0].
  destruct (mk_value env t c vs0 W Hc Hvs0) as (v & Hv & Hin & _).
  apply Forall_forall. intros r' Hr'. apply in_flat_map in Hr'. destruct Hr' as (r & Hr & Hr').
  rewrite Forall_forall in Hrows.
  destruct (spec_row t trest c r v [] Hc (Hrows r Hr)) as [[E _]|(r'' & E & Hwt & _)]; auto.
  - intros p tl ->. apply Hh. eapply heads_In; eauto.
  - rewrite E in Hr'. destruct Hr'.
  - rewrite E in Hr'. destruct Hr' as [<-|[]]. exact Hwt.
Qed.

Theorem useful_correct f : forall ts rows q ws,
  toks ts -> Forall (fun r => swt env ts r = true) rows -> allvar q = true -> length q = length ts ->
  useful f env ts rows q = Some ws ->
  (forall w, In w ws ->
     swt env ts w = true /\
     (exists vs, vtyped env vs ts = true /\ vmatch w vs = true) /\
     (forall vs, vtyped env vs ts = true -> vmatch w vs = true -> forall r, In r rows -> vmatch r vs = false)) /\
  (forall vs, vtyped env vs ts = true -> (forall r, In r rows -> vmatch r vs = false) -> ws <> []).
Proof.
  induction f as [|f IH]; intros ts rows q ws Hts Hrows Hq Lq H; [discriminate|].
  cbn [useful] in H. destruct rows as [|r0 rows'].
  { (* no row: q is the witness *)
    injection H as <-. split; [|intros; discriminate].
    intros w [<-|[]]. split; [apply swt_allvar; assumption|]. split; [|intros vs _ _ r []].
    destruct (toks_inhabited env d ts Hts) as [vs Hvs]. exists vs. split; [exact Hvs|].
    apply vmatch_allvar; [exact Hq|]. rewrite Lq. symmetry. eapply forall2b_length; eauto. }
  set (rows := r0 :: rows') in *.
  assert (Hr0 : swt env ts r0 = true) by (inversion Hrows; assumption).
  destruct r0 as [|p0 r0'].
  { (* no column left *)
    assert (ts = []) by (destruct ts; [reflexivity|discriminate Hr0]). subst ts.
    injection H as <-. split; [intros w []|]. intros vs Hvs Hno. exfalso.
    destruct vs; [|discriminate Hvs]. specialize (Hno [] (or_introl eq_refl)). discriminate Hno. }
  destruct q as [|qh qt]; [destruct ts; [discriminate Hr0|discriminate Lq]|].
  destruct ts as [|t trest]; [discriminate Lq|].
  cbn [allvar forallb] in Hq. apply andb_true_iff in Hq. destruct Hq as [Hqh Hqt]. fold (allvar qt) in Hqt.
  assert (Ht : tok env d t = true) by (inversion Hts; assumption).
  assert (Htr : toks trest) by (inversion Hts; assumption).
  destruct (existsb (forallb is_var) rows) eqn:Hany.
  { (* a row of identifiers: nothing is missing *)
    injection H as <-. split; [intros w []|]. intros vs Hvs Hno. exfalso.
    apply existsb_exists in Hany. destruct Hany as (r & Hr & Hvar).
    rewrite Forall_forall in Hrows. pose proof (forall2b_length _ _ _ (Hrows r Hr)) as L1.
    pose proof (forall2b_length _ _ _ Hvs) as L2.
    specialize (Hno r Hr). rewrite (vmatch_allvar r vs Hvar) in Hno by congruence. discriminate Hno. }
  clear Hany.
  rewrite Hqh in H. cbn [andb] in H.
  destruct (forallb (fun r => match r with p :: _ => is_var p | [] => false end) rows) eqn:Hall.
  { (* the identifier-column shortcut *)
    destruct (useful f env trest (map (@tl pattern) rows) qt) as [ws0|] eqn:E0; [|discriminate]. injection H as <-.
    rewrite forallb_forall in Hall.
    assert (Hrow : forall r, In r rows -> exists x r', r = PVar x :: r' /\ swt env trest r' = true).
    { intros r Hr. rewrite Forall_forall in Hrows. destruct (row_inv _ _ _ (Hrows r Hr)) as (p & tl & -> & _ & Htl).
      specialize (Hall _ Hr). cbn beta iota in Hall. destruct p; try discriminate. eauto. }
    assert (Hrows0 : Forall (fun r => swt env trest r = true) (map (@tl pattern) rows)).
    { apply Forall_forall. intros r' Hr'. apply in_map_iff in Hr'. destruct Hr' as (r & <- & Hr).
      destruct (Hrow r Hr) as (x & r' & -> & Hwt). exact Hwt. }
    destruct (IH trest _ qt ws0 Htr Hrows0 Hqt (f_equal pred Lq) E0) as [S0 C0]. split.
    - intros w Hw. apply in_map_iff in Hw. destruct Hw as (w0 & <- & Hw0). destruct (S0 w0 Hw0) as (S1 & (vs0 & Hvs0 & Hm0) & S3).
      split; [unfold swt in *; rewrite forall2b_cons; exact S1|]. split.
      + destruct (tok_inhabited env d t Ht) as [v Hv]. exists (v :: vs0). unfold vtyped, vmatch in *.
        rewrite !forall2b_cons, Hv, Hvs0, Hm0. split; reflexivity.
      + intros vs Hvs Hm r Hr. destruct vs as [|v vs']; [discriminate Hvs|].
        unfold vtyped, vmatch in *. rewrite forall2b_cons in Hvs. rewrite forall2b_cons in Hm. apply andb_true_iff in Hvs. destruct Hvs as [_ Hvs].
        cbn [pat_matches wild andb] in Hm. destruct (Hrow r Hr) as (x & r' & -> & _). rewrite forall2b_cons. cbn [pat_matches andb].
        apply (S3 vs' Hvs Hm r'). apply in_map_iff. exists (PVar x :: r'). split; [reflexivity|exact Hr].
    - intros vs Hvs Hno. destruct vs as [|v vs']; [discriminate Hvs|].
      unfold vtyped in Hvs. rewrite forall2b_cons in Hvs. apply andb_true_iff in Hvs. destruct Hvs as [_ Hvs].
      assert (ws0 <> []).
      { apply (C0 vs' Hvs). intros r' Hr'. apply in_map_iff in Hr'. destruct Hr' as (r & <- & Hr).
        destruct (Hrow r Hr) as (x & r' & -> & _). specialize (Hno _ Hr). unfold vmatch in *. rewrite forall2b_cons in Hno. exact Hno. }
      destruct ws0; [congruence|discriminate]. }
  (* the constructors of the head column *)
  clear Hall.
  assert (Hheads : forall p, In p (heads rows) -> pat_wt env t p = true).
  { intros p Hp. unfold heads in Hp. apply in_flat_map in Hp. destruct Hp as (r & Hr & Hp).
    rewrite Forall_forall in Hrows. destruct (row_inv _ _ _ (Hrows r Hr)) as (p' & tl & -> & Hp' & _).
    destruct Hp as [<-|[]]. exact Hp'. }
  destruct (oconcat_map_In _ _ _ H) as [I1 I2]. clear H.
  assert (Hsub : forall c, In c (split_ctor env t rows qh) -> forall x,
    oconcat (map (fun q' => match useful f env (ctor_tys c ++ trest) (flat_map (specialize c) rows) q' with
                            | Some ws => Some (map (rebuild c) ws) | None => None end) (specialize c (qh :: qt))) = Some x ->
    ctor_for env t c /\ (forall p, In p (heads rows) -> hom c p) /\
    exists wsc, x = map (rebuild c) wsc /\
      (forall w, In w wsc ->
         swt env (ctor_tys c ++ trest) w = true /\
         (exists vs, vtyped env vs (ctor_tys c ++ trest) = true /\ vmatch w vs = true) /\
         (forall vs, vtyped env vs (ctor_tys c ++ trest) = true -> vmatch w vs = true ->
                     forall r, In r (flat_map (specialize c) rows) -> vmatch r vs = false)) /\
      (forall vs, vtyped env vs (ctor_tys c ++ trest) = true ->
                  (forall r, In r (flat_map (specialize c) rows) -> vmatch r vs = false) -> wsc <> [])).
  { intros c Hc x Hx. destruct (split_ctor_ok env d t rows qh c Ht Hqh Hheads Hc) as [Hcf Hhom].
    split; [exact Hcf|]. split; [exact Hhom|].
    destruct (spec_var c qh qt Hqh Hqt) as (q' & Eq & Hq' & Lq'). rewrite Eq in Hx. cbn [map oconcat] in Hx.
    destruct (useful f env (ctor_tys c ++ trest) (flat_map (specialize c) rows) q') as [wsc|] eqn:Eu; [|discriminate].
    injection Hx as <-. exists wsc. split; [apply app_nil_r|].
    apply (IH _ _ q' wsc); auto.
    - apply Forall_app. split; [apply (ctor_tys_tok t c Ht Hcf)|exact Htr].
    - apply (spec_rows_wt t trest c rows Ht Hcf Hhom Hrows).
    - rewrite Lq', app_length. cbn [length] in Lq. lia. }
  split.
  - (* soundness *)
    intros w Hw. destruct (I1 w Hw) as (c & x & Hc & Ex & Hwx).
    destruct (Hsub c Hc x Ex) as (Hcf & Hhom & wsc & -> & Sc & _).
    apply in_map_iff in Hwx. destruct Hwx as (w' & <- & Hw'). destruct (Sc w' Hw') as (S1 & (vs0 & Hvs0 & Hm0) & S3).
    destruct (tok_inhabited env d t Ht) as [vdummy Hvd].
    split; [exact (proj1 (rebuild_match env t c w' vdummy [] trest W Hcf Hvd S1))|]. split.
    + unfold vtyped in Hvs0. destruct (forall2b_split_r _ _ _ _ Hvs0) as (as_ & vs' & -> & La & Has & Hvs').
      destruct (mk_value env t c as_ W Hcf Has) as (v & Hv & Hin & Hargs).
      exists (v :: vs'). split; [unfold vtyped; rewrite forall2b_cons, Hv, Hvs'; reflexivity|].
      rewrite (proj2 (rebuild_match env t c w' v vs' trest W Hcf Hv S1)), Hin, Hargs. exact Hm0.
    + intros vs Hvs Hm r Hr. destruct vs as [|v vs']; [discriminate Hvs|].
      unfold vtyped in Hvs. rewrite forall2b_cons in Hvs. apply andb_true_iff in Hvs. destruct Hvs as [Hv Hvs'].
      rewrite (proj2 (rebuild_match env t c w' v vs' trest W Hcf Hv S1)) in Hm. apply andb_true_iff in Hm. destruct Hm as [Hin Hm].
      assert (Hty : vtyped env (args v ++ vs') (ctor_tys c ++ trest) = true).
      { unfold vtyped. pose proof (args_typed env t c v W Hcf Hv Hin) as Ha.
        rewrite forall2b_app by (eapply forall2b_length; eauto). unfold vtyped in Ha. rewrite Ha, Hvs'. reflexivity. }
      rewrite Forall_forall in Hrows.
      destruct (spec_row t trest c r v vs' Hcf (Hrows r Hr)) as [[_ E]|(r' & E & _ & Em)]; auto.
      * intros p tl ->. apply Hhom. eapply heads_In; eauto.
      * rewrite <- Em. apply (S3 _ Hty Hm). apply in_flat_map. exists r. split; [exact Hr|]. rewrite E. now left.
  - (* completeness *)
    intros vs Hvs Hno. destruct vs as [|v vs']; [discriminate Hvs|].
    unfold vtyped in Hvs. rewrite forall2b_cons in Hvs. apply andb_true_iff in Hvs. destruct Hvs as [Hv Hvs'].
    destruct (split_ctor_cover env t rows qh v Hqh Hheads Hv) as (c & Hc & Hin).
    destruct (I2 c Hc) as (x & Ex & Hincl). destruct (Hsub c Hc x Ex) as (Hcf & Hhom & wsc & -> & _ & Cc).
    assert (Hty : vtyped env (args v ++ vs') (ctor_tys c ++ trest) = true).
    { unfold vtyped. pose proof (args_typed env t c v W Hcf Hv Hin) as Ha.
      rewrite forall2b_app by (eapply forall2b_length; eauto). unfold vtyped in Ha. rewrite Ha, Hvs'. reflexivity. }
    assert (Hne : wsc <> []).
    { apply (Cc _ Hty). intros r' Hr'. apply in_flat_map in Hr'. destruct Hr' as (r & Hr & Hr').
      rewrite Forall_forall in Hrows.
      destruct (spec_row t trest c r v vs' Hcf (Hrows r Hr)) as [[E _]|(r'' & E & _ & Em)]; auto.
      - intros p tl ->. apply Hhom. eapply heads_In; eauto.
      - rewrite E in Hr'. destruct Hr'.
      - rewrite E in Hr'. destruct Hr' as [<-|[]]. rewrite Em. apply Hno. exact Hr. }
    destruct wsc as [|w0 wsc]; [congruence|]. intro Hws. subst ws.
    apply (Hincl (rebuild c w0)). now left.
Qed.

End Main.

(* ================================================================ enough fuel *)

Lemma ty_size_S env d t : ty_size env (S d) t =
  match t with
  | TBool | TInt _ _ => 1%nat
  | TTuple ts => S (list_sum (map (ty_size env d) ts))
  | TStruct n =>
      match assocN n (structs env) with
      | Some fts => S (list_sum (map (fun ft : N * ty => ty_size env d (snd ft)) fts))
      | None => 1%nat
      end
  | TEnum n =>
      match assocN n (enums env) with
      | Some variants =>
          S (list_sum (map (fun vd : N * option (list ty) =>
                              match snd vd with
                              | Some ts => list_sum (map (ty_size env d) ts)
                              | None => O
                              end) variants))
      | None => 1%nat
      end
  end.
Proof. reflexivity. Qed.

Lemma ty_size_stable env d : forall t, tok env d t = true -> ty_size env (S d) t = ty_size env d t.
Proof.
  induction d as [|d IH]; intros t H; [discriminate|].
  assert (Hl : forall ts, forallb (tok env d) ts = true -> map (ty_size env (S d)) ts = map (ty_size env d) ts).
  { intros ts Hts. apply map_ext_in. intros t' Hin. apply IH. rewrite forallb_forall in Hts. auto. }
  cbn [tok] in H. rewrite (ty_size_S env (S d) t), (ty_size_S env d t).
  destruct t as [|sg w|ts|n|n]; try reflexivity.
  - rewrite (Hl ts H). reflexivity.
  - destruct (assocN n (structs env)) as [fts|]; [|reflexivity]. f_equal. f_equal.
    apply map_ext_in. intros ft Hin. apply IH. rewrite forallb_forall in H. auto.
  - destruct (assocN n (enums env)) as [variants|]; [|reflexivity]. f_equal. f_equal.
    apply andb_true_iff in H. destruct H as [_ H]. rewrite forallb_forall in H.
    apply map_ext_in. intros vd Hin. specialize (H vd Hin). destruct (snd vd) as [ts|]; [|reflexivity].
    rewrite (Hl ts H). reflexivity.
Qed.

Lemma list_sum_In (l : list nat) x : In x l -> (x <= list_sum l)%nat.
Proof.
  induction l as [|y l IH]; [intros []|]. change (list_sum (y :: l)) with (y + list_sum l)%nat.
  intros [->|Hin]; [lia|]. specialize (IH Hin). lia.
Qed.

(* the columns a constructor opens are smaller than the column it closes *)
Lemma ctor_tys_size env d t c : tok env d t = true -> ctor_for env t c ->
  (list_sum (map (ty_size env d) (ctor_tys c)) < ty_size env d t)%nat.
Proof.
  intros Ht Hc. destruct d as [|d]; [discriminate|]. cbn [tok] in Ht.
  assert (Hl : forall ts, forallb (tok env d) ts = true -> map (ty_size env (S d)) ts = map (ty_size env d) ts).
  { intros ts Hts. apply map_ext_in. intros t' Hin. apply ty_size_stable. rewrite forallb_forall in Hts. auto. }
  rewrite (ty_size_S env d t).
  destruct t as [|sg w|ts|n|n]; destruct c as [| |sg' lo hi|ts'|n' fts|n' x o]; try contradiction Hc;
    cbn [ctor_tys]; try (cbn [map list_sum fold_right]; lia).
  - cbn [ctor_for] in Hc. subst ts'. rewrite (Hl ts Ht). lia.
  - destruct Hc as (-> & En). rewrite En in Ht. rewrite map_map, En.
    rewrite (map_ext_in (fun ft : N * ty => ty_size env (S d) (snd ft)) (fun ft => ty_size env d (snd ft))); [lia|].
    intros ft Hin. apply ty_size_stable. rewrite forallb_forall in Ht. auto.
  - destruct Hc as (-> & variants & En & Hvar). rewrite En in Ht. apply andb_true_iff in Ht. destruct Ht as [_ Ht].
    rewrite forallb_forall in Ht. specialize (Ht (x, o) Hvar). cbn [snd] in Ht. rewrite En.
    assert (Hle : (match o with Some ts => list_sum (map (ty_size env d) ts) | None => O end
                   <= list_sum (map (fun vd : N * option (list ty) =>
                         match snd vd with Some ts => list_sum (map (ty_size env d) ts) | None => O end) variants))%nat).
    { apply list_sum_In. apply in_map_iff. exists (x, o). split; [reflexivity|exact Hvar]. }
    destruct o as [ts|]; [rewrite (Hl ts Ht)|cbn [map list_sum fold_right]]; lia.
Qed.

Lemma oconcat_not_None {A} (l : list (option (list A))) : (forall o, In o l -> o <> None) -> oconcat l <> None.
Proof.
  induction l as [|[x|] l IH]; intro H; cbn [oconcat]; [discriminate| |exfalso; apply (H None); [now left|reflexivity]].
  destruct (oconcat l) eqn:E; [discriminate|]. exfalso. apply IH; [|reflexivity]. intros o Ho. apply H. now right.
Qed.

(* [fuel_bound] is enough: the model never answers None on the inputs of the theorems *)
Theorem useful_fuel env d : env_wf env = true -> forall f ts rows q,
  Forall (fun t => tok env d t = true) ts -> Forall (fun r => swt env ts r = true) rows -> allvar q = true ->
  (fuel_bound env d ts <= f)%nat -> useful f env ts rows q <> None.
Proof.
  intros W. induction f as [|f IH]; intros ts rows q Hts Hrows Hq Hf; [unfold fuel_bound in Hf; lia|].
  cbn [useful]. destruct rows as [|r0 rows']; [discriminate|]. set (rows := r0 :: rows') in *.
  destruct r0 as [|p0 r0']; [discriminate|]. destruct q as [|qh qt]; [discriminate|].
  destruct ts as [|t trest]; [discriminate|].
  cbn [allvar forallb] in Hq. apply andb_true_iff in Hq. destruct Hq as [Hqh Hqt]. fold (allvar qt) in Hqt.
  assert (Ht : tok env d t = true) by (inversion Hts; assumption).
  assert (Htr : Forall (fun t => tok env d t = true) trest) by (inversion Hts; assumption).
  unfold fuel_bound in Hf.
  change (list_sum (map (ty_size env d) (t :: trest))) with (ty_size env d t + list_sum (map (ty_size env d) trest))%nat in Hf.
  assert (H1 : (1 <= ty_size env d t)%nat).
  { destruct d as [|d0]; [discriminate|]. rewrite ty_size_S. destruct t; try lia; destruct (assocN _ _); lia. }
  destruct (existsb (forallb is_var) rows); [discriminate|].
  rewrite Hqh. cbn [andb].
  destruct (forallb (fun r => match r with p :: _ => is_var p | [] => false end) rows) eqn:Hall.
  - rewrite forallb_forall in Hall.
    assert (Hrows0 : Forall (fun r => swt env trest r = true) (map (@tl pattern) rows)).
    { apply Forall_forall. intros r' Hr'. apply in_map_iff in Hr'. destruct Hr' as (r & <- & Hr).
      rewrite Forall_forall in Hrows. destruct (row_inv env t trest r (Hrows r Hr)) as (p & tl & -> & _ & Htl). exact Htl. }
    pose proof (IH trest (map (@tl pattern) rows) qt Htr Hrows0 Hqt) as Hn.
    destruct (useful f env trest (map (@tl pattern) rows) qt); [discriminate|]. exfalso. apply Hn; [|reflexivity].
    unfold fuel_bound. lia.
  - clear Hall.
    assert (Hheads : forall p, In p (heads rows) -> pat_wt env t p = true).
    { intros p Hp. unfold heads in Hp. apply in_flat_map in Hp. destruct Hp as (r & Hr & Hp).
      rewrite Forall_forall in Hrows. destruct (row_inv env t trest r (Hrows r Hr)) as (p' & tl & -> & Hp' & _).
      destruct Hp as [<-|[]]. exact Hp'. }
    apply oconcat_not_None. intros o Ho. apply in_map_iff in Ho. destruct Ho as (c & <- & Hc).
    destruct (split_ctor_ok env d t rows qh c Ht Hqh Hheads Hc) as [Hcf Hhom].
    destruct (spec_var c qh qt Hqh Hqt) as (q' & -> & Hq' & _). cbn [map oconcat].
    pose proof (IH (ctor_tys c ++ trest) (flat_map (specialize c) rows) q') as Hn.
    destruct (useful f env (ctor_tys c ++ trest) (flat_map (specialize c) rows) q'); [discriminate|].
    exfalso. apply Hn; auto.
    + apply Forall_app. split; [apply (ctor_tys_tok_gen env d t c Ht Hcf)|exact Htr].
    + apply (spec_rows_wt env d W t trest c rows Ht Hcf Hhom Hrows).
    + unfold fuel_bound. rewrite map_app, list_sum_app. pose proof (ctor_tys_size env d t c Ht Hcf). lia.
Qed.

(* ================================================================ check_exhaustive *)

Section Check.
Variable env : tyenv.
Variable d : nat.
Variable t : ty.
Variable ps : list pattern.
Hypothesis W : env_wf env = true.
Hypothesis Ht : tok env d t = true.
Hypothesis Hps : forall p, In p ps -> pat_wt env t p = true.

Lemma check_rows_wt : Forall (fun r => swt env [t] r = true) (map (fun p => [p]) ps).
Proof.
  apply Forall_forall. intros r Hr. apply in_map_iff in Hr. destruct Hr as (p & <- & Hp).
  unfold swt. rewrite forall2b_cons, (Hps p Hp). reflexivity.
Qed.

(* (a) every reported missing case is one well-typed pattern that denotes at least one value
   of the scrutinee type, and only values that no arm matches; (b) if some value of the type
   is matched by no arm, at least one missing case is reported *)
Theorem check_exhaustive_correct f ws : check_exhaustive f env t ps = Some ws ->
  (forall w, In w ws -> exists p, w = [p] /\ pat_wt env t p = true /\
      (exists v, has_type env v t = true /\ pat_matches p v = true) /\
      (forall v, has_type env v t = true -> pat_matches p v = true ->
                 forall a, In a ps -> pat_matches a v = false)) /\
  ((exists v, has_type env v t = true /\ forall a, In a ps -> pat_matches a v = false) -> ws <> []).
Proof.
  intro H. unfold check_exhaustive in H.
  destruct (useful_correct env d W f [t] _ [wild] ws (Forall_cons _ Ht (Forall_nil _)) check_rows_wt eq_refl eq_refl H)
    as [S C]. split.
  - intros w Hw. destruct (S w Hw) as (S1 & (vs & Hvs & Hm) & S3).
    unfold swt in S1. pose proof (forall2b_length _ _ _ S1) as Lw. destruct w as [|p [|p' w']]; try discriminate Lw.
    rewrite forall2b_cons in S1. apply andb_true_iff in S1. destruct S1 as [Hp _].
    exists p. split; [reflexivity|]. split; [exact Hp|]. split.
    + unfold vtyped, vmatch in *. pose proof (forall2b_length _ _ _ Hvs) as Lv.
      destruct vs as [|v [|v' vs']]; try discriminate Lv.
      rewrite forall2b_cons in Hvs. rewrite forall2b_cons in Hm. exists v. split.
      * apply andb_true_iff in Hvs. apply Hvs.
      * apply andb_true_iff in Hm. apply Hm.
    + intros v Hv Hm' a Ha.
      assert (E : vmatch [a] [v] = false).
      { apply (S3 [v]); [unfold vtyped; rewrite forall2b_cons, Hv; reflexivity|unfold vmatch; rewrite forall2b_cons, Hm'; reflexivity|].
        apply in_map_iff. exists a. auto. }
      unfold vmatch in E. rewrite forall2b_cons in E. cbn [forall2b] in E. rewrite andb_true_r in E. exact E.
  - intros (v & Hv & Hno). apply (C [v]); [unfold vtyped; rewrite forall2b_cons, Hv; reflexivity|].
    intros r Hr. apply in_map_iff in Hr. destruct Hr as (a & <- & Ha). unfold vmatch. rewrite forall2b_cons, (Hno a Ha). reflexivity.
Qed.

(* (c) the checker accepts the match exactly when the arms cover every value of the type *)
Theorem useful_iff_covers f : (fuel_bound env d [t] <= f)%nat ->
  (check_exhaustive f env t ps = Some [] <->
   forall v, has_type env v t = true -> exists p, In p ps /\ pat_matches p v = true).
Proof.
  intro Hf.
  assert (Hsome : exists ws, check_exhaustive f env t ps = Some ws).
  { destruct (check_exhaustive f env t ps) as [ws|] eqn:E; [eauto|]. exfalso.
    apply (useful_fuel env d W f [t] (map (fun p => [p]) ps) [wild]); auto using check_rows_wt. }
  destruct Hsome as [ws E]. destruct (check_exhaustive_correct f ws E) as [S C]. rewrite E. split.
  - intros [= ->] v Hv. destruct (existsb (fun p => pat_matches p v) ps) eqn:Ex.
    + apply existsb_exists in Ex. exact Ex.
    + exfalso. apply C; [|reflexivity]. exists v. split; [exact Hv|]. intros a Ha.
      destruct (pat_matches a v) eqn:Em; [|reflexivity].
      assert (existsb (fun p => pat_matches p v) ps = true) by (apply existsb_exists; eauto). congruence.
  - intro Hcov. destruct ws as [|w ws']; [reflexivity|]. exfalso.
    destruct (S w (or_introl eq_refl)) as (p & _ & _ & (v & Hv & Hm) & Hno).
    destruct (Hcov v Hv) as (a & Ha & Hma). rewrite (Hno v Hv Hm a Ha) in Hma. discriminate.
Qed.

(* the real algorithm and the reference procedure Covers.covers agree wherever both answer *)
Theorem useful_agrees_with_covers f ws cap fuel b :
  check_exhaustive f env t ps = Some ws -> covers env cap fuel t ps = Some b ->
  (b = true <-> ws = []).
Proof.
  intros E Ec. rewrite (covers_iff env cap fuel t ps b Ec).
  destruct (check_exhaustive_correct f ws E) as [S C]. split.
  - intro Hcov. destruct ws as [|w ws']; [reflexivity|]. exfalso.
    destruct (S w (or_introl eq_refl)) as (p & _ & _ & (v & Hv & Hm) & Hno).
    destruct (Hcov v Hv) as (a & Ha & Hma). rewrite (Hno v Hv Hm a Ha) in Hma. discriminate.
  - intros -> v Hv. destruct (existsb (fun p => pat_matches p v) ps) eqn:Ex.
    + apply existsb_exists in Ex. exact Ex.
    + exfalso. apply C; [|reflexivity]. exists v. split; [exact Hv|]. intros a Ha.
      destruct (pat_matches a v) eqn:Em; [|reflexivity].
      assert (existsb (fun p => pat_matches p v) ps = true) by (apply existsb_exists; eauto). congruence.
Qed.

End Check.

(* ================================================================ non-vacuity
   (each input was also given to the real checker through the `exhaust` job of the harness;
   its `(missing ..)` field, which is sorted, lists exactly these witnesses) *)

Module UsefulExamples.
Definition u8 := TInt false 8.
Definition i8 := TInt true 8.
(* struct S { a: bool, b: u8 }   enum E { A, B(u8, bool) } *)
Definition env1 : tyenv :=
  {| structs := [(1%N, [(10%N, TBool); (11%N, u8)])];
     enums := [(2%N, [(20%N, None); (21%N, Some [u8; TBool])])] |}.
Definition tb := TTuple [u8; TBool].

Example env1_wf : env_wf env1 = true. Proof. reflexivity. Qed.
Example tb_tok : tok env1 2 tb = true. Proof. vm_compute. reflexivity. Qed.
Example tb_fuel : fuel_bound env1 2 [tb] = 4%nat. Proof. reflexivity. Qed.

(* match x { (0..=9, true) => .., (10..=255, _) => .., (_, false) => .. }: accepted *)
Example ex_exhaustive :
  check_exhaustive 4 env1 tb
    [PTuple [PRange false 0 9; PBool true]; PTuple [PRange false 10 255; PVar 0]; PTuple [PVar 0; PBool false]]
  = Some [].
Proof. vm_compute. reflexivity. Qed.

(* ... hence (theorem) every value of (u8, bool) is matched by some arm *)
Definition arms3 : list pattern :=
  [PTuple [PRange false 0 9; PBool true]; PTuple [PRange false 10 255; PVar 0]; PTuple [PVar 0; PBool false]].
Example arms3_wt : forall p, In p arms3 -> pat_wt env1 tb p = true.
Proof. intros p Hp. repeat (destruct Hp as [<-|Hp]; [reflexivity|]). destruct Hp. Qed.
Example ex_exhaustive_covers :
  forall v, has_type env1 v tb = true -> exists p, In p arms3 /\ pat_matches p v = true.
Proof. apply (proj1 (useful_iff_covers env1 2 tb arms3 env1_wf tb_tok arms3_wt 4 (le_n _))). exact ex_exhaustive. Qed.

(* match x { (0..=9, true) => .., (11..=255, _) => .. }: rejected; the missing cases, in the
   order the Rust code pushes them *)
Example ex_missing :
  check_exhaustive 4 env1 tb [PTuple [PRange false 0 9; PBool true]; PTuple [PRange false 11 255; PVar 0]]
  = Some [[PTuple [PRange false 0 0; PBool false]];
          [PTuple [PRange false 1 9; PBool false]];
          [PTuple [PRange false 10 10; PVar 0]]].
Proof. vm_compute. reflexivity. Qed.

(* an enum with a payload: match e { E::B(5, true) => .., E::A => .. } *)
Example ex_enum :
  check_exhaustive 4 env1 (TEnum 2) [PEnum 2 21 (Some [PNum false 5; PBool true]); PEnum 2 20 None]
  = Some [[PEnum 2 21 (Some [PRange false 0 0; PVar 0])];
          [PEnum 2 21 (Some [PRange false 1 4; PVar 0])];
          [PEnum 2 21 (Some [PRange false 5 5; PBool false])];
          [PEnum 2 21 (Some [PRange false 6 255; PVar 0])]].
Proof. vm_compute. reflexivity. Qed.

(* a signed range across zero and an unsigned literal on i8: match x { -5i8..=5i8 => .., 100 => .. } *)
Example ex_signed :
  check_exhaustive 2 env1 i8 [PRange true (-5) 5; PNum false 100]
  = Some [[PRange true (-128) (-128)]; [PRange true (-127) (-6)]; [PRange true 6 6];
          [PRange true 7 99]; [PRange true 101 127]].
Proof. vm_compute. reflexivity. Qed.

(* the two halves of i8 (the match the unrepaired checker rejected): accepted, and the
   reference procedure agrees *)
Example ex_i8_halves :
  check_exhaustive 2 env1 i8 [PRange true (-128) (-1); PRange false 0 127] = Some [] /\
  covers env1 1000%N 8 i8 [PRange true (-128) (-1); PRange false 0 127] = Some true.
Proof. vm_compute. split; reflexivity. Qed.

(* struct patterns with `..`: the witnesses list all fields *)
Example ex_struct_rest :
  check_exhaustive 4 env1 (TStruct 1) [PStruct 1 [(11%N, PRange false 0 9)] true; PStruct 1 [(10%N, PBool false)] true]
  = Some [[PStruct 1 [(10%N, PBool true); (11%N, PRange false 10 10)] false];
          [PStruct 1 [(10%N, PBool true); (11%N, PRange false 11 255)] false]].
Proof. vm_compute. reflexivity. Qed.

(* the identifier-column shortcut: no constructor of the first two columns is enumerated *)
Example ex_shortcut :
  check_exhaustive 5 env1 (TTuple [TBool; TBool; u8]) [PTuple [PVar 5; PVar 6; PNum false 5]]
  = Some [[PTuple [PVar 0; PVar 0; PRange false 0 0]];
          [PTuple [PVar 0; PVar 0; PRange false 1 4]];
          [PTuple [PVar 0; PVar 0; PRange false 6 255]]].
Proof. vm_compute. reflexivity. Qed.

(* the diagonal shape: 6 bool columns, arm i tests column i only, a last arm of identifiers;
   the row-of-identifiers exit answers at once (without it: 2^6 constructor splits) *)
Definition diag_ty : ty := TTuple (repeat TBool 6).
Definition diag_arm (i : nat) : pattern :=
  PTuple (map (fun j => if Nat.eqb i j then PBool true else PVar 0) (seq 0 6)).
Definition diag_arms : list pattern := map diag_arm (seq 0 6) ++ [PTuple (repeat (PVar 0) 6)].
Example ex_diagonal :
  length diag_arms = 7%nat /\ check_exhaustive 8 env1 diag_ty diag_arms = Some [] /\
  check_exhaustive 8 env1 diag_ty (map diag_arm (seq 0 6))
  = Some [[PTuple (repeat (PBool false) 6)]].
Proof. vm_compute. repeat split. Qed.

(* too little fuel: no verdict *)
Example ex_no_fuel : check_exhaustive 3 env1 tb [PTuple [PRange false 0 9; PBool true]] = None.
Proof. vm_compute. reflexivity. Qed.
End UsefulExamples.

Print Assumptions useful_correct.
Print Assumptions useful_fuel.
Print Assumptions check_exhaustive_correct.
Print Assumptions useful_iff_covers.
Print Assumptions useful_agrees_with_covers.
Print Assumptions UsefulExamples.ex_exhaustive_covers.
