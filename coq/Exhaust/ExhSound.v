(* NO `Stuck` FOR CHECKED PROGRAMS WHOSE MATCHES ARE EXHAUSTIVE.

   Lang/WtSound.v proves that a program accepted by Wt.v only gets stuck with one of the codes
   [stuck_allowed] = [41; 48; 60; 73; 75; 76]; the codes 41 / 60 / 73 / 76 are pattern-match
   failures.  Here they are excluded by the exhaustiveness check [exh_fns] of Exhaust/ExhSem.v.

   The statement cannot be made at the level of Wt.v alone: [has_ty] carries no range condition
   (Wt.ty_eqb identifies i32 and u32), and exhaustiveness of integer patterns is a statement
   about the values IN THE RANGE of the type ([ExhExamples.wt_level_strengthening_false], proved
   at the end of this file).  So the theorem is
   proved for the strict checker [scf2_*] (Leibniz type equalities; it rejects `join`), with the
   invariant "every value is in the range of its type" ([in_rng]) on top of the shape invariant
   of WtSound.v, which is used as a black box for the shapes and for all the other Stuck codes.

     [exh_sound_all]     scf2 + wtx + exh: evaluation is never Stuck, results are in range
     [exh_main_values]   the body of main, run as [Sem.run_main] runs it
     [exh_run_main]      Sem.run_main is RunOk / RunPanic / RunNoFuel
     [wt_covered_exh_agrees]  the program theorem: wt_covered fw P && exh_fns P => three-way
                         conclusion, no Stuck disjunct *)
From Coq Require Import Lia ZArith.
From GV Require Import Base.Util Lang.Ast Lang.Wt Lang.ValTy Lang.WtSound Lang.WtShape
  Panic.PanicRec Panic.PanicSem Compile.Lower Compile.TSem Compile.TSemArith1 Compile.TSemSemExpr Compile.ValEnc
  Compile.TSemSemStmt Compile.TSemSemCall Compile.TSemSemAgg Compile.TSemSemFull
  Compile.TSemSemFullCall Compile.TSemSemFullConst Compile.TSemSemFullWt Exhaust.ExhSem.
From GV Require Lang.Sem.
Local Open Scope N_scope.

(* ------------------------------------------------------------------ environments in range *)

Section EnvRng.
  Variable P : program.

  Definition rbind_ok (b : N * Sem.value) (tb : N * (ty * bool)) : Prop :=
    fst b = fst tb /\ in_rng P (snd b) (fst (snd tb)) = true.
  Definition scope_rng (s : list (N * Sem.value)) (gs : list (N * (ty * bool))) : Prop :=
    Forall2 rbind_ok s gs.
  Definition env_rng (ss : list (list (N * Sem.value))) (g : tenv) : Prop := Forall2 scope_rng ss g.

  Lemma assoc_scope_rng s gs x t m :
    scope_rng s gs -> assocN x gs = Some (t, m) -> exists v, assocN x s = Some v /\ in_rng P v t = true.
  Proof.
    induction 1 as [|[k v] [k' [t' m']] s gs [Hk Hv] _ IH]; cbn [assocN]; [discriminate|].
    cbn [fst snd] in Hk, Hv. subst k'. destruct (x =? k).
    - intros [= <- <-]. eauto.
    - exact IH.
  Qed.

  Lemma assoc_scope_rng_none s gs x : scope_rng s gs -> assocN x gs = None -> assocN x s = None.
  Proof.
    induction 1 as [|[k v] [k' [t' m']] s gs [Hk Hv] _ IH]; cbn [assocN]; [reflexivity|].
    cbn [fst snd] in Hk. subst k'. destruct (x =? k); [discriminate|exact IH].
  Qed.

  Lemma lookup_rng ss g x t m :
    env_rng ss g -> tlookup g x = Some (t, m) ->
    exists v, Sem.lookup_scopes ss x = Some v /\ in_rng P v t = true.
  Proof.
    induction 1 as [|s gs ss g Hs _ IH]; cbn [tlookup Sem.lookup_scopes]; [discriminate|].
    destruct (assocN x gs) as [[t' m']|] eqn:E.
    - intros [= <- <-]. destruct (assoc_scope_rng _ _ _ _ _ Hs E) as [v [Hv Ht]]. rewrite Hv. eauto.
    - rewrite (assoc_scope_rng_none _ _ _ Hs E). exact IH.
  Qed.

  Lemma bind_var_rng en g x v t m :
    env_rng (Sem.scopes en) g -> in_rng P v t = true ->
    env_rng (Sem.scopes (Sem.bind_var en x v)) (tbind g x t m).
  Proof.
    unfold Sem.bind_var, tbind. intros H Hv. remember (Sem.scopes en) as ss0 eqn:E0.
    destruct H as [|s gs ss g' Hs Hr]; cbn [Sem.scopes].
    - constructor; [|constructor]. constructor; [|constructor]. split; [reflexivity|assumption].
    - constructor; [|assumption]. constructor; [|assumption]. split; [reflexivity|assumption].
  Qed.

  Definition binds_rng (bs : list (N * Sem.value)) (tbs : list (N * ty)) : Prop :=
    Forall2 (fun b tb => fst b = fst tb /\ in_rng P (snd b) (snd tb) = true) bs tbs.

  Lemma bind_all_rng bs tbs m :
    binds_rng bs tbs -> forall en g,
    env_rng (Sem.scopes en) g -> env_rng (Sem.scopes (Sem.bind_all en bs)) (tbind_all g tbs m).
  Proof.
    unfold Sem.bind_all, tbind_all.
    induction 1 as [|[x v] [y t] bs tbs [Hx Hv] _ IH]; intros en g He; cbn [fold_left]; [assumption|].
    cbn [fst snd] in *. subst y. apply IH. now apply bind_var_rng.
  Qed.

  Lemma binds_rng_app a b ta tb : binds_rng a ta -> binds_rng b tb -> binds_rng (a ++ b) (ta ++ tb).
  Proof. apply Forall2_app. Qed.

  Lemma push_rng en g : env_rng (Sem.scopes en) g -> env_rng (Sem.scopes (Sem.push_scope en)) ([] :: g).
  Proof. intro H. cbn [Sem.push_scope Sem.scopes]. constructor; [constructor|assumption]. Qed.

  Lemma pop_rng ss g : env_rng ss g -> env_rng (tl ss) (tl g).
  Proof. destruct 1; cbn [tl]; [constructor|assumption]. Qed.

  Lemma update_assoc_rng s gs x v t m :
    scope_rng s gs -> assocN x gs = Some (t, m) -> in_rng P v t = true ->
    forall s', Sem.update_assoc s x v = Some s' -> scope_rng s' gs.
  Proof.
    induction 1 as [|[k w] [k' [t' m']] s gs [Hk Hw] Hr IH]; cbn [assocN Sem.update_assoc]; [discriminate|].
    cbn [fst snd] in Hk, Hw. subst k'. destruct (x =? k) eqn:E.
    - intros [= <- <-] Hv s' [= <-]. constructor; [|assumption]. split; [reflexivity|assumption].
    - intros Ha Hv s' Hs'. destruct (Sem.update_assoc s x v) as [r'|] eqn:Eu; [|discriminate Hs'].
      injection Hs' as <-. constructor; [split; [reflexivity|assumption]|]. now apply IH.
  Qed.

  Lemma update_assoc_rng_none s gs x v : scope_rng s gs -> assocN x gs = None -> Sem.update_assoc s x v = None.
  Proof.
    induction 1 as [|[k w] [k' [t' m']] s gs [Hk Hw] Hr IH]; cbn [assocN Sem.update_assoc]; [reflexivity|].
    cbn [fst snd] in Hk. subst k'. destruct (x =? k); [discriminate|]. intro Ha. now rewrite (IH Ha).
  Qed.

  Lemma assign_scopes_rng ss g x v t m :
    env_rng ss g -> tlookup g x = Some (t, m) -> in_rng P v t = true ->
    forall ss', Sem.assign_scopes ss x v = Some ss' -> env_rng ss' g.
  Proof.
    induction 1 as [|s gs ss g Hs Hr IH]; cbn [tlookup Sem.assign_scopes]; [discriminate|].
    destruct (assocN x gs) as [[t' m']|] eqn:E.
    - intros [= <- <-] Hv ss'. destruct (Sem.update_assoc s x v) as [s'|] eqn:Eu.
      + intros [= <-]. constructor; [|assumption]. eapply update_assoc_rng; eassumption.
      + destruct (assoc_scope_rng _ _ _ _ _ Hs E) as [v0 [Hv0 _]].
        exfalso. clear - Eu Hv0. revert Eu Hv0. induction s as [|[k w] r IHs]; cbn [Sem.update_assoc assocN]; [discriminate|].
        destruct (x =? k); [discriminate|]. destruct (Sem.update_assoc r x v); [discriminate|]. intros _. now apply IHs.
    - intros Hl Hv ss'. rewrite (update_assoc_rng_none _ _ _ v Hs E).
      destruct (Sem.assign_scopes ss x v) as [ss1|] eqn:Ea; [|discriminate].
      intros [= <-]. constructor; [assumption|]. now apply (IH Hl Hv).
  Qed.

  Lemma assign_rng en g x v t m en' :
    env_rng (Sem.scopes en) g -> tlookup g x = Some (t, m) -> in_rng P v t = true ->
    Sem.assign_var en x v = Some en' -> env_rng (Sem.scopes en') g.
  Proof.
    intros He Hl Hv. unfold Sem.assign_var.
    destruct (Sem.assign_scopes (Sem.scopes en) x v) as [ss'|] eqn:Ea; [|discriminate].
    intros [= <-]. cbn [Sem.scopes]. eapply assign_scopes_rng; eassumption.
  Qed.

  Lemma env_rng_last ss g : env_rng ss g -> scope_rng (last ss []) (last g []).
  Proof.
    induction 1 as [|s gs ss g Hs Hr IH]; [constructor|].
    destruct Hr as [|s2 gs2 ss2 g2 H2 Hr2]; [exact Hs|exact IH].
  Qed.
End EnvRng.

(* ------------------------------------------------------------------ patterns: the bindings are in range *)

Section PatRng.
  Variable P : program.

  Lemma pat_ok_gpat_ok_mut :
    (forall p t bs, pat_ok P p t bs -> gpat_ok P p t bs) /\
    (forall ps ts bs, pats_ok P ps ts bs -> gpats_ok P ps ts bs) /\
    (forall fs ds bs, fields_ok P fs ds bs -> gfields_ok P fs ds bs).
  Proof.
    apply pat_ok_mutind.
    - intros. constructor.
    - intros ps m ts bs _ IH. now constructor.
    - intros name ig fields m def bs Hd Hnd _ IH. now apply (GP_struct P name ig fields m def bs).
    - constructor.
    - intros p t ps ts b bs Ht _ IH1 _ IH2. now constructor.
    - constructor.
    - intros fn fp fr fty r b bs _ IH1 _ IH2. now constructor.
    - intros fs fn fty r bs Hn _ IH. now constructor.
  Qed.

  Definition binds_enc (vbs : list (N * Sem.value)) (bs : list (N * ty)) : Prop :=
    Forall2 (fun b tb => fst b = fst tb /\ exists w, has_enc P (snd tb) (snd b) w) vbs bs.

  Lemma pmatch_enc_mut :
    (forall p t bs, gpat_ok P p t bs -> forall v w vbs, has_enc P t v w ->
       Sem.pmatch P p v = Some vbs -> binds_enc vbs bs) /\
    (forall ps ts bs, gpats_ok P ps ts bs -> forall vs ws vbs, Forall3 (has_enc P) ts vs ws ->
       sem_match_list P ps vs = Some vbs -> binds_enc vbs bs) /\
    (forall fs ds bs, gfields_ok P fs ds bs -> forall def vs ws vbs,
       Forall3 (has_enc P) (map snd def) vs ws -> NoDup (map fst def) -> incl ds def ->
       sem_match_fields P def vs fs = Some vbs -> binds_enc vbs bs).
  Proof.
    apply gpat_ok_mutind.
    - intros x m t v w vbs Hv. rewrite pmatch_id. intros [= <-]. constructor; [|constructor].
      cbn [fst snd]. eauto.
    - intros m v w vbs H. apply has_enc_inv in H as (b & -> & _). cbn [Sem.pmatch].
      destruct b; [|discriminate]. intros [= <-]. constructor.
    - intros m v w vbs H. apply has_enc_inv in H as (b & -> & _). cbn [Sem.pmatch].
      destruct b; [discriminate|]. intros [= <-]. constructor.
    - intros n m sg b _ v w vbs H. apply has_enc_inv in H as (z & -> & _). cbn [Sem.pmatch].
      destruct (z =? Z.of_N n)%Z; [|discriminate]. intros [= <-]. constructor.
    - intros z0 m sg b _ v w vbs H. apply has_enc_inv in H as (z & -> & _). cbn [Sem.pmatch].
      destruct (z =? z0)%Z; [|discriminate]. intros [= <-]. constructor.
    - intros lo hi m sg b _ _ v w vbs H. apply has_enc_inv in H as (z & -> & _). cbn [Sem.pmatch].
      destruct ((Z.of_N lo <=? z)%Z && (z <=? Z.of_N hi)%Z); [|discriminate]. intros [= <-]. constructor.
    - intros lo hi m sg b _ _ v w vbs H. apply has_enc_inv in H as (z & -> & _). cbn [Sem.pmatch].
      destruct ((lo <=? z)%Z && (z <=? hi)%Z); [|discriminate]. intros [= <-]. constructor.
    - intros ps m ts bs _ IH v w vbs H. apply has_enc_inv in H as (vs & -> & Hs).
      apply has_encs_F3 in Hs as (ws & Hws & _). rewrite pmatch_tup. exact (IH vs ws vbs Hws).
    - intros name ig fields m def bs Hd Hnd _ IH v w vbs H.
      apply has_enc_inv in H as (def' & vs & -> & Hd' & Hs). assert (def' = def) as -> by congruence.
      apply has_encs_F3 in Hs as (ws & Hws & _). rewrite pmatch_struct, Hd.
      apply (IH def vs ws vbs Hws Hnd). intros x Hx; exact Hx.
    - intros ename variant m variants ts Hd Hv v w vbs H.
      apply has_enc_inv in H as (variants' & tag & ts' & vs & pw & -> & _).
      rewrite pmatch_enum_unit. destruct (tag =? variant); [|discriminate]. intros [= <-]. constructor.
    - intros ename variant ps m variants ts bs Hd Hv _ IH v w vbs H.
      apply has_enc_inv in H as (variants' & tag & ts' & vs & pw & -> & Hd' & Ht' & Hs & _).
      assert (variants' = variants) as -> by congruence. apply has_encs_F3 in Hs as (ws & Hws & _).
      rewrite pmatch_enum_tup. destruct (N.eqb_spec tag variant) as [->|]; [|discriminate].
      assert (ts' = ts) as -> by congruence. exact (IH vs ws vbs Hws).
    - intros vs ws vbs H. inversion H; subst. cbn [sem_match_list]. intros [= <-]. constructor.
    - intros p t ps ts b bs _ _ IH1 _ IH2 vs ws vbs H.
      inversion H as [|t' v w ts' vs' ws' Hv H']; subst.
      change (sem_match_list P (p :: ps) (v :: vs')) with
        (match Sem.pmatch P p v, sem_match_list P ps vs' with Some a, Some b0 => Some (a ++ b0) | _, _ => None end).
      destruct (Sem.pmatch P p v) as [a|] eqn:Ea; [|discriminate].
      destruct (sem_match_list P ps vs') as [b0|] eqn:Eb; [|discriminate]. intros [= <-].
      apply Forall2_app; [exact (IH1 v w a Hv Ea)|exact (IH2 vs' ws' b0 H' Eb)].
    - intros def vs ws vbs _ _ _. cbn [sem_match_fields]. intros [= <-]. constructor.
    - intros fn fp fr fty r b bs _ IH1 _ IH2 def vs ws vbs Hws Hnd Hincl.
      change (sem_match_fields P def vs ((fn, fp) :: fr)) with
        (match Sem.index_of fn (map fst def) 0 with
         | Some k => match nthN vs k with
                     | Some fv => match Sem.pmatch P fp fv, sem_match_fields P def vs fr with
                                  | Some a, Some b => Some (a ++ b) | _, _ => None end
                     | None => None end
         | None => None end).
      destruct (in_nth_error _ _ (Hincl _ (or_introl eq_refl))) as [j Hj].
      destruct (tr_fvals_assoc P def vs ws j fn fty Hws Hnd Hj) as (vj & wj & Hvj & Hej & _).
      assert (Hidx : Sem.index_of fn (map fst def) 0 = Some (N.of_nat j)).
      { rewrite (index_of_nth (map fst def) j fn 0 Hnd); [f_equal; lia|].
        rewrite nth_error_map, Hj. reflexivity. }
      rewrite Hidx, nthN_spec, Nat2N.id, Hvj.
      destruct (Sem.pmatch P fp vj) as [a|] eqn:Ea; [|discriminate].
      destruct (sem_match_fields P def vs fr) as [b0|] eqn:Eb; [|discriminate]. intros [= <-].
      apply Forall2_app; [exact (IH1 vj wj a Hej Ea)|].
      apply (IH2 def vs ws b0 Hws Hnd); [|exact Eb]. intros x Hx. apply Hincl. now right.
    - intros fs fn fty r bs _ _ IH def vs ws vbs Hws Hnd Hincl. apply (IH def vs ws vbs Hws Hnd).
      intros x Hx. apply Hincl. now right.
  Qed.

  Lemma binds_enc_rng vbs bs : binds_enc vbs bs -> binds_rng P vbs bs.
  Proof.
    induction 1 as [|b tb vbs bs [H1 [w Hw]] _ IH]; constructor; [|exact IH]. split; [exact H1|].
    exact (has_enc_in_rng P _ _ _ Hw).
  Qed.

  Theorem pmatch_rng p t bs v vbs : gpat_ok P p t bs -> ty_fits P t ->
    has_ty P v t = true -> in_rng P v t = true -> Sem.pmatch P p v = Some vbs -> binds_rng P vbs bs.
  Proof.
    intros Hp Hf Ht Hr Hm. destruct (has_enc_total P t v Hf Ht Hr) as [w Hw].
    apply binds_enc_rng. exact (proj1 pmatch_enc_mut p t bs Hp v w vbs Hw Hm).
  Qed.
End PatRng.

(* ------------------------------------------------------------------ the induction *)

Definition resT {A} (Q : A -> Prop) (o : Sem.outcome A) : Prop :=
  match o with Sem.Done a => Q a | Sem.Stuck _ => False | _ => True end.
(* the form of the conclusions of Lang/WtSound.v (strict = false) *)
Definition resW {A} (Q : A -> Prop) (o : Sem.outcome A) : Prop :=
  match o with Sem.Done a => Q a | Sem.Stuck c => In c stuck_allowed | _ => True end.
(* what is left to prove once WtSound.v has spoken *)
Definition resX {A} (Q1 Q2 : A -> Prop) (o : Sem.outcome A) : Prop :=
  match o with Sem.Done a => Q1 a -> Q2 a | Sem.Stuck c => ~ In c stuck_allowed | _ => True end.

Lemma resT_of {A} (Q1 Q2 : A -> Prop) o : resW Q1 o -> resX Q1 Q2 o -> resT (fun a => Q1 a /\ Q2 a) o.
Proof. destruct o; cbn [resW resX resT]; auto. Qed.

Lemma resT_bind {A B} (o : Sem.outcome A) (k : A -> Sem.outcome B) (Q : A -> Prop) (R : B -> Prop) :
  resT Q o -> (forall a, Q a -> resT R (k a)) -> resT R (Sem.obind o k).
Proof. destruct o; cbn [resT Sem.obind]; auto. Qed.

Lemma resX_bind {A B} (o : Sem.outcome A) (k : A -> Sem.outcome B) (Q : A -> Prop) (R1 R2 : B -> Prop) :
  resT Q o -> (forall a, Q a -> resX R1 R2 (k a)) -> resX R1 R2 (Sem.obind o k).
Proof. destruct o; cbn [resT resX Sem.obind]; auto; contradiction. Qed.

Lemma resT_weaken {A} (Q Q' : A -> Prop) (o : Sem.outcome A) :
  resT Q o -> (forall a, Q a -> Q' a) -> resT Q' o.
Proof. destruct o; cbn [resT]; auto. Qed.

Ltac nostuck :=
  let H := fresh "Hst" in
  intro H; unfold stuck_allowed in H; cbn [In] in H;
  repeat (destruct H as [H|H]; [discriminate H|]); exact H.

Section Sound.
  Variable P : program.
  Variable fwp : nat.
  Hypothesis Hwt : wt_program P = true.
  Hypothesis Hscf : scf2_fns fwp P (consts_scope P) = true.
  Hypothesis Hwx : wtx_fns P = true.
  Hypothesis Hexh : exh_fns P = true.

  Definition QE (g : tenv) (t : ty) (r : Sem.value * Sem.env) : Prop :=
    has_ty P (fst r) t = true /\ env_ok P (Sem.scopes (snd r)) g.
  Definition QR (g : tenv) (t : ty) (r : Sem.value * Sem.env) : Prop :=
    in_rng P (fst r) t = true /\ env_rng P (Sem.scopes (snd r)) g.
  Definition QF (g : tenv) (t : ty) (r : Sem.value * Sem.env) : Prop := QE g t r /\ QR g t r.

  Definition QEb (g : tenv) (t : ty) (r : Sem.value * Sem.env) : Prop :=
    has_ty P (fst r) t = true /\ env_ok P (tl (Sem.scopes (snd r))) (tl g).
  Definition QRb (g : tenv) (t : ty) (r : Sem.value * Sem.env) : Prop :=
    in_rng P (fst r) t = true /\ env_rng P (tl (Sem.scopes (snd r))) (tl g).

  Definition PE (n : nat) : Prop := forall fw g e en,
    scf2_expr fw P g e = true -> wtx_expr P e = true -> exh_expr P e = true ->
    genv P g -> env_ok P (Sem.scopes en) g -> env_rng P (Sem.scopes en) g ->
    resT (QF g (e_ty e)) (Sem.eval n P en e).
  Definition PB (n : nat) : Prop := forall fw g b en t,
    scf2_block fw P g b = Some t -> forallb (wtx_stmt P) b = true -> forallb (exh_stmt P) b = true ->
    genv P g -> env_ok P (Sem.scopes en) g -> env_rng P (Sem.scopes en) g ->
    resT (fun r => QEb g t r /\ QRb g t r) (Sem.exec_block n P en b).
  Definition PS (n : nat) : Prop := forall fw g s en g' t,
    scf2_stmt fw P g s = Some (g', t) -> wtx_stmt P s = true -> exh_stmt P s = true ->
    genv P g -> env_ok P (Sem.scopes en) g -> env_rng P (Sem.scopes en) g ->
    resT (QF g' t) (Sem.exec n P en s).

  (* Lang/WtSound.v as a black box *)
  Lemma bb_expr n fw g e en :
    scf2_expr fw P g e = true -> wtx_expr P e = true -> genv P g -> env_ok P (Sem.scopes en) g ->
    resW (QE g (e_ty e)) (Sem.eval n P en e).
  Proof.
    intros Hsc Hx Hg He.
    pose proof (wt_sound_expr P false Hwt (fun H => False_ind _ (Bool.diff_false_true H)) n fw g e en
                  (proj1 (scf2_wtx_implies_wt P fw) g e Hsc Hx) (fun H => False_ind _ (Bool.diff_false_true H)) Hg He) as H.
    destruct (Sem.eval n P en e) as [[v en']| | |]; cbn [resW]; [exact H| exact I | exact (proj1 H) | exact I].
  Qed.

  Lemma bb_block n fw g b t en :
    scf2_block fw P g b = Some t -> forallb (wtx_stmt P) b = true -> genv P g -> env_ok P (Sem.scopes en) g ->
    resW (QEb g t) (Sem.exec_block n P en b).
  Proof.
    intros Hsc Hx Hg He.
    pose proof (wt_sound_block P false Hwt (fun H => False_ind _ (Bool.diff_false_true H)) n fw g b en t
                  (proj1 (proj2 (scf2_wtx_implies_wt P fw)) g b t Hsc Hx) (fun H => False_ind _ (Bool.diff_false_true H)) Hg He) as H.
    destruct (Sem.exec_block n P en b) as [[v en']| | |]; cbn [resW]; [exact H| exact I | exact (proj1 H) | exact I].
  Qed.

  Lemma bb_stmt n fw g s g' t en :
    scf2_stmt fw P g s = Some (g', t) -> wtx_stmt P s = true -> genv P g -> env_ok P (Sem.scopes en) g ->
    resW (QE g' t) (Sem.exec n P en s).
  Proof.
    intros Hsc Hx Hg He.
    pose proof (wt_sound_stmt P false Hwt (fun H => False_ind _ (Bool.diff_false_true H)) n fw g s en g' t
                  (proj2 (proj2 (scf2_wtx_implies_wt P fw)) g s (g', t) Hsc Hx) (fun H => False_ind _ (Bool.diff_false_true H)) Hg He) as H.
    destruct (Sem.exec n P en s) as [[v en']| | |]; cbn [resW]; [exact H| exact I | exact (proj1 H) | exact I].
  Qed.

  Lemma forallb_and {A} (a b : A -> bool) l :
    forallb (fun x => a x && b x) l = true -> forallb a l = true /\ forallb b l = true.
  Proof.
    induction l as [|x l IH]; cbn [forallb]; [auto|]. intro H. apply andb_prop in H as [H1 H2].
    apply andb_prop in H1 as [Ha Hb]. destruct (IH H2) as [I1 I2]. now rewrite Ha, Hb, I1, I2.
  Qed.

  Definition VOK (v : Sem.value) (t : ty) : Prop := has_ty P v t = true /\ in_rng P v t = true.

  Lemma vals_rng vs es : Forall2 (fun v e => VOK v (e_ty e)) vs es ->
    forallb2 (in_rng P) vs (map e_ty es) = true.
  Proof. induction 1 as [|v e vs es [_ Hr] _ IH]; cbn [map forallb2]; [reflexivity|]. now rewrite Hr, IH. Qed.

  Lemma vals_rng1 vs es el : Forall2 (fun v e => VOK v (e_ty e)) vs es ->
    forallb (fun e => ty_beq (e_ty e) el) es = true -> forallb (fun v => in_rng P v el) vs = true.
  Proof.
    induction 1 as [|v e vs es [_ Hr] _ IH]; cbn [forallb]; [reflexivity|]. intro H.
    apply andb_prop in H as [H1 H2]. apply ty_beq_eq in H1. subst el. now rewrite Hr, IH.
  Qed.

  Lemma ev_fields_list (ev : Sem.env -> expr -> Sem.outcome (Sem.value * Sem.env)) fields :
    forall ds es en, struct_exprs fields ds = Some es -> ev_fields ev fields ds en = ev_list ev es en.
  Proof.
    induction ds as [|[fname fty] r IH]; intros es en H; cbn [struct_exprs] in H.
    - injection H as <-. reflexivity.
    - destruct (assocN fname fields) as [fe|] eqn:Ef; [|discriminate H].
      destruct (struct_exprs fields r) as [es'|] eqn:Er; [|discriminate H]. injection H as <-.
      cbn [ev_fields ev_list]. rewrite Ef.
      destruct (ev en fe) as [[v en1]|r1 m1|c1|]; cbn [Sem.obind]; try reflexivity.
      now rewrite (IH es' en1 eq_refl).
  Qed.

  Section Cases.
    Variable n : nat.
    Hypothesis IHe : PE n.
    Hypothesis IHb : PB n.

    Ltac use_sub f g e1 en v en1 Hv He1 Hrv Hr1 :=
      eapply resX_bind; [apply (IHe f g e1 en); assumption|];
      intros [v en1] [[Hv He1] [Hrv Hr1]]; cbn [fst snd] in Hv, He1, Hrv, Hr1.

    Ltac start Hsc Hx Hex Hg He :=
      cbn [e_ty]; apply resT_of; [exact (bb_expr _ _ _ _ _ Hsc Hx Hg He)|];
      rewrite eval_eq; cbn zeta;
      match goal with fw : nat |- _ => destruct fw as [|f]; [discriminate Hsc|] end;
      cbn [scf2_expr] in Hsc; cbn [wtx_expr] in Hx; cbn [exh_expr] in Hex.

    Lemma ev_list_exh f g : genv P g -> forall es en,
      forallb (scf2_expr f P g) es = true -> forallb (wtx_expr P) es = true -> forallb (exh_expr P) es = true ->
      env_ok P (Sem.scopes en) g -> env_rng P (Sem.scopes en) g ->
      resT (fun r => Forall2 (fun v e => VOK v (e_ty e)) (fst r) es /\
                     env_ok P (Sem.scopes (snd r)) g /\ env_rng P (Sem.scopes (snd r)) g)
           (ev_list (Sem.eval n P) es en).
    Proof.
      intros Hg es. induction es as [|e r IH]; intros en Hsc Hx Hex He Hr; cbn [ev_list].
      - cbn [resT fst snd]. split; [constructor|split; assumption].
      - cbn [forallb] in Hsc, Hx, Hex. andb_all.
        eapply resT_bind; [apply (IHe f g e en); assumption|].
        intros [v en1] [[Hv He1] [Hrv Hr1]]. cbn [fst snd] in *.
        eapply resT_bind; [apply (IH en1); assumption|]. intros [vs en2] (Hvs & He2 & Hr2). cbn [fst snd] in *.
        cbn [resT fst snd]. split; [constructor; [split; assumption|assumption]|split; assumption].
    Qed.

    Lemma case_lit fw g ei m t en :
      match ei with ETrue | EFalse | ENumU _ _ | ENumS _ _ | ERange _ _ _ => True | _ => False end ->
      scf2_expr fw P g (Ex ei m t) = true -> wtx_expr P (Ex ei m t) = true -> exh_expr P (Ex ei m t) = true ->
      genv P g -> env_ok P (Sem.scopes en) g -> env_rng P (Sem.scopes en) g ->
      resT (QF g (e_ty (Ex ei m t))) (Sem.eval (S n) P en (Ex ei m t)).
    Proof.
      intros Hc Hsc Hx Hex Hg He Hr. start Hsc Hx Hex Hg He.
      destruct ei; try contradiction; cbn [resX]; intros _; (split; [|exact Hr]); cbn [fst].
      - apply ty_beq_eq in Hsc. now subst.
      - apply ty_beq_eq in Hsc. now subst.
      - destruct t as [|sg b| | | |]; try discriminate Hsc. cbn [in_rng]. now rewrite <- lit_fits_in_range.
      - destruct t as [|sg b| | | |]; try discriminate Hsc. cbn [in_rng]. now rewrite <- lit_fits_in_range.
      - andb_all. match goal with H : ty_beq t _ = true |- _ => apply ty_beq_eq in H; subst t end.
        rewrite in_rng_arr. apply forallb_forall. intros v Hv. apply in_map_iff in Hv as [k [<- Hk]].
        apply in_seq in Hk. cbn [in_rng]. unfold Sem.in_range.
        match goal with H : (hi <=? 2 ^ bits) = true |- _ => apply N.leb_le in H; rename H into Hhi end.
        apply N.leb_le in Hx.
        assert (Hz : (Z.of_N hi <= 2 ^ Z.of_N bits)%Z) by (change 2%Z with (Z.of_N 2); rewrite <- N2Z.inj_pow; lia).
        apply andb_true_intro. split; [apply Z.leb_le; lia|apply Z.ltb_lt; lia].
    Qed.

    Lemma case_id fw g x m t en :
      scf2_expr fw P g (Ex (EId x) m t) = true -> wtx_expr P (Ex (EId x) m t) = true ->
      exh_expr P (Ex (EId x) m t) = true ->
      genv P g -> env_ok P (Sem.scopes en) g -> env_rng P (Sem.scopes en) g ->
      resT (QF g (e_ty (Ex (EId x) m t))) (Sem.eval (S n) P en (Ex (EId x) m t)).
    Proof.
      intros Hsc Hx Hex Hg He Hr. start Hsc Hx Hex Hg He.
      destruct (tlookup g x) as [[tx mx]|] eqn:El; [|discriminate]. apply ty_beq_eq in Hsc. subst tx.
      destruct (lookup_rng P _ _ _ _ _ Hr El) as [v [Hv Ht]]. unfold Sem.lookup_var. rewrite Hv.
      cbn [resX]. intros _. split; [exact Ht|exact Hr].
    Qed.

    Lemma case_arrlit fw g es m t en :
      scf2_expr fw P g (Ex (EArrLit es) m t) = true -> wtx_expr P (Ex (EArrLit es) m t) = true ->
      exh_expr P (Ex (EArrLit es) m t) = true ->
      genv P g -> env_ok P (Sem.scopes en) g -> env_rng P (Sem.scopes en) g ->
      resT (QF g (e_ty (Ex (EArrLit es) m t))) (Sem.eval (S n) P en (Ex (EArrLit es) m t)).
    Proof.
      intros Hsc Hx Hex Hg He Hr. start Hsc Hx Hex Hg He.
      destruct t as [| |el k| | |]; try discriminate Hsc. andb_all.
      match goal with H : forallb (fun e1 => ty_beq (e_ty e1) el && _) es = true |- _ =>
        destruct (forallb_and _ _ _ H) as [Hty Hsc1] end.
      eapply resX_bind; [apply (ev_list_exh f g Hg es en); assumption|].
      intros [vs en1] (Hvs & He1 & Hr1). cbn [fst snd] in *. cbn [resX]. intros _. split; [|exact Hr1]. cbn [fst].
      rewrite in_rng_arr. eapply vals_rng1; eassumption.
    Qed.

    Lemma case_arrrep fw g e1 k m t en :
      scf2_expr fw P g (Ex (EArrRep e1 k) m t) = true -> wtx_expr P (Ex (EArrRep e1 k) m t) = true ->
      exh_expr P (Ex (EArrRep e1 k) m t) = true ->
      genv P g -> env_ok P (Sem.scopes en) g -> env_rng P (Sem.scopes en) g ->
      resT (QF g (e_ty (Ex (EArrRep e1 k) m t))) (Sem.eval (S n) P en (Ex (EArrRep e1 k) m t)).
    Proof.
      intros Hsc Hx Hex Hg He Hr. start Hsc Hx Hex Hg He.
      destruct t as [| |el k2| | |]; try discriminate Hsc. andb_all.
      use_sub f g e1 en v en1 Hv He1 Hrv Hr1. cbn [resX]. intros _. split; [|exact Hr1]. cbn [fst].
      rewrite in_rng_arr. apply forallb_forall. intros x Hxx. apply repeat_spec in Hxx. subst x.
      match goal with H : ty_beq (e_ty e1) el = true |- _ => apply ty_beq_eq in H; now rewrite <- H end.
    Qed.

    Lemma case_idx fw g a i m t en :
      scf2_expr fw P g (Ex (EIdx a i) m t) = true -> wtx_expr P (Ex (EIdx a i) m t) = true ->
      exh_expr P (Ex (EIdx a i) m t) = true ->
      genv P g -> env_ok P (Sem.scopes en) g -> env_rng P (Sem.scopes en) g ->
      resT (QF g (e_ty (Ex (EIdx a i) m t))) (Sem.eval (S n) P en (Ex (EIdx a i) m t)).
    Proof.
      intros Hsc Hx Hex Hg He Hr. start Hsc Hx Hex Hg He.
      destruct (e_ty a) as [| |el k| | |] eqn:Ea; try discriminate Hsc.
      destruct (e_ty i) as [|[|] b| | | |] eqn:Ei; try discriminate Hsc. andb_all.
      use_sub f g a en va en1 Hva He1 Hrva Hr1. use_sub f g i en1 vi en2 Hvi He2 Hrvi Hr2.
      rewrite Ea in Hva, Hrva. destruct (has_ty_arr_inv _ _ _ _ Hva) as [vs [-> [Hlen Hall]]].
      rewrite Ei in Hvi. destruct (has_ty_int_inv _ _ _ _ Hvi) as [z ->].
      destruct ((0 <=? z)%Z && (z <? Z.of_nat (length vs))%Z) eqn:Eb; [|exact I].
      destruct (nth_error vs (Z.to_nat z)) as [v|] eqn:En; [|cbn [resX]; nostuck].
      cbn [resX]. intros _. split; [|exact Hr2]. cbn [fst]. apply nth_error_In in En.
      rewrite in_rng_arr in Hrva. rewrite forallb_forall in Hrva.
      match goal with H : ty_beq el t = true |- _ => apply ty_beq_eq in H; subst t end. now apply Hrva.
    Qed.

    Lemma case_tuplit fw g es m t en :
      scf2_expr fw P g (Ex (ETupLit es) m t) = true -> wtx_expr P (Ex (ETupLit es) m t) = true ->
      exh_expr P (Ex (ETupLit es) m t) = true ->
      genv P g -> env_ok P (Sem.scopes en) g -> env_rng P (Sem.scopes en) g ->
      resT (QF g (e_ty (Ex (ETupLit es) m t))) (Sem.eval (S n) P en (Ex (ETupLit es) m t)).
    Proof.
      intros Hsc Hx Hex Hg He Hr. start Hsc Hx Hex Hg He. andb_all.
      eapply resX_bind; [apply (ev_list_exh f g Hg es en); assumption|].
      intros [vs en1] (Hvs & He1 & Hr1). cbn [fst snd] in *. cbn [resX]. intros _. split; [|exact Hr1]. cbn [fst].
      match goal with H : ty_beq t _ = true |- _ => apply ty_beq_eq in H; subst t end.
      rewrite in_rng_tup. now apply vals_rng.
    Qed.

    Lemma case_tupacc fw g e1 i m t en :
      scf2_expr fw P g (Ex (ETupAcc e1 i) m t) = true -> wtx_expr P (Ex (ETupAcc e1 i) m t) = true ->
      exh_expr P (Ex (ETupAcc e1 i) m t) = true ->
      genv P g -> env_ok P (Sem.scopes en) g -> env_rng P (Sem.scopes en) g ->
      resT (QF g (e_ty (Ex (ETupAcc e1 i) m t))) (Sem.eval (S n) P en (Ex (ETupAcc e1 i) m t)).
    Proof.
      intros Hsc Hx Hex Hg He Hr. start Hsc Hx Hex Hg He.
      destruct (e_ty e1) as [| | |ts| |] eqn:E1; try discriminate Hsc.
      destruct (nthN ts i) as [ti|] eqn:Ei; [|discriminate Hsc]. andb_all.
      use_sub f g e1 en v en1 Hv He1 Hrv Hr1. rewrite E1 in Hv, Hrv.
      destruct (has_ty_tup_inv _ _ _ Hv) as [vs [-> Hvs]].
      rewrite in_rng_tup in Hrv. apply forallb2_Forall2 in Hrv.
      destruct (Forall2_nthN _ _ _ _ _ Hrv Ei) as [x [Hxn Hxr]]. rewrite Hxn.
      cbn [resX]. intros _. split; [|exact Hr1]. cbn [fst].
      match goal with H : ty_beq ti t = true |- _ => apply ty_beq_eq in H; subst t end. exact Hxr.
    Qed.

    Lemma case_fld fw g e1 fld m t en :
      scf2_expr fw P g (Ex (EFld e1 fld) m t) = true -> wtx_expr P (Ex (EFld e1 fld) m t) = true ->
      exh_expr P (Ex (EFld e1 fld) m t) = true ->
      genv P g -> env_ok P (Sem.scopes en) g -> env_rng P (Sem.scopes en) g ->
      resT (QF g (e_ty (Ex (EFld e1 fld) m t))) (Sem.eval (S n) P en (Ex (EFld e1 fld) m t)).
    Proof.
      intros Hsc Hx Hex Hg He Hr. start Hsc Hx Hex Hg He.
      destruct (e_ty e1) as [| | | |name|] eqn:E1; try discriminate Hsc.
      destruct (assocN name (p_structs P)) as [def|] eqn:Ed; [|discriminate Hsc].
      destruct (Sem.index_of fld (map fst def) 0) as [k|] eqn:Ek; [|discriminate Hsc].
      destruct (nthN (map snd def) k) as [tk|] eqn:Et; [|discriminate Hsc]. andb_all.
      use_sub f g e1 en v en1 Hv He1 Hrv Hr1. rewrite E1 in Hv, Hrv.
      destruct (has_ty_struct_inv _ _ _ Hv) as [vs [def' [-> [Ed' Hvs]]]].
      rewrite in_rng_struct, Ed in Hrv. apply forallb2_Forall2 in Hrv.
      destruct (Forall2_nthN _ _ _ _ _ Hrv Et) as [x [Hxn Hxr]]. rewrite Hxn.
      cbn [resX]. intros _. split; [|exact Hr1]. cbn [fst].
      match goal with H : ty_beq tk t = true |- _ => apply ty_beq_eq in H; subst t end. exact Hxr.
    Qed.

    Lemma case_structlit fw g name fields m t en :
      scf2_expr fw P g (Ex (EStructLit name fields) m t) = true -> wtx_expr P (Ex (EStructLit name fields) m t) = true ->
      exh_expr P (Ex (EStructLit name fields) m t) = true ->
      genv P g -> env_ok P (Sem.scopes en) g -> env_rng P (Sem.scopes en) g ->
      resT (QF g (e_ty (Ex (EStructLit name fields) m t))) (Sem.eval (S n) P en (Ex (EStructLit name fields) m t)).
    Proof.
      intros Hsc Hx Hex Hg He Hr. start Hsc Hx Hex Hg He.
      destruct (assocN name (p_structs P)) as [def|] eqn:Ed; [|discriminate Hsc].
      destruct (struct_exprs fields def) as [es|] eqn:Es; [|andb_all; discriminate]. andb_all.
      rewrite (ev_fields_list _ fields def es en Es).
      assert (Hin : forall e, In e es -> exists k, In (k, e) fields) by (apply (struct_exprs_in fields def es Es)).
      assert (Hx' : forallb (wtx_expr P) es = true).
      { apply forallb_forall. intros e He'. destruct (Hin e He') as [k Hk].
        match goal with H : forallb (fun fe => wtx_expr P (snd fe)) fields = true |- _ =>
          rewrite forallb_forall in H; exact (H _ Hk) end. }
      assert (Hex' : forallb (exh_expr P) es = true).
      { apply forallb_forall. intros e He'. destruct (Hin e He') as [k Hk].
        rewrite forallb_forall in Hex. exact (Hex _ Hk). }
      eapply resX_bind; [apply (ev_list_exh f g Hg es en); assumption|].
      intros [vs en1] (Hvs & He1 & Hr1). cbn [fst snd] in *. cbn [resX]. intros _. split; [|exact Hr1]. cbn [fst].
      match goal with H : ty_beq t _ = true |- _ => apply ty_beq_eq in H; subst t end.
      match goal with H : ty_beq (TTup _) (TTup _) = true |- _ => apply ty_beq_eq in H; injection H as Hts end.
      rewrite in_rng_struct, Ed, <- Hts. now apply vals_rng.
    Qed.

    Lemma case_enumlit fw g ename variant args m t en :
      scf2_expr fw P g (Ex (EEnumLit ename variant args) m t) = true ->
      wtx_expr P (Ex (EEnumLit ename variant args) m t) = true ->
      exh_expr P (Ex (EEnumLit ename variant args) m t) = true ->
      genv P g -> env_ok P (Sem.scopes en) g -> env_rng P (Sem.scopes en) g ->
      resT (QF g (e_ty (Ex (EEnumLit ename variant args) m t)))
           (Sem.eval (S n) P en (Ex (EEnumLit ename variant args) m t)).
    Proof.
      intros Hsc Hx Hex Hg He Hr. start Hsc Hx Hex Hg He.
      destruct (assocN ename (p_enums P)) as [variants|] eqn:Ee; [|discriminate Hsc].
      destruct (nthN variants variant) as [ts|] eqn:Ev; [|discriminate Hsc]. andb_all.
      eapply resX_bind; [apply (ev_list_exh f g Hg args en); assumption|].
      intros [vs en1] (Hvs & He1 & Hr1). cbn [fst snd] in *. cbn [resX]. intros _. split; [|exact Hr1]. cbn [fst].
      match goal with H : ty_beq t _ = true |- _ => apply ty_beq_eq in H; subst t end.
      match goal with H : ty_beq (TTup _) (TTup _) = true |- _ => apply ty_beq_eq in H; injection H as Hts end.
      rewrite in_rng_enum, Ee, Ev, <- Hts. now apply vals_rng.
    Qed.

    Lemma resX_of_T {A} (Q1 Q2 : A -> Prop) o : resT (fun a => Q1 a /\ Q2 a) o -> resX Q1 Q2 o.
    Proof. destruct o; cbn [resT resX]; tauto. Qed.

    (* a body guarded by a matched pattern, run in a scope of its own *)
    Lemma bound_envs g p ts bs v vbs en :
      genv P g -> env_ok P (Sem.scopes en) g -> env_rng P (Sem.scopes en) g ->
      gpat_ok P p ts bs -> p_ty p = ts -> wt_pat P p = Some bs -> ty_fits P ts -> VOK v ts ->
      Sem.pmatch P p v = Some vbs ->
      genv P (tbind_all ([] :: g) bs false) /\ tl (tbind_all ([] :: g) bs false) = g /\
      env_ok P (Sem.scopes (Sem.bind_all (Sem.push_scope en) vbs)) (tbind_all ([] :: g) bs false) /\
      env_rng P (Sem.scopes (Sem.bind_all (Sem.push_scope en) vbs)) (tbind_all ([] :: g) bs false).
    Proof.
      intros Hg He Hr Hp Hpt Hwp Hfit [Hv Hrv] Hm.
      destruct (genv_tbind_all P bs false ([] :: g) (genv_push _ _ Hg)) as [Hg' Htl]. cbn [tl] in Htl.
      split; [exact Hg'|]. split; [exact Htl|]. split.
      - apply bind_all_ok; [|now apply push_ok]. subst ts.
        exact (proj1 (pmatch_sound P p v bs Hwp Hv) vbs Hm).
      - apply bind_all_rng; [|now apply push_rng]. exact (pmatch_rng P p ts bs v vbs Hp Hfit Hv Hrv Hm).
    Qed.

    Lemma ev_arms_exh f g v (ts t : ty) en :
      genv P g -> env_ok P (Sem.scopes en) g -> env_rng P (Sem.scopes en) g -> VOK v ts -> ty_fits P ts ->
      forall arms,
      Forall (fun arm : pattern * expr => exists bs, gpat_b P false (fst arm) ts = Some bs /\
                scf2_expr f P (tbind_all ([] :: g) bs false) (snd arm) = true /\ e_ty (snd arm) = t /\
                wtx_pat P (fst arm) = true /\ wtx_expr P (snd arm) = true /\ exh_expr P (snd arm) = true) arms ->
      (exists arm, In arm arms /\ Sem.pmatch P (fst arm) v <> None) ->
      resT (QF g t) (ev_arms P (Sem.eval n P) v en arms).
    Proof.
      intros Hg He Hr Hv Hfit arms. induction arms as [|[p body] r IH]; intros Harms (arm & Hin & Hm); [contradiction|].
      inversion Harms as [|a l (bs & Hgp & Hsc & Ht & Hxp & Hxb & Hexb) Hrest]; subst. cbn [fst snd] in *.
      cbn [ev_arms]. destruct (Sem.pmatch P p v) as [vbs|] eqn:Ep.
      - destruct (bound_envs g p ts bs v vbs en Hg He Hr (gpat_b_sound P p ts bs Hgp) (gpat_b_ty P _ _ _ _ Hgp)
                    (gpat_b_wt P false p ts bs Hgp Hxp) Hfit Hv Ep) as (Hg' & Htl & He' & Hr').
        eapply resT_bind; [apply (IHe f _ body _ Hsc Hxb Hexb Hg' He' Hr')|].
        intros [res en1] [[Hres He1] [Hrres Hr1]]. cbn [fst snd] in *. cbn [resT].
        split; split; cbn [fst snd Sem.pop_scope Sem.scopes]; try assumption.
        + rewrite <- Htl. now apply pop_ok.
        + rewrite <- Htl. now apply pop_rng.
      - apply IH; [exact Hrest|]. destruct Hin as [<-|Hin]; [cbn [fst] in Hm; congruence|]. eauto.
    Qed.

    Lemma case_match fw g s arms m t en :
      scf2_expr fw P g (Ex (EMatch s arms) m t) = true -> wtx_expr P (Ex (EMatch s arms) m t) = true ->
      exh_expr P (Ex (EMatch s arms) m t) = true ->
      genv P g -> env_ok P (Sem.scopes en) g -> env_rng P (Sem.scopes en) g ->
      resT (QF g (e_ty (Ex (EMatch s arms) m t))) (Sem.eval (S n) P en (Ex (EMatch s arms) m t)).
    Proof.
      intros Hsc Hx Hex Hg He Hr. start Hsc Hx Hex Hg He. andb_all.
      use_sub f g s en v en1 Hv He1 Hrv Hr1.
      apply resX_of_T.
      match goal with H : exh_pats P (e_ty s) (map fst arms) = true |- _ => rename H into Hpats end.
      apply (ev_arms_exh f g v (e_ty s) t en1 Hg He1 Hr1 (conj Hv Hrv) (exh_pats_fits P _ _ Hpats)).
      - apply Forall_forall. intros arm Hin.
        repeat match goal with H : forallb _ arms = true |- _ => rewrite forallb_forall in H; specialize (H arm Hin) end.
        destruct (gpat_b P false (fst arm) (e_ty s)) as [bs|]; [|discriminate]. andb_all. exists bs.
        repeat split; try assumption. now apply ty_beq_eq.
      - destruct (exh_pats_sound_ty P (e_ty s) (map fst arms) v Hpats Hv Hrv) as (p & Hin & Hm).
        apply in_map_iff in Hin as (arm & <- & Hin). eauto.
    Qed.

    Lemma case_neg fw g e1 m t en :
      scf2_expr fw P g (Ex (ENeg e1) m t) = true -> wtx_expr P (Ex (ENeg e1) m t) = true ->
      exh_expr P (Ex (ENeg e1) m t) = true ->
      genv P g -> env_ok P (Sem.scopes en) g -> env_rng P (Sem.scopes en) g ->
      resT (QF g (e_ty (Ex (ENeg e1) m t))) (Sem.eval (S n) P en (Ex (ENeg e1) m t)).
    Proof.
      intros Hsc Hx Hex Hg He Hr. start Hsc Hx Hex Hg He.
      destruct t as [|[|] b| | | |]; try discriminate Hsc. andb_all.
      use_sub f g e1 en v en1 Hv He1 Hrv Hr1.
      match goal with H : ty_beq (e_ty e1) _ = true |- _ => apply ty_beq_eq in H; rewrite H in Hv end.
      destruct (has_ty_int_inv _ _ _ _ Hv) as [z ->]. cbn [Sem.int_ty]. unfold Sem.checked.
      destruct (Sem.in_range true b (- z)) eqn:Er; cbn [Sem.obind resX]; [|exact I].
      intros _. split; [exact Er|exact Hr1].
    Qed.

    Lemma case_not fw g e1 m t en :
      scf2_expr fw P g (Ex (ENot e1) m t) = true -> wtx_expr P (Ex (ENot e1) m t) = true ->
      exh_expr P (Ex (ENot e1) m t) = true ->
      genv P g -> env_ok P (Sem.scopes en) g -> env_rng P (Sem.scopes en) g ->
      resT (QF g (e_ty (Ex (ENot e1) m t))) (Sem.eval (S n) P en (Ex (ENot e1) m t)).
    Proof.
      intros Hsc Hx Hex Hg He Hr. start Hsc Hx Hex Hg He. andb_all.
      use_sub f g e1 en v en1 Hv He1 Hrv Hr1.
      match goal with H : ty_beq (e_ty e1) _ = true |- _ => apply ty_beq_eq in H; rewrite H in Hv end.
      destruct t as [|sg b| | | |]; try discriminate.
      - destruct (has_ty_bool_inv _ _ Hv) as [b ->]. cbn [resX]. intros _. split; [reflexivity|exact Hr1].
      - destruct (has_ty_int_inv _ _ _ _ Hv) as [z ->]. cbn [resX]. intros _. split; [|exact Hr1]. cbn [fst in_rng].
        apply wrap_in_range. match goal with H : scalar_ty _ = true |- _ => cbn [scalar_ty] in H; apply ok_width_pos in H end. lia.
    Qed.

    Lemma val_ok_in_rng t v : val_ok t v -> in_rng P v t = true.
    Proof. destruct t, v; cbn [val_ok in_rng]; try contradiction; auto. Qed.

    Lemma VOK_int v sg b : VOK v (TInt sg b) -> exists z, v = Sem.VInt z /\ Sem.in_range sg b z = true.
    Proof. intros [H1 H2]. destruct (has_ty_int_inv _ _ _ _ H1) as [z ->]. eauto. Qed.
    Lemma VOK_bool v : VOK v TBool -> exists b, v = Sem.VBool b.
    Proof. intros [H1 _]. exact (has_ty_bool_inv _ _ H1). Qed.

    Lemma binop_rng o x y m t vx vy len :
      scf2_op o x y m t = true -> o <> OLAnd -> o <> OLOr -> VOK vx (e_ty x) -> VOK vy (e_ty y) ->
      match Sem.eval_binop o m (match o with OShl | OShr => e_ty x | _ => t end) (e_ty x) vx vy len with
      | Sem.Done (v, _) => in_rng P v t = true
      | Sem.Stuck _ => False
      | _ => True
      end.
    Proof.
      intros Hop Hn1 Hn2 Hvx Hvy. unfold scf2_op in Hop. apply orb_prop in Hop as [Hop|Hop].
      - assert (Hag : forall tx, e_ty x = tx -> e_ty y = tx ->
                  (match o with OShl | OShr => False | _ => True end) ->
                  (forall vx vy, VOK vx tx -> VOK vy tx -> binop_agrees o m t tx vx vy len) ->
                  match Sem.eval_binop o m (match o with OShl | OShr => e_ty x | _ => t end) (e_ty x) vx vy len with
                  | Sem.Done (v, _) => in_rng P v t = true
                  | Sem.Stuck _ => False
                  | _ => True
                  end).
        { intros tx Ex Ey Hns Hag. rewrite Ex in Hvx |- *. rewrite Ey in Hvy. specialize (Hag vx vy Hvx Hvy).
          unfold binop_agrees in Hag.
          replace (match o with OShl | OShr => tx | _ => t end) with t by (destruct o; try reflexivity; contradiction).
          destruct (Sem.eval_binop o m t tx vx vy len) as [[v l]| | |]; try exact I; try contradiction.
          apply val_ok_in_rng. exact (proj1 Hag). }
        assert (Hint : forall sg b (ot : ty), ok_width b = true ->
                  (op_arith o = true /\ ot = TInt sg b) \/ (op_cmp o || op_eq o = true /\ ot = TBool) ->
                  forall vx vy, VOK vx (TInt sg b) -> VOK vy (TInt sg b) -> binop_agrees o m ot (TInt sg b) vx vy len).
        { intros sg b ot Hb Hot ux uy Hux Huy.
          destruct (VOK_int _ _ _ Hux) as (a & -> & Ha). destruct (VOK_int _ _ _ Huy) as (c & -> & Hc).
          destruct sg; [now apply binop_signed_agrees|now apply binop_unsigned_agrees]. }
        assert (Hbool : op_bit o || op_eq o = true ->
                  forall vx vy, VOK vx TBool -> VOK vy TBool -> binop_agrees o m TBool TBool vx vy len).
        { intros Ho ux uy Hux Huy. destruct (VOK_bool _ Hux) as [p ->]. destruct (VOK_bool _ Huy) as [q ->].
          now apply binop_bool_agrees. }
        destruct o; cbn [sc_op] in Hop; try congruence.
        all: try (destruct t as [|sg b| | | |]; try discriminate Hop; andb_all;
                  repeat match goal with H : sty_eqb _ _ = true |- _ => apply sty_eqb_eq in H end;
                  first [ apply (Hag (TInt sg b)); [assumption|assumption|exact I|];
                          apply Hint; [assumption|left; split; reflexivity]
                        | apply (Hag TBool); [assumption|assumption|exact I|]; apply Hbool; reflexivity ]).
        + (* > *) andb_all. match goal with H : sty_eqb t TBool = true |- _ => apply sty_eqb_eq in H; subst t end.
          destruct (e_ty x) as [|sg b| | | |] eqn:Ex; try discriminate. andb_all.
          match goal with H : sty_eqb (e_ty y) _ = true |- _ => apply sty_eqb_eq in H; rename H into Ey end.
          apply (Hag (TInt sg b)); [reflexivity|assumption|exact I|].
          apply Hint; [assumption|right; split; reflexivity].
        + (* < *) andb_all. match goal with H : sty_eqb t TBool = true |- _ => apply sty_eqb_eq in H; subst t end.
          destruct (e_ty x) as [|sg b| | | |] eqn:Ex; try discriminate. andb_all.
          match goal with H : sty_eqb (e_ty y) _ = true |- _ => apply sty_eqb_eq in H; rename H into Ey end.
          apply (Hag (TInt sg b)); [reflexivity|assumption|exact I|].
          apply Hint; [assumption|right; split; reflexivity].
        + (* == *) andb_all. match goal with H : sty_eqb t TBool = true |- _ => apply sty_eqb_eq in H; subst t end. reflexivity.
        + (* != *) andb_all. match goal with H : sty_eqb t TBool = true |- _ => apply sty_eqb_eq in H; subst t end. reflexivity.
        + (* << *) destruct t as [|sg b| | | |]; try discriminate Hop. andb_all.
          repeat match goal with H : sty_eqb _ _ = true |- _ => apply sty_eqb_eq in H end.
          match goal with H1 : e_ty x = _, H2 : e_ty y = _ |- _ => rewrite H1 in Hvx |- *; rewrite H2 in Hvy end.
          destruct (VOK_int _ _ _ Hvx) as (a & -> & Ha). destruct (VOK_int _ _ _ Hvy) as (s & -> & Hs).
          match goal with H : ok_width b = true |- _ => pose proof (shift_agrees true m sg b a s len H Ha Hs) as HA end.
          cbv zeta in HA. cbv iota in HA.
          destruct (Sem.eval_binop OShl m (TInt sg b) (TInt sg b) (Sem.VInt a) (Sem.VInt s) len) as [[v l]| | |];
            try exact I; try contradiction. apply val_ok_in_rng. exact (proj1 HA).
        + (* >> *) destruct t as [|sg b| | | |]; try discriminate Hop. andb_all.
          repeat match goal with H : sty_eqb _ _ = true |- _ => apply sty_eqb_eq in H end.
          match goal with H1 : e_ty x = _, H2 : e_ty y = _ |- _ => rewrite H1 in Hvx |- *; rewrite H2 in Hvy end.
          destruct (VOK_int _ _ _ Hvx) as (a & -> & Ha). destruct (VOK_int _ _ _ Hvy) as (s & -> & Hs).
          match goal with H : ok_width b = true |- _ => pose proof (shift_agrees false m sg b a s len H Ha Hs) as HA end.
          cbv zeta in HA. cbv iota in HA.
          destruct (Sem.eval_binop OShr m (TInt sg b) (TInt sg b) (Sem.VInt a) (Sem.VInt s) len) as [[v l]| | |];
            try exact I; try contradiction. apply val_ok_in_rng. exact (proj1 HA).
      - (* a product with a literal operand: an ordinary checked product in Sem.v *)
        destruct o; try discriminate Hop.
        + destruct t as [|sg b| | | |]; try discriminate Hop. andb_all.
          repeat match goal with H : sty_eqb _ _ = true |- _ => apply sty_eqb_eq in H end.
          match goal with H1 : e_ty x = _, H2 : e_ty y = _ |- _ => rewrite H1 in Hvx |- *; rewrite H2 in Hvy end.
          destruct (VOK_int _ _ _ Hvx) as (a & -> & Ha). destruct (VOK_int _ _ _ Hvy) as (c & -> & Hc).
          cbn [Sem.eval_binop Sem.int_ty]. unfold Sem.checked.
          destruct (Sem.in_range sg b (a * c)) eqn:Er; cbn [Sem.obind]; [exact Er|exact I].
        + (* == on values of any one type: a Boolean *) destruct t; try discriminate Hop. reflexivity.
        + (* != *) destruct t; try discriminate Hop. reflexivity.
    Qed.

    Lemma case_op fw g o x y m t en :
      scf2_expr fw P g (Ex (EOp o x y) m t) = true -> wtx_expr P (Ex (EOp o x y) m t) = true ->
      exh_expr P (Ex (EOp o x y) m t) = true ->
      genv P g -> env_ok P (Sem.scopes en) g -> env_rng P (Sem.scopes en) g ->
      resT (QF g (e_ty (Ex (EOp o x y) m t))) (Sem.eval (S n) P en (Ex (EOp o x y) m t)).
    Proof.
      intros Hsc Hx Hex Hg He Hr. start Hsc Hx Hex Hg He. andb_all.
      match goal with H : scf2_op o x y m t = true |- _ => rename H into Hop end.
      destruct (binop_eq_dec_land o) as [[->| ->]|[Hn1 Hn2]].
      - (* && *) unfold scf2_op in Hop. cbn [sc_op] in Hop. rewrite orb_false_r in Hop. andb_all.
        repeat match goal with H : sty_eqb _ _ = true |- _ => apply sty_eqb_eq in H end. subst t.
        use_sub f g x en vx en1 Hvx He1 Hrvx Hr1.
        match goal with H : e_ty x = TBool |- _ => rewrite H in Hvx end.
        destruct (has_ty_bool_inv _ _ Hvx) as [[|] ->].
        + apply resX_of_T. match goal with H : e_ty y = TBool |- _ => rewrite <- H end. apply (IHe f g y en1); assumption.
        + cbn [resX]. intros _. split; [reflexivity|exact Hr1].
      - (* || *) unfold scf2_op in Hop. cbn [sc_op] in Hop. rewrite orb_false_r in Hop. andb_all.
        repeat match goal with H : sty_eqb _ _ = true |- _ => apply sty_eqb_eq in H end. subst t.
        use_sub f g x en vx en1 Hvx He1 Hrvx Hr1.
        match goal with H : e_ty x = TBool |- _ => rewrite H in Hvx end.
        destruct (has_ty_bool_inv _ _ Hvx) as [[|] ->].
        + cbn [resX]. intros _. split; [reflexivity|exact Hr1].
        + apply resX_of_T. match goal with H : e_ty y = TBool |- _ => rewrite <- H end. apply (IHe f g y en1); assumption.
      - assert (Heq : forall R : Sem.outcome (Sem.value * Sem.env) -> Prop,
                  R (Sem.obind (Sem.eval n P en x) (fun '(vx, en1) =>
                     Sem.obind (Sem.eval n P en1 y) (fun '(vy, en2) =>
                     Sem.obind (Sem.eval_binop o m (match o with OShl | OShr => e_ty x | _ => t end) (e_ty x) vx vy (Sem.lenient en2))
                       (fun '(v, len) => Sem.Done (v, Sem.mkEnv (Sem.scopes en2) len))))) ->
                  R (match o with
                     | OLAnd => Sem.obind (Sem.eval n P en x) (fun '(vx, en1) =>
                         match vx with Sem.VBool false => Sem.Done (Sem.VBool false, en1) | Sem.VBool true => Sem.eval n P en1 y | _ => Sem.Stuck 44 end)
                     | OLOr => Sem.obind (Sem.eval n P en x) (fun '(vx, en1) =>
                         match vx with Sem.VBool true => Sem.Done (Sem.VBool true, en1) | Sem.VBool false => Sem.eval n P en1 y | _ => Sem.Stuck 45 end)
                     | _ => Sem.obind (Sem.eval n P en x) (fun '(vx, en1) =>
                         Sem.obind (Sem.eval n P en1 y) (fun '(vy, en2) =>
                         Sem.obind (Sem.eval_binop o m (match o with OShl | OShr => e_ty x | _ => t end) (e_ty x) vx vy (Sem.lenient en2))
                           (fun '(v, len) => Sem.Done (v, Sem.mkEnv (Sem.scopes en2) len))))
                     end)).
        { intros R HR. destruct o; try congruence; exact HR. }
        apply Heq. clear Heq.
        use_sub f g x en vx en1 Hvx He1 Hrvx Hr1. use_sub f g y en1 vy en2 Hvy He2 Hrvy Hr2.
        pose proof (binop_rng o x y m t vx vy (Sem.lenient en2) Hop Hn1 Hn2 (conj Hvx Hrvx) (conj Hvy Hrvy)) as HB.
        destruct (Sem.eval_binop o m _ (e_ty x) vx vy (Sem.lenient en2)) as [[v l]| | |]; cbn [Sem.obind resX];
          try exact I; [|contradiction].
        intros _. split; [exact HB|exact Hr2].
    Qed.

    Lemma case_block fw g b m t en :
      scf2_expr fw P g (Ex (EBlock b) m t) = true -> wtx_expr P (Ex (EBlock b) m t) = true ->
      exh_expr P (Ex (EBlock b) m t) = true ->
      genv P g -> env_ok P (Sem.scopes en) g -> env_rng P (Sem.scopes en) g ->
      resT (QF g (e_ty (Ex (EBlock b) m t))) (Sem.eval (S n) P en (Ex (EBlock b) m t)).
    Proof.
      intros Hsc Hx Hex Hg He Hr. start Hsc Hx Hex Hg He.
      destruct (scf2_block f P ([] :: g) b) as [tb|] eqn:Eb; [|discriminate Hsc]. apply ty_beq_eq in Hsc. subst tb.
      eapply resX_bind; [apply (IHb f ([] :: g) b (Sem.push_scope en) t Eb Hx Hex (genv_push _ _ Hg) (push_ok _ _ _ He) (push_rng _ _ _ Hr))|].
      intros [v en1] [[Hv He1] [Hrv Hr1]]. cbn [fst snd tl] in *. cbn [resX]. intros _.
      split; [exact Hrv|exact Hr1].
    Qed.

    Lemma forallb2_and {A B} (a b : A -> B -> bool) : forall l l',
      forallb2 (fun x y => a x y && b x y) l l' = true -> forallb2 a l l' = true /\ forallb2 b l l' = true.
    Proof.
      induction l as [|x l IH]; intros [|y l']; cbn [forallb2]; try discriminate; [auto|]. intro H.
      apply andb_prop in H as [H1 H2]. apply andb_prop in H1 as [Ha Hb]. destruct (IH _ H2) as [I1 I2].
      now rewrite Ha, Hb, I1, I2.
    Qed.

    Lemma forallb2_r {A B} (b : A -> bool) : forall (l : list A) (l' : list B),
      forallb2 (fun x _ => b x) l l' = true -> forallb b l = true.
    Proof.
      induction l as [|x l IH]; intros [|y l']; cbn [forallb2 forallb]; try discriminate; [auto|]. intro H.
      apply andb_prop in H as [H1 H2]. now rewrite H1, (IH _ H2).
    Qed.

    Lemma args_VOK vs : forall args (params : list (N * ty)),
      Forall2 (fun v e => VOK v (e_ty e)) vs args ->
      forallb2 (fun (a : expr) (p : N * ty) => ty_beq (e_ty a) (snd p)) args params = true ->
      Forall2 VOK vs (map snd params).
    Proof.
      induction vs as [|v vs IH]; intros args params H Hb; inversion H as [|v' e vs' es Hv Hr]; subst;
        destruct params as [|[x t] pr]; cbn [forallb2] in Hb; try discriminate; cbn [map]; constructor.
      - apply andb_prop in Hb as [Hb _]. apply ty_beq_eq in Hb. cbn [snd] in *. now rewrite <- Hb.
      - apply andb_prop in Hb as [_ Hb]. now apply (IH es).
    Qed.

    Lemma combine_binds (params : list (N * ty)) : forall vs, Forall2 VOK vs (map snd params) ->
      binds_ok P (combine (map fst params) vs) params /\ binds_rng P (combine (map fst params) vs) params.
    Proof.
      induction params as [|[x t] r IH]; intros vs H; inversion H; subst; cbn [map combine fst snd].
      - split; constructor.
      - match goal with H1 : VOK _ _, H2 : Forall2 VOK _ _ |- _ => destruct H1 as [Ht Hr]; destruct (IH _ H2) as [I1 I2] end.
        split; (constructor; [split; [reflexivity|assumption]|assumption]).
    Qed.

    Lemma gscope_consts : gscope P = consts_scope P.
    Proof. pose proof (consts_tenv_one P) as H1. rewrite (consts_tenv_scope P) in H1. now injection H1. Qed.

    Lemma fn_checked d : In d (p_fns P) ->
      scf2_block fwp P ([] :: tbind_all ([] :: consts_tenv P) (fn_params d) true) (fn_body d) = Some (fn_ret d) /\
      forallb (wtx_stmt P) (fn_body d) = true /\ forallb (exh_stmt P) (fn_body d) = true.
    Proof.
      intro Hin. split; [|split].
      - unfold scf2_fns in Hscf. rewrite forallb_forall in Hscf. specialize (Hscf d Hin). unfold scf2_fn in Hscf.
        rewrite consts_tenv_scope.
        destruct (scf2_block fwp P _ (fn_body d)) as [tb|]; [|discriminate Hscf]. apply ty_beq_eq in Hscf. now subst tb.
      - unfold wtx_fns in Hwx. rewrite forallb_forall in Hwx. exact (Hwx d Hin).
      - unfold exh_fns in Hexh. rewrite forallb_forall in Hexh. exact (Hexh d Hin).
    Qed.

    Lemma case_call fw g fn args m t en :
      scf2_expr fw P g (Ex (ECall fn args) m t) = true -> wtx_expr P (Ex (ECall fn args) m t) = true ->
      exh_expr P (Ex (ECall fn args) m t) = true ->
      genv P g -> env_ok P (Sem.scopes en) g -> env_rng P (Sem.scopes en) g ->
      resT (QF g (e_ty (Ex (ECall fn args) m t))) (Sem.eval (S n) P en (Ex (ECall fn args) m t)).
    Proof.
      intros Hsc Hx Hex Hg He Hr. start Hsc Hx Hex Hg He.
      destruct (find_fn P fn) as [d|] eqn:Efn; [|discriminate Hsc]. andb_all.
      match goal with H : forallb2 _ args (fn_params d) = true |- _ => destruct (forallb2_and _ _ _ _ H) as [Hty Hsc1] end.
      apply forallb2_r in Hsc1.
      eapply resX_bind; [apply (ev_list_exh f g Hg args en); assumption|].
      intros [vs en1] (Hvs & He1 & Hr1). cbn [fst snd] in *.
      pose proof (args_VOK vs args (fn_params d) Hvs Hty) as Hvt.
      assert (Hl : length vs = length (fn_params d))
        by (rewrite (Forall2_length_eq _ _ _ Hvt); apply map_length).
      rewrite Hl, Nat.eqb_refl. cbn [negb].
      assert (Hin : In d (p_fns P)) by (unfold find_fn in Efn; apply find_some in Efn; tauto).
      destruct (fn_checked d Hin) as (Eb & Hxb & Hexb).
      assert (Hg0 : genv P ([] :: consts_tenv P)).
      { rewrite consts_tenv_one. exists [], []. reflexivity. }
      destruct (genv_tbind_all P (fn_params d) true _ Hg0) as [Hg1 _].
      assert (He0 : env_ok P (Sem.scopes (Sem.mkEnv [[]; last (Sem.scopes en1) []] (Sem.lenient en1))) ([] :: consts_tenv P)).
      { cbn [Sem.scopes]. rewrite consts_tenv_one. constructor; [constructor|]. constructor; [|constructor].
        rewrite <- (genv_last P g Hg). now apply env_ok_last. }
      assert (Hr0 : env_rng P (Sem.scopes (Sem.mkEnv [[]; last (Sem.scopes en1) []] (Sem.lenient en1))) ([] :: consts_tenv P)).
      { cbn [Sem.scopes]. rewrite consts_tenv_one. constructor; [constructor|]. constructor; [|constructor].
        rewrite <- (genv_last P g Hg). now apply env_rng_last. }
      destruct (combine_binds (fn_params d) vs Hvt) as [Hbo Hbr].
      pose proof (bind_all_ok P _ _ true Hbo _ _ He0) as He2.
      pose proof (bind_all_rng P _ _ true Hbr _ _ Hr0) as Hr2.
      eapply resX_bind; [apply (IHb fwp _ (fn_body d) _ (fn_ret d) Eb Hxb Hexb (genv_push _ _ Hg1) (push_ok _ _ _ He2) (push_rng _ _ _ Hr2))|].
      intros [v en2] [[Hv _] [Hrv _]]. cbn [fst snd] in *. cbn [resX]. intros _.
      match goal with H : ty_beq (fn_ret d) t = true |- _ => apply ty_beq_eq in H; subst t end.
      split; [exact Hrv|exact Hr1].
    Qed.

    Lemma case_if fw g c a b m t en :
      scf2_expr fw P g (Ex (EIf c a b) m t) = true -> wtx_expr P (Ex (EIf c a b) m t) = true ->
      exh_expr P (Ex (EIf c a b) m t) = true ->
      genv P g -> env_ok P (Sem.scopes en) g -> env_rng P (Sem.scopes en) g ->
      resT (QF g (e_ty (Ex (EIf c a b) m t))) (Sem.eval (S n) P en (Ex (EIf c a b) m t)).
    Proof.
      intros Hsc Hx Hex Hg He Hr. start Hsc Hx Hex Hg He. andb_all.
      repeat match goal with H : ty_beq _ _ = true |- _ => apply ty_beq_eq in H end.
      use_sub f g c en vc en1 Hvc He1 Hrvc Hr1.
      match goal with H : e_ty c = TBool |- _ => rewrite H in Hvc end.
      destruct (has_ty_bool_inv _ _ Hvc) as [[|] ->]; apply resX_of_T.
      - match goal with H : e_ty a = t |- _ => rewrite <- H end. apply (IHe f g a en1); assumption.
      - match goal with H : e_ty b = t |- _ => rewrite <- H end. apply (IHe f g b en1); assumption.
    Qed.

    Lemma in_range_01 sg b (p : bool) : ok_width b = true -> Sem.in_range sg b (if p then 1 else 0) = true.
    Proof. intro H. destruct (ok_width_cases b H) as [-> | [-> | [-> | ->]]]; destruct sg, p; reflexivity. Qed.

    Lemma case_cast fw g to e1 m t en :
      scf2_expr fw P g (Ex (ECast to e1) m t) = true -> wtx_expr P (Ex (ECast to e1) m t) = true ->
      exh_expr P (Ex (ECast to e1) m t) = true ->
      genv P g -> env_ok P (Sem.scopes en) g -> env_rng P (Sem.scopes en) g ->
      resT (QF g (e_ty (Ex (ECast to e1) m t))) (Sem.eval (S n) P en (Ex (ECast to e1) m t)).
    Proof.
      intros Hsc Hx Hex Hg He Hr. start Hsc Hx Hex Hg He. andb_all.
      match goal with H : ty_beq to t = true |- _ => apply ty_beq_eq in H; subst to end.
      use_sub f g e1 en v en1 Hv He1 Hrv Hr1.
      match goal with H : scalar_ty t = true |- _ => rename H into Hst end.
      match goal with H : scalar_ty (e_ty e1) = true |- _ => rename H into Hs1 end.
      destruct (e_ty e1) as [|sg1 b1| | | |]; try discriminate Hs1.
      - destruct (has_ty_bool_inv _ _ Hv) as [p ->]. destruct t as [|sg b| | | |]; try discriminate Hst;
          cbn [Sem.eval_cast Sem.obind resX]; intros _; (split; [|exact Hr1]); cbn [fst in_rng]; [reflexivity|].
        now apply in_range_01.
      - destruct (has_ty_int_inv _ _ _ _ Hv) as [z ->]. destruct t as [|sg b| | | |]; try discriminate Hst;
          cbn [Sem.eval_cast Sem.obind resX]; intros _; (split; [|exact Hr1]); cbn [fst in_rng]; [reflexivity|].
        apply wrap_in_range. cbn [scalar_ty] in Hst. apply ok_width_pos in Hst. lia.
    Qed.

    Theorem PE_step : PE (S n).
    Proof.
      intros fw g [ei m t] en Hsc Hx Hex Hg He Hr.
      destruct ei.
      - match goal with |- context [Sem.eval _ _ _ (Ex ?ei _ _)] => apply (case_lit fw g ei m t en I Hsc Hx Hex Hg He Hr) end.
      - match goal with |- context [Sem.eval _ _ _ (Ex ?ei _ _)] => apply (case_lit fw g ei m t en I Hsc Hx Hex Hg He Hr) end.
      - match goal with |- context [Sem.eval _ _ _ (Ex ?ei _ _)] => apply (case_lit fw g ei m t en I Hsc Hx Hex Hg He Hr) end.
      - match goal with |- context [Sem.eval _ _ _ (Ex ?ei _ _)] => apply (case_lit fw g ei m t en I Hsc Hx Hex Hg He Hr) end.
      - now apply case_id with (fw := fw).
      - now apply case_arrlit with (fw := fw).
      - now apply case_arrrep with (fw := fw).
      - now apply case_idx with (fw := fw).
      - now apply case_tuplit with (fw := fw).
      - now apply case_tupacc with (fw := fw).
      - now apply case_fld with (fw := fw).
      - now apply case_structlit with (fw := fw).
      - now apply case_enumlit with (fw := fw).
      - now apply case_match with (fw := fw).
      - now apply case_neg with (fw := fw).
      - now apply case_not with (fw := fw).
      - now apply case_op with (fw := fw).
      - now apply case_block with (fw := fw).
      - now apply case_call with (fw := fw).
      - (* join: rejected by the strict checker *)
        destruct fw as [|f]; discriminate Hsc.
      - now apply case_if with (fw := fw).
      - now apply case_cast with (fw := fw).
      - match goal with |- context [Sem.eval _ _ _ (Ex ?ei _ _)] => apply (case_lit fw g ei m t en I Hsc Hx Hex Hg He Hr) end.
    Qed.
  End Cases.

  (* ---------------------------------------------------------- blocks *)

  Lemma scf2_stmt_genv fw g s g' t : scf2_stmt fw P g s = Some (g', t) -> wtx_stmt P s = true ->
    genv P g -> genv P g' /\ tl g' = tl g.
  Proof.
    intros Hsc Hx Hg.
    exact (wt_stmt_genv P fw g s g' t (proj2 (proj2 (scf2_wtx_implies_wt P fw)) g s (g', t) Hsc Hx) Hg).
  Qed.

  Lemma xb_go_exh n (IHs : PS n) f : forall ss g lt lv en g' t,
    scf2_stmts f P ss g lt = Some (g', t) ->
    forallb (wtx_stmt P) ss = true -> forallb (exh_stmt P) ss = true ->
    genv P g -> env_ok P (Sem.scopes en) g -> env_rng P (Sem.scopes en) g -> VOK lv lt ->
    resT (fun r => QEb g t r /\ QRb g t r) (xb_go (Sem.exec n P) ss lv en).
  Proof.
    induction ss as [|s r IH]; intros g lt lv en g' t Hsc Hx Hex Hg He Hr [Hl Hlr]; cbn [scf2_stmts xb_go] in *.
    - injection Hsc as <- <-. cbn [resT]. split; split; cbn [fst snd]; try assumption; [now apply pop_ok|now apply pop_rng].
    - destruct (scf2_stmt f P g s) as [[g1 t1]|] eqn:Es; [|discriminate Hsc]. cbn [forallb] in Hx, Hex. andb_all.
      eapply resT_bind; [apply (IHs f g s en g1 t1 Es); assumption|].
      intros [v en1] [[Hv He1] [Hrv Hr1]]. cbn [fst snd] in *.
      destruct (scf2_stmt_genv _ _ _ _ _ Es ltac:(assumption) Hg) as [Hg1 Htl].
      unfold QEb, QRb. rewrite <- Htl.
      apply (IH g1 t1 v en1 g' t Hsc); try assumption. split; assumption.
  Qed.

  Theorem PB_step n : PS n -> PB (S n).
  Proof.
    intros IHs fw g b en t Hsc Hx Hex Hg He Hr. destruct fw as [|f]; [discriminate Hsc|].
    rewrite scf2_block_S in Hsc. rewrite exec_block_eq.
    destruct (scf2_stmts f P b g unit_ty) as [[g' t']|] eqn:Es; [|discriminate Hsc]. cbn [option_map snd] in Hsc.
    injection Hsc as ->.
    apply (xb_go_exh n IHs f b g unit_ty Sem.unit_val en g' t Es Hx Hex Hg He Hr). split; reflexivity.
  Qed.

  (* ---------------------------------------------------------- statements *)

  Definition resY {A} (Q : A -> Prop) (o : Sem.outcome A) : Prop :=
    match o with Sem.Done a => Q a | Sem.Stuck c => ~ In c stuck_allowed | _ => True end.

  Lemma resY_bindT {A B} (o : Sem.outcome A) (k : A -> Sem.outcome B) (Q : A -> Prop) (R : B -> Prop) :
    resT Q o -> (forall a, Q a -> resY R (k a)) -> resY R (Sem.obind o k).
  Proof. destruct o; cbn [resT resY Sem.obind]; auto; contradiction. Qed.

  Lemma resX_bindY {A B} (o : Sem.outcome A) (k : A -> Sem.outcome B) (Q : A -> Prop) (R1 R2 : B -> Prop) :
    resY Q o -> (forall a, Q a -> resX R1 R2 (k a)) -> resX R1 R2 (Sem.obind o k).
  Proof. destruct o; cbn [resY resX Sem.obind]; auto. Qed.

  Lemma resY_weaken {A} (Q Q' : A -> Prop) (o : Sem.outcome A) :
    resY Q o -> (forall a, Q a -> Q' a) -> resY Q' o.
  Proof. destruct o; cbn [resY]; auto. Qed.

  (* accessor chains, typed as the strict checker types them *)
  Inductive acc_ty (f : nat) (g : tenv) : list accessor -> ty -> ty -> Prop :=
  | AT_nil t : acc_ty f g [] t t
  | AT_idx aty ie r el k b tf : scf2_expr f P g ie = true -> e_ty ie = TInt false b ->
      acc_ty f g r el tf -> acc_ty f g (AIdx aty ie :: r) (TArr el k) tf
  | AT_tup tty i r ts ti tf : nthN ts i = Some ti -> acc_ty f g r ti tf ->
      acc_ty f g (ATup tty i :: r) (TTup ts) tf
  | AT_fld fld r name def k tk tf :
      assocN name (p_structs P) = Some def -> Sem.index_of fld (map fst def) 0 = Some k ->
      nthN (map snd def) k = Some tk -> acc_ty f g r tk tf ->
      acc_ty f g (AFld (TStruct name) fld :: r) (TStruct name) tf.

  Fixpoint path_ty (path : list Sem.rstep) (t tf : ty) : Prop :=
    match path with
    | [] => t = tf
    | Sem.RIdx i :: r => exists el k, t = TArr el k /\ i < k /\ path_ty r el tf
    | Sem.RPos i :: r =>
        (exists ts ti, t = TTup ts /\ nthN ts i = Some ti /\ path_ty r ti tf) \/
        (exists name def ti, t = TStruct name /\ assocN name (p_structs P) = Some def /\
                             nthN (map snd def) i = Some ti /\ path_ty r ti tf)
    end.

  Lemma set_nth_Forall_fwd (Q : Sem.value -> Prop) : forall vs i x vs',
    Forall Q vs -> Q x -> Sem.set_nth_val vs i x = Some vs' -> Forall Q vs'.
  Proof.
    induction vs as [|v r IH]; intros i x vs' Hall Hx H; cbn [Sem.set_nth_val] in H; [discriminate H|].
    inversion Hall; subst. destruct i as [|i]; cbn [Sem.set_nth_val] in H.
    - injection H as <-. now constructor.
    - destruct (Sem.set_nth_val r i x) as [r'|] eqn:E; [|discriminate H]. injection H as <-.
      constructor; [assumption|]. apply (IH i x r'); assumption.
  Qed.

  Lemma set_nth_Forall2_fwd (R : Sem.value -> ty -> Prop) vs ts : Forall2 R vs ts -> forall i x ti vs',
    nth_error ts i = Some ti -> R x ti -> Sem.set_nth_val vs i x = Some vs' -> Forall2 R vs' ts.
  Proof.
    induction 1 as [|v t vr tr Hv Hr IH]; intros i x ti vs' Hn Hx H; [destruct i; discriminate|].
    destruct i as [|i]; cbn [nth_error Sem.set_nth_val] in *.
    - injection Hn as ->. injection H as <-. now constructor.
    - destruct (Sem.set_nth_val vr i x) as [r'|] eqn:E; [|discriminate H]. injection H as <-.
      constructor; [assumption|]. apply (IH i x ti r'); assumption.
  Qed.

  Lemma write_path_rng tf nv : VOK nv tf -> forall path t v whole,
    path_ty path t tf -> VOK v t -> Sem.write_path v path nv = Some whole -> VOK whole t.
  Proof.
    intros Hnv path. induction path as [|[i|i] r IH]; intros t v whole Hp [Hv Hrv] Hw; cbn [path_ty Sem.write_path] in *.
    - subst. now injection Hw as <-.
    - destruct Hp as [el [k [-> [Hi Hr]]]].
      destruct (has_ty_arr_inv _ _ _ _ Hv) as [vs [-> [Hlen Hall]]].
      destruct (nthN vs i) as [sub|] eqn:Hsub; [|discriminate Hw].
      destruct (Sem.write_path sub r nv) as [sub'|] eqn:Hw'; [|discriminate Hw].
      destruct (Sem.set_nth_val vs (N.to_nat i) sub') as [vs'|] eqn:Hset; [|discriminate Hw]. injection Hw as <-.
      rewrite in_rng_arr in Hrv. apply forallb_Forall in Hrv.
      assert (Hboth : Forall (fun x => VOK x el) vs).
      { rewrite Forall_forall in *. intros x Hx. split; [now apply Hall|now apply Hrv]. }
      assert (Hsubok : VOK sub el).
      { rewrite nthN_spec in Hsub. apply nth_error_In in Hsub. rewrite Forall_forall in Hboth. now apply Hboth. }
      pose proof (IH el sub sub' Hr Hsubok Hw') as Hs'.
      pose proof (set_nth_Forall_fwd _ vs _ _ _ Hboth Hs' Hset) as Hall'.
      assert (Hlen' : length vs' = length vs).
      { clear - Hset. revert vs' Hset. generalize (N.to_nat i) as j. induction vs as [|v0 r0 IHv]; intros j vs' H; cbn [Sem.set_nth_val] in H; [discriminate H|].
        destruct j; cbn [Sem.set_nth_val] in H; [injection H as <-; reflexivity|]. destruct (Sem.set_nth_val r0 j sub') eqn:E; [|discriminate H].
        injection H as <-. cbn [length]. now rewrite (IHv _ _ E). }
      split.
      + rewrite has_ty_arr. apply andb_true_intro. split.
        * apply N.eqb_eq. unfold lenN in *. now rewrite Hlen'.
        * apply forallb_Forall. eapply Forall_impl; [|exact Hall']. intros a Ha; exact (proj1 Ha).
      + rewrite in_rng_arr. apply forallb_Forall. eapply Forall_impl; [|exact Hall']. intros a Ha; exact (proj2 Ha).
    - assert (Hgen : forall ts ti vs, nthN ts i = Some ti -> path_ty r ti tf ->
                 Forall2 (fun x t0 => has_ty P x t0 = true) vs ts -> forallb2 (in_rng P) vs ts = true ->
                 match nthN vs i with
                 | Some sub => match Sem.write_path sub r nv with
                               | Some sub' => match Sem.set_nth_val vs (N.to_nat i) sub' with
                                              | Some vs' => Some (Sem.VTup vs') | None => None end
                               | None => None end
                 | None => None end = Some whole ->
                 exists vs', whole = Sem.VTup vs' /\ Forall2 VOK vs' ts).
      { intros ts ti vs Hn Hr Hvs Hrs Hw0.
        apply forallb2_Forall2 in Hrs.
        assert (Hboth : Forall2 VOK vs ts).
        { clear - Hvs Hrs. induction Hvs; inversion Hrs; subst; constructor; [split; assumption|auto]. }
        destruct (Forall2_nthN _ _ _ _ _ Hboth Hn) as [sub [Hsub Hst]]. rewrite Hsub in Hw0.
        destruct (Sem.write_path sub r nv) as [sub'|] eqn:Hw'; [|discriminate Hw0].
        destruct (Sem.set_nth_val vs (N.to_nat i) sub') as [vs'|] eqn:Hset; [|discriminate Hw0]. injection Hw0 as <-.
        pose proof (IH ti sub sub' Hr Hst Hw') as Hs'. rewrite nthN_spec in Hn.
        exists vs'. split; [reflexivity|]. exact (set_nth_Forall2_fwd VOK vs ts Hboth _ _ _ _ Hn Hs' Hset). }
      destruct Hp as [[ts [ti [-> [Hn Hr]]]]|[name [def [ti [-> [Hd [Hn Hr]]]]]]].
      + destruct (has_ty_tup_inv _ _ _ Hv) as [vs [-> Hvs]]. rewrite in_rng_tup in Hrv.
        destruct (Hgen ts ti vs Hn Hr Hvs Hrv Hw) as (vs' & -> & Hok). split.
        * rewrite has_ty_tup. apply forallb2_Forall2. clear - Hok. induction Hok; constructor; [exact (proj1 H)|assumption].
        * rewrite in_rng_tup. apply forallb2_Forall2. clear - Hok. induction Hok; constructor; [exact (proj2 H)|assumption].
      + destruct (has_ty_struct_inv _ _ _ Hv) as [vs [def' [-> [Hd' Hvs]]]].
        rewrite Hd in Hd'. injection Hd' as <-. rewrite in_rng_struct, Hd in Hrv.
        destruct (Hgen (map snd def) ti vs Hn Hr Hvs Hrv Hw) as (vs' & -> & Hok). split.
        * rewrite has_ty_struct, Hd. apply forallb2_Forall2. clear - Hok. induction Hok; constructor; [exact (proj1 H)|assumption].
        * rewrite in_rng_struct, Hd. apply forallb2_Forall2. clear - Hok. induction Hok; constructor; [exact (proj2 H)|assumption].
  Qed.

  Section Stmts.
    Variable n : nat.
    Hypothesis IHe : PE n.
    Hypothesis IHb : PB n.

    Ltac use_sub f g e1 en v en1 Hv He1 Hrv Hr1 :=
      eapply resX_bind; [apply (IHe f g e1 en); assumption|];
      intros [v en1] [[Hv He1] [Hrv Hr1]]; cbn [fst snd] in Hv, He1, Hrv, Hr1.

    Lemma x_accs_exh f g m tf : genv P g -> forall accs ct, acc_ty f g accs ct tf -> forall cur en prev,
      forallb (fun a => match a with AIdx _ i => wtx_expr P i | _ => true end) accs = true ->
      forallb (exh_acc P) accs = true ->
      has_ty P cur ct = true -> env_ok P (Sem.scopes en) g -> env_rng P (Sem.scopes en) g ->
      resY (fun r => (exists path, fst r = rev prev ++ path /\ path_ty path ct tf) /\
                     env_ok P (Sem.scopes (snd r)) g /\ env_rng P (Sem.scopes (snd r)) g)
           (x_accs P (Sem.eval n P) m accs cur en prev).
    Proof.
      intros Hg accs ct Hacc.
      induction Hacc as [t|aty ie r el k b tf Hsc Eie _ IH|tty i r ts ti tf Hn _ IH|fld r name def k tk tf Hd Hk Hn _ IH];
        intros cur en prev Hx Hex Hc He Hr; cbn [x_accs].
      - cbn [resY fst snd]. split; [|split; assumption]. exists []. rewrite app_nil_r. split; reflexivity.
      - cbn [forallb exh_acc] in Hx, Hex. andb_all.
        eapply resY_bindT; [apply (IHe f g ie en); assumption|].
        intros [vi en1] [[Hvi He1] [Hrvi Hr1]]. cbn [fst snd] in *.
        destruct (has_ty_arr_inv _ _ _ _ Hc) as [vs [-> [Hlen Hall]]].
        rewrite Eie in Hvi. destruct (has_ty_int_inv _ _ _ _ Hvi) as [z ->].
        destruct ((0 <=? z)%Z && (z <? Z.of_nat (length vs))%Z) eqn:Eb; [|exact I].
        apply andb_prop in Eb as [E1 E2]. apply Z.leb_le in E1. apply Z.ltb_lt in E2.
        destruct (nth_error vs (Z.to_nat z)) as [sub|] eqn:En; [|cbn [resY]; nostuck].
        eapply resY_weaken; [apply (IH sub en1 (Sem.RIdx (Z.to_N z) :: prev))|]; try assumption.
        + apply nth_error_In in En. rewrite Forall_forall in Hall. now apply Hall.
        + intros [path' en2] [[path [Hp1 Hp2]] He2]. cbn [fst snd] in *. split; [|assumption].
          exists (Sem.RIdx (Z.to_N z) :: path). split.
          * rewrite Hp1. cbn [rev]. now rewrite <- app_assoc.
          * cbn [path_ty]. exists el, k. split; [reflexivity|]. split; [|assumption]. unfold lenN in Hlen. lia.
      - cbn [forallb exh_acc] in Hx, Hex. andb_all.
        destruct (has_ty_tup_inv _ _ _ Hc) as [vs [-> Hvs]].
        destruct (Forall2_nthN _ _ _ _ _ Hvs Hn) as [sub [Hsub Hst]]. rewrite Hsub.
        eapply resY_weaken; [apply (IH sub en (Sem.RPos i :: prev))|]; try assumption.
        intros [path' en2] [[path [Hp1 Hp2]] He2]. cbn [fst snd] in *. split; [|assumption].
        exists (Sem.RPos i :: path). split.
        + rewrite Hp1. cbn [rev]. now rewrite <- app_assoc.
        + cbn [path_ty]. left. exists ts, ti. auto.
      - cbn [forallb exh_acc] in Hx, Hex. andb_all.
        destruct (has_ty_struct_inv _ _ _ Hc) as [vs [def' [-> [Hd' Hvs]]]].
        rewrite Hd in Hd'. injection Hd' as <-. rewrite Hd, Hk.
        destruct (Forall2_nthN _ _ _ _ _ Hvs Hn) as [sub [Hsub Hst]]. rewrite Hsub.
        eapply resY_weaken; [apply (IH sub en (Sem.RPos k :: prev))|]; try assumption.
        intros [path' en2] [[path [Hp1 Hp2]] He2]. cbn [fst snd] in *. split; [|assumption].
        exists (Sem.RPos k :: path). split.
        + rewrite Hp1. cbn [rev]. now rewrite <- app_assoc.
        + cbn [path_ty]. right. exists name, def, tk. auto.
    Qed.

    Lemma x_for_exh f g p bs body tb el :
      genv P g -> gpat_ok P p el bs -> p_ty p = el -> wt_pat P p = Some bs -> exh_pats P el [p] = true ->
      scf2_block f P (tbind_all ([] :: g) bs false) body = Some tb ->
      forallb (wtx_stmt P) body = true -> forallb (exh_stmt P) body = true ->
      forall vs en, Forall (fun v => VOK v el) vs -> env_ok P (Sem.scopes en) g -> env_rng P (Sem.scopes en) g ->
      resT (fun en' => env_ok P (Sem.scopes en') g /\ env_rng P (Sem.scopes en') g)
           (x_for P (Sem.exec_block n P) p body vs en).
    Proof.
      intros Hg Hp Hpt Hwp Hpats Hb Hxb Hexb vs. induction vs as [|v r IH]; intros en Hvs He Hr; cbn [x_for].
      - cbn [resT]. split; assumption.
      - inversion Hvs as [|v' r' Hv Hrest]; subst.
        destruct (Sem.pmatch P p v) as [vbs|] eqn:Em.
        + destruct (bound_envs g p (p_ty p) bs v vbs en Hg He Hr Hp eq_refl Hwp (exh_pats_fits P _ _ Hpats) Hv Em)
            as (Hg' & Htl & He' & Hr').
          eapply resT_bind; [apply (IHb f _ body _ tb Hb Hxb Hexb Hg' He' Hr')|].
          intros [rv en1] [[_ He1] [_ Hr1]]. cbn [fst snd] in *. rewrite Htl in He1, Hr1.
          apply IH; [exact Hrest|exact He1|exact Hr1].
        + exfalso. destruct Hv as [Hv Hrv].
          destruct (exh_pats_sound_ty P (p_ty p) [p] v Hpats Hv Hrv) as (p' & [<-|[]] & Hm). congruence.
    Qed.

    Theorem PS_step : PS (S n).
    Proof.
      intros fw g [si m] en g' t Hsc Hx Hex Hg He Hr.
      apply resT_of; [exact (bb_stmt _ _ _ _ _ _ _ Hsc Hx Hg He)|].
      rewrite exec_eq. cbn zeta. destruct fw as [|f]; [discriminate Hsc|].
      cbn [scf2_stmt] in Hsc. cbn [wtx_stmt] in Hx. cbn [exh_stmt] in Hex.
      destruct si as [p e|x e|x accs e|p arr body|p jt a b body|e].
      - (* let *)
        destruct (scf2_expr f P g e) eqn:Ee; [|discriminate Hsc].
        destruct (gpat_b P true p (e_ty e)) as [bs|] eqn:Ep; [|discriminate Hsc]. injection Hsc as <- <-. andb_all.
        match goal with H : exh_pats P (e_ty e) [p] = true |- _ => rename H into Hpats end.
        use_sub f g e en v en1 Hv He1 Hrv Hr1.
        destruct (Sem.pmatch P p v) as [vbs|] eqn:Em; cbn [resX]; intros _.
        + split; [reflexivity|]. cbn [snd]. apply bind_all_rng; [|exact Hr1].
          apply (pmatch_rng P p (e_ty e) bs v vbs); try assumption; [|exact (exh_pats_fits P _ _ Hpats)].
          exact (proj1 (pat_ok_gpat_ok_mut P) _ _ _ (pat_b_sound P p _ bs Ep)).
        + destruct (exh_pats_sound_ty P (e_ty e) [p] v Hpats Hv Hrv) as (p' & [<-|[]] & Hm). congruence.
      - (* let mut *)
        destruct (scf2_expr f P g e) eqn:Ee; [|discriminate Hsc]. injection Hsc as <- <-.
        use_sub f g e en v en1 Hv He1 Hrv Hr1. cbn [resX]. intros _. split; [reflexivity|]. cbn [snd].
        now apply bind_var_rng.
      - (* assignment *)
        destruct (tlookup g x) as [[tx [|]]|] eqn:El; try discriminate Hsc.
        destruct (scf2_expr f P g e) eqn:Ee; [|discriminate Hsc]. andb_all.
        assert (Hacc : acc_ty f g accs tx (e_ty e) /\ g' = g /\ t = unit_ty).
        { clear - Hsc. revert Hsc. generalize tx. induction accs as [|ac accs IH]; intros cur HH.
          - destruct (ty_beq cur (e_ty e)) eqn:Et; [|discriminate HH]. injection HH as <- <-. apply ty_beq_eq in Et.
            subst cur. repeat split. constructor.
          - destruct ac as [aty ie|tty i|sty fld]; cbv beta iota fix in HH.
            + destruct cur as [| |el nn| | |]; try discriminate HH.
              destruct (e_ty ie) as [|[] bb| | | |] eqn:Ei; try discriminate HH.
              match type of HH with match (if ?c then _ else _) with _ => _ end = _ => destruct c eqn:Ec end; [|discriminate HH].
              destruct (IH _ HH) as (Ha & Hr'). split; [|exact Hr']. andb_all. econstructor; eassumption.
            + destruct cur as [| | |ts| |]; try discriminate HH.
              destruct (ty_beq tty (TTup ts)) eqn:Et; [|discriminate HH].
              destruct (nthN ts i) as [ti|] eqn:En; [|discriminate HH].
              destruct (IH _ HH) as (Ha & Hr'). split; [|exact Hr']. econstructor; eassumption.
            + destruct cur as [| | | |name|]; try discriminate HH.
              destruct (ty_beq sty (TStruct name)) eqn:Et; [|discriminate HH]. apply ty_beq_eq in Et. subst sty.
              destruct (assocN name (p_structs P)) as [def|] eqn:Ed; [|discriminate HH].
              destruct (Sem.index_of fld (map fst def) 0) as [k|] eqn:Ek; [|discriminate HH].
              destruct (nthN (map snd def) k) as [tk|] eqn:En; [|discriminate HH].
              destruct (IH _ HH) as (Ha & Hr'). split; [|exact Hr']. econstructor; eassumption. }
        destruct Hacc as (Hacc & -> & ->). clear Hsc.
        use_sub f g e en nv en0 Hnv He0 Hrnv Hr0.
        destruct (lookup_ok _ _ _ _ _ _ He0 El) as [cur [Hcur Hct]]. unfold Sem.lookup_var at 1. rewrite Hcur.
        eapply resX_bindY; [apply (x_accs_exh f g m (e_ty e) Hg accs tx Hacc cur en0 [])|]; try assumption.
        intros [path en2] [[path' [Hp1 Hp2]] [He2 Hr2]]. cbn [fst snd rev app] in *. subst path'.
        destruct (lookup_ok _ _ _ _ _ _ He2 El) as [cur2 [Hcur2 Hct2]].
        destruct (lookup_rng P _ _ _ _ _ Hr2 El) as [cur2' [Hcur2' Hcr2]].
        assert (cur2' = cur2) as -> by congruence.
        unfold Sem.lookup_var. rewrite Hcur2.
        destruct (Sem.write_path cur2 path nv) as [whole|] eqn:Hwr; [|cbn [resX]; nostuck].
        destruct (Sem.assign_var en2 x whole) as [en3|] eqn:Has; [|cbn [resX]; nostuck].
        cbn [resX]. intros _. split; [reflexivity|]. cbn [snd].
        destruct (write_path_rng (e_ty e) nv (conj Hnv Hrnv) path tx cur2 whole Hp2 (conj Hct2 Hcr2) Hwr) as [_ Hwr'].
        exact (assign_rng P en2 g x whole tx true en3 Hr2 El Hwr' Has).
      - (* for *)
        destruct (e_ty arr) as [| |el k| | |] eqn:Earr; try discriminate Hsc.
        destruct (scf2_expr f P g arr) eqn:Ea; [|discriminate Hsc].
        destruct (gpat_b P true p el) as [bs|] eqn:Ep; [|discriminate Hsc].
        destruct (scf2_block f P (tbind_all ([] :: g) bs false) body) as [tb|] eqn:Eb; [|discriminate Hsc].
        injection Hsc as <- <-. andb_all.
        use_sub f g arr en va en1 Hva He1 Hrva Hr1. rewrite Earr in Hva, Hrva.
        destruct (has_ty_arr_inv _ _ _ _ Hva) as [vs [-> [Hlen Hall]]].
        rewrite in_rng_arr in Hrva. apply forallb_Forall in Hrva.
        assert (Hboth : Forall (fun v => VOK v el) vs).
        { rewrite Forall_forall in *. intros v0 Hv0. split; [now apply Hall|now apply Hrva]. }
        eapply resX_bind; [eapply (x_for_exh f g p bs body tb el Hg)|]; try eassumption.
        + exact (proj1 (pat_ok_gpat_ok_mut P) _ _ _ (pat_b_sound P p _ bs Ep)).
        + exact (gpat_b_ty P _ _ _ _ Ep).
        + now apply (gpat_b_wt P true p el bs Ep).
        + intros en2 [He2 Hr2]. cbn [resX]. intros _. split; [reflexivity|exact Hr2].
      - discriminate Hsc.
      - (* expression statement *)
        destruct (scf2_expr f P g e) eqn:Ec; [|discriminate Hsc]. injection Hsc as <- <-.
        apply resX_of_T. exact (IHe f g e en Ec Hx Hex Hg He Hr).
    Qed.
  End Stmts.

  Theorem exh_sound_all : forall n, PE n /\ PB n /\ PS n.
  Proof.
    induction n as [|n [IHe [IHb IHs]]].
    - split; [|split]; red; intros; exact I.
    - assert (Hs : PS (S n)) by (apply PS_step; assumption).
      split; [apply PE_step; assumption|]. split; [|exact Hs]. apply PB_step. exact IHs.
  Qed.

  (* ---------------------------------------------------------- whole programs *)

  Lemma scf_const_rng c fuel en : scf_const c = true ->
    match Sem.eval fuel P en (snd c) with
    | Sem.Done (v, en') => en' = en /\ in_rng P v (e_ty (snd c)) = true
    | Sem.NoFuel => True
    | _ => False
    end.
  Proof.
    unfold scf_const. destruct (snd c) as [ei m t]. destruct fuel as [|k]; [intros _; exact I|].
    rewrite eval_eq. cbn zeta. cbn [e_ty].
    destruct ei; try discriminate; intro H; (split; [reflexivity|]).
    - apply ty_beq_eq in H. now subst t.
    - apply ty_beq_eq in H. now subst t.
    - destruct t as [|sg b| | | |]; try discriminate H. apply andb_prop in H as [H _].
      cbn [in_rng]. now rewrite <- lit_fits_in_range.
    - destruct t as [|sg b| | | |]; try discriminate H. apply andb_prop in H as [H _].
      cbn [in_rng]. now rewrite <- lit_fits_in_range.
  Qed.

  Lemma eval_consts_rng fuel : scf_consts P = true ->
    match Sem.eval_consts fuel P with
    | Sem.Done en0 => env_rng P (Sem.scopes en0) (consts_tenv P)
    | Sem.NoFuel => True
    | _ => False
    end.
  Proof.
    unfold scf_consts, Sem.eval_consts, consts_tenv, tbind_all. intro H.
    assert (He : env_rng P (Sem.scopes (Sem.mkEnv [[]] false)) [[]]) by (repeat constructor).
    revert He. generalize (Sem.mkEnv [[]] false) as en. generalize ([[]] : tenv) as g.
    induction (p_consts P) as [|[x e] cs IH]; intros g en He; cbn [map fold_left].
    - exact He.
    - cbn [forallb] in H. apply andb_prop in H as [Hc Hr]. cbn [snd fst] in *.
      pose proof (scf_const_rng (x, e) fuel en Hc) as Hev. cbn [snd] in Hev.
      destruct (Sem.eval fuel P en e) as [[v en1]| | |]; try contradiction; [|exact I].
      destruct Hev as [-> Hv]. cbn [Sem.obind]. apply (IH Hr). now apply bind_var_rng.
  Qed.

  Lemma decode_args_rng : forall ps inputs args, canonical_args P ps inputs = true ->
    Sem.decode_args P ps inputs = Some args -> binds_rng P args ps.
  Proof.
    unfold canonical_args.
    induction ps as [|[x t] pr IH]; intros [|bs ir] args Hc H; cbn [Sem.decode_args forallb2] in H, Hc; try discriminate H.
    - injection H as <-. constructor.
    - apply andb_prop in Hc as [Hc1 Hc2]. cbn [snd] in Hc1. unfold canonical_arg in Hc1.
      destruct (Sem.decode Sem.ty_fuel P t bs) as [[v [|]]|] eqn:E; try discriminate H.
      destruct (Sem.decode_args P pr ir) as [rest|] eqn:Er; [|discriminate H]. injection H as <-.
      constructor; [|now apply IH with (inputs := ir)].
      split; [reflexivity|]. cbn [snd]. apply andb_prop in Hc1 as [_ Hc1]. apply andb_prop in Hc1 as [Hc1 _]. exact Hc1.
  Qed.

  (* the body of main, run as [Sem.run_main] runs it: never Stuck, the result is a value of the
     declared type with all integers in range *)
  Theorem exh_main_values d fuel args :
    scf_consts P = true -> find_fn P (p_main P) = Some d ->
    binds_ok P args (fn_params d) -> binds_rng P args (fn_params d) ->
    match Sem.eval_consts fuel P with
    | Sem.Done en0 =>
        match Sem.exec_block fuel P (Sem.push_scope (Sem.bind_all (Sem.push_scope en0) args)) (fn_body d) with
        | Sem.Done (v, _) => has_ty P v (fn_ret d) = true /\ in_rng P v (fn_ret d) = true
        | Sem.Stuck _ => False
        | Sem.Panicked _ _ | Sem.NoFuel => True
        end
    | Sem.NoFuel => True
    | Sem.Stuck _ | Sem.Panicked _ _ => False
    end.
  Proof.
    intros Hcs Hfn Hargs Hargr. pose proof (eval_consts_ok P fuel Hwt) as Hc. pose proof (eval_consts_rng fuel Hcs) as Hcr.
    destruct (Sem.eval_consts fuel P) as [en0| | |]; try contradiction; [|exact I].
    assert (Hin : In d (p_fns P)) by (unfold find_fn in Hfn; apply find_some in Hfn; tauto).
    destruct (fn_checked d Hin) as (Eb & Hxb & Hexb).
    assert (Hg0 : genv P ([] :: consts_tenv P)) by (rewrite consts_tenv_one; exists [], []; reflexivity).
    destruct (genv_tbind_all P (fn_params d) true _ Hg0) as [Hg1 _].
    pose proof (bind_all_ok P _ _ true Hargs _ _ (push_ok _ _ _ Hc)) as He1.
    pose proof (bind_all_rng P _ _ true Hargr _ _ (push_rng _ _ _ Hcr)) as Hr1.
    destruct (exh_sound_all fuel) as (_ & HPB & _).
    pose proof (HPB fwp _ (fn_body d) _ (fn_ret d) Eb Hxb Hexb (genv_push _ _ Hg1) (push_ok _ _ _ He1) (push_rng _ _ _ Hr1)) as Hb.
    destruct (Sem.exec_block fuel P _ (fn_body d)) as [[v en']| | |]; cbn [resT] in Hb; try exact Hb.
    destruct Hb as [[Hv _] [Hrv _]]. split; assumption.
  Qed.

  Theorem exh_run_main fuel args :
    scf_consts P = true -> main_ret_fits P = true -> canonical_main_args P args = true ->
    (exists bits l, Sem.run_main fuel P args = Sem.RunOk bits l) \/
    (exists r m, Sem.run_main fuel P args = Sem.RunPanic r m) \/
    Sem.run_main fuel P args = Sem.RunNoFuel.
  Proof.
    intros Hcs Hfit Hcan. unfold main_ret_fits in Hfit. unfold canonical_main_args in Hcan.
    destruct (find_fn P (p_main P)) as [d|] eqn:Hfind; [|discriminate Hcan].
    destruct (canonical_args_decode P _ _ Hcan) as [vals Hdec].
    pose proof (exh_main_values d fuel vals Hcs Hfind (decode_args_ok P _ _ _ Hdec) (decode_args_rng _ _ _ Hcan Hdec)) as H.
    unfold Sem.run_main. rewrite Hfind, Hdec.
    destruct (Sem.eval_consts fuel P) as [en0| | |]; try contradiction; [|right; right; reflexivity].
    destruct (Sem.exec_block fuel P _ (fn_body d)) as [[v en']|r m|c|]; try contradiction.
    - destruct H as [Hv _]. destruct (encode_sizeof P _ _ Hfit Hv) as [bits [Hb _]]. rewrite Hb. left. eauto.
    - right. left. eauto.
    - right. right. reflexivity.
  Qed.
End Sound.

Print Assumptions exh_sound_all.

(* ------------------------------------------------------------------ the theorems, spelled out *)

(* THE STRENGTHENING OF Lang/WtSound.v.  A program whose functions pass the strict checker
   [scf2_fns] (in the context of the constants), Wt.v's extra checks [wtx_fns] and the
   exhaustiveness check [exh_fns]; an expression that passes the three checks, evaluated in an
   environment typed by the checker's context with all integers in range: the result has the
   annotated type with all integers in range, the environment is still typed and in range,
   and the evaluation is NEVER Stuck -- [stuck_allowed] shrinks to the empty list (the strict
   checker rejects `join`, so the codes 48 / 75 / 76 do not arise either). *)
Theorem exh_sound_expr P fwp : wt_program P = true -> scf2_fns fwp P (consts_scope P) = true ->
  wtx_fns P = true -> exh_fns P = true ->
  forall n fw g e en,
    scf2_expr fw P g e = true -> wtx_expr P e = true -> exh_expr P e = true ->
    genv P g -> env_ok P (Sem.scopes en) g -> env_rng P (Sem.scopes en) g ->
    match Sem.eval n P en e with
    | Sem.Done (v, en') =>
        has_ty P v (e_ty e) = true /\ in_rng P v (e_ty e) = true /\
        env_ok P (Sem.scopes en') g /\ env_rng P (Sem.scopes en') g
    | Sem.Stuck _ => False
    | Sem.Panicked _ _ | Sem.NoFuel => True
    end.
Proof.
  intros Hwt Hscf Hwx Hexh n fw g e en Hsc Hx Hex Hg He Hr.
  destruct (exh_sound_all P fwp Hwt Hscf Hwx Hexh n) as (HPE & _ & _).
  specialize (HPE fw g e en Hsc Hx Hex Hg He Hr).
  destruct (Sem.eval n P en e) as [[v en']| | |]; cbn [resT] in HPE; try exact HPE.
  destruct HPE as [[H1 H2] [H3 H4]]. cbn [fst snd] in *. auto.
Qed.

Theorem exh_sound_block P fwp : wt_program P = true -> scf2_fns fwp P (consts_scope P) = true ->
  wtx_fns P = true -> exh_fns P = true ->
  forall n fw g b en t,
    scf2_block fw P g b = Some t -> forallb (wtx_stmt P) b = true -> forallb (exh_stmt P) b = true ->
    genv P g -> env_ok P (Sem.scopes en) g -> env_rng P (Sem.scopes en) g ->
    match Sem.exec_block n P en b with
    | Sem.Done (v, en') =>
        has_ty P v t = true /\ in_rng P v t = true /\
        env_ok P (tl (Sem.scopes en')) (tl g) /\ env_rng P (tl (Sem.scopes en')) (tl g)
    | Sem.Stuck _ => False
    | Sem.Panicked _ _ | Sem.NoFuel => True
    end.
Proof.
  intros Hwt Hscf Hwx Hexh n fw g b en t Hsc Hx Hex Hg He Hr.
  destruct (exh_sound_all P fwp Hwt Hscf Hwx Hexh n) as (_ & HPB & _).
  specialize (HPB fw g b en t Hsc Hx Hex Hg He Hr).
  destruct (Sem.exec_block n P en b) as [[v en']| | |]; cbn [resT] in HPB; try exact HPB.
  destruct HPB as [[H1 H2] [H3 H4]]. cbn [fst snd] in *. auto.
Qed.

Theorem exh_sound_stmt P fwp : wt_program P = true -> scf2_fns fwp P (consts_scope P) = true ->
  wtx_fns P = true -> exh_fns P = true ->
  forall n fw g s en g' t,
    scf2_stmt fw P g s = Some (g', t) -> wtx_stmt P s = true -> exh_stmt P s = true ->
    genv P g -> env_ok P (Sem.scopes en) g -> env_rng P (Sem.scopes en) g ->
    match Sem.exec n P en s with
    | Sem.Done (v, en') =>
        has_ty P v t = true /\ in_rng P v t = true /\
        env_ok P (Sem.scopes en') g' /\ env_rng P (Sem.scopes en') g'
    | Sem.Stuck _ => False
    | Sem.Panicked _ _ | Sem.NoFuel => True
    end.
Proof.
  intros Hwt Hscf Hwx Hexh n fw g s en g' t Hsc Hx Hex Hg He Hr.
  destruct (exh_sound_all P fwp Hwt Hscf Hwx Hexh n) as (_ & _ & HPS).
  specialize (HPS fw g s en g' t Hsc Hx Hex Hg He Hr).
  destruct (Sem.exec n P en s) as [[v en']| | |]; cbn [resT] in HPS; try exact HPS.
  destruct HPS as [[H1 H2] [H3 H4]]. cbn [fst snd] in *. auto.
Qed.
Print Assumptions exh_sound_expr.
Print Assumptions exh_sound_block.
Print Assumptions exh_sound_stmt.

(* ------------------------------------------------------------------ programs, from the booleans *)

Lemma wt_covered_parts fw P : (fw <= wt_fuel)%nat -> wt_covered fw P = true ->
  wt_program P = true /\ scf_consts P = true /\ scf2_fns fw P (consts_scope P) = true /\
  wtx_fns P = true /\ main_ret_fits P = true.
Proof.
  intros Hle H. unfold wt_covered in H. apply andb_prop in H as [H Hfit]. apply andb_prop in H as [H3 Hx].
  pose proof (in_full_fragment3_wt fw P Hle H3 Hx) as Hwt. unfold in_full_fragment3 in H3.
  destruct (find_fn P (p_main P)); [|discriminate H3].
  apply andb_prop in H3 as [H3 Hf]. apply andb_prop in H3 as [_ Hc]. auto.
Qed.

(* Sem.v alone: a covered program with exhaustive matches, run on canonical inputs, ends with a
   result, a panic, or out of fuel *)
Theorem covered_exh_run_main P fuel fw args : (fw <= wt_fuel)%nat ->
  wt_covered fw P = true -> exh_fns P = true -> canonical_main_args P args = true ->
  (exists bits l, Sem.run_main fuel P args = Sem.RunOk bits l) \/
  (exists r m, Sem.run_main fuel P args = Sem.RunPanic r m) \/
  Sem.run_main fuel P args = Sem.RunNoFuel.
Proof.
  intros Hle Hcov Hexh Hcan. destruct (wt_covered_parts fw P Hle Hcov) as (Hwt & Hcs & Hf & Hx & Hfit).
  exact (exh_run_main P fw Hwt Hf Hx Hexh fuel args Hcs Hfit Hcan).
Qed.
Print Assumptions covered_exh_run_main.

(* THE PROGRAM THEOREM: the bit-level semantics and Sem.v agree, with a three-way conclusion --
   the Stuck disjunct of [TSemSemFullWt.wt_covered_agrees] is gone.  ([wt_covered] rejects the
   `join` built-in, so no side condition on EJoin is needed.) *)
Theorem wt_covered_exh_agrees P fuel fw fT args o outs : (fw <= wt_fuel)%nat ->
  wt_covered fw P = true -> exh_fns P = true ->
  canonical_main_args P args = true -> tsem_program fT P args = Ok (o, outs) ->
  (exists bits l, Sem.run_main fuel P args = Sem.RunOk bits l /\ o = None /\ outs = bits) \/
  (exists r m, Sem.run_main fuel P args = Sem.RunPanic r m /\ o = Some (preason_num (pr r), ploc32 (ploc_of m))) \/
  Sem.run_main fuel P args = Sem.RunNoFuel.
Proof.
  intros Hle Hcov Hexh Hcan Hrun.
  destruct (wt_covered_agrees P fuel fw fT args o outs Hle Hcov Hcan Hrun) as [_ [H|[H|[H|(_ & c & Hc & _)]]]]; auto.
  exfalso. destruct (covered_exh_run_main P fuel fw args Hle Hcov Hexh Hcan) as [(b & l & E)|[(r & m & E)|E]]; congruence.
Qed.
Print Assumptions wt_covered_exh_agrees.

(* ------------------------------------------------------------------ non-vacuity, findings *)

Module ExhExamples.
  Definition mm : meta := mkMeta 1 1 1 9.
  Definition u8 := TInt false 8.
  Definition u32 := TInt false 32.
  Definition i32 := TInt true 32.
  Definition five : list bool := [false; false; false; false; false; true; false; true].
  Definition one : list bool := [false; false; false; false; false; false; false; true].

  (* 1. the reported escape:  fn main(x: u8) -> u8 { match x { 0 => 1 } }
     Wt.v accepts it, the strict checker covers it, [frag_program] does not hold, the run on 5 is
     Stuck 41 while the bit-level semantics returns 0 -- and [exh_fns] REJECTS it *)
  Definition body1 : list stmt :=
    [St (SExpr (Ex (EMatch (Ex (EId 1) mm u8) [(Pat (PNumU 0) mm u8, Ex (ENumU 1 8) mm u8)]) mm u8)) mm].
  Definition P1 : program := mkProgram [] [] [mkFn 0 [(1, u8)] u8 body1] [] 0.
  Lemma P1_checks : (exh_fns P1, wt_program P1, frag_program P1, wt_covered 14 P1) = (false, true, false, true).
  Proof. vm_compute. reflexivity. Qed.
  Lemma P1_stuck : Sem.run_main 10 P1 [five] = Sem.RunStuck 41.
  Proof. vm_compute. reflexivity. Qed.
  Lemma P1_bits : tsem_program 10 P1 [five] = Ok (None, [false; false; false; false; false; false; false; false]).
  Proof. vm_compute. reflexivity. Qed.

  (* 2. an exhaustive match WITHOUT a catch-all arm:
        enum E { A, B(u8) }   fn main(e: E) -> u8 { match e { E::A => 0, E::B(x) => x } }
     outside [frag_program] (no irrefutable arm), accepted by [exh_fns]: the three-way theorem
     applies where [wt_covered_agrees_frag] does not *)
  Definition tE := TEnum 5.
  Definition body2 : list stmt :=
    [St (SExpr (Ex (EMatch (Ex (EId 1) mm tE)
       [(Pat (PEnumUnit 5 0) mm tE, Ex (ENumU 0 8) mm u8);
        (Pat (PEnumTup 5 1 [Pat (PId 2) mm u8]) mm tE, Ex (EId 2) mm u8)]) mm u8)) mm].
  Definition P2 : program := mkProgram [] [(5, [[]; [u8]])] [mkFn 0 [(1, tE)] u8 body2] [] 0.
  Lemma P2_checks : (exh_fns P2, wt_program P2, frag_program P2, wt_covered 14 P2) = (true, true, false, true).
  Proof. vm_compute. reflexivity. Qed.
  (* the value E::B(5): tag 1, payload 5 *)
  Lemma P2_runs : Sem.run_main 10 P2 [true :: five] = Sem.RunOk five false /\
                  tsem_program 10 P2 [true :: five] = Ok (None, five).
  Proof. split; vm_compute; reflexivity. Qed.
  Corollary P2_agrees fuel fT args o outs : canonical_main_args P2 args = true ->
    tsem_program fT P2 args = Ok (o, outs) ->
    (exists bits l, Sem.run_main fuel P2 args = Sem.RunOk bits l /\ o = None /\ outs = bits) \/
    (exists r m, Sem.run_main fuel P2 args = Sem.RunPanic r m /\ o = Some (preason_num (pr r), ploc32 (ploc_of m))) \/
    Sem.run_main fuel P2 args = Sem.RunNoFuel.
  Proof.
    apply (wt_covered_exh_agrees P2 fuel 14 fT args o outs).
    - rewrite wt_fuel_400. lia.
    - vm_compute. reflexivity.
    - vm_compute. reflexivity.
  Qed.

  (* 3. ranges that cover u8 without a catch-all: match x { 0..=9 => 1, 10..=255 => 2 } *)
  Definition body3 : list stmt :=
    [St (SExpr (Ex (EMatch (Ex (EId 1) mm u8)
       [(Pat (PURange 0 9) mm u8, Ex (ENumU 1 8) mm u8); (Pat (PURange 10 255) mm u8, Ex (ENumU 2 8) mm u8)]) mm u8)) mm].
  Definition P3 : program := mkProgram [] [] [mkFn 0 [(1, u8)] u8 body3] [] 0.
  Lemma P3_checks : (exh_fns P3, wt_program P3, frag_program P3, wt_covered 14 P3) = (true, true, false, true).
  Proof. vm_compute. reflexivity. Qed.
  (* ... and with a gap (10 is missing) the check fails *)
  Definition body3' : list stmt :=
    [St (SExpr (Ex (EMatch (Ex (EId 1) mm u8)
       [(Pat (PURange 0 9) mm u8, Ex (ENumU 1 8) mm u8); (Pat (PURange 11 255) mm u8, Ex (ENumU 2 8) mm u8)]) mm u8)) mm].
  Definition P3' : program := mkProgram [] [] [mkFn 0 [(1, u8)] u8 body3'] [] 0.
  Lemma P3'_checks : (exh_fns P3', wt_covered 14 P3') = (false, true).
  Proof. vm_compute. reflexivity. Qed.

  (* 4. FINDING: at the level of Wt.v alone the strengthening is FALSE.  Wt.ty_eqb identifies
     i32 and u32 (c05-literal-width-divergence), so Wt.v accepts
        fn main(x: i32) -> u8 { match x { 0..=4294967295 => 1 } }
     with the scrutinee and the pattern annotated u32; the match is exhaustive at the annotated
     type ([exh_fns] holds), and the run on x = -1 is Stuck 41.  The strict checker (Leibniz
     type equality at the variable) rejects the program, which is why the theorems above are
     stated for [scf2_*] / [wt_covered] and carry the range invariant. *)
  Definition body4 : list stmt :=
    [St (SExpr (Ex (EMatch (Ex (EId 1) mm u32)
       [(Pat (PURange 0 4294967295) mm u32, Ex (ENumU 1 8) mm u8)]) mm u8)) mm].
  Definition P4 : program := mkProgram [] [] [mkFn 0 [(1, i32)] u8 body4] [] 0.
  Lemma P4_checks : (exh_fns P4, wt_program P4, wt_covered 14 P4) = (true, true, false).
  Proof. vm_compute. reflexivity. Qed.
  Lemma P4_stuck : Sem.run_main 10 P4 [repeat true 32] = Sem.RunStuck 41.
  Proof. vm_compute. reflexivity. Qed.
  Theorem wt_level_strengthening_false :
    exists P args, wt_program P = true /\ exh_fns P = true /\ main_ret_fits P = true /\
      (exists d vals, find_fn P (p_main P) = Some d /\ Sem.decode_args P (fn_params d) args = Some vals) /\
      Sem.run_main 10 P args = Sem.RunStuck 41.
  Proof.
    exists P4, [repeat true 32].
    split; [vm_compute; reflexivity|]. split; [vm_compute; reflexivity|]. split; [vm_compute; reflexivity|].
    split; [|vm_compute; reflexivity].
    exists (mkFn 0 [(1, i32)] u8 body4), [(1, Sem.VInt (-1))]. split; vm_compute; reflexivity.
  Qed.

  (* 5. a CONSERVATIVE rejection (Wt.v / the strict checker are laxer than the real checker here):
     the literal pattern with the SIGNED spelling [PNumS 5] at the type u8.  Wt.v and [gpat_b]
     accept it (5 is in the range of u8) and Sem.pmatch matches the value 5; the real checker
     (check.rs, expect_signed_num_type) and Pat.pat_wt (implb sl sg) reject a signed literal
     pattern at an unsigned type, so [exh_fns] is false although the match has a catch-all arm *)
  Definition body5 : list stmt :=
    [St (SExpr (Ex (EMatch (Ex (EId 1) mm u8)
       [(Pat (PNumS 5) mm u8, Ex (ENumU 1 8) mm u8); (Pat (PId 2) mm u8, Ex (ENumU 2 8) mm u8)]) mm u8)) mm].
  Definition P5 : program := mkProgram [] [] [mkFn 0 [(1, u8)] u8 body5] [] 0.
  Lemma P5_checks : (exh_fns P5, wt_program P5, frag_program P5, wt_covered 14 P5) = (false, true, true, true).
  Proof. vm_compute. reflexivity. Qed.
  Lemma P5_pat_wt : EP.pat_wt (tr_env P5) (tr_ty u8) (tr_pat P5 (Pat (PNumS 5) mm u8)) = false.
  Proof. reflexivity. Qed.
End ExhExamples.
