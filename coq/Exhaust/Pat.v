(* C08 — patterns of `match`: a small type language, values, patterns and their documented
   semantics.  Definitions only (proofs: CoversProofs.v).

   Mirrors: the pattern language of garble_lang (ast.rs `PatternEnum`), the pattern type
   check of check.rs (`UntypedPattern::type_check`, with the repairs of this property:
   literal and range bounds must lie inside the scrutinee's integer type, a struct pattern
   names a field at most once), and the meaning of patterns as documented in
   garble_docs/src/guide (bounds exact, `..` ignores the remaining fields).

   Names (struct, enum, variant, field and variable names) are interned as [N] by the
   driver; [0] as a variable name is the wildcard `_`.  Struct definitions list their
   fields in the order of the Rust AST (the parser sorts them by name). *)
From GV Require Import Base.Util.
Local Open Scope Z_scope.

(* ---------------------------------------------------------------- types *)

Inductive ty : Type :=
| TBool
| TInt (sg : bool) (w : N)          (* sg = signed; w = width in bits (usize: w = 32) *)
| TTuple (ts : list ty)
| TStruct (n : N)
| TEnum (n : N).

(* variant payload: None = unit variant, Some ts = tuple variant *)
Record tyenv : Type := {
  structs : list (N * list (N * ty));
  enums : list (N * list (N * option (list ty)))
}.

Definition int_lo (sg : bool) (w : N) : Z :=
  if sg then - 2 ^ (Z.of_N w - 1) else 0.
Definition int_hi (sg : bool) (w : N) : Z :=
  if sg then 2 ^ (Z.of_N w - 1) - 1 else 2 ^ (Z.of_N w) - 1.
Definition in_int (sg : bool) (w : N) (z : Z) : bool :=
  (int_lo sg w <=? z) && (z <=? int_hi sg w).

(* ---------------------------------------------------------------- values, patterns *)

Inductive value : Type :=
| VBool (b : bool)
| VInt (z : Z)
| VTuple (vs : list value)
| VStruct (n : N) (fs : list (N * value))
| VEnum (n x : N) (vs : list value).      (* enum n, variant x, payload (empty for unit) *)

Inductive pattern : Type :=
| PVar (x : N)                             (* identifier; 0 = `_`; always matches *)
| PBool (b : bool)
| PNum (sl : bool) (z : Z)                 (* sl: written as a signed literal (SignedNum token) *)
| PRange (sl : bool) (lo hi : Z)           (* inclusive; `a..b` is stored as `a..=b-1` *)
| PTuple (ps : list pattern)
| PStruct (n : N) (fs : list (N * pattern)) (rest : bool)   (* rest = `..` present *)
| PEnum (n x : N) (ps : option (list pattern)).            (* None = unit variant *)

(* ---------------------------------------------------------------- helpers *)

Fixpoint assocN {A} (k : N) (l : list (N * A)) : option A :=
  match l with
  | [] => None
  | (k', a) :: r => if N.eqb k k' then Some a else assocN k r
  end.

Definition forall2b {A B} (f : A -> B -> bool) : list A -> list B -> bool :=
  fix go (l1 : list A) (l2 : list B) : bool :=
    match l1, l2 with
    | [], [] => true
    | a :: r1, b :: r2 => f a b && go r1 r2
    | _, _ => false
    end.

Definition memN (k : N) (l : list N) : bool := existsb (N.eqb k) l.

Fixpoint nodupN (l : list N) : bool :=
  match l with
  | [] => true
  | k :: r => negb (memN k r) && nodupN r
  end.

(* ---------------------------------------------------------------- typing of values *)

Fixpoint has_type (env : tyenv) (v : value) (t : ty) {struct v} : bool :=
  match v, t with
  | VBool _, TBool => true
  | VInt z, TInt sg w => in_int sg w z
  | VTuple vs, TTuple ts => forall2b (has_type env) vs ts
  | VStruct n fvs, TStruct n' =>
      N.eqb n n' &&
      match assocN n (structs env) with
      | Some fts =>
          forall2b (fun (fv : N * value) (ft : N * ty) =>
                      let '(f, v') := fv in
                      let '(f', t') := ft in
                      N.eqb f f' && has_type env v' t') fvs fts
      | None => false
      end
  | VEnum n x vs, TEnum n' =>
      N.eqb n n' &&
      match assocN n (enums env) with
      | Some variants =>
          match assocN x variants with
          | Some None => match vs with [] => true | _ => false end
          | Some (Some ts) => forall2b (has_type env) vs ts
          | None => false
          end
      | None => false
      end
  | _, _ => false
  end.

(* ---------------------------------------------------------------- meaning of patterns *)

Fixpoint pat_matches (p : pattern) (v : value) {struct p} : bool :=
  match p, v with
  | PVar _, _ => true
  | PBool b, VBool b' => Bool.eqb b b'
  | PNum _ z, VInt z' => z' =? z
  | PRange _ lo hi, VInt z' => (lo <=? z') && (z' <=? hi)
  | PTuple ps, VTuple vs => forall2b pat_matches ps vs
  | PStruct n fs _, VStruct n' fvs =>
      N.eqb n n' &&
      forallb (fun (fp : N * pattern) =>
                 let '(f, p') := fp in
                 match assocN f fvs with
                 | Some v' => pat_matches p' v'
                 | None => false
                 end) fs
  | PEnum n x pl, VEnum n' x' vs =>
      N.eqb n n' && N.eqb x x' &&
      match pl with
      | None => true
      | Some ps => forall2b pat_matches ps vs
      end
  | _, _ => false
  end.

(* the variables a pattern binds, left to right (the wildcard binds nothing) *)
Definition flat_zip {A B C} (f : A -> B -> list C) : list A -> list B -> list C :=
  fix go (l1 : list A) (l2 : list B) : list C :=
    match l1, l2 with
    | a :: r1, b :: r2 => f a b ++ go r1 r2
    | _, _ => []
    end.

Fixpoint pat_bind (p : pattern) (v : value) {struct p} : list (N * value) :=
  match p, v with
  | PVar x, _ => if N.eqb x 0 then [] else [(x, v)]
  | PTuple ps, VTuple vs => flat_zip pat_bind ps vs
  | PStruct _ fs _, VStruct _ fvs =>
      flat_map (fun (fp : N * pattern) =>
                  let '(f, p') := fp in
                  match assocN f fvs with
                  | Some v' => pat_bind p' v'
                  | None => []
                  end) fs
  | PEnum _ _ (Some ps), VEnum _ _ vs => flat_zip pat_bind ps vs
  | _, _ => []
  end.

(* ---------------------------------------------------------------- typing of patterns
   (check.rs:1593-1830, repaired: number and range bounds inside the type; no field twice) *)

Fixpoint pat_wt (env : tyenv) (t : ty) (p : pattern) {struct p} : bool :=
  match p with
  | PVar _ => true
  | PBool _ => match t with TBool => true | _ => false end
  | PNum sl z =>
      match t with
      | TInt sg w => (implb sl sg) && in_int sg w z
      | _ => false
      end
  | PRange sl lo hi =>
      match t with
      | TInt sg w => (implb sl sg) && in_int sg w lo && in_int sg w hi
      | _ => false
      end
  | PTuple ps =>
      match t with
      | TTuple ts => forall2b (fun p' t' => pat_wt env t' p') ps ts
      | _ => false
      end
  | PStruct n fs rest =>
      match t with
      | TStruct n' =>
          N.eqb n n' &&
          match assocN n (structs env) with
          | Some fts =>
              forallb (fun (fp : N * pattern) =>
                         let '(f, p') := fp in
                         match assocN f fts with
                         | Some t' => pat_wt env t' p'
                         | None => false
                         end) fs
              && nodupN (map fst fs)
              && (rest || forallb (fun ft : N * ty => memN (fst ft) (map fst fs)) fts)
          | None => false
          end
      | _ => false
      end
  | PEnum n x pl =>
      match t with
      | TEnum n' =>
          N.eqb n n' &&
          match assocN n (enums env) with
          | Some variants =>
              match assocN x variants, pl with
              | Some None, None => true
              | Some (Some ts), Some ps => forall2b (fun p' t' => pat_wt env t' p') ps ts
              | _, _ => false
              end
          | None => false
          end
      | _ => false
      end
  end.

(* ---------------------------------------------------------------- arm selection *)

Definition arm_matches (ps : list pattern) (v : value) : bool :=
  existsb (fun p => pat_matches p v) ps.

(* index and bindings of the first arm (source order) whose pattern matches *)
Fixpoint select_from (i : nat) (ps : list pattern) (v : value) : option (nat * list (N * value)) :=
  match ps with
  | [] => None
  | p :: r => if pat_matches p v then Some (i, pat_bind p v) else select_from (S i) r v
  end.

Definition select_arm (ps : list pattern) (v : value) : option (nat * list (N * value)) :=
  select_from 0 ps v.
