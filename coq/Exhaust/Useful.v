(* C08 -- a Gallina MODEL OF THE REAL exhaustiveness algorithm of the type checker
   (src/check.rs: check_exhaustiveness, enum Ctor, specialize, split_unsigned_range,
   split_signed_range, split_ctor, usefulness): Maranget-style usefulness with integer-range
   splitting, the early exit for a row of identifier patterns, the shortcut for columns
   that hold only identifier patterns, and the
   reconstruction of witness pattern stacks.  Definitions only (proofs: UsefulProofs.v).

   Differences of representation:
   - Rust patterns carry their type (`Pattern(enum, meta, ty)`); Pat.v's do not.  The types
     of the columns are threaded as a stack [ts] parallel to the pattern stacks; the head
     type plays the role of the type of `q[0]` in split_ctor.
   - u64 / i64 / u128 / i128 arithmetic is done in Z.  In `specialize` the guards
     `*min >= 0 && *max >= 0` in front of the comparisons of an unsigned literal / range
     with a signed constructor range are implied by those comparisons (an unsigned literal
     is >= 0, a constructor range is non-empty), so they are not repeated.
   - ARRAYS are not in Pat.v's type language and are left out (Ctor::Array* never occurs);
     the driver only sends array-free matches.
   - the `panic!("cannot split ..")` / `unwrap()` on a missing definition of split_ctor are
     modelled by "no constructor" ([]); well-typed inputs never reach them.
   - the recursion is on explicit [fuel] ([None] = out of fuel); [fuel_bound] is enough. *)
From GV Require Import Base.Util Exhaust.Pat.
Local Open Scope Z_scope.

(* ---------------------------------------------------------------- enum Ctor *)

Inductive ctor : Type :=
| CTrue
| CFalse
| CRange (sg : bool) (lo hi : Z)            (* Unsigned/SignedInclusiveRange(ty, min, max) *)
| CTuple (ts : list ty)
| CStruct (n : N) (fts : list (N * ty))     (* fields in definition order *)
| CVariant (n x : N) (o : option (list ty)).

(* the types of the columns a constructor opens *)
Definition ctor_tys (c : ctor) : list ty :=
  match c with
  | CTrue | CFalse | CRange _ _ _ => []
  | CTuple ts => ts
  | CStruct _ fts => map snd fts
  | CVariant _ _ o => match o with Some ts => ts | None => [] end
  end.

Definition wild : pattern := PVar 0.
Definition wilds {A} (l : list A) : list pattern := map (fun _ => wild) l.

Definition is_var (p : pattern) : bool := match p with PVar _ => true | _ => false end.

(* ---------------------------------------------------------------- specialize *)

(* zero or one stack *)
Definition specialize (c : ctor) (row : list pattern) : list (list pattern) :=
  match row with
  | [] => []
  | head :: tail =>
      match c with
      | CTrue => match head with PVar _ | PBool true => [tail] | _ => [] end
      | CFalse => match head with PVar _ | PBool false => [tail] | _ => [] end
      | CRange false mn mx =>
          match head with
          | PVar _ => [tail]
          | PNum false n => if (n =? mn) && (n =? mx) then [tail] else []
          | PRange false nmin nmax => if (nmin <=? mn) && (mx <=? nmax) then [tail] else []
          | _ => []
          end
      | CRange true mn mx =>
          match head with
          | PVar _ => [tail]
          | PNum _ n => if (n =? mn) && (n =? mx) then [tail] else []
          | PRange _ nmin nmax => if (nmin <=? mn) && (mx <=? nmax) then [tail] else []
          | _ => []
          end
      | CTuple field_types =>
          match head with
          | PVar _ => [wilds field_types ++ tail]
          | PTuple fields => [fields ++ tail]
          | _ => []
          end
      | CStruct struct_name field_types =>
          match head with
          | PVar _ => [wilds field_types ++ tail]
          | PStruct n fields _ =>
              if N.eqb struct_name n
              then [map (fun ft : N * ty => match assocN (fst ft) fields with
                                             | Some p => p
                                             | None => wild
                                             end) field_types ++ tail]
              else []
          | _ => []
          end
      | CVariant _ v1 fields =>
          match head with
          | PVar _ => [wilds (match fields with Some ts => ts | None => [] end) ++ tail]
          | PEnum _ v2 None => if N.eqb v1 v2 then [tail] else []
          | PEnum _ v2 (Some ps) => if N.eqb v1 v2 then [ps ++ tail] else []
          | _ => []
          end
      end
  end.

(* ---------------------------------------------------------------- range splitting *)

(* sort_unstable + dedup *)
Fixpoint insert_uniq (x : Z) (l : list Z) : list Z :=
  match l with
  | [] => [x]
  | y :: r => if x <? y then x :: l else if x =? y then l else y :: insert_uniq x r
  end.
Definition sort_dedup (l : list Z) : list Z := fold_right insert_uniq [] l.

Definition head_points (pts : pattern -> list Z) (rows : list (list pattern)) : list Z :=
  flat_map (fun r => match r with p :: _ => pts p | [] => [] end) rows.

(* the split points one row head contributes in split_unsigned_range *)
Definition pts_u (p : pattern) : list Z :=
  match p with
  | PNum false n => [n]
  | PNum true n => if 0 <=? n then [n] else []
  | PRange false mn mx => [mn; mx + 1]
  | PRange true mn mx => (if 0 <=? mn then [mn] else []) ++ (if 0 <=? mx then [mx + 1] else [])
  | _ => []
  end.

(* ... in split_signed_range *)
Definition pts_s (p : pattern) : list Z :=
  match p with
  | PNum _ n => [n]
  | PRange _ mn mx => [mn; mx + 1]
  | _ => []
  end.

(* `for range in split_points.windows(2)`, unsigned: NOTE that the singleton of a window is
   pushed before (outside) the test that the window lies inside [min, max] *)
Fixpoint windows_u (mn mx : Z) (sp : list Z) : list ctor :=
  match sp with
  | a :: ((b :: _) as r) =>
      (if a <? b - 1 then [CRange false a a] else [])
      ++ (if (mn <=? a) && (b - 1 <=? mx)
          then (if a <? b - 1 then [CRange false (a + 1) (b - 1)] else [CRange false a (b - 1)])
          else [])
      ++ windows_u mn mx r
  | _ => []
  end.

Fixpoint windows_s (mn mx : Z) (sp : list Z) : list ctor :=
  match sp with
  | a :: ((b :: _) as r) =>
      (if (mn <=? a) && (b - 1 <=? mx)
       then (if a <? b - 1 then [CRange true a a; CRange true (a + 1) (b - 1)] else [CRange true a (b - 1)])
       else [])
      ++ windows_s mn mx r
  | _ => []
  end.

Definition split_unsigned_range (rows : list (list pattern)) (mn mx : Z) : list ctor :=
  windows_u mn mx (sort_dedup ([mn; mx + 1] ++ head_points pts_u rows)).

Definition split_signed_range (rows : list (list pattern)) (mn mx : Z) : list ctor :=
  windows_s mn mx (sort_dedup ([mn; mx + 1] ++ head_points pts_s rows)).

(* ---------------------------------------------------------------- split_ctor *)

(* [t]: the type of the head column (Rust: the type stored in q[0]); [qh] = q[0] *)
Definition split_ctor (env : tyenv) (t : ty) (rows : list (list pattern)) (qh : pattern) : list ctor :=
  match t with
  | TBool => [CTrue; CFalse]
  | TInt false w =>
      match qh with
      | PVar _ => split_unsigned_range rows 0 (int_hi false w)
      | PNum false n => [CRange false n n]
      | PRange false mn mx => split_unsigned_range rows mn mx
      | _ => []                                   (* panic!("cannot split ..") *)
      end
  | TInt true w =>
      match qh with
      | PVar _ => split_signed_range rows (int_lo true w) (int_hi true w)
      | PNum _ n => [CRange true n n]
      | PRange _ mn mx => split_signed_range rows mn mx
      | _ => []                                   (* panic!("cannot split ..") *)
      end
  | TStruct n =>
      match assocN n (structs env) with
      | Some fts => [CStruct n fts]
      | None => []                                (* unwrap() on a missing definition *)
      end
  | TEnum n =>
      match assocN n (enums env) with
      | Some variants => map (fun vd : N * option (list ty) => CVariant n (fst vd) (snd vd)) variants
      | None => []
      end
  | TTuple ts => [CTuple ts]
  end.

(* ---------------------------------------------------------------- witness reconstruction *)

(* `witness.insert(0, ..)` / `split_off(fields.len().min(witness.len()))` *)
Definition rebuild (c : ctor) (w : list pattern) : list pattern :=
  match c with
  | CTrue => PBool true :: w
  | CFalse => PBool false :: w
  | CRange sg mn mx => PRange sg mn mx :: w
  | CTuple ts =>
      let k := Nat.min (length ts) (length w) in
      PTuple (firstn k w) :: skipn k w
  | CStruct n fts =>
      let k := Nat.min (length fts) (length w) in
      PStruct n (combine (map fst fts) (firstn k w)) false :: skipn k w
  | CVariant n x None => PEnum n x None :: w
  | CVariant n x (Some ts) =>
      let k := Nat.min (length ts) (length w) in
      PEnum n x (Some (firstn k w)) :: skipn k w
  end.

(* ---------------------------------------------------------------- usefulness *)

(* concatenation of optional lists, in order; None if any is None *)
Fixpoint oconcat {A} (l : list (option (list A))) : option (list A) :=
  match l with
  | [] => Some []
  | None :: _ => None
  | Some x :: r => match oconcat r with Some y => Some (x ++ y) | None => None end
  end.

(* [ts]: the types of the columns; [rows] = `patterns`.  Result: the witness stacks, in the
   order the Rust code pushes them. *)
Fixpoint useful (fuel : nat) (env : tyenv) (ts : list ty) (rows : list (list pattern))
    (q : list pattern) {struct fuel} : option (list (list pattern)) :=
  match fuel with
  | O => None
  | S f =>
      match rows with
      | [] => Some [q]
      | r0 :: _ =>
          match r0, q, ts with
          | [], _, _ => Some []
          | _, [], _ => Some []
          | _ :: _, _ :: _, [] => Some []        (* no column type: not a call the checker makes *)
          | _ :: _, qh :: qt, t :: trest =>
              if existsb (forallb is_var) rows then
                (* a row of identifiers matches every value: nothing is missing *)
                Some []
              else
              if is_var qh && forallb (fun r => match r with p :: _ => is_var p | [] => false end) rows
              then
                (* no row looks at this column *)
                match useful f env trest (map (@tl pattern) rows) qt with
                | Some ws => Some (map (cons wild) ws)
                | None => None
                end
              else
                oconcat
                  (map (fun c =>
                          let specialized := flat_map (specialize c) rows in
                          oconcat
                            (map (fun q' =>
                                    match useful f env (ctor_tys c ++ trest) specialized q' with
                                    | Some ws => Some (map (rebuild c) ws)
                                    | None => None
                                    end)
                                 (specialize c q)))
                       (split_ctor env t rows qh))
          end
      end
  end.

(* ---------------------------------------------------------------- fuel *)

(* size of a type, unfolding definitions to depth [d] *)
Fixpoint ty_size (env : tyenv) (d : nat) (t : ty) {struct d} : nat :=
  match d with
  | O => 1
  | S d' =>
      match t with
      | TBool | TInt _ _ => 1
      | TTuple ts => S (list_sum (map (ty_size env d') ts))
      | TStruct n =>
          match assocN n (structs env) with
          | Some fts => S (list_sum (map (fun ft : N * ty => ty_size env d' (snd ft)) fts))
          | None => 1
          end
      | TEnum n =>
          match assocN n (enums env) with
          | Some variants =>
              S (list_sum (map (fun vd : N * option (list ty) =>
                                  match snd vd with
                                  | Some ts => list_sum (map (ty_size env d') ts)
                                  | None => O
                                  end) variants))
          | None => 1
          end
      end
  end.

(* enough fuel for a stack of column types that unfold within depth [d]
   (UsefulProofs.useful_fuel): one more than the sum of their sizes *)
Definition fuel_bound (env : tyenv) (d : nat) (ts : list ty) : nat :=
  S (list_sum (map (ty_size env d) ts)).

(* ---------------------------------------------------------------- check_exhaustiveness *)

(* the witnesses of PatternsAreNotExhaustive; [Some []] = the match is accepted *)
Definition check_exhaustive (fuel : nat) (env : tyenv) (t : ty) (ps : list pattern)
  : option (list (list pattern)) :=
  useful fuel env [t] (map (fun p => [p]) ps) [wild].
