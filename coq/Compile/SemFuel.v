(* THE FUEL Lang/Sem.v NEEDS.

   [sem_need_e / sem_need_b / sem_need_s f P]: one more than the greatest fuel-depth below the
   node, exactly as [Sem.eval / exec_block / exec] consume fuel: every recursive call to one of
   the three costs one unit; the inner loops (over the elements of a list of expressions, the
   fields of a struct literal, the arms of a match, the accessors of an assignment, the
   statements of a block, the elements of the array of a `for` / join loop) cost nothing per
   iteration; patterns cost nothing ([Sem.pmatch] is structural); a call adds the need of the
   callee's body.  As in Compile/TSemTotal.v the parameter [f] only bounds the exploration:
   the value is meaningful when it is at most [f] (for a recursive program it exceeds [f]).

   [sem_no_nofuel]: if the need is at most [f] and at most the fuel, the answer is never
   [NoFuel] (every environment); [run_main_no_nofuel]: [sem_fuel_enough fuel P = true] excludes
   [RunNoFuel] for all inputs.  [sem_fuel_mono]: an answer other than [NoFuel] is stable under
   more fuel.  [wt_covered_fuel_agrees]: the program theorem with neither escape. *)
From Coq Require Import Lia ZArith.
From GV Require Import Base.Util Lang.Ast Lang.Wt Lang.ValTy Lang.WtSound Lang.WtShape
  Panic.PanicRec Panic.PanicSem Compile.Lower Compile.TSem Compile.TSemTotal Compile.TSemSemExpr
  Compile.TSemSemFull Compile.TSemSemFullCall Compile.TSemSemFullConst Compile.Fragment Compile.TSemSemFullWt.
From GV Require Lang.Sem.
Local Open Scope nat_scope.

(* ------------------------------------------------------------------ the need *)

Fixpoint sem_need_e (f : nat) (P : program) (e : expr) {struct f} : nat :=
  match f with
  | O => 1
  | S f' =>
      S (match e with
         | Ex ei _ _ =>
             match ei with
             | ETrue | EFalse | ENumU _ _ | ENumS _ _ | EId _ | ERange _ _ _ | EJoin _ _ _ _ => 0
             | EArrLit es | ETupLit es | EEnumLit _ _ es => maxl (sem_need_e f' P) es
             | EArrRep e1 _ | ETupAcc e1 _ | EFld e1 _ | ENeg e1 | ENot e1 | ECast _ e1 => sem_need_e f' P e1
             | EIdx a i => Nat.max (sem_need_e f' P a) (sem_need_e f' P i)
             | EStructLit _ fields => maxl (fun fe => sem_need_e f' P (snd fe)) fields
             | EMatch s arms =>
                 Nat.max (sem_need_e f' P s) (maxl (fun arm => sem_need_e f' P (snd arm)) arms)
             | EOp _ x y => Nat.max (sem_need_e f' P x) (sem_need_e f' P y)
             | EBlock b => sem_need_b f' P b
             | ECall fn args =>
                 Nat.max (maxl (sem_need_e f' P) args)
                         (match find_fn P fn with Some fd => sem_need_b f' P (fn_body fd) | None => 0 end)
             | EIf c a b => Nat.max (sem_need_e f' P c) (Nat.max (sem_need_e f' P a) (sem_need_e f' P b))
             end
         end)
  end
with sem_need_b (f : nat) (P : program) (b : list stmt) {struct f} : nat :=
  match f with
  | O => 1
  | S f' => S (maxl (sem_need_s f' P) b)
  end
with sem_need_s (f : nat) (P : program) (s : stmt) {struct f} : nat :=
  match f with
  | O => 1
  | S f' =>
      S (match s with
         | St si _ =>
             match si with
             | SLet _ e | SLetMut _ e | SExpr e => sem_need_e f' P e
             | SAssign _ accs e =>
                 Nat.max (sem_need_e f' P e)
                         (maxl (fun a => match a with AIdx _ i => sem_need_e f' P i | _ => 0 end) accs)
             | SFor _ arr body => Nat.max (sem_need_e f' P arr) (sem_need_b f' P body)
             | SJoinLoop _ _ a b body =>
                 Nat.max (Nat.max (sem_need_e f' P a) (sem_need_e f' P b)) (sem_need_b f' P body)
             end
         end)
  end.

(* ------------------------------------------------------------------ never NoFuel *)

Lemma nnf_bind {A B} (o : Sem.outcome A) (k : A -> Sem.outcome B) :
  o <> Sem.NoFuel -> (forall a, k a <> Sem.NoFuel) -> Sem.obind o k <> Sem.NoFuel.
Proof. intros Ho Hk. destruct o; cbn [Sem.obind]; try discriminate; [apply Hk|congruence]. Qed.

(* one step of the case analysis of a goal [_ <> NoFuel] *)
Ltac nf1 :=
  first
  [ assumption
  | discriminate
  | apply nnf_bind; [|let a := fresh "a" in intro a; try (destruct a as [? ?])]
  | match goal with |- (if ?c then _ else _) <> _ => destruct c end
  | match goal with |- match ?x with _ => _ end <> _ => destruct x end ].
Ltac nf := repeat nf1.

Lemma checked_nnf sg b m z : Sem.checked sg b m z <> Sem.NoFuel.
Proof. unfold Sem.checked. destruct (Sem.in_range sg b z); discriminate. Qed.

Lemma eval_binop_nnf o m rt tx x y l : Sem.eval_binop o m rt tx x y l <> Sem.NoFuel.
Proof.
  unfold Sem.eval_binop. destruct o, x, y; try discriminate;
    destruct (Sem.int_ty rt) as [[sg bits]|]; try discriminate;
    repeat match goal with |- context [if ?c then _ else _] => destruct c end; try discriminate;
    (apply nnf_bind; [apply checked_nnf|intro; discriminate]).
Qed.

Lemma eval_cast_nnf to from v : Sem.eval_cast to from v <> Sem.NoFuel.
Proof. unfold Sem.eval_cast. destruct to, v; discriminate. Qed.

Section NStep.
  Variable P : program.
  Variables f0 k m : nat.
  Hypothesis HeN : forall c en, sem_need_e f0 P c <= m -> Sem.eval k P en c <> Sem.NoFuel.
  Hypothesis HbN : forall b en, sem_need_b f0 P b <= m -> Sem.exec_block k P en b <> Sem.NoFuel.
  Hypothesis HsN : forall s en, sem_need_s f0 P s <= m -> Sem.exec k P en s <> Sem.NoFuel.

  Lemma nnf_ev_list : forall es en, maxl (sem_need_e f0 P) es <= m -> ev_list (Sem.eval k P) es en <> Sem.NoFuel.
  Proof.
    induction es as [|e r IH]; intros en H; cbn [ev_list]; [discriminate|]. mx.
    apply nnf_bind; [now apply HeN|]. intros [v en1]. apply nnf_bind; [now apply IH|]. intros [vs en2]. discriminate.
  Qed.

  Lemma nnf_ev_fields fields : maxl (fun fe => sem_need_e f0 P (snd fe)) fields <= m ->
    forall ds en, ev_fields (Sem.eval k P) fields ds en <> Sem.NoFuel.
  Proof.
    intro H. induction ds as [|[fname fty] r IH]; intro en; cbn [ev_fields]; [discriminate|].
    destruct (assocN fname fields) as [fe|] eqn:Ef; [|discriminate].
    apply nnf_bind; [apply HeN; exact (maxl_in _ _ _ H _ (assocN_in _ _ _ Ef))|].
    intros [v en1]. apply nnf_bind; [apply IH|]. intros [vs en2]. discriminate.
  Qed.

  Lemma nnf_ev_arms v en : forall arms, maxl (fun arm : pattern * expr => sem_need_e f0 P (snd arm)) arms <= m ->
    ev_arms P (Sem.eval k P) v en arms <> Sem.NoFuel.
  Proof.
    induction arms as [|[p body] r IH]; intro H; cbn [ev_arms]; [discriminate|]. mx. cbn [snd] in *.
    destruct (Sem.pmatch P p v); [|now apply IH].
    apply nnf_bind; [now apply HeN|]. intros [res en1]. discriminate.
  Qed.

  Lemma nnf_xb_go : forall ss last en, maxl (sem_need_s f0 P) ss <= m -> xb_go (Sem.exec k P) ss last en <> Sem.NoFuel.
  Proof.
    induction ss as [|s r IH]; intros last en H; cbn [xb_go]; [discriminate|]. mx.
    apply nnf_bind; [now apply HsN|]. intros [v en1]. now apply IH.
  Qed.

  Lemma nnf_x_accs mt : forall accs cur en path,
    maxl (fun a => match a with AIdx _ i => sem_need_e f0 P i | _ => 0 end) accs <= m ->
    x_accs P (Sem.eval k P) mt accs cur en path <> Sem.NoFuel.
  Proof.
    induction accs as [|a r IH]; intros cur en path H; cbn [x_accs]; [discriminate|]. mx.
    destruct a as [aty ie|tty i|sty fld].
    - apply nnf_bind; [now apply HeN|]. intros [vi en1]. nf; now apply IH.
    - nf; now apply IH.
    - nf; now apply IH.
  Qed.

  Lemma nnf_x_for p body : sem_need_b f0 P body <= m ->
    forall vs en, x_for P (Sem.exec_block k P) p body vs en <> Sem.NoFuel.
  Proof.
    intro H. induction vs as [|v r IH]; intro en; cbn [x_for]; [discriminate|].
    destruct (Sem.pmatch P p v); [|discriminate].
    apply nnf_bind; [now apply HbN|]. intros [u en1]. apply IH.
  Qed.

  Lemma nnf_x_join p body jt ta tb ys : sem_need_b f0 P body <= m ->
    forall xs en, x_join P (Sem.exec_block k P) p body jt ta tb ys xs en <> Sem.NoFuel.
  Proof.
    intro H. induction xs as [|x r IH]; intro en; cbn [x_join]; [discriminate|].
    destruct (Sem.join_key P jt ta x); [|discriminate]. cbv zeta.
    match goal with |- match ?f with _ => _ end <> _ => destruct f end; [|apply IH].
    destruct (Sem.pmatch P p _); [|discriminate].
    apply nnf_bind; [now apply HbN|]. intros [u en1]. apply IH.
  Qed.

  Lemma expr_nnf e en : sem_need_e (S f0) P e <= S m -> Sem.eval (S k) P en e <> Sem.NoFuel.
  Proof.
    destruct e as [ei mt t]. rewrite eval_eq. cbv zeta.
    destruct ei as [| |nu lb|z lb|name|es|e1 nr|a i|es|e1 i|e1 fld|name fields|ename variant args|s arms|e1|e1|o x y|b|fn args|jt ha a b|c a b|to e1|lo hi bits];
      cbn [sem_need_e]; intro H; apply le_S_n in H; mx.
    - discriminate.
    - discriminate.
    - discriminate.
    - discriminate.
    - nf.
    - apply nnf_bind; [now apply nnf_ev_list|]. intros [vs en1]. discriminate.
    - apply nnf_bind; [now apply HeN|]. intros [v en1]. discriminate.
    - apply nnf_bind; [now apply HeN|]. intros [va en1]. apply nnf_bind; [now apply HeN|]. intros [vi en2]. nf.
    - apply nnf_bind; [now apply nnf_ev_list|]. intros [vs en1]. discriminate.
    - apply nnf_bind; [now apply HeN|]. intros [v en1]. nf.
    - apply nnf_bind; [now apply HeN|]. intros [v en1]. nf.
    - destruct (assocN name (p_structs P)); [|discriminate].
      apply nnf_bind; [now apply nnf_ev_fields|]. intros [vs en1]. discriminate.
    - apply nnf_bind; [now apply nnf_ev_list|]. intros [vs en1]. discriminate.
    - apply nnf_bind; [now apply HeN|]. intros [v en1]. now apply nnf_ev_arms.
    - apply nnf_bind; [now apply HeN|]. intros [v en1]. nf. apply checked_nnf.
    - apply nnf_bind; [now apply HeN|]. intros [v en1]. nf.
    - destruct o;
        try (apply nnf_bind; [now apply HeN|]; intros [vx en1]; apply nnf_bind; [now apply HeN|]; intros [vy en2];
             apply nnf_bind; [apply eval_binop_nnf|intros [v len]; discriminate]).
      + apply nnf_bind; [now apply HeN|]. intros [vx en1]. destruct vx as [[]| | | |]; try discriminate. now apply HeN.
      + apply nnf_bind; [now apply HeN|]. intros [vx en1]. destruct vx as [[]| | | |]; try discriminate. now apply HeN.
    - apply nnf_bind; [now apply HbN|]. intros [v en1]. discriminate.
    - destruct (find_fn P fn) as [d|]; [|discriminate].
      apply nnf_bind; [now apply nnf_ev_list|]. intros [vs en1].
      destruct (negb _); [discriminate|]. cbv zeta.
      apply nnf_bind; [now apply HbN|]. intros [v en2]. discriminate.
    - discriminate.
    - apply nnf_bind; [now apply HeN|]. intros [vc en1]. destruct vc as [[]| | | |]; try discriminate; now apply HeN.
    - apply nnf_bind; [now apply HeN|]. intros [v en1]. apply nnf_bind; [|intro; discriminate].
      apply eval_cast_nnf.
    - discriminate.
  Qed.

  Lemma block_nnf b en : sem_need_b (S f0) P b <= S m -> Sem.exec_block (S k) P en b <> Sem.NoFuel.
  Proof. rewrite exec_block_eq. cbn [sem_need_b]. intro H. apply le_S_n in H. now apply nnf_xb_go. Qed.

  Lemma stmt_nnf s en : sem_need_s (S f0) P s <= S m -> Sem.exec (S k) P en s <> Sem.NoFuel.
  Proof.
    destruct s as [si mt]. rewrite exec_eq. cbv zeta.
    destruct si as [p e|x e|x accs e|p arr body|p jt a b body|e]; cbn [sem_need_s]; intro H; apply le_S_n in H; mx.
    - apply nnf_bind; [now apply HeN|]. intros [v en1]. nf.
    - apply nnf_bind; [now apply HeN|]. intros [v en1]. discriminate.
    - apply nnf_bind; [now apply HeN|]. intros [nv en0]. destruct (Sem.lookup_var en0 x); [|discriminate].
      apply nnf_bind; [now apply nnf_x_accs|]. intros [path en2]. nf.
    - apply nnf_bind; [now apply HeN|]. intros [va en1]. destruct va; try discriminate.
      apply nnf_bind; [now apply nnf_x_for|]. intro. discriminate.
    - apply nnf_bind; [now apply HeN|]. intros [va en1]. apply nnf_bind; [now apply HeN|]. intros [vb en2].
      destruct va; try discriminate. destruct vb; try discriminate.
      destruct (Sem.elem_ty_of (e_ty a)); try discriminate. destruct (Sem.elem_ty_of (e_ty b)); try discriminate.
      apply nnf_bind; [now apply nnf_x_join|]. intro. discriminate.
    - now apply HeN.
  Qed.
End NStep.

(* the need is at most the exploration bound and at most the fuel: never NoFuel *)
Theorem sem_no_nofuel_min P : forall f k,
  (forall e en, sem_need_e f P e <= Nat.min f k -> Sem.eval k P en e <> Sem.NoFuel) /\
  (forall b en, sem_need_b f P b <= Nat.min f k -> Sem.exec_block k P en b <> Sem.NoFuel) /\
  (forall s en, sem_need_s f P s <= Nat.min f k -> Sem.exec k P en s <> Sem.NoFuel).
Proof.
  induction f as [|f IH]; intro k.
  - repeat split; intros ? ? H; exfalso; cbn in H; lia.
  - destruct k as [|k]; [repeat split; intros ? ? H; exfalso; cbn in H; lia|].
    destruct (IH k) as (He & Hb & Hs). change (Nat.min (S f) (S k)) with (S (Nat.min f k)).
    repeat split; intros.
    + eapply expr_nnf; eassumption.
    + eapply block_nnf; eassumption.
    + eapply stmt_nnf; eassumption.
Qed.

Theorem sem_no_nofuel P f fuel :
  (forall e en, sem_need_e f P e <= f -> sem_need_e f P e <= fuel -> Sem.eval fuel P en e <> Sem.NoFuel) /\
  (forall b en, sem_need_b f P b <= f -> sem_need_b f P b <= fuel -> Sem.exec_block fuel P en b <> Sem.NoFuel) /\
  (forall s en, sem_need_s f P s <= f -> sem_need_s f P s <= fuel -> Sem.exec fuel P en s <> Sem.NoFuel).
Proof.
  destruct (sem_no_nofuel_min P f fuel) as (He & Hb & Hs).
  repeat split; intros; [apply He|apply Hb|apply Hs]; lia.
Qed.
Print Assumptions sem_no_nofuel.

(* in the form of Compile/TSemTotal.v: need <= fuel' <= f *)
Corollary sem_no_nofuel_le P f fuel' : fuel' <= f ->
  (forall e en, sem_need_e f P e <= fuel' -> Sem.eval fuel' P en e <> Sem.NoFuel) /\
  (forall b en, sem_need_b f P b <= fuel' -> Sem.exec_block fuel' P en b <> Sem.NoFuel) /\
  (forall s en, sem_need_s f P s <= fuel' -> Sem.exec fuel' P en s <> Sem.NoFuel).
Proof.
  intro Hle. destruct (sem_no_nofuel P f fuel') as (He & Hb & Hs).
  repeat split; intros; [apply He|apply Hb|apply Hs]; lia.
Qed.

(* ------------------------------------------------------------------ whole programs *)

(* exploration bound of [sem_need_*]: more than any fuel in use (the runner uses 2000) *)
Definition sem_fuel_cap : nat := 100 * 100.

(* the fuel [Sem.run_main] needs on [P]: the global constants are evaluated with the whole
   fuel, then main's body is executed with the whole fuel *)
Definition sem_fuel_needed (P : program) : nat :=
  Nat.max (maxl (fun c : N * expr => sem_need_e sem_fuel_cap P (snd c)) (p_consts P))
          (match find_fn P (p_main P) with
           | Some fd => sem_need_b sem_fuel_cap P (fn_body fd)
           | None => 0
           end).

(* what the extracted checker evaluates *)
Definition sem_fuel_enough (fuel : nat) (P : program) : bool :=
  (sem_fuel_needed P <=? fuel) && (sem_fuel_needed P <=? sem_fuel_cap).

Theorem run_main_fuel P fuel args : sem_fuel_needed P <= fuel -> sem_fuel_needed P <= sem_fuel_cap ->
  Sem.run_main fuel P args <> Sem.RunNoFuel.
Proof.
  unfold sem_fuel_needed. intros Hn Hc. apply Nat.max_lub_iff in Hn. destruct Hn as [Hn1 Hn2].
  apply Nat.max_lub_iff in Hc. destruct Hc as [Hc1 Hc2].
  destruct (sem_no_nofuel P sem_fuel_cap fuel) as (He & Hb & _).
  unfold Sem.run_main. destruct (find_fn P (p_main P)) as [d|]; [|discriminate].
  destruct (Sem.decode_args P (fn_params d) args) as [vals|]; [|discriminate].
  assert (Hcs : Sem.eval_consts fuel P <> Sem.NoFuel).
  { unfold Sem.eval_consts. generalize (Sem.mkEnv [[]] false).
    induction (p_consts P) as [|[x e] r IH]; intro en; [discriminate|]. mx. cbn [snd] in *.
    apply nnf_bind; [now apply He|]. intros [v en1]. now apply IH. }
  destruct (Sem.eval_consts fuel P) as [en0| | |]; try discriminate; [|congruence].
  specialize (Hb (fn_body d) (Sem.push_scope (Sem.bind_all (Sem.push_scope en0) vals)) Hc2 Hn2).
  destruct (Sem.exec_block fuel P _ (fn_body d)) as [[v en]| | |]; try discriminate; [|congruence].
  destruct (Sem.encode Sem.ty_fuel P (fn_ret d) v); discriminate.
Qed.

Corollary run_main_no_nofuel P fuel args : sem_fuel_enough fuel P = true -> Sem.run_main fuel P args <> Sem.RunNoFuel.
Proof.
  unfold sem_fuel_enough. intro H. apply andb_prop in H. destruct H as [H1 H2].
  apply Nat.leb_le in H1. apply Nat.leb_le in H2. now apply run_main_fuel.
Qed.
Print Assumptions run_main_no_nofuel.

(* ------------------------------------------------------------------ fuel monotonicity: an answer
   other than NoFuel (a value, a panic, Stuck) is the answer with any larger fuel *)

Definition ole {A} (o o' : Sem.outcome A) : Prop := o <> Sem.NoFuel -> o' = o.

Lemma ole_refl {A} (o : Sem.outcome A) : ole o o.
Proof. intro. reflexivity. Qed.

Lemma ole_bind {A B} (o o' : Sem.outcome A) (k k' : A -> Sem.outcome B) :
  ole o o' -> (forall a, ole (k a) (k' a)) -> ole (Sem.obind o k) (Sem.obind o' k').
Proof.
  intros H Hk Hn. destruct o as [a|r m|c|]; cbn [Sem.obind] in Hn |- *.
  - rewrite (H ltac:(discriminate)). cbn [Sem.obind]. now apply Hk.
  - now rewrite (H ltac:(discriminate)).
  - now rewrite (H ltac:(discriminate)).
  - contradiction.
Qed.

Ltac mo1 :=
  first
  [ apply ole_refl
  | assumption
  | apply ole_bind; [|let a := fresh "a" in intro a; try (destruct a as [? ?])]
  | match goal with |- ole (if ?c then _ else _) _ => destruct c end
  | match goal with |- ole (match ?x with _ => _ end) _ => destruct x end ].
Ltac mo := repeat mo1.

Section MStep.
  Variable P : program.
  Variables ev ev' : Sem.env -> expr -> Sem.outcome (Sem.value * Sem.env).
  Variables xb xb' : Sem.env -> list stmt -> Sem.outcome (Sem.value * Sem.env).
  Variables ex ex' : Sem.env -> stmt -> Sem.outcome (Sem.value * Sem.env).
  Hypothesis He : forall en e, ole (ev en e) (ev' en e).
  Hypothesis Hb : forall en b, ole (xb en b) (xb' en b).
  Hypothesis Hs : forall en s, ole (ex en s) (ex' en s).

  Lemma ole_ev_list : forall es en, ole (ev_list ev es en) (ev_list ev' es en).
  Proof.
    induction es as [|e r IH]; intro en; cbn [ev_list]; [apply ole_refl|].
    apply ole_bind; [apply He|]. intros [v en1]. apply ole_bind; [apply IH|]. intro. apply ole_refl.
  Qed.

  Lemma ole_ev_fields fields : forall ds en, ole (ev_fields ev fields ds en) (ev_fields ev' fields ds en).
  Proof.
    induction ds as [|[fname fty] r IH]; intro en; cbn [ev_fields]; [apply ole_refl|].
    destruct (assocN fname fields); [|apply ole_refl].
    apply ole_bind; [apply He|]. intros [v en1]. apply ole_bind; [apply IH|]. intro. apply ole_refl.
  Qed.

  Lemma ole_ev_arms v en : forall arms, ole (ev_arms P ev v en arms) (ev_arms P ev' v en arms).
  Proof.
    induction arms as [|[p body] r IH]; cbn [ev_arms]; [apply ole_refl|].
    destruct (Sem.pmatch P p v); [|exact IH]. apply ole_bind; [apply He|]. intro. apply ole_refl.
  Qed.

  Lemma ole_xb_go : forall ss last en, ole (xb_go ex ss last en) (xb_go ex' ss last en).
  Proof.
    induction ss as [|s r IH]; intros last en; cbn [xb_go]; [apply ole_refl|].
    apply ole_bind; [apply Hs|]. intros [v en1]. apply IH.
  Qed.

  Lemma ole_x_accs mt : forall accs cur en path, ole (x_accs P ev mt accs cur en path) (x_accs P ev' mt accs cur en path).
  Proof.
    induction accs as [|a r IH]; intros cur en path; cbn [x_accs]; [apply ole_refl|].
    destruct a as [aty ie|tty i|sty fld].
    - apply ole_bind; [apply He|]. intros [vi en1]. mo; apply IH.
    - mo; apply IH.
    - mo; apply IH.
  Qed.

  Lemma ole_x_for p body : forall vs en, ole (x_for P xb p body vs en) (x_for P xb' p body vs en).
  Proof.
    induction vs as [|v r IH]; intro en; cbn [x_for]; [apply ole_refl|].
    destruct (Sem.pmatch P p v); [|apply ole_refl]. apply ole_bind; [apply Hb|]. intros [u en1]. apply IH.
  Qed.

  Lemma ole_x_join p body jt ta tb ys : forall xs en,
    ole (x_join P xb p body jt ta tb ys xs en) (x_join P xb' p body jt ta tb ys xs en).
  Proof.
    induction xs as [|x r IH]; intro en; cbn [x_join]; [apply ole_refl|].
    destruct (Sem.join_key P jt ta x); [|apply ole_refl]. cbv zeta.
    match goal with |- ole (match ?f with _ => _ end) _ => destruct f end; [|apply IH].
    destruct (Sem.pmatch P p _); [|apply ole_refl]. apply ole_bind; [apply Hb|]. intros [u en1]. apply IH.
  Qed.
End MStep.

Theorem sem_fuel_mono P : forall k k', k <= k' ->
  (forall en e, ole (Sem.eval k P en e) (Sem.eval k' P en e)) /\
  (forall en b, ole (Sem.exec_block k P en b) (Sem.exec_block k' P en b)) /\
  (forall en s, ole (Sem.exec k P en s) (Sem.exec k' P en s)).
Proof.
  induction k as [|k IH]; intros k' Hle.
  - repeat split; intros en x Hn; exfalso; apply Hn; reflexivity.
  - destruct k' as [|k']; [lia|]. destruct (IH k' ltac:(lia)) as (He & Hb & Hs).
    pose proof (ole_ev_list _ _ He) as Hl. pose proof (ole_ev_arms P _ _ He) as Ha.
    pose proof (fun fields => ole_ev_fields _ _ He fields) as Hf.
    split; [|split].
    + intros en [ei mt t]. rewrite !eval_eq. cbv zeta.
      destruct ei as [| |nu lb|z lb|name|es|e1 nr|a i|es|e1 i|e1 fld|name fields|ename variant args|s arms|e1|e1|o x y|b|fn args|jt ha a b|c a b|to e1|lo hi bits];
        try apply ole_refl.
      * apply ole_bind; [apply Hl|]. intro. apply ole_refl.
      * apply ole_bind; [apply He|]. intro. apply ole_refl.
      * apply ole_bind; [apply He|]. intros [va en1]. apply ole_bind; [apply He|]. intro. apply ole_refl.
      * apply ole_bind; [apply Hl|]. intro. apply ole_refl.
      * apply ole_bind; [apply He|]. intro. apply ole_refl.
      * apply ole_bind; [apply He|]. intro. apply ole_refl.
      * destruct (assocN name (p_structs P)); [|apply ole_refl]. apply ole_bind; [apply Hf|]. intro. apply ole_refl.
      * apply ole_bind; [apply Hl|]. intro. apply ole_refl.
      * apply ole_bind; [apply He|]. intros [v en1]. apply Ha.
      * apply ole_bind; [apply He|]. intro. apply ole_refl.
      * apply ole_bind; [apply He|]. intro. apply ole_refl.
      * destruct o;
          try (apply ole_bind; [apply He|]; intros [vx en1]; apply ole_bind; [apply He|]; intro; apply ole_refl).
        -- apply ole_bind; [apply He|]. intros [vx en1]. destruct vx as [[]| | | |]; try apply ole_refl. apply He.
        -- apply ole_bind; [apply He|]. intros [vx en1]. destruct vx as [[]| | | |]; try apply ole_refl. apply He.
      * apply ole_bind; [apply Hb|]. intro. apply ole_refl.
      * destruct (find_fn P fn) as [d|]; [|apply ole_refl].
        apply ole_bind; [apply Hl|]. intros [vs en1]. destruct (negb _); [apply ole_refl|]. cbv zeta.
        apply ole_bind; [apply Hb|]. intro. apply ole_refl.
      * apply ole_bind; [apply He|]. intros [vc en1]. destruct vc as [[]| | | |]; try apply ole_refl; apply He.
      * apply ole_bind; [apply He|]. intro. apply ole_refl.
    + intros en b. rewrite !exec_block_eq. now apply ole_xb_go.
    + intros en [si mt]. rewrite !exec_eq. cbv zeta.
      destruct si as [p e|x e|x accs e|p arr body|p jt a b body|e].
      * apply ole_bind; [apply He|]. intro. apply ole_refl.
      * apply ole_bind; [apply He|]. intro. apply ole_refl.
      * apply ole_bind; [apply He|]. intros [nv en0]. destruct (Sem.lookup_var en0 x); [|apply ole_refl].
        apply ole_bind; [now apply ole_x_accs|]. intro. apply ole_refl.
      * apply ole_bind; [apply He|]. intros [va en1]. destruct va; try apply ole_refl.
        apply ole_bind; [now apply ole_x_for|]. intro. apply ole_refl.
      * apply ole_bind; [apply He|]. intros [va en1]. apply ole_bind; [apply He|]. intros [vb en2].
        destruct va; try apply ole_refl. destruct vb; try apply ole_refl.
        destruct (Sem.elem_ty_of (e_ty a)); try apply ole_refl. destruct (Sem.elem_ty_of (e_ty b)); try apply ole_refl.
        apply ole_bind; [now apply ole_x_join|]. intro. apply ole_refl.
      * apply He.
Qed.
Print Assumptions sem_fuel_mono.

(* whole programs: a run that does not end with RunNoFuel ends the same way with more fuel *)
Theorem run_main_mono P args k k' : k <= k' -> Sem.run_main k P args <> Sem.RunNoFuel ->
  Sem.run_main k' P args = Sem.run_main k P args.
Proof.
  intros Hle. destruct (sem_fuel_mono P k k' Hle) as (He & Hb & _). unfold Sem.run_main.
  destruct (find_fn P (p_main P)) as [d|]; [|reflexivity].
  destruct (Sem.decode_args P (fn_params d) args) as [vals|]; [|reflexivity].
  assert (Hcs : ole (Sem.eval_consts k P) (Sem.eval_consts k' P)).
  { unfold Sem.eval_consts. generalize (Sem.mkEnv [[]] false).
    induction (p_consts P) as [|[x e] r IH]; intro en; [apply ole_refl|].
    apply ole_bind; [apply He|]. intros [v en1]. apply IH. }
  destruct (Sem.eval_consts k P) as [en0| | |] eqn:Ec; intro Hn;
    try (rewrite (Hcs ltac:(discriminate)); reflexivity); [|contradiction].
  rewrite (Hcs ltac:(discriminate)).
  specialize (Hb (Sem.push_scope (Sem.bind_all (Sem.push_scope en0) vals)) (fn_body d)).
  destruct (Sem.exec_block k P _ (fn_body d)) as [[v en]| | |] eqn:Eb;
    try (rewrite (Hb ltac:(discriminate)); reflexivity). contradiction.
Qed.
Print Assumptions run_main_mono.

(* with enough fuel the answer does not depend on the fuel *)
Corollary run_main_stable P args fuel fuel' : sem_fuel_enough fuel P = true -> fuel <= fuel' ->
  Sem.run_main fuel' P args = Sem.run_main fuel P args.
Proof. intros H Hle. apply run_main_mono; [exact Hle|now apply run_main_no_nofuel]. Qed.

(* ------------------------------------------------------------------ the program theorems without
   the NoFuel escape.  The last disjunct is the one of [wt_covered_agrees], unchanged. *)

Theorem wt_covered_fuel_agrees P fuel fw fT args o outs : fw <= wt_fuel ->
  wt_covered fw P = true -> sem_fuel_enough fuel P = true ->
  canonical_main_args P args = true -> tsem_program fT P args = Ok (o, outs) ->
  (exists bits l, Sem.run_main fuel P args = Sem.RunOk bits l /\ o = None /\ outs = bits) \/
  (exists r m, Sem.run_main fuel P args = Sem.RunPanic r m /\ o = Some (preason_num (pr r), ploc32 (ploc_of m))) \/
  (frag_program P = false /\ exists c, Sem.run_main fuel P args = Sem.RunStuck c /\ In c stuck_allowed).
Proof.
  intros Hle Hc Hf Hcan Hrun. pose proof (run_main_no_nofuel P fuel args Hf) as Hn.
  destruct (wt_covered_agrees P fuel fw fT args o outs Hle Hc Hcan Hrun) as [_ [H|[H|[H|H]]]]; auto. contradiction.
Qed.
Print Assumptions wt_covered_fuel_agrees.

Corollary wt_covered_fuel_agrees_frag P fuel fw fT args o outs : fw <= wt_fuel ->
  wt_covered fw P = true -> sem_fuel_enough fuel P = true -> frag_program P = true ->
  canonical_main_args P args = true -> tsem_program fT P args = Ok (o, outs) ->
  (exists bits l, Sem.run_main fuel P args = Sem.RunOk bits l /\ o = None /\ outs = bits) \/
  (exists r m, Sem.run_main fuel P args = Sem.RunPanic r m /\ o = Some (preason_num (pr r), ploc32 (ploc_of m))).
Proof.
  intros Hle Hc Hf Hfr Hcan Hrun.
  destruct (wt_covered_fuel_agrees P fuel fw fT args o outs Hle Hc Hf Hcan Hrun) as [H|[H|[H _]]]; auto. congruence.
Qed.
Print Assumptions wt_covered_fuel_agrees_frag.

(* the same for every covered program that Wt.v accepts *)
Theorem covered_wt_program_fuel_agrees P fuel fw fT args o outs :
  covered_program fw P = true -> wt_program P = true -> main_ret_fits P = true -> sem_fuel_enough fuel P = true ->
  canonical_main_args P args = true -> tsem_program fT P args = Ok (o, outs) ->
  (exists bits l, Sem.run_main fuel P args = Sem.RunOk bits l /\ o = None /\ outs = bits) \/
  (exists r m, Sem.run_main fuel P args = Sem.RunPanic r m /\ o = Some (preason_num (pr r), ploc32 (ploc_of m))) \/
  (frag_program P = false /\ exists c, Sem.run_main fuel P args = Sem.RunStuck c /\ In c stuck_allowed).
Proof.
  intros Hcov Hwt Hfit Hf Hcan Hrun. pose proof (run_main_no_nofuel P fuel args Hf) as Hn.
  destruct (covered_wt_program_agrees P fuel fw fT args o outs Hcov Hwt Hfit Hcan Hrun) as [H|[H|[H|H]]]; auto.
  contradiction.
Qed.
Print Assumptions covered_wt_program_fuel_agrees.

(* ------------------------------------------------------------------ examples *)

Module SemFuelExamples.
  Import TSemArith1.

  (* the program of TSemSemFullCall.SanityFullCall (two callees, a loop, a match): the bound is
     exact: an answer with [sem_fuel_needed] units, out of fuel with one less *)
  Definition P0 := SanityFullCall.P0.
  Definition A0 : list (list bool) := [SanityFullCall.arr_bits 10%Z 20%Z 30%Z; SanityFullCall.line_bits 7%Z].
  Definition status (f : nat) : nat :=
    match Sem.run_main f P0 A0 with Sem.RunOk _ _ => 0 | Sem.RunPanic _ _ => 1 | Sem.RunStuck _ => 2 | Sem.RunNoFuel => 3 end.
  Example needed_exact :
    sem_fuel_needed P0 = 10 /\ sem_fuel_enough 2000 P0 = true /\ status 10 = 0 /\ status 9 = 3.
  Proof. vm_compute. repeat split. Qed.

  (* fn main(a: u32) -> u32 { main(a) }: Wt.v accepts a recursive program (a call is checked against
     the signature only); Sem.v is out of fuel for every fuel, the need exceeds the cap and
     [sem_fuel_enough] is false *)
  Definition PR := TSemTotal.FuelExamples.PR.
  Example recursion_accepted :
    wt_program PR = true /\ sem_fuel_enough 2000 PR = false /\ Nat.ltb sem_fuel_cap (sem_fuel_needed PR) = true /\
    Sem.run_main 300 PR [repeat true 32] = Sem.RunNoFuel.
  Proof. vm_compute. repeat split. Qed.
End SemFuelExamples.
