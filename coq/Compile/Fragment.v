(* Executable membership tests for the fragments on which "bit-level semantics = source
   semantics" is a THEOREM, so that every check can report, per program it ran, whether the
   agreement it observed was proved or only sampled. *)
From GV Require Import Base.Util Lang.Ast Lang.Wt Compile.Lower Compile.TSem Panic.PanicRec Panic.PanicSem
  Compile.TSemFacts Compile.TSemSemExpr Compile.TSemSemStmt Compile.TSemSemCall Compile.TSemSemMatch Compile.TSemSemFull Compile.TSemSemFullCall Compile.TSemSemFullConst.
From GV Require Lang.Sem.

(* main has scalar parameters, no global constants, and its body is in the imperative scalar
   fragment and passes the strict checker (which implies Wt.v's) at its declared return type *)
Definition in_imp_fragment (fw : nat) (P : program) : bool :=
  match p_consts P, find_fn P (p_main P) with
  | [], Some d =>
      forallb (fun p : N * ty => scalar_ty (snd p)) (fn_params d)
      && match sc_block fw ([] :: tbind_all [[]; []] (fn_params d) true) (fn_body d) with
         | Some t => vt_eqb t (fn_ret d)
         | None => false
         end
      && forallb imp_stmt (fn_body d)
  | _, _ => false
  end.

Theorem in_imp_fragment_sound P fuel fw fT args o outs :
  in_imp_fragment fw P = true ->
  tsem_program fT P args = Ok (o, outs) ->
  match Sem.run_main fuel P args with
  | Sem.RunOk bits _ => o = None /\ outs = bits
  | Sem.RunPanic r m => o = Some (preason_num (pr r), ploc32 (ploc_of m))
  | Sem.RunStuck _ | Sem.RunNoFuel => True
  end.
Proof.
  unfold in_imp_fragment. intro H.
  destruct (p_consts P) as [|c cs] eqn:Hc; [|discriminate].
  destruct (find_fn P (p_main P)) as [d|] eqn:Hf; [|discriminate].
  apply andb_true_iff in H as [H H3]. apply andb_true_iff in H as [H1 H2].
  destruct (sc_block fw ([] :: tbind_all [[]; []] (fn_params d) true) (fn_body d)) as [t|] eqn:Hs; [|discriminate].
  apply vt_eqb_eq in H2. subst t.
  intro Hrun. eapply tsem_sem_program; eauto.
Qed.
Print Assumptions in_imp_fragment_sound.

(* the larger fragment of Compile/TSemSemCall.v (calls between functions of the fragment, `for`
   over ranges), or the one above (which allows unused functions outside the fragment) *)
Definition in_proved_fragment (fw : nat) (P : program) : bool :=
  in_imp_fragment fw P || in_imp_fragment2 fw P || in_imp_fragment3 fw P.

Theorem in_proved_fragment_sound P fuel fw fT args o outs :
  in_proved_fragment fw P = true ->
  tsem_program fT P args = Ok (o, outs) ->
  match Sem.run_main fuel P args with
  | Sem.RunOk bits _ => o = None /\ outs = bits
  | Sem.RunPanic r m => o = Some (preason_num (pr r), ploc32 (ploc_of m))
  | Sem.RunStuck _ | Sem.RunNoFuel => True
  end.
Proof.
  unfold in_proved_fragment. intro H. apply orb_true_iff in H as [H|H]; [apply orb_true_iff in H as [H|H]|].
  - now apply in_imp_fragment_sound with (fw := fw).
  - now apply in_imp_fragment2_sound with (fw := fw).
  - now apply in_imp_fragment3_sound with (fw := fw).
Qed.
Print Assumptions in_proved_fragment_sound.

(* THE FULL FRAGMENT (Compile/TSemSemFull.v): all expression, statement and pattern forms except
   the join built-ins and `*` with a literal operand, over values of every type; with function
   calls (TSemSemFullCall.v) and global constants (TSemSemFullConst.v).  The arguments must be canonical encodings (decode-then-encode is the
   identity on them: e.g. zero padding bits of enums): [canonical_main_args], a boolean test per
   input that the extracted checker evaluates as well. *)
Definition covered_program (fw : nat) (P : program) : bool :=
  in_proved_fragment fw P || in_full_fragment fw P || in_full_fragment2 fw P || in_full_fragment3 fw P.

Theorem covered_program_sound P fuel fw fT args o outs :
  covered_program fw P = true -> canonical_main_args P args = true ->
  tsem_program fT P args = Ok (o, outs) ->
  match Sem.run_main fuel P args with
  | Sem.RunOk bits _ => o = None /\ outs = bits
  | Sem.RunPanic r m => o = Some (preason_num (pr r), ploc32 (ploc_of m))
  | Sem.RunStuck _ | Sem.RunNoFuel => True
  end.
Proof.
  unfold covered_program. intros H Hc Hr.
  apply orb_true_iff in H as [H|H]; [apply orb_true_iff in H as [H|H]; [apply orb_true_iff in H as [H|H]|]|].
  - now apply in_proved_fragment_sound with (fw := fw) (fT := fT).
  - pose proof (in_full_fragment_sound P fuel fw fT args o outs H Hc Hr) as HH.
    destruct (Sem.run_main fuel P args); auto.
  - pose proof (in_full_fragment2_sound P fuel fw fT args o outs H Hc Hr) as HH.
    destruct (Sem.run_main fuel P args); auto.
  - pose proof (in_full_fragment3_sound P fuel fw fT args o outs H Hc Hr) as HH.
    destruct (Sem.run_main fuel P args); auto.
Qed.
Print Assumptions covered_program_sound.
