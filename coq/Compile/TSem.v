(* Bit-level semantics of programs: the generic lowering of Compile/Lower.v instantiated with
   BOOLEANS as wires and the Boolean functions of Gadgets/GadgetSpec.v, Sort/Sort.v and
   Panic/PanicSem.v as operations.  No gate store, no cache, no rewriting, no pruning: a
   wire IS its value on the input under consideration; the compiler state is the observable
   content of the panic record ([None], or the reason number and location of the first
   failure).  LowerSim.v proves that every circuit the model of compile.rs emits computes
   exactly this function, for all inputs (both settings of gate de-duplication).
   Definitions only.

   Each operation refuses ([Crash]) the argument shapes its builder counterpart refuses or
   is not specified for (operands of different lengths, elements of different lengths in a
   sorting network); compile.rs never produces these. *)
From GV Require Import Base.Util Lang.Ast Gadgets.GadgetSpec Sort.Sort Panic.PanicRec Panic.PanicSem
  Compile.Lower.

Definition pobs := option (N * ploc).

Definition tret {A} (a : A) : pobs -> res (A * pobs) := fun o => Ok (a, o).

Definition same_len {A B} (x : list A) (y : list B) : bool := (length x =? length y)%nat.
Definition nonempty {A} (x : list A) : bool := match x with [] => false | _ => true end.

(* all elements have the length of the first one, and the key fits *)
Definition elems_shape (bits : nat) (v : list (list bool)) : bool :=
  match v with
  | [] => true
  | x :: _ => forallb (fun y => (length y =? length x)%nat) v && (bits <=? length x)%nat
  end.

Definition ploc_of (m : meta) : ploc := mkPLoc (m_sl m) (m_sc m) (m_el m) (m_ec m).

Definition tops : ops bool pobs pobs := {|
  w0 := false;
  w1 := true;
  o_xor := fun x y => tret (xorb x y);
  o_and := fun x y => tret (andb x y);
  o_or := fun x y => tret (orb x y);
  o_eq := fun x y => tret (negb (xorb x y));
  o_not := fun x => tret (negb x);
  o_mux := fun s x0 x1 => tret (if s then x0 else x1);
  o_negation := fun x => tret (negation_s x);
  o_addition := fun x y o => if same_len x y then Ok (addition_s x y, o) else Crash;
  o_subtraction := fun x y sg o =>
    if same_len x y && (negb sg || nonempty x) then Ok (subtraction_s x y sg, o) else Crash;
  o_multiplier := fun x y z c => tret (multiplier_s x y z c);
  o_udiv := fun x y o => if same_len x y then Ok (udiv_s x y, o) else Crash;
  o_sdiv := fun x y o => if same_len x y && nonempty x then Ok (sdiv_s x y, o) else Crash;
  o_comparator := fun bits x sx y sy o =>
    if ((bits <=? length x) && (bits <=? length y))%nat then Ok (cmp_s bits x sx y sy, o) else Crash;
  o_eq_circuit := fun x y => tret (eq_s x y);
  o_merger := fun bits asc v o =>
    if elems_shape bits v then Ok (bitonic_merger (gt_key bits) asc v, o) else Crash;
  o_sorter := fun bits v o =>
    if elems_shape bits v then Ok (bitonic_sorter (gt_key bits) v, o) else Crash;
  o_panic_if := fun c r m o => Ok (tt, push_spec o c r (ploc_of m));
  o_peek := fun o => Ok (o, o);
  o_replace := fun P o => Ok (o, P);
  o_mux_panic := fun c T F o => Ok (if c then T else F, o)
|}.

(* [args]: the bits of each parameter of main, in order.  Result: the panic observation and
   the bits of the returned value. *)
Definition tsem_program (fuel : nat) (P : program) (args : list (list bool)) : res (pobs * list bool) :=
  match find_fn P (p_main P) with
  | None => Crash
  | Some fd =>
      if negb (same_len (fn_params fd) args) then Crash else
      let* E0 := main_env tops P (combine (map fst (fn_params fd)) args) in
      let* ((outs, _), o) := lower_block tops fuel P (fn_body fd) E0 None in
      Ok (o, outs)
  end.

(* the 161 bits with which a circuit reports an observation *)
Definition tbits (n : N) (k : nat) : list bool :=
  map (fun i => N.testbit n (N.of_nat (k - 1 - i))) (seq 0 k).
