(* THE ASSEMBLY (version without calls): one fragment, one strict boolean checker, one induction,
   one program theorem for the UNION of
     - the scalar operator nodes of Compile/TSemSemStmt.v Part 2 (replayed in Section ScalarG for
       any value relation that is the scalar encoding on scalar types),
     - the control-flow / statement nodes of Compile/TSemSemStmt.v Part 1 (if, && ||, blocks,
       let mut, expression statements),
     - all the aggregate / pattern / match nodes of Compile/TSemSemAgg.v,
   over the value relation [VRa P t v w := has_enc P t v w /\ ty_fits P t] and [env_rel3].
   Every KP premise is discharged by [KP_all].  Partial correctness, as before.

   [ty_beq]            Leibniz equality of types as a boolean ([ty_beq_eq], [ty_beq_refl])
   [gpat_b irr p t]    the bindings of a pattern of type t; irr = true: only identifier / tuple /
                       struct patterns ([pat_b_sound] : pat_ok), irr = false: all patterns
                       ([gpat_b_sound] : gpat_ok).  Struct patterns: the definition has distinct
                       field names, the named fields come in definition order, none twice.
   [scf_expr / scf_block / scf_stmt]   the strict checker.  Side conditions enforced:
     literals          lit_fits at the annotated integer type
     identifiers       declared type = annotation (ty_beq)
     [e; ..] [e; n]    element types = el, length = n, ty_fits of the array type
     a[i]              e_ty a = TArr t n, e_ty i = TInt false b, b <= 32, n < 2^32, 1 <= size of t
     (e, ..) / e.i     annotation = TTup (types of the components), ty_fits / i-th component type
     S { f: e, .. }    every field named once (nodupN), all fields of the definition present
                       (struct_exprs), field types = definition, ty_fits; e.f: type of the field
     E::V(args)        variant exists, argument types = payload types, ty_fits
     match             every arm: gpat_b false at the scrutinee type, body checked in the context of
                       the bindings, body type = annotation; program: enums_small
     - ! casts, binary operators   as [sc_op] / TSemSemStmt.v (scalar types of width 8/16/32/64,
                       equal annotations); `*` with a literal operand: [scf_op] (the side conditions
                       of Compile/TSemSemMul.v, or the rewrite does not fire)
     if                condition bool, both branch types = annotation
     lo..hi            annotation = [uN; hi - lo], hi <= 2^N
     let p = e         gpat_b true at e_ty e; let mut; x.accs = e: x mutable, every accessor
                       annotated with the current type, index conditions as for a[i], final type =
                       e_ty e; for p in arr: e_ty arr = TArr el n, gpat_b true at el
     excluded          calls (next version), join / join loops, `*` literal
   [agree_all_full], [tsem_sem_full_expr / _stmt / _block], [tsem_sem_program_full] (parameters and
   result of any type; CANONICAL argument bits: [canonical_args]), [in_full_fragment],
   [in_full_fragment_sound]; [SanityFull]. *)
From Coq Require Import Lia ZArith.
From GV Require Import Base.Util Base.Bits Base.BitsProofs Lang.Ast Lang.Wt Lang.ValTy Lang.WtShape
  Gadgets.Gadgets Gadgets.GadgetSpec Gadgets.Arith Panic.PanicRec Panic.PanicSem Compile.Lower
  Compile.TSem Compile.TSemFacts Compile.TSemArith1 Compile.TSemArith2 Compile.TSemControl
  Compile.TSemSemExpr Compile.ValEnc Compile.TSemSticky Compile.TSemSemStmt Compile.TSemSemMul Compile.TSemSemAgg.
From GV Require Lang.Sem.
Local Open Scope N_scope.

(* ------------------------------------------------------------------ Leibniz equality of types,
   as a boolean *)

Fixpoint ty_beq (a b : ty) {struct a} : bool :=
  let list_beq := fix go (xs ys : list ty) : bool :=
    match xs, ys with
    | [], [] => true
    | x :: xr, y :: yr => ty_beq x y && go xr yr
    | _, _ => false
    end in
  match a, b with
  | TBool, TBool => true
  | TInt s1 b1, TInt s2 b2 => Bool.eqb s1 s2 && (b1 =? b2)
  | TArr e1 n1, TArr e2 n2 => ty_beq e1 e2 && (n1 =? n2)
  | TTup xs, TTup ys => list_beq xs ys
  | TStruct n1, TStruct n2 => n1 =? n2
  | TEnum n1, TEnum n2 => n1 =? n2
  | _, _ => false
  end.

Lemma ty_beq_eq : forall a b, ty_beq a b = true -> a = b.
Proof.
  fix IH 1. intros a b H. destruct a as [|s1 b1|e1 n1|xs|n1|n1], b as [|s2 b2|e2 n2|ys|n2|n2];
    try discriminate H; cbn [ty_beq] in H.
  - reflexivity.
  - apply andb_prop in H. destruct H as [H1 H2]. apply Bool.eqb_prop in H1. apply N.eqb_eq in H2. congruence.
  - apply andb_prop in H. destruct H as [H1 H2]. apply IH in H1. apply N.eqb_eq in H2. congruence.
  - f_equal. revert ys H. induction xs as [|x xs IHl]; intros [|y ys] H; try discriminate H; [reflexivity|].
    apply andb_prop in H. destruct H as [H1 H2]. apply IH in H1. subst y. f_equal. now apply IHl.
  - apply N.eqb_eq in H. congruence.
  - apply N.eqb_eq in H. congruence.
Qed.

Lemma ty_beq_refl : forall a, ty_beq a a = true.
Proof.
  fix IH 1. intros [|s1 b1|e1 n1|xs|n1|n1]; cbn [ty_beq].
  - reflexivity.
  - now rewrite Bool.eqb_reflx, N.eqb_refl.
  - now rewrite IH, N.eqb_refl.
  - induction xs as [|x xs IHl]; [reflexivity|]. now rewrite IH, IHl.
  - apply N.eqb_refl.
  - apply N.eqb_refl.
Qed.

(* ------------------------------------------------------------------ the scalar operator nodes of
   TSemSemStmt.v, for ANY value relation that is the scalar encoding on scalar types *)

Section ScalarG.
  Variable P : program.
  Variable VR : ty -> Sem.value -> list bool -> Prop.
  Hypothesis VR_sc_elim : forall t v w, scalar_ty t = true -> VR t v w -> val_ok t v /\ w = enc_val t v.
  Hypothesis VR_sc_intro : forall t v, scalar_ty t = true -> val_ok t v -> VR t v (enc_val t v).
  Notation AgE' := (AgE P VR).

  (* ---------------------------------------------------------------- + - * / % & ^ | < > == != *)

  Lemma binop_node_g f g o x y m t tx :
    op_arith o || op_cmp o || op_eq o = true ->
    (o = OMul -> is_num_lit x = false /\ is_num_lit y = false) ->
    e_ty x = tx -> e_ty y = tx -> scalar_ty tx = true -> scalar_ty t = true ->
    (forall vx vy len, val_ok tx vx -> val_ok tx vy -> binop_agrees o m t tx vx vy len) ->
    AgE' f g x -> AgE' f g y -> AgE' (S f) g (Ex (EOp o x y) m t).
  Proof.
    intros Ho Hm Etx Ety Hsx Hst Hag IHx IHy en E fT w E' o' Hrel Hrun.
    destruct fT as [|fT]; [discriminate Hrun|]. rewrite lower_expr_S in Hrun.
    apply binop_run_inv in Hrun; [|exact Ho|exact Hm].
    destruct Hrun as (xw & E1 & o1 & yw & o2 & Hx & Hy & Hb).
    rewrite (sem_eval_op P f en o x y m t Ho).
    pose proof (IHx en E fT _ _ _ Hrel Hx) as IH1. revert IH1.
    destruct (Sem.eval f P en x) as [[vx en1]|r1 m1|c1|]; intro IH1; cbn [Sem.obind]; try exact I.
    - destruct IH1 as (-> & HVx & Hrel1). rewrite Etx in HVx.
      destruct (VR_sc_elim _ _ _ Hsx HVx) as [Hokx ->].
      pose proof (IHy en1 E1 fT _ _ _ Hrel1 Hy) as IH2. revert IH2.
      destruct (Sem.eval f P en1 y) as [[vy en2]|r2 m2|c2|]; intro IH2; cbn [Sem.obind]; try exact I.
      + destruct IH2 as (-> & HVy & Hrel2). rewrite Ety in HVy.
        destruct (VR_sc_elim _ _ _ Hsx HVy) as [Hoky ->].
        pose proof (Hag vx vy (Sem.lenient en2) Hokx Hoky) as HA. unfold binop_agrees in HA.
        rewrite Etx, Ety in Hb. rewrite Etx. revert HA.
        destruct (Sem.eval_binop o m t tx vx vy (Sem.lenient en2)) as [[v len]|r3 m3|c3|];
          intro HA; cbn [Sem.obind]; try contradiction.
        * destruct HA as [Hokv HB]. rewrite HB in Hb. injection Hb as <- <-. cbn [e_ty].
          split; [reflexivity|]. split; [now apply VR_sc_intro|]. eapply rel_scopes; [|exact Hrel2]. reflexivity.
        * destruct HA as [-> [w' HB]]. rewrite HB in Hb. now injection Hb as _ <-.
      + subst o2. exact (stkx_lower_binop _ _ _ _ _ _ _ _ _ _ Hb).
    - subst o1. pose proof (sticky_e P _ _ _ _ _ _ _ Hy) as ->.
      exact (stkx_lower_binop _ _ _ _ _ _ _ _ _ _ Hb).
  Qed.

  (* ---------------------------------------------------------------- << >> *)

  Lemma shift_node_g f g (left : bool) x y m sg b :
    ok_width b = true -> e_ty x = TInt sg b -> e_ty y = TInt false 8 ->
    AgE' f g x -> AgE' f g y -> AgE' (S f) g (Ex (EOp (if left then OShl else OShr) x y) m (TInt sg b)).
  Proof.
    intros Hb Etx Ety IHx IHy en E fT w E' o' Hrel Hrun.
    destruct fT as [|fT]; [discriminate Hrun|]. rewrite lower_expr_S in Hrun.
    apply shift_run_inv in Hrun. destruct Hrun as (xw & E1 & o1 & yw & o2 & Hx & Hy & Hs).
    rewrite (sem_eval_shift P f en (if left then OShl else OShr) x y m (TInt sg b) ltac:(now destruct left)).
    pose proof (IHx en E fT _ _ _ Hrel Hx) as IH1. revert IH1.
    destruct (Sem.eval f P en x) as [[vx en1]|r1 m1|c1|]; intro IH1; cbn [Sem.obind]; try exact I.
    - destruct IH1 as (-> & HVx & Hrel1). rewrite Etx in HVx.
      destruct (VR_sc_elim (TInt sg b) _ _ Hb HVx) as [Hokx ->].
      pose proof (IHy en1 E1 fT _ _ _ Hrel1 Hy) as IH2. revert IH2.
      destruct (Sem.eval f P en1 y) as [[vy en2]|r2 m2|c2|]; intro IH2; cbn [Sem.obind]; try exact I.
      + destruct IH2 as (-> & HVy & Hrel2). rewrite Ety in HVy.
        destruct (VR_sc_elim (TInt false 8) _ _ eq_refl HVy) as [Hoky ->].
        destruct vx as [|a| | |]; try contradiction. destruct vy as [|s| | |]; try contradiction.
        cbn [val_ok enc_val] in *. change (N.to_nat 8) with 8%nat in Hs.
        rewrite Etx, is_signed_int in Hs.
        rewrite (tsem_lower_shift left sg _ _ m None (length_enc 8 s)
                   (eq_ind_r (fun k => In k [8; 16; 32; 64]%nat) (ok_width_in b Hb) (length_enc (N.to_nat b) a))) in Hs.
        pose proof (shift_agrees left m sg b a s (Sem.lenient en2) Hb Hokx Hoky) as HA. cbv zeta in HA.
        rewrite Etx. revert HA.
        destruct (Sem.eval_binop (if left then OShl else OShr) m (TInt sg b) (TInt sg b) (Sem.VInt a) (Sem.VInt s)
                    (Sem.lenient en2)) as [[v len]|r3 m3|c3|]; intro HA; cbn [Sem.obind]; try contradiction.
        * destruct HA as (Hokv & Hval & Hcond). rewrite Hval, Hcond in Hs. injection Hs as <- <-. cbn [e_ty].
          split; [reflexivity|]. split; [now apply VR_sc_intro|]. eapply rel_scopes; [|exact Hrel2]. reflexivity.
        * destruct HA as (-> & -> & Hcond). rewrite Hcond in Hs. now injection Hs as _ <-.
      + subst o2. exact (stkx_lower_shift _ _ _ _ _ _ _ _ Hs).
    - subst o1. pose proof (sticky_e P _ _ _ _ _ _ _ Hy) as ->.
      exact (stkx_lower_shift _ _ _ _ _ _ _ _ Hs).
  Qed.

  (* ---------------------------------------------------------------- unary minus, `!`, casts *)

  Lemma neg_node_g f g e1 m b : ok_width b = true -> e_ty e1 = TInt true b ->
    AgE' f g e1 -> AgE' (S f) g (Ex (ENeg e1) m (TInt true b)).
  Proof.
    intros Hb Et1 IH en E fT w E' o' Hrel Hrun.
    destruct fT as [|fT]; [discriminate Hrun|]. rewrite lower_expr_S, lower_neg_case in Hrun.
    minva Hrun as [x E1] o1 He. cbv beta iota in Hrun.
    rewrite (sem_eval_neg P). pose proof (ok_width_pos b Hb) as Hb2.
    pose proof (IH en E fT _ _ _ Hrel He) as IH1. revert IH1.
    destruct (Sem.eval f P en e1) as [[v en1]|r1 m1|c1|]; intro IH1; cbn [Sem.obind]; try exact I.
    - destruct IH1 as (-> & HV & Hrel1). rewrite Et1 in HV.
      destruct (VR_sc_elim (TInt true b) _ _ Hb HV) as [Hok ->].
      destruct v as [|z| | |]; try contradiction. cbn [val_ok enc_val Sem.int_ty] in *.
      rewrite neg_steps_correct in Hrun by (apply enc_nonempty; lia).
      rewrite length_enc, N2Nat.id, (sval_enc_ok b z) in Hrun by (assumption || lia).
      apply ret_inv in Hrun. destruct Hrun as [Heq ->]. injection Heq as -> ->.
      unfold Sem.checked. destruct (Sem.in_range true b (- z)) eqn:Hr; cbn [Sem.obind negb push_spec e_ty].
      + split; [reflexivity|]. split; [|exact Hrel1]. now apply (VR_sc_intro (TInt true b) (Sem.VInt (- z))).
      + reflexivity.
    - subst o1. refine (stkx_neg_steps _ x m _ _ _ _ Hrun). intro r. apply stkx_ret.
  Qed.

  Lemma not_node_g f g e1 m t : scalar_ty t = true -> e_ty e1 = t ->
    AgE' f g e1 -> AgE' (S f) g (Ex (ENot e1) m t).
  Proof.
    intros Hsc Et1 IH en E fT w E' o' Hrel Hrun.
    destruct fT as [|fT]; [discriminate Hrun|]. rewrite lower_expr_S in Hrun.
    apply not_run_inv in Hrun. destruct Hrun as (x & He & ->).
    rewrite (sem_eval_not P). pose proof (IH en E fT _ _ _ Hrel He) as IH1. revert IH1.
    destruct (Sem.eval f P en e1) as [[v en1]|r1 m1|c1|]; intro IH1; cbn [Sem.obind]; try exact I; [|exact IH1].
    destruct IH1 as (-> & HV & Hrel1). rewrite Et1 in HV. destruct (VR_sc_elim _ _ _ Hsc HV) as [Hok ->].
    destruct t as [|sg b| | | |]; try discriminate Hsc; destruct v as [p|z| | |]; try contradiction;
      cbn [e_ty val_ok enc_val map] in *.
    - split; [reflexivity|]. split; [|exact Hrel1]. now apply (VR_sc_intro TBool (Sem.VBool (negb p))).
    - pose proof (ok_width_pos b Hsc) as Hb2. split; [reflexivity|]. split; [|exact Hrel1].
      rewrite map_negb_enc, <- (enc_wrap sg b).
      apply (VR_sc_intro (TInt sg b) (Sem.VInt (Sem.wrap sg b (Z.lnot z)))); [exact Hsc|].
      apply wrap_in_range. lia.
  Qed.

  Lemma cast_node_g f g e1 m t : scalar_ty t = true -> scalar_ty (e_ty e1) = true ->
    AgE' f g e1 -> AgE' (S f) g (Ex (ECast t e1) m t).
  Proof.
    intros Hsc Hsc1 IH en E fT w E' o' Hrel Hrun.
    destruct fT as [|fT]; [discriminate Hrun|]. rewrite lower_expr_S in Hrun.
    pose proof Hrun as H0. cbn [lower_expr_body] in H0. minva H0 as [x E1] o1 He. clear H0.
    destruct (tsem_cast_correct P _ (lower_pattern tops fT P) (lower_block tops fT P) t e1 m t E None x E1 o1 He)
      as (r & HR & _).
    rewrite (sem_eval_cast P). pose proof (IH en E fT _ _ _ Hrel He) as IH1. revert IH1.
    destruct (Sem.eval f P en e1) as [[v en1]|r1 m1|c1|]; intro IH1; cbn [Sem.obind]; try exact I.
    - destruct IH1 as (-> & HV & Hrel1). destruct (VR_sc_elim _ _ _ Hsc1 HV) as [Hok ->].
      pose proof (cast_agrees P _ (lower_pattern tops fT P) (lower_block tops fT P) t e1 m E None v E1 None
                    Hsc Hsc1 Hok He) as HC. revert HC.
      destruct (Sem.eval_cast t (e_ty e1) v) as [v'| | |]; intro HC; try contradiction; cbn [Sem.obind].
      destruct HC as [Hokv HB]. rewrite HB in Hrun. injection Hrun as <- <- <-. cbn [e_ty].
      split; [reflexivity|]. split; [now apply VR_sc_intro|exact Hrel1].
    - subst o1. rewrite HR in Hrun. now injection Hrun as _ _ <-.
  Qed.
End ScalarG.

(* ------------------------------------------------------------------ patterns: the boolean side of
   [pat_ok] (irrefutable patterns of let / for) and [gpat_ok] (all patterns, match arms) *)

Section PatB.
  Variable P : program.

  (* skip the fields of the definition up to the field [fn]; a skipped field must not be named
     by one of the remaining field patterns ([names]) *)
  Fixpoint skip_to (fn : N) (names : list N) (ds : list (N * ty)) : option (ty * list (N * ty)) :=
    match ds with
    | [] => None
    | (dn, dt) :: r =>
        if dn =? fn then Some (dt, r)
        else if existsb (N.eqb dn) names then None
        else skip_to fn names r
    end.

  (* [irr]: only the irrefutable forms (identifier, tuple, struct) *)
  Fixpoint gpat_b (irr : bool) (p : pattern) (t : ty) {struct p} : option (list (N * ty)) :=
    match p with
    | Pat pi _ tp =>
      if negb (ty_beq tp t) then None else
      let go_list := fix go (ps : list pattern) (ts : list ty) : option (list (N * ty)) :=
        match ps, ts with
        | [], [] => Some []
        | p1 :: pr, t1 :: tr =>
            match gpat_b irr p1 t1, go pr tr with
            | Some b, Some bs => Some (b ++ bs)
            | _, _ => None
            end
        | _, _ => None
        end in
      match pi with
      | PId x => Some [(x, t)]
      | PTrue | PFalse => if irr then None else match t with TBool => Some [] | _ => None end
      | PNumU n =>
          if irr then None else
          match t with TInt sg b => if Sem.in_range sg b (Z.of_N n) then Some [] else None | _ => None end
      | PNumS z =>
          if irr then None else
          match t with TInt sg b => if Sem.in_range sg b z then Some [] else None | _ => None end
      | PURange lo hi =>
          if irr then None else
          match t with
          | TInt sg b => if Sem.in_range sg b (Z.of_N lo) && Sem.in_range sg b (Z.of_N hi) then Some [] else None
          | _ => None
          end
      | PSRange lo hi =>
          if irr then None else
          match t with
          | TInt sg b => if Sem.in_range sg b lo && Sem.in_range sg b hi then Some [] else None
          | _ => None
          end
      | PTup ps => match t with TTup ts => go_list ps ts | _ => None end
      | PStruct name _ fields =>
          match t with
          | TStruct n2 =>
              if negb (name =? n2) then None else
              match assocN name (p_structs P) with
              | Some def =>
                  if negb (nodupN (map fst def)) then None else
                  (fix go (fs : list (N * pattern)) (ds : list (N * ty)) : option (list (N * ty)) :=
                     match fs with
                     | [] => Some []
                     | (fn, fp) :: fr =>
                         match skip_to fn (map fst fs) ds with
                         | Some (fty, r) =>
                             match gpat_b irr fp fty, go fr r with
                             | Some b, Some bs => Some (b ++ bs)
                             | _, _ => None
                             end
                         | None => None
                         end
                     end) fields def
              | None => None
              end
          | _ => None
          end
      | PEnumUnit en v =>
          if irr then None else
          match t with
          | TEnum n2 =>
              if negb (en =? n2) then None else
              match assocN en (p_enums P) with
              | Some variants => match nthN variants v with Some _ => Some [] | None => None end
              | None => None
              end
          | _ => None
          end
      | PEnumTup en v ps =>
          if irr then None else
          match t with
          | TEnum n2 =>
              if negb (en =? n2) then None else
              match assocN en (p_enums P) with
              | Some variants => match nthN variants v with Some ts => go_list ps ts | None => None end
              | None => None
              end
          | _ => None
          end
      end
    end.
End PatB.

Section PatBSound.
  Variable P : program.

  Lemma gpat_b_ty irr p t bs : gpat_b P irr p t = Some bs -> p_ty p = t.
  Proof.
    destruct p as [pi m tp]. cbn [gpat_b p_ty]. destruct (ty_beq tp t) eqn:E; cbn [negb]; [|discriminate].
    intros _. now apply ty_beq_eq.
  Qed.

  Lemma existsb_eqb_false k l : existsb (N.eqb k) l = false -> ~ In k l.
  Proof.
    intros H Hin. assert (existsb (N.eqb k) l = true) as E; [|congruence].
    apply existsb_exists. exists k. split; [exact Hin|apply N.eqb_refl].
  Qed.

  Lemma gfields_nil : forall ds, gfields_ok P [] ds [].
  Proof. induction ds as [|[fn fty] r IH]; [constructor|]. apply GF_skip; [intros []|exact IH]. Qed.

  Lemma fields_nil : forall ds, fields_ok P [] ds [].
  Proof. induction ds as [|[fn fty] r IH]; [constructor|]. apply FO_skip; [intros []|exact IH]. Qed.

  Lemma gfields_skip_to fn fp fr : forall ds fty r b bs,
    skip_to fn (map fst ((fn, fp) :: fr)) ds = Some (fty, r) ->
    gpat_ok P fp fty b -> gfields_ok P fr r bs -> gfields_ok P ((fn, fp) :: fr) ds (b ++ bs).
  Proof.
    induction ds as [|[dn dt] ds IH]; intros fty r b bs H Hp Hf; cbn [skip_to] in H; [discriminate H|].
    destruct (N.eqb_spec dn fn) as [->|Hne].
    - injection H as -> ->. now apply GF_take.
    - destruct (existsb (N.eqb dn) (map fst ((fn, fp) :: fr))) eqn:Ex; [discriminate H|].
      apply GF_skip; [now apply existsb_eqb_false|]. now apply (IH fty r).
  Qed.

  Lemma fields_skip_to fn fp fr : forall ds fty r b bs,
    skip_to fn (map fst ((fn, fp) :: fr)) ds = Some (fty, r) ->
    pat_ok P fp fty b -> fields_ok P fr r bs -> fields_ok P ((fn, fp) :: fr) ds (b ++ bs).
  Proof.
    induction ds as [|[dn dt] ds IH]; intros fty r b bs H Hp Hf; cbn [skip_to] in H; [discriminate H|].
    destruct (N.eqb_spec dn fn) as [->|Hne].
    - injection H as -> ->. now apply FO_take.
    - destruct (existsb (N.eqb dn) (map fst ((fn, fp) :: fr))) eqn:Ex; [discriminate H|].
      apply FO_skip; [now apply existsb_eqb_false|]. now apply (IH fty r).
  Qed.

  Theorem gpat_b_sound : forall p t bs, gpat_b P false p t = Some bs -> gpat_ok P p t bs.
  Proof.
    fix IH 1. intros [pi m tp] t bs H. cbn [gpat_b] in H.
    destruct (ty_beq tp t) eqn:Et; cbn [negb] in H; [|discriminate H]. apply ty_beq_eq in Et. subst tp.
    assert (Hlist : forall ps ts bs0,
      (fix go (ps : list pattern) (ts : list ty) : option (list (N * ty)) :=
         match ps, ts with
         | [], [] => Some []
         | p1 :: pr, t1 :: tr =>
             match gpat_b P false p1 t1, go pr tr with
             | Some b, Some bs => Some (b ++ bs)
             | _, _ => None
             end
         | _, _ => None
         end) ps ts = Some bs0 -> gpats_ok P ps ts bs0).
    { induction ps as [|p1 pr IHl]; intros [|t1 tr] bs0 H0; try discriminate H0.
      - injection H0 as <-. constructor.
      - destruct (gpat_b P false p1 t1) as [b|] eqn:E1; [|discriminate H0].
        match type of H0 with match ?G with _ => _ end = _ => destruct G as [bs1|] eqn:E2 end; [|discriminate H0].
        injection H0 as <-. constructor; [eapply gpat_b_ty; eassumption|now apply IH|now apply IHl]. }
    destruct pi; cbn [negb] in H.
    - injection H as <-. constructor.
    - destruct t; try discriminate H. injection H as <-. constructor.
    - destruct t; try discriminate H. injection H as <-. constructor.
    - destruct t as [|sg b| | | |]; try discriminate H. destruct (Sem.in_range sg b (Z.of_N n)) eqn:E; [|discriminate H].
      injection H as <-. now constructor.
    - destruct t as [|sg b| | | |]; try discriminate H. destruct (Sem.in_range sg b z) eqn:E; [|discriminate H].
      injection H as <-. now constructor.
    - destruct t as [| | |ts| |]; try discriminate H. constructor. now apply Hlist.
    - destruct t as [| | | |n2|]; try discriminate H.
      destruct (N.eqb_spec name n2) as [->|]; cbn [negb] in H; [|discriminate H].
      destruct (assocN n2 (p_structs P)) as [def|] eqn:Ed; [|discriminate H].
      destruct (nodupN (map fst def)) eqn:Nd; cbn [negb] in H; [|discriminate H].
      econstructor; [exact Ed|now apply nodupN_NoDup|].
      revert H. generalize def. generalize bs. clear Hlist.
      induction fields as [|[fn fp] fr IHf]; intros bs0 ds H0.
      + injection H0 as <-. apply gfields_nil.
      + destruct (skip_to fn (map fst ((fn, fp) :: fr)) ds) as [[fty r]|] eqn:Es; [|discriminate H0].
        destruct (gpat_b P false fp fty) as [b|] eqn:E1; [|discriminate H0].
        match type of H0 with match ?G with _ => _ end = _ => destruct G as [bs1|] eqn:E2 end; [|discriminate H0].
        injection H0 as <-. eapply gfields_skip_to; [exact Es|now apply IH|now apply IHf].
    - destruct t as [| | | | |n2]; try discriminate H.
      destruct (N.eqb_spec ename n2) as [->|]; cbn [negb] in H; [|discriminate H].
      destruct (assocN n2 (p_enums P)) as [variants|] eqn:Ed; [|discriminate H].
      destruct (nthN variants variant) as [ts|] eqn:En; [|discriminate H]. injection H as <-.
      econstructor; eassumption.
    - destruct t as [| | | | |n2]; try discriminate H.
      destruct (N.eqb_spec ename n2) as [->|]; cbn [negb] in H; [|discriminate H].
      destruct (assocN n2 (p_enums P)) as [variants|] eqn:Ed; [|discriminate H].
      destruct (nthN variants variant) as [ts|] eqn:En; [|discriminate H].
      econstructor; [exact Ed|exact En|now apply Hlist].
    - destruct t as [|sg b| | | |]; try discriminate H.
      destruct (Sem.in_range sg b (Z.of_N lo)) eqn:E1; [|discriminate H].
      destruct (Sem.in_range sg b (Z.of_N hi)) eqn:E2; [|discriminate H]. injection H as <-. now constructor.
    - destruct t as [|sg b| | | |]; try discriminate H.
      destruct (Sem.in_range sg b lo) eqn:E1; [|discriminate H].
      destruct (Sem.in_range sg b hi) eqn:E2; [|discriminate H]. injection H as <-. now constructor.
  Qed.

  Theorem pat_b_sound : forall p t bs, gpat_b P true p t = Some bs -> pat_ok P p t bs.
  Proof.
    fix IH 1. intros [pi m tp] t bs H. cbn [gpat_b] in H.
    destruct (ty_beq tp t) eqn:Et; cbn [negb] in H; [|discriminate H]. apply ty_beq_eq in Et. subst tp.
    assert (Hlist : forall ps ts bs0,
      (fix go (ps : list pattern) (ts : list ty) : option (list (N * ty)) :=
         match ps, ts with
         | [], [] => Some []
         | p1 :: pr, t1 :: tr =>
             match gpat_b P true p1 t1, go pr tr with
             | Some b, Some bs => Some (b ++ bs)
             | _, _ => None
             end
         | _, _ => None
         end) ps ts = Some bs0 -> pats_ok P ps ts bs0).
    { induction ps as [|p1 pr IHl]; intros [|t1 tr] bs0 H0; try discriminate H0.
      - injection H0 as <-. constructor.
      - destruct (gpat_b P true p1 t1) as [b|] eqn:E1; [|discriminate H0].
        match type of H0 with match ?G with _ => _ end = _ => destruct G as [bs1|] eqn:E2 end; [|discriminate H0].
        injection H0 as <-. constructor; [eapply gpat_b_ty; eassumption|now apply IH|now apply IHl]. }
    destruct pi; try discriminate H.
    - injection H as <-. constructor.
    - destruct t as [| | |ts| |]; try discriminate H. constructor. now apply Hlist.
    - destruct t as [| | | |n2|]; try discriminate H.
      destruct (N.eqb_spec name n2) as [->|]; cbn [negb] in H; [|discriminate H].
      destruct (assocN n2 (p_structs P)) as [def|] eqn:Ed; [|discriminate H].
      destruct (nodupN (map fst def)) eqn:Nd; cbn [negb] in H; [|discriminate H].
      econstructor; [exact Ed|now apply nodupN_NoDup|].
      revert H. generalize def. generalize bs. clear Hlist.
      induction fields as [|[fn fp] fr IHf]; intros bs0 ds H0.
      + injection H0 as <-. apply fields_nil.
      + destruct (skip_to fn (map fst ((fn, fp) :: fr)) ds) as [[fty r]|] eqn:Es; [|discriminate H0].
        destruct (gpat_b P true fp fty) as [b|] eqn:E1; [|discriminate H0].
        match type of H0 with match ?G with _ => _ end = _ => destruct G as [bs1|] eqn:E2 end; [|discriminate H0].
        injection H0 as <-. eapply fields_skip_to; [exact Es|now apply IH|now apply IHf].
  Qed.
End PatBSound.

(* ------------------------------------------------------------------ the strict checker of the full
   fragment: every side condition of every node lemma as a boolean test *)

Definition ty_fits_b (P : program) (t : ty) : bool := ty_ok (pred Sem.ty_fuel) P t.

(* binary operators: the scalar operators of [sc_op] (a product there has no literal operand), or a
   product with a literal operand: an ordinary checked product where the compiler's repeated-addition
   rewrite does not fire, else the side conditions of Compile/TSemSemMul.v ([mul_node_ok]) *)
Definition scf_op (o : binop) (x y : expr) (m : meta) (t : ty) : bool :=
  sc_op o x y t ||
  match o, t with
  | OMul, TInt _ b =>
      sty_eqb (e_ty x) t && sty_eqb (e_ty y) t &&
      match mul_rewrite x y m t with None => ok_width b | Some _ => mul_node_ok x y m t end
  | _, _ => false
  end.

Fixpoint scf_expr (fuel : nat) (P : program) (g : tenv) (e : expr) {struct fuel} : bool :=
  match fuel with
  | O => false
  | S f =>
    match e with
    | Ex ei m t =>
      match ei with
      | ETrue | EFalse => ty_beq t TBool
      | ENumU n _ => match t with TInt _ _ => lit_fits t (Z.of_N n) | _ => false end
      | ENumS z _ => match t with TInt _ _ => lit_fits t z | _ => false end
      | EId x => match tlookup g x with Some (tx, _) => ty_beq tx t | None => false end
      | EArrLit es =>
          match t with
          | TArr el n =>
              (lenN es =? n) && forallb (fun e1 => ty_beq (e_ty e1) el && scf_expr f P g e1) es && ty_fits_b P t
          | _ => false
          end
      | EArrRep e1 n =>
          match t with
          | TArr el n2 => (n =? n2) && ty_beq (e_ty e1) el && scf_expr f P g e1 && ty_fits_b P t
          | _ => false
          end
      | EIdx a i =>
          match e_ty a, e_ty i with
          | TArr el n, TInt false b =>
              ty_beq el t && (b <=? 32) && (n <? 2 ^ 32) && (1 <=? szn P t)%nat &&
              scf_expr f P g a && scf_expr f P g i
          | _, _ => false
          end
      | ETupLit es => ty_beq t (TTup (map e_ty es)) && forallb (scf_expr f P g) es && ty_fits_b P t
      | ETupAcc e1 i =>
          match e_ty e1 with
          | TTup ts => match nthN ts i with Some ti => ty_beq ti t && scf_expr f P g e1 | None => false end
          | _ => false
          end
      | EFld e1 fld =>
          match e_ty e1 with
          | TStruct name =>
              match assocN name (p_structs P) with
              | Some def =>
                  match Sem.index_of fld (map fst def) 0 with
                  | Some k =>
                      match nthN (map snd def) k with
                      | Some tk => ty_beq tk t && scf_expr f P g e1
                      | None => false
                      end
                  | None => false
                  end
              | None => false
              end
          | _ => false
          end
      | EStructLit name fields =>
          match assocN name (p_structs P) with
          | Some def =>
              nodupN (map fst fields) &&
              match struct_exprs fields def with
              | Some es => forallb (scf_expr f P g) es && ty_beq (TTup (map e_ty es)) (TTup (map snd def))
              | None => false
              end && ty_beq t (TStruct name) && ty_fits_b P t
          | None => false
          end
      | EEnumLit en v args =>
          match assocN en (p_enums P) with
          | Some variants =>
              match nthN variants v with
              | Some ts =>
                  ty_beq (TTup (map e_ty args)) (TTup ts) && forallb (scf_expr f P g) args &&
                  ty_beq t (TEnum en) && ty_fits_b P t
              | None => false
              end
          | None => false
          end
      | EMatch s arms =>
          scf_expr f P g s &&
          forallb (fun arm =>
                     match gpat_b P false (fst arm) (e_ty s) with
                     | Some bs => scf_expr f P (tbind_all ([] :: g) bs false) (snd arm) && ty_beq (e_ty (snd arm)) t
                     | None => false
                     end) arms
      | ENeg e1 =>
          match t with
          | TInt true b => ok_width b && ty_beq (e_ty e1) t && scf_expr f P g e1
          | _ => false
          end
      | ENot e1 => scalar_ty t && ty_beq (e_ty e1) t && scf_expr f P g e1
      | EOp o x y => scf_expr f P g x && scf_expr f P g y && scf_op o x y m t
      | EBlock b => match scf_block f P ([] :: g) b with Some tb => ty_beq tb t | None => false end
      | ECall _ _ => false
      | EJoin _ _ _ _ => false
      | EIf c a b =>
          ty_beq (e_ty c) TBool && ty_beq (e_ty a) t && ty_beq (e_ty b) t &&
          scf_expr f P g c && scf_expr f P g a && scf_expr f P g b
      | ECast to e1 => scalar_ty t && ty_beq to t && scalar_ty (e_ty e1) && scf_expr f P g e1
      | ERange lo hi bits => ty_beq t (TArr (TInt false bits) (hi - lo)) && (hi <=? 2 ^ bits)
      end
    end
  end
with scf_block (fuel : nat) (P : program) (g : tenv) (b : list stmt) {struct fuel} : option ty :=
  match fuel with
  | O => None
  | S f =>
      (fix go (ss : list stmt) (g : tenv) (last : ty) : option ty :=
         match ss with
         | [] => Some last
         | s :: r => match scf_stmt f P g s with Some (g', t) => go r g' t | None => None end
         end) b g unit_ty
  end
with scf_stmt (fuel : nat) (P : program) (g : tenv) (s : stmt) {struct fuel} : option (tenv * ty) :=
  match fuel with
  | O => None
  | S f =>
    match s with
    | St si _ =>
      match si with
      | SLet p e =>
          if scf_expr f P g e then
            match gpat_b P true p (e_ty e) with
            | Some bs => Some (tbind_all g bs false, unit_ty)
            | None => None
            end
          else None
      | SLetMut x e => if scf_expr f P g e then Some (tbind g x (e_ty e) true, unit_ty) else None
      | SAssign x accs e =>
          match tlookup g x with
          | Some (tx, true) =>
              if scf_expr f P g e then
                match (fix go (accs : list accessor) (cur : ty) : option ty :=
                         match accs with
                         | [] => Some cur
                         | AIdx aty ie :: r =>
                             match cur, e_ty ie with
                             | TArr el n, TInt false b =>
                                 if ty_beq aty cur && (b <=? 32) && (n <? 2 ^ 32) && (1 <=? szn P el)%nat &&
                                    scf_expr f P g ie
                                 then go r el else None
                             | _, _ => None
                             end
                         | ATup tty i :: r =>
                             match cur with
                             | TTup ts =>
                                 if ty_beq tty cur then match nthN ts i with Some ti => go r ti | None => None end
                                 else None
                             | _ => None
                             end
                         | AFld sty fld :: r =>
                             match cur with
                             | TStruct name =>
                                 if ty_beq sty cur then
                                   match assocN name (p_structs P) with
                                   | Some def =>
                                       match Sem.index_of fld (map fst def) 0 with
                                       | Some k => match nthN (map snd def) k with Some tk => go r tk | None => None end
                                       | None => None
                                       end
                                   | None => None
                                   end
                                 else None
                             | _ => None
                             end
                         end) accs tx with
                | Some tf => if ty_beq tf (e_ty e) then Some (g, unit_ty) else None
                | None => None
                end
              else None
          | _ => None
          end
      | SFor p arr body =>
          match e_ty arr with
          | TArr el _ =>
              if scf_expr f P g arr then
                match gpat_b P true p el with
                | Some bs =>
                    match scf_block f P (tbind_all ([] :: g) bs false) body with
                    | Some _ => Some (g, unit_ty)
                    | None => None
                    end
                | None => None
                end
              else None
          | _ => None
          end
      | SJoinLoop _ _ _ _ _ => None
      | SExpr e => if scf_expr f P g e then Some (g, e_ty e) else None
      end
    end
  end.

Fixpoint scf_stmts (f : nat) (P : program) (ss : list stmt) (g : tenv) (last : ty) : option (tenv * ty) :=
  match ss with
  | [] => Some (g, last)
  | s :: r => match scf_stmt f P g s with Some (g', t) => scf_stmts f P r g' t | None => None end
  end.

Lemma scf_block_S f P g b : scf_block (S f) P g b = option_map snd (scf_stmts f P b g unit_ty).
Proof.
  cbn [scf_block]. generalize unit_ty. revert g. induction b as [|s r IH]; intros g last; [reflexivity|].
  cbn [scf_stmts]. destruct (scf_stmt f P g s) as [[g' t]|]; [apply IH|reflexivity].
Qed.

Lemma tl_tbind_all g bs mu : tl (tbind_all g bs mu) = tl g.
Proof.
  unfold tbind_all. revert g. induction bs as [|[x t] r IH]; intro g; [reflexivity|].
  cbn [fold_left fst snd]. rewrite IH. apply tl_tbind.
Qed.

Lemma scf_stmt_tl fw P g s g' t : scf_stmt fw P g s = Some (g', t) -> tl g' = tl g.
Proof.
  destruct fw as [|f]; [discriminate|]. destruct s as [si m]. cbn [scf_stmt]. destruct si; try discriminate.
  - destruct (scf_expr f P g e); [|discriminate]. destruct (gpat_b P true p (e_ty e)); [|discriminate].
    intros [= <- _]. apply tl_tbind_all.
  - destruct (scf_expr f P g e); [|discriminate]. intros [= <- _]. apply tl_tbind.
  - destruct (tlookup g name) as [[tx []]|]; try discriminate. destruct (scf_expr f P g e); [|discriminate].
    match goal with |- match ?G with _ => _ end = _ -> _ => destruct G as [tf|] end; [|discriminate].
    destruct (ty_beq tf (e_ty e)); [|discriminate]. now intros [= <- _].
  - destruct (e_ty arr); try discriminate. destruct (scf_expr f P g arr); [|discriminate].
    destruct (gpat_b P true p t0); [|discriminate]. destruct (scf_block f P _ body); [|discriminate].
    now intros [= <- _].
  - destruct (scf_expr f P g e); [|discriminate]. now intros [= <- _].
Qed.

(* ------------------------------------------------------------------ the induction *)

Section MainF.
  Variable P : program.
  Hypothesis Hsmall : enums_small P = true.
  Notation VRa := (VRa P).
  Notation AgE' := (AgE P VRa).
  Notation AgS' := (AgS P VRa).

  Lemma VRa_elim t v w : scalar_ty t = true -> VRa t v w -> val_ok t v /\ w = enc_val t v.
  Proof. intros Hs H. now apply (VRa_scalar P t v w Hs). Qed.

  Lemma VRa_intro t v : scalar_ty t = true -> val_ok t v -> VRa t v (enc_val t v).
  Proof. intros Hs H. apply (VRa_scalar P t v _ Hs). auto. Qed.

  Definition bn := binop_node_g P VRa VRa_elim VRa_intro.
  Definition shn := shift_node_g P VRa VRa_elim VRa_intro.

  Definition InvEf (fuel : nat) : Prop :=
    forall fw g e, scf_expr fw P g e = true -> AgE' fuel g e.
  Definition InvSf (fuel : nat) : Prop :=
    forall fw g s g' t, scf_stmt fw P g s = Some (g', t) -> AgS' fuel g g' t s.

  Lemma stmts_AgSS_f f : InvSf f -> forall fw ss g last g1 t,
    scf_stmts fw P ss g last = Some (g1, t) -> AgSS P VRa f g ss last g1 t /\ tl g1 = tl g.
  Proof.
    intros IHs fw. induction ss as [|s r IH]; intros g last g1 t Hsc; cbn [scf_stmts] in Hsc.
    - injection Hsc as <- <-. split; [constructor|reflexivity].
    - destruct (scf_stmt fw P g s) as [[g' t']|] eqn:Es; [|discriminate Hsc].
      destruct (IH g' t' g1 t Hsc) as [HA Htl]. split.
      + econstructor; [eapply IHs; eassumption|exact HA].
      + rewrite Htl. eapply scf_stmt_tl; eassumption.
  Qed.

  Ltac eqs :=
    repeat match goal with
    | H : sty_eqb _ _ = true |- _ => apply sty_eqb_eq in H
    | H : vt_eqb _ _ = true |- _ => apply vt_eqb_eq in H
    | H : ty_beq _ _ = true |- _ => apply ty_beq_eq in H
    end.

  Lemma mul_step_f f g x y m t :
    match t with
    | TInt _ b =>
        sty_eqb (e_ty x) t && sty_eqb (e_ty y) t &&
        match mul_rewrite x y m t with None => ok_width b | Some _ => mul_node_ok x y m t end
    | _ => false
    end = true ->
    AgE' f g x -> AgE' f g y -> AgE' (S f) g (Ex (EOp OMul x y) m t).
  Proof.
    intros Hop IHx IHy. destruct t as [|sg b| | | |]; try discriminate Hop. bsplit. eqs.
    destruct (mul_rewrite x y m (TInt sg b)) as [r|] eqn:Hm.
    - apply (mul_lit_node_b P VRa VRa_elim VRa_intro); try assumption.
      unfold mul_operand. destruct (mul_lit_info x y m (TInt sg b)) as [[[[] ?] ?]|]; assumption.
    - apply (mul_plain_node P VRa VRa_elim VRa_intro f g x y m (TInt sg b) (TInt sg b)); try assumption.
      apply int_agrees; [assumption|left; split; reflexivity].
  Qed.

  Lemma op_step_f f g o x y m t :
    scf_op o x y m t = true -> AgE' f g x -> AgE' f g y -> AgE' (S f) g (Ex (EOp o x y) m t).
  Proof.
    intros Hop IHx IHy. unfold scf_op in Hop. apply orb_prop in Hop. destruct Hop as [Hop|Hop];
      [|destruct o; try discriminate Hop; now apply mul_step_f].
    destruct o; cbn [sc_op] in Hop.
    (* arithmetic and bitwise *)
    1-8: destruct t as [|sg b| | | |]; try discriminate Hop; bsplit; try discriminate; eqs;
         match goal with
         | |- AgE _ _ _ _ (Ex _ _ TBool) =>
             eapply (bn f g _ x y m TBool TBool); try eassumption; try reflexivity;
             [ intro Hmul; discriminate Hmul | apply bool_agrees; reflexivity ]
         | |- _ =>
             eapply (bn f g _ x y m (TInt sg b) (TInt sg b)); try eassumption; try reflexivity;
             [ first [ intro Hmul; discriminate Hmul
                     | intros _; split; apply negb_true_iff; assumption ]
             | apply int_agrees; [assumption|left; split; reflexivity] ]
         end.
    - (* > *) bsplit. eqs. subst t. destruct (e_ty x) as [|sg b| | | |] eqn:Etx; try discriminate. bsplit. eqs.
      eapply (bn f g OGt x y m TBool (TInt sg b)); try eassumption; try reflexivity.
      + intro Hmul; discriminate Hmul.
      + apply int_agrees; [assumption|right; split; reflexivity].
    - (* < *) bsplit. eqs. subst t. destruct (e_ty x) as [|sg b| | | |] eqn:Etx; try discriminate. bsplit. eqs.
      eapply (bn f g OLt x y m TBool (TInt sg b)); try eassumption; try reflexivity.
      + intro Hmul; discriminate Hmul.
      + apply int_agrees; [assumption|right; split; reflexivity].
    - (* == *) bsplit. eqs. subst t.
      eapply (bn f g OEq x y m TBool (e_ty x)); try eassumption; try reflexivity.
      + intro Hmul; discriminate Hmul.
      + destruct (e_ty x) as [|sg b| | | |]; try discriminate.
        * apply bool_agrees; reflexivity.
        * apply int_agrees; [assumption|right; split; reflexivity].
    - (* != *) bsplit. eqs. subst t.
      eapply (bn f g ONe x y m TBool (e_ty x)); try eassumption; try reflexivity.
      + intro Hmul; discriminate Hmul.
      + destruct (e_ty x) as [|sg b| | | |]; try discriminate.
        * apply bool_agrees; reflexivity.
        * apply int_agrees; [assumption|right; split; reflexivity].
    - destruct t as [|sg b| | | |]; try discriminate Hop. bsplit. eqs.
      apply (shn f g true x y m sg b); assumption.
    - destruct t as [|sg b| | | |]; try discriminate Hop. bsplit. eqs.
      apply (shn f g false x y m sg b); assumption.
    - bsplit. eqs. subst t.
      apply (logic_node P VRa (VRa_bool P) f g true x y m); try assumption. apply KP_all.
    - bsplit. eqs. subst t.
      apply (logic_node P VRa (VRa_bool P) f g false x y m); try assumption. apply KP_all.
  Qed.



  Lemma forallb_AgE f (IHe : InvEf f) fw g es : forallb (scf_expr fw P g) es = true -> Forall (AgE' f g) es.
  Proof.
    intro H. apply Forall_forall. intros e Hin. rewrite forallb_forall in H. eapply IHe. now apply H.
  Qed.

  Lemma InvEf_step f : (forall k, (k <= f)%nat -> InvEf k /\ InvSf k) -> InvEf (S f).
  Proof.
    intros IH fw g [ei m t] Hsc. destruct fw as [|fw]; [discriminate Hsc|]. cbn [scf_expr] in Hsc.
    destruct (IH f (le_n _)) as [IHe _].
    destruct ei.
    - eqs. subst t. apply (lit_bool_node_a P (S f) g true m).
    - eqs. subst t. apply (lit_bool_node_a P (S f) g false m).
    - destruct t as [|sg b| | | |]; try discriminate Hsc. now apply lit_numU_node_a.
    - destruct t as [|sg b| | | |]; try discriminate Hsc. now apply lit_numS_node_a.
    - destruct (tlookup g name) as [[tx mu]|] eqn:El; [|discriminate Hsc]. eqs. subst tx.
      eapply id_node_a; eassumption.
    - (* array literal *)
      destruct t as [| |el n| | |]; try discriminate Hsc. bsplit.
      match goal with Hq : (lenN es =? n) = true |- _ => apply N.eqb_eq in Hq; subst n end.
      match goal with Hf : forallb _ es = true |- _ => rewrite forallb_forall in Hf; rename Hf into Hall end.
      apply (arrlit_node P f g es m _ el); try reflexivity; try assumption.
      + apply Forall_forall. intros e1 Hin. specialize (Hall _ Hin). bsplit. eapply IHe; eassumption.
      + apply Forall_forall. intros e1 Hin. specialize (Hall _ Hin). bsplit. eqs. assumption.
    - (* array repeat *)
      destruct t as [| |el n2| | |]; try discriminate Hsc. bsplit. eqs.
      match goal with Hq : (n =? n2) = true |- _ => apply N.eqb_eq in Hq; subst n2 end. subst el.
      apply arrrep_node; try reflexivity; try assumption. eapply IHe; eassumption.
    - (* index *)
      destruct (e_ty a) as [| |el n| | |] eqn:Ea; try discriminate Hsc.
      destruct (e_ty i) as [|[] b| | | |] eqn:Ei; try discriminate Hsc. bsplit. eqs. subst el.
      eapply (idx_node P f g a i m t n b); try eassumption; eapply IHe; eassumption.
    - (* tuple literal *)
      bsplit. eqs. apply tuplit_node; try assumption. eapply forallb_AgE; eassumption.
    - (* tuple access *)
      destruct (e_ty e) as [| | |ts| |] eqn:Ee; try discriminate Hsc.
      destruct (nthN ts i) as [ti|] eqn:En; [|discriminate Hsc]. bsplit. eqs. subst ti.
      eapply tupacc_node; try eassumption. eapply IHe; eassumption.
    - (* field *)
      destruct (e_ty e) as [| | | |name|] eqn:Ee; try discriminate Hsc.
      destruct (assocN name (p_structs P)) as [def|] eqn:Ed; [|discriminate Hsc].
      destruct (Sem.index_of fld (map fst def) 0) as [k|] eqn:Ek; [|discriminate Hsc].
      destruct (nthN (map snd def) k) as [tk|] eqn:En; [|discriminate Hsc]. bsplit. eqs. subst tk.
      eapply fld_node; try eassumption. eapply IHe; eassumption.
    - (* struct literal *)
      destruct (assocN name (p_structs P)) as [def|] eqn:Ed; [|discriminate Hsc]. bsplit.
      destruct (struct_exprs fields def) as [es|] eqn:Ese; [|discriminate]. bsplit. eqs.
      match goal with Hq : TTup _ = TTup _ |- _ => injection Hq as Hq end.
      eapply structlit_node; try eassumption. eapply forallb_AgE; eassumption.
    - (* enum literal *)
      destruct (assocN ename (p_enums P)) as [variants|] eqn:Ed; [|discriminate Hsc].
      destruct (nthN variants variant) as [ts|] eqn:En; [|discriminate Hsc]. bsplit. eqs.
      match goal with Hq : TTup _ = TTup _ |- _ => injection Hq as Hq end.
      eapply enumlit_node; try eassumption. eapply forallb_AgE; eassumption.
    - (* match *)
      bsplit. apply match_node; [exact Hsmall|eapply IHe; eassumption|].
      apply Forall_forall. intros [pat body] Hin.
      match goal with Hf : forallb _ arms = true |- _ => rewrite forallb_forall in Hf; specialize (Hf _ Hin) end.
      cbn [fst snd] in *. destruct (gpat_b P false pat (e_ty e)) as [bs|] eqn:Ep; [|discriminate]. bsplit. eqs.
      exists bs. cbn [fst snd]. split; [now apply gpat_b_sound|]. split; [eapply IHe; eassumption|].
      split; [apply KP_all|assumption].
    - (* unary minus *)
      destruct t as [|[] b| | | |]; try discriminate Hsc. bsplit. eqs.
      apply (neg_node_g P VRa VRa_elim VRa_intro); try assumption. eapply IHe; eassumption.
    - bsplit. eqs. apply (not_node_g P VRa VRa_elim VRa_intro); try assumption. eapply IHe; eassumption.
    - bsplit. apply op_step_f; try assumption; eapply IHe; eassumption.
    - (* block *)
      destruct (scf_block fw P ([] :: g) b) as [tb|] eqn:Eb; [|discriminate Hsc]. eqs. subst tb.
      destruct f as [|f']; [intros en E fT w E' o' _ _; exact I|].
      destruct fw as [|fw']; [discriminate Eb|]. rewrite scf_block_S in Eb.
      destruct (scf_stmts fw' P b ([] :: g) unit_ty) as [[g1 tb]|] eqn:Es; [|discriminate Eb].
      cbn [option_map snd] in Eb. injection Eb as ->.
      destruct (IH f' (le_S _ _ (le_n _))) as [_ IHs].
      destruct (stmts_AgSS_f f' IHs fw' b _ _ _ _ Es) as [HA Htl].
      eapply (block_node P VRa (VRa_unit P) f' g b m t g1); assumption.
    - discriminate Hsc.
    - discriminate Hsc.
    - bsplit. eqs.
      apply (if_node P VRa (VRa_bool P) f g c t0 e m t); try assumption;
        try (eapply IHe; eassumption); apply KP_all.
    - bsplit. eqs. subst to. apply (cast_node_g P VRa VRa_elim VRa_intro); try assumption. eapply IHe; eassumption.
    - bsplit. eqs. apply range_node; assumption.
  Qed.

  Lemma InvSf_step f : (forall k, (k <= f)%nat -> InvEf k /\ InvSf k) -> InvSf (S f).
  Proof.
    intros IH fw g [si m] g' t Hsc. destruct fw as [|fw]; [discriminate Hsc|]. cbn [scf_stmt] in Hsc.
    destruct (IH f (le_n _)) as [IHe _].
    destruct si.
    - (* let pattern = e *)
      destruct (scf_expr fw P g e) eqn:He; [|discriminate Hsc].
      destruct (gpat_b P true p (e_ty e)) as [bs|] eqn:Ep; [|discriminate Hsc]. injection Hsc as <- <-.
      apply let_pat_node; [eapply IHe; eassumption|now apply pat_b_sound].
    - destruct (scf_expr fw P g e) eqn:He; [|discriminate Hsc]. injection Hsc as <- <-.
      apply (letmut_node P VRa (VRa_unit P)). eapply IHe; eassumption.
    - (* assignment through accessors *)
      destruct (tlookup g name) as [[tx []]|] eqn:El; try discriminate Hsc.
      destruct (scf_expr fw P g e) eqn:He; [|discriminate Hsc].
      match type of Hsc with match ?G with _ => _ end = _ => destruct G as [tf|] eqn:Ea end; [|discriminate Hsc].
      destruct (ty_beq tf (e_ty e)) eqn:Et; [|discriminate Hsc]. injection Hsc as <- <-. eqs. subst tf.
      eapply assign_acc_node; [eapply IHe; eassumption|exact El|].
      revert Ea. generalize (e_ty e). generalize tx. clear El.
      induction accs as [|[aty ie|tty i|sty fld] r IHa]; intros cur tf Ea.
      + injection Ea as <-. constructor.
      + destruct cur as [| |el n| | |]; try discriminate Ea.
        destruct (e_ty ie) as [|[] b| | | |] eqn:Ei; try discriminate Ea.
        match type of Ea with (if ?c then _ else _) = _ => destruct c eqn:Hc end; [|discriminate Ea].
        bsplit. eqs. subst aty. econstructor; try eassumption; [eapply IHe; eassumption|now apply IHa].
      + destruct cur as [| | |ts| |]; try discriminate Ea.
        destruct (ty_beq tty (TTup ts)) eqn:Hc; [|discriminate Ea]. eqs. subst tty.
        destruct (nthN ts i) as [ti|] eqn:En; [|discriminate Ea]. econstructor; [exact En|now apply IHa].
      + destruct cur as [| | | |sname|]; try discriminate Ea.
        destruct (ty_beq sty (TStruct sname)) eqn:Hc; [|discriminate Ea]. eqs. subst sty.
        destruct (assocN sname (p_structs P)) as [def|] eqn:Ed; [|discriminate Ea].
        destruct (Sem.index_of fld (map fst def) 0) as [k|] eqn:Ek; [|discriminate Ea].
        destruct (nthN (map snd def) k) as [tk|] eqn:En; [|discriminate Ea].
        econstructor; try eassumption. now apply IHa.
    - (* for *)
      destruct (e_ty arr) as [| |el n| | |] eqn:Earr; try discriminate Hsc.
      destruct (scf_expr fw P g arr) eqn:Ha; [|discriminate Hsc].
      destruct (gpat_b P true p el) as [bs|] eqn:Ep; [|discriminate Hsc].
      destruct (scf_block fw P (tbind_all ([] :: g) bs false) body) as [tb|] eqn:Eb; [|discriminate Hsc].
      injection Hsc as <- <-.
      destruct f as [|f']; [intros en E fT w E' o' _ _; exact I|].
      destruct fw as [|fw']; [discriminate Eb|]. rewrite scf_block_S in Eb.
      destruct (scf_stmts fw' P body (tbind_all ([] :: g) bs false) unit_ty) as [[g1 tb']|] eqn:Es; [|discriminate Eb].
      destruct (IH f' (le_S _ _ (le_n _))) as [_ IHs].
      destruct (stmts_AgSS_f f' IHs fw' body _ _ _ _ Es) as [HA Htl].
      rewrite tl_tbind_all in Htl. cbn [tl] in Htl.
      eapply (for_pat_node P f' g p bs arr body m el n g1 tb');
        [eapply IHe; eassumption|exact Earr|now apply pat_b_sound|exact HA|exact Htl].
    - discriminate Hsc.
    - destruct (scf_expr fw P g e) eqn:He; [|discriminate Hsc]. injection Hsc as <- <-.
      apply sexpr_node. eapply IHe; eassumption.
  Qed.

  Theorem agree_all_full : forall fuel, InvEf fuel /\ InvSf fuel.
  Proof.
    induction fuel as [fuel IH] using lt_wf_ind. destruct fuel as [|f].
    - split; [intros fw g e _ en E fT w E' o' _ _|intros fw g s g' t _ en E fT w E' o' _ _]; exact I.
    - split.
      + apply InvEf_step. intros k Hk. apply IH. lia.
      + apply InvSf_step. intros k Hk. apply IH. lia.
  Qed.
End MainF.
Print Assumptions agree_all_full.

(* ------------------------------------------------------------------ the theorems, spelled out *)

(* AGREEMENT on the full fragment (without calls): expressions *)
Theorem tsem_sem_full_expr P fuel fw g e en E fT w E' o' :
  enums_small P = true -> scf_expr fw P g e = true -> env_rel3 (VRa P) en E g ->
  lower_expr tops fT P e E None = Ok ((w, E'), o') ->
  match Sem.eval fuel P en e with
  | Sem.Done (v, en') => o' = None /\ VRa P (e_ty e) v w /\ env_rel3 (VRa P) en' E' g
  | Sem.Panicked r m => o' = Some (preason_num (pr r), ploc32 (ploc_of m))
  | Sem.Stuck _ | Sem.NoFuel => True
  end.
Proof.
  intros Hs Hsc Hrel Hrun. exact (proj1 (agree_all_full P Hs fuel) fw g e Hsc en E fT w E' o' Hrel Hrun).
Qed.
Print Assumptions tsem_sem_full_expr.

Theorem tsem_sem_full_stmt P fuel fw g s g' t en E fT w E' o' :
  enums_small P = true -> scf_stmt fw P g s = Some (g', t) -> env_rel3 (VRa P) en E g ->
  lower_stmt tops fT P s E None = Ok ((w, E'), o') ->
  match Sem.exec fuel P en s with
  | Sem.Done (v, en') => o' = None /\ VRa P t v w /\ env_rel3 (VRa P) en' E' g'
  | Sem.Panicked r m => o' = Some (preason_num (pr r), ploc32 (ploc_of m))
  | Sem.Stuck _ | Sem.NoFuel => True
  end.
Proof.
  intros Hs Hsc Hrel Hrun. exact (proj2 (agree_all_full P Hs fuel) fw g s g' t Hsc en E fT w E' o' Hrel Hrun).
Qed.
Print Assumptions tsem_sem_full_stmt.

Theorem tsem_sem_full_block P fuel fw g b t en E fT w E' o' :
  enums_small P = true -> scf_block fw P ([] :: g) b = Some t -> env_rel3 (VRa P) en E g ->
  lower_block tops fT P b E None = Ok ((w, E'), o') ->
  match Sem.obind (Sem.exec_block fuel P (Sem.push_scope en) b)
                  (fun '(v, en1) => Sem.Done (v, Sem.pop_scope en1)) with
  | Sem.Done (v, en') => o' = None /\ VRa P t v w /\ env_rel3 (VRa P) en' E' g
  | Sem.Panicked r m => o' = Some (preason_num (pr r), ploc32 (ploc_of m))
  | Sem.Stuck _ | Sem.NoFuel => True
  end.
Proof.
  intros Hs Hsc Hrel Hrun. destruct fuel as [|f]; [exact I|].
  destruct fw as [|fw']; [discriminate Hsc|]. rewrite scf_block_S in Hsc.
  destruct (scf_stmts fw' P b ([] :: g) unit_ty) as [[g1 tb]|] eqn:Es; [|discriminate Hsc].
  cbn [option_map snd] in Hsc. injection Hsc as ->.
  destruct (stmts_AgSS_f P f (proj2 (agree_all_full P Hs f)) fw' b _ _ _ _ Es) as [HA Htl].
  exact (block_run_agrees P (VRa P) (VRa_unit P) f g b g1 t HA Htl en E fT w E' o' Hrel Hrun).
Qed.
Print Assumptions tsem_sem_full_block.

(* ------------------------------------------------------------------ whole programs: parameters and
   result of ANY type.  [Sem.run_main] decodes the argument bits; the bit-level semantics binds
   them as they are: the theorem is for CANONICAL argument bits (re-encoding the decoded value
   gives the same bits; always true for scalars, excludes e.g. non-zero enum padding) *)

Lemma bits_eqb_eq : forall a b, Sem.bits_eqb a b = true -> a = b.
Proof.
  induction a as [|x a IH]; intros [|y b] H; cbn [Sem.bits_eqb] in H; try discriminate H; [reflexivity|].
  apply andb_prop in H. destruct H as [H1 H2]. apply Bool.eqb_prop in H1. subst y. f_equal. now apply IH.
Qed.

Definition canonical_arg (P : program) (t : ty) (a : list bool) : bool :=
  ty_fits_b P t &&
  match Sem.decode Sem.ty_fuel P t a with
  | Some (v, []) =>
      in_rng P v t &&
      match Sem.encode Sem.ty_fuel P t v with Some a' => Sem.bits_eqb a a' | None => false end
  | _ => false
  end.

Definition canonical_args (P : program) (params : list (N * ty)) (args : list (list bool)) : bool :=
  forallb2 (fun (p : N * ty) a => canonical_arg P (snd p) a) params args.

Lemma canonical_arg_VRa P t a v : canonical_arg P t a = true ->
  Sem.decode Sem.ty_fuel P t a = Some (v, []) -> VRa P t v a.
Proof.
  unfold canonical_arg. intros H Hd. rewrite Hd in H. apply andb_prop in H. destruct H as [Hf H].
  apply andb_prop in H. destruct H as [Hr H].
  destruct (Sem.encode Sem.ty_fuel P t v) as [a'|] eqn:Ee; [|discriminate H].
  apply bits_eqb_eq in H. subst a'. split; [|exact Hf]. now apply encode_has_enc.
Qed.

Lemma init_rel_f P : forall params inputs vals, Sem.decode_args P params inputs = Some vals ->
  canonical_args P params inputs = true ->
  forall en E g E', env_rel3 (VRa P) en E g ->
  fold_left (fun Er b => let* E := Er in env_let E (fst b) (snd b)) (combine (map fst params) inputs) (Ok E) = Ok E' ->
  env_rel3 (VRa P) (Sem.bind_all en vals) E' (tbind_all g params true).
Proof.
  induction params as [|[x t] pr IH]; intros inputs vals Hd Hs en E g E' Hrel Hf; cbn [Sem.decode_args] in Hd.
  - destruct inputs; [|discriminate Hd]. injection Hd as <-. cbn in Hf. injection Hf as <-. exact Hrel.
  - destruct inputs as [|bs ir]; [discriminate Hd|].
    destruct (Sem.decode Sem.ty_fuel P t bs) as [[v [|? ?]]|] eqn:Ed; try discriminate Hd.
    destruct (Sem.decode_args P pr ir) as [rest|] eqn:Er; [|discriminate Hd]. injection Hd as <-.
    unfold canonical_args in Hs. cbn [forallb2 snd] in Hs. apply andb_prop in Hs. destruct Hs as [Hst Hs].
    cbn [map fst combine fold_left bind snd] in Hf.
    destruct (env_let E x bs) as [E1| |] eqn:El;
      [|exfalso; eapply fold_env_let_not_ok; [|exact Hf]; intros ? Hq; discriminate Hq
       |exfalso; eapply fold_env_let_not_ok; [|exact Hf]; intros ? Hq; discriminate Hq].
    unfold Sem.bind_all, tbind_all. cbn [fold_left fst snd].
    apply (IH ir rest Er Hs _ E1 _ E'); [|exact Hf].
    eapply rel_let; [exact Hrel|exact (canonical_arg_VRa P t bs v Hst Ed)|exact El].
Qed.

Theorem tsem_sem_program_full P d fuel fw fT args o outs :
  enums_small P = true -> p_consts P = [] -> find_fn P (p_main P) = Some d ->
  scf_block fw P ([] :: tbind_all [[]; []] (fn_params d) true) (fn_body d) = Some (fn_ret d) ->
  canonical_args P (fn_params d) args = true ->
  tsem_program fT P args = Ok (o, outs) ->
  match Sem.run_main fuel P args with
  | Sem.RunOk bits _ => o = None /\ outs = bits
  | Sem.RunPanic r m => o = Some (preason_num (pr r), ploc32 (ploc_of m))
  | Sem.RunStuck _ | Sem.RunNoFuel => True
  end.
Proof.
  intros Hsm Hc Hfind Hsc Hcan Hrun.
  unfold tsem_program in Hrun. rewrite Hfind in Hrun.
  destruct (negb (same_len (fn_params d) args)); [discriminate Hrun|].
  unfold main_env, global_scope in Hrun. rewrite Hc in Hrun. cbn [fold_left bind] in Hrun.
  destruct (fold_left (fun Er b => let* E := Er in env_let E (fst b) (snd b))
              (combine (map fst (fn_params d)) args) (Ok (env_push [[]]))) as [E0| |] eqn:Ef;
    cbn [bind] in Hrun; try discriminate Hrun.
  destruct (lower_block tops fT P (fn_body d) E0 None) as [[[w E'] o1]| |] eqn:Hb; cbn [bind] in Hrun;
    try discriminate Hrun. injection Hrun as <- <-.
  unfold Sem.run_main. rewrite Hfind.
  destruct (Sem.decode_args P (fn_params d) args) as [vals|] eqn:Ed; [|exact I].
  unfold Sem.eval_consts. rewrite Hc.
  assert (Hrel0 : env_rel3 (VRa P) (Sem.push_scope (Sem.mkEnv [[]] false)) (env_push [[]]) ([] :: [[]])).
  { apply rel_push. unfold env_rel3. cbn [Sem.scopes]. constructor; [|constructor].
    split; [exact I|]. intro x. cbn. auto. }
  pose proof (init_rel_f P _ _ _ Ed Hcan _ _ _ _ Hrel0 Ef) as Hrel.
  pose proof (tsem_sem_full_block P fuel fw _ _ _ _ _ fT _ _ _ Hsm Hsc Hrel Hb) as H. revert H.
  destruct (Sem.exec_block fuel P (Sem.push_scope (Sem.bind_all (Sem.push_scope (Sem.mkEnv [[]] false)) vals))
              (fn_body d)) as [[v en1]|r m|c|]; cbn [Sem.obind]; intro H; try exact I; [|exact H].
  destruct H as (-> & [HV Hfit] & _).
  rewrite (has_enc_encode P _ _ _ HV Hfit). auto.
Qed.
Print Assumptions tsem_sem_program_full.

Definition in_full_fragment (fw : nat) (P : program) : bool :=
  match p_consts P, find_fn P (p_main P) with
  | [], Some d =>
      enums_small P &&
      match scf_block fw P ([] :: tbind_all [[]; []] (fn_params d) true) (fn_body d) with
      | Some t => ty_beq t (fn_ret d)
      | None => false
      end
  | _, _ => false
  end.

Definition canonical_main_args (P : program) (args : list (list bool)) : bool :=
  match find_fn P (p_main P) with
  | Some d => canonical_args P (fn_params d) args
  | None => false
  end.

Theorem in_full_fragment_sound P fuel fw fT args o outs :
  in_full_fragment fw P = true -> canonical_main_args P args = true ->
  tsem_program fT P args = Ok (o, outs) ->
  match Sem.run_main fuel P args with
  | Sem.RunOk bits _ => o = None /\ outs = bits
  | Sem.RunPanic r m => o = Some (preason_num (pr r), ploc32 (ploc_of m))
  | _ => True
  end.
Proof.
  unfold in_full_fragment, canonical_main_args. intros H Hcan Hrun.
  destruct (p_consts P) eqn:Hc; [|discriminate H].
  destruct (find_fn P (p_main P)) as [d|] eqn:Hfind; [|discriminate H].
  apply andb_prop in H. destruct H as [Hsm H].
  destruct (scf_block fw P _ (fn_body d)) as [t|] eqn:Hsc; [|discriminate H]. apply ty_beq_eq in H. subst t.
  pose proof (tsem_sem_program_full P d fuel fw fT args o outs Hsm Hc Hfind Hsc Hcan Hrun) as HH.
  destruct (Sem.run_main fuel P args); exact HH || exact I.
Qed.
Print Assumptions in_full_fragment_sound.

(* ------------------------------------------------------------------ sanity: a struct, an enum match,
   a loop over an array, assignments through an index and through a field *)
Module SanityFull.
  Definition mm (k : N) : meta := mkMeta k 1 k 9.
  Definition u8 := TInt false 8.
  Definition tpoint := TStruct 20.            (* struct Point { x: u8, y: u8 }   fields 0, 1 *)
  Definition tshape := TEnum 30.              (* enum Shape { Dot, Line(u8) } *)
  Definition tarr := TArr u8 3.
  Definition lit (n : N) (k : N) := Ex (ENumU n 8) (mm k) u8.
  Definition v (x : N) (t : ty) (k : N) := Ex (EId x) (mm k) t.
  (* pub fn main(a: [u8; 3], s: Shape) -> u8 {          a = 1, s = 2
       let mut p = Point { x: 1u8, y: 2u8 };              p = 3
       let mut arr = a;                                   arr = 4
       arr[1u8] = 5u8;
       p.x = arr[0u8];
       let mut t = 0u8;                                   t = 5
       for e in arr { t = t + e; }                        e = 6
       match s { Shape::Dot => t + p.x, Shape::Line(n) => t + n } }      n = 7 *)
  Definition main_fn : fndef :=
    mkFn 11 [(1, tarr); (2, tshape)] u8
      [ St (SLetMut 3 (Ex (EStructLit 20 [(0, lit 1 1); (1, lit 2 2)]) (mm 3) tpoint)) (mm 4);
        St (SLetMut 4 (v 1 tarr 5)) (mm 6);
        St (SAssign 4 [AIdx tarr (lit 1 7)] (lit 5 8)) (mm 9);
        St (SAssign 3 [AFld tpoint 0] (Ex (EIdx (v 4 tarr 10) (lit 0 11)) (mm 12) u8)) (mm 13);
        St (SLetMut 5 (lit 0 14)) (mm 15);
        St (SFor (Pat (PId 6) (mm 16) u8) (v 4 tarr 17)
              [St (SAssign 5 [] (Ex (EOp OAdd (v 5 u8 18) (v 6 u8 19)) (mm 20) u8)) (mm 21)]) (mm 22);
        St (SExpr (Ex (EMatch (v 2 tshape 23)
              [ (Pat (PEnumUnit 30 0) (mm 24) tshape,
                 Ex (EOp OAdd (v 5 u8 25) (Ex (EFld (v 3 tpoint 26) 0) (mm 27) u8)) (mm 28) u8);
                (Pat (PEnumTup 30 1 [Pat (PId 7) (mm 29) u8]) (mm 30) tshape,
                 Ex (EOp OAdd (v 5 u8 31) (v 7 u8 32)) (mm 33) u8) ]) (mm 34) u8)) (mm 35) ].
  Definition P0 : program :=
    mkProgram [(20, [(0, u8); (1, u8)])] [(30, [[]; [u8]])] [main_fn] [] 11.

  Example accepted : in_full_fragment 14 P0 = true.
  Proof. vm_compute. reflexivity. Qed.

  Definition arr_bits (a b c : Z) : list bool := enc 8 a ++ enc 8 b ++ enc 8 c.
  Definition line_bits (n : Z) : list bool := true :: enc 8 n.
  Definition dot_bits : list bool := false :: enc 8 0.

  Ltac run A :=
    destruct (tsem_program 16 P0 A) as [[o outs]| |] eqn:Hrun;
      [|vm_compute in Hrun; discriminate Hrun|vm_compute in Hrun; discriminate Hrun];
    assert (Hcan : canonical_main_args P0 A = true) by (vm_compute; reflexivity);
    pose proof (in_full_fragment_sound P0 16 14 16 _ o outs accepted Hcan Hrun) as H.

  (* arr = [10, 5, 30], p.x = 10, t = 45, Line(7): 52 *)
  Example line : exists o outs l, tsem_program 16 P0 [arr_bits 10 20 30; line_bits 7] = Ok (o, outs) /\
    Sem.run_main 16 P0 [arr_bits 10 20 30; line_bits 7] = Sem.RunOk (enc 8 52) l /\ o = None /\ outs = enc 8 52.
  Proof.
    run [arr_bits 10 20 30; line_bits 7].
    assert (exists l, Sem.run_main 16 P0 [arr_bits 10 20 30; line_bits 7] = Sem.RunOk (enc 8 52) l) as [l Ev]
      by (eexists; vm_compute; reflexivity).
    rewrite Ev in H. destruct H as [-> ->]. exists None, (enc 8 52), l. repeat split; assumption || reflexivity.
  Qed.

  (* Dot: t + p.x = 45 + 10 *)
  Example dot : exists o outs l, tsem_program 16 P0 [arr_bits 10 20 30; dot_bits] = Ok (o, outs) /\
    Sem.run_main 16 P0 [arr_bits 10 20 30; dot_bits] = Sem.RunOk (enc 8 55) l /\ o = None /\ outs = enc 8 55.
  Proof.
    run [arr_bits 10 20 30; dot_bits].
    assert (exists l, Sem.run_main 16 P0 [arr_bits 10 20 30; dot_bits] = Sem.RunOk (enc 8 55) l) as [l Ev]
      by (eexists; vm_compute; reflexivity).
    rewrite Ev in H. destruct H as [-> ->]. exists None, (enc 8 55), l. repeat split; assumption || reflexivity.
  Qed.

  (* the loop overflows: 200 + 5 + 100 *)
  Example loop_panics : exists o outs, tsem_program 16 P0 [arr_bits 200 0 100; dot_bits] = Ok (o, outs) /\
    Sem.run_main 16 P0 [arr_bits 200 0 100; dot_bits] = Sem.RunPanic Sem.ROverflow (mm 20) /\
    o = Some (preason_num Overflow, ploc32 (ploc_of (mm 20))).
  Proof.
    run [arr_bits 200 0 100; dot_bits].
    assert (Sem.run_main 16 P0 [arr_bits 200 0 100; dot_bits] = Sem.RunPanic Sem.ROverflow (mm 20)) as Ev
      by (vm_compute; reflexivity).
    rewrite Ev in H. eauto.
  Qed.
End SanityFull.
