(* THE END-TO-END THEOREM.

   For a program P that passes the Boolean checks [certified fuel P] (all of them evaluated by
   the extracted checker) and whose compilation stays within the gate bound, the circuit [c]
   that the model of the compiler emits ([lower_program_with fuel dedup P = Ok (LCircuit c)])
     - validates ([ssa_validate c = None]) and takes one input per party of the declared sizes;
     - on EVERY party inputs [ins] of these sizes whose denoted arguments are canonical
       encodings of values of main's parameter types, evaluates to a bit vector [out] such that
         * if the source semantics Lang/Sem.v returns the bits [bits], EvalPanic::parse of [out]
           says "no panic", and the bits after the 161-bit panic record are [bits];
         * if the source semantics panics with reason r at location m, EvalPanic::parse of
           [out] is that panic: (r, m);
       and the source semantics does one of the two (it never runs out of fuel and is never
       stuck), unless [frag_program P = false] and it is stuck on a pattern-match code (this
       last disjunct is the one of SemFuel.wt_covered_fuel_agrees, verbatim).

   Composition of: Compile/TSemTotal.lower_program_total (compiler model -> circuit -> bit-level
   semantics [tsem_program], total), Compile/SemFuel.wt_covered_fuel_agrees (bit-level
   semantics = source semantics), Panic/ (the panic record), Circuit/RegAllocProofs.convert_correct
   (register form), Compile/LowerSound.lower_dedup_irrelevant. *)
From Coq Require Import Lia ZArith.
From GV Require Import Base.Util Lang.Ast Lang.Wt Lang.ValTy Circuit.Ssa Circuit.Reg Circuit.RegAlloc
  Circuit.RegAllocProofs Builder.Builder Panic.PanicRec Panic.PanicSem Compile.Lower Compile.TSem
  Compile.LowerSound Compile.TSemSafe Compile.TSemTotal Compile.TSemSemExpr Compile.TSemSemFull
  Compile.TSemSemFullCall Compile.TSemSemFullConst Compile.Fragment Compile.TSemSemFullWt Compile.SemFuel.
From GV Require Lang.Sem.
Local Open Scope N_scope.

(* ------------------------------------------------------------------ the statement's vocabulary *)

(* all the per-program checks: the strict checker of the proved fragment, the re-checker Wt.v's
   extra conditions and main's result type ([wt_covered], at Wt.v's own fuel), enough fuel for
   the source semantics, the crash-freedom conditions of the lowering, parameter types within
   the wiring depth, enough fuel for the lowering *)
Definition certified (fuel : nat) (P : program) : bool :=
  wt_covered 400 P && sem_fuel_enough fuel P && safe_program_ok P && params_ok P && fuel_enough fuel P.

(* the compiler's gate counter stays within MAX_GATES (build does not check it; a circuit
   beyond the bound is rejected by validate) *)
Definition within_gate_bound (fuel : nat) (dedup : bool) (P : program) : bool :=
  match lower_main_with fuel dedup P with
  | Ok (PreOk s _) => counter (cb s) + (b_shift (cb s) - 2) <=? MAX_GATES
  | _ => false
  end.

(* the parties' input sizes and the input wires of main's parameters (a single array parameter
   is split into one party per element) *)
Definition main_wiring (P : program) : list N * list (N * list N) :=
  match find_fn P (p_main P) with
  | Some fd => param_wiring P (fn_params fd)
  | None => ([], [])
  end.

(* the arguments of main (one bit vector per PARAMETER) denoted by the flat input [inp]
   (the concatenation of the parties' inputs) *)
Definition main_args (P : program) (inp : list bool) : list (list bool) :=
  param_args (snd (main_wiring P)) inp.

(* what the emitted circuit's output must say, given what the source semantics does *)
Definition output_spec (fuel : nat) (P : program) (args : list (list bool)) (out : list bool) : Prop :=
  (exists bits l, Sem.run_main fuel P args = Sem.RunOk bits l /\
                  parse_panic out = Ok (inl bits) /\ skipn 161 out = bits) \/
  (exists r m, Sem.run_main fuel P args = Sem.RunPanic r m /\
               parse_panic out = Ok (inr (pr r, ploc32 (ploc_of m)))) \/
  (frag_program P = false /\ exists c, Sem.run_main fuel P args = Sem.RunStuck c /\ In c stuck_allowed).

(* ------------------------------------------------------------------ helpers *)

Lemma preason_round r : preason_from_num (preason_num r) = Ok r.
Proof. destruct r; reflexivity. Qed.

Lemma load_inputs_zeros : forall igs, exists inp,
  load_inputs igs (map (fun n => repeat false (N.to_nat n)) igs) = Some inp.
Proof.
  induction igs as [|n igs [inp IH]]; cbn [map load_inputs]; [eauto|].
  unfold lenN. rewrite repeat_length, N2Nat.id, N.eqb_refl, IH. eauto.
Qed.

Lemma within_gate_bound_spec fuel dedup P : within_gate_bound fuel dedup P = true ->
  exists s outs, lower_main_with fuel dedup P = Ok (PreOk s outs) /\
                 counter (cb s) + (b_shift (cb s) - 2) <= MAX_GATES.
Proof.
  unfold within_gate_bound. destruct (lower_main_with fuel dedup P) as [[s outs| |]| |]; try discriminate.
  intro H. apply N.leb_le in H. eauto.
Qed.

Lemma certified_spec fuel P : certified fuel P = true ->
  wt_covered 400 P = true /\ sem_fuel_enough fuel P = true /\ safe_program_ok P = true /\
  params_ok P = true /\ (fuel_needed P <= fuel_cap)%nat /\ (fuel_needed P <= fuel)%nat.
Proof.
  unfold certified, fuel_enough. intro H.
  apply andb_prop in H. destruct H as [H H5]. apply andb_prop in H. destruct H as [H H4].
  apply andb_prop in H. destruct H as [H H3]. apply andb_prop in H. destruct H as [H1 H2].
  apply andb_prop in H5. destruct H5 as [H5 H6]. apply Nat.leb_le in H5. apply Nat.leb_le in H6.
  repeat split; assumption.
Qed.

(* ------------------------------------------------------------------ the theorem *)

Theorem end_to_end fuel dedup P c :
  certified fuel P = true -> within_gate_bound fuel dedup P = true ->
  lower_program_with fuel dedup P = Ok (LCircuit c) ->
  ssa_validate c = None /\ input_gates c = fst (main_wiring P) /\
  forall ins inp,
    load_inputs (input_gates c) ins = Some inp ->
    canonical_main_args P (main_args P inp) = true ->
    exists out, ssa_eval c ins = Some out /\ output_spec fuel P (main_args P inp) out.
Proof.
  intros Hcert Hgb Hc.
  destruct (certified_spec fuel P Hcert) as (Hcov & Hsf & Hsafe & Hpar & Hcap & Hn).
  destruct (within_gate_bound_spec fuel dedup P Hgb) as (s & outs & Hmain & Hmax).
  destruct (lower_program_total fuel dedup P s outs Hsafe Hpar Hcap Hn Hmain Hmax)
    as (fd & igs & bindings & Efd & Epw & H).
  assert (Hw : main_wiring P = (igs, bindings)) by (unfold main_wiring; now rewrite Efd).
  assert (Hshape : ssa_validate c = None /\ input_gates c = igs).
  { destruct (load_inputs_zeros igs) as [inp0 Hl0].
    destruct (H _ _ Hl0) as (o & vouts & c' & out & _ & _ & Hc' & Hv & Hig & _).
    rewrite Hc in Hc'. injection Hc' as <-. auto. }
  destruct Hshape as [Hv Hig]. split; [exact Hv|]. split; [now rewrite Hw|].
  intros ins inp Hload Hcan. rewrite Hig in Hload. unfold main_args in *. rewrite Hw in *. cbn [snd] in *.
  destruct (H ins inp Hload) as (o & vouts & c' & out & Ht & _ & Hc' & _ & _ & _ & Hev & Hpp & Hsk).
  rewrite Hc in Hc'. injection Hc' as <-. exists out. split; [exact Hev|].
  assert (Hle : (400 <= wt_fuel)%nat) by (rewrite wt_fuel_400; apply le_n).
  destruct (wt_covered_fuel_agrees P fuel 400 fuel _ o vouts Hle Hcov Hsf Hcan Ht)
    as [(bits & l & Er & -> & ->)|[(r & m & Er & ->)|Hst]].
  - left. exists bits, l. split; [exact Er|]. split; [exact Hpp|now apply Hsk].
  - right. left. exists r, m. split; [exact Er|]. rewrite Hpp. cbn [parse_spec]. now rewrite preason_round.
  - right. right. exact Hst.
Qed.
Print Assumptions end_to_end.

(* the register form of the circuit (Circuit/RegAlloc.convert) computes the same *)
Corollary end_to_end_register fuel dedup P c :
  certified fuel P = true -> within_gate_bound fuel dedup P = true ->
  lower_program_with fuel dedup P = Ok (LCircuit c) ->
  exists rc, convert c = Ok rc /\ reg_validate rc = Ok None /\ input_regs rc = fst (main_wiring P) /\
  forall ins inp,
    load_inputs (input_regs rc) ins = Some inp ->
    canonical_main_args P (main_args P inp) = true ->
    exists out, reg_eval rc ins = Some out /\ output_spec fuel P (main_args P inp) out.
Proof.
  intros Hcert Hgb Hc. destruct (end_to_end fuel dedup P c Hcert Hgb Hc) as (Hv & Hig & H).
  destruct (convert_correct c Hv) as (rc & Hconv & Hrv & Hev & _ & _ & Hin & _).
  exists rc. split; [exact Hconv|]. split; [exact Hrv|]. split; [congruence|].
  intros ins inp Hload Hcan. rewrite Hin in Hload. destruct (H ins inp Hload Hcan) as (out & Ho & Hs).
  exists out. split; [now rewrite Hev|exact Hs].
Qed.
Print Assumptions end_to_end_register.

(* gate de-duplication on or off: the two circuits take the same inputs and, on ALL inputs of the
   declared sizes (canonical or not), what EvalPanic::parse reads from their outputs is the same
   (the same panic, or no panic and the same result bits); on canonical inputs both satisfy
   [output_spec] by [end_to_end] *)
Corollary end_to_end_dedup_irrelevant fuel P c1 c2 :
  certified fuel P = true -> within_gate_bound fuel true P = true -> within_gate_bound fuel false P = true ->
  lower_program_with fuel true P = Ok (LCircuit c1) -> lower_program_with fuel false P = Ok (LCircuit c2) ->
  input_gates c1 = input_gates c2 /\
  forall ins inp, load_inputs (input_gates c1) ins = Some inp ->
    exists out1 out2, ssa_eval c1 ins = Some out1 /\ ssa_eval c2 ins = Some out2 /\
      parse_panic out1 = parse_panic out2 /\
      (canonical_main_args P (main_args P inp) = true ->
       output_spec fuel P (main_args P inp) out1 /\ output_spec fuel P (main_args P inp) out2).
Proof.
  intros Hcert Hg1 Hg2 Hc1 Hc2.
  destruct (end_to_end fuel true P c1 Hcert Hg1 Hc1) as (_ & Hi1 & E1).
  destruct (end_to_end fuel false P c2 Hcert Hg2 Hc2) as (_ & Hi2 & E2).
  split; [congruence|]. intros ins inp Hload.
  destruct (certified_spec fuel P Hcert) as (_ & _ & Hsafe & Hpar & Hcap & Hn).
  destruct (within_gate_bound_spec fuel true P Hg1) as (s1 & outs1 & Hm1 & Hmax1).
  destruct (within_gate_bound_spec fuel false P Hg2) as (s2 & outs2 & Hm2 & Hmax2).
  destruct (lower_program_total fuel true P s1 outs1 Hsafe Hpar Hcap Hn Hm1 Hmax1)
    as (fd & igs & bindings & Efd & Epw & H).
  assert (Hw : main_wiring P = (igs, bindings)) by (unfold main_wiring; now rewrite Efd).
  rewrite Hi1, Hw in Hload. cbn [fst] in Hload.
  destruct (H ins inp Hload) as (o & vouts & c' & out & Ht & _ & _).
  destruct (lower_dedup_irrelevant fuel P s1 outs1 s2 outs2 Hm1 Hm2 Hmax1 Hmax2)
    as (fd' & igs' & bindings' & Efd' & Epw' & D).
  rewrite Efd in Efd'. injection Efd' as <-. rewrite Epw in Epw'. injection Epw' as <- <-.
  destruct (D ins inp o vouts Hload Ht) as (d1 & d2 & out1 & out2 & L1 & L2 & V1 & V2 & Hpp & _).
  rewrite Hc1 in L1. injection L1 as <-. rewrite Hc2 in L2. injection L2 as <-.
  exists out1, out2. split; [exact V1|]. split; [exact V2|]. split; [exact Hpp|]. intro Hcan.
  assert (Hl1 : load_inputs (input_gates c1) ins = Some inp) by (rewrite Hi1, Hw; exact Hload).
  assert (Hl2 : load_inputs (input_gates c2) ins = Some inp) by (rewrite Hi2, Hw; exact Hload).
  destruct (E1 ins inp Hl1 Hcan) as (o1 & Ho1 & S1). destruct (E2 ins inp Hl2 Hcan) as (o2 & Ho2 & S2).
  rewrite V1 in Ho1. injection Ho1 as <-. rewrite V2 in Ho2. injection Ho2 as <-. auto.
Qed.
Print Assumptions end_to_end_dedup_irrelevant.

(* ------------------------------------------------------------------ non-vacuity: the program of
   TSemSemFullCall.SanityFullCall (structs, an enum, two callees, a loop, a match)
     fn sum(a: [u8; 3]) -> u8 { let mut t = 0u8; for e in a { t = t + e; } t }
     fn mk(x: u8, y: u8) -> Point { Point { x: x, y: y } }
     pub fn main(a: [u8; 3], s: Shape) -> u8 {
       let p = mk(sum(a), 2u8);
       match s { Shape::Dot => p.x, Shape::Line(n) => sum([n, p.x, p.y]) } }
   is certified, compiles within the bound (both de-duplication settings), and the theorem gives
   the circuit's output on a value-returning and on a panicking input *)
Module EndToEndExample.
  Import SanityFullCall TSemArith1.
  Definition fuel : nat := 20.

  Example certified_P0 : certified fuel P0 = true.
  Proof. vm_compute. reflexivity. Qed.

  Example bound_P0 : within_gate_bound fuel true P0 = true /\ within_gate_bound fuel false P0 = true.
  Proof. vm_compute. split; reflexivity. Qed.

  Lemma compiled dedup : exists c, lower_program_with fuel dedup P0 = Ok (LCircuit c).
  Proof. destruct dedup; vm_compute; eexists; reflexivity. Qed.

  (* two parties: the array (24 bits) and the shape (9 bits) *)
  Example parties : fst (main_wiring P0) = [24; 9].
  Proof. vm_compute. reflexivity. Qed.

  (* a = [10, 20, 30], s = Line(7): p = mk(60, 2), sum([7, 60, 2]) = 69 *)
  Example value_run : exists c out,
    lower_program_with fuel true P0 = Ok (LCircuit c) /\ ssa_validate c = None /\
    ssa_eval c [arr_bits 10 20 30; line_bits 7] = Some out /\
    parse_panic out = Ok (inl (enc 8 69)) /\ skipn 161 out = enc 8 69.
  Proof.
    destruct (compiled true) as [c Hc].
    destruct (end_to_end fuel true P0 c certified_P0 (proj1 bound_P0) Hc) as (Hv & Hig & H).
    assert (Hload : load_inputs (input_gates c) [arr_bits 10 20 30; line_bits 7]
                    = Some (arr_bits 10 20 30 ++ line_bits 7)) by (rewrite Hig; vm_compute; reflexivity).
    destruct (H _ _ Hload ltac:(vm_compute; reflexivity)) as (out & Ho & Hs).
    exists c, out. split; [exact Hc|]. split; [exact Hv|]. split; [exact Ho|].
    assert (exists l, Sem.run_main fuel P0 (main_args P0 (arr_bits 10 20 30 ++ line_bits 7)) = Sem.RunOk (enc 8 69) l)
      as [l Ev] by (eexists; vm_compute; reflexivity).
    destruct Hs as [(bits & l' & Er & Hp & Hk)|[(r & m & Er & _)|(_ & cc & Er & _)]]; rewrite Ev in Er; try discriminate Er.
    injection Er as <- _. auto.
  Qed.

  (* a = [200, 100, 0]: the first call overflows inside the callee's loop (200 + 100), at the
     addition `t + e` (meta 7) *)
  Example panic_run : exists c out,
    lower_program_with fuel true P0 = Ok (LCircuit c) /\
    ssa_eval c [arr_bits 200 100 0; dot_bits] = Some out /\
    parse_panic out = Ok (inr (Overflow, ploc32 (ploc_of (mm 7)))).
  Proof.
    destruct (compiled true) as [c Hc].
    destruct (end_to_end fuel true P0 c certified_P0 (proj1 bound_P0) Hc) as (Hv & Hig & H).
    assert (Hload : load_inputs (input_gates c) [arr_bits 200 100 0; dot_bits]
                    = Some (arr_bits 200 100 0 ++ dot_bits)) by (rewrite Hig; vm_compute; reflexivity).
    destruct (H _ _ Hload ltac:(vm_compute; reflexivity)) as (out & Ho & Hs).
    exists c, out. split; [exact Hc|]. split; [exact Ho|].
    assert (Sem.run_main fuel P0 (main_args P0 (arr_bits 200 100 0 ++ dot_bits)) = Sem.RunPanic Sem.ROverflow (mm 7))
      as Ev by (vm_compute; reflexivity).
    destruct Hs as [(bits & l' & Er & _)|[(r & m & Er & Hp)|(_ & cc & Er & _)]]; rewrite Ev in Er; try discriminate Er.
    injection Er as <- <-. exact Hp.
  Qed.

  (* the register form and the other de-duplication setting *)
  Example register_form : exists c rc, lower_program_with fuel true P0 = Ok (LCircuit c) /\ convert c = Ok rc /\
    exists out, reg_eval rc [arr_bits 10 20 30; line_bits 7] = Some out /\ skipn 161 out = enc 8 69.
  Proof.
    destruct value_run as (c & out & Hc & Hv & Ho & _ & Hk).
    destruct (convert_correct c Hv) as (rc & Hconv & _ & Hev & _). exists c, rc. split; [exact Hc|]. split; [exact Hconv|].
    exists out. rewrite Hev. split; [exact Ho|exact Hk].
  Qed.
End EndToEndExample.
