(* The operator lowering of Compile/Lower.v on the Boolean instance (TSem.tops) is bit-exact
   checked two's-complement arithmetic, for EVERY width n >= 1:
   +, - (unsigned / signed), unary minus, <, >, ==, !=, &, ^, |, /, % (unsigned / signed).

   Conventions.  Bit vectors are MSB first.  [uval x] is the unsigned reading, [sval x] the
   two's-complement reading, both in Z.  [enc n z] is THE n-bit vector whose unsigned reading
   is [z mod 2^n] (for signed results this is the two's-complement encoding; [sval_enc] shows
   that its signed reading is [Sem.wrap true n z]).  The overflow conditions are stated with
   [Sem.in_range] of Lang/Sem.v (the source-level specification of checked arithmetic). *)
From Coq Require Import Lia ZArith Zquot.
From GV Require Import Base.Util Base.Bits Base.BitsProofs Lang.Ast Gadgets.Gadgets Gadgets.GadgetSpec
  Gadgets.Arith Panic.PanicRec Panic.PanicSem Compile.Lower Compile.TSem.
From GV Require Lang.Sem.
Local Open Scope N_scope.

(* ------------------------------------------------------------------ readings and encodings *)

Definition uval (l : list bool) : Z := Z.of_N (bits_to_N l).
Definition sval (l : list bool) : Z := bits_to_Z_signed l.

(* the n low bits of z, most significant first *)
Definition enc (n : nat) (z : Z) : list bool := N_to_bits n (Z.to_N (z mod 2 ^ Z.of_nat n)).

Lemma N_to_bits_length n v : length (N_to_bits n v) = n.
Proof. induction n as [|n IH]; [reflexivity|]. cbn [N_to_bits length]. now rewrite IH. Qed.

Lemma bits_to_N_N_to_bits n v : bits_to_N (N_to_bits n v) = v mod 2 ^ N.of_nat n.
Proof.
  induction n as [|n IH].
  - cbn [N_to_bits bits_to_N]. change (2 ^ N.of_nat 0) with 1. now rewrite N.mod_1_r.
  - cbn [N_to_bits]. rewrite bits_to_N_cons, IH. unfold lenN. rewrite N_to_bits_length.
    replace (N.of_nat (S n)) with (N.of_nat n + 1) by lia.
    rewrite N.pow_add_r, N.pow_1_r.
    pose proof (pow2_pos (N.of_nat n)) as Hp.
    rewrite N.mod_mul_r by lia. rewrite N.testbit_spec'. lia.
Qed.

Lemma length_enc n z : length (enc n z) = n.
Proof. apply N_to_bits_length. Qed.

Lemma pow2_N_Z (k : N) : Z.of_N (2 ^ k) = (2 ^ Z.of_N k)%Z.
Proof. now rewrite N2Z.inj_pow. Qed.

Lemma pow2_Z_pos (k : N) : (0 < 2 ^ Z.of_N k)%Z.
Proof. apply Z.pow_pos_nonneg; lia. Qed.

Lemma uval_enc n z : uval (enc n z) = (z mod 2 ^ Z.of_nat n)%Z.
Proof.
  unfold uval, enc. rewrite bits_to_N_N_to_bits.
  assert (0 < 2 ^ Z.of_nat n)%Z as Hp by (apply Z.pow_pos_nonneg; lia).
  pose proof (Z.mod_pos_bound z _ Hp) as Hb.
  rewrite N2Z.inj_mod, Z2N.id by lia. rewrite pow2_N_Z, nat_N_Z.
  apply Z.mod_small. lia.
Qed.

(* [enc n z] is the only n-bit vector that reads as z modulo 2^n *)
Lemma enc_unique n z r : length r = n -> uval r = (z mod 2 ^ Z.of_nat n)%Z -> r = enc n z.
Proof.
  intros Hl Hv. apply bits_to_N_inj; [now rewrite length_enc|].
  apply N2Z.inj. fold (uval r). fold (uval (enc n z)). now rewrite uval_enc.
Qed.

Lemma uval_range l : (0 <= uval l < 2 ^ Z.of_nat (length l))%Z.
Proof.
  unfold uval. pose proof (bits_to_N_lt l) as H. unfold lenN in H.
  rewrite <- nat_N_Z, <- pow2_N_Z. lia.
Qed.

Lemma enc_uval l : enc (length l) (uval l) = l.
Proof.
  symmetry. apply enc_unique; [reflexivity|]. symmetry. apply Z.mod_small. apply uval_range.
Qed.

Lemma sval_uval l : l <> [] ->
  sval l = (uval l - (if hd false l then 2 ^ Z.of_nat (length l) else 0))%Z.
Proof.
  intro Hne. destruct (signed_facts l Hne) as (_ & _ & _ & _ & HS). cbv zeta in HS.
  unfold sval, uval. rewrite HS. unfold lenN. rewrite pow2_N_Z, nat_N_Z.
  destruct (hd false l); reflexivity.
Qed.

Lemma sval_mod l : l <> [] -> (sval l mod 2 ^ Z.of_nat (length l))%Z = uval l.
Proof.
  intro Hne. rewrite (sval_uval l Hne). pose proof (uval_range l) as Hr.
  destruct (hd false l).
  - symmetry. apply (Z.mod_unique_pos _ _ (-1)); lia.
  - rewrite Z.sub_0_r. apply Z.mod_small. exact Hr.
Qed.

Lemma enc_sval l : l <> [] -> enc (length l) (sval l) = l.
Proof. intro Hne. symmetry. apply enc_unique; [reflexivity|]. symmetry. now apply sval_mod. Qed.

Lemma half_N_Z n : (1 <= n)%nat ->
  Z.of_N (2 ^ (N.of_nat n - 1)) = (2 ^ (Z.of_N (N.of_nat n) - 1))%Z.
Proof. intro Hn. rewrite pow2_N_Z. f_equal. lia. Qed.

Lemma pow2_Z_half n : (1 <= n)%nat -> (2 ^ Z.of_nat n = 2 * 2 ^ (Z.of_nat n - 1))%Z.
Proof.
  intro Hn. replace (Z.of_nat n) with (1 + (Z.of_nat n - 1))%Z at 1 by lia.
  rewrite Z.pow_add_r by lia. reflexivity.
Qed.

Lemma sval_range l : l <> [] ->
  (- 2 ^ (Z.of_nat (length l) - 1) <= sval l < 2 ^ (Z.of_nat (length l) - 1))%Z.
Proof.
  intro Hne. pose proof (bits_to_Z_signed_range l Hne) as H. unfold lenN in H.
  assert (1 <= length l)%nat by (destruct l; [congruence|cbn [length]; lia]).
  replace (Z.of_N (N.of_nat (length l) - 1)) with (Z.of_nat (length l) - 1)%Z in H by lia.
  exact H.
Qed.

(* the signed reading of an encoding is the wrapped value of Lang/Sem.v *)
Lemma sval_enc n z : (1 <= n)%nat -> sval (enc n z) = Sem.wrap true (N.of_nat n) z.
Proof.
  intro Hn. assert (enc n z <> []) as Hne.
  { intro E. pose proof (length_enc n z) as L. rewrite E in L. cbn [length] in L. lia. }
  pose proof (sval_uval _ Hne) as HS. pose proof (sval_range _ Hne) as HR.
  rewrite length_enc in HS, HR. rewrite uval_enc in HS.
  unfold Sem.wrap. rewrite nat_N_Z. cbn [andb].
  assert (0 < 2 ^ Z.of_nat n)%Z as Hp by (apply Z.pow_pos_nonneg; lia).
  pose proof (Z.mod_pos_bound z _ Hp) as Hb. pose proof (pow2_Z_half n Hn) as Hh.
  destruct (Z.leb_spec (2 ^ (Z.of_nat n - 1)) (z mod 2 ^ Z.of_nat n)); destruct (hd false (enc n z)); lia.
Qed.

Lemma uval_enc_wrap n z : uval (enc n z) = Sem.wrap false (N.of_nat n) z.
Proof. rewrite uval_enc. unfold Sem.wrap. cbn [andb]. now rewrite nat_N_Z. Qed.

(* in-range values are encoded exactly *)
Lemma sval_enc_in_range n z : (1 <= n)%nat -> Sem.in_range true (N.of_nat n) z = true ->
  sval (enc n z) = z.
Proof.
  intros Hn Hr. rewrite sval_enc by exact Hn. unfold Sem.in_range in Hr. unfold Sem.wrap.
  rewrite nat_N_Z in *. cbn [andb]. apply andb_prop in Hr. destruct Hr as [H1 H2].
  apply Z.leb_le in H1. apply Z.ltb_lt in H2. pose proof (pow2_Z_half n Hn) as Hh.
  assert (0 < 2 ^ (Z.of_nat n - 1))%Z as Hp by (apply Z.pow_pos_nonneg; lia).
  destruct (Z_lt_dec z 0) as [Hneg|Hpos].
  - assert ((z mod 2 ^ Z.of_nat n)%Z = (z + 2 ^ Z.of_nat n)%Z) as ->
      by (symmetry; apply (Z.mod_unique_pos _ _ (-1)); lia).
    destruct (Z.leb_spec (2 ^ (Z.of_nat n - 1)) (z + 2 ^ Z.of_nat n)); lia.
  - rewrite Z.mod_small by lia. destruct (Z.leb_spec (2 ^ (Z.of_nat n - 1)) z); lia.
Qed.

Lemma uval_enc_in_range n z : Sem.in_range false (N.of_nat n) z = true -> uval (enc n z) = z.
Proof.
  intro Hr. rewrite uval_enc. unfold Sem.in_range in Hr. rewrite nat_N_Z in Hr.
  apply andb_prop in Hr. destruct Hr as [H1 H2]. apply Z.leb_le in H1. apply Z.ltb_lt in H2.
  apply Z.mod_small. lia.
Qed.

(* reflection of the signed range test against the statement form of Gadgets/Arith.v *)
Lemma in_range_signed_iff n z : (1 <= n)%nat ->
  Sem.in_range true (N.of_nat n) z = true <->
  (- Z.of_N (2 ^ (N.of_nat n - 1)) <= z < Z.of_N (2 ^ (N.of_nat n - 1)))%Z.
Proof.
  intro Hn. unfold Sem.in_range. rewrite half_N_Z by exact Hn.
  rewrite andb_true_iff, Z.leb_le, Z.ltb_lt. reflexivity.
Qed.

Lemma eq_negb_of_iff (b c : bool) (Q : Prop) : (b = true <-> ~ Q) -> (c = true <-> Q) -> b = negb c.
Proof. intros H1 H2. destruct b, c; cbn [negb]; try reflexivity; exfalso; intuition congruence. Qed.

Lemma eq_of_iff (b c : bool) (Q : Prop) : (b = true <-> Q) -> (c = true <-> Q) -> b = c.
Proof. intros H1 H2. destruct b, c; try reflexivity; exfalso; intuition congruence. Qed.

Lemma nonempty_length {A} (l : list A) : l <> [] -> (1 <= length l)%nat.
Proof. destruct l; [congruence|cbn [length]; lia]. Qed.

Lemma nonempty_of_length {A B} (x : list A) (y : list B) : x <> [] -> length x = length y -> y <> [].
Proof. destruct x, y; try congruence; discriminate. Qed.

(* ------------------------------------------------------------------ the prologue of lower_binop *)

Lemma m_extend_same (v : list bool) t bits (o : pobs) : v <> [] -> length v = bits ->
  m_extend tops v t bits o = Ok (v, o).
Proof.
  intros Hne Hl. unfold m_extend, lift_res, extend_g. destruct v as [|a v]; [congruence|].
  rewrite Hl, Nat.eqb_refl. reflexivity.
Qed.

(* for operands of the same non-zero length the two extensions do nothing *)
Lemma lower_binop_same_length op t tx ty_ (x y : list bool) m (o : pobs) :
  x <> [] -> length x = length y ->
  lower_binop tops op t tx ty_ x y m o =
  match op with
  | OBitAnd => map2_M (m_and tops) x y
  | OBitXor => map2_M (m_xor tops) x y
  | OBitOr => map2_M (m_or tops) x y
  | OSub =>
      mbind (o_subtraction tops x y (is_signed t)) (fun '(sum, ov) =>
      mbind (m_panic_if tops ov Overflow m) (fun _ => ret sum))
  | OAdd =>
      mbind (o_addition tops x y) (fun '(sum, carry, carry_prev) =>
      mbind (if is_signed tx || is_signed ty_ then m_xor tops carry carry_prev else ret carry) (fun ov =>
      mbind (m_panic_if tops ov Overflow m) (fun _ => ret sum)))
  | OMul => lower_mul tops (is_signed t) x y m
  | ODiv =>
      mbind (eq_acc tops (wT tops) (map (fun w => (w, wF tops)) y)) (fun all_zero =>
      mbind (m_panic_if tops all_zero DivByZero m) (fun _ =>
      if is_signed t then
        mbind (lift_res (hd_res x)) (fun x0 =>
        mbind (lift_res (hd_res y)) (fun y0 =>
        mbind (o_sdiv tops x y) (fun '(q, _) =>
        mbind (m_and tops x0 y0) (fun both_neg =>
        mbind (lift_res (hd_res q)) (fun q0 =>
        mbind (m_and tops both_neg q0) (fun ov =>
        mbind (m_panic_if tops ov Overflow m) (fun _ => ret q)))))))
      else
        mbind (o_udiv tops x y) (fun '(q, _) => ret q)))
  | OMod =>
      mbind (eq_acc tops (wT tops) (map (fun w => (w, wF tops)) y)) (fun all_zero =>
      mbind (m_panic_if tops all_zero DivByZero m) (fun _ =>
      if is_signed t then
        mbind (o_sdiv tops x y) (fun '(_, r) => ret r)
      else
        mbind (o_udiv tops x y) (fun '(_, r) => ret r)))
  | OGt | OLt =>
      mbind (o_comparator tops (length x) x (is_signed tx) y (is_signed ty_)) (fun '(lt, gt) =>
      ret [match op with OGt => gt | _ => lt end])
  | OEq | ONe =>
      mbind (if (length x =? length y)%nat then eq_acc tops (wT tops) (combine x y) else crash) (fun acc =>
      match op with
      | OEq => ret [acc]
      | _ => mbind (m_not tops acc) (fun n => ret [n])
      end)
  | OShl | OShr | OLAnd | OLOr => crash
  end o.
Proof.
  intros Hne Hl. assert (y <> []) as Hny by (eapply nonempty_of_length; eassumption).
  unfold lower_binop.
  assert (Nat.max (length x) (length y) = length x) as -> by (rewrite Hl; apply Nat.max_id).
  unfold mbind at 1. rewrite (m_extend_same x tx (length x) o Hne eq_refl).
  unfold mbind at 1. rewrite (m_extend_same y ty_ (length x) o Hny (eq_sym Hl)).
  destruct op; reflexivity.
Qed.

Ltac zpow_norm :=
  unfold lenN in *; rewrite ?pow2_N_Z, ?nat_N_Z in *.

(* ------------------------------------------------------------------ (1) addition *)

Theorem lower_add_unsigned t tx ty_ x y m o :
  x <> [] -> length x = length y -> is_signed tx || is_signed ty_ = false ->
  let n := length x in
  let R := (uval x + uval y)%Z in
  lower_binop tops OAdd t tx ty_ x y m o =
  Ok (enc n R, push_spec o (negb (Sem.in_range false (N.of_nat n) R)) Overflow (ploc_of m)).
Proof.
  intros Hne Hl Hs. cbv zeta. rewrite lower_binop_same_length by assumption. rewrite Hs.
  unfold mbind. cbn [o_addition tops]. unfold same_len. rewrite Hl, Nat.eqb_refl.
  pose proof (adder_correct x y Hl) as Ha. pose proof (adder_carry_iff x y Hl) as Hc.
  destruct (addition_s x y) as [[sum c] cp]. destruct Ha as (HL & HV & _ & _). cbn [fst snd] in Hc.
  unfold ret, m_panic_if. cbn [o_panic_if tops]. rewrite <- Hl.
  pose proof (uval_range x) as Rx. pose proof (uval_range y) as Ry. rewrite <- Hl in Ry.
  f_equal. f_equal.
  - apply enc_unique; [exact HL|]. unfold uval. rewrite HV.
    rewrite N2Z.inj_mod, N2Z.inj_add. zpow_norm. reflexivity.
  - f_equal. unfold Sem.in_range. rewrite nat_N_Z. unfold uval in *.
    assert (2 ^ lenN x <= bits_to_N x + bits_to_N y <->
            (2 ^ Z.of_nat (length x) <= Z.of_N (bits_to_N x) + Z.of_N (bits_to_N y))%Z) as Hq.
    { unfold lenN. rewrite <- nat_N_Z, <- pow2_N_Z. lia. }
    destruct (Z.leb_spec 0 (Z.of_N (bits_to_N x) + Z.of_N (bits_to_N y))) as [_|Hx]; [|lia].
    destruct (Z.ltb_spec (Z.of_N (bits_to_N x) + Z.of_N (bits_to_N y)) (2 ^ Z.of_nat (length x))) as [Hlt|Hge];
      cbn [andb negb].
    + destruct c; [|reflexivity]. exfalso. pose proof (proj1 Hq (proj1 Hc eq_refl)). lia.
    + apply Hc. apply Hq. exact Hge.
Qed.
Print Assumptions lower_add_unsigned.

Theorem lower_add_signed t tx ty_ x y m o :
  x <> [] -> length x = length y -> is_signed tx || is_signed ty_ = true ->
  let n := length x in
  let R := (sval x + sval y)%Z in
  lower_binop tops OAdd t tx ty_ x y m o =
  Ok (enc n R, push_spec o (negb (Sem.in_range true (N.of_nat n) R)) Overflow (ploc_of m)).
Proof.
  intros Hne Hl Hs. cbv zeta. rewrite lower_binop_same_length by assumption. rewrite Hs.
  unfold mbind. cbn [o_addition tops]. unfold same_len. rewrite Hl, Nat.eqb_refl.
  pose proof (adder_correct x y Hl) as Ha. pose proof (add_signed_overflow x y Hne Hl) as Hov.
  destruct (addition_s x y) as [[sum c] cp]. destruct Ha as (HL & _ & _ & _).
  cbv zeta in Hov. destruct Hov as (HV & Hc & _).
  unfold m_xor. cbn [o_xor tops]. unfold tret, ret, m_panic_if. cbn [o_panic_if tops]. rewrite <- Hl.
  f_equal. f_equal.
  - apply enc_unique; [exact HL|]. unfold uval, sval. rewrite HV. zpow_norm. reflexivity.
  - f_equal. apply (eq_negb_of_iff _ _ _ Hc). apply in_range_signed_iff. now apply nonempty_length.
Qed.
Print Assumptions lower_add_signed.

(* ------------------------------------------------------------------ (2) subtraction *)

Theorem lower_sub_unsigned t tx ty_ x y m o :
  x <> [] -> length x = length y -> is_signed t = false ->
  let n := length x in
  let R := (uval x - uval y)%Z in
  lower_binop tops OSub t tx ty_ x y m o =
  Ok (enc n R, push_spec o (negb (Sem.in_range false (N.of_nat n) R)) Overflow (ploc_of m)).
Proof.
  intros Hne Hl Hs. cbv zeta. rewrite lower_binop_same_length by assumption. rewrite Hs.
  unfold mbind. cbn [o_subtraction tops]. unfold same_len. rewrite Hl, Nat.eqb_refl. cbn [negb orb andb].
  pose proof (sub_correct_unsigned x y Hl) as Ha. pose proof (sub_correct_unsigned_Z x y Hl) as Hz.
  destruct (subtraction_s x y false) as [d ov]. destruct Ha as (HL & _ & Hov). cbn [fst] in Hz.
  unfold ret, m_panic_if. cbn [o_panic_if tops]. rewrite <- Hl.
  pose proof (uval_range x) as Rx. pose proof (uval_range y) as Ry. rewrite <- Hl in Ry.
  f_equal. f_equal.
  - apply enc_unique; [exact HL|]. unfold uval. rewrite Hz. zpow_norm. reflexivity.
  - f_equal. subst ov. unfold Sem.in_range. rewrite nat_N_Z. unfold uval in *.
    destruct (N.ltb_spec (bits_to_N x) (bits_to_N y));
      destruct (Z.leb_spec 0 (Z.of_N (bits_to_N x) - Z.of_N (bits_to_N y)));
      destruct (Z.ltb_spec (Z.of_N (bits_to_N x) - Z.of_N (bits_to_N y)) (2 ^ Z.of_nat (length x)));
      cbn [andb negb]; try reflexivity; lia.
Qed.
Print Assumptions lower_sub_unsigned.

Theorem lower_sub_signed t tx ty_ x y m o :
  x <> [] -> length x = length y -> is_signed t = true ->
  let n := length x in
  let R := (sval x - sval y)%Z in
  lower_binop tops OSub t tx ty_ x y m o =
  Ok (enc n R, push_spec o (negb (Sem.in_range true (N.of_nat n) R)) Overflow (ploc_of m)).
Proof.
  intros Hne Hl Hs. cbv zeta. rewrite lower_binop_same_length by assumption. rewrite Hs.
  unfold mbind. cbn [o_subtraction tops]. unfold same_len. rewrite Hl, Nat.eqb_refl.
  assert (nonempty x = true) as -> by (destruct x; [congruence|reflexivity]). cbn [negb orb andb].
  pose proof (sub_correct_signed x y Hne Hl) as Ha.
  destruct (subtraction_s x y true) as [d ov]. cbv zeta in Ha. destruct Ha as (HL & HV & Hov & _).
  unfold ret, m_panic_if. cbn [o_panic_if tops]. rewrite <- Hl.
  f_equal. f_equal.
  - apply enc_unique; [exact HL|]. unfold uval, sval. rewrite HV. zpow_norm. reflexivity.
  - f_equal. apply (eq_negb_of_iff _ _ _ Hov). apply in_range_signed_iff. now apply nonempty_length.
Qed.
Print Assumptions lower_sub_signed.

(* ------------------------------------------------------------------ (3) unary minus *)

(* the operations of the ENeg case of [lower_expr_body] after the operand [x] has been
   evaluated; [k] is what the case does with the result *)
Definition neg_steps {A} (x : list bool) (m : meta) (k : list bool -> pobs -> res (A * pobs))
  : pobs -> res (A * pobs) :=
  mbind (o_negation tops x) (fun neg =>
  mbind (lift_res (hd_res x)) (fun x0 =>
  mbind (lift_res (hd_res neg)) (fun n0 =>
  mbind (m_and tops x0 n0) (fun ov =>
  mbind (m_panic_if tops ov Overflow m) (fun _ => k neg))))).

(* ... and this IS that case, literally *)
Lemma lower_neg_case P re rp rb e1 m t E :
  lower_expr_body tops P re rp rb (Ex (ENeg e1) m t) E =
  mbind (re e1 E) (fun '(x, E1) => neg_steps x m (fun neg => ret (neg, E1))).
Proof. reflexivity. Qed.

Lemma hd_res_nonempty {A} (d : A) (l : list A) : l <> [] -> hd_res l = Ok (hd d l).
Proof. destruct l; [congruence|reflexivity]. Qed.

Lemma neg_in_range_iff_min x : x <> [] ->
  negb (Sem.in_range true (N.of_nat (length x)) (- sval x)) = (sval x =? Sem.min_of (N.of_nat (length x)))%Z.
Proof.
  intro Hne. pose proof (sval_range x Hne) as Hr. unfold Sem.in_range, Sem.min_of. rewrite nat_N_Z.
  destruct (Z.eqb_spec (sval x) (- 2 ^ (Z.of_nat (length x) - 1)));
    destruct (Z.leb_spec (- 2 ^ (Z.of_nat (length x) - 1)) (- sval x));
    destruct (Z.ltb_spec (- sval x) (2 ^ (Z.of_nat (length x) - 1))); cbn [andb negb]; try reflexivity; lia.
Qed.

Theorem neg_steps_correct {A} x m (k : list bool -> pobs -> res (A * pobs)) o : x <> [] ->
  let n := length x in
  let R := (- sval x)%Z in
  neg_steps x m k o =
  k (enc n R) (push_spec o (negb (Sem.in_range true (N.of_nat n) R)) Overflow (ploc_of m)).
Proof.
  intro Hne. cbv zeta. unfold neg_steps, mbind. cbn [o_negation tops]. unfold tret.
  destruct (neg_correct x) as [HL HV]. pose proof (neg_overflow_signal x Hne) as Hs. cbv zeta in Hs.
  destruct Hs as [Hov _].
  assert (negation_s x <> []) as Hnn by (eapply nonempty_of_length; [exact Hne|now symmetry]).
  rewrite (hd_res_nonempty false x Hne), (hd_res_nonempty false _ Hnn). unfold lift_res.
  unfold m_and. cbn [o_and tops]. unfold tret, m_panic_if. cbn [o_panic_if tops].
  assert (negation_s x = enc (length x) (- sval x)) as <-.
  { apply enc_unique; [exact HL|]. unfold uval. rewrite HV.
    pose proof (bits_to_N_lt x) as Hx. pose proof (pow2_pos (lenN x)) as Hp.
    rewrite neg_mod_Z by lia. fold (uval x). rewrite (sval_uval x Hne). zpow_norm.
    destruct (hd false x); [|now rewrite Z.sub_0_r].
    replace (- (uval x - 2 ^ Z.of_nat (length x)))%Z with (- uval x + 1 * 2 ^ Z.of_nat (length x))%Z by lia.
    now rewrite Z.mod_add by lia. }
  f_equal. f_equal. rewrite (neg_in_range_iff_min x Hne).
  apply (eq_of_iff _ _ _ Hov). rewrite Z.eqb_eq. unfold sval, Sem.min_of, lenN.
  rewrite half_N_Z by (now apply nonempty_length). reflexivity.
Qed.
Print Assumptions neg_steps_correct.

(* the ENeg case as a whole: if the operand evaluates to the non-empty vector [x] ... *)
Theorem lower_neg_correct P re rp rb e1 m t E o x E1 o1 :
  re e1 E o = Ok ((x, E1), o1) -> x <> [] ->
  let n := length x in
  let R := (- sval x)%Z in
  lower_expr_body tops P re rp rb (Ex (ENeg e1) m t) E o =
  Ok ((enc n R, E1), push_spec o1 (negb (Sem.in_range true (N.of_nat n) R)) Overflow (ploc_of m)).
Proof.
  intros He Hne. cbv zeta. rewrite lower_neg_case. unfold mbind at 1. rewrite He.
  now rewrite neg_steps_correct.
Qed.
Print Assumptions lower_neg_correct.

(* Overflow iff the operand is MIN *)
Corollary lower_neg_overflow_iff_min P re rp rb e1 m t E o x E1 o1 :
  re e1 E o = Ok ((x, E1), o1) -> x <> [] ->
  let n := length x in
  lower_expr_body tops P re rp rb (Ex (ENeg e1) m t) E o =
  Ok ((enc n (- sval x), E1),
      push_spec o1 (sval x =? Sem.min_of (N.of_nat n))%Z Overflow (ploc_of m)).
Proof.
  intros He Hne. cbv zeta. rewrite <- (neg_in_range_iff_min x Hne).
  now apply lower_neg_correct.
Qed.
Print Assumptions lower_neg_overflow_iff_min.

(* ------------------------------------------------------------------ (4) comparisons *)

Lemma comparator_same_length x sx y sy (o : pobs) : length x = length y ->
  o_comparator tops (length x) x sx y sy o = Ok (cmp_s (length x) x sx y sy, o).
Proof.
  intro Hl. cbn [o_comparator tops]. rewrite <- Hl, Nat.leb_refl. reflexivity.
Qed.

Lemma uval_ltb x y : (uval x <? uval y)%Z = (bits_to_N x <? bits_to_N y).
Proof.
  unfold uval. destruct (Z.ltb_spec (Z.of_N (bits_to_N x)) (Z.of_N (bits_to_N y)));
    destruct (N.ltb_spec (bits_to_N x) (bits_to_N y)); try reflexivity; lia.
Qed.

Lemma uval_eqb x y : (uval x =? uval y)%Z = (bits_to_N x =? bits_to_N y).
Proof.
  unfold uval. destruct (Z.eqb_spec (Z.of_N (bits_to_N x)) (Z.of_N (bits_to_N y)));
    destruct (N.eqb_spec (bits_to_N x) (bits_to_N y)); try reflexivity; lia.
Qed.

(* returns (lt, gt) *)
Lemma cmp_s_unsigned x y : length x = length y ->
  cmp_s (length x) x false y false = ((uval x <? uval y)%Z, (uval y <? uval x)%Z).
Proof.
  intro Hl. rewrite cmp_correct_unsigned; [|lia|lia]. replace (firstn (length x) y) with y by (rewrite Hl; symmetry; apply firstn_all). rewrite !firstn_all.
  now rewrite !uval_ltb.
Qed.

Lemma cmp_s_signed x sx y sy : length x = length y -> sx || sy = true ->
  cmp_s (length x) x sx y sy = ((sval x <? sval y)%Z, (sval y <? sval x)%Z).
Proof.
  intros Hl Hs. rewrite cmp_correct_signed; [|lia|lia|exact Hs]. replace (firstn (length x) y) with y by (rewrite Hl; symmetry; apply firstn_all). rewrite !firstn_all.
  reflexivity.
Qed.

Theorem lower_lt_unsigned t tx ty_ x y m o :
  x <> [] -> length x = length y -> is_signed tx || is_signed ty_ = false ->
  lower_binop tops OLt t tx ty_ x y m o = Ok ([(uval x <? uval y)%Z], o).
Proof.
  intros Hne Hl Hs. rewrite lower_binop_same_length by assumption. apply orb_false_elim in Hs.
  destruct Hs as [-> ->]. unfold mbind. rewrite comparator_same_length by exact Hl.
  rewrite cmp_s_unsigned by exact Hl. reflexivity.
Qed.
Print Assumptions lower_lt_unsigned.

Theorem lower_gt_unsigned t tx ty_ x y m o :
  x <> [] -> length x = length y -> is_signed tx || is_signed ty_ = false ->
  lower_binop tops OGt t tx ty_ x y m o = Ok ([(uval y <? uval x)%Z], o).
Proof.
  intros Hne Hl Hs. rewrite lower_binop_same_length by assumption. apply orb_false_elim in Hs.
  destruct Hs as [-> ->]. unfold mbind. rewrite comparator_same_length by exact Hl.
  rewrite cmp_s_unsigned by exact Hl. reflexivity.
Qed.
Print Assumptions lower_gt_unsigned.

Theorem lower_lt_signed t tx ty_ x y m o :
  x <> [] -> length x = length y -> is_signed tx || is_signed ty_ = true ->
  lower_binop tops OLt t tx ty_ x y m o = Ok ([(sval x <? sval y)%Z], o).
Proof.
  intros Hne Hl Hs. rewrite lower_binop_same_length by assumption.
  unfold mbind. rewrite comparator_same_length by exact Hl.
  rewrite cmp_s_signed by assumption. reflexivity.
Qed.
Print Assumptions lower_lt_signed.

Theorem lower_gt_signed t tx ty_ x y m o :
  x <> [] -> length x = length y -> is_signed tx || is_signed ty_ = true ->
  lower_binop tops OGt t tx ty_ x y m o = Ok ([(sval y <? sval x)%Z], o).
Proof.
  intros Hne Hl Hs. rewrite lower_binop_same_length by assumption.
  unfold mbind. rewrite comparator_same_length by exact Hl.
  rewrite cmp_s_signed by assumption. reflexivity.
Qed.
Print Assumptions lower_gt_signed.

(* the equality accumulator is the loop of [eq_s] *)
Lemma eq_acc_tops xys : forall acc (o : pobs),
  eq_acc tops acc xys o =
  Ok ((fix go (acc : bool) (xys : list (bool * bool)) : bool :=
         match xys with
         | [] => acc
         | (x, y) :: r => go (andb acc (negb (xorb x y))) r
         end) acc xys, o).
Proof.
  induction xys as [|[a b] r IH]; intros acc o; [reflexivity|].
  cbn [eq_acc]. unfold mbind, m_eq, m_and. cbn [o_eq o_and tops]. unfold tret. apply IH.
Qed.

Lemma eq_acc_eq_s x y (o : pobs) : length x = length y ->
  eq_acc tops true (combine x y) o = Ok (eq_s x y, o).
Proof.
  intro Hl. rewrite eq_acc_tops. unfold eq_s. rewrite Hl, Nat.eqb_refl. reflexivity.
Qed.

(* vectors of the same length are equal iff their readings are *)
Lemma eq_s_uval x y : length x = length y -> eq_s x y = (uval x =? uval y)%Z.
Proof. intro Hl. rewrite uval_eqb. now apply eq_correct_N. Qed.

Lemma eq_s_sval x y : x <> [] -> length x = length y -> eq_s x y = (sval x =? sval y)%Z.
Proof.
  intros Hne Hl. assert (y <> []) as Hny by (eapply nonempty_of_length; eassumption).
  destruct (Z.eqb_spec (sval x) (sval y)) as [E|E].
  - apply eq_correct. rewrite <- (enc_sval x Hne), <- (enc_sval y Hny), E, Hl. reflexivity.
  - destruct (eq_s x y) eqn:Eq; [|reflexivity]. apply eq_correct in Eq. congruence.
Qed.

(* == and != compare the bit vectors; on vectors of the same length this is equality of the
   unsigned readings and (equivalently) of the signed readings, whatever the types say *)
Theorem lower_eq_unsigned t tx ty_ x y m o :
  x <> [] -> length x = length y ->
  lower_binop tops OEq t tx ty_ x y m o = Ok ([(uval x =? uval y)%Z], o).
Proof.
  intros Hne Hl. rewrite lower_binop_same_length by assumption.
  rewrite Hl, Nat.eqb_refl. unfold mbind. rewrite eq_acc_eq_s by exact Hl.
  rewrite eq_s_uval by exact Hl. reflexivity.
Qed.
Print Assumptions lower_eq_unsigned.

Theorem lower_eq_signed t tx ty_ x y m o :
  x <> [] -> length x = length y ->
  lower_binop tops OEq t tx ty_ x y m o = Ok ([(sval x =? sval y)%Z], o).
Proof.
  intros Hne Hl. rewrite lower_eq_unsigned by assumption.
  now rewrite <- eq_s_uval, eq_s_sval by assumption.
Qed.
Print Assumptions lower_eq_signed.

Theorem lower_ne_unsigned t tx ty_ x y m o :
  x <> [] -> length x = length y ->
  lower_binop tops ONe t tx ty_ x y m o = Ok ([negb (uval x =? uval y)%Z], o).
Proof.
  intros Hne Hl. rewrite lower_binop_same_length by assumption.
  rewrite Hl, Nat.eqb_refl. unfold mbind. rewrite eq_acc_eq_s by exact Hl.
  rewrite eq_s_uval by exact Hl. reflexivity.
Qed.
Print Assumptions lower_ne_unsigned.

Theorem lower_ne_signed t tx ty_ x y m o :
  x <> [] -> length x = length y ->
  lower_binop tops ONe t tx ty_ x y m o = Ok ([negb (sval x =? sval y)%Z], o).
Proof.
  intros Hne Hl. rewrite lower_ne_unsigned by assumption.
  now rewrite <- eq_s_uval, eq_s_sval by assumption.
Qed.
Print Assumptions lower_ne_signed.

(* ------------------------------------------------------------------ (5) bitwise operators *)

(* position by position *)
Fixpoint zipw (f : bool -> bool -> bool) (x y : list bool) : list bool :=
  match x, y with
  | a :: xr, b :: yr => f a b :: zipw f xr yr
  | _, _ => []
  end.

Lemma zipw_length f x y : length x = length y -> length (zipw f x y) = length x.
Proof.
  revert y. induction x as [|a x IH]; intros [|b y] Hl; try discriminate; [reflexivity|].
  cbn [zipw length]. f_equal. apply IH. now injection Hl.
Qed.

Lemma zipw_nth f x y i d : length x = length y -> (i < length x)%nat ->
  nth i (zipw f x y) d = f (nth i x d) (nth i y d).
Proof.
  revert y i. induction x as [|a x IH]; intros [|b y] i Hl Hi; try discriminate; cbn [length] in Hi; [lia|].
  destruct i as [|i]; [reflexivity|]. cbn [zipw nth]. apply IH; [now injection Hl|lia].
Qed.

Lemma map2_M_tops (f : bool -> bool -> pobs -> res (bool * pobs)) (g : bool -> bool -> bool) :
  (forall a b o, f a b o = Ok (g a b, o)) ->
  forall x y o, length x = length y -> map2_M f x y o = Ok (zipw g x y, o).
Proof.
  intros Hf. induction x as [|a x IH]; intros [|b y] o Hl; try discriminate; [reflexivity|].
  cbn [map2_M zipw]. unfold mbind. rewrite Hf. rewrite IH by (now injection Hl). reflexivity.
Qed.

Theorem lower_bitand t tx ty_ x y m o : x <> [] -> length x = length y ->
  lower_binop tops OBitAnd t tx ty_ x y m o = Ok (zipw andb x y, o).
Proof.
  intros Hne Hl. rewrite lower_binop_same_length by assumption.
  apply map2_M_tops; [reflexivity|exact Hl].
Qed.
Print Assumptions lower_bitand.

Theorem lower_bitxor t tx ty_ x y m o : x <> [] -> length x = length y ->
  lower_binop tops OBitXor t tx ty_ x y m o = Ok (zipw xorb x y, o).
Proof.
  intros Hne Hl. rewrite lower_binop_same_length by assumption.
  apply map2_M_tops; [reflexivity|exact Hl].
Qed.
Print Assumptions lower_bitxor.

Theorem lower_bitor t tx ty_ x y m o : x <> [] -> length x = length y ->
  lower_binop tops OBitOr t tx ty_ x y m o = Ok (zipw orb x y, o).
Proof.
  intros Hne Hl. rewrite lower_binop_same_length by assumption.
  apply map2_M_tops; [reflexivity|exact Hl].
Qed.
Print Assumptions lower_bitor.

(* ------------------------------------------------------------------ (6) division and remainder *)

Lemma enc_of_uval n r z : length r = n -> uval r = z -> r = enc n z.
Proof.
  intros Hl Hv. apply enc_unique; [exact Hl|]. subst z n. symmetry. apply Z.mod_small. apply uval_range.
Qed.

Lemma map_pair_false (y : list bool) :
  map (fun w => (w, false)) y = combine y (repeat false (length y)).
Proof. induction y as [|b y IH]; [reflexivity|]. cbn [map length repeat combine]. now rewrite IH. Qed.

(* the divisor-is-zero test *)
Lemma all_zero_tops (y : list bool) (o : pobs) :
  eq_acc tops (wT tops) (map (fun w => (w, wF tops)) y) o = Ok ((bits_to_N y =? 0), o).
Proof.
  unfold wT, wF. cbn [w0 w1 tops]. rewrite map_pair_false.
  rewrite eq_acc_eq_s by (now rewrite repeat_length).
  rewrite eq_correct_N by (now rewrite repeat_length). now rewrite bits_to_N_repeat_false.
Qed.

Lemma uval_zero y : (uval y =? 0)%Z = (bits_to_N y =? 0).
Proof.
  unfold uval. destruct (Z.eqb_spec (Z.of_N (bits_to_N y)) 0); destruct (N.eqb_spec (bits_to_N y) 0);
    try reflexivity; lia.
Qed.

Lemma sval_zero y : y <> [] -> (sval y =? 0)%Z = (bits_to_N y =? 0).
Proof.
  intro Hne. destruct (signed_facts y Hne) as (HX & HP & H1 & H0 & HS). cbv zeta in *.
  unfold sval. rewrite HS.
  destruct (hd false y); [specialize (H1 eq_refl)|specialize (H0 eq_refl)];
    destruct (Z.eqb_spec (Z.of_N (bits_to_N y) - Z.of_N (2 ^ lenN y)) 0);
    destruct (Z.eqb_spec (Z.of_N (bits_to_N y) - 0) 0);
    destruct (N.eqb_spec (bits_to_N y) 0); try reflexivity; lia.
Qed.

(* unsigned / and %: DivByZero iff the divisor is 0, no overflow; the quotient truncates.
   (With a zero divisor the circuit still outputs something: all ones, resp. the dividend.) *)
Theorem lower_div_unsigned t tx ty_ x y m o :
  x <> [] -> length x = length y -> is_signed t = false ->
  let n := length x in
  lower_binop tops ODiv t tx ty_ x y m o =
  Ok (enc n (if (uval y =? 0)%Z then -1 else Z.quot (uval x) (uval y)),
      push_spec o (uval y =? 0)%Z DivByZero (ploc_of m)).
Proof.
  intros Hne Hl Hs. cbv zeta. rewrite lower_binop_same_length by assumption. rewrite Hs.
  unfold mbind at 1. rewrite all_zero_tops. unfold mbind, m_panic_if. cbn [o_panic_if o_udiv tops].
  unfold same_len. rewrite Hl, Nat.eqb_refl.
  pose proof (udiv_correct x y Hl) as Hu. pose proof (udiv_correct_divmod x y Hl) as Hdm.
  destruct (udiv_s x y) as [q r]. cbv zeta in Hu. cbn [fst snd] in Hdm.
  destruct Hu as (HLq & _ & _ & _ & HZ). unfold ret. rewrite uval_zero. rewrite <- Hl.
  f_equal. f_equal.
  destruct (N.eqb_spec (bits_to_N y) 0) as [E|E].
  - destruct (HZ E) as [HQ _]. apply enc_unique; [exact HLq|]. unfold uval. rewrite HQ.
    pose proof (pow2_pos (lenN x)) as Hp.
    apply (Z.mod_unique_pos _ _ (-1)); zpow_norm; lia.
  - destruct Hdm as [HQ _]; [lia|]. apply enc_of_uval; [exact HLq|]. unfold uval.
    rewrite HQ. apply N2Z.inj_quot.
Qed.
Print Assumptions lower_div_unsigned.

Theorem lower_mod_unsigned t tx ty_ x y m o :
  x <> [] -> length x = length y -> is_signed t = false ->
  let n := length x in
  lower_binop tops OMod t tx ty_ x y m o =
  Ok (enc n (Z.rem (uval x) (uval y)), push_spec o (uval y =? 0)%Z DivByZero (ploc_of m)).
Proof.
  intros Hne Hl Hs. cbv zeta. rewrite lower_binop_same_length by assumption. rewrite Hs.
  unfold mbind at 1. rewrite all_zero_tops. unfold mbind, m_panic_if. cbn [o_panic_if o_udiv tops].
  unfold same_len. rewrite Hl, Nat.eqb_refl.
  pose proof (udiv_correct x y Hl) as Hu. pose proof (udiv_correct_divmod x y Hl) as Hdm.
  destruct (udiv_s x y) as [q r]. cbv zeta in Hu. cbn [fst snd] in Hdm.
  destruct Hu as (_ & HLr & _ & _ & HZ). unfold ret. rewrite uval_zero. rewrite <- Hl.
  f_equal. f_equal. apply enc_of_uval; [exact HLr|]. unfold uval. rewrite <- N2Z.inj_rem. f_equal.
  destruct (N.eqb_spec (bits_to_N y) 0) as [E|E].
  - destruct (HZ E) as [_ HR]. rewrite HR, E. now destruct (bits_to_N x).
  - destruct Hdm as [_ HR]; [lia|]. exact HR.
Qed.
Print Assumptions lower_mod_unsigned.

(* the truncating quotient leaves the signed range only for MIN / -1 *)
Lemma quot_in_range_iff n SX SY : (1 <= n)%nat ->
  let H := (2 ^ (Z.of_nat n - 1))%Z in
  (- H <= SX < H)%Z -> (- H <= SY < H)%Z ->
  Sem.in_range true (N.of_nat n) (Z.quot SX SY) = true <-> ~ (SX = (- H)%Z /\ SY = (-1)%Z).
Proof.
  intros Hn H RX RY. unfold Sem.in_range. rewrite nat_N_Z. fold H.
  rewrite andb_true_iff, Z.leb_le, Z.ltb_lt.
  assert (0 < H)%Z as HH by (apply Z.pow_pos_nonneg; lia).
  split.
  - intros Hr [E1 E2]. subst SX SY. change (-1)%Z with (- (1))%Z in Hr.
    rewrite Z.quot_opp_opp, Z.quot_1_r in Hr by lia. lia.
  - intro Hnot. destruct (Z.eq_dec SY 0) as [->|Hnz].
    + rewrite Zquot_0_r. lia.
    + apply (quot_in_range SX SY H); assumption.
Qed.

(* the remainder always fits *)
Lemma rem_in_range n SX SY : (1 <= n)%nat ->
  let H := (2 ^ (Z.of_nat n - 1))%Z in
  (- H <= SX < H)%Z -> (- H <= SY < H)%Z ->
  Sem.in_range true (N.of_nat n) (Z.rem SX SY) = true.
Proof.
  intros Hn H RX RY. unfold Sem.in_range. rewrite nat_N_Z. fold H.
  rewrite andb_true_iff, Z.leb_le, Z.ltb_lt.
  destruct (Z.eq_dec SY 0) as [->|Hnz].
  - rewrite Zrem_0_r. lia.
  - pose proof (Z.rem_bound_abs SX SY Hnz). lia.
Qed.

Lemma eq_negb_of_iff' (b c : bool) (Q : Prop) : (b = true <-> Q) -> (c = true <-> ~ Q) -> b = negb c.
Proof. intros H1 H2. destruct b, c; cbn [negb]; try reflexivity; exfalso; intuition congruence. Qed.

Lemma sdiv_tops x y (o : pobs) : x <> [] -> length x = length y ->
  o_sdiv tops x y o = Ok (sdiv_s x y, o).
Proof.
  intros Hne Hl. cbn [o_sdiv tops]. unfold same_len. rewrite Hl, Nat.eqb_refl.
  destruct x; [congruence|reflexivity].
Qed.

(* signed /: DivByZero iff the divisor is 0 (checked first), then Overflow iff the exact
   truncating quotient does not fit, i.e. iff MIN / -1 ([quot_in_range_iff]) *)
Theorem lower_div_signed t tx ty_ x y m o :
  x <> [] -> length x = length y -> is_signed t = true ->
  let n := length x in
  let Q := Z.quot (sval x) (sval y) in
  lower_binop tops ODiv t tx ty_ x y m o =
  Ok (enc n (if (sval y =? 0)%Z then (if (sval x <? 0)%Z then 1 else -1) else Q),
      push_spec (push_spec o (sval y =? 0)%Z DivByZero (ploc_of m))
                (negb (Sem.in_range true (N.of_nat n) Q)) Overflow (ploc_of m)).
Proof.
  intros Hne Hl Hs. cbv zeta. assert (y <> []) as Hny by (eapply nonempty_of_length; eassumption).
  pose proof (nonempty_length x Hne) as Hn.
  rewrite lower_binop_same_length by assumption. rewrite Hs.
  unfold mbind at 1. rewrite all_zero_tops. unfold mbind at 1. unfold m_panic_if at 1. cbn [o_panic_if tops].
  rewrite (hd_res_nonempty false x Hne), (hd_res_nonempty false y Hny). unfold lift_res.
  unfold mbind at 1. unfold mbind at 1. unfold mbind at 1. rewrite sdiv_tops by assumption.
  pose proof (sdiv_correct x y Hne Hl) as Hc. pose proof (sdiv_overflow_signal x y Hne Hl) as Hov.
  destruct (sdiv_s x y) as [q r]. cbv zeta in Hc, Hov. cbn [fst] in Hov.
  destruct Hc as (HLq & _ & Hnz & Hz).
  assert (q <> []) as Hnq by (eapply nonempty_of_length; [exact Hne|now symmetry]).
  unfold mbind, m_and. cbn [o_and tops]. unfold tret. rewrite (hd_res_nonempty false q Hnq).
  unfold m_panic_if, ret. cbn [o_panic_if tops]. rewrite <- (sval_zero y Hny).
  pose proof (sval_range x Hne) as RX. pose proof (sval_range y Hny) as RY. rewrite <- Hl in RY.
  f_equal. f_equal.
  - destruct (Z.eqb_spec (sval y) 0) as [E|E].
    + destruct (Hz E) as [HQ _]. apply enc_unique; [exact HLq|]. unfold uval. rewrite HQ.
      fold (sval x). pose proof (pow2_pos (lenN x)) as Hp.
      assert (2 <= 2 ^ lenN x) as Hp2.
      { unfold lenN. replace (N.of_nat (length x)) with (1 + (N.of_nat (length x) - 1)) by lia.
        rewrite pow2_succ. pose proof (pow2_pos (N.of_nat (length x) - 1)). lia. }
      destruct (Z.ltb_spec (sval x) 0).
      * symmetry. apply Z.mod_small. zpow_norm. lia.
      * apply (Z.mod_unique_pos _ _ (-1)); zpow_norm; lia.
    + destruct (Hnz E) as [HQ _]. apply enc_unique; [exact HLq|]. unfold uval. rewrite HQ.
      zpow_norm. reflexivity.
  - f_equal. apply (eq_negb_of_iff' _ _ _ Hov).
    rewrite (quot_in_range_iff (length x) (sval x) (sval y) Hn RX RY).
    unfold sval, lenN. rewrite half_N_Z by exact Hn. rewrite nat_N_Z. reflexivity.
Qed.
Print Assumptions lower_div_signed.

(* signed %: DivByZero iff the divisor is 0; never an overflow (MIN % -1 = 0); the remainder
   is that of the truncating division, so it has the sign of the dividend *)
Theorem lower_mod_signed t tx ty_ x y m o :
  x <> [] -> length x = length y -> is_signed t = true ->
  let n := length x in
  lower_binop tops OMod t tx ty_ x y m o =
  Ok (enc n (Z.rem (sval x) (sval y)), push_spec o (sval y =? 0)%Z DivByZero (ploc_of m)).
Proof.
  intros Hne Hl Hs. cbv zeta. assert (y <> []) as Hny by (eapply nonempty_of_length; eassumption).
  rewrite lower_binop_same_length by assumption. rewrite Hs.
  unfold mbind at 1. rewrite all_zero_tops. unfold mbind at 1. unfold m_panic_if at 1. cbn [o_panic_if tops].
  unfold mbind. rewrite sdiv_tops by assumption.
  pose proof (sdiv_correct x y Hne Hl) as Hc.
  destruct (sdiv_s x y) as [q r]. cbv zeta in Hc. destruct Hc as (_ & HLr & Hnz & Hz).
  unfold ret. rewrite <- (sval_zero y Hny).
  f_equal. f_equal. destruct (Z.eq_dec (sval y) 0) as [E|E].
  - destruct (Hz E) as [_ HR]. rewrite E, Zrem_0_r.
    apply enc_unique; [exact HLr|].
    unfold uval. rewrite HR. fold (uval x). symmetry. now apply sval_mod.
  - destruct (Hnz E) as [_ HR]. apply enc_unique; [exact HLr|]. unfold uval. rewrite HR.
    zpow_norm. reflexivity.
Qed.
Print Assumptions lower_mod_signed.

(* ------------------------------------------------------------------ (5') bitwise operators, on numbers:
   the pointwise operation is Z.land / Z.lxor / Z.lor of the readings (unsigned or signed),
   as in Lang/Sem.v *)

Lemma uval_snoc l b : uval (l ++ [b]) = (2 * uval l + Z.b2z b)%Z.
Proof. unfold uval. rewrite bits_to_N_snoc. destruct b; cbn [N.b2n Z.b2z]; lia. Qed.

Lemma zipw_snoc f x y a b : length x = length y ->
  zipw f (x ++ [a]) (y ++ [b]) = zipw f x y ++ [f a b].
Proof.
  revert y. induction x as [|c x IH]; intros [|d y] Hl; try discriminate; [reflexivity|].
  cbn [app zipw]. f_equal. apply IH. now injection Hl.
Qed.

Section Bitwise.
Variable op : Z -> Z -> Z.
Variable f : bool -> bool -> bool.
Hypothesis op_spec : forall a b i, Z.testbit (op a b) i = f (Z.testbit a i) (Z.testbit b i).
Hypothesis f_false : f false false = false.

Lemma bitop_step A B a b :
  op (2 * A + Z.b2z a) (2 * B + Z.b2z b) = (2 * op A B + Z.b2z (f a b))%Z.
Proof.
  apply Z.bits_inj'. intros i Hi. rewrite op_spec.
  destruct (Z.eq_dec i 0) as [->|Hnz].
  - now rewrite !Z.testbit_0_r.
  - replace i with (Z.succ (i - 1)) by lia. rewrite !Z.testbit_succ_r by lia. now rewrite op_spec.
Qed.

Lemma bitop_zero : op 0 0 = 0%Z.
Proof. apply Z.bits_inj'. intros i _. now rewrite op_spec, !Z.testbit_0_l. Qed.

Lemma uval_zipw : forall x y, length x = length y -> uval (zipw f x y) = op (uval x) (uval y).
Proof.
  induction x as [|a x IH] using rev_ind; intros y Hl; destruct y as [|b y _] using rev_ind.
  - cbn [zipw]. unfold uval. cbn [bits_to_N]. symmetry. exact bitop_zero.
  - rewrite app_length in Hl. cbn [length] in Hl. lia.
  - rewrite app_length in Hl. cbn [length] in Hl. lia.
  - rewrite !app_length in Hl. cbn [length] in Hl. assert (length x = length y) as Hl' by lia.
    rewrite zipw_snoc by exact Hl'. rewrite !uval_snoc, (IH y Hl'). symmetry. apply bitop_step.
Qed.

Lemma bitop_mod n a b : (0 <= n)%Z -> (op a b mod 2 ^ n = op (a mod 2 ^ n) (b mod 2 ^ n))%Z.
Proof.
  intro Hn. apply Z.bits_inj'. intros i Hi. rewrite op_spec. destruct (Z_lt_dec i n) as [Hlt|Hge].
  - rewrite !Z.mod_pow2_bits_low by exact Hlt. apply op_spec.
  - rewrite !Z.mod_pow2_bits_high by lia. now rewrite f_false.
Qed.

Lemma zipw_enc_unsigned x y : length x = length y ->
  zipw f x y = enc (length x) (op (uval x) (uval y)).
Proof.
  intro Hl. apply enc_of_uval; [now apply zipw_length|now apply uval_zipw].
Qed.

Lemma zipw_enc_signed x y : x <> [] -> length x = length y ->
  zipw f x y = enc (length x) (op (sval x) (sval y)).
Proof.
  intros Hne Hl. assert (y <> []) as Hny by (eapply nonempty_of_length; eassumption).
  apply enc_unique; [now apply zipw_length|]. rewrite bitop_mod by lia.
  rewrite (sval_mod x Hne). rewrite Hl, (sval_mod y Hny). now apply uval_zipw.
Qed.
End Bitwise.

Theorem lower_bitand_unsigned t tx ty_ x y m o : x <> [] -> length x = length y ->
  lower_binop tops OBitAnd t tx ty_ x y m o = Ok (enc (length x) (Z.land (uval x) (uval y)), o).
Proof.
  intros Hne Hl. rewrite lower_bitand by assumption.
  now rewrite (zipw_enc_unsigned Z.land andb Z.land_spec eq_refl x y Hl).
Qed.
Theorem lower_bitand_signed t tx ty_ x y m o : x <> [] -> length x = length y ->
  lower_binop tops OBitAnd t tx ty_ x y m o = Ok (enc (length x) (Z.land (sval x) (sval y)), o).
Proof.
  intros Hne Hl. rewrite lower_bitand by assumption.
  now rewrite (zipw_enc_signed Z.land andb Z.land_spec eq_refl x y Hne Hl).
Qed.
Theorem lower_bitxor_unsigned t tx ty_ x y m o : x <> [] -> length x = length y ->
  lower_binop tops OBitXor t tx ty_ x y m o = Ok (enc (length x) (Z.lxor (uval x) (uval y)), o).
Proof.
  intros Hne Hl. rewrite lower_bitxor by assumption.
  now rewrite (zipw_enc_unsigned Z.lxor xorb Z.lxor_spec eq_refl x y Hl).
Qed.
Theorem lower_bitxor_signed t tx ty_ x y m o : x <> [] -> length x = length y ->
  lower_binop tops OBitXor t tx ty_ x y m o = Ok (enc (length x) (Z.lxor (sval x) (sval y)), o).
Proof.
  intros Hne Hl. rewrite lower_bitxor by assumption.
  now rewrite (zipw_enc_signed Z.lxor xorb Z.lxor_spec eq_refl x y Hne Hl).
Qed.
Theorem lower_bitor_unsigned t tx ty_ x y m o : x <> [] -> length x = length y ->
  lower_binop tops OBitOr t tx ty_ x y m o = Ok (enc (length x) (Z.lor (uval x) (uval y)), o).
Proof.
  intros Hne Hl. rewrite lower_bitor by assumption.
  now rewrite (zipw_enc_unsigned Z.lor orb Z.lor_spec eq_refl x y Hl).
Qed.
Theorem lower_bitor_signed t tx ty_ x y m o : x <> [] -> length x = length y ->
  lower_binop tops OBitOr t tx ty_ x y m o = Ok (enc (length x) (Z.lor (sval x) (sval y)), o).
Proof.
  intros Hne Hl. rewrite lower_bitor by assumption.
  now rewrite (zipw_enc_signed Z.lor orb Z.lor_spec eq_refl x y Hne Hl).
Qed.
Print Assumptions lower_bitand_unsigned.
Print Assumptions lower_bitand_signed.
Print Assumptions lower_bitxor_unsigned.
Print Assumptions lower_bitxor_signed.
Print Assumptions lower_bitor_unsigned.
Print Assumptions lower_bitor_signed.

(* ------------------------------------------------------------------ reading the results back *)

(* the Overflow condition of signed division, spelled out: MIN / -1 and nothing else *)
Corollary div_overflow_is_min_minus_one x y : x <> [] -> length x = length y ->
  negb (Sem.in_range true (N.of_nat (length x)) (Z.quot (sval x) (sval y))) =
  (sval x =? Sem.min_of (N.of_nat (length x)))%Z && (sval y =? -1)%Z.
Proof.
  intros Hne Hl. assert (y <> []) as Hny by (eapply nonempty_of_length; eassumption).
  pose proof (nonempty_length x Hne) as Hn.
  pose proof (sval_range x Hne) as RX. pose proof (sval_range y Hny) as RY. rewrite <- Hl in RY.
  pose proof (quot_in_range_iff (length x) (sval x) (sval y) Hn RX RY) as Hq. cbv zeta in Hq.
  unfold Sem.min_of. rewrite nat_N_Z.
  destruct (Sem.in_range true (N.of_nat (length x)) (Z.quot (sval x) (sval y)));
    destruct (Z.eqb_spec (sval x) (- 2 ^ (Z.of_nat (length x) - 1)));
    destruct (Z.eqb_spec (sval y) (-1)); cbn [negb andb]; try reflexivity; exfalso.
  - apply (proj1 Hq eq_refl). split; assumption.
  - assert (false = true) as Hf by (apply Hq; tauto). discriminate Hf.
  - assert (false = true) as Hf by (apply Hq; tauto). discriminate Hf.
  - assert (false = true) as Hf by (apply Hq; tauto). discriminate Hf.
Qed.

(* quotients and remainders that are reported without a panic read back exactly *)
Corollary uval_enc_quot x y : length x = length y -> uval y <> 0%Z ->
  uval (enc (length x) (Z.quot (uval x) (uval y))) = Z.quot (uval x) (uval y).
Proof.
  intros Hl Hy. pose proof (uval_range x) as Rx. pose proof (uval_range y) as Ry.
  rewrite uval_enc. apply Z.mod_small. rewrite Z.quot_div_nonneg by lia. split.
  - apply Z.div_pos; lia.
  - apply Z.le_lt_trans with (uval x); [|lia]. apply Z.div_le_upper_bound; [lia|]. nia.
Qed.

Corollary uval_enc_rem x y : length x = length y ->
  uval (enc (length x) (Z.rem (uval x) (uval y))) = Z.rem (uval x) (uval y).
Proof.
  intros Hl. pose proof (uval_range x) as Rx. pose proof (uval_range y) as Ry.
  rewrite uval_enc. apply Z.mod_small. destruct (Z.eq_dec (uval y) 0) as [E|E].
  - rewrite E, Zrem_0_r. exact Rx.
  - rewrite Z.rem_mod_nonneg by lia. pose proof (Z.mod_pos_bound (uval x) (uval y)). 
    pose proof (Z.mod_le (uval x) (uval y)). lia.
Qed.

(* signed remainder: exact, and with the sign of the dividend (or zero) *)
Corollary sval_enc_rem x y : x <> [] -> length x = length y ->
  let R := Z.rem (sval x) (sval y) in
  sval (enc (length x) R) = R /\ (0 <= Z.sgn R * Z.sgn (sval x))%Z.
Proof.
  intros Hne Hl. cbv zeta. assert (y <> []) as Hny by (eapply nonempty_of_length; eassumption).
  pose proof (nonempty_length x Hne) as Hn.
  pose proof (sval_range x Hne) as RX. pose proof (sval_range y Hny) as RY. rewrite <- Hl in RY.
  split; [|apply Zrem_sgn].
  apply sval_enc_in_range; [exact Hn|]. now apply rem_in_range.
Qed.

(* signed quotient: exact whenever no Overflow is raised *)
Corollary sval_enc_quot x y : x <> [] -> length x = length y ->
  let Q := Z.quot (sval x) (sval y) in
  Sem.in_range true (N.of_nat (length x)) Q = true -> sval (enc (length x) Q) = Q.
Proof. intros Hne Hl Q HQ. apply sval_enc_in_range; [now apply nonempty_length|exact HQ]. Qed.

Print Assumptions div_overflow_is_min_minus_one.
Print Assumptions uval_enc_quot.
Print Assumptions uval_enc_rem.
Print Assumptions sval_enc_rem.
Print Assumptions sval_enc_quot.
Print Assumptions sval_enc.
Print Assumptions enc_uval.
Print Assumptions enc_sval.
