(* GLOBAL CONSTANTS in the full fragment (with calls): the hypothesis [p_consts P = []] of
   Compile/TSemSemFullCall.v is lifted.  The constants are literals (as Lang/Wt.v requires);
   the strict checker asks in addition that the width of a literal's own suffix ([const_wires]
   uses it) is the width of the declared type ([scf_const]).  The three fixed outermost scopes
   of [relQ] are the scopes that [Sem.eval_consts], [Lower.global_scope] and [Wt.consts_tenv]
   build; they are related, and immutable. *)
From Coq Require Import Lia ZArith.
From GV Require Import Base.Util Base.Bits Base.BitsProofs Lang.Ast Lang.Wt Lang.ValTy Lang.WtShape
  Gadgets.Gadgets Gadgets.GadgetSpec Gadgets.Arith Panic.PanicRec Panic.PanicSem Compile.Lower
  Compile.TSem Compile.TSemFacts Compile.TSemArith1 Compile.TSemArith2 Compile.TSemControl
  Compile.TSemSemExpr Compile.ValEnc Compile.TSemSticky Compile.TSemSemStmt Compile.TSemSemCall
  Compile.TSemSemAgg Compile.TSemSemFull Compile.TSemSemFullCall.
From GV Require Lang.Sem.
Local Open Scope N_scope.

(* a constant: a literal of its declared type; number literals carry the width of that type *)
Definition scf_const (c : N * expr) : bool :=
  match snd c with
  | Ex ETrue _ t | Ex EFalse _ t => ty_beq t TBool
  | Ex (ENumU n lb) _ t => match t with TInt _ b => lit_fits t (Z.of_N n) && (lb =? b) | _ => false end
  | Ex (ENumS z lb) _ t => match t with TInt _ b => lit_fits t z && (lb =? b) | _ => false end
  | _ => false
  end.

Definition scf_consts (P : program) : bool := forallb scf_const (p_consts P).

Section Consts.
  Variable P : program.
  Notation VRa := (VRa P).

  Lemma const_ok x e f en : scf_const (x, e) = true ->
    exists v w, Sem.eval (S f) P en e = Sem.Done (v, en) /\ const_wires tops e = Ok w /\ VRa (e_ty e) v w.
  Proof.
    unfold scf_const. cbn [snd]. destruct e as [[] m t]; try discriminate; intro H.
    - apply ty_beq_eq in H. subst t. exists (Sem.VBool true), [true]. repeat split; try reflexivity; try constructor; try apply ty_fits_bool.
    - apply ty_beq_eq in H. subst t. exists (Sem.VBool false), [false]. repeat split; try reflexivity; try constructor; try apply ty_fits_bool.
    - destruct t as [|sg b| | | |]; try discriminate H. apply andb_prop in H. destruct H as [Hf Hb].
      apply N.eqb_eq in Hb. subst lb. rewrite lit_fits_in_range in Hf.
      exists (Sem.VInt (Z.of_N n)), (enc (N.to_nat b) (Z.of_N n)). cbn [Sem.eval const_wires e_ty].
      rewrite tsem_unsigned_as_wires. repeat split; try reflexivity; try (now constructor); try apply ty_fits_int.
    - destruct t as [|sg b| | | |]; try discriminate H. apply andb_prop in H. destruct H as [Hf Hb].
      apply N.eqb_eq in Hb. subst lb. rewrite lit_fits_in_range in Hf.
      exists (Sem.VInt z), (enc (N.to_nat b) z). cbn [Sem.eval const_wires e_ty].
      rewrite tsem_signed_as_wires. repeat split; try reflexivity; try (now constructor); try apply ty_fits_int.
  Qed.

  (* the loop of [Sem.eval_consts] *)
  Fixpoint sem_consts (fuel : nat) (cs : list (N * expr)) (en : Sem.env) : Sem.outcome Sem.env :=
    match cs with
    | [] => Sem.Done en
    | (x, e) :: r => Sem.obind (Sem.eval fuel P en e) (fun '(v, en1) => sem_consts fuel r (Sem.bind_var en1 x v))
    end.

  Lemma eval_consts_eq fuel : Sem.eval_consts fuel P = sem_consts fuel (p_consts P) (Sem.mkEnv [[]] false).
  Proof.
    unfold Sem.eval_consts. generalize (Sem.mkEnv [[]] false). induction (p_consts P) as [|[x e] r IH]; intro en;
      [reflexivity|].
    cbn [sem_consts]. destruct (Sem.eval fuel P en e) as [[v en1]|r1 m1|c1|]; cbn [Sem.obind]; try reflexivity.
    apply IH.
  Qed.

  Definition gfold (cs : list (N * expr)) (r : res (@cenv bool)) : res (@cenv bool) :=
    fold_left (fun Er '(x, e) => let* E := Er in let* w := const_wires tops e in env_let E x w) cs r.

  Lemma gfold_not_ok cs : forall r, (forall E, r <> Ok E) -> forall E', gfold cs r <> Ok E'.
  Proof.
    induction cs as [|[x e] cs IH]; intros r Hr E'; cbn [gfold fold_left]; [apply Hr|].
    apply IH. intros E. destruct r; cbn [bind]; try discriminate. exfalso. eapply Hr. reflexivity.
  Qed.

  Lemma consts_rel f : forall cs, forallb scf_const cs = true ->
    forall en E g E', env_rel3 VRa en E g -> gfold cs (Ok E) = Ok E' ->
    exists en', sem_consts (S f) cs en = Sem.Done en' /\
      env_rel3 VRa en' E' (tbind_all g (map (fun c => (fst c, e_ty (snd c))) cs) false).
  Proof.
    induction cs as [|[x e] cs IH]; intros Hc en E g E' Hrel Hf.
    - cbn in Hf. injection Hf as <-. exists en. split; [reflexivity|exact Hrel].
    - cbn [forallb] in Hc. apply andb_prop in Hc. destruct Hc as [Hc1 Hc2].
      destruct (const_ok x e f en Hc1) as (v & w & Hev & Hw & HV).
      cbn [sem_consts]. rewrite Hev. cbn [Sem.obind].
      unfold gfold in Hf. cbn [fold_left bind] in Hf. rewrite Hw in Hf. cbn [bind] in Hf.
      destruct (env_let E x w) as [E1| |] eqn:El;
        [|exfalso; eapply gfold_not_ok; [|exact Hf]; intros ? Hq; discriminate Hq
         |exfalso; eapply gfold_not_ok; [|exact Hf]; intros ? Hq; discriminate Hq].
      unfold tbind_all. cbn [map fold_left fst snd].
      apply (IH Hc2 _ E1 _ E'); [|exact Hf]. eapply TSemSemStmt.rel_let; eassumption.
  Qed.
End Consts.

(* ------------------------------------------------------------------ shapes *)

Lemma tbind_all_single gs bs : (forall b, In b gs -> snd (snd b) = false) ->
  exists gs', tbind_all [gs] bs false = [gs'] /\ (forall b, In b gs' -> snd (snd b) = false).
Proof.
  revert gs. induction bs as [|[x t] r IH]; intros gs Hg; [exists gs; auto|].
  unfold tbind_all in *. cbn [fold_left tbind fst snd]. apply IH.
  intros b [<-|Hin]; [reflexivity|now apply Hg].
Qed.

Lemma fold_env_let_tl (bs : list (N * list bool)) : forall (s : @scope bool) r E',
  fold_left (fun Er b => let* E := Er in env_let E (fst b) (snd b)) bs (Ok (s :: r)) = Ok E' ->
  exists s', E' = s' :: r.
Proof.
  induction bs as [|[x w] bs IH]; intros s r E' H; cbn [fold_left bind fst snd env_let] in H.
  - injection H as <-. eauto.
  - eapply IH. exact H.
Qed.

Lemma bind_all_scopes bs : forall en s r, Sem.scopes en = s :: r ->
  exists s', Sem.scopes (Sem.bind_all en bs) = s' :: r.
Proof.
  unfold Sem.bind_all. induction bs as [|[x v] bs IH]; intros en s r H; cbn [fold_left fst snd]; [eauto|].
  eapply IH. unfold Sem.bind_var. rewrite H. reflexivity.
Qed.

Lemma sem_consts_0 P cs en : sem_consts P 0 cs en = match cs with [] => Sem.Done en | _ => Sem.NoFuel end.
Proof. destruct cs as [|[x e] r]; reflexivity. Qed.

Lemma F3_single_inv {A B C} (R : A -> B -> C -> Prop) la lb c : Forall3 R la lb [c] ->
  exists a b, la = [a] /\ lb = [b] /\ R a b c.
Proof.
  intro H. inversion H as [|a b c0 la' lb' lc' HR Hr]; subst. inversion Hr; subst. eauto.
Qed.

(* ------------------------------------------------------------------ the program theorem *)

Definition consts_scope (P : program) : list (N * (ty * bool)) := hd [] (consts_tenv P).

Theorem tsem_sem_program_full3 P d fuel fw fT args o outs :
  enums_small P = true -> scf_consts P = true -> find_fn P (p_main P) = Some d ->
  scf2_fns fw P (consts_scope P) = true -> canonical_args P (fn_params d) args = true ->
  tsem_program fT P args = Ok (o, outs) ->
  match Sem.run_main fuel P args with
  | Sem.RunOk bits _ => o = None /\ outs = bits
  | Sem.RunPanic r m => o = Some (preason_num (pr r), ploc32 (ploc_of m))
  | Sem.RunStuck _ | Sem.RunNoFuel => True
  end.
Proof.
  intros Hsm Hcs Hfind Hf Hcan Hrun.
  (* the typing scope of the constants *)
  destruct (tbind_all_single [] (map (fun c => (fst c, e_ty (snd c))) (p_consts P)) ltac:(intros b []))
    as (gsc & Hgsc & Himm).
  fold (consts_tenv P) in Hgsc.
  assert (Hcsc : consts_scope P = gsc) by (unfold consts_scope; now rewrite Hgsc). rewrite Hcsc in Hf.
  (* the bit-level side *)
  unfold tsem_program in Hrun. rewrite Hfind in Hrun.
  destruct (negb (same_len (fn_params d) args)); [discriminate Hrun|].
  unfold main_env in Hrun.
  destruct (global_scope tops P) as [Eg| |] eqn:Eglob; cbn [bind] in Hrun; try discriminate Hrun.
  destruct (fold_left (fun Er b => let* E := Er in env_let E (fst b) (snd b))
              (combine (map fst (fn_params d)) args) (Ok (env_push Eg))) as [E0| |] eqn:Ef;
    cbn [bind] in Hrun; try discriminate Hrun.
  destruct (lower_block tops fT P (fn_body d) E0 None) as [[[w E'] o1]| |] eqn:Hb; cbn [bind] in Hrun;
    try discriminate Hrun. injection Hrun as <- <-.
  (* the source side *)
  unfold Sem.run_main. rewrite Hfind.
  destruct (Sem.decode_args P (fn_params d) args) as [vals|] eqn:Ed; [|exact I].
  rewrite eval_consts_eq.
  destruct fuel as [|f].
  { rewrite sem_consts_0. destruct (p_consts P); exact I. }
  assert (Hrel00 : env_rel3 (VRa P) (Sem.mkEnv [[]] false) [[]] [[]]).
  { unfold env_rel3. cbn [Sem.scopes]. constructor; [apply scope_rel_nil3|constructor]. }
  destruct (consts_rel P f (p_consts P) Hcs _ _ _ _ Hrel00 Eglob) as (en0 & Hen0 & Hrelg).
  rewrite Hen0. fold (consts_tenv P) in Hrelg. rewrite Hgsc in Hrelg.
  (* the three outermost scopes *)
  destruct (F3_single_inv _ _ _ _ Hrelg) as (sglob & glob & Ess & -> & Hglob).
  assert (Hrelg' : env_rel3 (VRa P) en0 [glob] [gsc]) by exact Hrelg. clear Hrelg. rename Hrelg' into Hrelg.
  pose proof (init_rel_f P _ _ _ Ed Hcan _ _ _ _ (TSemSemStmt.rel_push _ _ _ _ Hrelg) Ef) as Hrel.
  set (en1 := Sem.bind_all (Sem.push_scope en0) vals) in *.
  set (g0 := tbind_all [[]; gsc] (fn_params d) true) in *.
  destruct (tbind_all_cons [] [gsc] (fn_params d) true) as [gs' Hg0]. fold g0 in Hg0.
  destruct (fold_env_let_tl _ _ _ _ Ef) as [s0' HE0].
  destruct (bind_all_scopes vals (Sem.push_scope en0) [] [sglob]
              ltac:(unfold Sem.push_scope; cbn [Sem.scopes]; now rewrite Ess)) as [s1' Hs1]. fold en1 in Hs1.
  assert (HrelQ : relQ (VRa P) gsc sglob glob [false; false] en1 E0 g0).
  { pose proof (relP_of_env_rel3 (VRa P) _ _ _ Hrel) as HP.
    rewrite HE0 in HP. cbn [length repeat] in HP. rewrite <- HE0 in HP.
    split; [exact HP|]. rewrite Hs1, HE0, Hg0. cbn [last length]. repeat split; lia. }
  pose proof (tsem_sem_full2_block P Hsm gsc sglob glob Hglob Himm fw Hf (S f) fw g0 (fn_body d)
                (fn_ret d) [false; false] en1 E0 fT _ _ _ (proj1 (find_fn_scf P gsc fw Hf _ _ Hfind)) HrelQ Hb) as H.
  revert H.
  destruct (Sem.exec_block (S f) P (Sem.push_scope en1) (fn_body d)) as [[v en2]|r m|c|]; cbn [Sem.obind];
    intro H; try exact I; [|exact H].
  destruct H as (-> & [HV Hfit] & _).
  rewrite (has_enc_encode P _ _ _ HV Hfit). auto.
Qed.
Print Assumptions tsem_sem_program_full3.

(* programs of the full fragment: constants are checked literals, every function passes the
   strict checker in the context of its parameters over the constants *)
Definition in_full_fragment3 (fw : nat) (P : program) : bool :=
  match find_fn P (p_main P) with
  | Some _ => enums_small P && scf_consts P && scf2_fns fw P (consts_scope P)
  | None => false
  end.

Theorem in_full_fragment3_sound P fuel fw fT args o outs :
  in_full_fragment3 fw P = true -> canonical_main_args P args = true ->
  tsem_program fT P args = Ok (o, outs) ->
  match Sem.run_main fuel P args with
  | Sem.RunOk bits _ => o = None /\ outs = bits
  | Sem.RunPanic r m => o = Some (preason_num (pr r), ploc32 (ploc_of m))
  | _ => True
  end.
Proof.
  unfold in_full_fragment3, canonical_main_args. intros H Hcan Hrun.
  destruct (find_fn P (p_main P)) as [d|] eqn:Hfind; [|discriminate H].
  apply andb_prop in H. destruct H as [H Hf]. apply andb_prop in H. destruct H as [Hsm Hcs].
  pose proof (tsem_sem_program_full3 P d fuel fw fT args o outs Hsm Hcs Hfind Hf Hcan Hrun) as HH.
  destruct (Sem.run_main fuel P args); exact HH || exact I.
Qed.
Print Assumptions in_full_fragment3_sound.

(* ------------------------------------------------------------------ sanity: global constants used by
   main and by a callee *)
Module SanityConst.
  Definition mm (k : N) : meta := mkMeta k 1 k 9.
  Definition u8 := TInt false 8.
  Definition tarr := TArr u8 3.
  Definition lit (n : N) (k : N) := Ex (ENumU n 8) (mm k) u8.
  Definition v (x : N) (t : ty) (k : N) := Ex (EId x) (mm k) t.
  (* const BASE: u8 = 100u8;  const FLAG: bool = true;                       BASE = 50, FLAG = 51
     fn add_base(x: u8) -> u8 { x + BASE }                                     add_base = 40
     pub fn main(a: [u8; 3]) -> u8 { if FLAG { add_base(a[1u8]) + BASE } else { 0u8 } } *)
  Definition add_fn : fndef :=
    mkFn 40 [(1, u8)] u8 [ St (SExpr (Ex (EOp OAdd (v 1 u8 1) (v 50 u8 2)) (mm 3) u8)) (mm 4) ].
  Definition main_fn : fndef :=
    mkFn 11 [(1, tarr)] u8
      [ St (SExpr (Ex (EIf (v 51 TBool 5)
           (Ex (EBlock [St (SExpr (Ex (EOp OAdd
                  (Ex (ECall 40 [Ex (EIdx (v 1 tarr 6) (lit 1 7)) (mm 8) u8]) (mm 9) u8) (v 50 u8 10)) (mm 11) u8)) (mm 12)])
               (mm 13) u8)
           (Ex (EBlock [St (SExpr (lit 0 14)) (mm 15)]) (mm 16) u8)) (mm 17) u8)) (mm 18) ].
  Definition P0 : program :=
    mkProgram [] [] [add_fn; main_fn] [(50, lit 100 20); (51, Ex ETrue (mm 21) TBool)] 11.

  Example accepted : in_full_fragment3 14 P0 = true.
  Proof. vm_compute. reflexivity. Qed.

  Definition arr_bits (a b c : Z) : list bool := enc 8 a ++ enc 8 b ++ enc 8 c.

  Ltac run A :=
    destruct (tsem_program 18 P0 A) as [[o outs]| |] eqn:Hrun;
      [|vm_compute in Hrun; discriminate Hrun|vm_compute in Hrun; discriminate Hrun];
    assert (Hcan : canonical_main_args P0 A = true) by (vm_compute; reflexivity);
    pose proof (in_full_fragment3_sound P0 18 14 18 _ o outs accepted Hcan Hrun) as H.

  (* a[1] = 20: 20 + 100 + 100 = 220 *)
  Example value : exists o outs l, tsem_program 18 P0 [arr_bits 10 20 30] = Ok (o, outs) /\
    Sem.run_main 18 P0 [arr_bits 10 20 30] = Sem.RunOk (enc 8 220) l /\ o = None /\ outs = enc 8 220.
  Proof.
    run [arr_bits 10 20 30].
    assert (exists l, Sem.run_main 18 P0 [arr_bits 10 20 30] = Sem.RunOk (enc 8 220) l) as [l Ev]
      by (eexists; vm_compute; reflexivity).
    rewrite Ev in H. destruct H as [-> ->]. exists None, (enc 8 220), l. repeat split; assumption || reflexivity.
  Qed.

  (* a[1] = 60: the callee returns 160, then 160 + 100 overflows in main *)
  Example panics : exists o outs, tsem_program 18 P0 [arr_bits 10 60 30] = Ok (o, outs) /\
    Sem.run_main 18 P0 [arr_bits 10 60 30] = Sem.RunPanic Sem.ROverflow (mm 11) /\
    o = Some (preason_num Overflow, ploc32 (ploc_of (mm 11))).
  Proof.
    run [arr_bits 10 60 30].
    assert (Sem.run_main 18 P0 [arr_bits 10 60 30] = Sem.RunPanic Sem.ROverflow (mm 11)) as Ev
      by (vm_compute; reflexivity).
    rewrite Ev in H. eauto.
  Qed.
End SanityConst.
