(* C13 AT THE PROGRAM LEVEL, first half, as a NODE LEMMA of "bit-level semantics (Lower.v over
   TSem.tops) = source semantics (Lang/Sem.v)" in the interface of TSemSemStmt.v Part 1 /
   TSemSemAgg.v:

     for two arrays sorted STRICTLY ASCENDING by the unsigned value of their join key, the
     for-join loop of the compiler (tagging, zero padding to a power of two, bitonic merge,
     adjacent windows, effects and panics muxed by "equal keys and different tags") executes
     its body exactly as Sem.v's loop does: once for every element of a that has a partner
     with the same key in b, in the order of a, bound to (x, y); nothing else has an effect.

   [join_loop_node] is the node; [join_windows_agree] the loop over the windows;
   [merged_items] what the merger produces.  Pure lemmas about the merger: JoinMerge.v. *)
From Coq Require Import Lia ZArith Permutation Sorting.Sorted.
From GV Require Import Base.Util Base.Bits Base.BitsProofs Lang.Ast Lang.Wt Lang.ValTy Lang.WtShape
  Gadgets.Gadgets Gadgets.GadgetSpec Gadgets.Arith Gadgets.Extend Gadgets.ExtendProofs
  Sort.Sort Sort.SortProofs Sort.ZeroOne Sort.SortUnbounded
  Panic.PanicRec Panic.PanicSem Compile.Lower Compile.TSem Compile.TSemFacts Compile.TSemArith1
  Compile.TSemArith2 Compile.TSemControl Compile.TSemArray Compile.TSemSemExpr Compile.ValEnc
  Compile.TSemSticky Compile.TSemSemStmt Compile.TSemSemAgg Compile.JoinMerge.
From GV Require Lang.Sem.
From GV Require Gadgets.GadgetHoare.
Local Open Scope N_scope.

(* ================================================================ bits *)

Lemma sbits_val_snoc l b : Sort.bits_val (l ++ [b]) = 2 * Sort.bits_val l + (if b then 1 else 0).
Proof.
  induction l as [|x l IH]; cbn [app Sort.bits_val].
  - unfold lenN. cbn. destruct b; reflexivity.
  - rewrite IH, lenN_app. unfold lenN at 2. cbn [length]. change (N.of_nat 1) with 1.
    rewrite N.pow_add_r. change (2 ^ 1) with 2. destruct x, b; lia.
Qed.

Lemma sbits_val_repeat_false n : Sort.bits_val (repeat false n) = 0.
Proof. induction n as [|n IH]; cbn [repeat Sort.bits_val]; [reflexivity|]. rewrite IH. reflexivity. Qed.

Lemma sbits_val_inj x : forall y, length x = length y -> Sort.bits_val x = Sort.bits_val y -> x = y.
Proof.
  induction x as [|a x IH]; intros [|c y] L E; cbn [length] in L; try discriminate; [reflexivity|].
  cbn [Sort.bits_val] in E. assert (Ll : lenN x = lenN y) by (unfold lenN; lia).
  pose proof (bits_val_lt x) as Hx. pose proof (bits_val_lt y) as Hy. rewrite Ll in *.
  destruct a, c; try lia; f_equal; apply IH; lia.
Qed.

Lemma eq_s_true_iff x y : length x = length y -> (eq_s x y = true <-> x = y).
Proof.
  intro L. rewrite GadgetHoare.eq_s_eq, L, Nat.eqb_refl. cbn [negb].
  assert (G : forall x y acc, length x = length y ->
            (GadgetHoare.eq_go_s acc (combine x y) = true <-> acc = true /\ x = y)).
  { clear. induction x as [|a x IH]; intros [|c y] acc L; cbn [length] in L; try discriminate; cbn [combine GadgetHoare.eq_go_s].
    - tauto.
    - rewrite IH by lia. destruct acc, a, c; cbn; split; intros [H1 H2]; try discriminate; split; congruence. }
  rewrite G by exact L. tauto.
Qed.

Lemma bits_eqb_iff a : forall b, Sem.bits_eqb a b = true <-> a = b.
Proof.
  induction a as [|x a IH]; intros [|y b]; cbn [Sem.bits_eqb]; try (split; [discriminate|discriminate]); [tauto|].
  rewrite andb_true_iff, IH. destruct x, y; cbn [Bool.eqb]; split; intros H; try (destruct H; discriminate); try discriminate;
    try (destruct H as [_ ->]; reflexivity); (split; [reflexivity|congruence]).
Qed.

(* ================================================================ usize::next_power_of_two *)

Lemma pow2_ge_spec fuel : forall p n, (1 <= p)%nat -> (n <= p * 2 ^ fuel)%nat ->
  (n <= pow2_ge fuel p n)%nat /\ exists j, pow2_ge fuel p n = (p * 2 ^ j)%nat.
Proof.
  induction fuel as [|f IH]; intros p n Hp Hn; cbn [pow2_ge].
  - cbn in Hn. split; [lia|]. exists 0%nat. cbn. lia.
  - destruct (Nat.ltb_spec p n) as [H|H].
    + destruct (IH (2 * p)%nat n ltac:(lia)) as [H1 [j H2]]; [cbn [Nat.pow] in Hn; lia|].
      split; [exact H1|]. exists (S j). rewrite H2. cbn [Nat.pow]. lia.
    + split; [lia|]. exists 0%nat. cbn. lia.
Qed.

Lemma next_power_of_two_spec n : (n <= next_power_of_two n)%nat /\ exists k, next_power_of_two n = (2 ^ k)%nat.
Proof.
  unfold next_power_of_two. destruct (pow2_ge_spec (S n) 1 n ltac:(lia)) as [H1 [j H2]].
  - rewrite Nat.mul_1_l. pose proof (Nat.pow_gt_lin_r 2 (S n) ltac:(lia)). lia.
  - split; [exact H1|]. exists j. rewrite H2. lia.
Qed.

(* ================================================================ chunks, mapM_res *)

Lemma Forall2_In_r {A B} (R : A -> B -> Prop) l1 l2 b :
  Forall2 R l1 l2 -> In b l2 -> exists a, In a l1 /\ R a b.
Proof.
  induction 1 as [|x y r1 r2 Hxy Hr IH]; intro Hin; [destruct Hin|].
  destruct Hin as [->|Hin]; [exists x; split; [now left|assumption]|].
  destruct (IH Hin) as [a [Ha HR]]. exists a. split; [now right|assumption].
Qed.

Lemma Forall2_In_combine {A B} (R : A -> B -> Prop) l1 l2 a :
  Forall2 R l1 l2 -> In a l1 -> exists b, In (a, b) (combine l1 l2) /\ R a b.
Proof.
  induction 1 as [|x y r1 r2 Hxy Hr IH]; intro Hin; [destruct Hin|]. cbn [combine].
  destruct Hin as [->|Hin]; [exists y; split; [now left|assumption]|].
  destruct (IH Hin) as [b [Hb HR]]. exists b. split; [now right|assumption].
Qed.

Lemma Forall2_In_l {A B} (R : A -> B -> Prop) l1 l2 a :
  Forall2 R l1 l2 -> In a l1 -> exists b, In b l2 /\ R a b.
Proof.
  induction 1 as [|x y r1 r2 Hxy Hr IH]; intro Hin; [destruct Hin|].
  destruct Hin as [->|Hin]; [exists y; split; [now left|assumption]|].
  destruct (IH Hin) as [b [Hb HR]]. exists b. split; [now right|assumption].
Qed.

Lemma chunks_concat_tops eb (elems : list (list bool)) : all_len eb elems ->
  forall fuel, chunks (Wt:=bool) fuel (concat elems) eb (length elems) = Ok elems.
Proof.
  induction 1 as [|e elems He _ IH]; intro fuel; [reflexivity|].
  cbn [length chunks concat]. pose proof (slice_mid [] e (concat elems)) as Hs. cbn [app length] in Hs.
  rewrite He in Hs. rewrite Hs. cbn [bind]. rewrite <- He at 1. rewrite (skipn_app_exact e) by reflexivity.
  rewrite IH. reflexivity.
Qed.

Lemma mapM_res_map {A B} (f : A -> res B) (g : A -> B) l : (forall a, In a l -> f a = Ok (g a)) ->
  mapM_res f l = Ok (map g l).
Proof.
  induction l as [|a l IH]; intro H; [reflexivity|]. cbn [mapM_res map]. rewrite (H a (or_introl eq_refl)). cbn [bind].
  rewrite IH by (intros; apply H; now right). reflexivity.
Qed.

Lemma mapM_res_Ok_all {A B} (f : A -> res B) l r : mapM_res f l = Ok r -> forall a, In a l -> exists b, f a = Ok b.
Proof.
  revert r. induction l as [|a l IH]; intros r H x Hx; [destruct Hx|]. cbn [mapM_res] in H.
  destruct (f a) as [b| |] eqn:Ea; cbn [bind] in H; try discriminate.
  destruct (mapM_res f l) as [bs| |] eqn:El; cbn [bind] in H; try discriminate.
  destruct Hx as [->|Hx]; [eauto|]. exact (IH bs eq_refl x Hx).
Qed.

Lemma remove_at_mid {A} (l1 l2 : list A) t n : length l1 = n -> remove_at (l1 ++ t :: l2) n = Ok (t, l1 ++ l2).
Proof.
  intros <-. unfold remove_at. rewrite nth_error_app2, Nat.sub_diag by lia. cbn [nth_error].
  rewrite firstn_app, Nat.sub_diag, firstn_all. cbn [firstn]. rewrite app_nil_r.
  replace (S (length l1)) with (length l1 + 1)%nat by lia. rewrite skipn_app, skipn_all2 by lia.
  replace (length l1 + 1 - length l1)%nat with 1%nat by lia. reflexivity.
Qed.

Lemma firstn_S_mid {A} (l1 l2 : list A) t n : length l1 = n -> firstn (S n) (l1 ++ t :: l2) = l1 ++ [t].
Proof.
  intros <-. replace (S (length l1)) with (length l1 + 1)%nat by lia. rewrite firstn_app_2. reflexivity.
Qed.

(* ================================================================ tagged elements *)

(* an element of the merged vector: tag (false = from a, true = from b), the source value,
   its encoding *)
Definition item : Type := (bool * Sem.value * list bool)%type.
Definition itag (it : item) : bool := fst (fst it).
Definition ival (it : item) : Sem.value := snd (fst it).
Definition ienc (it : item) : list bool := snd it.

Section Items.
  Variables eba ebb jts : nat.
  Let mx := Nat.max eba ebb.

  (* the wires of an element: resized to the common width, tag bit after the key *)
  Definition rsz (e : list bool) : list bool := resize tops e mx.
  Definition mkb (it : item) : list bool := firstn jts (rsz (ienc it)) ++ itag it :: skipn jts (rsz (ienc it)).
  Definition kbits (it : item) : list bool := firstn jts (ienc it).
  Definition kvi (it : item) : N := Sort.bits_val (kbits it).
  Definition K' (it : item) : N := 2 * kvi it + (if itag it then 1 else 0).

  (* the element has the width of its side and contains the key *)
  Definition ilen (it : item) : Prop :=
    length (ienc it) = (if itag it then ebb else eba) /\ (jts <= length (ienc it))%nat.

  Lemma rsz_length e : (length e <= mx)%nat -> length (rsz e) = mx.
  Proof. intro H. unfold rsz, resize. rewrite app_length, firstn_length, repeat_length. lia. Qed.

  Lemma rsz_eq e : (length e <= mx)%nat -> rsz e = e ++ repeat false (mx - length e).
  Proof. intro H. unfold rsz, resize. rewrite firstn_all2 by lia. reflexivity. Qed.

  Lemma ilen_le it : ilen it -> (length (ienc it) <= mx)%nat.
  Proof. intros [H _]. unfold mx. destruct (itag it); lia. Qed.

  Lemma firstn_rsz it : ilen it -> firstn jts (rsz (ienc it)) = kbits it.
  Proof.
    intros H. rewrite (rsz_eq _ (ilen_le it H)). destruct H as [_ H]. rewrite firstn_app.
    replace (jts - length (ienc it))%nat with 0%nat by lia. cbn [firstn]. apply app_nil_r.
  Qed.

  Lemma insert_at_mkb it : ilen it -> insert_at (rsz (ienc it)) jts (itag it) = Ok (mkb it).
  Proof.
    intro H. unfold insert_at. rewrite (rsz_length _ (ilen_le it H)).
    destruct H as [H1 H2]. destruct (Nat.leb_spec jts mx) as [_|Hc]; [reflexivity|].
    unfold mx in Hc. destruct (itag it); lia.
  Qed.

  Lemma mkb_key_len it : ilen it -> length (firstn jts (rsz (ienc it))) = jts.
  Proof.
    intro H. rewrite firstn_length, (rsz_length _ (ilen_le it H)). destruct H as [H1 H2]. unfold mx. destruct (itag it); lia.
  Qed.

  Lemma remove_at_mkb it : ilen it -> remove_at (mkb it) jts = Ok (itag it, rsz (ienc it)).
  Proof.
    intro H. unfold mkb. rewrite (remove_at_mid _ _ _ jts (mkb_key_len it H)), firstn_skipn. reflexivity.
  Qed.

  Lemma key_mkb it : ilen it -> key (S jts) (mkb it) = K' it.
  Proof.
    intro H. unfold key, mkb. rewrite (firstn_S_mid _ _ _ jts (mkb_key_len it H)).
    rewrite sbits_val_snoc, (firstn_rsz it H). reflexivity.
  Qed.

  Lemma mkb_length it : ilen it -> length (mkb it) = S mx.
  Proof.
    intro H. unfold mkb. rewrite app_length. cbn [length].
    pose proof (f_equal (@length bool) (firstn_skipn jts (rsz (ienc it)))) as E.
    rewrite app_length, (rsz_length _ (ilen_le it H)) in E. lia.
  Qed.

  (* what one window computes: "joined" = equal key bits and different tags; the binding takes
     the a-part of the first entry and the b-part of the second *)
  Definition jbit (h w : item) : bool := eq_s (kbits h) (kbits w) && xorb (itag h) (itag w).

  Lemma window_binding_items h w (o : pobs) : ilen h -> ilen w -> (jts <= eba)%nat -> (jts <= ebb)%nat ->
    window_binding tops (mkb h) (mkb w) eba ebb jts false true o =
    Ok ((jbit h w, firstn eba (rsz (ienc h)) ++ firstn ebb (rsz (ienc w))), o).
  Proof.
    intros Hh Hw Ja Jb. unfold window_binding.
    unfold mbind at 1. rewrite (remove_at_mkb h Hh). cbn [lift_res].
    unfold mbind at 1. rewrite (remove_at_mkb w Hw). cbn [lift_res].
    assert (La : length (firstn eba (rsz (ienc h))) = eba).
    { rewrite firstn_length, (rsz_length _ (ilen_le h Hh)). unfold mx. lia. }
    assert (Lb : length (firstn ebb (rsz (ienc w))) = ebb).
    { rewrite firstn_length, (rsz_length _ (ilen_le w Hw)). unfold mx. lia. }
    unfold slice. rewrite La, Lb. cbn [Nat.add skipn].
    rewrite (proj2 (Nat.leb_le jts eba) Ja), (proj2 (Nat.leb_le jts ebb) Jb).
    unfold mbind at 1. cbn [lift_res]. unfold mbind at 1. cbn [lift_res].
    rewrite !firstn_firstn. replace (Nat.min jts eba) with jts by lia. replace (Nat.min jts ebb) with jts by lia.
    rewrite (firstn_rsz h Hh), (firstn_rsz w Hw).
    unfold mbind at 1. cbn [o_eq_circuit tops tret]. unfold mbind at 1. cbn [m_xor o_xor tops tret].
    unfold mbind at 1. cbn [m_and o_and tops tret]. unfold ret. cbn [app]. reflexivity.
  Qed.
End Items.

(* ================================================================ sorted lists of numbers *)

Lemma SS_lt_le l : StronglySorted N.lt l -> StronglySorted N.le l.
Proof.
  induction 1 as [|a l Hs IH Hall]; constructor; [exact IH|].
  rewrite Forall_forall in *. intros b Hb. specialize (Hall b Hb). lia.
Qed.

Lemma SS_le_sortedN l : StronglySorted N.le l -> sortedN l = true.
Proof.
  induction 1 as [|a l Hs IH Hall]; [reflexivity|]. destruct l as [|b r]; [reflexivity|].
  rewrite sortedN_cons, IH, andb_true_r. apply N.leb_le. inversion Hall; assumption.
Qed.

Lemma SS_lt_NoDup l : StronglySorted N.lt l -> NoDup l.
Proof.
  induction 1 as [|a l Hs IH Hall]; constructor; [|exact IH].
  intro Hin. rewrite Forall_forall in Hall. specialize (Hall a Hin). lia.
Qed.

Lemma SS_le_zeros n l : StronglySorted N.le l -> StronglySorted N.le (repeat 0 n ++ l).
Proof.
  intro H. induction n as [|n IH]; [exact H|]. cbn [repeat app]. constructor; [exact IH|].
  apply Forall_forall. intros x _. lia.
Qed.

Lemma SS_le_zero_prefix X l : Forall (fun x => x = 0) X -> StronglySorted N.le l -> StronglySorted N.le (X ++ l).
Proof.
  intros HX H. induction HX as [|x X Hx _ IH]; [exact H|]. subst x. cbn [app]. constructor; [exact IH|].
  apply Forall_forall. intros y _. lia.
Qed.

Lemma Permutation_filter {A} (f : A -> bool) l l' : Permutation l l' -> Permutation (filter f l) (filter f l').
Proof.
  induction 1 as [|x l l' _ IH|x y l|l1 l2 l3 _ IH1 _ IH2]; cbn [filter].
  - constructor.
  - destruct (f x); [constructor|]; exact IH.
  - destruct (f x), (f y); try reflexivity. apply perm_swap.
  - eapply Permutation_trans; eassumption.
Qed.

Lemma SS_app_tail {A} (R : A -> A -> Prop) l1 l2 : StronglySorted R (l1 ++ l2) -> StronglySorted R l2.
Proof. induction l1 as [|a l1 IH]; cbn [app]; intro H; [exact H|]. inversion H; auto. Qed.

Lemma NoDup_app_intro {A} (l1 l2 : list A) : NoDup l1 -> NoDup l2 -> (forall x, In x l1 -> ~ In x l2) -> NoDup (l1 ++ l2).
Proof.
  induction 1 as [|a l1 Ha Hn IH]; intros H2 Hd; [exact H2|]. cbn [app]. constructor.
  - intro Hin. apply in_app_or in Hin. destruct Hin as [Hin|Hin]; [contradiction|]. exact (Hd a (or_introl eq_refl) Hin).
  - apply IH; [exact H2|]. intros x Hx. apply Hd. now right.
Qed.

Lemma SS_map {A} (f : A -> N) l : StronglySorted N.lt (map f l) -> StronglySorted (fun a b => f a < f b) l.
Proof.
  induction l as [|a l IH]; intro H; [constructor|]. cbn [map] in H. inversion H as [|a' l' Hs Hall]; subst.
  constructor; [auto|]. rewrite Forall_map in Hall. exact Hall.
Qed.

Lemma SS_map' {A} (f : A -> N) l : StronglySorted (fun a b => f a < f b) l -> StronglySorted N.lt (map f l).
Proof.
  induction 1 as [|a l Hs IH Hall]; cbn [map]; constructor; [exact IH|]. rewrite Forall_map. exact Hall.
Qed.

(* ================================================================ what the merger produces *)

Section Merged.
  Variable P : program.
  Variables join_ty ta tb : ty.
  Let jts := szn P join_ty.
  Let eba := szn P ta.
  Let ebb := szn P tb.
  Hypothesis Fa : ty_fits P ta.
  Hypothesis Fb : ty_fits P tb.
  Hypothesis Ja : (jts <= eba)%nat.
  Hypothesis Jb : (jts <= ebb)%nat.

  Notation mkB := (mkb eba ebb jts).
  Notation KK := (K' jts).
  Notation kvI := (kvi jts).
  Notation iLen := (ilen eba ebb jts).

  (* the unsigned value of the join key of an element (Sem.join_key) *)
  Definition kval (t : ty) (v : Sem.value) : N :=
    match Sem.join_key P join_ty t v with Some k => Sort.bits_val k | None => 0 end.
  Definition asc_keys (t : ty) (vs : list Sem.value) : Prop := StronglySorted N.lt (map (kval t) vs).

  Definition items (tg : bool) (vs : list Sem.value) (es : list (list bool)) : list item :=
    map (fun p => (tg, fst p, snd p)) (combine vs es).

  (* a well-formed element: encodes its value at the type of its side *)
  Definition iok (it : item) : Prop := has_enc P (if itag it then tb else ta) (ival it) (ienc it).

  Lemma iok_ilen it : iok it -> iLen it.
  Proof.
    unfold iok, ilen. intro H. destruct (itag it).
    - rewrite (has_enc_length P tb _ _ H Fb). split; [reflexivity|exact Jb].
    - rewrite (has_enc_length P ta _ _ H Fa). split; [reflexivity|exact Ja].
  Qed.

  Lemma join_key_enc t v e : ty_fits P t -> has_enc P t v e -> Sem.join_key P join_ty t v = Some (firstn jts e).
  Proof. intros Ft H. unfold Sem.join_key. rewrite (has_enc_encode P t v e H Ft). reflexivity. Qed.

  Lemma kvi_kval it : iok it -> kvI it = kval (if itag it then tb else ta) (ival it).
  Proof.
    intro H. unfold kval, kvi, kbits. rewrite (join_key_enc _ _ (ienc it)); [reflexivity| |exact H].
    destruct (itag it); assumption.
  Qed.

  Lemma items_iok (tg : bool) vs es : Forall2 (has_enc P (if tg then tb else ta)) vs es -> Forall iok (items tg vs es).
  Proof. unfold items. induction 1 as [|v e vs es Hv _ IH]; cbn [combine map]; constructor; [exact Hv|exact IH]. Qed.

  Lemma items_tag tg vs es it : In it (items tg vs es) -> itag it = tg.
  Proof. unfold items. intro H. apply in_map_iff in H. destruct H as (p & <- & _). reflexivity. Qed.

  Lemma items_vals tg vs es : length vs = length es -> map ival (items tg vs es) = vs.
  Proof.
    unfold items. rewrite map_map. cbn [ival fst snd]. revert es. induction vs as [|v vs IH]; intros [|e es] L; cbn [length] in L;
      try discriminate; [reflexivity|]. cbn [combine map fst]. f_equal. apply IH. lia.
  Qed.

  Lemma items_mkb tg vs es : length vs = length es ->
    map mkB (items tg vs es) = map (fun e => mkB (tg, Sem.unit_val, e)) es.
  Proof.
    unfold items. rewrite map_map. revert es. induction vs as [|v vs IH]; intros [|e es] L; cbn [length] in L;
      try discriminate; [reflexivity|]. cbn [combine map]. f_equal. apply IH. lia.
  Qed.

  Lemma items_K_sorted (tg : bool) vs es : Forall2 (has_enc P (if tg then tb else ta)) vs es ->
    asc_keys (if tg then tb else ta) vs -> StronglySorted N.lt (map KK (items tg vs es)).
  Proof.
    intros Hf Hs. assert (E : map KK (items tg vs es) = map (fun k => 2 * k + (if tg then 1 else 0)) (map (kval (if tg then tb else ta)) vs)).
    { rewrite map_map. rewrite <- (items_vals tg vs es (F2_length _ _ _ Hf)) at 2. rewrite map_map.
      apply map_ext_in. intros it Hit. unfold K'. rewrite (items_tag _ _ _ _ Hit).
      pose proof (proj1 (Forall_forall _ _) (items_iok tg vs es Hf) it Hit) as Hok.
      rewrite (kvi_kval it Hok), (items_tag _ _ _ _ Hit). reflexivity. }
    rewrite E. unfold asc_keys in Hs. clear E Hf. induction Hs as [|a l _ IH Hall]; cbn [map]; constructor; [exact IH|].
    rewrite Forall_map. rewrite Forall_forall in *. intros b Hb. specialize (Hall b Hb). lia.
  Qed.

  Theorem merged_items xs ys ea eb (o : pobs) bitonic num_empty sorted o' :
    Forall2 (has_enc P ta) xs ea -> Forall2 (has_enc P tb) ys eb -> asc_keys ta xs -> asc_keys tb ys ->
    bitonic_input tops (concat ea) (concat eb) eba (length ea) ebb (length eb) jts = Ok (bitonic, num_empty) ->
    o_merger tops (S jts) true bitonic o = Ok (sorted, o') ->
    o' = o /\ exists M, skipn num_empty sorted = map mkB M /\
      Permutation (items false xs ea ++ items true ys eb) M /\ SSK KK M /\
      filter (fun it => negb (itag it)) M = items false xs ea.
  Proof.
    intros Hxa Hyb Sx Sy Hbi Hm.
    set (A0 := items false xs ea). set (B0 := items true ys eb).
    pose proof (items_iok false xs ea Hxa) as OkA. pose proof (items_iok true ys eb Hyb) as OkB. fold A0 B0 in OkA, OkB.
    pose proof (F2_length _ _ _ Hxa) as Lxa. pose proof (F2_length _ _ _ Hyb) as Lyb.
    set (mx := Nat.max eba ebb).
    set (pads := repeat (repeat false (S mx)) (next_power_of_two (length ea + length eb) - length ea - length eb)).
    (* the input of the merger *)
    assert (Ebi : bitonic = pads ++ map mkB A0 ++ map mkB (rev B0) /\
                  num_empty = (next_power_of_two (length ea + length eb) - length ea - length eb)%nat).
    { unfold bitonic_input in Hbi.
      rewrite (chunks_concat_tops eba ea (F2_has_enc_all_len P ta xs ea Fa Hxa)) in Hbi.
      rewrite (chunks_concat_tops ebb eb (F2_has_enc_all_len P tb ys eb Fb Hyb)) in Hbi. cbn [bind] in Hbi.
      rewrite (mapM_res_map _ (fun e => mkB (false, Sem.unit_val, e))) in Hbi.
      2:{ intros e He. apply (insert_at_mkb eba ebb jts (false, Sem.unit_val, e)).
          destruct (Forall2_In_r _ _ _ e Hxa He) as (x & _ & Hx).
          unfold ilen. cbn [itag ienc fst snd]. rewrite (has_enc_length P ta x e Hx Fa). split; [reflexivity|exact Ja]. }
      cbn [bind] in Hbi.
      rewrite (mapM_res_map _ (fun e => mkB (true, Sem.unit_val, e))) in Hbi.
      2:{ intros e He. apply in_rev in He. apply (insert_at_mkb eba ebb jts (true, Sem.unit_val, e)).
          destruct (Forall2_In_r _ _ _ e Hyb He) as (y & _ & Hy).
          unfold ilen. cbn [itag ienc fst snd]. rewrite (has_enc_length P tb y e Hy Fb). split; [reflexivity|exact Jb]. }
      cbn [bind] in Hbi. injection Hbi as <- <-. split; [|reflexivity].
      unfold pads, A0, B0. f_equal. f_equal; [symmetry; apply items_mkb; exact Lxa|].
      rewrite !map_rev, (items_mkb true ys eb Lyb). reflexivity. }
    destruct Ebi as [-> ->].
    (* the merger ran *)
    cbn [o_merger tops] in Hm. destruct (elems_shape (S jts) (pads ++ map mkB A0 ++ map mkB (rev B0))); [|discriminate].
    injection Hm as <- <-. split; [reflexivity|].
    set (v := pads ++ map mkB A0 ++ map mkB (rev B0)).
    set (np := (next_power_of_two (length ea + length eb) - length ea - length eb)%nat).
    (* keys *)
    assert (Kpad : forall x, In x pads -> key (S jts) x = 0).
    { intros x Hx. apply repeat_spec in Hx. subst x. unfold key. rewrite firstn_repeat by (unfold mx; lia). apply sbits_val_repeat_false. }
    assert (Kitem : forall l, Forall iok l -> map (key (S jts)) (map mkB l) = map KK l).
    { intros l Hl. rewrite map_map. apply map_ext_in. intros it Hit. apply key_mkb. apply iok_ilen.
      exact (proj1 (Forall_forall _ _) Hl it Hit). }
    assert (OkBr : Forall iok (rev B0)) by (apply Forall_rev; exact OkB).
    assert (SA : StronglySorted N.lt (map KK A0)) by (apply (items_K_sorted false xs ea Hxa Sx)).
    assert (SB : StronglySorted N.lt (map KK B0)) by (apply (items_K_sorted true ys eb Hyb Sy)).
    (* length: a power of two *)
    destruct (next_power_of_two_spec (length ea + length eb)) as [Hge [k Hk]].
    assert (Lv : length v = (2 ^ k)%nat).
    { unfold v, pads. rewrite !app_length, repeat_length, !map_length, rev_length. unfold A0, B0, items.
      rewrite !map_length, !combine_length. rewrite <- Hk. lia. }
    (* the shape: up then down *)
    assert (Hud : up_then_down (map (key (S jts)) v)).
    { exists (map (key (S jts)) (pads ++ map mkB A0)), (map (key (S jts)) (map mkB (rev B0))).
      split; [unfold v; now rewrite app_assoc, map_app|]. split.
      - unfold ascN. apply SS_le_sortedN. rewrite map_app. unfold elem in *. rewrite (Kitem A0 OkA).
        apply SS_le_zero_prefix; [|apply SS_lt_le, SA].
        apply Forall_forall. intros n Hn. apply in_map_iff in Hn. destruct Hn as (x & <- & Hx). apply Kpad. exact Hx.
      - unfold descN. rewrite (Kitem _ OkBr), map_rev, rev_involutive. apply SS_le_sortedN, SS_lt_le, SB. }
    destruct (merger_elems_up_down (S jts) v k Lv Hud) as [Hsorted Hperm].
    (* the padding stays in front *)
    assert (Hpre : firstn np (bitonic_merger (gt_key (S jts)) true v) = pads).
    { unfold bitonic_merger. rewrite merger_prefix_fixed.
      - unfold v. rewrite firstn_app, (firstn_all2 pads) by (unfold pads; rewrite repeat_length; lia).
        unfold pads at 2. rewrite repeat_length. fold np. rewrite Nat.sub_diag. cbn [firstn]. apply app_nil_r.
      - intros x y Hx Hy. unfold gt_key, gtN. apply N.ltb_ge.
        assert (Hxp : In x pads).
        { unfold v in Hx. rewrite firstn_app, (firstn_all2 pads) in Hx by (unfold pads; rewrite repeat_length; lia).
          unfold pads at 2 in Hx. rewrite repeat_length in Hx. fold np in Hx. rewrite Nat.sub_diag in Hx. cbn [firstn] in Hx.
          rewrite app_nil_r in Hx. exact Hx. }
        rewrite (Kpad x Hxp). lia. }
    set (sorted := bitonic_merger (gt_key (S jts)) true v) in *.
    assert (Es : sorted = pads ++ skipn np sorted) by (rewrite <- Hpre; symmetry; apply firstn_skipn).
    set (rest := skipn np sorted) in *.
    assert (Prest : Permutation rest (map mkB (A0 ++ rev B0))).
    { rewrite Es in Hperm. unfold v in Hperm. rewrite map_app. eapply Permutation_app_inv_l. exact Hperm. }
    destruct (Permutation_map_inv _ _ Prest) as (M & EM & PM).
    exists M. split; [exact EM|].
    assert (PM' : Permutation (A0 ++ B0) M).
    { eapply Permutation_trans; [|exact PM]. apply Permutation_app_head. apply Permutation_rev. }
    split; [exact PM'|].
    assert (OkM : Forall iok M).
    { apply Forall_forall. intros it Hit. apply (Permutation_in _ (Permutation_sym PM')) in Hit.
      apply in_app_or in Hit. destruct Hit as [Hit|Hit]; [exact (proj1 (Forall_forall _ _) OkA it Hit)|exact (proj1 (Forall_forall _ _) OkB it Hit)]. }
    assert (SM : SSK KK M).
    { apply SSK_of_nodup.
      - assert (EKM : map KK M = map (key (S jts)) rest) by (rewrite EM; symmetry; apply Kitem; exact OkM).
        rewrite EKM. apply sortedN_strong in Hsorted. rewrite Es, map_app in Hsorted.
        exact (SS_app_tail _ _ _ Hsorted).
      - apply (Permutation_NoDup (Permutation_map KK PM')). rewrite map_app. apply NoDup_app_intro.
        + apply SS_lt_NoDup, SA.
        + apply SS_lt_NoDup, SB.
        + intros n Ha Hb. apply in_map_iff in Ha. destruct Ha as (ia & <- & Hia). apply in_map_iff in Hb. destruct Hb as (ib & Eb & Hib).
          unfold K' in Eb. rewrite (items_tag _ _ _ _ Hia), (items_tag _ _ _ _ Hib) in Eb. lia. }
    split; [exact SM|].
    (* the a-elements of the merged vector, in order *)
    apply SSK_unique with (K := KK).
    - apply SSK_filter. exact SM.
    - apply SS_map. exact SA.
    - eapply Permutation_trans; [apply Permutation_sym, Permutation_filter; exact PM'|].
      rewrite filter_app.
      replace (filter (fun it => negb (itag it)) A0) with A0.
      + replace (filter (fun it => negb (itag it)) B0) with (@nil item); [rewrite app_nil_r; reflexivity|].
        symmetry. clear - B0. assert (G : forall it, In it B0 -> negb (itag it) = false).
        { intros it Hit. unfold B0 in Hit. rewrite (items_tag _ _ _ _ Hit). reflexivity. }
        induction B0 as [|b l IH]; [reflexivity|]. cbn [filter]. rewrite (G b (or_introl eq_refl)). apply IH. intros; apply G; now right.
      + symmetry. clear - A0. assert (G : forall it, In it A0 -> negb (itag it) = true).
        { intros it Hit. unfold A0 in Hit. rewrite (items_tag _ _ _ _ Hit). reflexivity. }
        induction A0 as [|b l IH]; [reflexivity|]. cbn [filter]. rewrite (G b (or_introl eq_refl)). f_equal. apply IH. intros; apply G; now right.
  Qed.
End Merged.

(* ================================================================ the loop over the windows *)

Lemma firstn_rsz_full eba ebb e n : length e = n -> (n <= Nat.max eba ebb)%nat -> firstn n (rsz eba ebb e) = e.
Proof. intros <- H. rewrite (rsz_eq eba ebb e H). apply firstn_app_exact. reflexivity. Qed.

Section Join.
  Variable P : program.
  Variables join_ty ta tb : ty.
  Let jts := szn P join_ty.
  Let eba := szn P ta.
  Let ebb := szn P tb.
  Hypothesis Fa : ty_fits P ta.
  Hypothesis Fb : ty_fits P tb.
  Hypothesis Ja : (jts <= eba)%nat.
  Hypothesis Jb : (jts <= ebb)%nat.

  Notation rel := (env_rel3 (VRa P)).
  Notation mkB := (mkb eba ebb jts).
  Notation KK := (K' jts).
  Notation iOk := (iok P ta tb).

  (* Sem.v's search for the partner of an element with key bits [kx] *)
  Definition pfind (ys : list Sem.value) (kx : list bool) : option Sem.value :=
    find (fun y => match Sem.join_key P join_ty tb y with Some ky => Sem.bits_eqb kx ky | None => false end) ys.

  (* the loop of Sem.exec for SJoinLoop *)
  Definition sem_join (f : nat) (p : pattern) (body : list stmt) (ys : list Sem.value)
    : list Sem.value -> Sem.env -> Sem.outcome Sem.env :=
    fix go (xs : list Sem.value) (en : Sem.env) : Sem.outcome Sem.env :=
      match xs with
      | [] => Sem.Done en
      | x :: r =>
          match Sem.join_key P join_ty ta x with
          | None => Sem.Stuck 75
          | Some kx =>
              match pfind ys kx with
              | None => go r en
              | Some y =>
                  match Sem.pmatch P p (Sem.VTup [x; y]) with
                  | Some bs =>
                      Sem.obind (Sem.exec_block f P (Sem.bind_all (Sem.push_scope en) bs) body)
                        (fun '(_, en1) => go r (Sem.pop_scope en1))
                  | None => Sem.Stuck 76
                  end
              end
          end
      end.

  (* what the loop needs to know about the merged vector: a window is "joined" exactly when its
     first entry is an element of a whose partner is the second entry; an element of a in a
     window that is not joined (or at the end) has no partner *)
  Fixpoint WOK (ys : list Sem.value) (M : list item) : Prop :=
    match M with
    | [] => True
    | h :: r =>
        match r with
        | w :: _ =>
            if jbit jts h w
            then itag h = false /\ itag w = true /\ pfind ys (kbits jts h) = Some (ival w)
            else itag h = false -> pfind ys (kbits jts h) = None
        | [] => itag h = false -> pfind ys (kbits jts h) = None
        end /\ WOK ys r
    end.

  Definition avals (M : list item) : list Sem.value := map ival (filter (fun it => negb (itag it)) M).

  (* ---- the merged vector has that property *)

  Lemma kbits_len it : iOk it -> length (kbits jts it) = jts.
  Proof. intro H. destruct (iok_ilen P join_ty ta tb Fa Fb Ja Jb it H) as [_ H2]. unfold kbits. rewrite firstn_length. fold jts. lia. Qed.

  Lemma K'_def it : KK it = 2 * kvi jts it + (if itag it then 1 else 0).
  Proof. reflexivity. Qed.

  Lemma find_unique {A} (f : A -> bool) l y : In y l -> f y = true ->
    (forall y', In y' l -> f y' = true -> y' = y) -> find f l = Some y.
  Proof.
    intros Hy Hf Hu. destruct (find f l) as [y'|] eqn:E.
    - apply find_some in E. destruct E as [H1 H2]. f_equal. now apply Hu.
    - rewrite (find_none _ _ E y Hy) in Hf. discriminate.
  Qed.

  Lemma WOK_sorted xs ys ea eb M :
    Forall2 (has_enc P ta) xs ea -> Forall2 (has_enc P tb) ys eb -> asc_keys P join_ty tb ys ->
    Permutation (items false xs ea ++ items true ys eb) M -> SSK KK M -> WOK ys M.
  Proof.
    intros Hxa Hyb Sy PM SM.
    pose proof (items_iok P ta tb false xs ea Hxa) as OkA. pose proof (items_iok P ta tb true ys eb Hyb) as OkB.
    assert (OkM : forall it, In it M -> iOk it).
    { intros it Hit. apply (Permutation_in _ (Permutation_sym PM)) in Hit. apply in_app_or in Hit.
      destruct Hit as [Hit|Hit]; [exact (proj1 (Forall_forall _ _) OkA it Hit)|exact (proj1 (Forall_forall _ _) OkB it Hit)]. }
    (* a b-element of M is an element of ys *)
    assert (InB : forall w, In w M -> itag w = true -> In (ival w) ys /\ has_enc P tb (ival w) (ienc w)).
    { intros w Hw Tw. pose proof (OkM w Hw) as Hok. unfold iok in Hok. rewrite Tw in Hok. split; [|exact Hok].
      apply (Permutation_in _ (Permutation_sym PM)) in Hw. apply in_app_or in Hw. destruct Hw as [Hw|Hw].
      - rewrite (items_tag _ _ _ _ Hw) in Tw. discriminate.
      - unfold items in Hw. apply in_map_iff in Hw.
        destruct Hw as ([y e] & <- & Hin). cbn [ival fst snd]. exact (in_combine_l _ _ _ _ Hin). }
    (* every element of ys is in M *)
    assert (InY : forall y, In y ys -> exists e, In (true, y, e) M /\ has_enc P tb y e).
    { intros y Hy. destruct (Forall2_In_combine _ _ _ y Hyb Hy) as (e & He & Hye). exists e. split; [|exact Hye].
      apply (Permutation_in _ PM). apply in_or_app. right. unfold items.
      apply in_map_iff. exists (y, e). split; [reflexivity|exact He]. }
    (* the key of an element of ys determines it *)
    assert (Uy : forall y y', In y ys -> In y' ys -> kval P join_ty tb y = kval P join_ty tb y' -> y = y').
    { intros y y' Hy Hy' E. apply (SSK_inj (kval P join_ty tb) ys); auto. apply SS_map. exact Sy. }
    (* the search of Sem.v, for an element h of M *)
    assert (Pfound : forall h w, iOk h -> In w M -> itag w = true -> kbits jts w = kbits jts h ->
              pfind ys (kbits jts h) = Some (ival w)).
    { intros h w Hh Hw Tw Ek. destruct (InB w Hw Tw) as [Hin Henc].
      assert (Jw : Sem.join_key P join_ty tb (ival w) = Some (kbits jts w)) by (apply (join_key_enc P join_ty tb _ _ Fb Henc)).
      unfold pfind. apply find_unique; [exact Hin| |].
      - rewrite Jw, <- Ek. apply bits_eqb_iff. reflexivity.
      - intros y' Hy' Hf. destruct (InY y' Hy') as (e' & _ & He').
        rewrite (join_key_enc P join_ty tb _ _ Fb He') in Hf. apply bits_eqb_iff in Hf.
        apply Uy; [exact Hy'|exact Hin|]. unfold kval. rewrite (join_key_enc P join_ty tb _ _ Fb He'), Jw, <- Hf, Ek. reflexivity. }
    assert (Pnone : forall pre h suf, M = pre ++ h :: suf -> itag h = false ->
              (forall w suf', suf = w :: suf' -> jbit jts h w = false) -> pfind ys (kbits jts h) = None).
    { intros pre h suf EM Th Hj. destruct (pfind ys (kbits jts h)) as [y|] eqn:E; [exfalso|reflexivity].
      unfold pfind in E. apply find_some in E. destruct E as [Hy Hf]. destruct (InY y Hy) as (e & Hin & He).
      rewrite (join_key_enc P join_ty tb _ _ Fb He) in Hf. apply bits_eqb_iff in Hf.
      assert (Hh : In h M) by (rewrite EM; apply in_or_app; right; now left).
      rewrite EM in SM, Hin.
      destruct (partner_is_next KK itag (kvi jts) K'_def pre h suf (true, y, e) SM Th Hin eq_refl) as (suf' & Es).
      { unfold kvi. rewrite Hf. reflexivity. }
      specialize (Hj _ _ Es). unfold jbit in Hj. rewrite Th in Hj. cbn [itag fst xorb] in Hj. rewrite andb_true_r in Hj.
      assert (Et : eq_s (kbits jts h) (kbits jts (true, y, e)) = true).
      { apply eq_s_true_iff; [|rewrite Hf; reflexivity].
        rewrite (kbits_len h (OkM h Hh)). symmetry. apply kbits_len. apply OkM. rewrite EM. exact Hin. }
      congruence. }
    (* induction over the suffixes *)
    assert (G : forall suf pre, M = pre ++ suf -> WOK ys suf).
    { induction suf as [|h r IH]; intros pre EM; [exact I|]. cbn [WOK]. split.
      2:{ apply (IH (pre ++ [h])). rewrite <- app_assoc. exact EM. }
      assert (Hh : In h M) by (rewrite EM; apply in_or_app; right; now left).
      destruct r as [|w r'].
      - intro Th. apply (Pnone pre h [] EM Th). intros w suf' Hc. discriminate Hc.
      - assert (Hw : In w M) by (rewrite EM; apply in_or_app; right; right; now left).
        destruct (jbit jts h w) eqn:Ej.
        + unfold jbit in Ej. apply andb_prop in Ej. destruct Ej as [E1 E2].
          apply eq_s_true_iff in E1; [|rewrite (kbits_len h (OkM h Hh)), (kbits_len w (OkM w Hw)); reflexivity].
          rewrite EM in SM. destruct (SSK_app_inv KK _ _ SM) as [Ss _].
          destruct (adjacent_same_key KK itag (kvi jts) K'_def h w r' Ss) as [Th Tw]; [unfold kvi; now rewrite E1|].
          split; [exact Th|]. split; [exact Tw|]. apply Pfound; auto.
        + intro Th. apply (Pnone pre h (w :: r') EM Th). intros w0 suf' Hc. injection Hc as <- <-. exact Ej. }
    exact (G M [] eq_refl).
  Qed.

  (* ---- the windows loop against Sem.v's loop *)

  (* agreement of the loop pattern (instances: TSemSemAgg.pat_agrees, gpat_agrees) *)
  Definition PA (p : pattern) (t : ty) (bs : list (N * ty)) : Prop :=
    forall v mw en E g fT c E' (o o' : pobs), has_enc P t v mw -> ty_fits P t -> rel en E g ->
    lower_pattern tops fT P p mw E o = Ok ((c, E'), o') ->
    o' = o /\ SKP E E' /\ pat_concl P g bs en E' c (Sem.pmatch P p v).

  Lemma sem_join_cons f p body ys x r en :
    sem_join f p body ys (x :: r) en =
    match Sem.join_key P join_ty ta x with
    | None => Sem.Stuck 75
    | Some kx =>
        match pfind ys kx with
        | None => sem_join f p body ys r en
        | Some y =>
            match Sem.pmatch P p (Sem.VTup [x; y]) with
            | Some bs =>
                Sem.obind (Sem.exec_block f P (Sem.bind_all (Sem.push_scope en) bs) body)
                  (fun '(_, en1) => sem_join f p body ys r (Sem.pop_scope en1))
            | None => Sem.Stuck 76
            end
        end
    end.
  Proof. reflexivity. Qed.

  Lemma avals_cons h r : avals (h :: r) = if itag h then avals r else ival h :: avals r.
  Proof. unfold avals. cbn [filter]. destruct (itag h); reflexivity. Qed.

  Lemma join_windows_agree f g p bs body g1 tbody ys :
    PA p (TTup [ta; tb]) bs -> ty_fits P (TTup [ta; tb]) ->
    AgSS P (VRa P) f (tbind_all ([] :: g) bs false) body unit_ty g1 tbody -> tl g1 = g ->
    forall M, Forall iOk M -> WOK ys M ->
    forall en E fT E' o', rel en E g ->
    join_loop_windows tops (lower_pattern tops fT P) (lower_stmt tops fT P) p body eba ebb jts (map mkB M) E None
      = Ok (E', o') ->
    match sem_join (S f) p body ys (avals M) en with
    | Sem.Done en' => o' = None /\ rel en' E' g
    | Sem.Panicked r m => o' = Some (pcode r m)
    | _ => True
    end.
  Proof.
    intros Hpa Ftup Hbody Htl M. induction M as [|h r IH]; intros OkM Hw en E fT E' o' Hrel Hrun.
    { cbn [map join_loop_windows] in Hrun. apply ret_inv in Hrun. destruct Hrun as [-> ->]. cbn. auto. }
    inversion OkM as [|h0 r0 Okh Okr]; subst h0 r0. cbn [WOK] in Hw. destruct Hw as [Hwh Hwr].
    pose proof (iok_ilen P join_ty ta tb Fa Fb Ja Jb h Okh) as Lh.
    assert (Jh : Sem.join_key P join_ty ta (ival h) = Some (kbits jts h) \/ itag h = true).
    { destruct (itag h) eqn:Th; [now right|left]. unfold iok in Okh. rewrite Th in Okh.
      exact (join_key_enc P join_ty ta _ _ Fa Okh). }
    destruct r as [|w r'].
    { (* the last entry: no window *)
      cbn [map join_loop_windows] in Hrun. apply ret_inv in Hrun. destruct Hrun as [-> ->].
      rewrite avals_cons. destruct (itag h) eqn:Th; [cbn; auto|].
      destruct Jh as [Jh|Jh]; [|discriminate]. rewrite sem_join_cons, Jh, (Hwh eq_refl). cbn. auto. }
    inversion Okr as [|w0 r0 Okw Okr']; subst w0 r0.
    pose proof (iok_ilen P join_ty ta tb Fa Fb Ja Jb w Okw) as Lw.
    cbn [map join_loop_windows] in Hrun.
    minva Hrun as [je binding] o0 H0.
    rewrite (window_binding_items eba ebb jts h w None Lh Lw Ja Jb) in H0. injection H0 as <- <- <-.
    mprim Hrun.
    minva Hrun as [c Ej] o1 Hpat. minva Hrun as Ej2 ob Hb. minva Hrun as Ej3 oc Hc.
    apply lift_res_inv in Hc. destruct Hc as [Hpop ->]. mprim Hrun.
    minva Hrun as E'' od Hmux.
    (* the environment after the window has the keys of the one before *)
    assert (Hkeys : keys Ej3 = keys E).
    { eapply keys_push_pop; [|exact Hpop]. eapply SKP_trans; [exact (proj2 (lower_pattern_facts P fT _ _ _ _ _ _ _ Hpat))|].
      eapply skp_lower_stmts; [|exact Hb]. intros s E0 oo ww E0' oo' Hs. exact (proj1 (proj2 (proj2 (keys_all P fT))) s E0 oo ww E0' oo' Hs). }
    destruct (mux_envs_inv _ _ _ _ _ _ Hmux Hkeys (rel_wf (VRa P) _ _ _ Hrel)) as [-> ->].
    mprim Hrun. mprim Hrun.
    rewrite avals_cons.
    destruct (jbit jts h w) eqn:Ej'.
    - (* joined: the body runs on (x, y) *)
      destruct Hwh as (Th & Tw & Hpf). rewrite Th. destruct Jh as [Jh|Jh]; [|congruence].
      rewrite sem_join_cons, Jh, Hpf.
      unfold iok in Okh, Okw. rewrite Th in Okh. rewrite Tw in Okw.
      assert (Eb : firstn eba (rsz eba ebb (ienc h)) ++ firstn ebb (rsz eba ebb (ienc w)) = ienc h ++ ienc w).
      { destruct Lh as [Lh1 _]. destruct Lw as [Lw1 _]. rewrite Th in Lh1. rewrite Tw in Lw1.
        rewrite (firstn_rsz_full eba ebb (ienc h) eba Lh1), (firstn_rsz_full eba ebb (ienc w) ebb Lw1) by lia. reflexivity. }
      rewrite Eb in Hpat.
      assert (Henc : has_enc P (TTup [ta; tb]) (Sem.VTup [ival h; ival w]) (ienc h ++ ienc w)).
      { constructor. rewrite <- (app_nil_r (ienc w)). repeat constructor; assumption. }
      destruct (Hpa _ _ _ _ _ _ _ _ _ _ Henc Ftup (rel_push (VRa P) _ _ _ Hrel) Hpat) as (-> & _ & Hpc).
      destruct (Sem.pmatch P p (Sem.VTup [ival h; ival w])) as [vbs|]; [|exact I].
      destruct Hpc as [_ Hrela]. rewrite exec_block_S.
      destruct (lower_stmts_block _ body [] _ _ _ _ Hb) as (wb & Hb').
      pose proof (stmts_node P (VRa P) f _ _ _ _ _ Hbody _ _ fT Sem.unit_val [] _ _ _ Hrela (VRa_unit P) Hb') as IH1.
      revert IH1. destruct (sem_stmts P f body Sem.unit_val (Sem.bind_all (Sem.push_scope en) vbs))
        as [[vb en1]|r1 m1|c1|]; intro IH1; cbn [Sem.obind]; try exact I.
      + destruct IH1 as (-> & _ & Hrel1).
        assert (Hrelc : rel (Sem.pop_scope en1) Ej3 g) by (rewrite <- Htl; eapply rel_pop; eassumption).
        exact (IH Okr Hwr _ _ fT _ _ Hrelc Hrun).
      + subst ob. exact (stkx_join_loop_windows (pcode r1 m1) _ _ (stk_pat P _ fT) (stk_stmt P _ fT) p body eba ebb jts
                 (map mkB (w :: r')) Ej3 E' o' Hrun).
    - (* not joined: nothing happens *)
      destruct (itag h) eqn:Th.
      + exact (IH Okr Hwr _ _ fT _ _ Hrel Hrun).
      + destruct Jh as [Jh|Jh]; [|discriminate]. rewrite sem_join_cons, Jh, (Hwh eq_refl).
        exact (IH Okr Hwr _ _ fT _ _ Hrel Hrun).
  Qed.
End Join.

(* ================================================================ the node *)

Section Node.
  Variable P : program.
  Notation AgE' := (AgE P (VRa P)).
  Notation AgS' := (AgS P (VRa P)).
  Notation rel := (env_rel3 (VRa P)).

  Lemma sem_exec_join f en p join_ty a b body m :
    Sem.exec (S f) P en (St (SJoinLoop p join_ty a b body) m) =
    Sem.obind (Sem.eval f P en a) (fun '(va, en1) =>
    Sem.obind (Sem.eval f P en1 b) (fun '(vb, en2) =>
      match va, vb, Sem.elem_ty_of (e_ty a), Sem.elem_ty_of (e_ty b) with
      | Sem.VArr xs, Sem.VArr ys, Some ta, Some tb =>
          Sem.obind (sem_join P join_ty ta tb f p body ys xs en2) (fun en3 => Sem.Done (Sem.unit_val, en3))
      | _, _, _, _ => Sem.Stuck 77
      end)).
  Proof. reflexivity. Qed.

  (* the for-join loop, for any pattern whose lowering agrees with Sem.pmatch *)
  Theorem join_loop_node_gen f g p bs join_ty a b body m ta na tb nb g1 tbody :
    AgE' (S f) g a -> AgE' (S f) g b -> e_ty a = TArr ta na -> e_ty b = TArr tb nb ->
    (szn P join_ty <= szn P ta)%nat -> (szn P join_ty <= szn P tb)%nat ->
    PA P p (TTup [ta; tb]) bs -> ty_fits P (TTup [ta; tb]) ->
    AgSS P (VRa P) f (tbind_all ([] :: g) bs false) body unit_ty g1 tbody -> tl g1 = g ->
    (forall en xs en1 ys en2,
       Sem.eval (S f) P en a = Sem.Done (Sem.VArr xs, en1) -> Sem.eval (S f) P en1 b = Sem.Done (Sem.VArr ys, en2) ->
       asc_keys P join_ty ta xs /\ asc_keys P join_ty tb ys) ->
    AgS' (S (S f)) g g unit_ty (St (SJoinLoop p join_ty a b body) m).
  Proof.
    intros IHa IHb Eta Etb Ja Jb Hpa Ftup Hbody Htl Hasc en E fT w E' o' Hrel Hrun.
    destruct fT as [|fT]; [discriminate Hrun|].
    rewrite lower_stmt_S in Hrun. cbn [lower_stmt_body] in Hrun. rewrite Eta, Etb in Hrun. cbn [array_size] in Hrun.
    minva Hrun as [eba0 na0] o0 H0. apply lift_res_inv in H0. destruct H0 as [H0 ->]. injection H0 as <- <-.
    minva Hrun as [ebb0 nb0] o0 H0. apply lift_res_inv in H0. destruct H0 as [H0 ->]. injection H0 as <- <-.
    minva Hrun as [aw E1] o1 H1. minva Hrun as [bw E2] o2 H2.
    minva Hrun as [bitonic num_empty] o3 H3. apply lift_res_inv in H3. destruct H3 as [H3 ->].
    minva Hrun as sorted o4 H4. minva Hrun as E3 o5 H5.
    apply ret_inv in Hrun. destruct Hrun as [Heq ->]. injection Heq as -> ->.
    rewrite sem_exec_join, Eta, Etb. cbn [Sem.elem_ty_of].
    pose proof (IHa en E fT _ _ _ Hrel H1) as IH1. revert IH1.
    pose proof (Hasc en) as Hasc1.
    destruct (Sem.eval (S f) P en a) as [[va en1]|r1 m1|c1|]; intro IH1; cbn [Sem.obind]; try exact I.
    2:{ (* a panicked *)
        subst o1. apply (sticky_e P) in H2. subst o2.
        cbn [o_merger tops] in H4. destruct (elems_shape _ _); [|discriminate]. injection H4 as _ <-.
        exact (stkx_join_loop_windows _ _ _ (stk_pat P _ fT) (stk_stmt P _ fT) p body _ _ _ _ _ _ _ H5). }
    destruct IH1 as (-> & [HVa Hfa] & Hrel1). rewrite Eta in HVa, Hfa.
    pose proof (IHb en1 E1 fT _ _ _ Hrel1 H2) as IH2. revert IH2.
    destruct (Sem.eval (S f) P en1 b) as [[vb en2]|r2 m2|c2|] eqn:Evb; intro IH2; cbn [Sem.obind]; try exact I.
    2:{ (* b panicked *)
        subst o2. cbn [o_merger tops] in H4. destruct (elems_shape _ _); [|discriminate]. injection H4 as _ <-.
        exact (stkx_join_loop_windows _ _ _ (stk_pat P _ fT) (stk_stmt P _ fT) p body _ _ _ _ _ _ _ H5). }
    destruct IH2 as (-> & [HVb Hfb] & Hrel2). rewrite Etb in HVb, Hfb.
    pose proof HVa as HVa'. apply has_enc_inv in HVa' as (xs & -> & _ & _).
    pose proof HVb as HVb'. apply has_enc_inv in HVb' as (ys & -> & _ & _).
    destruct (has_enc_array_elems P ta na xs aw HVa Hfa) as (ea & -> & Hxa & _ & Hla & _).
    destruct (has_enc_array_elems P tb nb ys bw HVb Hfb) as (eb & -> & Hyb & _ & Hlb & _).
    rewrite <- Hla, <- Hlb in H3.
    destruct (Hasc1 xs en1 ys en2 eq_refl Evb) as [Sx Sy].
    pose proof (ty_fits_arr P ta na Hfa) as Fa. pose proof (ty_fits_arr P tb nb Hfb) as Fb.
    destruct (merged_items P join_ty ta tb Fa Fb Ja Jb xs ys ea eb None bitonic num_empty sorted o4 Hxa Hyb Sx Sy H3 H4)
      as (-> & M & EM & PM & SM & EA).
    rewrite EM in H5.
    assert (OkM : Forall (iok P ta tb) M).
    { apply Forall_forall. intros it Hit. apply (Permutation_in _ (Permutation_sym PM)) in Hit. apply in_app_or in Hit.
      destruct Hit as [Hit|Hit].
      - exact (proj1 (Forall_forall _ _) (items_iok P ta tb false xs ea Hxa) it Hit).
      - exact (proj1 (Forall_forall _ _) (items_iok P ta tb true ys eb Hyb) it Hit). }
    pose proof (WOK_sorted P join_ty ta tb Fa Fb Ja Jb xs ys ea eb M Hxa Hyb Sy PM SM) as HW.
    pose proof (join_windows_agree P join_ty ta tb Fa Fb Ja Jb f g p bs body g1 tbody ys Hpa Ftup Hbody Htl M OkM HW
                  en2 E2 fT _ _ Hrel2 H5) as IH3.
    assert (Eav : avals M = xs).
    { unfold avals. rewrite EA. apply (items_vals P join_ty ta tb Ja Jb). exact (F2_length _ _ _ Hxa). }
    rewrite Eav in IH3. revert IH3.
    destruct (sem_join P join_ty ta tb (S f) p body ys xs en2) as [en3|r3 m3|c3|]; intro IH3; cbn [Sem.obind];
      try exact I; [|exact IH3].
    destruct IH3 as (-> & Hrel3). split; [reflexivity|]. split; [exact (VRa_unit P)|exact Hrel3].
  Qed.

  (* irrefutable patterns (TSemSemAgg section 7) *)
  Theorem join_loop_node f g p bs join_ty a b body m ta na tb nb g1 tbody :
    AgE' (S f) g a -> AgE' (S f) g b -> e_ty a = TArr ta na -> e_ty b = TArr tb nb ->
    (szn P join_ty <= szn P ta)%nat -> (szn P join_ty <= szn P tb)%nat ->
    pat_ok P p (TTup [ta; tb]) bs -> ty_fits P (TTup [ta; tb]) ->
    AgSS P (VRa P) f (tbind_all ([] :: g) bs false) body unit_ty g1 tbody -> tl g1 = g ->
    (forall en xs en1 ys en2,
       Sem.eval (S f) P en a = Sem.Done (Sem.VArr xs, en1) -> Sem.eval (S f) P en1 b = Sem.Done (Sem.VArr ys, en2) ->
       asc_keys P join_ty ta xs /\ asc_keys P join_ty tb ys) ->
    AgS' (S (S f)) g g unit_ty (St (SJoinLoop p join_ty a b body) m).
  Proof.
    intros IHa IHb Eta Etb Ja Jb Hp. apply (join_loop_node_gen f g p bs join_ty a b body m ta na tb nb g1 tbody); try assumption.
    intros v mw en E g0 fT c E' o o' HV Hfit Hrel Hrun.
    destruct (pat_agrees P p _ bs Hp v mw en E g0 fT c E' o o' HV Hfit Hrel Hrun) as (vbs & Hpm & -> & -> & Hr).
    split; [reflexivity|]. split; [exact (proj2 (lower_pattern_facts P fT _ _ _ _ _ _ _ Hrun))|].
    rewrite Hpm. split; [reflexivity|exact Hr].
  Qed.

  (* every pattern (TSemSemAgg section 8; refutable patterns make Sem.v stuck when they fail) *)
  Theorem join_loop_node_gpat f g p bs join_ty a b body m ta na tb nb g1 tbody :
    enums_small P = true ->
    AgE' (S f) g a -> AgE' (S f) g b -> e_ty a = TArr ta na -> e_ty b = TArr tb nb ->
    (szn P join_ty <= szn P ta)%nat -> (szn P join_ty <= szn P tb)%nat ->
    gpat_ok P p (TTup [ta; tb]) bs -> ty_fits P (TTup [ta; tb]) ->
    AgSS P (VRa P) f (tbind_all ([] :: g) bs false) body unit_ty g1 tbody -> tl g1 = g ->
    (forall en xs en1 ys en2,
       Sem.eval (S f) P en a = Sem.Done (Sem.VArr xs, en1) -> Sem.eval (S f) P en1 b = Sem.Done (Sem.VArr ys, en2) ->
       asc_keys P join_ty ta xs /\ asc_keys P join_ty tb ys) ->
    AgS' (S (S f)) g g unit_ty (St (SJoinLoop p join_ty a b body) m).
  Proof.
    intros Hes IHa IHb Eta Etb Ja Jb Hp. apply (join_loop_node_gen f g p bs join_ty a b body m ta na tb nb g1 tbody); try assumption.
    intros v mw en E g0 fT c E' o o' HV Hfit Hrel Hrun.
    exact (gpat_agrees P Hes p _ bs Hp v mw en E g0 fT c E' o o' HV Hfit Hrel Hrun).
  Qed.
End Node.

Print Assumptions join_loop_node.
Print Assumptions join_loop_node_gpat.
Print Assumptions merged_items.
Print Assumptions join_windows_agree.

(* ================================================================ non-vacuity: both sides, run *)

Module JoinExamples.
  Definition m0 : meta := mkMeta 0 0 0 0.
  Definition u8 := TInt false 8.
  Definition el := TTup [u8; u8].
  Definition lit8 (n : N) : expr := Ex (ENumU n 8) m0 u8.
  Definition tupl (k p : N) : expr := Ex (ETupLit [lit8 k; lit8 p]) m0 el.
  Definition arr (l : list (N * N)) : expr :=
    Ex (EArrLit (map (fun kp => tupl (fst kp) (snd kp)) l)) m0 (TArr el (N.of_nat (length l))).
  Definition pid (x : N) : pattern := Pat (PId x) m0 u8.
  Definition jpat : pattern :=
    Pat (PTup [Pat (PTup [pid 11; pid 12]) m0 el; Pat (PTup [pid 13; pid 14]) m0 el]) m0 (TTup [el; el]).
  Definition st (s : stmt_inner) : stmt := St s m0.
  (* let mut s = 0; let mut t = 0;
     for ((k1, p1), (k2, p2)) in join(a, b) { s = s + p1; t = p2; }
     (s, t)            with elements (key, payload) : (u8, u8) and join key type u8 *)
  Definition body (la lb : list (N * N)) : list stmt :=
    [ st (SLetMut 1 (lit8 0)); st (SLetMut 2 (lit8 0));
      st (SJoinLoop jpat u8 (arr la) (arr lb)
            [st (SAssign 1 [] (Ex (EOp OAdd (Ex (EId 1) m0 u8) (Ex (EId 12) m0 u8)) m0 u8));
             st (SAssign 2 [] (Ex (EId 14) m0 u8))]);
      st (SExpr (Ex (ETupLit [Ex (EId 1) m0 u8; Ex (EId 2) m0 u8]) m0 el)) ].
  Definition P0 : program := mkProgram [] [] [] [] 0.
  Definition bit_run (la lb : list (N * N)) : option (list bool * pobs) :=
    match lower_block tops 30 P0 (body la lb) [[]] None with Ok ((w, _), o) => Some (w, o) | _ => None end.
  Definition sem_run (la lb : list (N * N)) : option Sem.value :=
    match Sem.exec_block 30 P0 (Sem.mkEnv [[]] false) (body la lb) with Sem.Done (v, _) => Some v | _ => None end.
  Definition enc2 (s t : Z) : list bool := enc 8 s ++ enc 8 t.

  (* both arrays strictly ascending; a has an element with key 0 (next to the three padding
     elements: 5 elements padded to 8) whose payload 7 is kept: s = 7 + 9, t = 2 on both sides *)
  Example join_sorted :
    bit_run [(0, 7); (3, 9)] [(0, 1); (2, 5); (3, 2)] = Some (enc2 16 2, None) /\
    sem_run [(0, 7); (3, 9)] [(0, 1); (2, 5); (3, 2)] = Some (Sem.VTup [Sem.VInt 16; Sem.VInt 2]).
  Proof. vm_compute. split; reflexivity. Qed.

  (* the precondition is needed: a not ascending -- the two sides differ *)
  Example join_unsorted_differs :
    bit_run [(3, 9); (0, 7)] [(0, 1); (2, 5); (3, 2)] = Some (enc2 1 7, None) /\
    sem_run [(3, 9); (0, 7)] [(0, 1); (2, 5); (3, 2)] = Some (Sem.VTup [Sem.VInt 16; Sem.VInt 1]).
  Proof. vm_compute. split; reflexivity. Qed.

  (* ... and STRICTLY: a key twice in a -- the two sides differ *)
  Example join_duplicate_key_differs :
    bit_run [(3, 9); (3, 7)] [(0, 1); (2, 5); (3, 2)] = Some (enc2 7 2, None) /\
    sem_run [(3, 9); (3, 7)] [(0, 1); (2, 5); (3, 2)] = Some (Sem.VTup [Sem.VInt 16; Sem.VInt 2]).
  Proof. vm_compute. split; reflexivity. Qed.
End JoinExamples.
