(* == and != ON AGGREGATES.

   Sem.v compares values structurally ([Sem.value_eqb]); the compiler compares the flattened
   wires (lower_binop: eq_acc over the zipped wires).  Under the value encoding [has_enc] the two
   agree: the encoding is a function of the value (the unused payload bits of an enum are
   zeros, the tag is the variant index) and it is injective on values of one type
   ([has_enc_eqb]; tags below 2^64: [enums_small]).  [lower_eq_bits] / [lower_ne_bits]: what
   lower_binop computes on two bit vectors of the same length, empty ones included. *)
From Coq Require Import Lia ZArith.
From GV Require Import Base.Util Lang.Ast Lang.Wt Lang.ValTy Gadgets.GadgetSpec Gadgets.Arith
  Panic.PanicRec Panic.PanicSem Compile.Lower Compile.TSem Compile.TSemArith1 Compile.TSemSemExpr
  Compile.ValEnc Compile.TSemSemAgg.
From GV Require Lang.Sem.
Local Open Scope N_scope.

(* ------------------------------------------------------------------ the lowering of == / != *)

Lemma extend_g_same (v : list bool) sg : extend_g tops v sg (length v) = Ok v.
Proof. destruct v as [|b r]; [reflexivity|]. unfold extend_g. now rewrite Nat.eqb_refl. Qed.

Lemma lower_eq_bits t tx ty_ (x y : list bool) m (o : pobs) : length x = length y ->
  lower_binop tops OEq t tx ty_ x y m o = Ok ([eq_s x y], o).
Proof.
  intro Hl. unfold lower_binop, m_extend. replace (Nat.max (length x) (length y)) with (length x) by lia.
  rewrite extend_g_same. unfold mbind at 1. unfold lift_res at 1. rewrite Hl, extend_g_same.
  unfold mbind at 1. unfold lift_res at 1. rewrite Nat.eqb_refl. unfold mbind. change (wT tops) with true. rewrite eq_acc_eq_s by exact Hl. reflexivity.
Qed.

Lemma lower_ne_bits t tx ty_ (x y : list bool) m (o : pobs) : length x = length y ->
  lower_binop tops ONe t tx ty_ x y m o = Ok ([negb (eq_s x y)], o).
Proof.
  intro Hl. unfold lower_binop, m_extend. replace (Nat.max (length x) (length y)) with (length x) by lia.
  rewrite extend_g_same. unfold mbind at 1. unfold lift_res at 1. rewrite Hl, extend_g_same.
  unfold mbind at 1. unfold lift_res at 1. rewrite Nat.eqb_refl. unfold mbind. change (wT tops) with true. rewrite eq_acc_eq_s by exact Hl. reflexivity.
Qed.

(* ------------------------------------------------------------------ values against encodings *)

Fixpoint vlist_eqb (xs ys : list Sem.value) : bool :=
  match xs, ys with
  | [], [] => true
  | x :: xr, y :: yr => Sem.value_eqb x y && vlist_eqb xr yr
  | _, _ => false
  end.

Lemma value_eqb_arr xs ys : Sem.value_eqb (Sem.VArr xs) (Sem.VArr ys) = vlist_eqb xs ys.
Proof. cbn [Sem.value_eqb]. revert ys. induction xs as [|x xr IH]; intros [|y yr]; cbn [vlist_eqb]; first [reflexivity|now rewrite IH]. Qed.

Lemma value_eqb_tup xs ys : Sem.value_eqb (Sem.VTup xs) (Sem.VTup ys) = vlist_eqb xs ys.
Proof. cbn [Sem.value_eqb]. revert ys. induction xs as [|x xr IH]; intros [|y yr]; cbn [vlist_eqb]; first [reflexivity|now rewrite IH]. Qed.

Lemma value_eqb_enum t1 xs t2 ys : Sem.value_eqb (Sem.VEnum t1 xs) (Sem.VEnum t2 ys) = (t1 =? t2) && vlist_eqb xs ys.
Proof.
  cbn [Sem.value_eqb].
  first [reflexivity
        |f_equal; revert ys; induction xs as [|x xr IH]; intros [|y yr]; cbn [vlist_eqb]; first [reflexivity|now rewrite IH]].
Qed.

Lemma app_inv_length {A} (a a' b b' : list A) : length a = length a' -> a ++ b = a' ++ b' -> a = a' /\ b = b'.
Proof.
  revert a'. induction a as [|x a IH]; intros [|x' a'] Hl H; cbn [length app] in *; try discriminate; [auto|].
  injection H as -> H. destruct (IH a' ltac:(lia) H) as [-> ->]. auto.
Qed.

Lemma enc_inj_range sg n z1 z2 : Sem.in_range sg n z1 = true -> Sem.in_range sg n z2 = true ->
  enc (N.to_nat n) z1 = enc (N.to_nat n) z2 -> z1 = z2.
Proof.
  intros H1 H2 He. destruct sg.
  - assert (1 <= n) as Hn.
    { destruct (N.eq_dec n 0) as [->|]; [|lia]. unfold Sem.in_range in H1. cbn in H1.
      apply andb_prop in H1. destruct H1 as [Ha Hb]. apply Z.leb_le in Ha. apply Z.ltb_lt in Hb. lia. }
    rewrite <- (sval_enc_ok n z1 Hn H1), <- (sval_enc_ok n z2 Hn H2). now rewrite He.
  - rewrite <- (uval_enc_ok n z1 H1), <- (uval_enc_ok n z2 H2). now rewrite He.
Qed.

Section EncEq.
  Variable P : program.
  Hypothesis Hsmall : enums_small P = true.

  Lemma has_enc_eqb_mut :
    (forall t v w, has_enc P t v w -> forall v2 w2, has_enc P t v2 w2 -> ty_fits P t ->
       (Sem.value_eqb v v2 = true <-> w = w2)) /\
    (forall ts vs w, has_encs P ts vs w -> forall vs2 w2, has_encs P ts vs2 w2 -> Forall (ty_fits P) ts ->
       (vlist_eqb vs vs2 = true <-> w = w2)).
  Proof.
    apply has_enc_mutind.
    - (* bool *) intros b v2 w2 H2 _. apply has_enc_inv in H2. destruct H2 as (b2 & -> & ->). cbn [Sem.value_eqb].
      destruct b, b2; cbn; split; congruence.
    - (* int *) intros sg n z Hr v2 w2 H2 _. apply has_enc_inv in H2. destruct H2 as (z2 & -> & Hr2 & ->).
      cbn [Sem.value_eqb]. split.
      + intro H. apply Z.eqb_eq in H. now subst.
      + intro H. apply Z.eqb_eq. eapply enc_inj_range; eassumption.
    - (* arrays *) intros el n vs w Hn _ IH v2 w2 H2 Hfit. apply has_enc_inv in H2.
      destruct H2 as (vs2 & -> & Hn2 & Hs2). rewrite value_eqb_arr.
      assert (length vs2 = length vs) as El by (unfold lenN in *; lia). rewrite El in Hs2.
      apply IH; [exact Hs2|]. apply Forall_repeat. eapply ty_fits_arr. exact Hfit.
    - (* tuples *) intros ts vs w _ IH v2 w2 H2 Hfit. apply has_enc_inv in H2. destruct H2 as (vs2 & -> & Hs2).
      rewrite value_eqb_tup. apply IH; [exact Hs2|]. now apply ty_fits_tup.
    - (* structs *) intros name def vs w Hd _ IH v2 w2 H2 Hfit. apply has_enc_inv in H2.
      destruct H2 as (def2 & vs2 & -> & Hd2 & Hs2). rewrite Hd in Hd2. injection Hd2 as <-.
      rewrite value_eqb_tup. apply IH; [exact Hs2|]. eapply ty_fits_struct_def; eassumption.
    - (* enums *) intros name variants tag ts vs pw Hd Ht Hs IH v2 w2 H2 Hfit. apply has_enc_inv in H2.
      destruct H2 as (variants2 & tag2 & ts2 & vs2 & pw2 & -> & Hd2 & Ht2 & Hs2 & ->).
      rewrite Hd in Hd2. injection Hd2 as <-. rewrite value_eqb_enum.
      pose proof (enums_small_variants P name variants Hsmall Hd) as Hsm.
      pose proof (ty_fits_enum_variant P name variants tag ts Hfit Hd Ht) as Hf1.
      pose proof (ty_fits_enum_variant P name variants tag2 ts2 Hfit Hd Ht2) as Hf2.
      split.
      + intro H. apply andb_prop in H. destruct H as [He Hl]. apply N.eqb_eq in He. subst tag2.
        rewrite Ht in Ht2. injection Ht2 as <-. f_equal. now apply (IH vs2 pw2 Hs2 Hf1).
      + intro H. unfold enum_bits in H. cbv zeta in H. rewrite <- !app_assoc in H.
        apply app_inv_length in H; [|now rewrite !length_enc]. destruct H as [Htag H].
        assert (tag = tag2) as <-.
        { pose proof (tag_eq_s variants tag tag2 ts ts2 Hsm Ht Ht2) as Hq. rewrite Htag in Hq.
          assert (eq_s (enc (enum_tag_size variants) (Z.of_N tag2)) (enc (enum_tag_size variants) (Z.of_N tag2)) = true)
            as Hr by (now apply eq_correct).
          rewrite Hr in Hq. symmetry in Hq. now apply N.eqb_eq in Hq. }
        rewrite Ht in Ht2. injection Ht2 as <-. rewrite N.eqb_refl. cbn [andb].
        apply app_inv_length in H.
        * destruct H as [Hp _]. now apply (IH vs2 pw2 Hs2 Hf1).
        * rewrite (has_encs_length_sum P ts vs pw Hs Hf1), (has_encs_length_sum P ts vs2 pw2 Hs2 Hf1). reflexivity.
    - (* nil *) intros vs2 w2 H2 _. inversion H2; subst. cbn [vlist_eqb]. split; reflexivity.
    - (* cons *) intros t v ts vs a b Ha IHa Hb IHb vs2 w2 H2 Hfit. inversion H2 as [|t' v2 ts' vs2' a2 b2 Ha2 Hb2]; subst.
      inversion Hfit as [|? ? Hft Hfts]; subst. cbn [vlist_eqb]. split.
      + intro H. apply andb_prop in H. destruct H as [H1 H3].
        rewrite (proj1 (IHa v2 a2 Ha2 Hft) H1), (proj1 (IHb vs2' b2 Hb2 Hfts) H3). reflexivity.
      + intro H. apply app_inv_length in H.
        * destruct H as [-> ->]. rewrite (proj2 (IHa v2 a2 Ha2 Hft) eq_refl), (proj2 (IHb vs2' b2 Hb2 Hfts) eq_refl). reflexivity.
        * rewrite (has_enc_length P t v a Ha Hft), (has_enc_length P t v2 a2 Ha2 Hft). reflexivity.
  Qed.

  (* structural equality of two values of one type is equality of their encodings *)
  Theorem has_enc_eqb t v1 v2 w1 w2 : has_enc P t v1 w1 -> has_enc P t v2 w2 -> ty_fits P t ->
    Sem.value_eqb v1 v2 = eq_s w1 w2.
  Proof.
    intros H1 H2 Hf. pose proof (proj1 has_enc_eqb_mut t v1 w1 H1 v2 w2 H2 Hf) as Hiff.
    destruct (eq_s w1 w2) eqn:E.
    - apply Hiff. now apply eq_correct.
    - apply Bool.not_true_is_false. intro E2. apply Hiff in E2. apply eq_correct in E2. congruence.
  Qed.
End EncEq.
Print Assumptions has_enc_eqb.
