(* Simulation of the statements / expressions / patterns of the generic lowering: each
   open-recursion piece preserves the simulation assumed for the recursive calls; the
   induction on fuel then ties the knot. *)
From GV Require Import Base.Util Base.NMap Lang.Ast Builder.Builder Builder.BuilderSem Builder.BuilderSpec
  Gadgets.Gadgets Gadgets.GadgetSpec Gadgets.GadgetHoare Sort.Sort Sort.SortHoare
  Panic.PanicRec Panic.PanicSem Panic.PanicProofs Compile.Lower Compile.TSem Compile.SimBase Compile.SimOps
  Compile.SimHelpers.

Section Rec.
Variable inv : builder -> Prop.
Hypothesis ops : builder_ops_sound inv.
Variable inp : list bool.

Notation Rw := (Rw inp).
Notation Rws := (Rws inp).
Notation Rwss := (Rwss inp).
Notation RP := (RP inp).
Notation RS := (RS inv inp).
Notation RE := (RE inp).
Notation sim := (sim inv inp).

Definition Rres (s : cst) (x : list N * @cenv N) (y : list bool * @cenv bool) : Prop :=
  Rws s (fst x) (fst y) /\ RE s (snd x) (snd y).
Definition RresP (s : cst) (x : N * @cenv N) (y : bool * @cenv bool) : Prop :=
  Rw s (fst x) (fst y) /\ RE s (snd x) (snd y).

Variable P : program.
Variable eA : expr -> @cenv N -> MA (list N * @cenv N).
Variable eB : expr -> @cenv bool -> MB (list bool * @cenv bool).
Variable pA : pattern -> list N -> @cenv N -> MA (N * @cenv N).
Variable pB : pattern -> list bool -> @cenv bool -> MB (bool * @cenv bool).
Variable sA : stmt -> @cenv N -> MA (list N * @cenv N).
Variable sB : stmt -> @cenv bool -> MB (list bool * @cenv bool).
Variable bA : list stmt -> @cenv N -> MA (list N * @cenv N).
Variable bB : list stmt -> @cenv bool -> MB (list bool * @cenv bool).

Hypothesis He : forall e s o E EB, RS s o -> RE s E EB -> sim s o (eA e E) (eB e EB) Rres.
Hypothesis Hp : forall p s o mw vmw E EB, RS s o -> Rws s mw vmw -> RE s E EB ->
  sim s o (pA p mw E) (pB p vmw EB) RresP.
Hypothesis Hs : forall st s o E EB, RS s o -> RE s E EB -> sim s o (sA st E) (sB st EB) Rres.
Hypothesis Hb : forall ss s o E EB, RS s o -> RE s E EB -> sim s o (bA ss E) (bB ss EB) Rres.

(* a recursive call whose result is a pair (wires, env) *)
Tactic Notation "scall" constr(H) "as" ident(w) ident(E1) ident(vw) ident(EB1) ident(Hw) ident(HE1) :=
  eapply sim_bind; [eapply H; eauto|];
  let p := fresh "pairA" in let q := fresh "pairB" in let HH := fresh "HpairAB" in
  snext as p q HH; destruct p as [w E1], q as [vw EB1]; unfold Rres, RresP in HH; cbn [fst snd] in HH;
  destruct HH as [Hw HE1].

Ltac slift lem := apply sim_lift; [assumption|]; intros ? ?; eapply lem; eauto.

Lemma sim_lower_list es : forall s o E EB, RS s o -> RE s E EB ->
  sim s o (lower_list eA es E) (lower_list eB es EB) (fun s' r v => Rwss s' (fst r) (fst v) /\ RE s' (snd r) (snd v)).
Proof.
  induction es as [|e es IH]; intros s o E EB HS HE; cbn [lower_list].
  - apply sim_ret; [assumption|]. split; [constructor|assumption].
  - scall He as w E1 vw EB1 Hw HE1.
    eapply sim_bind; [eapply IH; eauto|]. snext as p q HR. destruct p as [ws E2], q as [vws EB2].
    cbn [fst snd] in HR. destruct HR as [Hws HE2].
    apply sim_ret; [assumption|]. cbn [fst snd]. split; [constructor; assumption|assumption].
Qed.

Lemma sim_lower_struct_fields fields ds : forall s o E EB, RS s o -> RE s E EB ->
  sim s o (lower_struct_fields eA fields ds E) (lower_struct_fields eB fields ds EB)
    (fun s' r v => Rwss s' (fst r) (fst v) /\ RE s' (snd r) (snd v)).
Proof.
  induction ds as [|[fname fty] ds IH]; intros s o E EB HS HE; cbn [lower_struct_fields].
  - apply sim_ret; [assumption|]. split; [constructor|assumption].
  - destruct (assocN fname (rev fields)) as [fe|]; [|apply sim_crash].
    scall He as w E1 vw EB1 Hw HE1.
    eapply sim_bind; [eapply IH; eauto|]. snext as p q HR. destruct p as [ws E2], q as [vws EB2].
    cbn [fst snd] in HR. destruct HR as [Hws HE2].
    apply sim_ret; [assumption|]. cbn [fst snd]. split; [constructor; assumption|assumption].
Qed.

Lemma sim_env_pop s o E EB : RS s o -> RE s E EB ->
  sim s o (lift_res (env_pop E)) (lift_res (env_pop EB)) (fun s' r v => RE s' r v).
Proof. intros. slift rel_env_pop. Qed.

Lemma sim_lower_arms bits arms : forall s o sw vsw E0 EB0 P0 o0 hp vhp mret vmret mp vmp menv vmenv,
  RS s o -> Rws s sw vsw -> RE s E0 EB0 -> RP s P0 o0 -> Rw s hp vhp -> Rws s mret vmret -> RP s mp vmp ->
  RE s menv vmenv ->
  sim s o (lower_arms bops eA pA bits sw E0 P0 arms hp mret mp menv)
          (lower_arms tops eB pB bits vsw EB0 o0 arms vhp vmret vmp vmenv)
    (fun s' r v => Rws s' (fst (fst (fst r))) (fst (fst (fst v))) /\ RP s' (snd (fst (fst r))) (snd (fst (fst v)))
                   /\ RE s' (snd (fst r)) (snd (fst v))).
Proof.
  induction arms as [|[pat body] arms IH]; intros s o sw vsw E0 EB0 P0 o0 hp vhp mret vmret mp vmp menv vmenv
    HS Hsw HE0 HP0 Hhp Hmret Hmp Hmenv; cbn [lower_arms].
  - apply sim_ret; [assumption|]. cbn [fst snd]. auto.
  - unf. sbindn sim_replace as Pold oold Hold.
    eapply sim_bind; [eapply Hp; eauto; apply rel_env_push; assumption|].
    snext as p q HR. destruct p as [im E1], q as [vim EB1]. unfold RresP in HR. cbn [fst snd] in HR. destruct HR as [Him HE1].
    scall He as rw E2 vrw EB2 Hrw HE2.
    sbindn sim_not as np vnp Hnp. sbindn sim_and as sl vsl Hsl.
    sbindn sim_env_pop as E3 EB3 HE3. sbindn sim_peek as Pcur ocur Hcur.
    sbindn sim_mux_panic as mp' vmp' Hmp'. sbindn sim_mux_envs as menv' vmenv' Hmenv'.
    eapply sim_bind with (R := fun s' r v => Rws s' r v).
    { rewrite (Rws_length _ _ _ _ Hrw). destruct (_ <? _)%nat; [apply sim_crash|].
      eapply sim_map2_M; eauto; [apply F2_firstn; assumption|]. close_f. unf. eapply sim_mux; eauto. }
    snext as mret' vmret' Hmret'. sbindn sim_or as hp' vhp' Hhp'.
    eapply IH; eauto.
Qed.

Lemma sim_lower_args ps : forall args s o E EB, RS s o -> RE s E EB ->
  sim s o (lower_args eA ps args E) (lower_args eB ps args EB)
    (fun s' r v => Forall2 (Rbind inp s') (fst r) (fst v) /\ RE s' (snd r) (snd v)).
Proof.
  induction ps as [|[pn pt] ps IH]; intros args s o E EB HS HE; cbn [lower_args].
  - apply sim_ret; [assumption|]. split; [constructor|assumption].
  - destruct args as [|a args]; [apply sim_ret; [assumption|]; split; [constructor|assumption]|].
    eapply sim_bind; [eapply He; eauto; apply rel_env_push; assumption|].
    snext as p q HR. destruct p as [w Ea], q as [vw EBa]. unfold Rres in HR. cbn [fst snd] in HR. destruct HR as [Hw HEa].
    sbindn sim_env_pop as Eb EBb HEb.
    eapply sim_bind; [eapply IH; eauto|]. snext as p q HR. destruct p as [bs Ec], q as [vbs EBc].
    cbn [fst snd] in HR. destruct HR as [Hbs HEc].
    apply sim_ret; [assumption|]. cbn [fst snd]. split; [|assumption]. constructor; [split; auto|assumption].
Qed.

Lemma rel_bind_all s bs : forall vbs E EB y, Forall2 (Rbind inp s) bs vbs -> RE s E EB -> bind_all EB vbs = Ok y ->
  exists x, bind_all E bs = Ok x /\ RE s x y.
Proof.
  unfold bind_all.
  assert (G : forall vbs (rA : res (@cenv N)) (rB : res (@cenv bool)) y,
             Forall2 (Rbind inp s) bs vbs ->
             (forall yb, rB = Ok yb -> exists xa, rA = Ok xa /\ RE s xa yb) ->
             fold_left (fun Er b => let* E' := Er in env_let E' (fst b) (snd b)) vbs rB = Ok y ->
             exists x, fold_left (fun Er b => let* E' := Er in env_let E' (fst b) (snd b)) bs rA = Ok x /\ RE s x y).
  { induction bs as [|[k v] bs IH]; intros vbs rA rB y HF Hr E; inversion HF; subst; cbn [fold_left] in *.
    - apply Hr. exact E.
    - destruct y0 as [k' vv]. destruct H1 as [Hk Hv]. cbn [fst snd] in *. subst k'.
      eapply IH; [eassumption| |exact E].
      intros yb Eb. destruct rB as [eb| |]; cbn [bind] in Eb; try discriminate.
      destruct (Hr eb eq_refl) as (ea & -> & Hea). cbn [bind]. eapply rel_env_let; eauto. }
  intros vbs E EB y HF HE Ey. eapply G; eauto. intros yb [= <-]. eauto.
Qed.

Lemma sim_join_func_windows eba ebb jts ha ws : forall s o vws, RS s o -> Rwss s ws vws ->
  sim s o (join_func_windows bops eba ebb jts ha ws) (join_func_windows tops eba ebb jts ha vws) (fun s' r v => Rwss s' r v).
Proof.
  induction ws as [|w0_ ws IH]; intros s o vws HS Hw; inversion Hw; subst; cbn [join_func_windows].
  - apply sim_ret; [assumption|constructor].
  - match goal with H : Forall2 _ ws _ |- _ => destruct H as [|w1_ vw1 ws' vws' Hw1 Hws'] end;
      [apply sim_ret; [assumption|constructor]|].
    assert (Hrest : Rwss s (w1_ :: ws') (vw1 :: vws')) by (constructor; assumption).
    sbind2 sim_window_binding as je binding vje vbinding Hje Hbinding.
    eapply sim_bind with (R := fun s' r v => Rws s' r v).
    { destruct Hbinding as [|h vh tlb vtlb Hh Htl]; [apply sim_ret; [assumption|constructor]|].
      eapply sim_bind; [eapply sim_mapM_M; eauto|snext as tl' vtl' Htl'].
      { close_f. unf. eapply sim_mux; eauto. eapply Rw_wF; eauto. }
      apply sim_ret; [assumption|]. constructor; assumption. }
    snext as bd vbd Hbd. eapply sim_bind; [eapply IH; eauto|snext as rest vrest Hrst].
    apply sim_ret; [assumption|]. constructor; assumption.
Qed.

Lemma sim_lower_stmts ss : forall s o E EB, RS s o -> RE s E EB ->
  sim s o (lower_stmts sA ss E) (lower_stmts sB ss EB) (fun s' r v => RE s' r v).
Proof.
  induction ss as [|st ss IH]; intros s o E EB HS HE; cbn [lower_stmts].
  - apply sim_ret; assumption.
  - scall Hs as w E1 vw EB1 Hw HE1. eapply IH; eauto.
Qed.

Lemma sim_join_loop_windows pat body eba ebb jts ws : forall s o vws E EB, RS s o -> Rwss s ws vws -> RE s E EB ->
  sim s o (join_loop_windows bops pA sA pat body eba ebb jts ws E) (join_loop_windows tops pB sB pat body eba ebb jts vws EB)
    (fun s' r v => RE s' r v).
Proof.
  induction ws as [|w0_ ws IH]; intros s o vws E EB HS Hw HE; inversion Hw; subst; cbn [join_loop_windows].
  - apply sim_ret; assumption.
  - match goal with H : Forall2 _ ws _ |- _ => destruct H as [|w1_ vw1 ws' vws' Hw1 Hws'] end;
      [apply sim_ret; assumption|].
    assert (Hrest : Rwss s (w1_ :: ws') (vw1 :: vws')) by (constructor; assumption).
    sbind2 sim_window_binding as je binding vje vbinding Hje Hbinding.
    unf. sbindn sim_peek as Pb ob HPb.
    eapply sim_bind; [eapply Hp; eauto; apply rel_env_push; assumption|].
    snext as p q HR. destruct p as [im Ej], q as [vim EBj]. unfold RresP in HR. cbn [fst snd] in HR. destruct HR as [Him HEj].
    sbindn sim_lower_stmts as Ej2 EBj2 HEj2. sbindn sim_env_pop as Ej3 EBj3 HEj3.
    sbindn sim_replace as Pj oj HPj. sbindn sim_mux_envs as E' EB' HE'. sbindn sim_mux_panic as Pm om HPm.
    sbindn sim_replace as Pu ou HPu. eapply IH; eauto.
Qed.

Lemma sim_slice s o v vv a n : RS s o -> Rws s v vv ->
  sim s o (lift_res (slice v a n)) (lift_res (slice vv a n)) (fun s' r w => Rws s' r w).
Proof. intros. slift (@rel_slice N bool). Qed.

Lemma sim_for_iterations pat body eb n : forall s o aw vaw E EB, RS s o -> Rws s aw vaw -> RE s E EB ->
  sim s o (for_iterations pA sA pat body eb n aw E) (for_iterations pB sB pat body eb n vaw EB) (fun s' r v => RE s' r v).
Proof.
  induction n as [|n IH]; intros s o aw vaw E EB HS Ha HE; cbn [for_iterations]; [apply sim_ret; assumption|].
  destruct Ha as [|a va aw vaw Ha0 Har]; [apply sim_ret; assumption|].
  assert (Hfull : Rws s (a :: aw) (va :: vaw)) by (constructor; assumption).
  sbindn sim_slice as binding vbinding Hbinding.
  eapply sim_bind; [eapply Hp; eauto; apply rel_env_push; assumption|].
  snext as p q HR. destruct p as [im Ea], q as [vim EBa]. unfold RresP in HR. cbn [fst snd] in HR. destruct HR as [Him HEa].
  sbindn sim_lower_stmts as Eb EBb HEb. sbindn sim_env_pop as Ec EBc HEc.
  eapply IH; eauto. apply F2_skipn. assumption.
Qed.

(* ---- assignment through accessors *)

Definition Racc (s : cst) (a : @acc_item N) (b : @acc_item bool) : Prop :=
  match a, b with
  | (ba, xa, na, ia), (bb, xb, nb, ib) =>
      Rws s ba bb /\ xa = xb /\ na = nb /\
      match ia, ib with
      | Some wa, Some wb => Rws s wa wb
      | None, None => True
      | _, _ => False
      end
  end.

Lemma Racc_mono s s' a b : extS s s' -> ins_ok (cb s) inp -> Racc s a b -> Racc s' a b.
Proof.
  intros E Hi. destruct a as [[[ba xa] na] ia], b as [[[bb xb] nb] ib]. cbn. intros (H1 & H2 & H3 & H4).
  split; [eapply Rws_mono; eauto|]. split; [assumption|]. split; [assumption|].
  destruct ia, ib; auto. eapply Rws_mono; eauto.
Qed.

Lemma Raccs_mono s s' l l' : extS s s' -> ins_ok (cb s) inp -> Forall2 (Racc s) l l' -> Forall2 (Racc s') l l'.
Proof. intros E Hi. apply F2_impl'. intros. eapply Racc_mono; eauto. Qed.

Lemma sim_pure_eq {X} s o (r : res X) : RS s o ->
  sim s o (lift_res r) (lift_res r) (fun _ a b => a = b).
Proof. intro HS. apply sim_lift; [assumption|]. intros y E. eauto. Qed.

Lemma sim_assign_forward m accs : forall s o coll vcoll E EB acc vacc, RS s o -> Rws s coll vcoll -> RE s E EB ->
  Forall2 (Racc s) acc vacc ->
  sim s o (assign_forward bops P eA m accs coll E acc) (assign_forward tops P eB m accs vcoll EB vacc)
    (fun s' r v => Forall2 (Racc s') (fst r) (fst v) /\ RE s' (snd r) (snd v)).
Proof.
  induction accs as [|a accs IH]; intros s o coll vcoll E EB acc vacc HS Hc HE Hacc; cbn [assign_forward].
  - apply sim_ret; [assumption|]. split; assumption.
  - pose proof (RS_ins _ _ _ _ HS) as Hi0. destruct a as [arr_ty idx|tup_ty i|st_ty fld].
    + eapply sim_bind; [apply sim_pure_eq; assumption|]. intros s1 o1 p q He1 HS1 Hpq. cbn beta in Hpq. subst q. destruct p as [eb num].
      pose proof (Raccs_mono _ _ _ _ He1 Hi0 Hacc) as Hacc1. lift_to He1. clear HS Hacc Hi0.
      pose proof (RS_ins _ _ _ _ HS1) as Hi1.
      eapply sim_bind; [eapply He; eauto|]. intros s2 o2 [iw E1] [viw EB1] He2 HS2 [Hiw HE1]. cbn [fst snd] in Hiw, HE1.
      pose proof (Raccs_mono _ _ _ _ He2 Hi1 Hacc1) as Hacc2. lift_to He2. clear HS1 Hacc1 Hi1.
      pose proof (RS_ins _ _ _ _ HS2) as Hi2.
      eapply sim_bind; [eapply sim_array_read; eauto|].
      intros s3 o3 [coll' iw'] [vcoll' viw'] He3 HS3 [Hcoll' Hiw']. cbn [fst snd] in Hcoll', Hiw'.
      pose proof (Raccs_mono _ _ _ _ He3 Hi2 Hacc2) as Hacc3. lift_to He3. clear HS2 Hacc2 Hi2.
      eapply IH; eauto. constructor; [|assumption]. cbn. auto.
    + eapply sim_bind; [apply sim_pure_eq; assumption|]. intros s1 o1 p q He1 HS1 Hpq. cbn beta in Hpq. subst q. destruct p as [wb wi].
      pose proof (Raccs_mono _ _ _ _ He1 Hi0 Hacc) as Hacc1. lift_to He1. clear HS Hacc Hi0.
      pose proof (RS_ins _ _ _ _ HS1) as Hi1.
      eapply sim_bind; [eapply sim_slice; eauto|]. intros s2 o2 coll' vcoll' He2 HS2 Hcoll'. cbn beta in Hcoll'.
      pose proof (Raccs_mono _ _ _ _ He2 Hi1 Hacc1) as Hacc2. lift_to He2. clear HS1 Hacc1 Hi1.
      eapply IH; eauto. constructor; [|assumption]. cbn. auto.
    + eapply sim_bind; [apply sim_pure_eq; assumption|]. intros s1 o1 p q He1 HS1 Hpq. cbn beta in Hpq. subst q. destruct p as [wb wi].
      pose proof (Raccs_mono _ _ _ _ He1 Hi0 Hacc) as Hacc1. lift_to He1. clear HS Hacc Hi0.
      pose proof (RS_ins _ _ _ _ HS1) as Hi1.
      eapply sim_bind; [eapply sim_slice; eauto|]. intros s2 o2 coll' vcoll' He2 HS2 Hcoll'. cbn beta in Hcoll'.
      pose proof (Raccs_mono _ _ _ _ He2 Hi1 Hacc1) as Hacc2. lift_to He2. clear HS1 Hacc1 Hi1.
      eapply IH; eauto. constructor; [|assumption]. cbn. auto.
Qed.

Lemma sim_assign_backward m acc : forall s o vacc value vvalue, RS s o -> Forall2 (Racc s) acc vacc -> Rws s value vvalue ->
  sim s o (assign_backward bops m acc value) (assign_backward tops m vacc vvalue) (fun s' r v => Rws s' r v).
Proof.
  induction acc as [|a acc IH]; intros s o vacc value vvalue HS Hacc Hv; inversion Hacc; subst; cbn [assign_backward].
  - apply sim_ret; assumption.
  - pose proof (RS_ins _ _ _ _ HS) as Hi0.
    destruct a as [[[ba xa] na] ia], y as [[[bb xb] nb] ib].
    match goal with H : Racc _ _ _ |- _ => cbn in H; destruct H as (Hb1 & <- & <- & Hix) end.
    match goal with H : Forall2 (Racc s) acc _ |- _ => rename H into Hrest end.
    destruct ia as [iw|], ib as [viw|]; try contradiction.
    + eapply sim_bind; [eapply sim_array_write; eauto|]. intros s1 o1 v' vv' He1 HS1 Hv'. cbn beta in Hv'.
      pose proof (Raccs_mono _ _ _ _ He1 Hi0 Hrest) as Hrest1. eapply IH; eauto.
    + eapply sim_bind with (R := fun s' r v => Rws s' r v).
      { apply sim_lift; [assumption|]. intros y E. eapply rel_splice; eauto. }
      intros s1 o1 v' vv' He1 HS1 Hv'. cbn beta in Hv'.
      pose proof (Raccs_mono _ _ _ _ He1 Hi0 Hrest) as Hrest1. eapply IH; eauto.
Qed.

(* ---- patterns *)

Lemma sim_fields_match ps : forall s o mw vmw w im vim E EB, RS s o -> Rws s mw vmw -> Rw s im vim -> RE s E EB ->
  sim s o (fields_match bops pA mw ps w im E) (fields_match tops pB vmw ps w vim EB) RresP.
Proof.
  induction ps as [|[fp fbits] ps IH]; intros s o mw vmw w im vim E EB HS Hmw Him HE; cbn [fields_match].
  - apply sim_ret; [assumption|]. split; assumption.
  - sbindn sim_slice as sub vsub Hsub.
    eapply sim_bind; [eapply Hp; eauto|].
    snext as p q HR. destruct p as [fm E1], q as [vfm EB1]. unfold RresP in HR. cbn [fst snd] in HR. destruct HR as [Hfm HE1].
    unf. sbindn sim_and as im' vim' Him'. eapply IH; eauto.
Qed.

Lemma sim_struct_match fields ds : forall s o mw vmw w im vim E EB, RS s o -> Rws s mw vmw -> Rw s im vim -> RE s E EB ->
  sim s o (struct_match bops P pA mw fields ds w im E) (struct_match tops P pB vmw fields ds w vim EB) RresP.
Proof.
  induction ds as [|[fname fty] ds IH]; intros s o mw vmw w im vim E EB HS Hmw Him HE; cbn [struct_match].
  - apply sim_ret; [assumption|]. split; assumption.
  - destruct (assocN fname (rev fields)) as [fp|]; [|eapply IH; eauto].
    sbindn sim_slice as sub vsub Hsub.
    eapply sim_bind; [eapply Hp; eauto|].
    snext as p q HR. destruct p as [fm E1], q as [vfm EB1]. unfold RresP in HR. cbn [fst snd] in HR. destruct HR as [Hfm HE1].
    unf. sbindn sim_and as im' vim' Him'. eapply IH; eauto.
Qed.

Lemma sim_block_stmts ss : forall s o last vlast E EB, RS s o -> Rws s last vlast -> RE s E EB ->
  sim s o (block_stmts sA ss last E) (block_stmts sB ss vlast EB) Rres.
Proof.
  induction ss as [|st ss IH]; intros s o last vlast E EB HS Hl HE; cbn [block_stmts].
  - apply sim_ret; [assumption|]. split; assumption.
  - scall Hs as w E1 vw EB1 Hw HE1. eapply IH; eauto.
Qed.

End Rec.
