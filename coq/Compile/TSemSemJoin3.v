(* THE FOR-JOIN LOOP AS A NODE FOR [relQ] (the environment relation of Compile/TSemSemFullCall.v:
   phantom scopes, fixed global scope): Compile/TSemSemJoin.v's [join_windows_agree] and
   [join_loop_node_gen] replayed; everything about the merger ([merged_items], [WOK_sorted], ...)
   is used as it is.  The precondition is the one of TSemSemJoin.v: whenever the two operands
   evaluate to arrays, their join keys are STRICTLY ASCENDING. *)
From Coq Require Import Lia ZArith Permutation Sorting.Sorted.
From GV Require Import Base.Util Base.Bits Lang.Ast Lang.Wt Lang.ValTy Gadgets.Gadgets Gadgets.GadgetSpec
  Panic.PanicRec Panic.PanicSem Compile.Lower Compile.TSem Compile.TSemFacts Compile.TSemControl Compile.TSemArray
  Compile.TSemSemExpr Compile.ValEnc Compile.TSemSticky Compile.TSemSemStmt Compile.TSemSemCall Compile.TSemSemAgg
  Compile.JoinMerge Compile.TSemSemJoin Compile.TSemSemFull Compile.TSemSemFullCall.
From GV Require Lang.Sem.
Local Open Scope N_scope.

Section Join3.
  Variable P : program.
  Variable gsc : list (N * (ty * bool)).
  Variable sglob : list (N * Sem.value).
  Variable glob : @scope bool.
  Notation rel := (relQ (VRa P) gsc sglob glob).

  (* agreement of the loop pattern, under the scope pushed for the iteration *)
  Definition PA3 (ph : list bool) (p : pattern) (t : ty) (bs : list (N * ty)) : Prop :=
    forall v mw en E g fT c E' (o o' : pobs), has_enc P t v mw -> ty_fits P t -> rel (false :: ph) en E g ->
    lower_pattern tops fT P p mw E o = Ok ((c, E'), o') ->
    o' = o /\ SKP E E' /\ @pat_concl P gsc sglob glob ph g bs en E' c (Sem.pmatch P p v).

  Section Windows.
  Variables join_ty ta tb : ty.
  Notation jts := (szn P join_ty).
  Notation eba := (szn P ta).
  Notation ebb := (szn P tb).
  Hypothesis Fa : ty_fits P ta.
  Hypothesis Fb : ty_fits P tb.
  Hypothesis Ja : (jts <= eba)%nat.
  Hypothesis Jb : (jts <= ebb)%nat.
  Notation mkB := (mkb eba ebb jts).
  Notation iOk := (iok P ta tb).
  Notation avals := TSemSemJoin.avals.

  Lemma join_windows_agree3 ph f g p bs body g1 tbody ys :
    PA3 ph p (TTup [ta; tb]) bs -> ty_fits P (TTup [ta; tb]) ->
    AgSS3 P (VRa P) gsc sglob glob f (tbind_all ([] :: g) bs false) body unit_ty g1 tbody -> tl g1 = g ->
    forall M, Forall iOk M -> WOK P join_ty tb ys M ->
    forall en E fT E' o', rel ph en E g ->
    join_loop_windows tops (lower_pattern tops fT P) (lower_stmt tops fT P) p body eba ebb jts (map mkB M) E None
      = Ok (E', o') ->
    match sem_join P join_ty ta tb (S f) p body ys (avals M) en with
    | Sem.Done en' => o' = None /\ rel ph en' E' g
    | Sem.Panicked r m => o' = Some (pcode r m)
    | _ => True
    end.
  Proof.
    intros Hpa Ftup Hbody Htl M. induction M as [|h r IH]; intros OkM Hw en E fT E' o' Hrel Hrun.
    { cbn [map join_loop_windows] in Hrun. apply ret_inv in Hrun. destruct Hrun as [-> ->]. cbn. auto. }
    inversion OkM as [|h0 r0 Okh Okr]; subst h0 r0. cbn [WOK] in Hw. destruct Hw as [Hwh Hwr].
    pose proof (iok_ilen P join_ty ta tb Fa Fb Ja Jb h Okh) as Lh.
    assert (Jh : Sem.join_key P join_ty ta (ival h) = Some (kbits jts h) \/ itag h = true).
    { destruct (itag h) eqn:Th; [now right|left]. unfold iok in Okh. rewrite Th in Okh.
      exact (join_key_enc P join_ty ta _ _ Fa Okh). }
    destruct r as [|w r'].
    { (* the last entry: no window *)
      cbn [map join_loop_windows] in Hrun. apply ret_inv in Hrun. destruct Hrun as [-> ->].
      rewrite (avals_cons). destruct (itag h) eqn:Th; [cbn; auto|].
      destruct Jh as [Jh|Jh]; [|discriminate]. rewrite (sem_join_cons P join_ty ta tb), Jh, (Hwh eq_refl). cbn. auto. }
    inversion Okr as [|w0 r0 Okw Okr']; subst w0 r0.
    pose proof (iok_ilen P join_ty ta tb Fa Fb Ja Jb w Okw) as Lw.
    cbn [map join_loop_windows] in Hrun.
    minva Hrun as [je binding] o0 H0.
    rewrite (window_binding_items eba ebb jts h w None Lh Lw Ja Jb) in H0. injection H0 as <- <- <-.
    mprim Hrun.
    minva Hrun as [c Ej] o1 Hpat. minva Hrun as Ej2 ob Hb. minva Hrun as Ej3 oc Hc.
    apply lift_res_inv in Hc. destruct Hc as [Hpop ->]. mprim Hrun.
    minva Hrun as E'' od Hmux.
    (* the environment after the window has the keys of the one before *)
    assert (Hkeys : keys Ej3 = keys E).
    { eapply keys_push_pop; [|exact Hpop]. eapply SKP_trans; [exact (proj2 (lower_pattern_facts P fT _ _ _ _ _ _ _ Hpat))|].
      eapply skp_lower_stmts; [|exact Hb]. intros s E0 oo ww E0' oo' Hs. exact (proj1 (proj2 (proj2 (keys_all P fT))) s E0 oo ww E0' oo' Hs). }
    destruct (mux_envs_inv _ _ _ _ _ _ Hmux Hkeys (rel3_wf (VRa P) gsc sglob glob _ _ _ Hrel)) as [-> ->].
    mprim Hrun. mprim Hrun.
    rewrite (avals_cons).
    destruct (jbit jts h w) eqn:Ej'.
    - (* joined: the body runs on (x, y) *)
      destruct Hwh as (Th & Tw & Hpf). rewrite Th. destruct Jh as [Jh|Jh]; [|congruence].
      rewrite (sem_join_cons P join_ty ta tb), Jh, Hpf.
      unfold iok in Okh, Okw. rewrite Th in Okh. rewrite Tw in Okw.
      assert (Eb : firstn eba (rsz eba ebb (ienc h)) ++ firstn ebb (rsz eba ebb (ienc w)) = ienc h ++ ienc w).
      { destruct Lh as [Lh1 _]. destruct Lw as [Lw1 _]. rewrite Th in Lh1. rewrite Tw in Lw1.
        rewrite (firstn_rsz_full eba ebb (ienc h) eba Lh1), (firstn_rsz_full eba ebb (ienc w) ebb Lw1) by lia. reflexivity. }
      rewrite Eb in Hpat.
      assert (Henc : has_enc P (TTup [ta; tb]) (Sem.VTup [ival h; ival w]) (ienc h ++ ienc w)).
      { constructor. rewrite <- (app_nil_r (ienc w)). repeat constructor; assumption. }
      destruct (Hpa _ _ _ _ _ _ _ _ _ _ Henc Ftup (rel3_push (VRa P) gsc sglob glob _ _ _ Hrel) Hpat) as (-> & _ & Hpc).
      destruct (Sem.pmatch P p (Sem.VTup [ival h; ival w])) as [vbs|]; [|exact I].
      destruct Hpc as [_ Hrela]. rewrite exec_block_S.
      destruct (lower_stmts_block _ body [] _ _ _ _ Hb) as (wb & Hb').
      pose proof (stmts_node3 P (VRa P) gsc sglob glob f _ _ _ _ _ Hbody ph _ _ fT Sem.unit_val [] _ _ _ Hrela (VRa_unit P) Hb') as IH1.
      revert IH1. destruct (sem_stmts P f body Sem.unit_val (Sem.bind_all (Sem.push_scope en) vbs))
        as [[vb en1]|r1 m1|c1|]; intro IH1; cbn [Sem.obind]; try exact I.
      + destruct IH1 as (-> & _ & Hrel1).
        assert (Hrelc : rel ph (Sem.pop_scope en1) Ej3 g) by (rewrite <- Htl; eapply rel3_pop; [eassumption|eassumption|rewrite Htl; eapply relQ_len; exact Hrel]).
        exact (IH Okr Hwr _ _ fT _ _ Hrelc Hrun).
      + subst ob. exact (stkx_join_loop_windows (pcode r1 m1) _ _ (stk_pat P _ fT) (stk_stmt P _ fT) p body eba ebb jts
                 (map mkB (w :: r')) Ej3 E' o' Hrun).
    - (* not joined: nothing happens *)
      destruct (itag h) eqn:Th.
      + exact (IH Okr Hwr _ _ fT _ _ Hrel Hrun).
      + destruct Jh as [Jh|Jh]; [|discriminate]. rewrite (sem_join_cons P join_ty ta tb), Jh, (Hwh eq_refl).
        exact (IH Okr Hwr _ _ fT _ _ Hrel Hrun).
  Qed.
  End Windows.

  Notation AgE' := (AgE3 P (VRa P) gsc sglob glob).
  Notation AgS' := (AgS3 P (VRa P) gsc sglob glob).

  Theorem join_loop_node_gen3 f g p bs join_ty a b body m ta na tb nb g1 tbody :
    AgE' (S f) g a -> AgE' (S f) g b -> e_ty a = TArr ta na -> e_ty b = TArr tb nb ->
    (szn P join_ty <= szn P ta)%nat -> (szn P join_ty <= szn P tb)%nat ->
    (forall ph, PA3 ph p (TTup [ta; tb]) bs) -> ty_fits P (TTup [ta; tb]) ->
    AgSS3 P (VRa P) gsc sglob glob f (tbind_all ([] :: g) bs false) body unit_ty g1 tbody -> tl g1 = g ->
    (forall en xs en1 ys en2,
       Sem.eval (S f) P en a = Sem.Done (Sem.VArr xs, en1) -> Sem.eval (S f) P en1 b = Sem.Done (Sem.VArr ys, en2) ->
       asc_keys P join_ty ta xs /\ asc_keys P join_ty tb ys) ->
    AgS' (S (S f)) g g unit_ty (St (SJoinLoop p join_ty a b body) m).
  Proof.
    intros IHa IHb Eta Etb Ja Jb Hpa Ftup Hbody Htl Hasc ph en E fT w E' o' Hrel Hrun.
    destruct fT as [|fT]; [discriminate Hrun|].
    rewrite lower_stmt_S in Hrun. cbn [lower_stmt_body] in Hrun. rewrite Eta, Etb in Hrun. cbn [array_size] in Hrun.
    minva Hrun as [eba0 na0] o0 H0. apply lift_res_inv in H0. destruct H0 as [H0 ->]. injection H0 as <- <-.
    minva Hrun as [ebb0 nb0] o0 H0. apply lift_res_inv in H0. destruct H0 as [H0 ->]. injection H0 as <- <-.
    minva Hrun as [aw E1] o1 H1. minva Hrun as [bw E2] o2 H2.
    minva Hrun as [bitonic num_empty] o3 H3. apply lift_res_inv in H3. destruct H3 as [H3 ->].
    minva Hrun as sorted o4 H4. minva Hrun as E3 o5 H5.
    apply ret_inv in Hrun. destruct Hrun as [Heq ->]. injection Heq as -> ->.
    rewrite sem_exec_join, Eta, Etb. cbn [Sem.elem_ty_of].
    pose proof (IHa (false :: ph) en E fT _ _ _ Hrel H1) as IH1. revert IH1.
    pose proof (Hasc en) as Hasc1.
    destruct (Sem.eval (S f) P en a) as [[va en1]|r1 m1|c1|]; intro IH1; cbn [Sem.obind]; try exact I.
    2:{ (* a panicked *)
        subst o1. apply (sticky_e P) in H2. subst o2.
        cbn [o_merger tops] in H4. destruct (elems_shape _ _); [|discriminate]. injection H4 as _ <-.
        exact (stkx_join_loop_windows _ _ _ (stk_pat P _ fT) (stk_stmt P _ fT) p body _ _ _ _ _ _ _ H5). }
    destruct IH1 as (-> & [HVa Hfa] & Hrel1). rewrite Eta in HVa, Hfa.
    pose proof (IHb (false :: ph) en1 E1 fT _ _ _ Hrel1 H2) as IH2. revert IH2.
    destruct (Sem.eval (S f) P en1 b) as [[vb en2]|r2 m2|c2|] eqn:Evb; intro IH2; cbn [Sem.obind]; try exact I.
    2:{ (* b panicked *)
        subst o2. cbn [o_merger tops] in H4. destruct (elems_shape _ _); [|discriminate]. injection H4 as _ <-.
        exact (stkx_join_loop_windows _ _ _ (stk_pat P _ fT) (stk_stmt P _ fT) p body _ _ _ _ _ _ _ H5). }
    destruct IH2 as (-> & [HVb Hfb] & Hrel2). rewrite Etb in HVb, Hfb.
    pose proof HVa as HVa'. apply has_enc_inv in HVa' as (xs & -> & _ & _).
    pose proof HVb as HVb'. apply has_enc_inv in HVb' as (ys & -> & _ & _).
    destruct (has_enc_array_elems P ta na xs aw HVa Hfa) as (ea & -> & Hxa & _ & Hla & _).
    destruct (has_enc_array_elems P tb nb ys bw HVb Hfb) as (eb & -> & Hyb & _ & Hlb & _).
    rewrite <- Hla, <- Hlb in H3.
    destruct (Hasc1 xs en1 ys en2 eq_refl Evb) as [Sx Sy].
    pose proof (ty_fits_arr P ta na Hfa) as Fa. pose proof (ty_fits_arr P tb nb Hfb) as Fb.
    destruct (merged_items P join_ty ta tb Fa Fb Ja Jb xs ys ea eb None bitonic num_empty sorted o4 Hxa Hyb Sx Sy H3 H4)
      as (-> & M & EM & PM & SM & EA).
    rewrite EM in H5.
    assert (OkM : Forall (iok P ta tb) M).
    { apply Forall_forall. intros it Hit. apply (Permutation_in _ (Permutation_sym PM)) in Hit. apply in_app_or in Hit.
      destruct Hit as [Hit|Hit].
      - exact (proj1 (Forall_forall _ _) (items_iok P ta tb false xs ea Hxa) it Hit).
      - exact (proj1 (Forall_forall _ _) (items_iok P ta tb true ys eb Hyb) it Hit). }
    pose proof (WOK_sorted P join_ty ta tb Fa Fb Ja Jb xs ys ea eb M Hxa Hyb Sy PM SM) as HW.
    pose proof (join_windows_agree3 join_ty ta tb Fa Fb Ja Jb (false :: ph) f g p bs body g1 tbody ys (Hpa (false :: ph)) Ftup Hbody Htl M OkM HW
                  en2 E2 fT _ _ Hrel2 H5) as IH3.
    assert (Eav : avals M = xs).
    { unfold avals. rewrite EA. apply (items_vals P join_ty ta tb Ja Jb). exact (F2_length _ _ _ Hxa). }
    rewrite Eav in IH3. revert IH3.
    destruct (sem_join P join_ty ta tb (S f) p body ys xs en2) as [en3|r3 m3|c3|]; intro IH3; cbn [Sem.obind];
      try exact I; [|exact IH3].
    destruct IH3 as (-> & Hrel3). split; [reflexivity|]. split; [exact (VRa_unit P)|exact Hrel3].
  Qed.

  (* every pattern of the full fragment ([gpat_ok]) *)
  Theorem join_loop_node_gpat3 f g p bs join_ty a b body m ta na tb nb g1 tbody :
    enums_small P = true ->
    AgE' (S f) g a -> AgE' (S f) g b -> e_ty a = TArr ta na -> e_ty b = TArr tb nb ->
    (szn P join_ty <= szn P ta)%nat -> (szn P join_ty <= szn P tb)%nat ->
    gpat_ok P p (TTup [ta; tb]) bs -> ty_fits P (TTup [ta; tb]) ->
    AgSS3 P (VRa P) gsc sglob glob f (tbind_all ([] :: g) bs false) body unit_ty g1 tbody -> tl g1 = g ->
    (forall en xs en1 ys en2,
       Sem.eval (S f) P en a = Sem.Done (Sem.VArr xs, en1) -> Sem.eval (S f) P en1 b = Sem.Done (Sem.VArr ys, en2) ->
       asc_keys P join_ty ta xs /\ asc_keys P join_ty tb ys) ->
    AgS' (S (S f)) g g unit_ty (St (SJoinLoop p join_ty a b body) m).
  Proof.
    intros Hes IHa IHb Eta Etb Ja Jb Hp. apply (join_loop_node_gen3 f g p bs join_ty a b body m ta na tb nb g1 tbody); try assumption.
    intros ph v mw en E g0 fT c E' o o' HV Hfit Hrel Hrun.
    eapply (gpat_agrees P Hes gsc sglob glob); eassumption.
  Qed.
End Join3.
Print Assumptions join_loop_node_gpat3.
