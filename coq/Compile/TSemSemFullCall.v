(* CALLS (and, prepared, GLOBAL CONSTANTS) IN THE FULL FRAGMENT.

   The environment relation of this file, [relQ], is [relP] of Compile/TSemSemCall.v (phantom
   empty scopes of the bit-level environment: the scopes in which call arguments are compiled)
   together with a FRAME: the outermost scopes of the source environment, of the bit-level
   environment and of the typing context are three FIXED scopes [sglob], [glob], [gsc] (the
   global constants), related by [scope_rel] and immutable.  Every node lemma preserves the
   frame (an assignment needs a mutable target, which the outermost scope does not offer), so
   a callee returns with the outermost scope it was given: the caller's.

   Part 1 (Section Control3) is again for an arbitrary value relation VR: the nodes of
   TSemSemStmt.v / TSemSemCall.v replayed for [relQ].

   PRODUCTS WITH A LITERAL OPERAND ([scf2_op]): the two nodes of Compile/TSemSemMul.v are replayed
   for [relQ] at the end of Section ScalarG3 ([mul_lit_node3], [mul_plain_node3], [mul_lit_node_b3]);
   the checker accepts `x * c` / `c * x` when the repeated-addition rewrite does not fire
   (an ordinary checked product) or when [mul_node_ok] holds.

   == / != ON VALUES OF ANY ONE TYPE ([scf2_op], [agg_eq_node]): tuples, arrays, structs, enums;
   Sem.v compares the values, the compiler the flattened wires; they agree under the value
   encoding (Compile/TSemSemEq.v: [has_enc_eqb]).  [SanityAggEq]: on non-canonical inputs they differ.

   ARRAYS OF ZERO-SIZED ELEMENTS: [idx_node] / [acc_ok] no longer ask for elements of at least one
   bit (Compile/TSemArrayZ.v: the three array theorems for every element size); [SanityZeroSized]. *)
From Coq Require Import Lia ZArith.
From GV Require Import Base.Util Base.Bits Base.BitsProofs Lang.Ast Lang.Wt Lang.ValTy Lang.WtShape
  Gadgets.Gadgets Gadgets.GadgetSpec Gadgets.Arith Gadgets.Extend Gadgets.ExtendProofs
  Panic.PanicRec Panic.PanicSem Compile.Lower Compile.TSem Compile.TSemFacts Compile.TSemArith1
  Compile.TSemArith2 Compile.TSemControl Compile.TSemArray Compile.TSemSemExpr Compile.ValEnc
  Compile.TSemSticky Compile.TSemSemStmt Compile.TSemSemMul Compile.TSemSemCall Compile.TSemSemAgg
  Compile.TSemSemEq Compile.TSemArrayZ Compile.TSemSemFull.
From GV Require Lang.Sem.
Local Open Scope N_scope.

Lemma last_cons_ne' {A} (a : A) l d : l <> [] -> last (a :: l) d = last l d.
Proof. destruct l; [congruence|reflexivity]. Qed.

Lemma assocN_in {A} x (l : list (N * A)) v : assocN x l = Some v -> In (x, v) l.
Proof.
  induction l as [|[k w] l IH]; cbn [assocN]; [discriminate|].
  destruct (N.eqb_spec x k) as [->|]; [intros [= ->]; now left|]. intro H. right. now apply IH.
Qed.

Lemma assign_scopes_ne ss x v ss' : Sem.assign_scopes ss x v = Some ss' -> ss <> [] -> ss' <> [].
Proof.
  destruct ss as [|s r]; [congruence|]. cbn [Sem.assign_scopes]. intros H _.
  destruct (Sem.update_assoc s x v); [injection H as <-; discriminate|].
  destruct (Sem.assign_scopes r x v); [injection H as <-; discriminate|discriminate H].
Qed.

Lemma env_assign_ne (E : @cenv bool) x w E' : env_assign E x w = Ok E' -> E <> [] -> E' <> [].
Proof.
  destruct E as [|s r]; [congruence|]. cbn [env_assign]. intros H _.
  destruct (scope_replace s x w); [injection H as <-; discriminate|].
  destruct (env_assign r x w); cbn [bind] in H; try discriminate H. injection H as <-. discriminate.
Qed.

Section Control3.
  Variable P : program.
  Variable VR : ty -> Sem.value -> list bool -> Prop.
  Hypothesis VR_bool : forall v w, VR TBool v w -> exists b, v = Sem.VBool b /\ w = [b].
  Hypothesis VR_unit : VR unit_ty Sem.unit_val [].

  (* the three fixed outermost scopes *)
  Variable gsc : list (N * (ty * bool)).
  Variable sglob : list (N * Sem.value).
  Variable glob : @scope bool.
  Hypothesis Hglob : scope_rel VR sglob glob gsc.
  Hypothesis Himm : forall b, In b gsc -> snd (snd b) = false.

  Notation relP := (relP VR).
  Notation relS := (relS VR).

  Definition relQ (ph : list bool) (en : Sem.env) (E : @cenv bool) (g : tenv) : Prop :=
    relP ph en E g /\ last (Sem.scopes en) [] = sglob /\ last E [] = glob /\ last g [] = gsc /\
    (2 <= length g)%nat.

  Lemma relQ_P ph en E g : relQ ph en E g -> relP ph en E g.
  Proof. now intros [H _]. Qed.

  Lemma relQ_len ph en E g : relQ ph en E g -> (2 <= length g)%nat.
  Proof. now intros (_ & _ & _ & _ & H). Qed.

  Lemma relS_ne ph ss E g : relS ph ss E g -> g <> [] -> ss <> [] /\ E <> [].
  Proof.
    induction 1 as [|ph s cs gs ss E g _ _ _|ph ss E g _ IH]; intro Hg; [congruence| |].
    - split; discriminate.
    - destruct (IH Hg) as [H1 _]. split; [exact H1|discriminate].
  Qed.

  Lemma relS_len_E ph ss E g : relS ph ss E g -> length E = length ph.
  Proof. induction 1; cbn [length]; congruence. Qed.

  Lemma len2_ne (g : tenv) : (2 <= length g)%nat -> g <> [].
  Proof. destruct g; cbn [length]; [lia|discriminate]. Qed.

  Lemma len2_tl_ne (g : tenv) : (2 <= length g)%nat -> tl g <> [].
  Proof. destruct g as [|a [|b r]]; cbn [length tl]; try lia; discriminate. Qed.

  Lemma rel3_wf {ph} en E g : relQ ph en E g -> wf_env E.
  Proof. intro H. exact (rel2_wf VR _ _ _ (relQ_P _ _ _ _ H)). Qed.

  Lemma rel3_scopes {ph} en en' E g : Sem.scopes en' = Sem.scopes en -> relQ ph en E g -> relQ ph en' E g.
  Proof.
    intros Hs (H1 & H2 & H3 & H4 & H5). split; [eapply rel2_scopes; eassumption|]. rewrite Hs. auto.
  Qed.

  Lemma rel3_lookup {ph} en E g x t mu : relQ ph en E g -> tlookup g x = Some (t, mu) ->
    exists v w, Sem.lookup_var en x = Some v /\ env_get E x = Some w /\ VR t v w.
  Proof. intro H. exact (rel2_lookup VR _ _ _ x t mu (relQ_P _ _ _ _ H)). Qed.

  Lemma rel3_push {ph} en E g : relQ ph en E g ->
    relQ (false :: ph) (Sem.push_scope en) (env_push E) ([] :: g).
  Proof.
    intros (H1 & H2 & H3 & H4 & H5). destruct (relS_ne _ _ _ _ H1 (len2_ne _ H5)) as [Hs HE].
    split; [now apply rel2_push|]. unfold Sem.push_scope, env_push. cbn [Sem.scopes].
    rewrite !last_cons_ne' by (assumption || now apply len2_ne). cbn [length]. repeat split; try assumption. lia.
  Qed.

  Lemma rel3_pop {ph} en E g E2 : relQ (false :: ph) en E g -> env_pop E = Ok E2 ->
    (2 <= length (tl g))%nat -> relQ ph (Sem.pop_scope en) E2 (tl g).
  Proof.
    intros (H1 & H2 & H3 & H4 & H5) Hp Hl. pose proof (rel2_pop VR _ _ _ _ H1 Hp) as Hr.
    split; [exact Hr|]. unfold TSemSemCall.relP in H1. cbn [Sem.pop_scope Sem.scopes].
    remember (Sem.scopes en) as ss0 eqn:Ess. revert H2 H3 H4.
    inversion H1 as [|? s cs gs ss E0 g0 Hsr Hr0|]; subst. intros H2 H3 H4. cbn [env_pop] in Hp. injection Hp as <-.
    cbn [tl] in *. destruct (relS_ne _ _ _ _ Hr0 (len2_ne _ Hl)) as [Hs HE].
    rewrite last_cons_ne' in H2 by assumption. rewrite last_cons_ne' in H3 by assumption.
    rewrite last_cons_ne' in H4 by (now apply len2_ne). auto.
  Qed.

  Lemma rel3_phantom {ph} en E g : relQ ph en E g -> relQ (true :: ph) en (env_push E) g.
  Proof.
    intros (H1 & H2 & H3 & H4 & H5). destruct (relS_ne _ _ _ _ H1 (len2_ne _ H5)) as [Hs HE].
    split; [now apply rel2_phantom|]. unfold env_push. rewrite last_cons_ne' by assumption. auto.
  Qed.

  Lemma rel3_unphantom {ph} en E g E2 : relQ (true :: ph) en E g -> env_pop E = Ok E2 -> relQ ph en E2 g.
  Proof.
    intros (H1 & H2 & H3 & H4 & H5) Hp. pose proof (rel2_unphantom VR _ _ _ _ H1 Hp) as Hr.
    split; [exact Hr|]. destruct (relS_ne _ _ _ _ Hr (len2_ne _ H5)) as [Hs HE].
    destruct E as [|c0 E0]; [discriminate Hp|]. cbn [env_pop] in Hp. injection Hp as <-.
    rewrite last_cons_ne' in H3 by assumption. auto.
  Qed.

  Lemma rel3_let {ph} en E g x t mu v w E' : relQ (false :: ph) en E g -> VR t v w -> env_let E x w = Ok E' ->
    relQ (false :: ph) (Sem.bind_var en x v) E' (tbind g x t mu).
  Proof.
    intros (H1 & H2 & H3 & H4 & H5) HV Hl. pose proof (rel2_let VR _ _ _ x t mu v w _ H1 HV Hl) as Hr.
    split; [exact Hr|]. unfold TSemSemCall.relP in H1. unfold Sem.bind_var.
    remember (Sem.scopes en) as ss0 eqn:Ess. revert H2 H3 H4.
    inversion H1 as [|? s cs gs ss E0 g0 Hsr Hr0|]; subst. intros H2 H3 H4. cbn [env_let] in Hl. injection Hl as <-.
    cbn [length] in H5. assert (g0 <> []) as Hg0 by (destruct g0; cbn [length] in H5; [lia|discriminate]).
    destruct (relS_ne _ _ _ _ Hr0 Hg0) as [Hs HE]. cbn [Sem.scopes tbind length].
    rewrite last_cons_ne' in H2 by assumption. rewrite last_cons_ne' in H3 by assumption.
    rewrite last_cons_ne' in H4 by assumption.
    rewrite !last_cons_ne' by assumption. auto.
  Qed.

  (* an assignment to a mutable variable leaves the outermost scopes alone *)
  Lemma assign_last ph ss E g : relS ph ss E g ->
    forall x t v w ss' E', tlookup g x = Some (t, true) ->
    (forall b, In b (last g []) -> snd (snd b) = false) ->
    Sem.assign_scopes ss x v = Some ss' -> env_assign E x w = Ok E' ->
    last ss' [] = last ss [] /\ last E' [] = last E [].
  Proof.
    induction 1 as [|ph s cs gs ss E g [Hso Hs] Hr IH|ph ss E g Hr IH]; intros x t v w ss' E' Hl Hi Ha He;
      cbn [tlookup] in Hl; try discriminate Hl.
    - cbn [Sem.assign_scopes env_assign] in Ha, He. pose proof (Hs x) as Hx.
      destruct (assocN x gs) as [[t' mu']|] eqn:Eg.
      + injection Hl as -> ->. destruct Hx as (v0 & w0 & Hv0 & Hw0 & _).
        destruct (update_assoc_some s x v v0 Hv0) as (s' & Hs' & _). rewrite Hs' in Ha. injection Ha as <-.
        destruct (scope_replace_some cs x w w0 Hw0) as (cs' & Hcs'). rewrite Hcs' in He. injection He as <-.
        destruct g as [|g1 g'].
        * exfalso. cbn [last] in Hi. apply assocN_in in Eg. specialize (Hi _ Eg). discriminate Hi.
        * destruct (relS_ne _ _ _ _ Hr ltac:(discriminate)) as [Hne1 Hne2].
          now rewrite !last_cons_ne' by assumption.
      + destruct Hx as [Hsn Hcn]. rewrite (update_assoc_none s x v Hsn) in Ha.
        rewrite (scope_replace_none' cs x w Hcn) in He.
        destruct (Sem.assign_scopes ss x v) as [r1|] eqn:E1; [|discriminate Ha]. injection Ha as <-.
        destruct (env_assign E x w) as [r2| |] eqn:E2; cbn [bind] in He; try discriminate He. injection He as <-.
        assert (g <> []) as Hg by (destruct g; [discriminate Hl|discriminate]).
        destruct (relS_ne _ _ _ _ Hr Hg) as [Hne1 Hne2].
        rewrite last_cons_ne' in Hi by exact Hg.
        destruct (IH x t v w r1 r2 Hl Hi E1 E2) as [H1 H2].
        rewrite !last_cons_ne' by (assumption || (eapply assign_scopes_ne; eassumption) || (eapply env_assign_ne; eassumption)).
        auto.
    - cbn [env_assign scope_replace] in He.
      destruct (env_assign E x w) as [r2| |] eqn:E2; cbn [bind] in He; try discriminate He. injection He as <-.
      assert (g <> []) as Hg by (destruct g; [discriminate Hl|discriminate]).
      destruct (relS_ne _ _ _ _ Hr Hg) as [Hne1 Hne2].
      destruct (IH x t v w ss' r2 Hl Hi Ha E2) as [H1 H2]. split; [exact H1|].
      rewrite !last_cons_ne' by (assumption || (eapply env_assign_ne; eassumption)). exact H2.
  Qed.

  Lemma rel3_assign {ph} en E g x t v w E' : relQ ph en E g -> tlookup g x = Some (t, true) -> VR t v w ->
    env_assign E x w = Ok E' ->
    exists en', Sem.assign_var en x v = Some en' /\ relQ ph en' E' g.
  Proof.
    intros (H1 & H2 & H3 & H4 & H5) Hl HV Ha.
    destruct (rel2_assign VR _ _ _ x t true v w _ H1 Hl HV Ha) as (en' & Hen' & Hr).
    exists en'. split; [exact Hen'|]. split; [exact Hr|].
    unfold Sem.assign_var in Hen'. destruct (Sem.assign_scopes (Sem.scopes en) x v) as [ss'|] eqn:Es; [|discriminate Hen'].
    injection Hen' as <-. cbn [Sem.scopes].
    assert (Hi : forall b, In b (last g []) -> snd (snd b) = false) by (rewrite H4; exact Himm).
    destruct (assign_last _ _ _ _ H1 x t v w ss' E' Hl Hi Es Ha) as [Q1 Q2].
    rewrite Q1, Q2. auto.
  Qed.

  (* ---------------------------------------------------------------- the agreement predicates and the
     node lemmas of TSemSemStmt.v, for the relation with phantom scopes *)

  Definition AgE3 (fuel : nat) (g : tenv) (e : expr) : Prop :=
    forall ph en E fT w E' o',
    relQ ph en E g -> lower_expr tops fT P e E None = Ok ((w, E'), o') ->
    match Sem.eval fuel P en e with
    | Sem.Done (v, en') => o' = None /\ VR (e_ty e) v w /\ relQ ph en' E' g
    | Sem.Panicked r m => o' = Some (pcode r m)
    | _ => True
    end.

  (* a statement: [g'] the context after it, [t] its type *)
  Definition AgS3 (fuel : nat) (g g' : tenv) (t : ty) (s : stmt) : Prop :=
    forall ph en E fT w E' o',
    relQ (false :: ph) en E g -> lower_stmt tops fT P s E None = Ok ((w, E'), o') ->
    match Sem.exec fuel P en s with
    | Sem.Done (v, en') => o' = None /\ VR t v w /\ relQ (false :: ph) en' E' g'
    | Sem.Panicked r m => o' = Some (pcode r m)
    | _ => True
    end.


  Lemma if_node3 f g c a b m t :
    AgE3 f g c -> AgE3 f g a -> AgE3 f g b -> KP P a -> KP P b ->
    e_ty c = TBool -> e_ty a = t -> e_ty b = t ->
    AgE3 (S f) g (Ex (EIf c a b) m t).
  Proof.
    intros IHc IHa IHb Ka Kb Etc Eta Etb ph en E fT w E' o' Hrel Hrun.
    destruct fT as [|fT]; [discriminate Hrun|]. rewrite lower_expr_S in Hrun.
    apply if_run_inv in Hrun.
    destruct Hrun as (cb & E0 & o0 & tw & ET & oT & fw & EF & oF & oM & Hc & Ha & Hb & Hmux & -> & ->).
    rewrite sem_eval_if. pose proof (IHc ph en E fT _ _ _ Hrel Hc) as IH1. revert IH1.
    destruct (Sem.eval f P en c) as [[vc en1]|r1 m1|c1|]; intro IH1; cbn [Sem.obind]; try exact I.
    - destruct IH1 as (-> & HV & Hrel1). rewrite Etc in HV. destruct (VR_bool _ _ HV) as (cb' & -> & [= <-]).
      pose proof (rel3_wf _ _ _ Hrel1) as Hwf0.
      pose proof (Ka _ _ _ _ _ _ Ha) as Hka. pose proof (Kb _ _ _ _ _ _ Hb) as Hkb.
      apply mux_envs_inv in Hmux; [|congruence|now apply (wf_env_keys E0)]. destruct Hmux as [-> _].
      destruct cb.
      + pose proof (IHa ph en1 E0 fT _ _ _ Hrel1 Ha) as IH2. revert IH2.
        destruct (Sem.eval f P en1 a) as [[va en2]|r2 m2|c2|]; intro IH2; try exact I; [|exact IH2].
        cbn [e_ty]. rewrite Eta in IH2. exact IH2.
      + pose proof (IHb ph en1 E0 fT _ _ _ Hrel1 Hb) as IH2. revert IH2.
        destruct (Sem.eval f P en1 b) as [[vb en2]|r2 m2|c2|]; intro IH2; try exact I; [|exact IH2].
        cbn [e_ty]. rewrite Etb in IH2. exact IH2.
    - subst o0. rewrite (sticky_e P _ _ _ _ _ _ _ Ha), (sticky_e P _ _ _ _ _ _ _ Hb). now destruct cb.
  Qed.


  Lemma logic_node3 f g (land : bool) x y m :
    AgE3 f g x -> AgE3 f g y -> KP P y -> e_ty x = TBool -> e_ty y = TBool ->
    AgE3 (S f) g (Ex (EOp (if land then OLAnd else OLOr) x y) m TBool).
  Proof.
    intros IHx IHy Ky Etx Ety ph en E fT w E' o' Hrel Hrun.
    destruct fT as [|fT]; [discriminate Hrun|]. rewrite lower_expr_S in Hrun.
    apply logic_run_inv in Hrun.
    destruct Hrun as (bx & E1 & o1 & by_ & E2 & o2 & oM & Hx & Hy & Hmux & -> & ->).
    assert (Sem.eval (S f) P en (Ex (EOp (if land then OLAnd else OLOr) x y) m TBool) =
            Sem.obind (Sem.eval f P en x) (fun '(vx, en1) =>
              match vx with
              | Sem.VBool bx =>
                  if Bool.eqb bx land then Sem.eval f P en1 y else Sem.Done (Sem.VBool bx, en1)
              | _ => Sem.Stuck (if land then 44 else 45)
              end)) as ->.
    { destruct land; [rewrite sem_eval_land|rewrite sem_eval_lor];
        destruct (Sem.eval f P en x) as [[[[]| | | |] ?]| | |]; reflexivity. }
    pose proof (IHx ph en E fT _ _ _ Hrel Hx) as IH1. revert IH1.
    destruct (Sem.eval f P en x) as [[vx en1]|r1 m1|c1|]; intro IH1; cbn [Sem.obind]; try exact I.
    - destruct IH1 as (-> & HV & Hrel1). rewrite Etx in HV.
      destruct (VR_bool _ _ HV) as (b' & -> & [= <-]).
      pose proof (Ky _ _ _ _ _ _ Hy) as Hk. pose proof (rel3_wf _ _ _ Hrel1) as Hwf1.
      assert (E' = (if Bool.eqb bx land then E2 else E1) /\ oM = o2) as [-> ->].
      { destruct land.
        - apply mux_envs_inv in Hmux; [|exact Hk|exact Hwf1]. destruct Hmux as [-> ->]. now destruct bx.
        - apply mux_envs_inv in Hmux; [|now symmetry|now apply (wf_env_keys E1)].
          destruct Hmux as [-> ->]. now destruct bx. }
      destruct (Bool.eqb bx land) eqn:Hbl.
      + apply Bool.eqb_prop in Hbl. subst bx.
        pose proof (IHy ph en1 E1 fT _ _ _ Hrel1 Hy) as IH2. revert IH2.
        destruct (Sem.eval f P en1 y) as [[vy en2]|r2 m2|c2|]; intro IH2; try exact I.
        * destruct IH2 as (-> & HVy & Hrel2). rewrite Ety in HVy.
          destruct (VR_bool _ _ HVy) as (b' & -> & [= <-]). cbn [e_ty].
          destruct land; cbn [andb orb]; auto.
        * subst o2. now destruct land.
      + cbn [e_ty]. destruct land, bx; try discriminate Hbl; cbn [andb orb]; auto.
    - subst o1. pose proof (sticky_e P _ _ _ _ _ _ _ Hy) as ->.
      assert (oM = Some (pcode r1 m1)) as ->.
      { destruct land; eapply stkx_mux_envs; exact Hmux. }
      now destruct land, bx.
  Qed.


  Lemma sexpr_node3 f g e m : AgE3 f g e -> AgS3 (S f) g g (e_ty e) (St (SExpr e) m).
  Proof.
    intros IH ph en E fT w E' o' Hrel Hrun. destruct fT as [|fT]; [discriminate Hrun|].
    rewrite lower_stmt_S in Hrun. cbn [lower_stmt_body] in Hrun.
    change (Sem.exec (S f) P en (St (SExpr e) m)) with (Sem.eval f P en e).
    exact (IH (false :: ph) en E fT _ _ _ Hrel Hrun).
  Qed.


  Lemma letmut_node3 f g x e m :
    AgE3 f g e -> AgS3 (S f) g (tbind g x (e_ty e) true) unit_ty (St (SLetMut x e) m).
  Proof.
    intros IH ph en E fT w E' o' Hrel Hrun. destruct fT as [|fT]; [discriminate Hrun|].
    rewrite lower_stmt_S in Hrun. cbn [lower_stmt_body] in Hrun.
    minva Hrun as [w1 E1] o1 He. minva Hrun as E2 o2 Hl. apply lift_res_inv in Hl. destruct Hl as [Hl ->].
    apply ret_inv in Hrun. destruct Hrun as [Heq ->]. injection Heq as -> ->.
    rewrite sem_exec_letmut. pose proof (IH (false :: ph) en E fT _ _ _ Hrel He) as IH1. revert IH1.
    destruct (Sem.eval f P en e) as [[v en1]|r1 m1|c1|]; intro IH1; cbn [Sem.obind]; try exact I; [|exact IH1].
    destruct IH1 as (-> & HV & Hrel1). split; [reflexivity|]. split; [exact VR_unit|].
    eapply rel3_let; eassumption.
  Qed.

  Lemma let_node3 f g x mp e m :
    AgE3 f g e -> AgS3 (S f) g (tbind g x (e_ty e) false) unit_ty (St (SLet (Pat (PId x) mp (e_ty e)) e) m).
  Proof.
    intros IH ph en E fT w E' o' Hrel Hrun. destruct fT as [|fT]; [discriminate Hrun|].
    rewrite lower_stmt_S in Hrun. cbn [lower_stmt_body] in Hrun.
    minva Hrun as [w1 E1] o1 He. minva Hrun as [c2 E2] o2 Hp.
    apply ret_inv in Hrun. destruct Hrun as [Heq ->]. injection Heq as -> ->.
    destruct fT as [|fT']; [discriminate Hp|].
    change (lower_pattern tops (S fT') P (Pat (PId x) mp (e_ty e)) w1 E1 o1)
      with (lower_pattern_body tops P (lower_pattern tops fT' P) (Pat (PId x) mp (e_ty e)) w1 E1 o1) in Hp.
    cbn [lower_pattern_body] in Hp. minva Hp as E3 o3 Hl. apply lift_res_inv in Hl. destruct Hl as [Hl ->].
    apply ret_inv in Hp. destruct Hp as [Heq ->]. injection Heq as _ ->.
    rewrite sem_exec_let_id. pose proof (IH (false :: ph) en E (S fT') _ _ _ Hrel He) as IH1. revert IH1.
    destruct (Sem.eval f P en e) as [[v en1]|r1 m1|c1|]; intro IH1; cbn [Sem.obind]; try exact I; [|exact IH1].
    destruct IH1 as (-> & HV & Hrel1). split; [reflexivity|]. split; [exact VR_unit|].
    eapply rel3_let; eassumption.
  Qed.


  Lemma assign_node3 f g x e m :
    AgE3 f g e -> tlookup g x = Some (e_ty e, true) -> AgS3 (S f) g g unit_ty (St (SAssign x [] e) m).
  Proof.
    intros IH Hlk ph en E fT w E' o' Hrel Hrun. destruct fT as [|fT]; [discriminate Hrun|].
    rewrite lower_stmt_S in Hrun. cbn [lower_stmt_body assign_indexes assign_forward assign_backward] in Hrun.
    minva Hrun as [w1 E1] o1 He.
    minva Hrun as [idxs E2] o2 H2. apply ret_inv in H2. destruct H2 as [Heq ->]. injection Heq as -> ->.
    minva Hrun as coll o3 H3.
    minva Hrun as acc o4 H4. apply ret_inv in H4. destruct H4 as [-> ->].
    minva Hrun as v' o5 H5. apply ret_inv in H5. destruct H5 as [-> ->].
    minva Hrun as E3 o6 H6. apply lift_res_inv in H6. destruct H6 as [Ha ->].
    apply ret_inv in Hrun. destruct Hrun as [Heq ->]. injection Heq as -> ->.
    rewrite sem_exec_assign0. pose proof (IH (false :: ph) en E fT _ _ _ Hrel He) as IH1. revert IH1.
    destruct (Sem.eval f P en e) as [[v en1]|r1 m1|c1|]; intro IH1; cbn [Sem.obind]; try exact I.
    - destruct IH1 as (-> & HV & Hrel1).
      destruct (rel3_lookup _ _ _ _ _ _ Hrel1 Hlk) as (v0 & w0 & Hv0 & Hw0 & _). rewrite Hv0.
      rewrite Hw0 in H3. apply ret_inv in H3. destruct H3 as [_ ->].
      destruct (rel3_assign _ _ _ _ _ _ _ _ Hrel1 Hlk HV Ha) as (en3 & -> & Hrel3).
      split; [reflexivity|]. split; [exact VR_unit|exact Hrel3].
    - subst o1. destruct (env_get E1 x); [|discriminate H3]. apply ret_inv in H3. now destruct H3 as [_ ->].
  Qed.


  (* every statement of the list agrees, the contexts are threaded: context before, the
     statements, type of the value so far, context after, type of the value *)
  Inductive AgSS3 (f : nat) : tenv -> list stmt -> ty -> tenv -> ty -> Prop :=
  | AgSS32_nil g t : AgSS3 f g [] t g t
  | AgSS32_cons g s r g1 t1 t0 g' t :
      AgS3 f g g1 t1 s -> AgSS3 f g1 r t1 g' t -> AgSS3 f g (s :: r) t0 g' t.

  Lemma stmts_node3 f g ss t0 g' t : AgSS3 f g ss t0 g' t ->
    forall ph en E fT last lw w E' o',
    relQ (false :: ph) en E g -> VR t0 last lw ->
    block_stmts (lower_stmt tops fT P) ss lw E None = Ok ((w, E'), o') ->
    match sem_stmts P f ss last en with
    | Sem.Done (v, en') => o' = None /\ VR t v w /\ relQ (false :: ph) en' E' g'
    | Sem.Panicked r m => o' = Some (pcode r m)
    | _ => True
    end.
  Proof.
    induction 1 as [g t|g s r g1 t1 t0 g' t Hs _ IH]; intros ph en E fT last lw w E' o' Hrel HV Hrun.
    - cbn [block_stmts] in Hrun. apply ret_inv in Hrun. destruct Hrun as [Heq ->]. injection Heq as -> ->.
      cbn [sem_stmts]. auto.
    - cbn [block_stmts] in Hrun. minva Hrun as [w1 E1] o1 H1. cbn [sem_stmts].
      pose proof (Hs ph en E fT _ _ _ Hrel H1) as IH1. revert IH1.
      destruct (Sem.exec f P en s) as [[v en1]|r1 m1|c1|]; intro IH1; cbn [Sem.obind]; try exact I.
      + destruct IH1 as (-> & HV1 & Hrel1). exact (IH ph en1 E1 fT v w1 _ _ _ Hrel1 HV1 Hrun).
      + subst o1. destruct (tsem_sticky_fuel (pcode r1 m1) P fT) as (_ & _ & Hss & _).
        exact (stkx_block_stmts _ _ Hss r w1 E1 _ _ Hrun).
  Qed.


  Lemma block_run_agrees3 f g ss g1 t : AgSS3 f ([] :: g) ss unit_ty g1 t -> tl g1 = g ->
    forall ph en E fT w E' o',
    relQ ph en E g -> lower_block tops fT P ss E None = Ok ((w, E'), o') ->
    match Sem.obind (Sem.exec_block (S f) P (Sem.push_scope en) ss)
                    (fun '(v, en1) => Sem.Done (v, Sem.pop_scope en1)) with
    | Sem.Done (v, en') => o' = None /\ VR t v w /\ relQ ph en' E' g
    | Sem.Panicked r m => o' = Some (pcode r m)
    | _ => True
    end.
  Proof.
    intros Hss Htl ph en E fT w E' o' Hrel Hrun.
    destruct fT as [|fT]; [discriminate Hrun|]. rewrite lower_block_S in Hrun. unfold lower_block_body in Hrun.
    minva Hrun as [w1 E1] o1 H1. minva Hrun as E2 o2 H2. apply lift_res_inv in H2. destruct H2 as [Hp ->].
    apply ret_inv in Hrun. destruct Hrun as [Heq ->]. injection Heq as -> ->.
    rewrite exec_block_S.
    pose proof (stmts_node3 f _ _ _ _ _ Hss ph (Sem.push_scope en) (env_push E) fT Sem.unit_val [] _ _ _
                  (rel3_push _ _ _ Hrel) VR_unit H1) as IH1. revert IH1.
    destruct (sem_stmts P f ss Sem.unit_val (Sem.push_scope en)) as [[v en1]|r1 m1|c1|]; intro IH1;
      cbn [Sem.obind]; try exact I; [|exact IH1].
    destruct IH1 as (-> & HV & Hrel1). split; [reflexivity|]. split; [exact HV|].
    rewrite <- Htl. eapply rel3_pop; [eassumption|eassumption|]. rewrite Htl. exact (relQ_len _ _ _ _ Hrel).
  Qed.

  Lemma block_node3 f g ss m t g1 : AgSS3 f ([] :: g) ss unit_ty g1 t -> tl g1 = g ->
    AgE3 (S (S f)) g (Ex (EBlock ss) m t).
  Proof.
    intros Hss Htl ph en E fT w E' o' Hrel Hrun. rewrite sem_eval_block.
    destruct fT as [|fT]; [discriminate Hrun|]. rewrite lower_expr_S in Hrun. cbn [lower_expr_body] in Hrun.
    cbn [e_ty]. exact (block_run_agrees3 f g ss g1 t Hss Htl ph en E fT _ _ _ Hrel Hrun).
  Qed.


  (* ---------------------------------------------------------------- function calls *)

  (* the body of a block (its own scope pushed and popped) agrees *)
  Definition AgB3 (fuel : nat) (g : tenv) (b : list stmt) (t : ty) : Prop :=
    forall ph en E fT w E' o',
    relQ ph en E g -> lower_block tops fT P b E None = Ok ((w, E'), o') ->
    match Sem.obind (Sem.exec_block fuel P (Sem.push_scope en) b)
                    (fun '(v, en1) => Sem.Done (v, Sem.pop_scope en1)) with
    | Sem.Done (v, en') => o' = None /\ VR t v w /\ relQ ph en' E' g
    | Sem.Panicked r m => o' = Some (pcode r m)
    | _ => True
    end.

  (* arguments: each one in a phantom scope *)
  Lemma args_node3 f g : forall args params,
    Forall2 (fun a (p : N * ty) => AgE3 f g a /\ e_ty a = snd p) args params ->
    forall ph en E fT bs E1 o1, relQ ph en E g ->
    lower_args (lower_expr tops fT P) params args E None = Ok ((bs, E1), o1) ->
    match sem_list P f args en with
    | Sem.Done (vs, en1) =>
        o1 = None /\ relQ ph en1 E1 g /\
        Forall3 (fun v (b : N * list bool) (p : N * ty) => fst b = fst p /\ VR (snd p) v (snd b)) vs bs params
    | Sem.Panicked r m => o1 = Some (pcode r m)
    | _ => True
    end.
  Proof.
    induction 1 as [|a [pn pt] ar pr [IHa Eta] _ IH]; intros ph en E fT bs E1 o1 Hrel Hrun.
    - cbn [lower_args] in Hrun. apply ret_inv in Hrun. destruct Hrun as [Heq ->]. injection Heq as -> ->.
      cbn [sem_list]. split; [reflexivity|]. split; [exact Hrel|constructor].
    - cbn [lower_args] in Hrun. minva Hrun as [w Ea] oa Ha. minva Hrun as Eb ob Hp.
      apply lift_res_inv in Hp. destruct Hp as [Hp ->]. minva Hrun as [bs' Ec] oc Hr.
      apply ret_inv in Hrun. destruct Hrun as [Heq ->]. injection Heq as -> ->.
      cbn [sem_list]. pose proof (IHa (true :: ph) en (env_push E) fT _ _ _ (rel3_phantom _ _ _ Hrel) Ha) as IH1.
      revert IH1. destruct (Sem.eval f P en a) as [[v en1]|r1 m1|c1|]; intro IH1; cbn [Sem.obind]; try exact I.
      + destruct IH1 as (-> & HV & Hrel1). pose proof (rel3_unphantom _ _ _ _ Hrel1 Hp) as Hrel2.
        pose proof (IH ph en1 Eb fT _ _ _ Hrel2 Hr) as IH2. revert IH2.
        destruct (sem_list P f ar en1) as [[vs en2]|r2 m2|c2|]; intro IH2; cbn [Sem.obind]; try exact I; [|exact IH2].
        destruct IH2 as (-> & Hrel3 & HF). split; [reflexivity|]. split; [exact Hrel3|].
        constructor; [|exact HF]. cbn [fst snd] in *. split; [reflexivity|]. now rewrite <- Eta.
      + subst oa. destruct (tsem_sticky_fuel (pcode r1 m1) P fT) as (He & _).
        exact (stkx_lower_args _ _ He pr ar Eb _ _ Hr).
  Qed.

  (* the environment of the callee: the parameters in a scope of their own over the global scope *)
  Lemma callee_rel3 : forall vs bs params,
    Forall3 (fun v (b : N * list bool) (p : N * ty) => fst b = fst p /\ VR (snd p) v (snd b)) vs bs params ->
    forall en E g E', relQ [false; false] en E g ->
    fold_left (fun Er b => let* E0 := Er in env_let E0 (fst b) (snd b)) bs (Ok E) = Ok E' ->
    relQ [false; false] (Sem.bind_all en (combine (map fst params) vs)) E' (tbind_all g params true).
  Proof.
    induction 1 as [|v [bn bw] [pn pt] vs bs params [Hn HV] _ IH]; intros en E g E' Hrel Hf.
    - cbn in Hf. injection Hf as <-. exact Hrel.
    - cbn [fst snd] in Hn, HV. subst bn. cbn [fold_left bind fst snd] in Hf.
      destruct (env_let E pn bw) as [E1| |] eqn:El;
        [|exfalso; eapply fold_env_let_not_ok; [|exact Hf]; intros ? Hq; discriminate Hq
         |exfalso; eapply fold_env_let_not_ok; [|exact Hf]; intros ? Hq; discriminate Hq].
      unfold Sem.bind_all, tbind_all. cbn [map fst combine fold_left snd].
      apply (IH _ E1 _ E'); [|exact Hf]. eapply rel3_let; eassumption.
  Qed.


  (* the call: the callee runs over the fixed outermost scopes, in the context
     [params-scope :: [gsc]], and hands them back unchanged *)
  Lemma call_node3 f g fn args m t d :
    find_fn P fn = Some d ->
    Forall2 (fun a (p : N * ty) => AgE3 f g a /\ e_ty a = snd p) args (fn_params d) ->
    AgB3 f (tbind_all [[]; gsc] (fn_params d) true) (fn_body d) t ->
    AgE3 (S f) g (Ex (ECall fn args) m t).
  Proof.
    intros Hfind Hargs Hbody ph en E fT w E' o' Hrel Hrun.
    destruct fT as [|fT]; [discriminate Hrun|]. rewrite lower_expr_S in Hrun. cbn [lower_expr_body] in Hrun.
    rewrite Hfind in Hrun. minva Hrun as [bs E1] o1 Ha.
    destruct (rev E1) as [|glob1 crev] eqn:Erev; [discriminate Hrun|].
    minva Hrun as Ecallee o2 Hbind. apply lift_res_inv in Hbind. destruct Hbind as [Hbind ->].
    minva Hrun as [bw E2] o3 Hb. minva Hrun as E3 o4 Hp. apply lift_res_inv in Hp. destruct Hp as [Hp ->].
    apply ret_inv in Hrun. destruct Hrun as [Heq ->]. injection Heq as -> ->.
    rewrite (sem_eval_call P), Hfind.
    pose proof (args_node3 f g args (fn_params d) Hargs ph en E fT _ _ _ Hrel Ha) as IH1. revert IH1.
    destruct (sem_list P f args en) as [[vs en1]|r1 m1|c1|]; intro IH1; cbn [Sem.obind]; try exact I.
    - destruct IH1 as (-> & Hrel1 & HF).
      assert (length vs = length (fn_params d)) as Hlen.
      { clear - HF. induction HF; cbn [length]; congruence. }
      rewrite Hlen, Nat.eqb_refl. cbn [negb].
      destruct Hrel1 as (HP1 & Hls & HlE & Hlg & Hlen2).
      assert (E1 = rev crev ++ [glob1]) as HE1 by (rewrite <- (rev_involutive E1), Erev; reflexivity).
      assert (glob1 = glob) as -> by (rewrite HE1, last_last in HlE; exact HlE).
      rewrite Hls.
      assert (Hrel0 : relQ [false; false] (Sem.mkEnv [[]; sglob] (Sem.lenient en1)) (env_push [glob]) [[]; gsc]).
      { split; [|cbn; auto].
        unfold TSemSemCall.relP, env_push. cbn [Sem.scopes].
        assert (scope_rel VR [] [] []) as Hnil by (split; [exact I|intro x; cbn; auto]).
        apply relS_real; [exact Hnil|]. apply relS_real; [exact Hglob|]. apply relS_nil. }
      unfold Lower.bind_all in Hbind.
      pose proof (callee_rel3 _ _ _ HF _ _ _ _ Hrel0 Hbind) as Hrelc.
      pose proof (Hbody [false; false] _ _ fT _ _ _ Hrelc Hb) as IH2. revert IH2.
      destruct (Sem.exec_block f P _ (fn_body d)) as [[v en2]|r2 m2|c2|]; intro IH2; cbn [Sem.obind]; try exact I;
        [|exact IH2].
      destruct IH2 as (-> & HV & Hrel2). cbn [e_ty]. split; [reflexivity|]. split; [exact HV|].
      (* the callee hands the outermost scope back: E2 = [params'; glob] *)
      destruct Hrel2 as (HP2 & _ & HlE2 & _ & _).
      pose proof (relS_len_E _ _ _ _ HP2) as HL2. cbn [length] in HL2.
      destruct E2 as [|c1 [|c2 [|c3 r3]]]; try discriminate HL2. cbn [last] in HlE2. subst c2.
      cbn [env_pop] in Hp. injection Hp as <-.
      split; [|cbn [Sem.scopes]; rewrite <- HE1; auto].
      eapply rel2_scopes; [|rewrite <- HE1; exact HP1]. reflexivity.
    - subst o1. pose proof (sticky_b P _ _ _ _ _ _ _ Hb) as ->. reflexivity.
  Qed.

  (* ---------------------------------------------------------------- for loops *)

  (* the iterations: one chunk of wires per element *)
  Lemma for_iter_node3 f' g x mp tel body g1 tb eb :
    AgSS3 f' (tbind ([] :: g) x tel false) body unit_ty g1 tb -> tl g1 = g ->
    forall vs chunks, Forall2 (VR tel) vs chunks -> (forall c, In c chunks -> length c = eb) ->
    forall ph en E fT E' o', relQ ph en E g ->
    for_iterations (lower_pattern tops fT P) (lower_stmt tops fT P) (Pat (PId x) mp tel) body eb
      (length chunks) (concat chunks) E None = Ok (E', o') ->
    match TSemSemCall.sem_for P (S f') x body vs en with
    | Sem.Done en' => o' = None /\ relQ ph en' E' g
    | Sem.Panicked r m => o' = Some (pcode r m)
    | _ => True
    end.
  Proof.
    intros Hss Htl. induction 1 as [|v c vs cs HV _ IH]; intros Hlen ph en E fT E' o' Hrel Hrun.
    - cbn [length for_iterations] in Hrun. apply ret_inv in Hrun. destruct Hrun as [-> ->]. cbn [TSemSemCall.sem_for]. auto.
    - cbn [length concat for_iterations] in Hrun.
      assert (Hc : length c = eb) by (apply Hlen; now left).
      minva Hrun as bnd o1 Hsl. apply lift_res_inv in Hsl. destruct Hsl as [Hsl ->].
      unfold slice in Hsl. cbn [Nat.add skipn] in Hsl.
      destruct (eb <=? length (c ++ concat cs))%nat; [|discriminate Hsl]. injection Hsl as <-.
      rewrite <- Hc, firstn_app, Nat.sub_diag, firstn_all in Hrun. cbn [firstn] in Hrun. rewrite app_nil_r in Hrun.
      rewrite skipn_app, Nat.sub_diag, skipn_all in Hrun. cbn [skipn app] in Hrun. rewrite Hc in Hrun.
      minva Hrun as [cm Ea] o2 Hp. minva Hrun as Eb o3 Hb. minva Hrun as Ec o4 Hpop.
      apply lift_res_inv in Hpop. destruct Hpop as [Hpop ->].
      destruct fT as [|fT']; [discriminate Hp|].
      change (lower_pattern tops (S fT') P (Pat (PId x) mp tel) c (env_push E) None)
        with (lower_pattern_body tops P (lower_pattern tops fT' P) (Pat (PId x) mp tel) c (env_push E) None) in Hp.
      cbn [lower_pattern_body] in Hp. minva Hp as Ea' o5 Hl. apply lift_res_inv in Hl. destruct Hl as [Hl ->].
      apply ret_inv in Hp. destruct Hp as [Heq ->]. injection Heq as _ ->.
      pose proof (rel3_let _ _ _ x tel false v c _ (rel3_push _ _ _ Hrel) HV Hl) as Hrel1.
      destruct (lower_stmts_block _ body [] _ _ _ _ Hb) as [wb Hbb].
      cbn [TSemSemCall.sem_for]. rewrite exec_block_S.
      pose proof (stmts_node3 f' _ _ _ _ _ Hss ph _ _ (S fT') Sem.unit_val [] _ _ _ Hrel1 VR_unit Hbb) as IH1.
      revert IH1.
      destruct (sem_stmts P f' body Sem.unit_val (Sem.bind_var (Sem.push_scope en) x v)) as [[vb en1]|r1 m1|c1|];
        intro IH1; cbn [Sem.obind]; try exact I.
      + destruct IH1 as (-> & _ & Hrel2). pose proof (rel3_pop _ _ _ _ Hrel2 Hpop ltac:(rewrite Htl; exact (relQ_len _ _ _ _ Hrel))) as Hrel3. rewrite Htl in Hrel3.
        apply (IH (fun c0 Hin => Hlen c0 (or_intror Hin)) ph _ _ (S fT') _ _ Hrel3 Hrun).
      + subst o3. destruct (tsem_sticky_fuel (pcode r1 m1) P (S fT')) as (_ & _ & Hs & Hpp).
        exact (stkx_for_iterations _ _ _ Hpp Hs _ _ _ _ _ _ _ _ Hrun).
  Qed.

End Control3.

(* ------------------------------------------------------------------ the scalar operator nodes, for [relQ]
   and any value relation that is the scalar encoding on scalar types *)

Section ScalarG3.
  Variable P : program.
  Variable VR : ty -> Sem.value -> list bool -> Prop.
  Hypothesis VR_sc_elim : forall t v w, scalar_ty t = true -> VR t v w -> val_ok t v /\ w = enc_val t v.
  Hypothesis VR_sc_intro : forall t v, scalar_ty t = true -> val_ok t v -> VR t v (enc_val t v).
  Variable gsc : list (N * (ty * bool)).
  Variable sglob : list (N * Sem.value).
  Variable glob : @scope bool.
  Notation AgE' := (AgE3 P VR gsc sglob glob).
  

  Lemma binop_node_g3 f g o x y m t tx :
    op_arith o || op_cmp o || op_eq o = true ->
    (o = OMul -> is_num_lit x = false /\ is_num_lit y = false) ->
    e_ty x = tx -> e_ty y = tx -> scalar_ty tx = true -> scalar_ty t = true ->
    (forall vx vy len, val_ok tx vx -> val_ok tx vy -> binop_agrees o m t tx vx vy len) ->
    AgE' f g x -> AgE' f g y -> AgE' (S f) g (Ex (EOp o x y) m t).
  Proof.
    intros Ho Hm Etx Ety Hsx Hst Hag IHx IHy ph en E fT w E' o' Hrel Hrun.
    destruct fT as [|fT]; [discriminate Hrun|]. rewrite lower_expr_S in Hrun.
    apply binop_run_inv in Hrun; [|exact Ho|exact Hm].
    destruct Hrun as (xw & E1 & o1 & yw & o2 & Hx & Hy & Hb).
    rewrite (sem_eval_op P f en o x y m t Ho).
    pose proof (IHx ph en E fT _ _ _ Hrel Hx) as IH1. revert IH1.
    destruct (Sem.eval f P en x) as [[vx en1]|r1 m1|c1|]; intro IH1; cbn [Sem.obind]; try exact I.
    - destruct IH1 as (-> & HVx & Hrel1). rewrite Etx in HVx.
      destruct (VR_sc_elim _ _ _ Hsx HVx) as [Hokx ->].
      pose proof (IHy ph en1 E1 fT _ _ _ Hrel1 Hy) as IH2. revert IH2.
      destruct (Sem.eval f P en1 y) as [[vy en2]|r2 m2|c2|]; intro IH2; cbn [Sem.obind]; try exact I.
      + destruct IH2 as (-> & HVy & Hrel2). rewrite Ety in HVy.
        destruct (VR_sc_elim _ _ _ Hsx HVy) as [Hoky ->].
        pose proof (Hag vx vy (Sem.lenient en2) Hokx Hoky) as HA. unfold binop_agrees in HA.
        rewrite Etx, Ety in Hb. rewrite Etx. revert HA.
        destruct (Sem.eval_binop o m t tx vx vy (Sem.lenient en2)) as [[v len]|r3 m3|c3|];
          intro HA; cbn [Sem.obind]; try contradiction.
        * destruct HA as [Hokv HB]. rewrite HB in Hb. injection Hb as <- <-. cbn [e_ty].
          split; [reflexivity|]. split; [now apply VR_sc_intro|]. eapply rel3_scopes; [|exact Hrel2]. reflexivity.
        * destruct HA as [-> [w' HB]]. rewrite HB in Hb. now injection Hb as _ <-.
      + subst o2. exact (stkx_lower_binop _ _ _ _ _ _ _ _ _ _ Hb).
    - subst o1. pose proof (sticky_e P _ _ _ _ _ _ _ Hy) as ->.
      exact (stkx_lower_binop _ _ _ _ _ _ _ _ _ _ Hb).
  Qed.

  (* ---------------------------------------------------------------- << >> *)

  Lemma shift_node_g3 f g (left : bool) x y m sg b :
    ok_width b = true -> e_ty x = TInt sg b -> e_ty y = TInt false 8 ->
    AgE' f g x -> AgE' f g y -> AgE' (S f) g (Ex (EOp (if left then OShl else OShr) x y) m (TInt sg b)).
  Proof.
    intros Hb Etx Ety IHx IHy ph en E fT w E' o' Hrel Hrun.
    destruct fT as [|fT]; [discriminate Hrun|]. rewrite lower_expr_S in Hrun.
    apply shift_run_inv in Hrun. destruct Hrun as (xw & E1 & o1 & yw & o2 & Hx & Hy & Hs).
    rewrite (sem_eval_shift P f en (if left then OShl else OShr) x y m (TInt sg b) ltac:(now destruct left)).
    pose proof (IHx ph en E fT _ _ _ Hrel Hx) as IH1. revert IH1.
    destruct (Sem.eval f P en x) as [[vx en1]|r1 m1|c1|]; intro IH1; cbn [Sem.obind]; try exact I.
    - destruct IH1 as (-> & HVx & Hrel1). rewrite Etx in HVx.
      destruct (VR_sc_elim (TInt sg b) _ _ Hb HVx) as [Hokx ->].
      pose proof (IHy ph en1 E1 fT _ _ _ Hrel1 Hy) as IH2. revert IH2.
      destruct (Sem.eval f P en1 y) as [[vy en2]|r2 m2|c2|]; intro IH2; cbn [Sem.obind]; try exact I.
      + destruct IH2 as (-> & HVy & Hrel2). rewrite Ety in HVy.
        destruct (VR_sc_elim (TInt false 8) _ _ eq_refl HVy) as [Hoky ->].
        destruct vx as [|a| | |]; try contradiction. destruct vy as [|s| | |]; try contradiction.
        cbn [val_ok enc_val] in *. change (N.to_nat 8) with 8%nat in Hs.
        rewrite Etx, is_signed_int in Hs.
        rewrite (tsem_lower_shift left sg _ _ m None (length_enc 8 s)
                   (eq_ind_r (fun k => In k [8; 16; 32; 64]%nat) (ok_width_in b Hb) (length_enc (N.to_nat b) a))) in Hs.
        pose proof (shift_agrees left m sg b a s (Sem.lenient en2) Hb Hokx Hoky) as HA. cbv zeta in HA.
        rewrite Etx. revert HA.
        destruct (Sem.eval_binop (if left then OShl else OShr) m (TInt sg b) (TInt sg b) (Sem.VInt a) (Sem.VInt s)
                    (Sem.lenient en2)) as [[v len]|r3 m3|c3|]; intro HA; cbn [Sem.obind]; try contradiction.
        * destruct HA as (Hokv & Hval & Hcond). rewrite Hval, Hcond in Hs. injection Hs as <- <-. cbn [e_ty].
          split; [reflexivity|]. split; [now apply VR_sc_intro|]. eapply rel3_scopes; [|exact Hrel2]. reflexivity.
        * destruct HA as (-> & -> & Hcond). rewrite Hcond in Hs. now injection Hs as _ <-.
      + subst o2. exact (stkx_lower_shift _ _ _ _ _ _ _ _ Hs).
    - subst o1. pose proof (sticky_e P _ _ _ _ _ _ _ Hy) as ->.
      exact (stkx_lower_shift _ _ _ _ _ _ _ _ Hs).
  Qed.

  (* ---------------------------------------------------------------- unary minus, `!`, casts *)

  Lemma neg_node_g3 f g e1 m b : ok_width b = true -> e_ty e1 = TInt true b ->
    AgE' f g e1 -> AgE' (S f) g (Ex (ENeg e1) m (TInt true b)).
  Proof.
    intros Hb Et1 IH ph en E fT w E' o' Hrel Hrun.
    destruct fT as [|fT]; [discriminate Hrun|]. rewrite lower_expr_S, lower_neg_case in Hrun.
    minva Hrun as [x E1] o1 He. cbv beta iota in Hrun.
    rewrite (sem_eval_neg P). pose proof (ok_width_pos b Hb) as Hb2.
    pose proof (IH ph en E fT _ _ _ Hrel He) as IH1. revert IH1.
    destruct (Sem.eval f P en e1) as [[v en1]|r1 m1|c1|]; intro IH1; cbn [Sem.obind]; try exact I.
    - destruct IH1 as (-> & HV & Hrel1). rewrite Et1 in HV.
      destruct (VR_sc_elim (TInt true b) _ _ Hb HV) as [Hok ->].
      destruct v as [|z| | |]; try contradiction. cbn [val_ok enc_val Sem.int_ty] in *.
      rewrite neg_steps_correct in Hrun by (apply enc_nonempty; lia).
      rewrite length_enc, N2Nat.id, (sval_enc_ok b z) in Hrun by (assumption || lia).
      apply ret_inv in Hrun. destruct Hrun as [Heq ->]. injection Heq as -> ->.
      unfold Sem.checked. destruct (Sem.in_range true b (- z)) eqn:Hr; cbn [Sem.obind negb push_spec e_ty].
      + split; [reflexivity|]. split; [|exact Hrel1]. now apply (VR_sc_intro (TInt true b) (Sem.VInt (- z))).
      + reflexivity.
    - subst o1. refine (stkx_neg_steps _ x m _ _ _ _ Hrun). intro r. apply stkx_ret.
  Qed.

  Lemma not_node_g3 f g e1 m t : scalar_ty t = true -> e_ty e1 = t ->
    AgE' f g e1 -> AgE' (S f) g (Ex (ENot e1) m t).
  Proof.
    intros Hsc Et1 IH ph en E fT w E' o' Hrel Hrun.
    destruct fT as [|fT]; [discriminate Hrun|]. rewrite lower_expr_S in Hrun.
    apply not_run_inv in Hrun. destruct Hrun as (x & He & ->).
    rewrite (sem_eval_not P). pose proof (IH ph en E fT _ _ _ Hrel He) as IH1. revert IH1.
    destruct (Sem.eval f P en e1) as [[v en1]|r1 m1|c1|]; intro IH1; cbn [Sem.obind]; try exact I; [|exact IH1].
    destruct IH1 as (-> & HV & Hrel1). rewrite Et1 in HV. destruct (VR_sc_elim _ _ _ Hsc HV) as [Hok ->].
    destruct t as [|sg b| | | |]; try discriminate Hsc; destruct v as [p|z| | |]; try contradiction;
      cbn [e_ty val_ok enc_val map] in *.
    - split; [reflexivity|]. split; [|exact Hrel1]. now apply (VR_sc_intro TBool (Sem.VBool (negb p))).
    - pose proof (ok_width_pos b Hsc) as Hb2. split; [reflexivity|]. split; [|exact Hrel1].
      rewrite map_negb_enc, <- (enc_wrap sg b).
      apply (VR_sc_intro (TInt sg b) (Sem.VInt (Sem.wrap sg b (Z.lnot z)))); [exact Hsc|].
      apply wrap_in_range. lia.
  Qed.

  Lemma cast_node_g3 f g e1 m t : scalar_ty t = true -> scalar_ty (e_ty e1) = true ->
    AgE' f g e1 -> AgE' (S f) g (Ex (ECast t e1) m t).
  Proof.
    intros Hsc Hsc1 IH ph en E fT w E' o' Hrel Hrun.
    destruct fT as [|fT]; [discriminate Hrun|]. rewrite lower_expr_S in Hrun.
    pose proof Hrun as H0. cbn [lower_expr_body] in H0. minva H0 as [x E1] o1 He. clear H0.
    destruct (tsem_cast_correct P _ (lower_pattern tops fT P) (lower_block tops fT P) t e1 m t E None x E1 o1 He)
      as (r & HR & _).
    rewrite (sem_eval_cast P). pose proof (IH ph en E fT _ _ _ Hrel He) as IH1. revert IH1.
    destruct (Sem.eval f P en e1) as [[v en1]|r1 m1|c1|]; intro IH1; cbn [Sem.obind]; try exact I.
    - destruct IH1 as (-> & HV & Hrel1). destruct (VR_sc_elim _ _ _ Hsc1 HV) as [Hok ->].
      pose proof (cast_agrees P _ (lower_pattern tops fT P) (lower_block tops fT P) t e1 m E None v E1 None
                    Hsc Hsc1 Hok He) as HC. revert HC.
      destruct (Sem.eval_cast t (e_ty e1) v) as [v'| | |]; intro HC; try contradiction; cbn [Sem.obind].
      destruct HC as [Hokv HB]. rewrite HB in Hrun. injection Hrun as <- <- <-. cbn [e_ty].
      split; [reflexivity|]. split; [now apply VR_sc_intro|exact Hrel1].
    - subst o1. rewrite HR in Hrun. now injection Hrun as _ _ <-.
  Qed.

  (* ---------------------------------------------------------------- products with a literal operand
     (Compile/TSemSemMul.v, replayed for [relQ]) *)

  (* `x * c` / `c * x` where the rewrite fires *)
  Theorem mul_lit_node3 f g x y m sg b left n neg :
    ok_width b = true -> e_ty x = TInt sg b -> e_ty y = TInt sg b ->
    mul_lit_info x y m (TInt sg b) = Some (left, n, neg) ->
    negb neg || sg = true -> mul_lit_ok b n neg = true ->
    AgE' f g (if left then y else x) ->
    AgE' (S f) g (Ex (EOp OMul x y) m (TInt sg b)).
  Proof.
    intros Hb Etx Ety Hinfo Hsg Hok IH ph en E fT w E' o' Hrel Hrun.
    destruct (mul_lit_info_spec x y m sg b left n neg Etx Ety Hinfo) as (Hn & (lb & Hlit) & Hrw). cbv zeta in Hlit, Hrw.
    destruct fT as [|fT]; [discriminate Hrun|]. rewrite lower_expr_S in Hrun. cbn [lower_expr_body] in Hrun.
    rewrite Hrw in Hrun. minva Hrun as [wv E1] o1 Hop. minva Hrun as E2 o2 Hlet.
    apply lift_res_inv in Hlet. destruct Hlet as [Hlet ->]. cbn [env_push env_let scope_insert] in Hlet.
    injection Hlet as <-. minva Hrun as [r E3] o3 Hsum. minva Hrun as E4 o4 Hpop.
    apply lift_res_inv in Hpop. destruct Hpop as [Hpop ->]. apply ret_inv in Hrun. destruct Hrun as [Heq ->].
    injection Heq as -> ->.
    rewrite (sem_eval_op P f en OMul x y m (TInt sg b) eq_refl).
    assert (Hety : e_ty (if left then y else x) = TInt sg b) by (destruct left; assumption).
    (* the run of the operand and of the sum against the operand's evaluation from [en0] *)
    assert (Hcore : forall en0, relQ VR gsc sglob glob ph en0 E g ->
      match Sem.eval f P en0 (if left then y else x) with
      | Sem.Done (Sem.VInt a, en1) =>
          Sem.in_range sg b a = true /\ relQ VR gsc sglob glob ph en1 E1 g /\ E4 = E1 /\
          if Sem.in_range sg b (a * lit_Z n neg)
          then o3 = None /\ r = enc (N.to_nat b) (a * lit_Z n neg)
          else o3 = Some (pcode Sem.ROverflow m)
      | Sem.Done (_, _) => False
      | Sem.Panicked r0 m0 => o3 = Some (pcode r0 m0)
      | _ => True
      end).
    { intros en0 Hrel0. pose proof (IH ph en0 E fT _ _ _ Hrel0 Hop) as IH1. revert IH1.
      destruct (Sem.eval f P en0 (if left then y else x)) as [[vx en1]|r1 m1|c1|]; intro IH1; try exact I.
      - destruct IH1 as (-> & HV & Hrel1). rewrite Hety in HV.
        destruct (VR_sc_elim (TInt sg b) _ _ Hb HV) as [Hokv ->].
        destruct vx as [|a| | |]; try contradiction. cbn [val_ok enc_val] in *.
        assert (HE2 : env_get ([(MUL_TMP, enc (N.to_nat b) a)] :: E1) MUL_TMP = Some (enc (N.to_nat b) a))
          by (cbn [env_get assocN]; now rewrite N.eqb_refl).
        destruct (mul_core P sg b m _ n neg a _ fT _ _ _ Hb Hokv Hn Hsg Hok HE2 Hsum) as [-> Hres].
        cbn [env_pop] in Hpop. injection Hpop as <-. auto.
      - subst o1. exact (sticky_e P fT _ _ _ _ _ _ Hsum). }
    pose proof (ok_width_pos b Hb) as Hb2.
    (* Sem.v: both operands, then the checked product *)
    destruct left.
    - (* the literal on the left *)
      destruct f as [|f']; [exact I|]. rewrite (lit_info_eval P x n lb neg f' en Hlit). cbn [Sem.obind].
      specialize (Hcore en Hrel). revert Hcore.
      destruct (Sem.eval (S f') P en y) as [[vy en1]|r1 m1|c1|]; cbn [Sem.obind]; try (intro; exact I); [|intro H; exact H].
      destruct vy as [|a| | |]; try contradiction. intros (Ha & Hrel1 & -> & Hres).
      rewrite Etx. cbn [Sem.eval_binop Sem.int_ty]. unfold Sem.checked. rewrite (Z.mul_comm (lit_Z n neg) a).
      destruct (Sem.in_range sg b (a * lit_Z n neg)) eqn:Hr; cbn [Sem.obind e_ty].
      + destruct Hres as [-> ->]. split; [reflexivity|]. split.
        * now apply (VR_sc_intro (TInt sg b) (Sem.VInt (a * lit_Z n neg))).
        * eapply rel3_scopes; [|exact Hrel1]. reflexivity.
      + exact Hres.
    - (* the literal on the right *)
      specialize (Hcore en Hrel). revert Hcore.
      destruct (Sem.eval f P en x) as [[vx en1]|r1 m1|c1|]; cbn [Sem.obind]; try (intro; exact I); [|intro H; exact H].
      destruct vx as [|a| | |]; try contradiction. intros (Ha & Hrel1 & -> & Hres).
      destruct f as [|f']; [exact I|]. rewrite (lit_info_eval P y n lb neg f' en1 Hlit). cbn [Sem.obind].
      rewrite Etx. cbn [Sem.eval_binop Sem.int_ty]. unfold Sem.checked.
      destruct (Sem.in_range sg b (a * lit_Z n neg)) eqn:Hr; cbn [Sem.obind e_ty].
      + destruct Hres as [-> ->]. split; [reflexivity|]. split.
        * now apply (VR_sc_intro (TInt sg b) (Sem.VInt (a * lit_Z n neg))).
        * eapply rel3_scopes; [|exact Hrel1]. reflexivity.
      + exact Hres.
  Qed.

  Theorem mul_plain_node3 f g x y m t tx :
    mul_rewrite x y m t = None ->
    e_ty x = tx -> e_ty y = tx -> scalar_ty tx = true -> scalar_ty t = true ->
    (forall vx vy len, val_ok tx vx -> val_ok tx vy -> binop_agrees OMul m t tx vx vy len) ->
    AgE' f g x -> AgE' f g y -> AgE' (S f) g (Ex (EOp OMul x y) m t).
  Proof.
    intros Hm Etx Ety Hsx Hst Hag IHx IHy ph en E fT w E' o' Hrel Hrun.
    destruct fT as [|fT]; [discriminate Hrun|]. rewrite lower_expr_S in Hrun.
    apply (mul_plain_run_inv P) in Hrun; [|exact Hm].
    destruct Hrun as (xw & E1 & o1 & yw & o2 & Hx & Hy & Hb).
    rewrite (sem_eval_op P f en OMul x y m t eq_refl).
    pose proof (IHx ph en E fT _ _ _ Hrel Hx) as IH1. revert IH1.
    destruct (Sem.eval f P en x) as [[vx en1]|r1 m1|c1|]; intro IH1; cbn [Sem.obind]; try exact I.
    - destruct IH1 as (-> & HVx & Hrel1). rewrite Etx in HVx.
      destruct (VR_sc_elim _ _ _ Hsx HVx) as [Hokx ->].
      pose proof (IHy ph en1 E1 fT _ _ _ Hrel1 Hy) as IH2. revert IH2.
      destruct (Sem.eval f P en1 y) as [[vy en2]|r2 m2|c2|]; intro IH2; cbn [Sem.obind]; try exact I.
      + destruct IH2 as (-> & HVy & Hrel2). rewrite Ety in HVy.
        destruct (VR_sc_elim _ _ _ Hsx HVy) as [Hoky ->].
        pose proof (Hag vx vy (Sem.lenient en2) Hokx Hoky) as HA. unfold binop_agrees in HA.
        rewrite Etx, Ety in Hb. rewrite Etx. revert HA.
        destruct (Sem.eval_binop OMul m t tx vx vy (Sem.lenient en2)) as [[v len]|r3 m3|c3|];
          intro HA; cbn [Sem.obind]; try contradiction.
        * destruct HA as [Hokv HB]. rewrite HB in Hb. injection Hb as <- <-. cbn [e_ty].
          split; [reflexivity|]. split; [now apply VR_sc_intro|]. eapply rel3_scopes; [|exact Hrel2]. reflexivity.
        * destruct HA as [-> [w' HB]]. rewrite HB in Hb. now injection Hb as _ <-.
      + subst o2.
        match type of Hb with ?mm (Some ?c) = _ => assert (stkx c mm) as Hstk by apply stkx_lower_binop end.
        exact (Hstk _ _ Hb).
    - subst o1. pose proof (sticky_e P _ _ _ _ _ _ _ Hy) as ->.
      match type of Hb with ?mm (Some ?c) = _ => assert (stkx c mm) as Hstk by apply stkx_lower_binop end.
      exact (Hstk _ _ Hb).
  Qed.
End ScalarG3.

Section MulNodeB3.
  Variable P : program.
  Variable VR : ty -> Sem.value -> list bool -> Prop.
  Hypothesis VR_sc_elim : forall t v w, scalar_ty t = true -> VR t v w -> val_ok t v /\ w = enc_val t v.
  Hypothesis VR_sc_intro : forall t v, scalar_ty t = true -> val_ok t v -> VR t v (enc_val t v).
  Variable gsc : list (N * (ty * bool)).
  Variable sglob : list (N * Sem.value).
  Variable glob : @scope bool.

  Corollary mul_lit_node_b3 f g x y m t :
    e_ty x = t -> e_ty y = t -> mul_node_ok x y m t = true ->
    AgE3 P VR gsc sglob glob f g (mul_operand x y m t) -> AgE3 P VR gsc sglob glob (S f) g (Ex (EOp OMul x y) m t).
  Proof.
    intros Etx Ety Hok IH. unfold mul_node_ok in Hok. destruct t as [|sg b| | | |]; try discriminate Hok.
    apply andb_prop in Hok as [Hb Hok]. unfold mul_operand in IH.
    destruct (mul_lit_info x y m (TInt sg b)) as [[[left n] neg]|] eqn:Hi; [|discriminate Hok].
    apply andb_prop in Hok as [Hsg Hlit].
    eapply (mul_lit_node3 P VR VR_sc_elim VR_sc_intro gsc sglob glob f g x y m sg b left n neg); try eassumption.
  Qed.
End MulNodeB3.
Print Assumptions mul_lit_node_b3.
Print Assumptions mul_plain_node3.

(* ------------------------------------------------------------------ the aggregate / pattern / match
   nodes of Compile/TSemSemAgg.v, replayed for [relQ] (the lemmas about values and runs are reused) *)

Section Agg3.
  Variable P : program.
  Hypothesis Hsmall : enums_small P = true.
  Variable gsc : list (N * (ty * bool)).
  Variable sglob : list (N * Sem.value).
  Variable glob : @scope bool.
  Hypothesis Hglob : scope_rel (TSemSemAgg.VRa P) sglob glob gsc.
  Hypothesis Himm : forall b, In b gsc -> snd (snd b) = false.

  Notation VRa := (TSemSemAgg.VRa P).
  Local Notation VRa_bool := (TSemSemAgg.VRa_bool P).
  Local Notation ty_fits_unit := (TSemSemAgg.ty_fits_unit P).
  Local Notation VRa_unit := (TSemSemAgg.VRa_unit P).
  Local Notation stk_expr := (TSemSemAgg.stk_expr P).
  Local Notation stk_stmt := (TSemSemAgg.stk_stmt P).
  Local Notation stk_pat := (TSemSemAgg.stk_pat P).
  Local Notation stk_block := (TSemSemAgg.stk_block P).
  Local Notation VRa_scalar := (TSemSemAgg.VRa_scalar P).
  Local Notation VRa_VRs := (TSemSemAgg.VRa_VRs P).
  Local Notation sem_eval_list := (TSemSemAgg.sem_eval_list P).
  Local Notation sem_eval_list_cons := (TSemSemAgg.sem_eval_list_cons P).
  Local Notation F3_VRa_enc := (TSemSemAgg.F3_VRa_enc P).
  Local Notation sem_eval_tuplit := (TSemSemAgg.sem_eval_tuplit P).
  Local Notation sem_eval_tupacc := (TSemSemAgg.sem_eval_tupacc P).
  Local Notation sem_struct_fields := (TSemSemAgg.sem_struct_fields P).
  Local Notation sem_eval_structlit := (TSemSemAgg.sem_eval_structlit P).
  Local Notation sem_struct_fields_list := (TSemSemAgg.sem_struct_fields_list P).
  Local Notation sem_eval_fld := (TSemSemAgg.sem_eval_fld P).
  Local Notation sem_eval_arrlit := (TSemSemAgg.sem_eval_arrlit P).
  Local Notation sem_eval_arrrep := (TSemSemAgg.sem_eval_arrrep P).
  Local Notation sem_eval_range := (TSemSemAgg.sem_eval_range P).
  Local Notation ty_fits_arr_int := (TSemSemAgg.ty_fits_arr_int P).
  Local Notation sem_eval_idx := (TSemSemAgg.sem_eval_idx P).
  Local Notation VRa_index := (TSemSemAgg.VRa_index P).
  Local Notation sem_read := (TSemSemAgg.sem_read P).
  Local Notation path_rel := (TSemSemAgg.path_rel P).
  Local Notation has_encs_nth := (TSemSemAgg.has_encs_nth P).
  Local Notation sem_for := (TSemSemAgg.sem_for P).
  Local Notation sem_exec_for := (TSemSemAgg.sem_exec_for P).
  Local Notation lower_pattern_S := (TSemSemAgg.lower_pattern_S P).
  Local Notation sem_eval_enumlit := (TSemSemAgg.sem_eval_enumlit P).
  Local Notation sem_match_list := (TSemSemAgg.sem_match_list P).
  Local Notation sem_match_fields := (TSemSemAgg.sem_match_fields P).
  Local Notation pmatch_id := (TSemSemAgg.pmatch_id P).
  Local Notation pmatch_tup := (TSemSemAgg.pmatch_tup P).
  Local Notation pmatch_struct := (TSemSemAgg.pmatch_struct P).
  Local Notation pat_ok := (TSemSemAgg.pat_ok P).
  Local Notation fields_ok_names := (TSemSemAgg.fields_ok_names P).
  Local Notation fields_ok_nodup := (TSemSemAgg.fields_ok_nodup P).
  Local Notation sem_exec_let := (TSemSemAgg.sem_exec_let P).
  Local Notation struct_match_facts := (TSemSemAgg.struct_match_facts P).
  Local Notation lower_pattern_body_facts := (TSemSemAgg.lower_pattern_body_facts P).
  Local Notation lower_pattern_facts := (TSemSemAgg.lower_pattern_facts P).
  Local Notation gpat_ok := (TSemSemAgg.gpat_ok P).
  Local Notation gfields_ok_names := (TSemSemAgg.gfields_ok_names P).
  Local Notation gfields_ok_nodup := (TSemSemAgg.gfields_ok_nodup P).
  Local Notation gpats_zip_sizes := (TSemSemAgg.gpats_zip_sizes P).
  Local Notation int_pat_val := (TSemSemAgg.int_pat_val P).
  Local Notation in_range_szn := (TSemSemAgg.in_range_szn P).
  Local Notation pmatch_enum_unit := (TSemSemAgg.pmatch_enum_unit P).
  Local Notation pmatch_enum_tup := (TSemSemAgg.pmatch_enum_tup P).
  Local Notation enum_tag_test := (TSemSemAgg.enum_tag_test P Hsmall).
  Local Notation sem_arms := (TSemSemAgg.sem_arms P).
  Local Notation sem_eval_match := (TSemSemAgg.sem_eval_match P).
  Local Notation pat_ok_mutind := (TSemSemAgg.pat_ok_mutind P).
  Local Notation gpat_ok_mutind := (TSemSemAgg.gpat_ok_mutind P).
  Local Notation PR_fld := (TSemSemAgg.PR_fld P).
  Local Notation PR_idx := (TSemSemAgg.PR_idx P).
  Local Notation PR_tup := (TSemSemAgg.PR_tup P).
  Local Notation PR_nil := (TSemSemAgg.PR_nil P).
  Local Notation pats_ok := (TSemSemAgg.pats_ok P).
  Local Notation fields_ok := (TSemSemAgg.fields_ok P).
  Local Notation gpats_ok := (TSemSemAgg.gpats_ok P).
  Local Notation gfields_ok := (TSemSemAgg.gfields_ok P).

  Notation AgE' := (AgE3 P VRa gsc sglob glob).
  Notation AgS' := (AgS3 P VRa gsc sglob glob).
  Notation rel := (relQ VRa gsc sglob glob).
  Notation AgSS := (AgSS3 P VRa gsc sglob glob).

  (* the relation lemmas under the names and arities used by the node proofs of TSemSemAgg.v *)
  Lemma rel_wf {ph} (X : ty -> Sem.value -> list bool -> Prop) en E g : rel ph en E g -> wf_env E.
  Proof. apply rel3_wf. Qed.
  Lemma rel_lookup {ph} (X : ty -> Sem.value -> list bool -> Prop) en E g x t mu :
    rel ph en E g -> tlookup g x = Some (t, mu) ->
    exists v w, Sem.lookup_var en x = Some v /\ env_get E x = Some w /\ VRa t v w.
  Proof. apply rel3_lookup. Qed.
  Lemma rel_push {ph} (X : ty -> Sem.value -> list bool -> Prop) en E g :
    rel ph en E g -> rel (false :: ph) (Sem.push_scope en) (env_push E) ([] :: g).
  Proof. apply rel3_push. Qed.
  Lemma rel_let {ph} (X : ty -> Sem.value -> list bool -> Prop) en E g x t mu v w E' :
    rel (false :: ph) en E g -> VRa t v w -> env_let E x w = Ok E' ->
    rel (false :: ph) (Sem.bind_var en x v) E' (tbind g x t mu).
  Proof. apply rel3_let. Qed.
  Lemma rel_pop3 {ph} en E g E2 : rel (false :: ph) en E g -> env_pop E = Ok E2 ->
    (2 <= length (tl g))%nat -> rel ph (Sem.pop_scope en) E2 (tl g).
  Proof. apply rel3_pop. Qed.
  Lemma rel_len {ph} en E g : rel ph en E g -> (2 <= length g)%nat.
  Proof. apply relQ_len. Qed.

  (* [relQ] is a conjunction: [rsplit] is [rsplit] that leaves it alone *)
  Ltac rsplit := repeat (lazymatch goal with |- relQ _ _ _ _ _ _ _ _ => fail | |- _ => split end).

  Lemma id_node_a f g x m t mu : tlookup g x = Some (t, mu) -> AgE' f g (Ex (EId x) m t).
  Proof.
    intros Hl ph en E fT w E' o' Hrel Hrun. destruct fT as [|fT]; [discriminate Hrun|].
    rewrite lower_expr_S in Hrun. cbn [lower_expr_body] in Hrun.
    destruct (rel_lookup VRa _ _ _ _ _ _ Hrel Hl) as (v & w0 & Hv & Hw & HV). rewrite Hw in Hrun.
    apply ret_inv in Hrun. destruct Hrun as [Heq ->]. injection Heq as -> ->.
    destruct f; [exact I|]. cbn [Sem.eval e_ty]. rewrite Hv. auto.
  Qed.

  Lemma lit_bool_node_a f g (b : bool) m : AgE' f g (Ex (if b then ETrue else EFalse) m TBool).
  Proof.
    intros ph en E fT w E' o' Hrel Hrun. destruct fT as [|fT]; [discriminate Hrun|].
    destruct b; apply ret_inv in Hrun; destruct Hrun as [Heq ->]; injection Heq as -> ->;
      (destruct f; [exact I|]); cbn [Sem.eval e_ty]; rsplit; try exact Hrel; try apply ty_fits_bool;
      constructor.
  Qed.

  Lemma lit_numU_node_a f g n lb m sg b : lit_fits (TInt sg b) (Z.of_N n) = true ->
    AgE' f g (Ex (ENumU n lb) m (TInt sg b)).
  Proof.
    intros Hl ph en E fT w E' o' Hrel Hrun. destruct fT as [|fT]; [discriminate Hrun|].
    apply ret_inv in Hrun. destruct Hrun as [Heq ->]. injection Heq as -> ->.
    destruct f; [exact I|]. cbn [Sem.eval e_ty]. split; [reflexivity|]. split; [split; [|apply ty_fits_int]|exact Hrel].
    rewrite TSemControl.tsem_unsigned_as_wires. apply HE_int. now rewrite <- lit_fits_in_range.
  Qed.

  Lemma lit_numS_node_a f g z lb m sg b : lit_fits (TInt sg b) z = true ->
    AgE' f g (Ex (ENumS z lb) m (TInt sg b)).
  Proof.
    intros Hl ph en E fT w E' o' Hrel Hrun. destruct fT as [|fT]; [discriminate Hrun|].
    apply ret_inv in Hrun. destruct Hrun as [Heq ->]. injection Heq as -> ->.
    destruct f; [exact I|]. cbn [Sem.eval e_ty]. split; [reflexivity|]. split; [split; [|apply ty_fits_int]|exact Hrel].
    rewrite tsem_signed_as_wires. apply HE_int. now rewrite <- lit_fits_in_range.
  Qed.

  (* ---------------------------------------------------------------- expression lists
     (tuple / array literals, enum arguments, struct fields) *)

  Lemma list_agrees {ph} f g es : Forall (AgE' f g) es ->
    forall en E fT ws E' o', rel ph en E g ->
    lower_list (lower_expr tops fT P) es E None = Ok ((ws, E'), o') ->
    match sem_eval_list f es en with
    | Sem.Done (vs, en') => o' = None /\ Forall3 VRa (map e_ty es) vs ws /\ rel ph en' E' g
    | Sem.Panicked r m => o' = Some (pcode r m)
    | _ => True
    end.
  Proof.
    induction 1 as [|e es He _ IH]; intros en E fT ws E' o' Hrel Hrun.
    - cbn [lower_list] in Hrun. apply ret_inv in Hrun. destruct Hrun as [Heq ->]. injection Heq as -> ->.
      cbn [TSemSemAgg.sem_eval_list map]. rsplit; [constructor|exact Hrel].
    - cbn [lower_list] in Hrun. minva Hrun as [w1 E1] o1 H1. minva Hrun as [ws1 E2] o2 H2.
      apply ret_inv in Hrun. destruct Hrun as [Heq ->]. injection Heq as -> ->.
      rewrite sem_eval_list_cons. pose proof (He ph en E fT _ _ _ Hrel H1) as IH1. revert IH1.
      destruct (Sem.eval f P en e) as [[v en1]|r1 m1|c1|]; intro IH1; cbn [Sem.obind]; try exact I.
      + destruct IH1 as (-> & HV & Hrel1). pose proof (IH en1 E1 fT _ _ _ Hrel1 H2) as IH2. revert IH2.
        destruct (sem_eval_list f es en1) as [[vs en2]|r2 m2|c2|]; intro IH2; cbn [Sem.obind]; try exact I;
          [|exact IH2].
        destruct IH2 as (-> & HVs & Hrel2). cbn [map]. rsplit; [now constructor|exact Hrel2].
      + subst o1. exact (stkx_lower_list _ _ (stk_expr _ fT) es E1 _ _ H2).
  Qed.

  Lemma tuplit_node f g es m t :
    Forall (AgE' f g) es -> t = TTup (map e_ty es) -> ty_fits P t ->
    AgE' (S f) g (Ex (ETupLit es) m t).
  Proof.
    intros Hes Et Hfit ph en E fT w E' o' Hrel Hrun.
    destruct fT as [|fT]; [discriminate Hrun|]. rewrite lower_expr_S in Hrun. cbn [lower_expr_body] in Hrun.
    minva Hrun as [ws E1] o1 H1. apply ret_inv in Hrun. destruct Hrun as [Heq ->]. injection Heq as -> ->.
    rewrite sem_eval_tuplit. pose proof (list_agrees f g es Hes en E fT _ _ _ Hrel H1) as IH1. revert IH1.
    destruct (sem_eval_list f es en) as [[vs en1]|r1 m1|c1|]; intro IH1; cbn [Sem.obind]; try exact I; [|exact IH1].
    destruct IH1 as (-> & HVs & Hrel1). cbn [e_ty]. rsplit; [|exact Hfit|exact Hrel1].
    subst t. apply has_enc_tuple_lit. now apply F3_VRa_enc.
  Qed.

  Lemma tupacc_node f g e1 i m t ts :
    AgE' f g e1 -> e_ty e1 = TTup ts -> nthN ts i = Some t ->
    AgE' (S f) g (Ex (ETupAcc e1 i) m t).
  Proof.
    intros IH Et Hi ph en E fT w E' o' Hrel Hrun.
    destruct fT as [|fT]; [discriminate Hrun|]. rewrite lower_expr_S in Hrun. cbn [lower_expr_body] in Hrun.
    minva Hrun as [wb wi] o0 H0. apply lift_res_inv in H0. destruct H0 as [Hoff ->].
    minva Hrun as [w1 E1] o1 H1. minva Hrun as r o2 H2. apply lift_res_inv in H2. destruct H2 as [Hsl ->].
    apply ret_inv in Hrun. destruct Hrun as [Heq ->]. injection Heq as -> ->.
    rewrite sem_eval_tupacc. pose proof (IH ph en E fT _ _ _ Hrel H1) as IH1. revert IH1.
    destruct (Sem.eval f P en e1) as [[v en1]|r1 m1|c1|]; intro IH1; cbn [Sem.obind]; try exact I; [|exact IH1].
    destruct IH1 as (-> & [HV Hfit] & Hrel1). rewrite Et in HV, Hfit, Hoff.
    pose proof HV as HV'. apply has_enc_inv in HV' as (vs & -> & Hs).
    pose proof (has_encs_length P ts vs w1 Hs) as Hlen.
    rewrite nthN_spec in Hi. destruct (nth_error_same_length ts vs _ t Hlen Hi) as (vi & Hvi).
    rewrite <- nthN_spec in Hi. rewrite <- nthN_spec in Hvi. rewrite Hvi.
    destruct (has_enc_tuple_proj P ts vs w1 i wb wi t vi HV Hfit Hoff Hi Hvi) as (wx & Hwx & Hex).
    assert (wx = r) as -> by congruence. cbn [e_ty]. rsplit; [exact Hex| |exact Hrel1].
    rewrite nthN_spec in Hi. exact (Forall_nth_error _ _ _ _ (ty_fits_tup P ts Hfit) Hi).
  Qed.

  (* ---------------------------------------------------------------- 2. structs *)

  (* the field expressions of a literal, in the order of the definition *)
  Lemma structlit_node f g name fields def es m t :
    assocN name (p_structs P) = Some def -> nodupN (map fst fields) = true ->
    struct_exprs fields def = Some es -> Forall (AgE' f g) es ->
    map e_ty es = map snd def -> t = TStruct name -> ty_fits P t ->
    AgE' (S f) g (Ex (EStructLit name fields) m t).
  Proof.
    intros Hd Hnd Hse Hes Hty Et Hfit ph en E fT w E' o' Hrel Hrun.
    destruct fT as [|fT]; [discriminate Hrun|]. rewrite lower_expr_S in Hrun. cbn [lower_expr_body] in Hrun.
    rewrite Hd in Hrun. minva Hrun as [ws E1] o1 H1.
    apply ret_inv in Hrun. destruct Hrun as [Heq ->]. injection Heq as -> ->.
    rewrite lower_struct_fields_list with (es := es) in H1
      by (rewrite struct_exprs_rev; [exact Hse|now apply nodupN_NoDup]).
    rewrite sem_eval_structlit, Hd, (sem_struct_fields_list f fields def es en Hse).
    pose proof (list_agrees f g es Hes en E fT _ _ _ Hrel H1) as IH1. revert IH1.
    destruct (sem_eval_list f es en) as [[vs en1]|r1 m1|c1|]; intro IH1; cbn [Sem.obind]; try exact I; [|exact IH1].
    destruct IH1 as (-> & HVs & Hrel1). cbn [e_ty]. rsplit; [|exact Hfit|exact Hrel1].
    subst t. apply (has_enc_struct_lit P name def vs ws Hd). rewrite <- Hty. now apply F3_VRa_enc.
  Qed.

  Lemma fld_node f g e1 fld m t name def k :
    AgE' f g e1 -> e_ty e1 = TStruct name -> assocN name (p_structs P) = Some def ->
    Sem.index_of fld (map fst def) 0 = Some k -> nthN (map snd def) k = Some t ->
    AgE' (S f) g (Ex (EFld e1 fld) m t).
  Proof.
    intros IH Et Hd Hk Ht ph en E fT w E' o' Hrel Hrun.
    destruct fT as [|fT]; [discriminate Hrun|]. rewrite lower_expr_S in Hrun. cbn [lower_expr_body] in Hrun.
    rewrite Et in Hrun.
    minva Hrun as [w1 E1] o1 H1. minva Hrun as [wb wi] o0 H0. apply lift_res_inv in H0. destruct H0 as [Hoff ->].
    minva Hrun as r o2 H2. apply lift_res_inv in H2. destruct H2 as [Hsl ->].
    apply ret_inv in Hrun. destruct Hrun as [Heq ->]. injection Heq as -> ->.
    rewrite sem_eval_fld, Et. pose proof (IH ph en E fT _ _ _ Hrel H1) as IH1. revert IH1.
    destruct (Sem.eval f P en e1) as [[v en1]|r1 m1|c1|]; intro IH1; cbn [Sem.obind]; try exact I; [|exact IH1].
    destruct IH1 as (-> & [HV Hfit] & Hrel1). rewrite Et in HV, Hfit.
    pose proof HV as HV'. apply has_enc_inv in HV' as (def' & vs & -> & Hd' & Hs).
    assert (def' = def) as -> by congruence. rewrite Hd, Hk.
    pose proof (has_encs_length P _ vs w1 Hs) as Hlen.
    rewrite nthN_spec in Ht. destruct (nth_error_same_length _ vs _ t Hlen Ht) as (vi & Hvi).
    rewrite <- nthN_spec in Ht. rewrite <- nthN_spec in Hvi. rewrite Hvi.
    destruct (has_enc_struct_proj P name def vs w1 fld wb wi k vi HV Hfit Hd Hoff Hk Hvi) as (ti & wx & Hti & Hwx & Hex).
    assert (ti = t) as -> by congruence. assert (wx = r) as -> by congruence.
    cbn [e_ty]. rsplit; [exact Hex| |exact Hrel1].
    rewrite nthN_spec in Ht. exact (Forall_nth_error _ _ _ _ (ty_fits_struct_def P name def Hfit Hd) Ht).
  Qed.

  (* ---------------------------------------------------------------- 3. array literals, repeated
     arrays, ranges *)

  Lemma arrlit_node f g es m t el :
    Forall (AgE' f g) es -> Forall (fun e => e_ty e = el) es -> t = TArr el (lenN es) -> ty_fits P t ->
    AgE' (S f) g (Ex (EArrLit es) m t).
  Proof.
    intros Hes Hel Et Hfit ph en E fT w E' o' Hrel Hrun.
    destruct fT as [|fT]; [discriminate Hrun|]. rewrite lower_expr_S in Hrun. cbn [lower_expr_body] in Hrun.
    minva Hrun as [ws E1] o1 H1. apply ret_inv in Hrun. destruct Hrun as [Heq ->]. injection Heq as -> ->.
    rewrite sem_eval_arrlit. pose proof (list_agrees f g es Hes en E fT _ _ _ Hrel H1) as IH1. revert IH1.
    destruct (sem_eval_list f es en) as [[vs en1]|r1 m1|c1|]; intro IH1; cbn [Sem.obind]; try exact I; [|exact IH1].
    destruct IH1 as (-> & HVs & Hrel1). cbn [e_ty]. rsplit; [|exact Hfit|exact Hrel1].
    apply F3_VRa_enc in HVs. pose proof (F3_lengths _ _ _ _ HVs) as [Hl _]. rewrite map_length in Hl.
    assert (Hf2 : Forall2 (has_enc P el) vs ws).
    { apply (F3_same_l (has_enc P) el (map e_ty es)); [|exact HVs].
      apply Forall_forall. intros x Hx. apply in_map_iff in Hx as (e & <- & He).
      rewrite Forall_forall in Hel. now apply Hel. }
    subst t. replace (lenN es) with (lenN vs) by (unfold lenN; now rewrite Hl).
    now apply has_enc_array_lit.
  Qed.

  Lemma arrrep_node f g e1 n m t :
    AgE' f g e1 -> t = TArr (e_ty e1) n -> ty_fits P t ->
    AgE' (S f) g (Ex (EArrRep e1 n) m t).
  Proof.
    intros IH Et Hfit ph en E fT w E' o' Hrel Hrun.
    destruct fT as [|fT]; [discriminate Hrun|]. rewrite lower_expr_S in Hrun. cbn [lower_expr_body] in Hrun.
    minva Hrun as [w1 E1] o1 H1. minva Hrun as w2 o2 H2. unfold m_extend in H2.
    apply lift_res_inv in H2. destruct H2 as [Hext ->].
    apply ret_inv in Hrun. destruct Hrun as [Heq ->]. injection Heq as -> ->.
    rewrite sem_eval_arrrep. pose proof (IH ph en E fT _ _ _ Hrel H1) as IH1. revert IH1.
    destruct (Sem.eval f P en e1) as [[v en1]|r1 m1|c1|]; intro IH1; cbn [Sem.obind]; try exact I; [|exact IH1].
    destruct IH1 as (-> & [HV Hf1] & Hrel1).
    rewrite (has_enc_extend_id P _ v w1 _ HV Hf1) in Hext. injection Hext as <-.
    cbn [e_ty]. rsplit; [|exact Hfit|exact Hrel1]. subst t. now apply has_enc_array_rep.
  Qed.

  Lemma range_node f g lo hi bits m t :
    t = TArr (TInt false bits) (hi - lo) -> (hi <=? 2 ^ bits) = true ->
    AgE' f g (Ex (ERange lo hi bits) m t).
  Proof.
    intros Et Hhi ph en E fT w E' o' Hrel Hrun. apply N.leb_le in Hhi.
    destruct fT as [|fT]; [discriminate Hrun|]. rewrite lower_expr_S in Hrun. cbn [lower_expr_body] in Hrun.
    destruct (N.ltb_spec hi lo) as [Hlt|Hle]; [discriminate Hrun|].
    apply ret_inv in Hrun. destruct Hrun as [Heq ->]. injection Heq as -> ->.
    destruct f as [|f]; [exact I|]. rewrite sem_eval_range. cbn [e_ty].
    rsplit; [|subst t; apply ty_fits_arr_int|exact Hrel]. subst t.
    apply has_enc_arr_iff. split; [unfold lenN; rewrite map_length, seq_length; lia|].
    eexists. split; [|reflexivity]. apply Forall2_map_map. intros k Hk. apply in_seq in Hk.
    rewrite TSemControl.tsem_unsigned_as_wires.
    replace (Z.of_N lo + Z.of_nat k)%Z with (Z.of_N (lo + N.of_nat k)) by lia.
    apply HE_int. apply (in_range_of_bounds false). split; [lia|].
    rewrite <- pow2_N_Z. lia.
  Qed.
  (* ---------------------------------------------------------------- 4. indexing with a
     dynamic index *)

  Lemma idx_node f g a i m t n b :
    AgE' f g a -> AgE' f g i ->
    e_ty a = TArr t n -> e_ty i = TInt false b -> (b <=? 32) = true -> (n <? 2 ^ 32) = true ->
    AgE' (S f) g (Ex (EIdx a i) m t).
  Proof.
    intros IHa IHi Eta Eti Hb Hn ph en E fT w E' o' Hrel Hrun.
    apply N.ltb_lt in Hn.
    destruct fT as [|fT]; [discriminate Hrun|]. rewrite lower_expr_S in Hrun. cbn [lower_expr_body] in Hrun.
    rewrite Eta in Hrun. cbn [array_size] in Hrun.
    minva Hrun as [eb0 ne] o0 H0. apply lift_res_inv in H0. destruct H0 as [H0 ->]. injection H0 as <- <-.
    minva Hrun as [arr E1] o1 H1. minva Hrun as [idx E2] o2 H2. minva Hrun as [r idx'] o3 H3.
    apply ret_inv in Hrun. destruct Hrun as [Heq ->]. injection Heq as -> ->.
    cbn [e_ty] in H3. rewrite sem_eval_idx.
    pose proof (IHa ph en E fT _ _ _ Hrel H1) as IH1. revert IH1.
    destruct (Sem.eval f P en a) as [[va en1]|r1 m1|c1|]; intro IH1; cbn [Sem.obind]; try exact I.
    2:{ subst o1. pose proof (stk_expr _ fT i E1 _ _ H2) as ->. exact (stkx_array_read _ _ _ _ _ _ _ _ H3). }
    destruct IH1 as (-> & HVa & Hrel1).
    pose proof (IHi ph en1 E1 fT _ _ _ Hrel1 H2) as IH2. revert IH2.
    destruct (Sem.eval f P en1 i) as [[vi en2]|r2 m2|c2|]; intro IH2; cbn [Sem.obind]; try exact I.
    2:{ subst o2. exact (stkx_array_read _ _ _ _ _ _ _ _ H3). }
    destruct IH2 as (-> & HVi & Hrel2). rewrite Eta in HVa. rewrite Eti in HVi.
    destruct HVa as [HVa Hfa]. destruct (VRa_index b vi idx HVi Hb) as (z & -> & Hz0 & Hbz & Hli).
    pose proof HVa as HVa'. apply has_enc_inv in HVa' as (vs & -> & _ & _).
    destruct (has_enc_array_elems P t n vs arr HVa Hfa) as (elems & -> & Hf2 & Hall & Hle & Hlv & _).
    pose proof (ty_fits_arr P t n Hfa) as Hft.
    assert (Hlvs : length vs = N.to_nat n) by (unfold lenN in Hlv; lia).
    destruct (N.to_nat n) as [|n'] eqn:En.
    - (* no elements: always out of bounds *)
      destruct elems; [|discriminate Hle]. cbn [concat] in H3.
      rewrite tsem_array_read_empty in H3 by exact Hli. injection H3 as _ _ <-.
      rewrite Hlvs. replace ((0 <=? z)%Z && (z <? Z.of_nat 0)%Z) with false; [apply pcode_oob|].
      symmetry. apply andb_false_iff. right. apply Z.ltb_ge. lia.
    - rewrite (tsem_array_read_any elems idx (szn P t) (S n') m None) in H3; try assumption; try lia.
      injection H3 as <- _ <-. rewrite Hbz, Hlvs.
      destruct (Z.ltb_spec z (Z.of_nat (S n'))) as [Hlt|Hge].
      + replace (0 <=? z)%Z with true by (symmetry; apply Z.leb_le; exact Hz0). cbn [andb].
        match goal with |- context [?a <=? Z.to_N z] => destruct (N.leb_spec a (Z.to_N z)) as [Hc|_]; [lia|] end.
        destruct (nth_error vs (Z.to_nat z)) as [v|] eqn:Ev.
        2:{ apply nth_error_None in Ev. lia. }
        cbn [e_ty push_spec]. split; [reflexivity|]. split; [split; [|exact Hft]|exact Hrel2].
        rewrite Z_N_nat. exact (F2_has_enc_nth P t vs elems _ v _ Hf2 Ev).
      + rewrite andb_false_r.
        match goal with |- context [?a <=? Z.to_N z] => destruct (N.leb_spec a (Z.to_N z)) as [_|Hc]; [apply pcode_oob|lia] end.
  Qed.
  (* ---------------------------------------------------------------- 5. assignment through
     accessors

     Sem.v: the assigned value, then the READ PHASE (the accessors are walked through the value
     the variable has before the index expressions are evaluated: every index is evaluated and
     checked against the length in turn), then the variable is re-read and [write_path] replaces
     the addressed component.  Lower.v: the value, [assign_indexes] (all index expressions, each
     extended to 32 bits and checked against the STATIC length of the accessor's array type),
     then the variable is read, [assign_forward] reads along the accessors, [assign_backward]
     writes back ([array_write] / [splice]).  Values of array type have the static length, so
     the two sequences of checks coincide; the first failing check wins on both sides. *)

  Lemma sem_exec_assign f en x accs e m :
    Sem.exec (S f) P en (St (SAssign x accs e) m) =
    Sem.obind (Sem.eval f P en e) (fun '(nv, en0) =>
      match Sem.lookup_var en0 x with
      | None => Sem.Stuck 61
      | Some cur =>
          Sem.obind (sem_read f m accs cur en0 []) (fun '(path, en2) =>
            match Sem.lookup_var en2 x with
            | Some cur2 =>
                match Sem.write_path cur2 path nv with
                | Some whole =>
                    match Sem.assign_var en2 x whole with
                    | Some en3 => Sem.Done (Sem.unit_val, en3)
                    | None => Sem.Stuck 70
                    end
                | None => Sem.Stuck 71
                end
            | None => Sem.Stuck 72
            end)
      end).
  Proof. reflexivity. Qed.

  (* a well-typed accessor chain from the type [tcur] to the type [tf]; the index expressions
     agree; side conditions as for [idx_node] *)
  Inductive acc_ok (f : nat) (g : tenv) : list accessor -> ty -> ty -> Prop :=
  | AO_nil t : acc_ok f g [] t t
  | AO_idx ie r el n b tf :
      AgE' f g ie -> e_ty ie = TInt false b -> (b <=? 32) = true -> (n <? 2 ^ 32) = true ->
      acc_ok f g r el tf ->
      acc_ok f g (AIdx (TArr el n) ie :: r) (TArr el n) tf
  | AO_tup i r ts ti tf :
      nthN ts i = Some ti -> acc_ok f g r ti tf ->
      acc_ok f g (ATup (TTup ts) i :: r) (TTup ts) tf
  | AO_fld fld r name def k tk tf :
      assocN name (p_structs P) = Some def -> Sem.index_of fld (map fst def) 0 = Some k ->
      nthN (map snd def) k = Some tk -> acc_ok f g r tk tf ->
      acc_ok f g (AFld (TStruct name) fld :: r) (TStruct name) tf.

  (* the resolved path of Sem.v against the index wires of Lower.v *)
  Lemma read_agrees {ph} f g m : forall accs tcur tf, acc_ok f g accs tcur tf ->
    forall cur wc en E fT prev acc_rev idxs E' o',
    has_enc P tcur cur wc -> ty_fits P tcur -> rel ph en E g ->
    assign_indexes tops P (lower_expr tops fT P) m accs E acc_rev None = Ok ((idxs, E'), o') ->
    match sem_read f m accs cur en prev with
    | Sem.Done (path, en') =>
        o' = None /\ rel ph en' E' g /\
        exists p iws, path = rev prev ++ p /\ idxs = rev acc_rev ++ iws /\ path_rel accs p iws
    | Sem.Panicked r m' => o' = Some (pcode r m')
    | _ => True
    end.
  Proof.
    induction 1 as [t|ie r el n b tf IHie Eti Hb Hn _ IH|i r ts ti tf Hi _ IH|fld r name def k tk tf Hd Hk Htk _ IH];
      intros cur wc en E fT prev acc_rev idxs E' o' HV Hfit Hrel Hrun.
    - cbn [assign_indexes] in Hrun. apply ret_inv in Hrun. destruct Hrun as [Heq ->]. injection Heq as -> ->.
      cbn [TSemSemAgg.sem_read]. split; [reflexivity|]. split; [exact Hrel|].
      exists [], []. rewrite !app_nil_r. rsplit. constructor.
    - cbn [assign_indexes array_size] in Hrun.
      minva Hrun as [eb0 ne] o0 H0. apply lift_res_inv in H0. destruct H0 as [H0 ->]. injection H0 as <- <-.
      minva Hrun as [iw E1] o1 H1. minva Hrun as iw' o2 H2. minva Hrun as u o3 H3.
      change (sem_read f m (AIdx (TArr el n) ie :: r) cur en prev) with
        (Sem.obind (Sem.eval f P en ie) (fun '(vi, en1) =>
            match cur, vi with
            | Sem.VArr vs, Sem.VInt z =>
                if (0 <=? z)%Z && (z <? Z.of_nat (length vs))%Z then
                  match nth_error vs (Z.to_nat z) with
                  | Some sub => sem_read f m r sub en1 (Sem.RIdx (Z.to_N z) :: prev)
                  | None => Sem.Stuck 62
                  end
                else Sem.Panicked Sem.ROutOfBounds m
            | _, _ => Sem.Stuck 63
            end)).
      pose proof (IHie ph en E fT _ _ _ Hrel H1) as IH1. revert IH1.
      destruct (Sem.eval f P en ie) as [[vi en1]|r1 m1|c1|]; intro IH1; cbn [Sem.obind]; try exact I.
      2:{ subst o1. unfold m_extend in H2. pose proof (stkx_lift _ _ _ _ H2) as ->.
          pose proof (stkx_bounds_check _ _ _ _ _ _ H3) as ->.
          exact (stkx_assign_indexes _ P _ (stk_expr _ fT) m r E1 _ _ _ Hrun). }
      destruct IH1 as (-> & HVi & Hrel1). rewrite Eti in HVi.
      destruct (VRa_index b vi iw HVi Hb) as (z & -> & Hz0 & Hbz & Hli).
      rewrite tsem_m_extend_index in H2 by exact Hli. injection H2 as <- <-.
      pose proof (extend_s_length iw false USZ Hli) as Hl'.
      pose proof (zext_correct iw USZ) as Hzx.
      apply N.ltb_lt in Hn.
      rewrite tsem_bounds_check in H3 by (try exact Hl'; lia). injection H3 as _ <-.
      pose proof HV as HV'. apply has_enc_inv in HV' as (vs & -> & Hlv & Hs).
      assert (Hlvs : length vs = N.to_nat n) by (unfold lenN in Hlv; lia).
      rewrite Hzx, Hbz, N2Nat.id in Hrun. rewrite Hlvs.
      destruct (Z.ltb_spec z (Z.of_nat (N.to_nat n))) as [Hlt|Hge].
      + replace (0 <=? z)%Z with true by (symmetry; apply Z.leb_le; exact Hz0). cbn [andb].
        destruct (N.leb_spec n (Z.to_N z)) as [Hc|_]; [lia|]. cbn [push_spec] in Hrun.
        destruct (nth_error vs (Z.to_nat z)) as [sub|] eqn:Ev.
        2:{ apply nth_error_None in Ev. lia. }
        destruct (has_enc_array_proj P el n vs wc _ sub HV Hfit Ev) as (wsub & _ & Hsub).
        pose proof (IH sub wsub en1 E1 fT (Sem.RIdx (Z.to_N z) :: prev) _ _ _ _ Hsub (ty_fits_arr P el n Hfit) Hrel1 Hrun) as IH2.
        revert IH2. destruct (sem_read f m r sub en1 (Sem.RIdx (Z.to_N z) :: prev)) as [[path en2]|r2 m2|c2|];
          intro IH2; try exact I; [|exact IH2].
        destruct IH2 as (-> & Hrel2 & p & iws & -> & -> & Hpr). split; [reflexivity|]. split; [exact Hrel2|].
        exists (Sem.RIdx (Z.to_N z) :: p), (extend_s iw false USZ :: iws). cbn [rev]. rewrite <- !app_assoc.
        split; [reflexivity|]. split; [reflexivity|]. rewrite <- Hbz, <- Hzx.
        constructor; [exact Hl'|rewrite Hzx, Hbz; lia|exact Hpr].
      + rewrite andb_false_r.
        destruct (N.leb_spec n (Z.to_N z)) as [_|Hc]; [|lia]. cbn [push_spec] in Hrun.
        exact (stkx_assign_indexes _ P _ (stk_expr _ fT) m r E1 _ _ _ Hrun).
    - cbn [assign_indexes] in Hrun. apply has_enc_inv in HV as (vs & -> & Hs).
      pose proof (has_encs_length P ts vs wc Hs) as Hlen.
      rewrite nthN_spec in Hi. destruct (nth_error_same_length ts vs _ ti Hlen Hi) as (sub & Hsub).
      destruct (has_encs_nth _ ts vs wc ti sub Hs Hi Hsub) as (wsub & Hes).
      change (sem_read f m (ATup (TTup ts) i :: r) (Sem.VTup vs) en prev) with
        (match nthN vs i with
         | Some sub => sem_read f m r sub en (Sem.RPos i :: prev)
         | None => Sem.Stuck 64 end).
      rewrite nthN_spec, Hsub.
      pose proof (IH sub wsub en E fT (Sem.RPos i :: prev) _ _ _ _ Hes
                    (Forall_nth_error _ _ _ _ (ty_fits_tup P ts Hfit) Hi) Hrel Hrun) as IH2.
      revert IH2. destruct (sem_read f m r sub en (Sem.RPos i :: prev)) as [[path en2]|r2 m2|c2|];
        intro IH2; try exact I; [|exact IH2].
      destruct IH2 as (-> & Hrel2 & p & iws & -> & -> & Hpr). split; [reflexivity|]. split; [exact Hrel2|].
      exists (Sem.RPos i :: p), iws. cbn [rev]. rewrite <- app_assoc.
      split; [reflexivity|]. split; [reflexivity|]. now constructor.
    - cbn [assign_indexes] in Hrun. apply has_enc_inv in HV as (def' & vs & -> & Hd' & Hs).
      assert (def' = def) as -> by congruence.
      pose proof (has_encs_length P _ vs wc Hs) as Hlen.
      rewrite nthN_spec in Htk. destruct (nth_error_same_length _ vs _ tk Hlen Htk) as (sub & Hsub).
      destruct (has_encs_nth _ _ vs wc tk sub Hs Htk Hsub) as (wsub & Hes).
      change (sem_read f m (AFld (TStruct name) fld :: r) (Sem.VTup vs) en prev) with
        (match assocN name (p_structs P) with
         | Some def =>
             match Sem.index_of fld (map fst def) 0 with
             | Some k => match nthN vs k with
                         | Some sub => sem_read f m r sub en (Sem.RPos k :: prev)
                         | None => Sem.Stuck 66 end
             | None => Sem.Stuck 67
             end
         | None => Sem.Stuck 68
         end).
      rewrite Hd, Hk, nthN_spec, Hsub.
      pose proof (IH sub wsub en E fT (Sem.RPos k :: prev) _ _ _ _ Hes
                    (Forall_nth_error _ _ _ _ (ty_fits_struct_def P name def Hfit Hd) Htk) Hrel Hrun) as IH2.
      revert IH2. destruct (sem_read f m r sub en (Sem.RPos k :: prev)) as [[path en2]|r2 m2|c2|];
        intro IH2; try exact I; [|exact IH2].
      destruct IH2 as (-> & Hrel2 & p & iws & -> & -> & Hpr). split; [reflexivity|]. split; [exact Hrel2|].
      exists (Sem.RPos k :: p), iws. cbn [rev]. rewrite <- app_assoc.
      split; [reflexivity|]. split; [reflexivity|]. now apply (PR_fld name def).
  Qed.
  (* PHASE B: reading along the accessors and writing back *)
  Lemma write_agrees f g m : forall accs tcur tf, acc_ok f g accs tcur tf ->
    forall path iws, path_rel accs path iws ->
    forall cur coll acc (o : pobs) accessed o1, has_enc P tcur cur coll -> ty_fits P tcur ->
    assign_forward tops P accs coll iws acc o = Ok (accessed, o1) ->
    o1 = o /\ exists items, accessed = items ++ acc /\
    forall nv value, has_enc P tf nv value ->
      exists whole wv, Sem.write_path cur path nv = Some whole /\ has_enc P tcur whole wv /\
        forall o2, assign_backward tops m items value o2 = Ok (wv, o2).
  Proof.
    induction 1 as [t|ie r el n b tf IHie Eti Hb Hn _ IH|i r ts ti tf Hi _ IH|fld r name def k tk tf Hd Hk Htk _ IH];
      intros path iws Hpr cur coll acc o accessed o1 HV Hfit Hrun.
    - inversion Hpr; subst. cbn [assign_forward] in Hrun. apply ret_inv in Hrun. destruct Hrun as [-> ->].
      split; [reflexivity|]. exists []. split; [reflexivity|]. intros nv value Hnv.
      exists nv, value. cbn [Sem.write_path assign_backward]. auto.
    - inversion Hpr as [|el' n' ie' r' p iw iws' Hliw Hlt Hpr'| |]; subst.
      cbn [assign_forward array_size] in Hrun.
      minva Hrun as [eb0 ne] o0 H0. apply lift_res_inv in H0. destruct H0 as [H0 ->]. injection H0 as <- <-.
      minva Hrun as arr' o2 H2.
      apply N.ltb_lt in Hn.
      pose proof HV as HV'. apply has_enc_inv in HV' as (vs & -> & _ & _).
      destruct (has_enc_array_elems P el n vs coll HV Hfit) as (elems & -> & Hf2 & Hall & Hle & Hlv & _).
      assert (Hlvs : length vs = N.to_nat n) by (unfold lenN in Hlv; lia).
      rewrite (tsem_index_layers_in_bounds_any iw elems (szn P el) o (repeat true (szn P el))) in H2;
        try assumption; try (unfold lenN; rewrite ?Hliw, ?Hle; unfold USZ; lia).
      injection H2 as <- <-.
      set (kk := N.to_nat (bits_to_N iw)) in *.
      assert (Hkk : (kk < length vs)%nat) by (unfold kk; lia).
      destruct (nth_error vs kk) as [sub|] eqn:Ev; [|apply nth_error_None in Ev; lia].
      pose proof (F2_has_enc_nth P el vs elems kk sub (repeat true (szn P el)) Hf2 Ev) as Hsub.
      pose proof (ty_fits_arr P el n Hfit) as Hfel.
      pose proof (has_enc_length P el sub _ Hsub Hfel) as Hlsub.
      assert (Hne : match nth kk elems (repeat true (szn P el)) with
                    | [] => repeat (wF tops) (szn P el)
                    | _ :: _ => nth kk elems (repeat true (szn P el)) end
                    = nth kk elems (repeat true (szn P el))).
      { destruct (nth kk elems (repeat true (szn P el))); [cbn [length] in Hlsub; rewrite <- Hlsub; reflexivity|reflexivity]. }
      rewrite Hne in Hrun.
      destruct (IH p iws' Hpr' sub _ _ _ _ _ Hsub Hfel Hrun) as (-> & items & -> & Hback).
      split; [reflexivity|].
      exists (items ++ [(concat elems, szn P el, N.to_nat n, Some iw)]). split; [now rewrite <- app_assoc|].
      intros nv value Hnv. destruct (Hback nv value Hnv) as (sub' & wv' & Hwp & Hsub' & Hb').
      pose proof (set_nth_val_some vs kk sub' sub Ev) as Hset.
      exists (Sem.VArr (firstn kk vs ++ sub' :: skipn (S kk) vs)),
             (concat (list_set elems kk wv')).
      split; [|split].
      + cbn [Sem.write_path]. rewrite nthN_spec. fold kk. now rewrite Ev, Hwp, Hset.
      + apply has_enc_arr_iff. split.
        * unfold lenN. rewrite (set_nth_val_length _ _ _ _ Hset). lia.
        * eexists. split; [|reflexivity]. exact (F2_has_enc_list_set P el vs elems kk sub' wv' _ Hf2 Hsub' Hset).
      + intro o2. rewrite assign_backward_app. unfold mbind at 1. rewrite Hb'.
        cbn [assign_backward]. rewrite <- Hle. unfold mbind.
        rewrite (tsem_array_write_any elems iw wv' (szn P el) m o2); try assumption;
          try (unfold lenN; rewrite ?Hliw, ?Hle; unfold USZ; lia).
        2:{ exact (has_enc_length P el sub' wv' Hsub' Hfel). }
        fold kk. unfold ret.
        destruct (N.leb_spec (lenN elems) (bits_to_N iw)) as [Hc|_]; [unfold lenN in Hc; lia|].
        now rewrite push_spec_false.
    - inversion Hpr as [| |tty i' r' p iws' Hpr'|]; subst.
      cbn [assign_forward] in Hrun.
      minva Hrun as [wb wi] o0 H0. apply lift_res_inv in H0. destruct H0 as [Hoff ->].
      minva Hrun as coll' o2 H2. apply lift_res_inv in H2. destruct H2 as [Hsl ->].
      pose proof HV as HV'. apply has_enc_inv in HV' as (vs & -> & Hs).
      pose proof (has_encs_length P ts vs coll Hs) as Hlen.
      pose proof Hi as Hi'. rewrite nthN_spec in Hi'.
      destruct (nth_error_same_length ts vs _ ti Hlen Hi') as (sub & Hsub).
      pose proof Hsub as Hsub'. rewrite <- nthN_spec in Hsub'.
      destruct (has_enc_tuple_proj P ts vs coll i wb wi ti sub HV Hfit Hoff Hi Hsub') as (wx & Hwx & Hex).
      assert (wx = coll') as -> by congruence.
      pose proof (Forall_nth_error _ _ _ _ (ty_fits_tup P ts Hfit) Hi') as Hfti.
      destruct (IH p iws Hpr' sub _ _ _ _ _ Hex Hfti Hrun) as (-> & items & -> & Hback).
      split; [reflexivity|].
      exists (items ++ [(coll, wb, wi, None)]). split; [now rewrite <- app_assoc|].
      intros nv value Hnv. destruct (Hback nv value Hnv) as (sub' & wv' & Hwp & Hsubenc & Hb').
      pose proof (set_nth_val_some vs (N.to_nat i) sub' sub Hsub) as Hset.
      destruct (has_enc_tuple_update P ts vs coll i wb wi ti sub' wv' _ HV Hfit Hoff Hi Hsubenc Hset) as (w' & Hsp & Hw').
      exists (Sem.VTup (firstn (N.to_nat i) vs ++ sub' :: skipn (S (N.to_nat i)) vs)), w'.
      split; [|split; [exact Hw'|]].
      + cbn [Sem.write_path]. now rewrite Hsub', Hwp, Hset.
      + intro o2. rewrite assign_backward_app. unfold mbind at 1. rewrite Hb'.
        cbn [assign_backward]. unfold mbind. now rewrite Hsp.
    - inversion Hpr as [| | |name' def' fld' k' r' p iws' Hd' Hk' Hpr']; subst.
      assert (def' = def) as -> by congruence. assert (k' = k) as -> by congruence.
      cbn [assign_forward] in Hrun.
      minva Hrun as [wb wi] o0 H0. apply lift_res_inv in H0. destruct H0 as [Hoff ->].
      minva Hrun as coll' o2 H2. apply lift_res_inv in H2. destruct H2 as [Hsl ->].
      pose proof HV as HV'. apply has_enc_inv in HV' as (def' & vs & -> & Hd'' & Hs).
      assert (def' = def) as -> by congruence.
      pose proof (has_encs_length P _ vs coll Hs) as Hlen.
      pose proof Htk as Htk'. rewrite nthN_spec in Htk'.
      destruct (nth_error_same_length _ vs _ tk Hlen Htk') as (sub & Hsub).
      pose proof Hsub as Hsub'. rewrite <- nthN_spec in Hsub'.
      destruct (has_enc_struct_proj P name def vs coll fld wb wi k sub HV Hfit Hd Hoff Hk Hsub')
        as (ti & wx & Hti & Hwx & Hex).
      assert (ti = tk) as -> by congruence. assert (wx = coll') as -> by congruence.
      pose proof (Forall_nth_error _ _ _ _ (ty_fits_struct_def P name def Hfit Hd) Htk') as Hftk.
      destruct (IH p iws Hpr' sub _ _ _ _ _ Hex Hftk Hrun) as (-> & items & -> & Hback).
      split; [reflexivity|].
      exists (items ++ [(coll, wb, wi, None)]). split; [now rewrite <- app_assoc|].
      intros nv value Hnv. destruct (Hback nv value Hnv) as (sub' & wv' & Hwp & Hsubenc & Hb').
      pose proof (set_nth_val_some vs (N.to_nat k) sub' sub Hsub) as Hset.
      destruct (has_enc_struct_update P name def vs coll fld wb wi k sub' wv' _ tk HV Hfit Hd Hoff Hk Htk Hsubenc Hset)
        as (w' & Hsp & Hw').
      exists (Sem.VTup (firstn (N.to_nat k) vs ++ sub' :: skipn (S (N.to_nat k)) vs)), w'.
      split; [|split; [exact Hw'|]].
      + cbn [Sem.write_path]. now rewrite Hsub', Hwp, Hset.
      + intro o2. rewrite assign_backward_app. unfold mbind at 1. rewrite Hb'.
        cbn [assign_backward]. unfold mbind. now rewrite Hsp.
  Qed.

  (* x.accs = e : the variable is mutable-or-not as the context says (the checker requires
     mutability; the agreement does not need it) *)
  Lemma assign_acc_node f g x accs e m tx :
    AgE' f g e -> tlookup g x = Some (tx, true) -> acc_ok f g accs tx (e_ty e) ->
    AgS' (S f) g g unit_ty (St (SAssign x accs e) m).
  Proof.
    intros IH Hlk Hacc ph en E fT w E' o' Hrel Hrun. destruct fT as [|fT]; [discriminate Hrun|].
    rewrite lower_stmt_S in Hrun. cbn [lower_stmt_body] in Hrun.
    minva Hrun as [value E1] o1 He.
    minva Hrun as [idxs E2] o2 H2.
    minva Hrun as coll o3 H3.
    minva Hrun as accessed o4 H4.
    minva Hrun as value' o5 H5.
    minva Hrun as E3 o6 H6. apply lift_res_inv in H6. destruct H6 as [Ha ->].
    apply ret_inv in Hrun. destruct Hrun as [Heq ->]. injection Heq as -> ->.
    assert (Hstk : forall x0, o2 = Some x0 -> o5 = Some x0).
    { intros x0 ->. assert (o3 = Some x0) as ->.
      { destruct (env_get E2 x); [apply ret_inv in H3; now destruct H3|discriminate H3]. }
      pose proof (stkx_assign_forward _ P accs coll idxs [] _ _ H4) as ->.
      exact (stkx_assign_backward _ m accessed value _ _ H5). }
    rewrite sem_exec_assign. pose proof (IH (false :: ph) en E fT _ _ _ Hrel He) as IH1. revert IH1.
    destruct (Sem.eval f P en e) as [[nv en0]|r1 m1|c1|]; intro IH1; cbn [Sem.obind]; try exact I.
    2:{ subst o1. apply Hstk. exact (stkx_assign_indexes _ P _ (stk_expr _ fT) m accs E1 _ _ _ H2). }
    destruct IH1 as (-> & [HVnv Hfnv] & Hrel1).
    destruct (rel_lookup VRa _ _ _ _ _ _ Hrel1 Hlk) as (cur & w0 & Hcur & _ & [HVcur Hfcur]). rewrite Hcur.
    pose proof (read_agrees f g m accs tx (e_ty e) Hacc cur w0 en0 E1 fT [] [] _ _ _ HVcur Hfcur Hrel1 H2) as IH2.
    revert IH2. destruct (sem_read f m accs cur en0 []) as [[path en2]|r2 m2|c2|]; intro IH2; cbn [Sem.obind]; try exact I.
    2:{ now apply Hstk. }
    destruct IH2 as (-> & Hrel2 & p & iws & -> & -> & Hpr). cbn [rev app] in *.
    destruct (rel_lookup VRa _ _ _ _ _ _ Hrel2 Hlk) as (cur2 & coll2 & Hcur2 & Hcoll2 & [HVcur2 _]). rewrite Hcur2.
    rewrite Hcoll2 in H3. apply ret_inv in H3. destruct H3 as [-> ->].
    destruct (write_agrees f g m accs tx (e_ty e) Hacc p iws Hpr cur2 coll2 [] None _ _ HVcur2 Hfcur H4)
      as (-> & items & -> & Hback).
    destruct (Hback nv value HVnv) as (whole & wv & Hwp & Hwhole & Hb). rewrite Hwp.
    rewrite app_nil_r, Hb in H5. injection H5 as <- <-.
    destruct (rel3_assign VRa gsc sglob glob Himm _ _ _ _ _ whole wv _ Hrel2 Hlk (conj Hwhole Hfcur) Ha) as (en3 & -> & Hrel3).
    split; [reflexivity|]. split; [exact VRa_unit|exact Hrel3].
  Qed.
  (* ---------------------------------------------------------------- 6. for loops over an
     array value, identifier pattern: one scope per iteration *)

  Lemma for_iter_agrees {ph} f g x mp tp body el g1 tb :
    AgSS f (tbind ([] :: g) x el false) body unit_ty g1 tb -> tl g1 = g -> ty_fits P el ->
    forall vs elems, Forall2 (has_enc P el) vs elems ->
    forall en E fT E' o', rel ph en E g ->
    for_iterations (lower_pattern tops fT P) (lower_stmt tops fT P) (Pat (PId x) mp tp) body (szn P el)
      (length elems) (concat elems) E None = Ok (E', o') ->
    match sem_for (S f) (Pat (PId x) mp tp) body vs en with
    | Sem.Done en' => o' = None /\ rel ph en' E' g
    | Sem.Panicked r m => o' = Some (pcode r m)
    | _ => True
    end.
  Proof.
    intros Hbody Htl Hfel vs elems Hf2. induction Hf2 as [|v e vs elems Hv _ IH]; intros en E fT E' o' Hrel Hrun.
    - cbn [length for_iterations] in Hrun. apply ret_inv in Hrun. destruct Hrun as [-> ->].
      cbn [TSemSemAgg.sem_for]. auto.
    - cbn [length for_iterations concat] in Hrun.
      pose proof (has_enc_length P el v e Hv Hfel) as Hle.
      minva Hrun as binding o0 H0. apply lift_res_inv in H0. destruct H0 as [Hsl ->].
      rewrite <- Hle in Hsl. pose proof (slice_mid [] e (concat elems)) as Hsm. cbn [app length] in Hsm.
      rewrite Hsm in Hsl. injection Hsl as <-. clear Hsm.
      minva Hrun as [c Ea] o1 Hp.
      destruct fT as [|fT]; [discriminate Hp|]. rewrite lower_pattern_S in Hp. cbn [lower_pattern_body] in Hp.
      minva Hp as Ea' o2 Hl. apply lift_res_inv in Hl. destruct Hl as [Hl ->].
      apply ret_inv in Hp. destruct Hp as [Heq ->]. injection Heq as _ ->.
      minva Hrun as Eb ob Hb. minva Hrun as Ec oc Hc. apply lift_res_inv in Hc. destruct Hc as [Hpop ->].
      rewrite <- Hle, (skipn_app_exact e) in Hrun by reflexivity.
      change (sem_for (S f) (Pat (PId x) mp tp) body (v :: vs) en) with
        (Sem.obind (Sem.exec_block (S f) P (Sem.bind_var (Sem.push_scope en) x v) body)
           (fun '(_, en1) => sem_for (S f) (Pat (PId x) mp tp) body vs (Sem.pop_scope en1))).
      rewrite exec_block_S.
      destruct (lower_stmts_block _ body [] _ _ _ _ Hb) as (wb & Hb').
      assert (Hrela : rel (false :: ph) (Sem.bind_var (Sem.push_scope en) x v) Ea' (tbind ([] :: g) x el false)).
      { eapply (rel_let VRa); [apply (rel_push VRa); exact Hrel|exact (conj Hv Hfel)|exact Hl]. }
      pose proof (stmts_node3 P VRa gsc sglob glob f _ _ _ _ _ Hbody ph _ _ (S fT) Sem.unit_val [] _ _ _ Hrela VRa_unit Hb') as IH1.
      revert IH1. destruct (sem_stmts P f body Sem.unit_val (Sem.bind_var (Sem.push_scope en) x v))
        as [[vb en1]|r1 m1|c1|]; intro IH1; cbn [Sem.obind]; try exact I.
      + destruct IH1 as (-> & _ & Hrel1).
        assert (Hrelc : rel ph (Sem.pop_scope en1) Ec g) by (rewrite <- Htl; eapply rel_pop3; [eassumption|eassumption|rewrite Htl; eapply rel_len; exact Hrel]).
        rewrite Hle in Hrun. exact (IH _ _ (S fT) _ _ Hrelc Hrun).
      + subst ob.
        exact (stkx_for_iterations _ _ _ (stk_pat _ (S fT)) (stk_stmt _ (S fT)) _ body _ _ _ Ec _ _ Hrun).
  Qed.

  Lemma for_node f g x mp tp arr body m el n g1 tb :
    AgE' (S f) g arr -> e_ty arr = TArr el n ->
    AgSS f (tbind ([] :: g) x el false) body unit_ty g1 tb -> tl g1 = g ->
    AgS' (S (S f)) g g unit_ty (St (SFor (Pat (PId x) mp tp) arr body) m).
  Proof.
    intros IHa Eta Hbody Htl ph en E fT w E' o' Hrel Hrun. destruct fT as [|fT]; [discriminate Hrun|].
    rewrite lower_stmt_S in Hrun. cbn [lower_stmt_body] in Hrun. rewrite Eta in Hrun. cbn [array_size] in Hrun.
    minva Hrun as [eb0 ne] o0 H0. apply lift_res_inv in H0. destruct H0 as [H0 ->]. injection H0 as <- <-.
    minva Hrun as [aw E1] o1 H1. minva Hrun as E2 o2 H2.
    apply ret_inv in Hrun. destruct Hrun as [Heq ->]. injection Heq as -> ->.
    rewrite sem_exec_for. pose proof (IHa (false :: ph) en E fT _ _ _ Hrel H1) as IH1. revert IH1.
    destruct (Sem.eval (S f) P en arr) as [[va en1]|r1 m1|c1|]; intro IH1; cbn [Sem.obind]; try exact I.
    2:{ subst o1. exact (stkx_for_iterations _ _ _ (stk_pat _ fT) (stk_stmt _ fT) _ body _ _ _ E1 _ _ H2). }
    destruct IH1 as (-> & [HVa Hfa] & Hrel1). rewrite Eta in HVa, Hfa.
    pose proof HVa as HVa'. apply has_enc_inv in HVa' as (vs & -> & _ & _).
    destruct (has_enc_array_elems P el n vs aw HVa Hfa) as (elems & -> & Hf2 & _ & Hle & _).
    rewrite <- Hle in H2.
    pose proof (for_iter_agrees f g x mp tp body el g1 tb Hbody Htl (ty_fits_arr P el n Hfa) vs elems Hf2
                  en1 E1 fT _ _ Hrel1 H2) as IH2. revert IH2.
    destruct (sem_for (S f) (Pat (PId x) mp tp) body vs en1) as [en2|r2 m2|c2|]; intro IH2; cbn [Sem.obind];
      try exact I; [|exact IH2].
    destruct IH2 as (-> & Hrel2). split; [reflexivity|]. split; [exact VRa_unit|exact Hrel2].
  Qed.
  (* ---------------------------------------------------------------- 8a. enum literals *)

  Lemma enumlit_node f g ename variant args m t variants ts :
    Forall (AgE' f g) args -> assocN ename (p_enums P) = Some variants ->
    nthN variants variant = Some ts -> map e_ty args = ts -> t = TEnum ename -> ty_fits P t ->
    AgE' (S f) g (Ex (EEnumLit ename variant args) m t).
  Proof.
    intros Hes Hd Hv Hty Et Hfit ph en E fT w E' o' Hrel Hrun.
    destruct fT as [|fT]; [discriminate Hrun|]. rewrite lower_expr_S in Hrun. cbn [lower_expr_body] in Hrun.
    rewrite Hd in Hrun. minva Hrun as [ws E1] o1 H1.
    rewrite sem_eval_enumlit. pose proof (list_agrees f g args Hes en E fT _ _ _ Hrel H1) as IH1. revert IH1.
    destruct (sem_eval_list f args en) as [[vs en1]|r1 m1|c1|]; intro IH1; cbn [Sem.obind]; try exact I.
    - destruct IH1 as (-> & HVs & Hrel1). rewrite Hty in HVs. apply F3_VRa_enc in HVs. subst t.
      destruct (has_enc_enum_lit P ename variants variant ts vs ws Hfit Hd Hv HVs) as [Hfits Henc].
      cbv zeta in Hrun. rewrite Hfits in Hrun.
      apply ret_inv in Hrun. destruct Hrun as [Heq ->]. injection Heq as -> ->.
      cbn [e_ty]. split; [reflexivity|]. split; [split; [exact Henc|exact Hfit]|exact Hrel1].
    - subst o1. cbv zeta in Hrun. destruct (_ <=? _)%nat; [|discriminate Hrun].
      apply ret_inv in Hrun. now destruct Hrun as [_ ->].
  Qed.
  (* ---------------------------------------------------------------- 7. irrefutable patterns:
     identifiers, tuples, structs (nested); `let p = e`

     Struct patterns: Sem.pmatch walks the fields of the PATTERN in their order, Lower's
     [struct_match] the fields of the DEFINITION in theirs (looking each up in the pattern).
     The lemma is for patterns that name fields in definition order, each at most once
     ([fields_ok]; the definition has distinct field names); see [StructPatternOrder] at the
     end of the file for what happens otherwise. *)

  Lemma pat_agrees_mut {ph} :
    (forall p t bs, pat_ok p t bs ->
       forall v mw en E g fT c E' (o : pobs) o', has_enc P t v mw -> ty_fits P t -> rel (false :: ph) en E g ->
       lower_pattern tops fT P p mw E o = Ok ((c, E'), o') ->
       exists vbs, Sem.pmatch P p v = Some vbs /\ c = true /\ o' = o /\
                   rel (false :: ph) (Sem.bind_all en vbs) E' (tbind_all g bs false)) /\
    (forall ps ts bs, pats_ok ps ts bs ->
       forall vs mw off en E g fT im c E' (o : pobs) o', enc_at P ts vs mw off -> Forall (ty_fits P) ts ->
       rel (false :: ph) en E g ->
       fields_match tops (lower_pattern tops fT P) mw (map (fun fp => (fp, szn P (p_ty fp))) ps) off im E o
         = Ok ((c, E'), o') ->
       exists vbs, sem_match_list ps vs = Some vbs /\ c = im /\ o' = o /\
                   rel (false :: ph) (Sem.bind_all en vbs) E' (tbind_all g bs false)) /\
    (forall fs ds bs, fields_ok fs ds bs ->
       forall def vs mw fields_all j consumed en E g fT im c E' (o : pobs) o',
       has_encs P (map snd def) vs mw -> Forall (ty_fits P) (map snd def) -> NoDup (map fst def) ->
       NoDup (map fst fields_all) ->
       ds = skipn j def -> fields_all = consumed ++ fs ->
       (forall fn, In fn (map fst consumed) -> In fn (firstn j (map fst def))) ->
       rel (false :: ph) en E g ->
       struct_match tops P (lower_pattern tops fT P) mw fields_all ds
         (sum_szn P (firstn j (map snd def))) im E o = Ok ((c, E'), o') ->
       exists vbs, sem_match_fields def vs fs = Some vbs /\ c = im /\ o' = o /\
                   rel (false :: ph) (Sem.bind_all en vbs) E' (tbind_all g bs false)).
  Proof.
    apply pat_ok_mutind.
    - (* identifier *)
      intros x m t v mw en E g fT c E' o o' HV Hfit Hrel Hrun.
      destruct fT as [|fT]; [discriminate Hrun|]. rewrite lower_pattern_S in Hrun. cbn [lower_pattern_body] in Hrun.
      minva Hrun as E1 o1 Hl. apply lift_res_inv in Hl. destruct Hl as [Hl ->].
      apply ret_inv in Hrun. destruct Hrun as [Heq ->]. injection Heq as -> ->.
      exists [(x, v)]. rewrite pmatch_id. rsplit.
      exact (rel_let VRa _ _ _ x t false v mw _ Hrel (conj HV Hfit) Hl).
    - (* tuple *)
      intros ps m ts bs _ IH v mw en E g fT c E' o o' HV Hfit Hrel Hrun.
      destruct fT as [|fT]; [discriminate Hrun|]. rewrite lower_pattern_S in Hrun. cbn [lower_pattern_body] in Hrun.
      pose proof HV as HV'. apply has_enc_inv in HV' as (vs & -> & _).
      destruct (IH vs mw O en E g fT true c E' o o' (has_enc_tuple_fields P ts vs mw HV Hfit)
                  (ty_fits_tup P ts Hfit) Hrel Hrun) as (vbs & Hm & -> & -> & Hr).
      exists vbs. rewrite pmatch_tup. auto.
    - (* struct *)
      intros name ig fields m def bs Hd Hnd Hfo IH v mw en E g fT c E' o o' HV Hfit Hrel Hrun.
      destruct fT as [|fT]; [discriminate Hrun|]. rewrite lower_pattern_S in Hrun. cbn [lower_pattern_body] in Hrun.
      rewrite Hd in Hrun.
      pose proof HV as HV'. apply has_enc_inv in HV' as (def' & vs & -> & Hd' & Hs).
      assert (def' = def) as -> by congruence.
      pose proof (fields_ok_nodup _ _ _ Hfo Hnd) as Hndf.
      destruct (IH def vs mw fields O [] en E g fT true c E' o o' Hs (ty_fits_struct_def P name def Hfit Hd) Hnd Hndf
                  eq_refl eq_refl (fun fn Hin => match Hin with end) Hrel Hrun) as (vbs & Hm & -> & -> & Hr).
      exists vbs. rewrite pmatch_struct, Hd. auto.
    - (* no sub-patterns *)
      intros vs mw off en E g fT im c E' o o' Hat _ Hrel Hrun. cbn [map fields_match] in Hrun.
      apply ret_inv in Hrun. destruct Hrun as [Heq ->]. injection Heq as -> ->.
      destruct vs; [|contradiction Hat]. exists []. cbn [TSemSemAgg.sem_match_list]. auto.
    - (* a sub-pattern *)
      intros p t ps ts b bs Ept _ IH1 _ IH2 vs mw off en E g fT im c E' o o' Hat Hfits Hrel Hrun.
      destruct vs as [|v vs]; [contradiction Hat|]. cbn [enc_at] in Hat. destruct Hat as [(wi & Hsl & Hv) Hat].
      inversion Hfits as [|t' ts' Hft Hfts]. subst t' ts'.
      cbn [map fields_match] in Hrun. rewrite Ept in Hrun.
      minva Hrun as sub o1 H1. apply lift_res_inv in H1. destruct H1 as [H1 ->].
      assert (sub = wi) as -> by congruence.
      minva Hrun as [fm E1] o1 H2.
      destruct (IH1 v wi en E g fT fm E1 o o1 Hv Hft Hrel H2) as (vb & Hm1 & -> & -> & Hr1).
      mprim Hrun. rewrite andb_true_r in Hrun.
      destruct (IH2 vs mw _ _ E1 _ fT im c E' o o' Hat Hfts Hr1 Hrun) as (vbs & Hm2 & -> & -> & Hr2).
      exists (vb ++ vbs). cbn [TSemSemAgg.sem_match_list]. rewrite Hm1, Hm2.
      rewrite sem_bind_all_app, tbind_all_app. auto.
    - (* struct: the definition is exhausted *)
      intros def vs mw fields_all j consumed en E g fT im c E' o o' _ _ _ _ _ _ _ Hrel Hrun.
      cbn [struct_match] in Hrun. apply ret_inv in Hrun. destruct Hrun as [Heq ->]. injection Heq as -> ->.
      exists []. cbn [TSemSemAgg.sem_match_fields]. auto.
    - (* struct: a named field *)
      intros fn fp fr fty r b bs _ IH1 _ IH2 def vs mw fields_all j consumed en E g fT im c E' o o'
        Hs Hfits Hnd Hndf Hds Hall Hcons Hrel Hrun.
      symmetry in Hds. apply skipn_cons_nth in Hds. destruct Hds as [Hj Hr].
      assert (Hjn : nth_error (map fst def) j = Some fn) by (rewrite nth_error_map, Hj; reflexivity).
      assert (Hjt : nth_error (map snd def) j = Some fty) by (rewrite nth_error_map, Hj; reflexivity).
      pose proof (NoDup_nth_notin_firstn _ j fn Hnd Hjn) as Hnotin.
      cbn [struct_match] in Hrun.
      assert (Hlook : assocN fn (rev fields_all) = Some fp).
      { rewrite assocN_rev_nodup by exact Hndf. rewrite Hall, assocN_app.
        rewrite assocN_none_notin by (intro Hin; apply Hnotin, Hcons, Hin).
        cbn [assocN]. now rewrite N.eqb_refl. }
      rewrite Hlook in Hrun.
      pose proof (has_encs_length P _ vs mw Hs) as Hlen.
      destruct (nth_error_same_length _ vs _ fty Hlen Hjt) as (vj & Hvj).
      destruct (has_encs_proj P j _ vs mw fty vj Hs Hfits Hjt Hvj) as (wj & Hsl & Hej).
      minva Hrun as sub o1 H1. apply lift_res_inv in H1. destruct H1 as [H1 ->].
      assert (sub = wj) as -> by congruence.
      minva Hrun as [fm E1] o1 H2.
      destruct (IH1 vj wj en E g fT fm E1 o o1 Hej (Forall_nth_error _ _ _ _ Hfits Hjt) Hrel H2)
        as (vb & Hm1 & -> & -> & Hr1).
      mprim Hrun. rewrite andb_true_r in Hrun.
      assert (Hsum : (sum_szn P (firstn j (map snd def)) + szn P fty)%nat = sum_szn P (firstn (S j) (map snd def))).
      { rewrite (firstn_S_nth _ j fty Hjt), sum_szn_app. unfold sum_szn at 3. cbn [map list_sum fold_right]. lia. }
      rewrite Hsum in Hrun.
      destruct (IH2 def vs mw fields_all (S j) (consumed ++ [(fn, fp)]) (Sem.bind_all en vb) E1 (tbind_all g b false)
                  fT im c E' o o' Hs Hfits Hnd Hndf
                  (eq_sym Hr)) as (vbs & Hm2 & -> & -> & Hr2); try assumption.
      + now rewrite Hall, <- app_assoc.
      + intros fn' Hin. rewrite map_app, in_app_iff in Hin. rewrite (firstn_S_nth _ j fn Hjn), in_app_iff.
        destruct Hin as [Hin|[<-|[]]]; [left; now apply Hcons|right; now left].
      + exists (vb ++ vbs). cbn [TSemSemAgg.sem_match_fields].
        rewrite (index_of_nth _ j fn 0 Hnd Hjn), N.add_0_l, nthN_spec, Nat2N.id, Hvj, Hm1, Hm2.
        rewrite sem_bind_all_app, tbind_all_app. auto.
    - (* struct: a field the pattern does not name *)
      intros fs fn fty r bs Hnotfs _ IH def vs mw fields_all j consumed en E g fT im c E' o o'
        Hs Hfits Hnd Hndf Hds Hall Hcons Hrel Hrun.
      symmetry in Hds. apply skipn_cons_nth in Hds. destruct Hds as [Hj Hr].
      assert (Hjn : nth_error (map fst def) j = Some fn) by (rewrite nth_error_map, Hj; reflexivity).
      assert (Hjt : nth_error (map snd def) j = Some fty) by (rewrite nth_error_map, Hj; reflexivity).
      pose proof (NoDup_nth_notin_firstn _ j fn Hnd Hjn) as Hnotin.
      cbn [struct_match] in Hrun.
      assert (Hlook : assocN fn (rev fields_all) = None).
      { rewrite assocN_rev_nodup by exact Hndf. apply assocN_none_notin. rewrite Hall, map_app, in_app_iff.
        intros [Hin|Hin]; [apply Hnotin, Hcons, Hin|exact (Hnotfs Hin)]. }
      rewrite Hlook in Hrun.
      assert (Hsum : (sum_szn P (firstn j (map snd def)) + szn P fty)%nat = sum_szn P (firstn (S j) (map snd def))).
      { rewrite (firstn_S_nth _ j fty Hjt), sum_szn_app. unfold sum_szn at 3. cbn [map list_sum fold_right]. lia. }
      rewrite Hsum in Hrun.
      apply (IH def vs mw fields_all (S j) consumed en E g fT im c E' o o' Hs Hfits Hnd Hndf (eq_sym Hr) Hall);
        try assumption.
      intros fn' Hin. rewrite (firstn_S_nth _ j fn Hjn), in_app_iff. left. now apply Hcons.
  Qed.

  Lemma pat_agrees {ph} p t bs : pat_ok p t bs ->
    forall v mw en E g fT c E' (o : pobs) o', has_enc P t v mw -> ty_fits P t -> rel (false :: ph) en E g ->
    lower_pattern tops fT P p mw E o = Ok ((c, E'), o') ->
    exists vbs, Sem.pmatch P p v = Some vbs /\ c = true /\ o' = o /\
                rel (false :: ph) (Sem.bind_all en vbs) E' (tbind_all g bs false).
  Proof. apply pat_agrees_mut. Qed.

  Lemma let_pat_node f g p e m bs :
    AgE' f g e -> pat_ok p (e_ty e) bs ->
    AgS' (S f) g (tbind_all g bs false) unit_ty (St (SLet p e) m).
  Proof.
    intros IH Hp ph en E fT w E' o' Hrel Hrun. destruct fT as [|fT]; [discriminate Hrun|].
    rewrite lower_stmt_S in Hrun. cbn [lower_stmt_body] in Hrun.
    minva Hrun as [w1 E1] o1 He. minva Hrun as [c2 E2] o2 Hpat.
    apply ret_inv in Hrun. destruct Hrun as [Heq ->]. injection Heq as -> ->.
    rewrite sem_exec_let. pose proof (IH (false :: ph) en E fT _ _ _ Hrel He) as IH1. revert IH1.
    destruct (Sem.eval f P en e) as [[v en1]|r1 m1|c1|]; intro IH1; cbn [Sem.obind]; try exact I.
    - destruct IH1 as (-> & [HV Hfit] & Hrel1).
      destruct (pat_agrees p _ bs Hp v w1 en1 E1 g fT _ _ _ _ HV Hfit Hrel1 Hpat) as (vbs & -> & _ & -> & Hr).
      split; [reflexivity|]. split; [exact VRa_unit|exact Hr].
    - subst o1. exact (stk_pat _ fT p w1 E1 _ _ Hpat).
  Qed.
  (* ---------------------------------------------------------------- 6'. for loops with any
     irrefutable pattern of section 7 *)

  Lemma for_iter_agrees_pat {ph} f g p bs body el g1 tb :
    pat_ok p el bs ->
    AgSS f (tbind_all ([] :: g) bs false) body unit_ty g1 tb -> tl g1 = g -> ty_fits P el ->
    forall vs elems, Forall2 (has_enc P el) vs elems ->
    forall en E fT E' o', rel ph en E g ->
    for_iterations (lower_pattern tops fT P) (lower_stmt tops fT P) p body (szn P el)
      (length elems) (concat elems) E None = Ok (E', o') ->
    match sem_for (S f) p body vs en with
    | Sem.Done en' => o' = None /\ rel ph en' E' g
    | Sem.Panicked r m => o' = Some (pcode r m)
    | _ => True
    end.
  Proof.
    intros Hp Hbody Htl Hfel vs elems Hf2. induction Hf2 as [|v e vs elems Hv _ IH]; intros en E fT E' o' Hrel Hrun.
    - cbn [length for_iterations] in Hrun. apply ret_inv in Hrun. destruct Hrun as [-> ->].
      cbn [TSemSemAgg.sem_for]. auto.
    - cbn [length for_iterations concat] in Hrun.
      pose proof (has_enc_length P el v e Hv Hfel) as Hle.
      minva Hrun as binding o0 H0. apply lift_res_inv in H0. destruct H0 as [Hsl ->].
      rewrite <- Hle in Hsl. pose proof (slice_mid [] e (concat elems)) as Hsm. cbn [app length] in Hsm.
      rewrite Hsm in Hsl. injection Hsl as <-. clear Hsm.
      minva Hrun as [c Ea] o1 Hpat.
      destruct (pat_agrees p el bs Hp v e _ _ _ fT _ _ _ _ Hv Hfel (rel_push VRa _ _ _ Hrel) Hpat)
        as (vbs & Hpm & _ & -> & Hrela).
      minva Hrun as Eb ob Hb. minva Hrun as Ec oc Hc. apply lift_res_inv in Hc. destruct Hc as [Hpop ->].
      rewrite <- Hle, (skipn_app_exact e) in Hrun by reflexivity.
      change (sem_for (S f) p body (v :: vs) en) with
        (match Sem.pmatch P p v with
         | Some bs0 =>
             Sem.obind (Sem.exec_block (S f) P (Sem.bind_all (Sem.push_scope en) bs0) body)
               (fun '(_, en1) => sem_for (S f) p body vs (Sem.pop_scope en1))
         | None => Sem.Stuck 73
         end).
      rewrite Hpm, exec_block_S.
      destruct (lower_stmts_block _ body [] _ _ _ _ Hb) as (wb & Hb').
      pose proof (stmts_node3 P VRa gsc sglob glob f _ _ _ _ _ Hbody ph _ _ fT Sem.unit_val [] _ _ _ Hrela VRa_unit Hb') as IH1.
      revert IH1. destruct (sem_stmts P f body Sem.unit_val (Sem.bind_all (Sem.push_scope en) vbs))
        as [[vb en1]|r1 m1|c1|]; intro IH1; cbn [Sem.obind]; try exact I.
      + destruct IH1 as (-> & _ & Hrel1).
        assert (Hrelc : rel ph (Sem.pop_scope en1) Ec g) by (rewrite <- Htl; eapply rel_pop3; [eassumption|eassumption|rewrite Htl; eapply rel_len; exact Hrel]).
        rewrite Hle in Hrun. exact (IH _ _ fT _ _ Hrelc Hrun).
      + subst ob.
        exact (stkx_for_iterations _ _ _ (stk_pat _ fT) (stk_stmt _ fT) _ body _ _ _ Ec _ _ Hrun).
  Qed.

  Lemma for_pat_node f g p bs arr body m el n g1 tb :
    AgE' (S f) g arr -> e_ty arr = TArr el n -> pat_ok p el bs ->
    AgSS f (tbind_all ([] :: g) bs false) body unit_ty g1 tb -> tl g1 = g ->
    AgS' (S (S f)) g g unit_ty (St (SFor p arr body) m).
  Proof.
    intros IHa Eta Hp Hbody Htl ph en E fT w E' o' Hrel Hrun. destruct fT as [|fT]; [discriminate Hrun|].
    rewrite lower_stmt_S in Hrun. cbn [lower_stmt_body] in Hrun. rewrite Eta in Hrun. cbn [array_size] in Hrun.
    minva Hrun as [eb0 ne] o0 H0. apply lift_res_inv in H0. destruct H0 as [H0 ->]. injection H0 as <- <-.
    minva Hrun as [aw E1] o1 H1. minva Hrun as E2 o2 H2.
    apply ret_inv in Hrun. destruct Hrun as [Heq ->]. injection Heq as -> ->.
    rewrite sem_exec_for. pose proof (IHa (false :: ph) en E fT _ _ _ Hrel H1) as IH1. revert IH1.
    destruct (Sem.eval (S f) P en arr) as [[va en1]|r1 m1|c1|]; intro IH1; cbn [Sem.obind]; try exact I.
    2:{ subst o1. exact (stkx_for_iterations _ _ _ (stk_pat _ fT) (stk_stmt _ fT) _ body _ _ _ E1 _ _ H2). }
    destruct IH1 as (-> & [HVa Hfa] & Hrel1). rewrite Eta in HVa, Hfa.
    pose proof HVa as HVa'. apply has_enc_inv in HVa' as (vs & -> & _ & _).
    destruct (has_enc_array_elems P el n vs aw HVa Hfa) as (elems & -> & Hf2 & _ & Hle & _).
    rewrite <- Hle in H2.
    pose proof (for_iter_agrees_pat f g p bs body el g1 tb Hp Hbody Htl (ty_fits_arr P el n Hfa) vs elems Hf2
                  en1 E1 fT _ _ Hrel1 H2) as IH2. revert IH2.
    destruct (sem_for (S f) p body vs en1) as [en2|r2 m2|c2|]; intro IH2; cbn [Sem.obind];
      try exact I; [|exact IH2].
    destruct IH2 as (-> & Hrel2). split; [reflexivity|]. split; [exact VRa_unit|exact Hrel2].
  Qed.
  (* ---------------------------------------------------------------- 8b. refutable patterns and
     match *)

  (* what every Ok run of a pattern does: the observation is untouched, the environment keeps
     its scopes below the current one *)
  Definition pat_concl {ph} (g : tenv) (bs : list (N * ty)) (en : Sem.env) (E' : @cenv bool) (c : bool)
      (r : option (list (N * Sem.value))) : Prop :=
    match r with
    | Some vbs => c = true /\ rel (false :: ph) (Sem.bind_all en vbs) E' (tbind_all g bs false)
    | None => c = false
    end.

  Lemma gpat_agrees_mut {ph} :
    (forall p t bs, gpat_ok p t bs ->
       forall v mw en E g fT c E' (o : pobs) o', has_enc P t v mw -> ty_fits P t -> rel (false :: ph) en E g ->
       lower_pattern tops fT P p mw E o = Ok ((c, E'), o') ->
       pat_concl (ph:=ph) g bs en E' c (Sem.pmatch P p v)) /\
    (forall ps ts bs, gpats_ok ps ts bs ->
       forall vs mw off en E g fT im c E' (o : pobs) o', enc_at P ts vs mw off -> Forall (ty_fits P) ts ->
       rel (false :: ph) en E g ->
       fields_match tops (lower_pattern tops fT P) mw (map (fun fp => (fp, szn P (p_ty fp))) ps) off im E o
         = Ok ((c, E'), o') ->
       match sem_match_list ps vs with
       | Some vbs => c = im /\ rel (false :: ph) (Sem.bind_all en vbs) E' (tbind_all g bs false)
       | None => c = false
       end) /\
    (forall fs ds bs, gfields_ok fs ds bs ->
       forall def vs mw fields_all j consumed en E g fT im c E' (o : pobs) o',
       has_encs P (map snd def) vs mw -> Forall (ty_fits P) (map snd def) -> NoDup (map fst def) ->
       NoDup (map fst fields_all) ->
       ds = skipn j def -> fields_all = consumed ++ fs ->
       (forall fn, In fn (map fst consumed) -> In fn (firstn j (map fst def))) ->
       rel (false :: ph) en E g ->
       struct_match tops P (lower_pattern tops fT P) mw fields_all ds
         (sum_szn P (firstn j (map snd def))) im E o = Ok ((c, E'), o') ->
       match sem_match_fields def vs fs with
       | Some vbs => c = im /\ rel (false :: ph) (Sem.bind_all en vbs) E' (tbind_all g bs false)
       | None => c = false
       end).
  Proof.
    apply gpat_ok_mutind.
    - (* identifier *)
      intros x m t v mw en E g fT c E' o o' HV Hfit Hrel Hrun.
      destruct fT as [|fT]; [discriminate Hrun|]. rewrite lower_pattern_S in Hrun. cbn [lower_pattern_body] in Hrun.
      minva Hrun as E1 o1 Hl. apply lift_res_inv in Hl. destruct Hl as [Hl ->].
      apply ret_inv in Hrun. destruct Hrun as [Heq ->]. injection Heq as -> ->.
      rewrite pmatch_id. split; [reflexivity|].
      exact (rel_let VRa _ _ _ x t false v mw _ Hrel (conj HV Hfit) Hl).
    - (* true *)
      intros m v mw en E g fT c E' o o' HV _ Hrel Hrun. apply has_enc_inv in HV as (b & -> & ->).
      destruct fT as [|fT]; [discriminate Hrun|]. rewrite lower_pattern_S, tsem_pat_true in Hrun.
      injection Hrun as <- <- _. destruct b; unfold pmatches; cbn [Sem.pmatch pat_concl]; auto.
    - (* false *)
      intros m v mw en E g fT c E' o o' HV _ Hrel Hrun. apply has_enc_inv in HV as (b & -> & ->).
      destruct fT as [|fT]; [discriminate Hrun|]. rewrite lower_pattern_S, tsem_pat_false in Hrun.
      injection Hrun as <- <- _. destruct b; unfold pmatches; cbn [Sem.pmatch pat_concl]; auto.
    - (* unsigned literal *)
      intros n m sg b Hr v mw en E g fT c E' o o' HV _ Hrel Hrun.
      destruct (int_pat_val sg b v mw HV) as (z & -> & Hl & Hz).
      destruct fT as [|fT]; [discriminate Hrun|].
      rewrite lower_pattern_S, (tsem_pat_numU P _ n m _ mw E o Hl (in_range_szn sg b _ Hr)), Hz in Hrun.
      injection Hrun as <- <- _. cbn [Sem.pmatch]. destruct (z =? Z.of_N n)%Z; cbn [pat_concl]; auto.
    - (* signed literal *)
      intros z0 m sg b Hr v mw en E g fT c E' o o' HV _ Hrel Hrun.
      destruct (int_pat_val sg b v mw HV) as (z & -> & Hl & Hz).
      destruct fT as [|fT]; [discriminate Hrun|].
      rewrite lower_pattern_S, (tsem_pat_numS P _ z0 m _ mw E o Hl (in_range_szn sg b _ Hr)), Hz in Hrun.
      injection Hrun as <- <- _. cbn [Sem.pmatch]. destruct (z =? z0)%Z; cbn [pat_concl]; auto.
    - (* unsigned range *)
      intros lo hi m sg b Hlo Hhi v mw en E g fT c E' o o' HV _ Hrel Hrun.
      destruct (int_pat_val sg b v mw HV) as (z & -> & Hl & Hz).
      destruct fT as [|fT]; [discriminate Hrun|].
      rewrite lower_pattern_S, (tsem_pat_urange P _ lo hi m _ mw E o Hl (in_range_szn sg b _ Hlo) (in_range_szn sg b _ Hhi)), Hz in Hrun.
      injection Hrun as <- <- _. cbn [Sem.pmatch].
      destruct ((Z.of_N lo <=? z)%Z && (z <=? Z.of_N hi)%Z); cbn [pat_concl]; auto.
    - (* signed range *)
      intros lo hi m sg b Hlo Hhi v mw en E g fT c E' o o' HV _ Hrel Hrun.
      destruct (int_pat_val sg b v mw HV) as (z & -> & Hl & Hz).
      destruct fT as [|fT]; [discriminate Hrun|].
      rewrite lower_pattern_S, (tsem_pat_srange P _ lo hi m _ mw E o Hl (in_range_szn sg b _ Hlo) (in_range_szn sg b _ Hhi)), Hz in Hrun.
      injection Hrun as <- <- _. cbn [Sem.pmatch].
      destruct ((lo <=? z)%Z && (z <=? hi)%Z); cbn [pat_concl]; auto.
    - (* tuple *)
      intros ps m ts bs _ IH v mw en E g fT c E' o o' HV Hfit Hrel Hrun.
      destruct fT as [|fT]; [discriminate Hrun|]. rewrite lower_pattern_S in Hrun. cbn [lower_pattern_body] in Hrun.
      pose proof HV as HV'. apply has_enc_inv in HV' as (vs & -> & _).
      rewrite pmatch_tup. unfold pat_concl.
      exact (IH vs mw O en E g fT true c E' o o' (has_enc_tuple_fields P ts vs mw HV Hfit)
               (ty_fits_tup P ts Hfit) Hrel Hrun).
    - (* struct *)
      intros name ig fields m def bs Hd Hnd Hfo IH v mw en E g fT c E' o o' HV Hfit Hrel Hrun.
      destruct fT as [|fT]; [discriminate Hrun|]. rewrite lower_pattern_S in Hrun. cbn [lower_pattern_body] in Hrun.
      rewrite Hd in Hrun.
      pose proof HV as HV'. apply has_enc_inv in HV' as (def' & vs & -> & Hd' & Hs).
      assert (def' = def) as -> by congruence.
      pose proof (gfields_ok_nodup _ _ _ Hfo Hnd) as Hndf.
      rewrite pmatch_struct, Hd. unfold pat_concl.
      exact (IH def vs mw fields O [] en E g fT true c E' o o' Hs (ty_fits_struct_def P name def Hfit Hd) Hnd Hndf
               eq_refl eq_refl (fun fn Hin => match Hin with end) Hrel Hrun).
    - (* enum, unit variant *)
      intros ename variant m variants ts Hd Hv v mw en E g fT c E' o o' HV Hfit Hrel Hrun.
      pose proof HV as HV'. apply has_enc_inv in HV' as (vr' & tag & ts' & vs & pw & -> & _).
      destruct fT as [|fT]; [discriminate Hrun|]. rewrite lower_pattern_S in Hrun. cbn [lower_pattern_body] in Hrun.
      rewrite Hd in Hrun.
      destruct (enum_tag_test ename variants variant ts tag vs mw o HV Hfit Hd Hv) as (tgw & Hsl & Heq).
      minva Hrun as tg o1 H1. apply lift_res_inv in H1. destruct H1 as [H1 ->].
      assert (tg = tgw) as -> by congruence.
      minva Hrun as acc o1 H2. rewrite Heq in H2. injection H2 as <- <-.
      apply ret_inv in Hrun. destruct Hrun as [Heq' ->]. injection Heq' as -> ->.
      rewrite pmatch_enum_unit. destruct (tag =? variant); cbn [pat_concl]; auto.
    - (* enum, tuple variant *)
      intros ename variant ps m variants ts bs Hd Hv Hps IH v mw en E g fT c E' o o' HV Hfit Hrel Hrun.
      pose proof HV as HV'. apply has_enc_inv in HV' as (vr' & tag & ts' & vs & pw & -> & _).
      destruct fT as [|fT]; [discriminate Hrun|]. rewrite lower_pattern_S in Hrun. cbn [lower_pattern_body] in Hrun.
      rewrite Hd in Hrun.
      destruct (enum_tag_test ename variants variant ts tag vs mw o HV Hfit Hd Hv) as (tgw & Hsl & Heq).
      minva Hrun as tg o1 H1. apply lift_res_inv in H1. destruct H1 as [H1 ->].
      assert (tg = tgw) as -> by congruence.
      minva Hrun as acc o1 H2. rewrite Heq in H2. injection H2 as <- <-.
      rewrite Hv, (gpats_zip_sizes ps ts bs Hps) in Hrun.
      rewrite pmatch_enum_tup. destruct (N.eqb_spec tag variant) as [->|Hne].
      + destruct (has_enc_enum_inv P ename variants variant vs mw HV Hfit Hd) as (ts2 & Ht2 & _ & Hat & _).
        assert (ts2 = ts) as -> by congruence. unfold pat_concl.
        exact (IH vs mw _ en E g fT true c E' o o' Hat (ty_fits_enum_variant P ename variants variant ts Hfit Hd Hv)
                 Hrel Hrun).
      + destruct (fields_match_facts _ (lower_pattern_facts fT) _ _ _ _ _ _ _ _ _ Hrun) as (_ & _ & Hf).
        cbn [pat_concl]. now apply Hf.
    - (* no sub-patterns *)
      intros vs mw off en E g fT im c E' o o' Hat _ Hrel Hrun. cbn [map fields_match] in Hrun.
      apply ret_inv in Hrun. destruct Hrun as [Heq ->]. injection Heq as -> ->.
      destruct vs; [|contradiction Hat]. cbn [TSemSemAgg.sem_match_list]. auto.
    - (* a sub-pattern *)
      intros p t ps ts b bs Ept _ IH1 _ IH2 vs mw off en E g fT im c E' o o' Hat Hfits Hrel Hrun.
      destruct vs as [|v vs]; [contradiction Hat|]. cbn [enc_at] in Hat. destruct Hat as [(wi & Hsl & Hv) Hat].
      inversion Hfits as [|t' ts' Hft Hfts]. subst t' ts'.
      cbn [map fields_match] in Hrun. rewrite Ept in Hrun.
      minva Hrun as sub o1 H1. apply lift_res_inv in H1. destruct H1 as [H1 ->].
      assert (sub = wi) as -> by congruence.
      minva Hrun as [fm E1] o1 H2.
      destruct (lower_pattern_facts fT _ _ _ _ _ _ _ H2) as [-> _].
      pose proof (IH1 v wi en E g fT fm E1 o o Hv Hft Hrel H2) as C1.
      mprim Hrun. cbn [TSemSemAgg.sem_match_list].
      destruct (Sem.pmatch P p v) as [vb|]; cbn [pat_concl] in C1.
      + destruct C1 as [-> Hr1]. rewrite andb_true_r in Hrun.
        pose proof (IH2 vs mw _ _ E1 _ fT im c E' o o' Hat Hfts Hr1 Hrun) as C2.
        destruct (sem_match_list ps vs) as [vbs|]; [|exact C2].
        destruct C2 as [-> Hr2]. rewrite sem_bind_all_app, tbind_all_app. auto.
      + subst fm. rewrite andb_false_r in Hrun.
        destruct (fields_match_facts _ (lower_pattern_facts fT) _ _ _ _ _ _ _ _ _ Hrun) as (_ & _ & Hf).
        now apply Hf.
    - (* struct: the definition is exhausted *)
      intros def vs mw fields_all j consumed en E g fT im c E' o o' _ _ _ _ _ _ _ Hrel Hrun.
      cbn [struct_match] in Hrun. apply ret_inv in Hrun. destruct Hrun as [Heq ->]. injection Heq as -> ->.
      cbn [TSemSemAgg.sem_match_fields]. auto.
    - (* struct: a named field *)
      intros fn fp fr fty r b bs _ IH1 _ IH2 def vs mw fields_all j consumed en E g fT im c E' o o'
        Hs Hfits Hnd Hndf Hds Hall Hcons Hrel Hrun.
      symmetry in Hds. apply skipn_cons_nth in Hds. destruct Hds as [Hj Hr].
      assert (Hjn : nth_error (map fst def) j = Some fn) by (rewrite nth_error_map, Hj; reflexivity).
      assert (Hjt : nth_error (map snd def) j = Some fty) by (rewrite nth_error_map, Hj; reflexivity).
      pose proof (NoDup_nth_notin_firstn _ j fn Hnd Hjn) as Hnotin.
      cbn [struct_match] in Hrun.
      assert (Hlook : assocN fn (rev fields_all) = Some fp).
      { rewrite assocN_rev_nodup by exact Hndf. rewrite Hall, assocN_app.
        rewrite assocN_none_notin by (intro Hin; apply Hnotin, Hcons, Hin).
        cbn [assocN]. now rewrite N.eqb_refl. }
      rewrite Hlook in Hrun.
      pose proof (has_encs_length P _ vs mw Hs) as Hlen.
      destruct (nth_error_same_length _ vs _ fty Hlen Hjt) as (vj & Hvj).
      destruct (has_encs_proj P j _ vs mw fty vj Hs Hfits Hjt Hvj) as (wj & Hsl & Hej).
      minva Hrun as sub o1 H1. apply lift_res_inv in H1. destruct H1 as [H1 ->].
      assert (sub = wj) as -> by congruence.
      minva Hrun as [fm E1] o1 H2.
      destruct (lower_pattern_facts fT _ _ _ _ _ _ _ H2) as [-> _].
      pose proof (IH1 vj wj en E g fT fm E1 o o Hej (Forall_nth_error _ _ _ _ Hfits Hjt) Hrel H2) as C1.
      mprim Hrun.
      assert (Hsum : (sum_szn P (firstn j (map snd def)) + szn P fty)%nat = sum_szn P (firstn (S j) (map snd def))).
      { rewrite (firstn_S_nth _ j fty Hjt), sum_szn_app. unfold sum_szn at 3. cbn [map list_sum fold_right]. lia. }
      rewrite Hsum in Hrun. cbn [TSemSemAgg.sem_match_fields].
      rewrite (index_of_nth _ j fn 0 Hnd Hjn), N.add_0_l, nthN_spec, Nat2N.id, Hvj.
      destruct (Sem.pmatch P fp vj) as [vb|]; cbn [pat_concl] in C1.
      + destruct C1 as [-> Hr1]. rewrite andb_true_r in Hrun.
        assert (C2 := IH2 def vs mw fields_all (S j) (consumed ++ [(fn, fp)]) (Sem.bind_all en vb) E1 (tbind_all g b false)
                  fT im c E' o o' Hs Hfits Hnd Hndf (eq_sym Hr)).
        fold (sem_match_fields def vs fr). 
        assert (C2' : match sem_match_fields def vs fr with
                      | Some vbs => c = im /\ rel (false :: ph) (Sem.bind_all (Sem.bind_all en vb) vbs) E' (tbind_all (tbind_all g b false) bs false)
                      | None => c = false end).
        { apply C2; try assumption.
          - now rewrite Hall, <- app_assoc.
          - intros fn' Hin. rewrite map_app, in_app_iff in Hin. rewrite (firstn_S_nth _ j fn Hjn), in_app_iff.
            destruct Hin as [Hin|[<-|[]]]; [left; now apply Hcons|right; now left]. }
        destruct (sem_match_fields def vs fr) as [vbs|]; [|exact C2'].
        destruct C2' as [-> Hr2]. rewrite sem_bind_all_app, tbind_all_app. auto.
      + subst fm. rewrite andb_false_r in Hrun.
        destruct (struct_match_facts _ (lower_pattern_facts fT) _ _ _ _ _ _ _ _ _ _ Hrun) as (_ & _ & Hf).
        now apply Hf.
    - (* struct: a field the pattern does not name *)
      intros fs fn fty r bs Hnotfs _ IH def vs mw fields_all j consumed en E g fT im c E' o o'
        Hs Hfits Hnd Hndf Hds Hall Hcons Hrel Hrun.
      symmetry in Hds. apply skipn_cons_nth in Hds. destruct Hds as [Hj Hr].
      assert (Hjn : nth_error (map fst def) j = Some fn) by (rewrite nth_error_map, Hj; reflexivity).
      assert (Hjt : nth_error (map snd def) j = Some fty) by (rewrite nth_error_map, Hj; reflexivity).
      pose proof (NoDup_nth_notin_firstn _ j fn Hnd Hjn) as Hnotin.
      cbn [struct_match] in Hrun.
      assert (Hlook : assocN fn (rev fields_all) = None).
      { rewrite assocN_rev_nodup by exact Hndf. apply assocN_none_notin. rewrite Hall, map_app, in_app_iff.
        intros [Hin|Hin]; [apply Hnotin, Hcons, Hin|exact (Hnotfs Hin)]. }
      rewrite Hlook in Hrun.
      assert (Hsum : (sum_szn P (firstn j (map snd def)) + szn P fty)%nat = sum_szn P (firstn (S j) (map snd def))).
      { rewrite (firstn_S_nth _ j fty Hjt), sum_szn_app. unfold sum_szn at 3. cbn [map list_sum fold_right]. lia. }
      rewrite Hsum in Hrun.
      apply (IH def vs mw fields_all (S j) consumed en E g fT im c E' o o' Hs Hfits Hnd Hndf (eq_sym Hr) Hall);
        try assumption.
      intros fn' Hin. rewrite (firstn_S_nth _ j fn Hjn), in_app_iff. left. now apply Hcons.
  Qed.

  Lemma gpat_agrees {ph} p t bs : gpat_ok p t bs ->
    forall v mw en E g fT c E' (o : pobs) o', has_enc P t v mw -> ty_fits P t -> rel (false :: ph) en E g ->
    lower_pattern tops fT P p mw E o = Ok ((c, E'), o') ->
    o' = o /\ SKP E E' /\ pat_concl (ph:=ph) g bs en E' c (Sem.pmatch P p v).
  Proof.
    intros Hp v mw en E g fT c E' o o' HV Hfit Hrel Hrun.
    destruct (lower_pattern_facts fT _ _ _ _ _ _ _ Hrun) as [-> Hk]. split; [reflexivity|]. split; [exact Hk|].
    exact (proj1 gpat_agrees_mut p t bs Hp v mw en E g fT c E' o o HV Hfit Hrel Hrun).
  Qed.
  (* ---- match: Sem.v evaluates the body of the first arm whose pattern matches; Lower.v
     evaluates every arm from the observation saved after the scrutinee and selects *)

  Definition arm_ok (f : nat) (g : tenv) (tscrut t : ty) (arm : pattern * expr) : Prop :=
    exists bs, gpat_ok (fst arm) tscrut bs /\ AgE' f (tbind_all ([] :: g) bs false) (snd arm) /\
               KP P (snd arm) /\ e_ty (snd arm) = t.

  Lemma arms_agree {ph} f g tscrut t v sw en E0 :
    has_enc P tscrut v sw -> ty_fits P tscrut -> rel ph en E0 g ->
    forall arms, Forall (arm_ok f g tscrut t) arms ->
    forall fT hp mret mpanic menv (o : pobs) mret' mpanic' menv' hp' o',
    length mret = szn P t -> keys menv = keys E0 ->
    lower_arms tops (lower_expr tops fT P) (lower_pattern tops fT P) (szn P t) sw E0 None arms
      hp mret mpanic menv o = Ok ((mret', mpanic', menv', hp'), o') ->
    if hp then mret' = mret /\ mpanic' = mpanic /\ menv' = menv
    else match sem_arms f v en arms with
         | Sem.Done (res, en') => mpanic' = None /\ VRa t res mret' /\ rel ph en' menv' g
         | Sem.Panicked r m => mpanic' = Some (pcode r m)
         | _ => True
         end.
  Proof.
    intros HV Hfit Hrel. pose proof (rel_wf VRa _ _ _ Hrel) as Hwf0.
    induction 1 as [|[pat body] arms (bs & Hpat & Hbody & Hkp & Ety) _ IH];
      intros fT hp mret mpanic menv o mret' mpanic' menv' hp' o' Hlm Hkm Hrun.
    - cbn [lower_arms] in Hrun. apply ret_inv in Hrun. destruct Hrun as [Heq _]. injection Heq as -> -> -> _.
      destruct hp; [auto|exact I].
    - cbn [fst snd] in *. cbn [lower_arms] in Hrun. mprim Hrun.
      minva Hrun as [is_match E1] o1 Hp.
      destruct (gpat_agrees pat tscrut bs Hpat v sw _ _ _ fT _ _ _ _ HV Hfit (rel_push VRa _ _ _ Hrel) Hp)
        as (-> & [Hk1 _] & Hc).
      minva Hrun as [rw E2] o2 He. pose proof (Hkp _ _ _ _ _ _ He) as Hk2.
      mprim Hrun. mprim Hrun.
      minva Hrun as E3 o3 H3. apply lift_res_inv in H3. destruct H3 as [Hpop ->].
      assert (Hk3 : keys E3 = keys E0).
      { rewrite (env_pop_keys _ _ Hpop), Hk2, Hk1. reflexivity. }
      mprim Hrun. mprim Hrun.
      minva Hrun as menv1 o4 H4.
      apply mux_envs_inv in H4; [|congruence|exact (wf_env_keys E0 menv Hkm Hwf0)]. destruct H4 as [-> ->].
      minva Hrun as mret1 o5 H5.
      destruct (Nat.ltb_spec (length rw) (szn P t)) as [Hlt|Hge]; [discriminate H5|].
      assert (Hlf : length (firstn (szn P t) rw) = length mret) by (rewrite firstn_length, Hlm; lia).
      change (fun x0 x1 : bool => m_mux tops (negb hp && is_match) x0 x1) with (m_mux tops (negb hp && is_match)) in H5.
      rewrite (tsem_map2_mux _ _ _ Hlf) in H5. injection H5 as <- <-.
      mprim Hrun.
      assert (Hlm1 : length (if negb hp && is_match then firstn (szn P t) rw else mret) = szn P t).
      { destruct (negb hp && is_match); [now rewrite Hlf|exact Hlm]. }
      assert (Hkm1 : keys (if negb hp && is_match then E3 else menv) = keys E0).
      { destruct (negb hp && is_match); assumption. }
      pose proof (IH fT _ _ _ _ _ _ _ _ _ _ Hlm1 Hkm1 Hrun) as IH1.
      destruct hp; cbn [negb andb orb] in IH1.
      + exact IH1.
      + change (sem_arms f v en ((pat, body) :: arms)) with
          (match Sem.pmatch P pat v with
           | Some bs0 =>
               Sem.obind (Sem.eval f P (Sem.bind_all (Sem.push_scope en) bs0) body)
                 (fun '(res, en1) => Sem.Done (res, Sem.pop_scope en1))
           | None => sem_arms f v en arms
           end).
        destruct (Sem.pmatch P pat v) as [vbs|]; cbn [pat_concl] in Hc.
        * destruct Hc as [-> Hrel1]. cbn [orb] in IH1. destruct IH1 as (-> & -> & ->).
          pose proof (Hbody _ _ _ fT _ _ _ Hrel1 He) as IH2. revert IH2.
          destruct (Sem.eval f P (Sem.bind_all (Sem.push_scope en) vbs) body) as [[res en1]|r1 m1|c1|];
            intro IH2; cbn [Sem.obind]; try exact I; [|exact IH2].
          destruct IH2 as (-> & [HVr Hfr] & Hrel2). rewrite Ety in HVr, Hfr.
          split; [reflexivity|]. split.
          -- split; [|exact Hfr]. rewrite firstn_all2; [exact HVr|].
             rewrite (has_enc_length P t res rw HVr Hfr). lia.
          -- rewrite <- (TSemSemAgg.tl_tbind_all bs [] g false).
             eapply rel_pop3; [eassumption|eassumption|].
             rewrite (TSemSemAgg.tl_tbind_all bs [] g false). eapply rel_len; exact Hrel.
        * subst is_match. cbn [orb] in IH1. exact IH1.
  Qed.

  (* side conditions: the arms are [arm_ok] at the type of the scrutinee; exhaustiveness is
     not needed (when no arm matches Sem.v is stuck) *)
  Lemma match_node f g scrut arms m t :
    AgE' f g scrut -> Forall (arm_ok f g (e_ty scrut) t) arms ->
    AgE' (S f) g (Ex (EMatch scrut arms) m t).
  Proof.
    intros IHs Harms ph en E fT w E' o' Hrel Hrun.
    destruct fT as [|fT]; [discriminate Hrun|]. rewrite lower_expr_S in Hrun. cbn [lower_expr_body] in Hrun.
    minva Hrun as [sw E0] o1 Hs. mprim Hrun.
    minva Hrun as [[[ret_w mp] me] hp'] o2 Ha. mprim Hrun.
    apply ret_inv in Hrun. destruct Hrun as [Heq ->]. injection Heq as -> ->.
    rewrite sem_eval_match. pose proof (IHs ph en E fT _ _ _ Hrel Hs) as IH1. revert IH1.
    destruct (Sem.eval f P en scrut) as [[v en1]|r1 m1|c1|]; intro IH1; cbn [Sem.obind]; try exact I.
    - destruct IH1 as (-> & [HV Hfit] & Hrel1).
      pose proof (arms_agree f g (e_ty scrut) t v sw en1 E0 HV Hfit Hrel1 arms Harms fT false _ _ _ _ _ _ _ _ _
                    (repeat_length _ _) eq_refl Ha) as IH2. cbv iota in IH2. revert IH2.
      destruct (sem_arms f v en1 arms) as [[res en2]|r2 m2|c2|]; intro IH2; try exact I; [|exact IH2].
      cbn [e_ty]. exact IH2.
    - subst o1.
      destruct (stkxQ_lower_arms _ _ _ (stk_expr _ fT) (stk_pat _ fT) _ _ _ _ _ _ _ _ _ Ha) as [_ Hq].
      exact Hq.
  Qed.
End Agg3.

(* ------------------------------------------------------------------ the strict checker with calls *)

(* binary operators: the scalar operators of [sc_op] (a product there has no literal operand), or a
   product with a literal operand: an ordinary checked product where the compiler's repeated-addition
   rewrite does not fire, else the side conditions of Compile/TSemSemMul.v ([mul_node_ok]) *)
Definition scf2_op (o : binop) (x y : expr) (m : meta) (t : ty) : bool :=
  sc_op o x y t ||
  match o, t with
  | OMul, TInt _ b =>
      sty_eqb (e_ty x) t && sty_eqb (e_ty y) t &&
      match mul_rewrite x y m t with None => ok_width b | Some _ => mul_node_ok x y m t end
  | OEq, TBool | ONe, TBool => ty_beq (e_ty y) (e_ty x)     (* == / != on values of ANY one type *)
  | _, _ => false
  end.

Fixpoint scf2_expr (fuel : nat) (P : program) (g : tenv) (e : expr) {struct fuel} : bool :=
  match fuel with
  | O => false
  | S f =>
    match e with
    | Ex ei m t =>
      match ei with
      | ETrue | EFalse => ty_beq t TBool
      | ENumU n _ => match t with TInt _ _ => lit_fits t (Z.of_N n) | _ => false end
      | ENumS z _ => match t with TInt _ _ => lit_fits t z | _ => false end
      | EId x => match tlookup g x with Some (tx, _) => ty_beq tx t | None => false end
      | EArrLit es =>
          match t with
          | TArr el n =>
              (lenN es =? n) && forallb (fun e1 => ty_beq (e_ty e1) el && scf2_expr f P g e1) es && ty_fits_b P t
          | _ => false
          end
      | EArrRep e1 n =>
          match t with
          | TArr el n2 => (n =? n2) && ty_beq (e_ty e1) el && scf2_expr f P g e1 && ty_fits_b P t
          | _ => false
          end
      | EIdx a i =>
          match e_ty a, e_ty i with
          | TArr el n, TInt false b =>
              ty_beq el t && (b <=? 32) && (n <? 2 ^ 32) && scf2_expr f P g a && scf2_expr f P g i
          | _, _ => false
          end
      | ETupLit es => ty_beq t (TTup (map e_ty es)) && forallb (scf2_expr f P g) es && ty_fits_b P t
      | ETupAcc e1 i =>
          match e_ty e1 with
          | TTup ts => match nthN ts i with Some ti => ty_beq ti t && scf2_expr f P g e1 | None => false end
          | _ => false
          end
      | EFld e1 fld =>
          match e_ty e1 with
          | TStruct name =>
              match assocN name (p_structs P) with
              | Some def =>
                  match Sem.index_of fld (map fst def) 0 with
                  | Some k =>
                      match nthN (map snd def) k with
                      | Some tk => ty_beq tk t && scf2_expr f P g e1
                      | None => false
                      end
                  | None => false
                  end
              | None => false
              end
          | _ => false
          end
      | EStructLit name fields =>
          match assocN name (p_structs P) with
          | Some def =>
              nodupN (map fst fields) &&
              match struct_exprs fields def with
              | Some es => forallb (scf2_expr f P g) es && ty_beq (TTup (map e_ty es)) (TTup (map snd def))
              | None => false
              end && ty_beq t (TStruct name) && ty_fits_b P t
          | None => false
          end
      | EEnumLit en v args =>
          match assocN en (p_enums P) with
          | Some variants =>
              match nthN variants v with
              | Some ts =>
                  ty_beq (TTup (map e_ty args)) (TTup ts) && forallb (scf2_expr f P g) args &&
                  ty_beq t (TEnum en) && ty_fits_b P t
              | None => false
              end
          | None => false
          end
      | EMatch s arms =>
          scf2_expr f P g s &&
          forallb (fun arm =>
                     match gpat_b P false (fst arm) (e_ty s) with
                     | Some bs => scf2_expr f P (tbind_all ([] :: g) bs false) (snd arm) && ty_beq (e_ty (snd arm)) t
                     | None => false
                     end) arms
      | ENeg e1 =>
          match t with
          | TInt true b => ok_width b && ty_beq (e_ty e1) t && scf2_expr f P g e1
          | _ => false
          end
      | ENot e1 => scalar_ty t && ty_beq (e_ty e1) t && scf2_expr f P g e1
      | EOp o x y => scf2_expr f P g x && scf2_expr f P g y && scf2_op o x y m t
      | EBlock b => match scf2_block f P ([] :: g) b with Some tb => ty_beq tb t | None => false end
      | ECall fn args =>
          match find_fn P fn with
          | Some d =>
              ty_beq (fn_ret d) t &&
              forallb2 (fun a (p : N * ty) => ty_beq (e_ty a) (snd p) && scf2_expr f P g a) args (fn_params d)
          | None => false
          end
      | EJoin _ _ _ _ => false
      | EIf c a b =>
          ty_beq (e_ty c) TBool && ty_beq (e_ty a) t && ty_beq (e_ty b) t &&
          scf2_expr f P g c && scf2_expr f P g a && scf2_expr f P g b
      | ECast to e1 => scalar_ty t && ty_beq to t && scalar_ty (e_ty e1) && scf2_expr f P g e1
      | ERange lo hi bits => ty_beq t (TArr (TInt false bits) (hi - lo)) && (hi <=? 2 ^ bits)
      end
    end
  end
with scf2_block (fuel : nat) (P : program) (g : tenv) (b : list stmt) {struct fuel} : option ty :=
  match fuel with
  | O => None
  | S f =>
      (fix go (ss : list stmt) (g : tenv) (last : ty) : option ty :=
         match ss with
         | [] => Some last
         | s :: r => match scf2_stmt f P g s with Some (g', t) => go r g' t | None => None end
         end) b g unit_ty
  end
with scf2_stmt (fuel : nat) (P : program) (g : tenv) (s : stmt) {struct fuel} : option (tenv * ty) :=
  match fuel with
  | O => None
  | S f =>
    match s with
    | St si _ =>
      match si with
      | SLet p e =>
          if scf2_expr f P g e then
            match gpat_b P true p (e_ty e) with
            | Some bs => Some (tbind_all g bs false, unit_ty)
            | None => None
            end
          else None
      | SLetMut x e => if scf2_expr f P g e then Some (tbind g x (e_ty e) true, unit_ty) else None
      | SAssign x accs e =>
          match tlookup g x with
          | Some (tx, true) =>
              if scf2_expr f P g e then
                match (fix go (accs : list accessor) (cur : ty) : option ty :=
                         match accs with
                         | [] => Some cur
                         | AIdx aty ie :: r =>
                             match cur, e_ty ie with
                             | TArr el n, TInt false b =>
                                 if ty_beq aty cur && (b <=? 32) && (n <? 2 ^ 32) && scf2_expr f P g ie
                                 then go r el else None
                             | _, _ => None
                             end
                         | ATup tty i :: r =>
                             match cur with
                             | TTup ts =>
                                 if ty_beq tty cur then match nthN ts i with Some ti => go r ti | None => None end
                                 else None
                             | _ => None
                             end
                         | AFld sty fld :: r =>
                             match cur with
                             | TStruct name =>
                                 if ty_beq sty cur then
                                   match assocN name (p_structs P) with
                                   | Some def =>
                                       match Sem.index_of fld (map fst def) 0 with
                                       | Some k => match nthN (map snd def) k with Some tk => go r tk | None => None end
                                       | None => None
                                       end
                                   | None => None
                                   end
                                 else None
                             | _ => None
                             end
                         end) accs tx with
                | Some tf => if ty_beq tf (e_ty e) then Some (g, unit_ty) else None
                | None => None
                end
              else None
          | _ => None
          end
      | SFor p arr body =>
          match e_ty arr with
          | TArr el _ =>
              if scf2_expr f P g arr then
                match gpat_b P true p el with
                | Some bs =>
                    match scf2_block f P (tbind_all ([] :: g) bs false) body with
                    | Some _ => Some (g, unit_ty)
                    | None => None
                    end
                | None => None
                end
              else None
          | _ => None
          end
      | SJoinLoop _ _ _ _ _ => None
      | SExpr e => if scf2_expr f P g e then Some (g, e_ty e) else None
      end
    end
  end.

Fixpoint scf2_stmts (f : nat) (P : program) (ss : list stmt) (g : tenv) (last : ty) : option (tenv * ty) :=
  match ss with
  | [] => Some (g, last)
  | s :: r => match scf2_stmt f P g s with Some (g', t) => scf2_stmts f P r g' t | None => None end
  end.

Lemma scf2_block_S f P g b : scf2_block (S f) P g b = option_map snd (scf2_stmts f P b g unit_ty).
Proof.
  cbn [scf2_block]. generalize unit_ty. revert g. induction b as [|s r IH]; intros g last; [reflexivity|].
  cbn [scf2_stmts]. destruct (scf2_stmt f P g s) as [[g' t]|]; [apply IH|reflexivity].
Qed.

Lemma scf2_stmt_tl fw P g s g' t : scf2_stmt fw P g s = Some (g', t) -> tl g' = tl g.
Proof.
  destruct fw as [|f]; [discriminate|]. destruct s as [si m]. cbn [scf2_stmt]. destruct si; try discriminate.
  - destruct (scf2_expr f P g e); [|discriminate]. destruct (gpat_b P true p (e_ty e)); [|discriminate].
    intros [= <- _]. apply tl_tbind_all.
  - destruct (scf2_expr f P g e); [|discriminate]. intros [= <- _]. apply tl_tbind.
  - destruct (tlookup g name) as [[tx []]|]; try discriminate. destruct (scf2_expr f P g e); [|discriminate].
    match goal with |- match ?G with _ => _ end = _ -> _ => destruct G as [tf|] end; [|discriminate].
    destruct (ty_beq tf (e_ty e)); [|discriminate]. now intros [= <- _].
  - destruct (e_ty arr); try discriminate. destruct (scf2_expr f P g arr); [|discriminate].
    destruct (gpat_b P true p t0); [|discriminate]. destruct (scf2_block f P _ body); [|discriminate].
    now intros [= <- _].
  - destruct (scf2_expr f P g e); [|discriminate]. now intros [= <- _].
Qed.

(* a function of the program: its body is checked in the context of its parameters (a scope of
   their own over the global scope [gsc]) and has the declared type; all functions must pass *)
Definition scf2_fn (fw : nat) (P : program) (gsc : list (N * (ty * bool))) (d : fndef) : bool :=
  match scf2_block fw P ([] :: tbind_all [[]; gsc] (fn_params d) true) (fn_body d) with
  | Some t => ty_beq t (fn_ret d)
  | None => false
  end.

Definition scf2_fns (fw : nat) (P : program) (gsc : list (N * (ty * bool))) : bool :=
  forallb (scf2_fn fw P gsc) (p_fns P).

(* ------------------------------------------------------------------ the induction *)

Section MainF2.
  Variable P : program.
  Hypothesis Hsmall : enums_small P = true.
  Variable gsc : list (N * (ty * bool)).
  Variable sglob : list (N * Sem.value).
  Variable glob : @scope bool.
  Notation VRa := (VRa P).
  Hypothesis Hglob : scope_rel VRa sglob glob gsc.
  Hypothesis Himm : forall b, In b gsc -> snd (snd b) = false.
  Variable fwp : nat.
  Hypothesis Hfns : scf2_fns fwp P gsc = true.
  Notation AgE' := (AgE3 P VRa gsc sglob glob).
  Notation AgS' := (AgS3 P VRa gsc sglob glob).

  Lemma VRa_elim2 t v w : scalar_ty t = true -> VRa t v w -> val_ok t v /\ w = enc_val t v.
  Proof. intros Hs H. now apply (VRa_scalar P t v w Hs). Qed.

  Lemma VRa_intro2 t v : scalar_ty t = true -> val_ok t v -> VRa t v (enc_val t v).
  Proof. intros Hs H. apply (VRa_scalar P t v _ Hs). auto. Qed.

  Definition bn2 := binop_node_g3 P VRa VRa_elim2 VRa_intro2 gsc sglob glob.
  Definition shn2 := shift_node_g3 P VRa VRa_elim2 VRa_intro2 gsc sglob glob.

  Definition InvEf2 (fuel : nat) : Prop :=
    forall fw g e, scf2_expr fw P g e = true -> AgE' fuel g e.
  Definition InvSf2 (fuel : nat) : Prop :=
    forall fw g s g' t, scf2_stmt fw P g s = Some (g', t) -> AgS' fuel g g' t s.

  Lemma stmts_AgSS_f2 f : InvSf2 f -> forall fw ss g last g1 t,
    scf2_stmts fw P ss g last = Some (g1, t) -> AgSS3 P VRa gsc sglob glob f g ss last g1 t /\ tl g1 = tl g.
  Proof.
    intros IHs fw. induction ss as [|s r IH]; intros g last g1 t Hsc; cbn [scf2_stmts] in Hsc.
    - injection Hsc as <- <-. split; [constructor|reflexivity].
    - destruct (scf2_stmt fw P g s) as [[g' t']|] eqn:Es; [|discriminate Hsc].
      destruct (IH g' t' g1 t Hsc) as [HA Htl]. split.
      + econstructor; [eapply IHs; eassumption|exact HA].
      + rewrite Htl. eapply scf2_stmt_tl; eassumption.
  Qed.

  Ltac eqs :=
    repeat match goal with
    | H : sty_eqb _ _ = true |- _ => apply sty_eqb_eq in H
    | H : vt_eqb _ _ = true |- _ => apply vt_eqb_eq in H
    | H : ty_beq _ _ = true |- _ => apply ty_beq_eq in H
    end.

  Lemma mul_step_f2 f g x y m t :
    match t with
    | TInt _ b =>
        sty_eqb (e_ty x) t && sty_eqb (e_ty y) t &&
        match mul_rewrite x y m t with None => ok_width b | Some _ => mul_node_ok x y m t end
    | _ => false
    end = true ->
    AgE' f g x -> AgE' f g y -> AgE' (S f) g (Ex (EOp OMul x y) m t).
  Proof.
    intros Hop IHx IHy. destruct t as [|sg b| | | |]; try discriminate Hop. bsplit. eqs.
    destruct (mul_rewrite x y m (TInt sg b)) as [r|] eqn:Hm.
    - apply (mul_lit_node_b3 P VRa VRa_elim2 VRa_intro2 gsc sglob glob); try assumption.
      unfold mul_operand. destruct (mul_lit_info x y m (TInt sg b)) as [[[[] ?] ?]|]; assumption.
    - apply (mul_plain_node3 P VRa VRa_elim2 VRa_intro2 gsc sglob glob f g x y m (TInt sg b) (TInt sg b));
        try assumption.
      apply int_agrees; [assumption|left; split; reflexivity].
  Qed.

  (* == / != on two values of one type, aggregates included: Sem.v compares the values, the
     compiler the flattened wires (Compile/TSemSemEq.v) *)
  Lemma agg_eq_node f g (o : binop) x y m : o = OEq \/ o = ONe -> e_ty y = e_ty x ->
    AgE' f g x -> AgE' f g y -> AgE' (S f) g (Ex (EOp o x y) m TBool).
  Proof.
    intros Ho Ety IHx IHy ph en E fT w E' o' Hrel Hrun.
    assert (Hoe : op_arith o || op_cmp o || op_eq o = true) by (destruct Ho as [-> | ->]; reflexivity).
    destruct fT as [|fT]; [discriminate Hrun|]. rewrite lower_expr_S in Hrun.
    apply binop_run_inv in Hrun; [|exact Hoe|destruct Ho as [-> | ->]; intro; discriminate].
    destruct Hrun as (xw & E1 & o1 & yw & o2 & Hx & Hy & Hb).
    rewrite (sem_eval_op P f en o x y m TBool Hoe).
    pose proof (IHx ph en E fT _ _ _ Hrel Hx) as IH1. revert IH1.
    destruct (Sem.eval f P en x) as [[vx en1]|r1 m1|c1|]; intro IH1; cbn [Sem.obind]; try exact I.
    - destruct IH1 as (-> & HVx & Hrel1).
      pose proof (IHy ph en1 E1 fT _ _ _ Hrel1 Hy) as IH2. revert IH2.
      destruct (Sem.eval f P en1 y) as [[vy en2]|r2 m2|c2|]; intro IH2; cbn [Sem.obind]; try exact I.
      + destruct IH2 as (-> & HVy & Hrel2). rewrite Ety in HVy, Hb.
        destruct HVx as [Hex Hfit]. destruct HVy as [Hey _].
        assert (Hl : length xw = length yw)
          by (rewrite (has_enc_length P _ _ _ Hex Hfit), (has_enc_length P _ _ _ Hey Hfit); reflexivity).
        pose proof (has_enc_eqb P Hsmall _ _ _ _ _ Hex Hey Hfit) as Heq.
        destruct Ho as [-> | ->]; cbn [Sem.eval_binop Sem.obind e_ty].
        * rewrite lower_eq_bits in Hb by exact Hl. injection Hb as <- <-. rewrite Heq.
          split; [reflexivity|]. split; [split; [constructor|apply ty_fits_bool]|].
          eapply rel3_scopes; [|exact Hrel2]. reflexivity.
        * rewrite lower_ne_bits in Hb by exact Hl. injection Hb as <- <-. rewrite Heq.
          split; [reflexivity|]. split; [split; [constructor|apply ty_fits_bool]|].
          eapply rel3_scopes; [|exact Hrel2]. reflexivity.
      + subst o2. exact (stkx_lower_binop _ _ _ _ _ _ _ _ _ _ Hb).
    - subst o1. pose proof (sticky_e P _ _ _ _ _ _ _ Hy) as ->.
      exact (stkx_lower_binop _ _ _ _ _ _ _ _ _ _ Hb).
  Qed.

  Lemma op_step_f2 f g o x y m t :
    scf2_op o x y m t = true -> AgE' f g x -> AgE' f g y -> AgE' (S f) g (Ex (EOp o x y) m t).
  Proof.
    intros Hop IHx IHy. unfold scf2_op in Hop. apply orb_prop in Hop. destruct Hop as [Hop|Hop];
      [|destruct o; try discriminate Hop;
        [now apply mul_step_f2
        |destruct t; try discriminate Hop; apply ty_beq_eq in Hop; apply agg_eq_node; auto
        |destruct t; try discriminate Hop; apply ty_beq_eq in Hop; apply agg_eq_node; auto]].
    destruct o; cbn [sc_op] in Hop.
    (* arithmetic and bitwise *)
    1-8: destruct t as [|sg b| | | |]; try discriminate Hop; bsplit; try discriminate; eqs;
         match goal with
         | |- AgE3 _ _ _ _ _ _ _ (Ex _ _ TBool) =>
             eapply (bn2 f g _ x y m TBool TBool); try eassumption; try reflexivity;
             [ intro Hmul; discriminate Hmul | apply bool_agrees; reflexivity ]
         | |- _ =>
             eapply (bn2 f g _ x y m (TInt sg b) (TInt sg b)); try eassumption; try reflexivity;
             [ first [ intro Hmul; discriminate Hmul
                     | intros _; split; apply negb_true_iff; assumption ]
             | apply int_agrees; [assumption|left; split; reflexivity] ]
         end.
    - (* > *) bsplit. eqs. subst t. destruct (e_ty x) as [|sg b| | | |] eqn:Etx; try discriminate. bsplit. eqs.
      eapply (bn2 f g OGt x y m TBool (TInt sg b)); try eassumption; try reflexivity.
      + intro Hmul; discriminate Hmul.
      + apply int_agrees; [assumption|right; split; reflexivity].
    - (* < *) bsplit. eqs. subst t. destruct (e_ty x) as [|sg b| | | |] eqn:Etx; try discriminate. bsplit. eqs.
      eapply (bn2 f g OLt x y m TBool (TInt sg b)); try eassumption; try reflexivity.
      + intro Hmul; discriminate Hmul.
      + apply int_agrees; [assumption|right; split; reflexivity].
    - (* == *) bsplit. eqs. subst t.
      eapply (bn2 f g OEq x y m TBool (e_ty x)); try eassumption; try reflexivity.
      + intro Hmul; discriminate Hmul.
      + destruct (e_ty x) as [|sg b| | | |]; try discriminate.
        * apply bool_agrees; reflexivity.
        * apply int_agrees; [assumption|right; split; reflexivity].
    - (* != *) bsplit. eqs. subst t.
      eapply (bn2 f g ONe x y m TBool (e_ty x)); try eassumption; try reflexivity.
      + intro Hmul; discriminate Hmul.
      + destruct (e_ty x) as [|sg b| | | |]; try discriminate.
        * apply bool_agrees; reflexivity.
        * apply int_agrees; [assumption|right; split; reflexivity].
    - destruct t as [|sg b| | | |]; try discriminate Hop. bsplit. eqs.
      apply (shn2 f g true x y m sg b); assumption.
    - destruct t as [|sg b| | | |]; try discriminate Hop. bsplit. eqs.
      apply (shn2 f g false x y m sg b); assumption.
    - bsplit. eqs. subst t.
      apply (logic_node3 P VRa (VRa_bool P) gsc sglob glob f g true x y m); try assumption. apply KP_all.
    - bsplit. eqs. subst t.
      apply (logic_node3 P VRa (VRa_bool P) gsc sglob glob f g false x y m); try assumption. apply KP_all.
  Qed.



  Lemma forallb_AgE2 f (IHe : InvEf2 f) fw g es : forallb (scf2_expr fw P g) es = true -> Forall (AgE' f g) es.
  Proof.
    intro H. apply Forall_forall. intros e Hin. rewrite forallb_forall in H. eapply IHe. now apply H.
  Qed.


  Lemma find_fn_scf fn d : find_fn P fn = Some d ->
    scf2_block fwp P ([] :: tbind_all [[]; gsc] (fn_params d) true) (fn_body d) = Some (fn_ret d) /\ True.
  Proof.
    intro H. unfold find_fn in H. apply find_some in H. destruct H as [Hin _].
    unfold scf2_fns in Hfns. rewrite forallb_forall in Hfns. specialize (Hfns d Hin). unfold scf2_fn in Hfns.
    split; [|exact I].
    destruct (scf2_block fwp P _ (fn_body d)) as [tb|]; [|discriminate Hfns]. apply ty_beq_eq in Hfns. now subst tb.
  Qed.

  Lemma block_AgB_f2 f : (forall k, (k < f)%nat -> InvEf2 k /\ InvSf2 k) -> forall fw g b t,
    scf2_block fw P ([] :: g) b = Some t -> AgB3 P VRa gsc sglob glob f g b t.
  Proof.
    intros IH fw g b t Hsc. destruct f as [|f']; [intros ph en E fT w E' o' _ _; exact I|].
    destruct fw as [|fw']; [discriminate Hsc|]. rewrite scf2_block_S in Hsc.
    destruct (scf2_stmts fw' P b ([] :: g) unit_ty) as [[g1 tb]|] eqn:Es; [|discriminate Hsc].
    cbn [option_map snd] in Hsc. injection Hsc as ->.
    destruct (stmts_AgSS_f2 f' (proj2 (IH f' (le_n _))) fw' b _ _ _ _ Es) as [HA Htl].
    exact (block_run_agrees3 P VRa (VRa_unit P) gsc sglob glob f' g b g1 t HA Htl).
  Qed.

  Lemma args_AgEf2 f fw g : InvEf2 f -> forall args params,
    forallb2 (fun a (p : N * ty) => ty_beq (e_ty a) (snd p) && scf2_expr fw P g a) args params = true ->
    Forall2 (fun a (p : N * ty) => AgE' f g a /\ e_ty a = snd p) args params.
  Proof.
    intros IHe. induction args as [|a ar IH]; intros [|p pr] H; cbn [forallb2] in H; try discriminate H.
    - constructor.
    - bsplit. eqs. constructor; [|now apply IH]. split; [|assumption]. eapply IHe; eassumption.
  Qed.

  Lemma InvEf2_step f : (forall k, (k <= f)%nat -> InvEf2 k /\ InvSf2 k) -> InvEf2 (S f).
  Proof.
    intros IH fw g [ei m t] Hsc. destruct fw as [|fw]; [discriminate Hsc|]. cbn [scf2_expr] in Hsc.
    destruct (IH f (le_n _)) as [IHe _].
    destruct ei.
    - eqs. subst t. apply (lit_bool_node_a P gsc sglob glob (S f) g true m).
    - eqs. subst t. apply (lit_bool_node_a P gsc sglob glob (S f) g false m).
    - destruct t as [|sg b| | | |]; try discriminate Hsc. now apply lit_numU_node_a.
    - destruct t as [|sg b| | | |]; try discriminate Hsc. now apply lit_numS_node_a.
    - destruct (tlookup g name) as [[tx mu]|] eqn:El; [|discriminate Hsc]. eqs. subst tx.
      eapply id_node_a; eassumption.
    - (* array literal *)
      destruct t as [| |el n| | |]; try discriminate Hsc. bsplit.
      match goal with Hq : (lenN es =? n) = true |- _ => apply N.eqb_eq in Hq; subst n end.
      match goal with Hf : forallb _ es = true |- _ => rewrite forallb_forall in Hf; rename Hf into Hall end.
      apply (arrlit_node P gsc sglob glob f g es m _ el); try reflexivity; try assumption.
      + apply Forall_forall. intros e1 Hin. specialize (Hall _ Hin). bsplit. eapply IHe; eassumption.
      + apply Forall_forall. intros e1 Hin. specialize (Hall _ Hin). bsplit. eqs. assumption.
    - (* array repeat *)
      destruct t as [| |el n2| | |]; try discriminate Hsc. bsplit. eqs.
      match goal with Hq : (n =? n2) = true |- _ => apply N.eqb_eq in Hq; subst n2 end. subst el.
      apply arrrep_node; try reflexivity; try assumption. eapply IHe; eassumption.
    - (* index *)
      destruct (e_ty a) as [| |el n| | |] eqn:Ea; try discriminate Hsc.
      destruct (e_ty i) as [|[] b| | | |] eqn:Ei; try discriminate Hsc. bsplit. eqs. subst el.
      eapply (idx_node P gsc sglob glob f g a i m t n b); try eassumption; eapply IHe; eassumption.
    - (* tuple literal *)
      bsplit. eqs. apply tuplit_node; try assumption. eapply forallb_AgE2; eassumption.
    - (* tuple access *)
      destruct (e_ty e) as [| | |ts| |] eqn:Ee; try discriminate Hsc.
      destruct (nthN ts i) as [ti|] eqn:En; [|discriminate Hsc]. bsplit. eqs. subst ti.
      eapply tupacc_node; try eassumption. eapply IHe; eassumption.
    - (* field *)
      destruct (e_ty e) as [| | | |name|] eqn:Ee; try discriminate Hsc.
      destruct (assocN name (p_structs P)) as [def|] eqn:Ed; [|discriminate Hsc].
      destruct (Sem.index_of fld (map fst def) 0) as [k|] eqn:Ek; [|discriminate Hsc].
      destruct (nthN (map snd def) k) as [tk|] eqn:En; [|discriminate Hsc]. bsplit. eqs. subst tk.
      eapply fld_node; try eassumption. eapply IHe; eassumption.
    - (* struct literal *)
      destruct (assocN name (p_structs P)) as [def|] eqn:Ed; [|discriminate Hsc]. bsplit.
      destruct (struct_exprs fields def) as [es|] eqn:Ese; [|discriminate]. bsplit. eqs.
      match goal with Hq : TTup _ = TTup _ |- _ => injection Hq as Hq end.
      eapply structlit_node; try eassumption. eapply forallb_AgE2; eassumption.
    - (* enum literal *)
      destruct (assocN ename (p_enums P)) as [variants|] eqn:Ed; [|discriminate Hsc].
      destruct (nthN variants variant) as [ts|] eqn:En; [|discriminate Hsc]. bsplit. eqs.
      match goal with Hq : TTup _ = TTup _ |- _ => injection Hq as Hq end.
      eapply enumlit_node; try eassumption. eapply forallb_AgE2; eassumption.
    - (* match *)
      bsplit. apply match_node; [exact Hsmall|eapply IHe; eassumption|].
      apply Forall_forall. intros [pat body] Hin.
      match goal with Hf : forallb _ arms = true |- _ => rewrite forallb_forall in Hf; specialize (Hf _ Hin) end.
      cbn [fst snd] in *. destruct (gpat_b P false pat (e_ty e)) as [bs|] eqn:Ep; [|discriminate]. bsplit. eqs.
      exists bs. cbn [fst snd]. split; [now apply gpat_b_sound|]. split; [eapply IHe; eassumption|].
      split; [apply KP_all|assumption].
    - (* unary minus *)
      destruct t as [|[] b| | | |]; try discriminate Hsc. bsplit. eqs.
      apply (neg_node_g3 P VRa VRa_elim2 VRa_intro2 gsc sglob glob); try assumption. eapply IHe; eassumption.
    - bsplit. eqs. apply (not_node_g3 P VRa VRa_elim2 VRa_intro2 gsc sglob glob); try assumption. eapply IHe; eassumption.
    - bsplit. apply op_step_f2; try assumption; eapply IHe; eassumption.
    - (* block *)
      destruct (scf2_block fw P ([] :: g) b) as [tb|] eqn:Eb; [|discriminate Hsc]. eqs. subst tb.
      destruct f as [|f']; [intros ph en E fT w E' o' _ _; exact I|].
      destruct fw as [|fw']; [discriminate Eb|]. rewrite scf2_block_S in Eb.
      destruct (scf2_stmts fw' P b ([] :: g) unit_ty) as [[g1 tb]|] eqn:Es; [|discriminate Eb].
      cbn [option_map snd] in Eb. injection Eb as ->.
      destruct (IH f' (le_S _ _ (le_n _))) as [_ IHs].
      destruct (stmts_AgSS_f2 f' IHs fw' b _ _ _ _ Es) as [HA Htl].
      eapply (block_node3 P VRa (VRa_unit P) gsc sglob glob f' g b m t g1); assumption.
    - (* call *)
      match type of Hsc with context [find_fn P ?fn] => destruct (find_fn P fn) as [d|] eqn:Ef end;
        [|discriminate Hsc].
      bsplit. eqs. subst t. destruct (find_fn_scf _ _ Ef) as [Hb _].
      eapply (call_node3 P VRa gsc sglob glob Hglob); [exact Ef| |].
      + eapply args_AgEf2; eassumption.
      + eapply block_AgB_f2; [|exact Hb]. intros k Hk. apply (IH k). lia.
    - discriminate Hsc.
    - bsplit. eqs.
      apply (if_node3 P VRa (VRa_bool P) gsc sglob glob f g c t0 e m t); try assumption;
        try (eapply IHe; eassumption); apply KP_all.
    - bsplit. eqs. subst to. apply (cast_node_g3 P VRa VRa_elim2 VRa_intro2 gsc sglob glob); try assumption. eapply IHe; eassumption.
    - bsplit. eqs. apply range_node; assumption.
  Qed.

  Lemma InvSf2_step f : (forall k, (k <= f)%nat -> InvEf2 k /\ InvSf2 k) -> InvSf2 (S f).
  Proof.
    intros IH fw g [si m] g' t Hsc. destruct fw as [|fw]; [discriminate Hsc|]. cbn [scf2_stmt] in Hsc.
    destruct (IH f (le_n _)) as [IHe _].
    destruct si.
    - (* let pattern = e *)
      destruct (scf2_expr fw P g e) eqn:He; [|discriminate Hsc].
      destruct (gpat_b P true p (e_ty e)) as [bs|] eqn:Ep; [|discriminate Hsc]. injection Hsc as <- <-.
      apply let_pat_node; [eapply IHe; eassumption|now apply pat_b_sound].
    - destruct (scf2_expr fw P g e) eqn:He; [|discriminate Hsc]. injection Hsc as <- <-.
      apply (letmut_node3 P VRa (VRa_unit P) gsc sglob glob). eapply IHe; eassumption.
    - (* assignment through accessors *)
      destruct (tlookup g name) as [[tx []]|] eqn:El; try discriminate Hsc.
      destruct (scf2_expr fw P g e) eqn:He; [|discriminate Hsc].
      match type of Hsc with match ?G with _ => _ end = _ => destruct G as [tf|] eqn:Ea end; [|discriminate Hsc].
      destruct (ty_beq tf (e_ty e)) eqn:Et; [|discriminate Hsc]. injection Hsc as <- <-. eqs. subst tf.
      eapply assign_acc_node; [exact Himm|eapply IHe; eassumption|exact El|].
      revert Ea. generalize (e_ty e). generalize tx. clear El.
      induction accs as [|[aty ie|tty i|sty fld] r IHa]; intros cur tf Ea.
      + injection Ea as <-. constructor.
      + destruct cur as [| |el n| | |]; try discriminate Ea.
        destruct (e_ty ie) as [|[] b| | | |] eqn:Ei; try discriminate Ea.
        match type of Ea with (if ?c then _ else _) = _ => destruct c eqn:Hc end; [|discriminate Ea].
        bsplit. eqs. subst aty. econstructor; try eassumption; [eapply IHe; eassumption|now apply IHa].
      + destruct cur as [| | |ts| |]; try discriminate Ea.
        destruct (ty_beq tty (TTup ts)) eqn:Hc; [|discriminate Ea]. eqs. subst tty.
        destruct (nthN ts i) as [ti|] eqn:En; [|discriminate Ea]. econstructor; [exact En|now apply IHa].
      + destruct cur as [| | | |sname|]; try discriminate Ea.
        destruct (ty_beq sty (TStruct sname)) eqn:Hc; [|discriminate Ea]. eqs. subst sty.
        destruct (assocN sname (p_structs P)) as [def|] eqn:Ed; [|discriminate Ea].
        destruct (Sem.index_of fld (map fst def) 0) as [k|] eqn:Ek; [|discriminate Ea].
        destruct (nthN (map snd def) k) as [tk|] eqn:En; [|discriminate Ea].
        econstructor; try eassumption. now apply IHa.
    - (* for *)
      destruct (e_ty arr) as [| |el n| | |] eqn:Earr; try discriminate Hsc.
      destruct (scf2_expr fw P g arr) eqn:Ha; [|discriminate Hsc].
      destruct (gpat_b P true p el) as [bs|] eqn:Ep; [|discriminate Hsc].
      destruct (scf2_block fw P (tbind_all ([] :: g) bs false) body) as [tb|] eqn:Eb; [|discriminate Hsc].
      injection Hsc as <- <-.
      destruct f as [|f']; [intros ph en E fT w E' o' _ _; exact I|].
      destruct fw as [|fw']; [discriminate Eb|]. rewrite scf2_block_S in Eb.
      destruct (scf2_stmts fw' P body (tbind_all ([] :: g) bs false) unit_ty) as [[g1 tb']|] eqn:Es; [|discriminate Eb].
      destruct (IH f' (le_S _ _ (le_n _))) as [_ IHs].
      destruct (stmts_AgSS_f2 f' IHs fw' body _ _ _ _ Es) as [HA Htl].
      rewrite tl_tbind_all in Htl. cbn [tl] in Htl.
      eapply (for_pat_node P gsc sglob glob f' g p bs arr body m el n g1 tb');
        [eapply IHe; eassumption|exact Earr|now apply pat_b_sound|exact HA|exact Htl].
    - discriminate Hsc.
    - destruct (scf2_expr fw P g e) eqn:He; [|discriminate Hsc]. injection Hsc as <- <-.
      apply sexpr_node3. eapply IHe; eassumption.
  Qed.

  Theorem agree_all_full2 : forall fuel, InvEf2 fuel /\ InvSf2 fuel.
  Proof.
    induction fuel as [fuel IH] using lt_wf_ind. destruct fuel as [|f].
    - split; [intros fw g e _ ph en E fT w E' o' _ _|intros fw g s g' t _ ph en E fT w E' o' _ _]; exact I.
    - split.
      + apply InvEf2_step. intros k Hk. apply IH. lia.
      + apply InvSf2_step. intros k Hk. apply IH. lia.
  Qed.
End MainF2.
Print Assumptions agree_all_full2.

(* ------------------------------------------------------------------ the theorems, spelled out
   (relative to the three fixed outermost scopes) *)

Section Spelled.
  Variable P : program.
  Hypothesis Hsmall : enums_small P = true.
  Variable gsc : list (N * (ty * bool)).
  Variable sglob : list (N * Sem.value).
  Variable glob : @scope bool.
  Hypothesis Hglob : scope_rel (VRa P) sglob glob gsc.
  Hypothesis Himm : forall b, In b gsc -> snd (snd b) = false.
  Variable fwp : nat.
  Hypothesis Hfns : scf2_fns fwp P gsc = true.
  Notation rel := (relQ (VRa P) gsc sglob glob).

  Theorem tsem_sem_full2_expr fuel fw g e ph en E fT w E' o' :
    scf2_expr fw P g e = true -> rel ph en E g ->
    lower_expr tops fT P e E None = Ok ((w, E'), o') ->
    match Sem.eval fuel P en e with
    | Sem.Done (v, en') => o' = None /\ VRa P (e_ty e) v w /\ rel ph en' E' g
    | Sem.Panicked r m => o' = Some (preason_num (pr r), ploc32 (ploc_of m))
    | Sem.Stuck _ | Sem.NoFuel => True
    end.
  Proof.
    intros Hsc Hrel Hrun.
    exact (proj1 (agree_all_full2 P Hsmall gsc sglob glob Hglob Himm fwp Hfns fuel) fw g e Hsc ph en E fT w E' o' Hrel Hrun).
  Qed.

  Theorem tsem_sem_full2_stmt fuel fw g s g' t ph en E fT w E' o' :
    scf2_stmt fw P g s = Some (g', t) -> rel (false :: ph) en E g ->
    lower_stmt tops fT P s E None = Ok ((w, E'), o') ->
    match Sem.exec fuel P en s with
    | Sem.Done (v, en') => o' = None /\ VRa P t v w /\ rel (false :: ph) en' E' g'
    | Sem.Panicked r m => o' = Some (preason_num (pr r), ploc32 (ploc_of m))
    | Sem.Stuck _ | Sem.NoFuel => True
    end.
  Proof.
    intros Hsc Hrel Hrun.
    exact (proj2 (agree_all_full2 P Hsmall gsc sglob glob Hglob Himm fwp Hfns fuel) fw g s g' t Hsc ph en E fT w E' o' Hrel Hrun).
  Qed.

  Theorem tsem_sem_full2_block fuel fw g b t ph en E fT w E' o' :
    scf2_block fw P ([] :: g) b = Some t -> rel ph en E g ->
    lower_block tops fT P b E None = Ok ((w, E'), o') ->
    match Sem.obind (Sem.exec_block fuel P (Sem.push_scope en) b)
                    (fun '(v, en1) => Sem.Done (v, Sem.pop_scope en1)) with
    | Sem.Done (v, en') => o' = None /\ VRa P t v w /\ rel ph en' E' g
    | Sem.Panicked r m => o' = Some (preason_num (pr r), ploc32 (ploc_of m))
    | Sem.Stuck _ | Sem.NoFuel => True
    end.
  Proof.
    intros Hsc Hrel Hrun.
    pose proof (fun k (_ : (k < fuel)%nat) => agree_all_full2 P Hsmall gsc sglob glob Hglob Himm fwp Hfns k) as HI.
    eapply block_AgB_f2; [exact HI|exact Hsc|exact Hrel|exact Hrun].
  Qed.
End Spelled.
Print Assumptions tsem_sem_full2_expr.
Print Assumptions tsem_sem_full2_block.

(* ------------------------------------------------------------------ whole programs with calls
   (no global constants: the three outermost scopes are empty) *)

Lemma env_rel3_length VR en E g : env_rel3 VR en E g -> length E = length g.
Proof. unfold env_rel3. induction 1; cbn [length]; congruence. Qed.

Lemma scope_rel_nil3 VR : scope_rel VR [] [] [].
Proof. split; [exact I|]. intro x. cbn. auto. Qed.

Theorem tsem_sem_program_full2 P d fuel fw fT args o outs :
  enums_small P = true -> p_consts P = [] -> find_fn P (p_main P) = Some d ->
  scf2_fns fw P [] = true -> canonical_args P (fn_params d) args = true ->
  tsem_program fT P args = Ok (o, outs) ->
  match Sem.run_main fuel P args with
  | Sem.RunOk bits _ => o = None /\ outs = bits
  | Sem.RunPanic r m => o = Some (preason_num (pr r), ploc32 (ploc_of m))
  | Sem.RunStuck _ | Sem.RunNoFuel => True
  end.
Proof.
  intros Hsm Hc Hfind Hf Hcan Hrun.
  assert (Himm : forall b : N * (ty * bool), In b [] -> snd (snd b) = false) by (intros b []).
  destruct (find_fn_scf P [] fw Hf _ _ Hfind) as [Hsc _].
  unfold tsem_program in Hrun. rewrite Hfind in Hrun.
  destruct (negb (same_len (fn_params d) args)); [discriminate Hrun|].
  unfold main_env, global_scope in Hrun. rewrite Hc in Hrun. cbn [fold_left bind] in Hrun.
  destruct (fold_left (fun Er b => let* E := Er in env_let E (fst b) (snd b))
              (combine (map fst (fn_params d)) args) (Ok (env_push [[]]))) as [E0| |] eqn:Ef;
    cbn [bind] in Hrun; try discriminate Hrun.
  destruct (lower_block tops fT P (fn_body d) E0 None) as [[[w E'] o1]| |] eqn:Hb; cbn [bind] in Hrun;
    try discriminate Hrun. injection Hrun as <- <-.
  unfold Sem.run_main. rewrite Hfind.
  destruct (Sem.decode_args P (fn_params d) args) as [vals|] eqn:Ed; [|exact I].
  unfold Sem.eval_consts. rewrite Hc.
  assert (Hrel0 : env_rel3 (VRa P) (Sem.push_scope (Sem.mkEnv [[]] false)) (env_push [[]]) ([] :: [[]])).
  { apply TSemSemStmt.rel_push. unfold env_rel3. cbn [Sem.scopes]. constructor; [|constructor]. apply scope_rel_nil3. }
  pose proof (init_rel_f P _ _ _ Ed Hcan _ _ _ _ Hrel0 Ef) as Hrel.
  set (en0 := Sem.bind_all (Sem.push_scope (Sem.mkEnv [[]] false)) vals) in *.
  set (g0 := tbind_all [[]; []] (fn_params d) true) in *.
  assert (Hg0 : exists gs', g0 = [gs'; []]) by (apply tbind_all_cons).
  destruct Hg0 as [gs' Hg0].
  assert (HrelQ : relQ (VRa P) [] [] [] [false; false] en0 E0 g0).
  { pose proof (relP_of_env_rel3 (VRa P) _ _ _ Hrel) as HP.
    rewrite (env_rel3_length _ _ _ _ Hrel), Hg0 in HP. cbn [length repeat] in HP. rewrite <- Hg0 in HP.
    split; [exact HP|].
    assert (g0 <> []) as Hne by (rewrite Hg0; discriminate).
    assert (last g0 [] = []) as Hl by (rewrite Hg0; reflexivity).
    destruct (rel_last (VRa P) _ _ _ _ HP Hne Hl) as (H1 & H2 & _ & _).
    repeat split; try assumption. rewrite Hg0. cbn [length]. lia. }
  pose proof (tsem_sem_full2_block P Hsm [] [] [] (scope_rel_nil3 (VRa P)) Himm fw Hf fuel fw g0 (fn_body d)
                (fn_ret d) [false; false] en0 E0 fT _ _ _ Hsc HrelQ Hb) as H. revert H.
  destruct (Sem.exec_block fuel P (Sem.push_scope en0) (fn_body d)) as [[v en1]|r m|c|]; cbn [Sem.obind];
    intro H; try exact I; [|exact H].
  destruct H as (-> & [HV Hfit] & _).
  rewrite (has_enc_encode P _ _ _ HV Hfit). auto.
Qed.
Print Assumptions tsem_sem_program_full2.

Definition in_full_fragment2 (fw : nat) (P : program) : bool :=
  match p_consts P, find_fn P (p_main P) with
  | [], Some _ => enums_small P && scf2_fns fw P []
  | _, _ => false
  end.

Theorem in_full_fragment2_sound P fuel fw fT args o outs :
  in_full_fragment2 fw P = true -> canonical_main_args P args = true ->
  tsem_program fT P args = Ok (o, outs) ->
  match Sem.run_main fuel P args with
  | Sem.RunOk bits _ => o = None /\ outs = bits
  | Sem.RunPanic r m => o = Some (preason_num (pr r), ploc32 (ploc_of m))
  | _ => True
  end.
Proof.
  unfold in_full_fragment2, canonical_main_args. intros H Hcan Hrun.
  destruct (p_consts P) eqn:Hc; [|discriminate H].
  destruct (find_fn P (p_main P)) as [d|] eqn:Hfind; [|discriminate H].
  apply andb_prop in H. destruct H as [Hsm Hf].
  pose proof (tsem_sem_program_full2 P d fuel fw fT args o outs Hsm Hc Hfind Hf Hcan Hrun) as HH.
  destruct (Sem.run_main fuel P args); exact HH || exact I.
Qed.
Print Assumptions in_full_fragment2_sound.

(* ------------------------------------------------------------------ sanity: calls with aggregate
   arguments and results *)
Module SanityFullCall.
  Definition mm (k : N) : meta := mkMeta k 1 k 9.
  Definition u8 := TInt false 8.
  Definition tpoint := TStruct 20.            (* struct Point { x: u8, y: u8 } *)
  Definition tshape := TEnum 30.              (* enum Shape { Dot, Line(u8) } *)
  Definition tarr := TArr u8 3.
  Definition lit (n : N) (k : N) := Ex (ENumU n 8) (mm k) u8.
  Definition v (x : N) (t : ty) (k : N) := Ex (EId x) (mm k) t.
  (* fn sum(a: [u8; 3]) -> u8 { let mut t = 0u8; for e in a { t = t + e; } t }         sum = 40
     fn mk(x: u8, y: u8) -> Point { Point { x: x, y: y } }                              mk = 41
     pub fn main(a: [u8; 3], s: Shape) -> u8 {
       let p = mk(sum(a), 2u8);
       match s { Shape::Dot => p.x, Shape::Line(n) => sum([n, p.x, p.y]) } } *)
  Definition sum_fn : fndef :=
    mkFn 40 [(1, tarr)] u8
      [ St (SLetMut 5 (lit 0 1)) (mm 2);
        St (SFor (Pat (PId 6) (mm 3) u8) (v 1 tarr 4)
              [St (SAssign 5 [] (Ex (EOp OAdd (v 5 u8 5) (v 6 u8 6)) (mm 7) u8)) (mm 8)]) (mm 9);
        St (SExpr (v 5 u8 10)) (mm 11) ].
  Definition mk_fn : fndef :=
    mkFn 41 [(1, u8); (2, u8)] tpoint
      [ St (SExpr (Ex (EStructLit 20 [(0, v 1 u8 12); (1, v 2 u8 13)]) (mm 14) tpoint)) (mm 15) ].
  Definition main_fn : fndef :=
    mkFn 11 [(1, tarr); (2, tshape)] u8
      [ St (SLet (Pat (PId 3) (mm 16) tpoint)
              (Ex (ECall 41 [Ex (ECall 40 [v 1 tarr 17]) (mm 18) u8; lit 2 19]) (mm 20) tpoint)) (mm 21);
        St (SExpr (Ex (EMatch (v 2 tshape 22)
              [ (Pat (PEnumUnit 30 0) (mm 23) tshape, Ex (EFld (v 3 tpoint 24) 0) (mm 25) u8);
                (Pat (PEnumTup 30 1 [Pat (PId 7) (mm 26) u8]) (mm 27) tshape,
                 Ex (ECall 40 [Ex (EArrLit [v 7 u8 28; Ex (EFld (v 3 tpoint 29) 0) (mm 30) u8;
                                            Ex (EFld (v 3 tpoint 31) 1) (mm 32) u8]) (mm 33) tarr]) (mm 34) u8) ])
              (mm 35) u8)) (mm 36) ].
  Definition P0 : program :=
    mkProgram [(20, [(0, u8); (1, u8)])] [(30, [[]; [u8]])] [sum_fn; mk_fn; main_fn] [] 11.

  Example accepted : in_full_fragment2 14 P0 = true.
  Proof. vm_compute. reflexivity. Qed.

  Definition arr_bits (a b c : Z) : list bool := enc 8 a ++ enc 8 b ++ enc 8 c.
  Definition line_bits (n : Z) : list bool := true :: enc 8 n.
  Definition dot_bits : list bool := false :: enc 8 0.

  Ltac run A :=
    destruct (tsem_program 18 P0 A) as [[o outs]| |] eqn:Hrun;
      [|vm_compute in Hrun; discriminate Hrun|vm_compute in Hrun; discriminate Hrun];
    assert (Hcan : canonical_main_args P0 A = true) by (vm_compute; reflexivity);
    pose proof (in_full_fragment2_sound P0 18 14 18 _ o outs accepted Hcan Hrun) as H.

  (* p = mk(60, 2); Line(7): sum([7, 60, 2]) = 69 *)
  Example line : exists o outs l, tsem_program 18 P0 [arr_bits 10 20 30; line_bits 7] = Ok (o, outs) /\
    Sem.run_main 18 P0 [arr_bits 10 20 30; line_bits 7] = Sem.RunOk (enc 8 69) l /\ o = None /\ outs = enc 8 69.
  Proof.
    run [arr_bits 10 20 30; line_bits 7].
    assert (exists l, Sem.run_main 18 P0 [arr_bits 10 20 30; line_bits 7] = Sem.RunOk (enc 8 69) l) as [l Ev]
      by (eexists; vm_compute; reflexivity).
    rewrite Ev in H. destruct H as [-> ->]. exists None, (enc 8 69), l. repeat split; assumption || reflexivity.
  Qed.

  (* the first call overflows inside the callee's loop: 200 + 100 *)
  Example callee_panics : exists o outs, tsem_program 18 P0 [arr_bits 200 100 0; dot_bits] = Ok (o, outs) /\
    Sem.run_main 18 P0 [arr_bits 200 100 0; dot_bits] = Sem.RunPanic Sem.ROverflow (mm 7) /\
    o = Some (preason_num Overflow, ploc32 (ploc_of (mm 7))).
  Proof.
    run [arr_bits 200 100 0; dot_bits].
    assert (Sem.run_main 18 P0 [arr_bits 200 100 0; dot_bits] = Sem.RunPanic Sem.ROverflow (mm 7)) as Ev
      by (vm_compute; reflexivity).
    rewrite Ev in H. eauto.
  Qed.
End SanityFullCall.

(* products by a literal: accepted, and the two semantics agree (value and overflow); the
   literal -2i8 of the finding const-mul-rewrite-intermediate-overflow is rejected *)
Module SanityMul.
  Definition mm (k : N) : meta := mkMeta k 1 k 9.
  Definition u8 := TInt false 8.
  Definition i8 := TInt true 8.
  (* pub fn main(x: u8) -> u8 { 3u8 * x } *)
  Definition main_fn : fndef :=
    mkFn 11 [(1, u8)] u8
      [ St (SExpr (Ex (EOp OMul (Ex (ENumU 3 8) (mm 1) u8) (Ex (EId 1) (mm 2) u8)) (mm 3) u8)) (mm 4) ].
  Definition P0 : program := mkProgram [] [] [main_fn] [] 11.

  Example accepted : in_full_fragment2 6 P0 = true.
  Proof. vm_compute. reflexivity. Qed.

  Ltac run A :=
    destruct (tsem_program 8 P0 A) as [[o outs]| |] eqn:Hrun;
      [|vm_compute in Hrun; discriminate Hrun|vm_compute in Hrun; discriminate Hrun];
    assert (Hcan : canonical_main_args P0 A = true) by (vm_compute; reflexivity);
    pose proof (in_full_fragment2_sound P0 8 6 8 _ o outs accepted Hcan Hrun) as H.

  Example value : exists o outs l, tsem_program 8 P0 [enc 8 50] = Ok (o, outs) /\
    Sem.run_main 8 P0 [enc 8 50] = Sem.RunOk (enc 8 150) l /\ o = None /\ outs = enc 8 150.
  Proof.
    run [enc 8 50].
    assert (exists l, Sem.run_main 8 P0 [enc 8 50] = Sem.RunOk (enc 8 150) l) as [l Ev]
      by (eexists; vm_compute; reflexivity).
    rewrite Ev in H. destruct H as [-> ->]. exists None, (enc 8 150), l. repeat split; assumption || reflexivity.
  Qed.

  Example overflow : exists o outs, tsem_program 8 P0 [enc 8 100] = Ok (o, outs) /\
    Sem.run_main 8 P0 [enc 8 100] = Sem.RunPanic Sem.ROverflow (mm 3) /\
    o = Some (preason_num Overflow, ploc32 (ploc_of (mm 3))).
  Proof.
    run [enc 8 100].
    assert (Sem.run_main 8 P0 [enc 8 100] = Sem.RunPanic Sem.ROverflow (mm 3)) as Ev by (vm_compute; reflexivity).
    rewrite Ev in H. eauto.
  Qed.

  (* pub fn main(x: i8) -> i8 { x * -2i8 } : not accepted *)
  Definition neg_fn : fndef :=
    mkFn 11 [(1, i8)] i8
      [ St (SExpr (Ex (EOp OMul (Ex (EId 1) (mm 2) i8) (Ex (ENumS (-2) 8) (mm 1) i8)) (mm 3) i8)) (mm 4) ].
  Example rejected : in_full_fragment2 6 (mkProgram [] [] [neg_fn] [] 11) = false.
  Proof. vm_compute. reflexivity. Qed.
End SanityMul.

(* == / != on aggregates: accepted; on canonical inputs the two semantics agree (by the theorem).
   On a NON-canonical input they differ: Sem.v decodes the arguments and compares the VALUES, the
   circuit compares the WIRES, and the unused payload bits of an enum value are wires too
   (finding: aggregate-eq-compares-padding; [canonical_main_args] excludes such inputs) *)
Module SanityAggEq.
  Definition mm (k : N) : meta := mkMeta k 1 k 9.
  Definition u8 := TInt false 8.
  Definition te := TEnum 30.                   (* enum E { A, B(u8) } *)
  Definition tt := TTup [te; TArr u8 2].
  Definition v (x : N) (t : ty) (k : N) := Ex (EId x) (mm k) t.
  (* pub fn main(a: (E, [u8; 2]), b: (E, [u8; 2])) -> (bool, bool) { (a == b, a.1 != b.1) } *)
  Definition main_fn : fndef :=
    mkFn 11 [(1, tt); (2, tt)] (TTup [TBool; TBool])
      [ St (SExpr (Ex (ETupLit
          [ Ex (EOp OEq (v 1 tt 1) (v 2 tt 2)) (mm 3) TBool;
            Ex (EOp ONe (Ex (ETupAcc (v 1 tt 4) 1) (mm 5) (TArr u8 2)) (Ex (ETupAcc (v 2 tt 6) 1) (mm 7) (TArr u8 2)))
               (mm 8) TBool ]) (mm 9) (TTup [TBool; TBool]))) (mm 10) ].
  Definition P0 : program := mkProgram [] [(30, [[]; [u8]])] [main_fn] [] 11.

  Example accepted : in_full_fragment2 6 P0 = true.
  Proof. vm_compute. reflexivity. Qed.

  Definition arg (tag : bool) (payload x y : Z) : list bool := (tag :: enc 8 payload) ++ enc 8 x ++ enc 8 y.

  (* canonical inputs: B(7), [1, 2] twice *)
  Example equal_values : exists o outs l,
    tsem_program 8 P0 [arg true 7 1 2; arg true 7 1 2] = Ok (o, outs) /\
    Sem.run_main 8 P0 [arg true 7 1 2; arg true 7 1 2] = Sem.RunOk [true; false] l /\ o = None /\ outs = [true; false].
  Proof.
    destruct (tsem_program 8 P0 [arg true 7 1 2; arg true 7 1 2]) as [[o outs]| |] eqn:Hrun;
      [|vm_compute in Hrun; discriminate Hrun|vm_compute in Hrun; discriminate Hrun].
    assert (Hcan : canonical_main_args P0 [arg true 7 1 2; arg true 7 1 2] = true) by (vm_compute; reflexivity).
    pose proof (in_full_fragment2_sound P0 8 6 8 _ o outs accepted Hcan Hrun) as H.
    assert (exists l, Sem.run_main 8 P0 [arg true 7 1 2; arg true 7 1 2] = Sem.RunOk [true; false] l) as [l Ev]
      by (eexists; vm_compute; reflexivity).
    rewrite Ev in H. destruct H as [-> ->]. exists None, [true; false], l. repeat split; assumption || reflexivity.
  Qed.

  (* the variant A has no payload; 255 in its unused payload bits is not a canonical encoding:
     Sem.v says a == b, the circuit says a != b *)
  Example padding_is_compared :
    canonical_main_args P0 [arg false 255 1 2; arg false 0 1 2] = false /\
    Sem.run_main 8 P0 [arg false 255 1 2; arg false 0 1 2] = Sem.RunOk [true; false] false /\
    tsem_program 8 P0 [arg false 255 1 2; arg false 0 1 2] = Ok (None, [false; false]).
  Proof. vm_compute. repeat split; reflexivity. Qed.
End SanityAggEq.

(* arrays of zero-sized elements (Compile/TSemArrayZ.v): accepted; reads / writes have no wires,
   the bounds checks are the usual ones *)
Module SanityZeroSized.
  Definition mm (k : N) : meta := mkMeta k 1 k 9.
  Definition u8 := TInt false 8.
  Definition u32 := TInt false 32.
  Definition tu := TTup [].
  Definition ta := TArr tu 3.
  (* pub fn main(i: usize) -> u8 { let mut a = [(); 3]; a[i] = (); 1u8 } *)
  Definition main_fn : fndef :=
    mkFn 11 [(1, u32)] u8
      [ St (SLetMut 0 (Ex (EArrRep (Ex (ETupLit []) (mm 1) tu) 3) (mm 2) ta)) (mm 3);
        St (SAssign 0 [AIdx ta (Ex (EId 1) (mm 4) u32)] (Ex (ETupLit []) (mm 5) tu)) (mm 6);
        St (SExpr (Ex (ENumU 1 8) (mm 7) u8)) (mm 8) ].
  Definition P0 : program := mkProgram [] [] [main_fn] [] 11.

  Example accepted : in_full_fragment2 6 P0 = true.
  Proof. vm_compute. reflexivity. Qed.

  Ltac run A :=
    destruct (tsem_program 8 P0 A) as [[o outs]| |] eqn:Hrun;
      [|vm_compute in Hrun; discriminate Hrun|vm_compute in Hrun; discriminate Hrun];
    assert (Hcan : canonical_main_args P0 A = true) by (vm_compute; reflexivity);
    pose proof (in_full_fragment2_sound P0 8 6 8 _ o outs accepted Hcan Hrun) as H.

  Example in_bounds : exists o outs l, tsem_program 8 P0 [enc 32 1] = Ok (o, outs) /\
    Sem.run_main 8 P0 [enc 32 1] = Sem.RunOk (enc 8 1) l /\ o = None /\ outs = enc 8 1.
  Proof.
    run [enc 32 1].
    assert (exists l, Sem.run_main 8 P0 [enc 32 1] = Sem.RunOk (enc 8 1) l) as [l Ev] by (eexists; vm_compute; reflexivity).
    rewrite Ev in H. destruct H as [-> ->]. exists None, (enc 8 1), l. repeat split; assumption || reflexivity.
  Qed.

  Example out_of_bounds : exists o outs, tsem_program 8 P0 [enc 32 5] = Ok (o, outs) /\
    Sem.run_main 8 P0 [enc 32 5] = Sem.RunPanic Sem.ROutOfBounds (mm 6) /\
    o = Some (preason_num OutOfBounds, ploc32 (ploc_of (mm 6))).
  Proof.
    run [enc 32 5].
    assert (Sem.run_main 8 P0 [enc 32 5] = Sem.RunPanic Sem.ROutOfBounds (mm 6)) as Ev by (vm_compute; reflexivity).
    rewrite Ev in H. eauto.
  Qed.
End SanityZeroSized.
