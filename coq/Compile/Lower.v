(* Model of the lowering of typed programs to circuits: a transliteration of
   src/compile.rs (compile_block, TypedStmt::compile, TypedExpr::compile, TypedPattern::compile,
   compile_bitonic_merge, the parameter wiring and const binding of compile_with_constants),
   of src/env.rs and of CircuitBuilder::mux_envs (circuit.rs), over the builder model
   (Builder.v), the gadgets (Gadgets.v), extend_to_bits (Extend.v), the panic record
   (PanicRec.v) and build (Build.v).  Definitions only; proofs are in LowerProofs.v.

   Input: the typed AST of Lang/Ast.v as the harness exports it from the real type checker
   (types resolved to bit sizes, identifiers interned IN RANK ORDER of their byte strings, so
   that the iteration order of Rust's BTreeMap<String, _> scopes is the order of the keys).
   Output: the SSA circuit, which the correspondence check requires to be gate-for-gate the
   circuit the real compiler emits for the same program.

   Recursion is on explicit fuel (function calls are inlined, `x * c` is rewritten into a
   fresh expression): [OutOfFuel] is never a Rust behaviour.  [Crash] = the Rust code panics
   (unwrap on a missing binding, slice out of range, assert_eq! on lengths ...).
   Where the Rust code loops over indices of a flat wire vector in strides of the element
   size, the model recurses over chunks ([firstn]/[skipn]); both agree whenever the vector's
   length is a multiple of the element size, which every vector the compiler builds is. *)
From GV Require Import Base.Util Base.NMap Lang.Ast Circuit.Ssa Builder.Builder Builder.Build
  Gadgets.Gadgets Gadgets.Extend Panic.PanicRec.
From GV Require Lang.Sem.
Local Open Scope N_scope.

Section Generic.
Context {Wt Cs Pst : Type}.

(* ------------------------------------------------------------------ env.rs *)

Definition scope := list (N * list Wt).      (* a BTreeMap: sorted by key, keys distinct *)
Definition cenv := list scope.              (* INNERMOST scope first (Rust: last) *)

Fixpoint scope_insert (s : scope) (x : N) (v : list Wt) : scope :=
  match s with
  | [] => [(x, v)]
  | (k, w) :: r =>
      if x <? k then (x, v) :: s
      else if x =? k then (x, v) :: r
      else (k, w) :: scope_insert r x v
  end.

Fixpoint scope_replace (s : scope) (x : N) (v : list Wt) : option scope :=
  match s with
  | [] => None
  | (k, w) :: r =>
      if x =? k then Some ((k, v) :: r)
      else match scope_replace r x v with Some r' => Some ((k, w) :: r') | None => None end
  end.

Fixpoint env_get (E : cenv) (x : N) : option (list Wt) :=
  match E with
  | [] => None
  | s :: r => match assocN x s with Some v => Some v | None => env_get r x end
  end.

(* let_in_current_scope: `self.0.last_mut().unwrap()` *)
Definition env_let (E : cenv) (x : N) (v : list Wt) : res cenv :=
  match E with
  | s :: r => Ok (scope_insert s x v :: r)
  | [] => Crash
  end.

(* assign_mut: the innermost scope that has the name; panic! if none *)
Fixpoint env_assign (E : cenv) (x : N) (v : list Wt) : res cenv :=
  match E with
  | [] => Crash
  | s :: r =>
      match scope_replace s x v with
      | Some s' => Ok (s' :: r)
      | None => let* r' := env_assign r x v in Ok (s :: r')
      end
  end.

Definition env_push (E : cenv) : cenv := [] :: E.
Definition env_pop (E : cenv) : res cenv :=
  match E with _ :: r => Ok r | [] => Crash end.

(* ------------------------------------------------------------------ the operation set

   Everything below is generic in the type of wires [Wt], the compiler state [Cs] (Rust: the
   CircuitBuilder) and the saved panic states [Pst] (Rust: CachedPanicResult), and uses the
   gate store only through the record [ops].  Two instances:
   - [bops] (end of this file): wires are builder wire numbers, the operations are the models of
     CircuitBuilder's methods -- this instance IS the model of compile.rs and is the one tied
     to the real compiler;
   - [TSem.tops]: wires are Booleans, the operations are the Boolean functions the gadgets
     compute -- the bit-level semantics of a program.
   LowerSim.v proves once, for the generic code, that related operation sets give related
   results. *)

Record ops := mkOps {
  w0 : Wt;                                   (* the constant-false wire *)
  w1 : Wt;                                   (* the constant-true wire *)
  o_xor : Wt -> Wt -> Cs -> res (Wt * Cs);
  o_and : Wt -> Wt -> Cs -> res (Wt * Cs);
  o_or : Wt -> Wt -> Cs -> res (Wt * Cs);
  o_eq : Wt -> Wt -> Cs -> res (Wt * Cs);
  o_not : Wt -> Cs -> res (Wt * Cs);
  o_mux : Wt -> Wt -> Wt -> Cs -> res (Wt * Cs);
  o_negation : list Wt -> Cs -> res (list Wt * Cs);
  o_addition : list Wt -> list Wt -> Cs -> res ((list Wt * Wt * Wt) * Cs);
  o_subtraction : list Wt -> list Wt -> bool -> Cs -> res ((list Wt * Wt) * Cs);
  o_multiplier : Wt -> Wt -> Wt -> Wt -> Cs -> res ((Wt * Wt) * Cs);
  o_udiv : list Wt -> list Wt -> Cs -> res ((list Wt * list Wt) * Cs);
  o_sdiv : list Wt -> list Wt -> Cs -> res ((list Wt * list Wt) * Cs);
  o_comparator : nat -> list Wt -> bool -> list Wt -> bool -> Cs -> res ((Wt * Wt) * Cs);
  o_eq_circuit : list Wt -> list Wt -> Cs -> res (Wt * Cs);
  o_merger : nat -> bool -> list (list Wt) -> Cs -> res (list (list Wt) * Cs);
  o_sorter : nat -> list (list Wt) -> Cs -> res (list (list Wt) * Cs);
  o_panic_if : Wt -> preason -> meta -> Cs -> res (unit * Cs);
  o_peek : Cs -> res (Pst * Cs);
  o_replace : Pst -> Cs -> res (Pst * Cs);
  o_mux_panic : Wt -> Pst -> Pst -> Cs -> res (Pst * Cs)
}.

Variable OPS : ops.

Definition M (A : Type) := Cs -> res (A * Cs).
Definition ret {A} (a : A) : M A := fun s => Ok (a, s).
Definition mbind {A C} (m : M A) (k : A -> M C) : M C :=
  fun s => match m s with
           | Ok (a, s') => k a s'
           | Crash => Crash
           | OutOfFuel => OutOfFuel
           end.
Notation "'do*' x ':=' m 'in' k" := (mbind m (fun x => k))
  (at level 200, x pattern, m at level 100, k at level 200).
Definition crash {A} : M A := fun _ => Crash.
Definition nofuel {A} : M A := fun _ => OutOfFuel.
Definition lift_res {A} (r : res A) : M A :=
  fun s => match r with Ok a => Ok (a, s) | Crash => Crash | OutOfFuel => OutOfFuel end.

Definition m_xor : Wt -> Wt -> M Wt := o_xor OPS.
Definition m_and : Wt -> Wt -> M Wt := o_and OPS.
Definition m_or : Wt -> Wt -> M Wt := o_or OPS.
Definition m_eq : Wt -> Wt -> M Wt := o_eq OPS.
Definition m_not : Wt -> M Wt := o_not OPS.
Definition m_mux : Wt -> Wt -> Wt -> M Wt := o_mux OPS.
Definition m_panic_if : Wt -> preason -> meta -> M unit := o_panic_if OPS.
Definition m_peek : M Pst := o_peek OPS.
Definition m_replace : Pst -> M Pst := o_replace OPS.
Definition m_mux_panic : Wt -> Pst -> Pst -> M Pst := o_mux_panic OPS.
Definition wF : Wt := w0 OPS.
Definition wT : Wt := w1 OPS.

(* ------------------------------------------------------------------ list helpers *)

Fixpoint mapM_M {A C} (f : A -> M C) (l : list A) : M (list C) :=
  match l with
  | [] => ret []
  | a :: r => do* c := f a in do* cs := mapM_M f r in ret (c :: cs)
  end.

(* for i in 0..n { out[i] = f(x[i], y[i]) }: both vectors are indexed, so a shorter one is an
   index panic; here both always have exactly the same length *)
Fixpoint map2_M (f : Wt -> Wt -> M Wt) (xs ys : list Wt) : M (list Wt) :=
  match xs, ys with
  | [], [] => ret []
  | x :: xr, y :: yr => do* w := f x y in do* ws := map2_M f xr yr in ret (w :: ws)
  | _, _ => crash
  end.

(* v[a .. a + n] *)
Definition slice {A} (v : list A) (a n : nat) : res (list A) :=
  if (a + n <=? length v)%nat then Ok (firstn n (skipn a v)) else Crash.

(* tuple[a .. a + n].copy_from_slice(value): panics unless the lengths agree *)
Definition splice {A} (v : list A) (a n : nat) (value : list A) : res (list A) :=
  if ((a + n <=? length v) && (length value =? n))%nat
  then Ok (firstn a v ++ value ++ skipn (a + n) v) else Crash.

Definition szn (P : program) (t : ty) : nat := N.to_nat (Sem.sizeof P t).

(* unsigned_as_wires / signed_as_wires: bit i = (n >> (size - 1 - i)) & 1 as wire 0 / 1 *)
Definition unsigned_as_wires (n : N) (size : nat) : list Wt :=
  map (fun i => if N.testbit n (N.of_nat (size - 1 - i)) then wT else wF) (seq 0 size).
Definition signed_as_wires (z : Z) (size : nat) : list Wt :=
  map (fun i => if Z.testbit z (Z.of_nat (size - 1 - i)) then wT else wF) (seq 0 size).

Definition is_signed (t : ty) : bool := match t with TInt true _ => true | _ => false end.

(* extend_to_bits (Gadgets/Extend.v, tied there to the Rust function) over any wire type *)
Definition extend_g (v : list Wt) (signed : bool) (bits : nat) : res (list Wt) :=
  match v with
  | [] => Ok (repeat wF bits)
  | msb :: _ =>
      if (length v =? bits)%nat then Ok v else
      if (bits <? length v)%nat then Crash else
      Ok (repeat (if signed then msb else wF) (bits - length v) ++ v)
  end.

Definition m_extend (v : list Wt) (t : ty) (bits : nat) : M (list Wt) :=
  lift_res (extend_g v (is_signed t) bits).

(* Type::unwrap_array_size *)
Definition array_size (P : program) (t : ty) : res (nat * nat) :=
  match t with
  | TArr el n => Ok (szn P el, N.to_nat n)
  | _ => Crash
  end.

(* wires_before / wires_at_index of a tuple type *)
Definition tuple_offsets (P : program) (t : ty) (index : N) : res (nat * nat) :=
  match t with
  | TTup ts =>
      match nthN ts index with
      | Some ti => Ok (fold_left (fun a t' => (a + szn P t')%nat) (firstn (N.to_nat index) ts) O,
                       szn P ti)
      | None => Crash
      end
  | _ => Crash
  end.

(* the loop over struct_def.fields looking for [field] *)
Fixpoint field_offsets (P : program) (fields : list (N * ty)) (field : N) (before : nat)
  : res (nat * nat) :=
  match fields with
  | [] => Crash
  | (fname, fty) :: r =>
      if fname =? field then Ok (before, szn P fty)
      else field_offsets P r field (before + szn P fty)%nat
  end.

Definition struct_offsets (P : program) (t : ty) (field : N) : res (nat * nat) :=
  match t with
  | TStruct name =>
      match assocN name (p_structs P) with
      | Some fields => field_offsets P fields field O
      | None => Crash
      end
  | _ => Crash
  end.

(* ------------------------------------------------------------------ mux_envs *)

Definition mux_bits (c : Wt) (xs ys : list Wt) : M (list Wt) :=
  if negb (length xs =? length ys)%nat then crash else map2_M (m_mux c) xs ys.

Fixpoint mux_scope (c : Wt) (a b : scope) : M scope :=
  match a with
  | [] => ret []
  | (k, va) :: r =>
      match assocN k b with
      | None => crash
      | Some vb =>
          do* ws := mux_bits c va vb in
          do* r' := mux_scope c r b in
          ret ((k, ws) :: r')
      end
  end.

(* scopes outermost first, as the Vec is zipped *)
Fixpoint mux_scopes (c : Wt) (sa sb : list scope) : M (list scope) :=
  match sa, sb with
  | [], [] => ret []
  | a :: ra, b :: rb =>
      do* s := mux_scope c a b in
      do* r := mux_scopes c ra rb in
      ret (s :: r)
  | _, _ => crash
  end.

Definition mux_envs (c : Wt) (a b : cenv) : M cenv :=
  if negb (length a =? length b)%nat then crash else
  do* ss := mux_scopes c (rev a) (rev b) in ret (rev ss).

(* ------------------------------------------------------------------ array indexing *)

(* one mux layer of ArrayAccess: adjacent elements are muxed pairwise, the last element of
   an odd count is muxed with the out-of-bounds element (the constant-true wire) *)
Fixpoint index_layer (fuel : nat) (s : Wt) (arr : list Wt) (eb : nat) : M (list Wt) :=
  match fuel with
  | O => nofuel
  | S f =>
      match arr with
      | [] => ret []
      | _ =>
          let c0 := firstn eb arr in
          let rest := skipn eb arr in
          match rest with
          | [] => mapM_M (fun a0 => m_mux s wT a0) c0
          | _ =>
              let c1 := firstn eb rest in
              do* ws := map2_M (fun a1 a0 => m_mux s a1 a0) c1 c0 in
              do* r := index_layer f s (skipn eb rest) eb in
              ret (ws ++ r)
          end
      end
  end.

(* for mux_layer in (0..index.len()).rev(): least significant index bit first *)
Fixpoint index_layers (idx_rev : list Wt) (arr : list Wt) (eb : nat) : M (list Wt) :=
  match idx_rev with
  | [] => ret arr
  | s :: r =>
      do* arr' := (if (eb =? 0)%nat then ret [] else index_layer (S (length arr)) s arr eb) in
      index_layers r arr' eb
  end.

Definition USZ : nat := 32.

(* the bounds check shared by reads and writes: index < num_elems, else panic OutOfBounds *)
Definition bounds_check (index : list Wt) (num_elems : nat) (m : meta) : M unit :=
  let array_len := unsigned_as_wires (N.of_nat num_elems) USZ in
  do* (lt, _) := o_comparator OPS USZ index false array_len false in
  do* oob := m_not lt in
  m_panic_if oob OutOfBounds m.

(* the read: returns the selected element (elem_bits wires) *)
Definition array_read (arr : list Wt) (index : list Wt) (eb num_elems : nat) (m : meta)
  : M (list Wt * list Wt) :=
  do* index := m_extend index (TInt false 32) USZ in
  do* arr' := index_layers (rev index) arr eb in
  do* _ := bounds_check index num_elems m in
  ret (match arr' with [] => repeat wF eb | _ => arr' end, index).

(* the write-back of Assign::Array: element i, bit b becomes a 32-mux chain selecting
   value[b] iff index == i *)
Fixpoint write_chain (x0 : Wt) (x1 : Wt) (i : N) (index neg : list Wt) : M Wt :=
  match index, neg with
  | ix :: ir, nx :: nr =>
      let must_neg := N.testbit i (N.of_nat (length index - 1)) in
      do* x1' := m_mux (if must_neg then nx else ix) x0 x1 in
      write_chain x0 x1' i ir nr
  | _, _ => ret x1
  end.

Fixpoint write_elem (elem : list Wt) (value : list Wt) (i : N) (index neg : list Wt) : M (list Wt) :=
  match elem with
  | [] => ret []
  | x0 :: er =>
      match value with
      | [] => crash
      | v :: vr =>
          do* w := write_chain x0 v i index neg in
          do* ws := write_elem er vr i index neg in
          ret (w :: ws)
      end
  end.

Fixpoint write_elems (fuel : nat) (arr : list Wt) (eb : nat) (value : list Wt) (i : N)
    (index neg : list Wt) : M (list Wt) :=
  match fuel with
  | O => nofuel
  | S f =>
      if (length arr <? eb)%nat then ret arr else
      match arr with
      | [] => ret []
      | _ =>
          do* e := write_elem (firstn eb arr) value i index neg in
          do* r := write_elems f (skipn eb arr) eb value (i + 1) index neg in
          ret (e ++ r)
      end
  end.

Definition array_write (arr : list Wt) (eb size : nat) (index : list Wt) (value : list Wt) (m : meta)
  : M (list Wt) :=
  (* [size]: the number of elements according to the array type (also for zero-sized elements) *)
  do* index := m_extend index (TInt false 32) USZ in
  do* neg := mapM_M m_not index in
  do* arr' := write_elems (S (length arr)) (firstn (size * eb) arr) eb value 0 index neg in
  do* _ := bounds_check index size m in
  ret (arr' ++ skipn (size * eb) arr).

(* ------------------------------------------------------------------ operators *)

(* the 8 mux layers of << and >>; [y_rev]: shift amount, least significant bit first *)
Definition shift_once (left : bool) (fill : Wt) (v : list Wt) (shift : nat) : list Wt :=
  let bits := length v in
  map (fun i => if left then (if (bits <=? i + shift)%nat then wF else nth (i + shift) v wF)
                else (if (i <? shift)%nat then fill else nth (i - shift) v wF))
      (seq 0 bits).

Fixpoint shift_layers (left : bool) (fill : Wt) (v : list Wt) (y_rev : list Wt) (shift : nat)
  : M (list Wt) :=
  match y_rev with
  | [] => ret v
  | s :: r =>
      do* v' := map2_M (fun shifted unshifted => m_mux s shifted unshifted)
                       (shift_once left fill v shift) v in
      shift_layers left fill v' r (2 * shift)
  end.

Fixpoint or_all_M (acc : Wt) (ws : list Wt) : M Wt :=
  match ws with
  | [] => ret acc
  | w :: r => do* o := m_or acc w in or_all_M o r
  end.

(* all_zero / equality accumulators: acc = and(acc, eq(x, y)) *)
Fixpoint eq_acc (acc : Wt) (xys : list (Wt * Wt)) : M Wt :=
  match xys with
  | [] => ret acc
  | (x, y) :: r => do* e := m_eq x y in do* a := m_and acc e in eq_acc a r
  end.

(* one row of the array multiplier, columns from the least significant one;
   [yzs_rev]: (y[j], z for column j), least significant column first; returns the sums of
   the row (most significant first) and the carry out of column 0 *)
Fixpoint mul_row (xi : Wt) (yzs_rev : list (Wt * Wt)) (carry : Wt) (acc : list Wt) : M (list Wt * Wt) :=
  match yzs_rev with
  | [] => ret (acc, carry)
  | (yj, z) :: r =>
      do* (s, c) := o_multiplier OPS xi yj z carry in
      mul_row xi r c (s :: acc)
  end.

(* rows from i = bits-1 down to 0; [prev]: the sums and the column-0 carry of row i+1;
   collects result[i] = sums[i][lsb] (most significant first) *)
Fixpoint mul_rows (xs_rev : list Wt) (y : list Wt) (prev : option (list Wt * Wt)) (res_acc : list Wt)
  : M (list Wt * option (list Wt * Wt)) :=
  match xs_rev with
  | [] => ret (res_acc, prev)
  | xi :: r =>
      let zs := match prev with
                | None => repeat wF (length y)
                | Some (sums, c0) => c0 :: removelast sums
                end in
      do* (sums, c0) := mul_row xi (rev (combine y zs)) wF [] in
      mul_rows r y (Some (sums, c0)) (last sums wF :: res_acc)
  end.

Fixpoint and_not_all (acc : Wt) (ws : list Wt) : M Wt :=
  match ws with
  | [] => ret acc
  | w :: r => do* nw := m_not w in do* a := m_and acc nw in and_not_all a r
  end.

Definition lower_mul (signed : bool) (x y : list Wt) (m : meta) : M (list Wt) :=
  do* (x, y, is_result_neg) :=
    (if signed then
       do* x0 := lift_res (hd_res x) in
       do* y0 := lift_res (hd_res y) in
       do* xn := o_negation OPS x in
       do* yn := o_negation OPS y in
       do* x' := map2_M (fun n w => m_mux x0 n w) xn x in
       do* y' := map2_M (fun n w => m_mux y0 n w) yn y in
       do* rn := m_xor x0 y0 in
       ret (x', y', rn)
     else ret (x, y, wF)) in
  do* (result, top) := mul_rows (rev x) y None [] in
  do* (sums0, c00) := lift_res (of_option top) in
  do* overflow := or_all_M c00 (removelast sums0) in
  do* (overflow, result) :=
    (if signed then
       do* all_zero := and_not_all wT (tl result) in
       do* r0 := lift_res (hd_res result) in
       do* not_all_zero := m_not all_zero in
       do* not_neg := m_not is_result_neg in
       do* not_min := m_or not_all_zero not_neg in
       do* too_large := m_and r0 not_min in
       do* overflow := m_or overflow too_large in
       do* rneg := o_negation OPS result in
       do* result' := map2_M (fun n w => m_mux is_result_neg n w) rneg result in
       ret (overflow, result')
     else ret (overflow, result)) in
  do* _ := m_panic_if overflow Overflow m in
  ret result.

(* `x * c` / `c * x` for a literal c with 0 < |c| < bits of the literal's own type: the OTHER
   operand is evaluated once, bound to a reserved name in a scope of its own, and the product is
   compiled as repeated addition of that name (negated for a negative literal) *)
Definition lit_info (x : expr) : option (N * N * bool) :=
  match x with
  | Ex (ENumU n lb) _ _ => Some (n, lb, false)
  | Ex (ENumS z lb) _ _ => Some (Z.abs_N z, lb, (z <? 0)%Z)
  | _ => None
  end.

(* the reserved name "\0mul_operand": no identifier of a program is interned to it *)
Definition MUL_TMP : N := 4611686018427387904.

(* (operand to evaluate once, the sum over the reserved name) *)
Definition rewrite_one (x y : expr) (m : meta) (t : ty) : option (expr * expr) :=
  match lit_info x with
  | Some (n, bits, neg) =>
      if n =? 0 then None else
      if n <? bits then
        let yv := Ex (EId MUL_TMP) (e_meta y) (e_ty y) in
        let e := N.iter (n - 1) (fun e => Ex (EOp OAdd e yv) m t) yv in
        Some (y, if neg then Ex (ENeg e) m t else e)
      else None
  | None => None
  end.

Definition mul_rewrite (x y : expr) (m : meta) (t : ty) : option (expr * expr) :=
  match rewrite_one x y m t with
  | Some e => Some e
  | None => rewrite_one y x m t
  end.

Definition max_filled_bits (bits : nat) : res nat :=
  if (bits =? 8)%nat then Ok 3%nat else if (bits =? 16)%nat then Ok 4%nat
  else if (bits =? 32)%nat then Ok 5%nat else if (bits =? 64)%nat then Ok 6%nat else Crash.

(* the operators that take both operands extended to a common width *)
Definition lower_binop (o : binop) (t tx ty_ : ty) (x y : list Wt) (m : meta) : M (list Wt) :=
  let bits := Nat.max (length x) (length y) in
  do* x := m_extend x tx bits in
  do* y := m_extend y ty_ bits in
  match o with
  | OBitAnd => map2_M m_and x y
  | OBitXor => map2_M m_xor x y
  | OBitOr => map2_M m_or x y
  | OSub =>
      do* (sum, ov) := o_subtraction OPS x y (is_signed t) in
      do* _ := m_panic_if ov Overflow m in ret sum
  | OAdd =>
      do* (sum, carry, carry_prev) := o_addition OPS x y in
      do* ov := (if is_signed tx || is_signed ty_ then m_xor carry carry_prev else ret carry) in
      do* _ := m_panic_if ov Overflow m in ret sum
  | OMul => lower_mul (is_signed t) x y m
  | ODiv =>
      do* all_zero := eq_acc wT (map (fun w => (w, wF)) y) in
      do* _ := m_panic_if all_zero DivByZero m in
      if is_signed t then
        do* x0 := lift_res (hd_res x) in
        do* y0 := lift_res (hd_res y) in
        do* (q, _) := o_sdiv OPS x y in
        do* both_neg := m_and x0 y0 in
        do* q0 := lift_res (hd_res q) in
        do* ov := m_and both_neg q0 in
        do* _ := m_panic_if ov Overflow m in ret q
      else
        do* (q, _) := o_udiv OPS x y in ret q
  | OMod =>
      do* all_zero := eq_acc wT (map (fun w => (w, wF)) y) in
      do* _ := m_panic_if all_zero DivByZero m in
      if is_signed t then
        do* (_, r) := o_sdiv OPS x y in ret r
      else
        do* (_, r) := o_udiv OPS x y in ret r
  | OGt | OLt =>
      do* (lt, gt) := o_comparator OPS bits x (is_signed tx) y (is_signed ty_) in
      ret [match o with OGt => gt | _ => lt end]
  | OEq | ONe =>
      do* acc := (if (length x =? length y)%nat then eq_acc wT (combine x y) else crash) in
      match o with
      | OEq => ret [acc]
      | _ => do* n := m_not acc in ret [n]
      end
  | OShl | OShr | OLAnd | OLOr => crash   (* unreachable!: handled one level up *)
  end.

Definition lower_shift (left : bool) (x_signed : bool) (x y : list Wt) (m : meta) : M (list Wt) :=
  if negb (length y =? 8)%nat then crash else
  let bits := length x in
  do* fill := (if x_signed && negb left then lift_res (hd_res x) else ret wF) in
  do* v := shift_layers left fill x (rev y) 1 in
  do* mfb := lift_res (max_filled_bits bits) in
  do* overflow := or_all_M wF (firstn (8 - mfb) y) in
  do* _ := m_panic_if overflow Overflow m in
  ret v.

(* ------------------------------------------------------------------ enums *)

Definition enum_tag_size (variants : list (list ty)) : nat := N.to_nat (Sem.tag_bits (lenN variants)).

Definition enum_max_size (P : program) (variants : list (list ty)) : nat :=
  (fold_left (fun mx ts => let s := fold_left (fun a t => (a + szn P t)%nat) ts O in
                           if (mx <? s)%nat then s else mx) variants O
   + enum_tag_size variants)%nat.

(* ------------------------------------------------------------------ join *)

Fixpoint pow2_ge (fuel : nat) (p n : nat) : nat :=
  match fuel with
  | O => p
  | S f => if (p <? n)%nat then pow2_ge f (2 * p) n else p
  end.
(* usize::next_power_of_two (1 for 0) *)
Definition next_power_of_two (n : nat) : nat := pow2_ge (S n) 1 n.

(* v.resize(n, 0) *)
Definition resize (v : list Wt) (n : nat) : list Wt :=
  firstn n v ++ repeat wF (n - length v).

(* v.insert(i, x): panics if i > len *)
Definition insert_at (v : list Wt) (i : nat) (x : Wt) : res (list Wt) :=
  if (i <=? length v)%nat then Ok (firstn i v ++ x :: skipn i v) else Crash.

(* v.remove(i): panics if i >= len *)
Definition remove_at (v : list Wt) (i : nat) : res (Wt * list Wt) :=
  match nth_error v i with
  | Some x => Ok (x, firstn i v ++ skipn (S i) v)
  | None => Crash
  end.

Fixpoint chunks (fuel : nat) (v : list Wt) (eb : nat) (n : nat) : res (list (list Wt)) :=
  match n with
  | O => Ok []
  | S k =>
      let* c := slice v 0 eb in
      let* r := chunks fuel (skipn eb v) eb k in
      Ok (c :: r)
  end.

(* the bitonic sequence handed to push_bitonic_merger: padding, a ascending, b reversed,
   each element resized to max_elem_bits with the tag bit inserted after the join key *)
Definition bitonic_input (a b : list Wt) (eba na ebb nb jts : nat) : res (list (list Wt) * nat) :=
  let max_eb := Nat.max eba ebb in
  let num_elems := next_power_of_two (na + nb) in
  let num_empty := (num_elems - na - nb)%nat in
  let* ca := chunks O a eba na in
  let* cb_ := chunks O b ebb nb in
  let* ea := mapM_res (fun v => insert_at (resize v max_eb) jts wF) ca in
  let* eb_ := mapM_res (fun v => insert_at (resize v max_eb) jts wT) (rev cb_) in
  Ok (repeat (repeat wF (S max_eb)) num_empty ++ ea ++ eb_, num_empty).

(* what is done for one window (slice[0], slice[1]) before process_binding *)
Definition window_binding (w0 w1 : list Wt) (eba ebb jts : nat) (is_func include_b : bool)
  : M (Wt * list Wt) :=
  do* (tag_a, a) := lift_res (remove_at w0 jts) in
  let a := firstn eba a in
  do* (tag_b, b) := lift_res (remove_at w1 jts) in
  let b := firstn ebb b in
  let binding := (if is_func then [wF] else []) ++ a ++ (if include_b then b else []) in
  do* join_a := lift_res (slice a 0 jts) in
  do* join_b := lift_res (slice b 0 jts) in
  do* je := o_eq_circuit OPS join_a join_b in
  do* td := m_xor tag_a tag_b in
  do* je := m_and je td in
  ret (je, if is_func then je :: tl binding else binding).

(* ------------------------------------------------------------------ statements, expressions,
   patterns.  Open recursion: every piece takes the recursive calls as parameters
   ([rec_e] = compile an expression, [rec_p] = a pattern, [rec_s] = a statement, [rec_b] = a
   block); the knot is tied by the fixpoints on fuel at the end. *)

Section Rec.
  Variable P : program.
  Variable rec_e : expr -> cenv -> M (list Wt * cenv).
  Variable rec_p : pattern -> list Wt -> cenv -> M (Wt * cenv).
  Variable rec_s : stmt -> cenv -> M (list Wt * cenv).
  Variable rec_b : list stmt -> cenv -> M (list Wt * cenv).

  (* elements / fields / arguments, left to right *)
  Fixpoint lower_list (es : list expr) (E : cenv) : M (list (list Wt) * cenv) :=
    match es with
    | [] => ret ([], E)
    | e1 :: r =>
        do* (w, E1) := rec_e e1 E in
        do* (ws, E2) := lower_list r E1 in
        ret (w :: ws, E2)
    end.

  (* struct literal: the fields in the order of the definition *)
  Fixpoint lower_struct_fields (fields : list (N * expr)) (ds : list (N * ty)) (E : cenv)
    : M (list (list Wt) * cenv) :=
    match ds with
    | [] => ret ([], E)
    | (fname, _) :: r =>
        match assocN fname (rev fields) with
        | Some fe =>
            do* (w, E1) := rec_e fe E in
            do* (ws, E2) := lower_struct_fields fields r E1 in
            ret (w :: ws, E2)
        | None => crash
        end
    end.

  (* the arms of a match; [sw]: scrutinee, [E0], [P0]: environment and panic state before the
     match; accumulators: has_prev_match, muxed_ret_expr, muxed_panic, muxed_env *)
  Fixpoint lower_arms (bits : nat) (sw : list Wt) (E0 : cenv) (P0 : Pst) (arms : list (pattern * expr))
      (has_prev : Wt) (mret : list Wt) (mpanic : Pst) (menv : cenv)
    : M (list Wt * Pst * cenv * Wt) :=
    match arms with
    | [] => ret (mret, mpanic, menv, has_prev)
    | (pat, body) :: r =>
        do* _ := m_replace P0 in
        do* (is_match, E1) := rec_p pat sw (env_push E0) in
        do* (rw, E2) := rec_e body E1 in
        do* no_prev := m_not has_prev in
        do* s := m_and no_prev is_match in
        do* E3 := lift_res (env_pop E2) in
        do* Pcur := m_peek in
        do* mpanic' := m_mux_panic s Pcur mpanic in
        do* menv' := mux_envs s E3 menv in
        do* mret' := (if (length rw <? bits)%nat then crash
                      else map2_M (fun x0 x1 => m_mux s x0 x1) (firstn bits rw) mret) in
        do* has_prev' := m_or has_prev is_match in
        lower_arms bits sw E0 P0 r has_prev' mret' mpanic' menv'
    end.

  (* call arguments: each compiled in a scope of its own *)
  Fixpoint lower_args (ps : list (N * ty)) (args : list expr) (E : cenv)
    : M (list (N * list Wt) * cenv) :=
    match ps, args with
    | (pn, _) :: pr, a :: ar =>
        do* (w, Ea) := rec_e a (env_push E) in
        do* Eb := lift_res (env_pop Ea) in
        do* (bs, Ec) := lower_args pr ar Eb in
        ret ((pn, w) :: bs, Ec)
    | _, _ => ret ([], E)
    end.

  Definition bind_all (E : cenv) (bindings : list (N * list Wt)) : res cenv :=
    fold_left (fun Er b => let* E' := Er in env_let E' (fst b) (snd b)) bindings (Ok E).

  (* the windows of the join built-in: unmatched entries are zeroed *)
  Fixpoint join_func_windows (eba ebb jts : nat) (has_assoc : bool) (ws : list (list Wt))
    : M (list (list Wt)) :=
    match ws with
    | w0_ :: ((w1_ :: _) as r) =>
        do* (je, binding) := window_binding w0_ w1_ eba ebb jts true has_assoc in
        do* bd := (match binding with
                   | [] => ret []
                   | h :: tlb => do* tl' := mapM_M (fun g => m_mux je g wF) tlb in ret (h :: tl')
                   end) in
        do* rest := join_func_windows eba ebb jts has_assoc r in
        ret (bd :: rest)
    | _ => ret []
    end.

  Fixpoint lower_stmts (ss : list stmt) (E : cenv) : M cenv :=
    match ss with
    | [] => ret E
    | s1 :: r => do* (_, E1) := rec_s s1 E in lower_stmts r E1
    end.

  (* the windows of a for-join loop: the body runs under the pattern binding, then environment
     and panic state are merged by the join condition *)
  Fixpoint join_loop_windows (pat : pattern) (body : list stmt) (eba ebb jts : nat)
      (ws : list (list Wt)) (E : cenv) : M cenv :=
    match ws with
    | w0_ :: ((w1_ :: _) as r) =>
        do* (je, binding) := window_binding w0_ w1_ eba ebb jts false true in
        do* Pb := m_peek in
        do* (_, Ej) := rec_p pat binding (env_push E) in
        do* Ej := lower_stmts body Ej in
        do* Ej := lift_res (env_pop Ej) in
        do* Pj := m_replace Pb in
        do* E' := mux_envs je Ej E in
        do* Pm := m_mux_panic je Pj Pb in
        do* _ := m_replace Pm in
        join_loop_windows pat body eba ebb jts r E'
    | _ => ret E
    end.

  (* for loop: one iteration per element of the array ([n] = its static length, also when
     the elements are zero-sized and [aw] is empty) *)
  Fixpoint for_iterations (pat : pattern) (body : list stmt) (eb : nat) (n : nat) (aw : list Wt)
      (E : cenv) : M cenv :=
    match n with
    | O => ret E
    | S k =>
        do* binding := lift_res (slice aw 0 eb) in
        do* (_, Ea) := rec_p pat binding (env_push E) in
        do* Eb := lower_stmts body Ea in
        do* Ec := lift_res (env_pop Eb) in
        for_iterations pat body eb k (skipn eb aw) Ec
    end.

  (* an assignment through accessors, phase 1: the index expressions in order, each extended to
     usize and checked against the bounds, BEFORE the target is read *)
  Fixpoint assign_indexes (m : meta) (accs : list accessor) (E : cenv) (acc_rev : list (list Wt))
    : M (list (list Wt) * cenv) :=
    match accs with
    | [] => ret (rev acc_rev, E)
    | AIdx arr_ty idx :: r =>
        do* (_, num_elems) := lift_res (array_size P arr_ty) in
        do* (iw, E1) := rec_e idx E in
        do* iw' := m_extend iw (TInt false 32) USZ in
        do* _ := bounds_check iw' num_elems m in
        assign_indexes m r E1 (iw' :: acc_rev)
    | _ :: r => assign_indexes m r E acc_rev
    end.

  (* phase 2: what is read through the accessors, and what to write back *)
  Definition acc_item := (list Wt * nat * nat * option (list Wt))%type.

  Fixpoint assign_forward (accs : list accessor) (coll : list Wt) (idxs : list (list Wt))
      (acc : list acc_item) : M (list acc_item) :=
    match accs with
    | [] => ret acc
    | AIdx arr_ty _ :: r =>
        do* (eb, num_elems) := lift_res (array_size P arr_ty) in
        match idxs with
        | [] => crash
        | iw :: ir =>
            do* arr' := index_layers (rev iw) coll eb in
            let coll' := match arr' with [] => repeat wF eb | _ => arr' end in
            assign_forward r coll' ir ((coll, eb, num_elems, Some iw) :: acc)
        end
    | ATup tup_ty i :: r =>
        do* (wb, wi) := lift_res (tuple_offsets P tup_ty i) in
        do* coll' := lift_res (slice coll wb wi) in
        assign_forward r coll' idxs ((coll, wb, wi, None) :: acc)
    | AFld st_ty fld :: r =>
        do* (wb, wi) := lift_res (struct_offsets P st_ty fld) in
        do* coll' := lift_res (slice coll wb wi) in
        assign_forward r coll' idxs ((coll, wb, wi, None) :: acc)
    end.

  (* backward pass (accessed.into_iter().rev() = the accumulated list as it is) *)
  Fixpoint assign_backward (m : meta) (acc : list acc_item) (value : list Wt) : M (list Wt) :=
    match acc with
    | [] => ret value
    | (before, a, n, Some iw) :: r =>
        do* v' := array_write before a n iw value m in assign_backward m r v'
    | (before, a, n, None) :: r =>
        do* v' := lift_res (splice before a n value) in assign_backward m r v'
    end.

  (* sub-patterns over consecutive slices of the matched wires *)
  Fixpoint fields_match (mw : list Wt) (ps : list (pattern * nat)) (w : nat) (is_match : Wt) (E : cenv)
    : M (Wt * cenv) :=
    match ps with
    | [] => ret (is_match, E)
    | (fp, fbits) :: r =>
        do* sub := lift_res (slice mw w fbits) in
        do* (fm, E1) := rec_p fp sub E in
        do* is_match' := m_and is_match fm in
        fields_match mw r (w + fbits)%nat is_match' E1
    end.

  (* struct pattern: every field of the definition advances the offset, named ones are matched *)
  Fixpoint struct_match (mw : list Wt) (fields : list (N * pattern)) (ds : list (N * ty)) (w : nat)
      (is_match : Wt) (E : cenv) : M (Wt * cenv) :=
    match ds with
    | [] => ret (is_match, E)
    | (fname, fty) :: r =>
        let fbits := szn P fty in
        match assocN fname (rev fields) with
        | Some fp =>
            do* sub := lift_res (slice mw w fbits) in
            do* (fm, E1) := rec_p fp sub E in
            do* is_match' := m_and is_match fm in
            struct_match mw fields r (w + fbits)%nat is_match' E1
        | None => struct_match mw fields r (w + fbits)%nat is_match E
        end
    end.

  (* fields.iter().zip(field_types) *)
  Fixpoint zip_sizes (ps : list pattern) (fts : list ty) : list (pattern * nat) :=
    match ps, fts with
    | fp :: pr, ft :: fr => (fp, szn P ft) :: zip_sizes pr fr
    | _, _ => []
    end.

  Definition one_wire (w : list Wt) : M Wt := match w with [x] => ret x | _ => crash end.

  Definition lower_expr_body (e : expr) (E : cenv) : M (list Wt * cenv) :=
    match e with
    | Ex ei m t =>
      match ei with
      | ETrue => ret ([wT], E)
      | EFalse => ret ([wF], E)
      | ENumU n _ => ret (unsigned_as_wires n (szn P t), E)
      | ENumS z _ => ret (signed_as_wires z (szn P t), E)
      | EId x => match env_get E x with Some v => ret (v, E) | None => crash end
      | EArrLit es => do* (ws, E1) := lower_list es E in ret (concat ws, E1)
      | EArrRep e1 n =>
          do* (w, E1) := rec_e e1 E in
          do* w := m_extend w (e_ty e1) (szn P (e_ty e1)) in
          ret (concat (repeat w (N.to_nat n)), E1)
      | EIdx a i =>
          do* (_, num_elems) := lift_res (array_size P (e_ty a)) in
          let eb := szn P t in
          do* (arr, E1) := rec_e a E in
          do* (idx, E2) := rec_e i E1 in
          do* (r, _) := array_read arr idx eb num_elems m in
          ret (r, E2)
      | ETupLit es => do* (ws, E1) := lower_list es E in ret (concat ws, E1)
      | ETupAcc e1 i =>
          do* (wb, wi) := lift_res (tuple_offsets P (e_ty e1) i) in
          do* (w, E1) := rec_e e1 E in
          do* r := lift_res (slice w wb wi) in
          ret (r, E1)
      | EFld e1 fld =>
          match e_ty e1 with
          | TStruct name =>
              do* (w, E1) := rec_e e1 E in
              do* (wb, wi) := lift_res (struct_offsets P (TStruct name) fld) in
              do* r := lift_res (slice w wb wi) in
              ret (r, E1)
          | _ => crash
          end
      | EStructLit name fields =>
          match assocN name (p_structs P) with
          | Some def =>
              do* (ws, E1) := lower_struct_fields fields def E in
              ret (concat ws, E1)
          | None => crash
          end
      | EEnumLit ename variant args =>
          match assocN ename (p_enums P) with
          | Some variants =>
              let tag_size := enum_tag_size variants in
              let max_size := enum_max_size P variants in
              do* (ws, E1) := lower_list args E in
              let payload := concat ws in
              if (tag_size + length payload <=? max_size)%nat then
                ret (unsigned_as_wires variant tag_size ++ payload
                       ++ repeat wF (max_size - tag_size - length payload), E1)
              else crash
          | None => crash
          end
      | EMatch scrut arms =>
          let bits := szn P t in
          do* (sw, E0) := rec_e scrut E in
          do* P0 := m_peek in
          do* (ret_w, muxed_panic, muxed_env, _) :=
            lower_arms bits sw E0 P0 arms wF (repeat wF bits) P0 E0 in
          do* _ := m_replace muxed_panic in
          ret (ret_w, muxed_env)
      | ENeg e1 =>
          do* (x, E1) := rec_e e1 E in
          do* neg := o_negation OPS x in
          do* x0 := lift_res (hd_res x) in
          do* n0 := lift_res (hd_res neg) in
          do* ov := m_and x0 n0 in
          do* _ := m_panic_if ov Overflow m in
          ret (neg, E1)
      | ENot e1 =>
          do* (x, E1) := rec_e e1 E in
          do* r := mapM_M m_not x in
          ret (r, E1)
      | EOp OLAnd x y =>
          do* (xw, E1) := rec_e x E in
          do* x0 := one_wire xw in
          do* Pb := m_peek in
          do* (yw, E2) := rec_e y E1 in
          do* y0 := one_wire yw in
          do* E3 := mux_envs x0 E2 E1 in
          do* Pa := m_peek in
          do* Pm := m_mux_panic x0 Pa Pb in
          do* _ := m_replace Pm in
          do* r := m_and x0 y0 in
          ret ([r], E3)
      | EOp OLOr x y =>
          do* (xw, E1) := rec_e x E in
          do* x0 := one_wire xw in
          do* Pb := m_peek in
          do* (yw, E2) := rec_e y E1 in
          do* y0 := one_wire yw in
          do* E3 := mux_envs x0 E1 E2 in
          do* Pa := m_peek in
          do* Pm := m_mux_panic x0 Pb Pa in
          do* _ := m_replace Pm in
          do* r := m_or x0 y0 in
          ret ([r], E3)
      | EOp ((OShl | OShr) as o) x y =>
          do* (xw, E1) := rec_e x E in
          do* (yw, E2) := rec_e y E1 in
          do* r := lower_shift (match o with OShl => true | _ => false end)
                               (is_signed (e_ty x)) xw yw m in
          ret (r, E2)
      | EOp o x y =>
          match (match o with OMul => mul_rewrite x y m t | _ => None end) with
          | Some (operand, e') =>
              do* (w, E1) := rec_e operand E in
              do* E2 := lift_res (env_let (env_push E1) MUL_TMP w) in
              do* (r, E3) := rec_e e' E2 in
              do* E4 := lift_res (env_pop E3) in
              ret (r, E4)
          | None =>
              do* (xw, E1) := rec_e x E in
              do* (yw, E2) := rec_e y E1 in
              do* r := lower_binop o t (e_ty x) (e_ty y) xw yw m in
              ret (r, E2)
          end
      | EBlock stmts => rec_b stmts E
      | ECall fname args =>
          match find_fn P fname with
          | Some fd =>
              do* (bindings, E1) := lower_args (fn_params fd) args E in
              (* env.0.split_off(1): keep the outermost (global) scope only *)
              match rev E1 with
              | [] => crash
              | glob :: caller_rev =>
                  do* Ecallee := lift_res (bind_all (env_push [glob]) bindings) in
                  do* (body, E2) := rec_b (fn_body fd) Ecallee in
                  do* E3 := lift_res (env_pop E2) in
                  ret (body, rev caller_rev ++ E3)
              end
          | None => crash
          end
      | EJoin join_ty has_assoc a b =>
          do* (eba, na) := lift_res (array_size P (e_ty a)) in
          do* (ebb, nb) := lift_res (array_size P (e_ty b)) in
          let jts := szn P join_ty in
          do* (aw, E1) := rec_e a E in
          do* (bw, E2) := rec_e b E1 in
          do* (bitonic, num_empty) := lift_res (bitonic_input aw bw eba na ebb nb jts) in
          do* sorted := o_merger OPS (S jts) true bitonic in
          do* joined := join_func_windows eba ebb jts has_assoc (skipn num_empty sorted) in
          do* joined := o_sorter OPS 1 joined in
          ret (concat joined, E2)
      | EIf c tbranch fbranch =>
          do* (cw, E0) := rec_e c E in
          do* P0 := m_peek in
          do* c0 := one_wire cw in
          do* (tw, ET) := rec_e tbranch E0 in
          do* PT := m_replace P0 in
          do* (fw, EF) := rec_e fbranch E0 in
          do* PF := m_replace P0 in
          do* E' := mux_envs c0 ET EF in
          do* Pm := m_mux_panic c0 PT PF in
          do* _ := m_replace Pm in
          do* r := mux_bits c0 tw fw in
          ret (r, E')
      | ECast to e1 =>
          do* (w, E1) := rec_e e1 E in
          let size_after := szn P to in
          if (size_after =? length w)%nat then ret (w, E1)
          else if (size_after <? length w)%nat then ret (cast_truncate w size_after, E1)
          else do* w' := m_extend w (e_ty e1) size_after in ret (w', E1)
      | ERange lo hi bits =>
          if hi <? lo then crash else
          ret (concat (map (fun k => unsigned_as_wires (lo + N.of_nat k) (N.to_nat bits))
                           (seq 0 (N.to_nat (hi - lo)))), E)
      end
    end.

  Fixpoint block_stmts (ss : list stmt) (last : list Wt) (E : cenv) : M (list Wt * cenv) :=
    match ss with
    | [] => ret (last, E)
    | s :: r => do* (w, E1) := rec_s s E in block_stmts r w E1
    end.

  Definition lower_block_body (stmts : list stmt) (E : cenv) : M (list Wt * cenv) :=
    do* (w, E1) := block_stmts stmts [] (env_push E) in
    do* E2 := lift_res (env_pop E1) in
    ret (w, E2).

  Definition lower_stmt_body (s : stmt) (E : cenv) : M (list Wt * cenv) :=
    match s with
    | St si m =>
      match si with
      | SLet pat e =>
          do* (w, E1) := rec_e e E in
          do* (_, E2) := rec_p pat w E1 in
          ret ([], E2)
      | SExpr e => rec_e e E
      | SLetMut x e =>
          do* (w, E1) := rec_e e E in
          do* E2 := lift_res (env_let E1 x w) in
          ret ([], E2)
      | SAssign x accs e =>
          do* (value, E1) := rec_e e E in
          do* (idxs, E2) := assign_indexes m accs E1 [] in
          do* coll := (match env_get E2 x with Some v => ret v | None => crash end) in
          do* accessed := assign_forward accs coll idxs [] in
          do* value' := assign_backward m accessed value in
          do* E3 := lift_res (env_assign E2 x value') in
          ret ([], E3)
      | SFor pat arr body =>
          do* (eb, num_elems) := lift_res (array_size P (e_ty arr)) in
          do* (aw, E1) := rec_e arr E in
          do* E2 := for_iterations pat body eb num_elems aw E1 in
          ret ([], E2)
      | SJoinLoop pat join_ty a b body =>
          do* (eba, na) := lift_res (array_size P (e_ty a)) in
          do* (ebb, nb) := lift_res (array_size P (e_ty b)) in
          let jts := szn P join_ty in
          do* (aw, E1) := rec_e a E in
          do* (bw, E2) := rec_e b E1 in
          do* (bitonic, num_empty) := lift_res (bitonic_input aw bw eba na ebb nb jts) in
          do* sorted := o_merger OPS (S jts) true bitonic in
          do* E3 := join_loop_windows pat body eba ebb jts (skipn num_empty sorted) E2 in
          ret ([], E3)
      end
    end.

  Definition lower_pattern_body (p : pattern) (mw : list Wt) (E : cenv) : M (Wt * cenv) :=
    match p with
    | Pat pi _ t =>
      let range_match (lo hi : list Wt) : M (Wt * cenv) :=
        let bits := szn P t in
        let sg := is_signed t in
        do* (lt_min, _) := o_comparator OPS bits mw sg lo sg in
        do* (_, gt_max) := o_comparator OPS bits mw sg hi sg in
        do* a := m_not lt_min in
        do* c := m_not gt_max in
        do* r := m_and a c in
        ret (r, E) in
      let eq_match (n : list Wt) : M (Wt * cenv) :=
        let bits := szn P t in
        if (length mw <? bits)%nat then crash else
        do* acc := eq_acc wT (combine n (firstn bits mw)) in
        ret (acc, E) in
      match pi with
      | PId x => do* E1 := lift_res (env_let E x mw) in ret (wT, E1)
      | PTrue => do* w := one_wire mw in ret (w, E)
      | PFalse => do* w := one_wire mw in do* n := m_not w in ret (n, E)
      | PNumU n => eq_match (unsigned_as_wires n (szn P t))
      | PNumS z => eq_match (signed_as_wires z (szn P t))
      | PURange lo hi =>
          range_match (unsigned_as_wires lo (szn P t)) (unsigned_as_wires hi (szn P t))
      | PSRange lo hi =>
          range_match (signed_as_wires lo (szn P t)) (signed_as_wires hi (szn P t))
      | PTup ps => fields_match mw (map (fun fp => (fp, szn P (p_ty fp))) ps) O wT E
      | PStruct name _ fields =>
          match assocN name (p_structs P) with
          | Some def => struct_match mw fields def O wT E
          | None => crash
          end
      | PEnumUnit ename variant =>
          match assocN ename (p_enums P) with
          | Some variants =>
              let tag_size := enum_tag_size variants in
              do* tag_actual := lift_res (slice mw 0 tag_size) in
              do* is_match := eq_acc wT (combine (unsigned_as_wires variant tag_size) tag_actual) in
              ret (is_match, E)
          | None => crash
          end
      | PEnumTup ename variant ps =>
          match assocN ename (p_enums P) with
          | Some variants =>
              let tag_size := enum_tag_size variants in
              do* tag_actual := lift_res (slice mw 0 tag_size) in
              do* is_match := eq_acc wT (combine (unsigned_as_wires variant tag_size) tag_actual) in
              match nthN variants variant with
              | Some field_types => fields_match mw (zip_sizes ps field_types) tag_size is_match E
              | None => crash
              end
          | None => crash
          end
      end
    end.
End Rec.

Fixpoint lower_expr (fuel : nat) (P : program) (e : expr) (E : cenv) {struct fuel}
  : M (list Wt * cenv) :=
  match fuel with
  | O => nofuel
  | S f => lower_expr_body P (lower_expr f P) (lower_pattern f P) (lower_block f P) e E
  end
with lower_block (fuel : nat) (P : program) (stmts : list stmt) (E : cenv) {struct fuel}
  : M (list Wt * cenv) :=
  match fuel with
  | O => nofuel
  | S f => lower_block_body (lower_stmt f P) stmts E
  end
with lower_stmt (fuel : nat) (P : program) (s : stmt) (E : cenv) {struct fuel}
  : M (list Wt * cenv) :=
  match fuel with
  | O => nofuel
  | S f => lower_stmt_body P (lower_expr f P) (lower_pattern f P) (lower_stmt f P) s E
  end
with lower_pattern (fuel : nat) (P : program) (p : pattern) (mw : list Wt) (E : cenv) {struct fuel}
  : M (Wt * cenv) :=
  match fuel with
  | O => nofuel
  | S f => lower_pattern_body P (lower_pattern f P) p mw E
  end.

(* the wires of a constant whose definition is a literal (the literal's own suffix type gives
   the width, as in compile_with_constants) *)
Definition const_wires (e : expr) : res (list Wt) :=
  match e with
  | Ex ETrue _ _ => Ok [wT]
  | Ex EFalse _ _ => Ok [wF]
  | Ex (ENumU n lb) _ _ => Ok (unsigned_as_wires n (N.to_nat lb))
  | Ex (ENumS z lb) _ _ => Ok (signed_as_wires z (N.to_nat lb))
  | _ => Crash
  end.

(* the global scope: constants bound in source order *)
Definition global_scope (P : program) : res cenv :=
  fold_left (fun Er '(x, e) => let* E := Er in let* w := const_wires e in env_let E x w)
            (p_consts P) (Ok [[]]).

(* the environment in which the body of main is compiled: parameters in a scope of their own *)
Definition main_env (P : program) (bindings : list (N * list Wt)) : res cenv :=
  let* glob := global_scope P in
  fold_left (fun Er b => let* E := Er in env_let E (fst b) (snd b)) bindings (Ok (env_push glob)).

End Generic.

Arguments ops : clear implicits.
Arguments mkOps {Wt Cs Pst}.

(* ------------------------------------------------------------------ compile_with_constants
   (programs whose constants are literals; external constants: Compile/Consts.v, C12) *)

(* ------------------------------------------------------------------ the builder instance *)

(* the CircuitBuilder: gate store + its panic_gates *)
Record cst := mkCst { cb : builder; cp : pstate }.

Definition liftb {A} (f : builder -> res (A * builder)) : cst -> res (A * cst) :=
  fun s => let* (a, b') := f (cb s) in Ok (a, mkCst b' (cp s)).

Definition b_panic_if (cond : W) (r : preason) (m : meta) : cst -> res (unit * cst) :=
  fun s => let* (P', b') := push_panic_if (cb s) (cp s) cond r
                              (mkPLoc (m_sl m) (m_sc m) (m_el m) (m_ec m)) in
           Ok (tt, mkCst b' P').
Definition b_mux_panic (c : W) (T F : pstate) : cst -> res (pstate * cst) :=
  fun s => let* (P, b') := mux_panic (cb s) c T F in Ok (P, mkCst b' (cp s)).

Definition bops : ops N cst pstate := {|
  w0 := 0;
  w1 := 1;
  o_xor := fun x y => liftb (fun b => push_xor_top b x y);
  o_and := fun x y => liftb (fun b => push_and_top b x y);
  o_or := fun x y => liftb (fun b => push_or b x y);
  o_eq := fun x y => liftb (fun b => push_eq b x y);
  o_not := fun x => liftb (fun b => push_not b x);
  o_mux := fun s x0 x1 => liftb (fun b => push_mux b s x0 x1);
  o_negation := fun x => liftb (fun b => push_negation_circuit b x);
  o_addition := fun x y => liftb (fun b => push_addition_circuit b x y);
  o_subtraction := fun x y sg => liftb (fun b => push_subtraction_circuit b x y sg);
  o_multiplier := fun x y z c => liftb (fun b => push_multiplier b x y z c);
  o_udiv := fun x y => liftb (fun b => push_unsigned_division_circuit b x y);
  o_sdiv := fun x y => liftb (fun b => push_signed_division_circuit b x y);
  o_comparator := fun bits x sx y sy => liftb (fun b => push_comparator_circuit b bits x sx y sy);
  o_eq_circuit := fun x y => liftb (fun b => push_eq_circuit b x y);
  o_merger := fun bits asc v => liftb (fun b => push_bitonic_merger (S (length v)) b bits asc v);
  o_sorter := fun bits v => liftb (fun b => push_bitonic_sorter b bits v);
  o_panic_if := b_panic_if;
  o_peek := fun s => Ok (cp s, s);
  o_replace := fun P s => Ok (cp s, mkCst (cb s) P);
  o_mux_panic := b_mux_panic
|}.

Inductive lowered :=
| LCircuit (c : circuit)
| LNoMain                 (* CompilerError::FnNotFound *)
| LZeroSizedInputs.       (* CompilerError::ZeroSizedInputs *)

Definition wire_range (from : N) (n : nat) : list W := map (fun k => from + N.of_nat k) (seq 0 n).

(* parameter wiring: a single array parameter becomes one party per element *)
Definition param_wiring (P : program) (params : list (N * ty)) : list N * list (N * list W) :=
  match params with
  | [(x, TArr el n)] =>
      let eb := szn P el in
      let total := (eb * N.to_nat n)%nat in
      (repeat (N.of_nat eb) (N.to_nat n), [(x, wire_range 2 total)])
  | _ =>
      let '(igs, bs, _) :=
        fold_left (fun '(igs, bs, wire) '(x, t) =>
                     let s := szn P t in
                     (igs ++ [N.of_nat s], bs ++ [(x, wire_range wire s)], wire + N.of_nat s))
                  params ([], [], 2) in
      (igs, bs)
  end.

Definition lower_fuel : nat := 2000.

(* everything up to (not including) build: the final compiler state and the wires of the result *)
Inductive lowered_pre :=
| PreOk (s : cst) (outs : list W)
| PreNoMain
| PreZeroSizedInputs.

Definition initial_cst (dedup : bool) (input_gates : list N) : cst :=
  mkCst (new_builder dedup input_gates) pstate_new.

Definition lower_main_with (fuel : nat) (dedup : bool) (P : program) : res lowered_pre :=
  match find_fn P (p_main P) with
  | None => Ok PreNoMain
  | Some fd =>
      let '(input_gates, bindings) := param_wiring P (fn_params fd) in
      if sumN input_gates =? 0 then Ok PreZeroSizedInputs else
      let* E0 := main_env bops P bindings in
      let* ((outs, _), s1) := lower_block bops fuel P (fn_body fd) E0 (initial_cst dedup input_gates) in
      Ok (PreOk s1 outs)
  end.

Definition lower_program_with (fuel : nat) (dedup : bool) (P : program) : res lowered :=
  let* r := lower_main_with fuel dedup P in
  match r with
  | PreOk s1 outs =>
      let* c := build (cb s1) (prec_wires (ps_rec (cp s1))) outs in
      Ok (LCircuit c)
  | PreNoMain => Ok LNoMain
  | PreZeroSizedInputs => Ok LZeroSizedInputs
  end.

Definition lower_main : bool -> program -> res lowered_pre := lower_main_with lower_fuel.
Definition lower_program : bool -> program -> res lowered := lower_program_with lower_fuel.
