(* FOR-JOIN PROGRAMS AT PROGRAM LEVEL (C13 through "TSem = Sem.v").

   The shape of the corpus / scenario join programs:

     pub fn main(a: [TA; n], b: [TB; m], ...) -> R {
       let mut acc = <literal>; ...            (literal initialisations)
       for <pattern> in join(a, b) { body }    (ONE for-join loop over two parameters, top level)
       post ...                                (anything of the call-free full fragment)
     }

   [join_main_ok fw P] is the boolean test (the statements are checked by the strict checker of
   the call-free full fragment, Compile/TSemSemFull.v [scf_*]); [join_inputs_sorted P args] the
   RUN-TIME precondition: the values of the two table parameters have strictly ascending join
   keys.  [tsem_sem_program_join]: under both, the bit-level semantics and Sem.v agree on
   canonical arguments, in the form of the other program theorems.

   How the run-time condition reaches the loop: the agreement of a statement list is indexed
   by predicates on the source environment ([AgSQ] / [AgSSQ], Hoare style); the literal
   initialisations keep the value of every other variable ([lit_let_keeps]); the loop node is
   Compile/TSemSemJoin.v's, with its precondition asked at the ONE environment of the run
   ([join_loop_node_at]). *)
From Coq Require Import Lia ZArith Permutation Sorting.Sorted.
From GV Require Import Base.Util Base.Bits Lang.Ast Lang.Wt Lang.ValTy Gadgets.Gadgets Gadgets.GadgetSpec
  Panic.PanicRec Panic.PanicSem Compile.Lower Compile.TSem Compile.TSemFacts Compile.TSemControl Compile.TSemArray
  Compile.TSemSemExpr Compile.ValEnc Compile.TSemSticky Compile.TSemSemStmt Compile.TSemSemAgg
  Compile.JoinMerge Compile.TSemSemJoin Compile.TSemSemFull.
From GV Require Lang.Sem.
Local Open Scope N_scope.

(* ------------------------------------------------------------------ the loop node at one environment *)

Section NodeAt.
  Variable P : program.
  Notation AgE' := (AgE P (VRa P)).
  Notation AgS' := (AgS P (VRa P)).
  Notation rel := (env_rel3 (VRa P)).

  Theorem join_loop_node_at f g p bs join_ty a b body m ta na tb nb g1 tbody en :
    AgE' (S f) g a -> AgE' (S f) g b -> e_ty a = TArr ta na -> e_ty b = TArr tb nb ->
    (szn P join_ty <= szn P ta)%nat -> (szn P join_ty <= szn P tb)%nat ->
    PA P p (TTup [ta; tb]) bs -> ty_fits P (TTup [ta; tb]) ->
    AgSS P (VRa P) f (tbind_all ([] :: g) bs false) body unit_ty g1 tbody -> tl g1 = g ->
    (forall xs en1 ys en2,
       Sem.eval (S f) P en a = Sem.Done (Sem.VArr xs, en1) -> Sem.eval (S f) P en1 b = Sem.Done (Sem.VArr ys, en2) ->
       asc_keys P join_ty ta xs /\ asc_keys P join_ty tb ys) ->
    forall E fT w E' o', rel en E g ->
    lower_stmt tops fT P (St (SJoinLoop p join_ty a b body) m) E None = Ok ((w, E'), o') ->
    match Sem.exec (S (S f)) P en (St (SJoinLoop p join_ty a b body) m) with
    | Sem.Done (v, en') => o' = None /\ VRa P unit_ty v w /\ rel en' E' g
    | Sem.Panicked r m' => o' = Some (pcode r m')
    | _ => True
    end.
  Proof.
    intros IHa IHb Eta Etb Ja Jb Hpa Ftup Hbody Htl Hasc E fT w E' o' Hrel Hrun.
    destruct fT as [|fT]; [discriminate Hrun|].
    rewrite lower_stmt_S in Hrun. cbn [lower_stmt_body] in Hrun. rewrite Eta, Etb in Hrun. cbn [array_size] in Hrun.
    minva Hrun as [eba0 na0] o0 H0. apply lift_res_inv in H0. destruct H0 as [H0 ->]. injection H0 as <- <-.
    minva Hrun as [ebb0 nb0] o0 H0. apply lift_res_inv in H0. destruct H0 as [H0 ->]. injection H0 as <- <-.
    minva Hrun as [aw E1] o1 H1. minva Hrun as [bw E2] o2 H2.
    minva Hrun as [bitonic num_empty] o3 H3. apply lift_res_inv in H3. destruct H3 as [H3 ->].
    minva Hrun as sorted o4 H4. minva Hrun as E3 o5 H5.
    apply ret_inv in Hrun. destruct Hrun as [Heq ->]. injection Heq as -> ->.
    rewrite sem_exec_join, Eta, Etb. cbn [Sem.elem_ty_of].
    pose proof (IHa en E fT _ _ _ Hrel H1) as IH1. revert IH1.
    pose proof Hasc as Hasc1.
    destruct (Sem.eval (S f) P en a) as [[va en1]|r1 m1|c1|]; intro IH1; cbn [Sem.obind]; try exact I.
    2:{ (* a panicked *)
        subst o1. apply (sticky_e P) in H2. subst o2.
        cbn [o_merger tops] in H4. destruct (elems_shape _ _); [|discriminate]. injection H4 as _ <-.
        exact (stkx_join_loop_windows _ _ _ (stk_pat P _ fT) (stk_stmt P _ fT) p body _ _ _ _ _ _ _ H5). }
    destruct IH1 as (-> & [HVa Hfa] & Hrel1). rewrite Eta in HVa, Hfa.
    pose proof (IHb en1 E1 fT _ _ _ Hrel1 H2) as IH2. revert IH2.
    destruct (Sem.eval (S f) P en1 b) as [[vb en2]|r2 m2|c2|] eqn:Evb; intro IH2; cbn [Sem.obind]; try exact I.
    2:{ (* b panicked *)
        subst o2. cbn [o_merger tops] in H4. destruct (elems_shape _ _); [|discriminate]. injection H4 as _ <-.
        exact (stkx_join_loop_windows _ _ _ (stk_pat P _ fT) (stk_stmt P _ fT) p body _ _ _ _ _ _ _ H5). }
    destruct IH2 as (-> & [HVb Hfb] & Hrel2). rewrite Etb in HVb, Hfb.
    pose proof HVa as HVa'. apply has_enc_inv in HVa' as (xs & -> & _ & _).
    pose proof HVb as HVb'. apply has_enc_inv in HVb' as (ys & -> & _ & _).
    destruct (has_enc_array_elems P ta na xs aw HVa Hfa) as (ea & -> & Hxa & _ & Hla & _).
    destruct (has_enc_array_elems P tb nb ys bw HVb Hfb) as (eb & -> & Hyb & _ & Hlb & _).
    rewrite <- Hla, <- Hlb in H3.
    destruct (Hasc1 xs en1 ys en2 eq_refl Evb) as [Sx Sy].
    pose proof (ty_fits_arr P ta na Hfa) as Fa. pose proof (ty_fits_arr P tb nb Hfb) as Fb.
    destruct (merged_items P join_ty ta tb Fa Fb Ja Jb xs ys ea eb None bitonic num_empty sorted o4 Hxa Hyb Sx Sy H3 H4)
      as (-> & M & EM & PM & SM & EA).
    rewrite EM in H5.
    assert (OkM : Forall (iok P ta tb) M).
    { apply Forall_forall. intros it Hit. apply (Permutation_in _ (Permutation_sym PM)) in Hit. apply in_app_or in Hit.
      destruct Hit as [Hit|Hit].
      - exact (proj1 (Forall_forall _ _) (items_iok P ta tb false xs ea Hxa) it Hit).
      - exact (proj1 (Forall_forall _ _) (items_iok P ta tb true ys eb Hyb) it Hit). }
    pose proof (WOK_sorted P join_ty ta tb Fa Fb Ja Jb xs ys ea eb M Hxa Hyb Sy PM SM) as HW.
    pose proof (join_windows_agree P join_ty ta tb Fa Fb Ja Jb f g p bs body g1 tbody ys Hpa Ftup Hbody Htl M OkM HW
                  en2 E2 fT _ _ Hrel2 H5) as IH3.
    assert (Eav : avals M = xs).
    { unfold avals. rewrite EA. apply (items_vals P join_ty ta tb Ja Jb). exact (F2_length _ _ _ Hxa). }
    rewrite Eav in IH3. revert IH3.
    destruct (sem_join P join_ty ta tb (S f) p body ys xs en2) as [en3|r3 m3|c3|]; intro IH3; cbn [Sem.obind];
      try exact I; [|exact IH3].
    destruct IH3 as (-> & Hrel3). split; [reflexivity|]. split; [exact (VRa_unit P)|exact Hrel3].
  Qed.
End NodeAt.

(* ------------------------------------------------------------------ statement lists, Hoare style *)

Section Chain.
  Variable P : program.
  Notation rel := (env_rel3 (VRa P)).

  (* agreement of a statement on the environments that satisfy [Q]; [Q'] holds afterwards *)
  Definition AgSQ (f : nat) (g g' : tenv) (t : ty) (s : stmt) (Q Q' : Sem.env -> Prop) : Prop :=
    forall en E fT w E' o', rel en E g -> Q en -> lower_stmt tops fT P s E None = Ok ((w, E'), o') ->
    match Sem.exec f P en s with
    | Sem.Done (v, en') => o' = None /\ VRa P t v w /\ rel en' E' g' /\ Q' en'
    | Sem.Panicked r m => o' = Some (pcode r m)
    | _ => True
    end.

  Inductive AgSSQ (f : nat) : (Sem.env -> Prop) -> tenv -> list stmt -> ty -> tenv -> ty -> Prop :=
  | AgSSQ_nil Q g t : AgSSQ f Q g [] t g t
  | AgSSQ_cons Q Q' g s r g1 t1 t0 g' t :
      AgSQ f g g1 t1 s Q Q' -> AgSSQ f Q' g1 r t1 g' t -> AgSSQ f Q g (s :: r) t0 g' t.

  Lemma stmts_nodeQ f Q g ss t0 g' t : AgSSQ f Q g ss t0 g' t ->
    forall en E fT last lw w E' o',
    rel en E g -> Q en -> VRa P t0 last lw ->
    block_stmts (lower_stmt tops fT P) ss lw E None = Ok ((w, E'), o') ->
    match sem_stmts P f ss last en with
    | Sem.Done (v, en') => o' = None /\ VRa P t v w /\ rel en' E' g'
    | Sem.Panicked r m => o' = Some (pcode r m)
    | _ => True
    end.
  Proof.
    induction 1 as [Q g t|Q Q' g s r g1 t1 t0 g' t Hs _ IH]; intros en E fT last lw w E' o' Hrel HQ HV Hrun.
    - cbn [block_stmts] in Hrun. apply ret_inv in Hrun. destruct Hrun as [Heq ->]. injection Heq as -> ->.
      cbn [sem_stmts]. auto.
    - cbn [block_stmts] in Hrun. minva Hrun as [w1 E1] o1 H1. cbn [sem_stmts].
      pose proof (Hs en E fT _ _ _ Hrel HQ H1) as IH1. revert IH1.
      destruct (Sem.exec f P en s) as [[v en1]|r1 m1|c1|]; intro IH1; cbn [Sem.obind]; try exact I.
      + destruct IH1 as (-> & HV1 & Hrel1 & HQ1). exact (IH en1 E1 fT v w1 _ _ _ Hrel1 HQ1 HV1 Hrun).
      + subst o1. destruct (tsem_sticky_fuel (pcode r1 m1) P fT) as (_ & _ & Hss & _).
        exact (stkx_block_stmts _ _ Hss r w1 E1 _ _ Hrun).
  Qed.

  (* an unconditional agreement is one for every [Q], with nothing known afterwards *)
  Lemma AgSQ_of_AgS f g g' t s Q : AgS P (VRa P) f g g' t s -> AgSQ f g g' t s Q (fun _ => True).
  Proof.
    intros H en E fT w E' o' Hrel _ Hrun. pose proof (H en E fT w E' o' Hrel Hrun) as H1. revert H1.
    destruct (Sem.exec f P en s) as [[v en1]|r1 m1|c1|]; auto. intros (-> & HV & Hr). auto.
  Qed.

  Lemma AgSSQ_of_AgSS f g ss t0 g' t : AgSS P (VRa P) f g ss t0 g' t -> AgSSQ f (fun _ => True) g ss t0 g' t.
  Proof.
    induction 1 as [g t|g s r g1 t1 t0 g' t Hs _ IH]; [constructor|].
    econstructor; [apply AgSQ_of_AgS; exact Hs|exact IH].
  Qed.

  (* a statement that keeps [Q] *)
  Definition keeps (s : stmt) (Q : Sem.env -> Prop) : Prop :=
    forall f en v en', Sem.exec f P en s = Sem.Done (v, en') -> Q en -> Q en'.

  Lemma AgSQ_keep f g g' t s Q : AgS P (VRa P) f g g' t s -> keeps s Q -> AgSQ f g g' t s Q Q.
  Proof.
    intros H Hk en E fT w E' o' Hrel HQ Hrun. pose proof (H en E fT w E' o' Hrel Hrun) as H1. revert H1.
    destruct (Sem.exec f P en s) as [[v en1]|r1 m1|c1|] eqn:Hex; auto. intros (-> & HV & Hr).
    split; [reflexivity|]. split; [exact HV|]. split; [exact Hr|]. exact (Hk f en v en1 Hex HQ).
  Qed.
End Chain.

(* ------------------------------------------------------------------ literal initialisations *)

Definition is_lit_expr (e : expr) : bool :=
  match e with
  | Ex ETrue _ _ | Ex EFalse _ _ | Ex (ENumU _ _) _ _ | Ex (ENumS _ _) _ _ => true
  | _ => false
  end.

(* `let mut y = literal;` with y different from the two tables *)
Definition lit_let (xa xb : N) (s : stmt) : bool :=
  match s with
  | St (SLetMut y e) _ => is_lit_expr e && negb (y =? xa) && negb (y =? xb)
  | _ => false
  end.

Lemma lookup_bind_var_other en y v x : x <> y -> Sem.lookup_var (Sem.bind_var en y v) x = Sem.lookup_var en x.
Proof.
  intro Hne. unfold Sem.lookup_var, Sem.bind_var. destruct (Sem.scopes en) as [|s r]; cbn [Sem.scopes Sem.lookup_scopes assocN].
  - destruct (N.eqb_spec x y); [contradiction|reflexivity].
  - destruct (N.eqb_spec x y); [contradiction|reflexivity].
Qed.

Lemma lit_let_exec P xa xb s f en v en' : lit_let xa xb s = true -> Sem.exec f P en s = Sem.Done (v, en') ->
  Sem.lookup_var en' xa = Sem.lookup_var en xa /\ Sem.lookup_var en' xb = Sem.lookup_var en xb.
Proof.
  destruct s as [[| y e | | | |] m]; try discriminate. cbn [lit_let]. intros H Hx.
  apply andb_prop in H. destruct H as [H Hb]. apply andb_prop in H. destruct H as [Hl Ha].
  apply negb_true_iff in Ha, Hb. apply N.eqb_neq in Ha, Hb.
  destruct f as [|f]; [discriminate Hx|]. cbn [Sem.exec] in Hx.
  destruct e as [ei me te]. destruct f as [|f]; [destruct ei; discriminate Hx|].
  destruct ei; try discriminate Hl; cbn [Sem.eval Sem.obind] in Hx; injection Hx as <- <-;
    split; apply lookup_bind_var_other; congruence.
Qed.

(* ------------------------------------------------------------------ the shape and its test *)

(* the statements before the first for-join loop, the loop, the statements after it *)
Fixpoint split_join (ss : list stmt) : option (list stmt * stmt * list stmt) :=
  match ss with
  | [] => None
  | s :: r =>
      match s with
      | St (SJoinLoop _ _ _ _ _) _ => Some ([], s, r)
      | _ => match split_join r with Some (pre, j, post) => Some (s :: pre, j, post) | None => None end
      end
  end.

Lemma split_join_app ss pre j post : split_join ss = Some (pre, j, post) -> ss = pre ++ j :: post.
Proof.
  revert pre. induction ss as [|s r IH]; intros pre H; cbn [split_join] in H; [discriminate H|].
  destruct s as [si m].
  destruct si; try (destruct (split_join r) as [[[pre' j'] post']|]; [|discriminate H]; injection H as <- <- <-;
                    cbn [app]; f_equal; now apply IH).
  injection H as <- <- <-. reflexivity.
Qed.

Record join_site := mkJS {
  js_pat : pattern; js_jt : ty; js_xa : N; js_xb : N; js_ta : ty; js_na : N; js_tb : ty; js_nb : N;
  js_a : expr; js_b : expr; js_body : list stmt; js_meta : meta }.

(* the loop is over two identifiers of array type *)
Definition join_site_of (s : stmt) : option join_site :=
  match s with
  | St (SJoinLoop p jt (Ex (EId xa) ma (TArr ta na)) (Ex (EId xb) mb (TArr tb nb)) body) m =>
      Some (mkJS p jt xa xb ta na tb nb (Ex (EId xa) ma (TArr ta na)) (Ex (EId xb) mb (TArr tb nb)) body m)
  | _ => None
  end.

Definition main_join_site (P : program) : option (fndef * list stmt * join_site * list stmt) :=
  match find_fn P (p_main P) with
  | Some d =>
      match split_join (fn_body d) with
      | Some (pre, j, post) => match join_site_of j with Some js => Some (d, pre, js, post) | None => None end
      | None => None
      end
  | None => None
  end.

(* what is checked: no constants; literal initialisations before the loop; the loop's operands,
   pattern and body and the statements after the loop pass the strict checker of the call-free
   full fragment in the contexts they are met in; the result has main's type *)
Definition join_main_ok (fw : nat) (P : program) : bool :=
  match p_consts P, main_join_site P with
  | [], Some (d, pre, js, post) =>
      enums_small P &&
      forallb (lit_let (js_xa js) (js_xb js)) pre &&
      match scf_stmts fw P pre ([] :: tbind_all [[]; []] (fn_params d) true) unit_ty with
      | Some (g1, t1) =>
          scf_expr fw P g1 (js_a js) && scf_expr fw P g1 (js_b js) &&
          (szn P (js_jt js) <=? szn P (js_ta js))%nat && (szn P (js_jt js) <=? szn P (js_tb js))%nat &&
          ty_fits_b P (TTup [js_ta js; js_tb js]) &&
          match gpat_b P false (js_pat js) (TTup [js_ta js; js_tb js]) with
          | Some bs =>
              match scf_stmts fw P (js_body js) (tbind_all ([] :: g1) bs false) unit_ty with
              | Some _ =>
                  match scf_stmts fw P post g1 unit_ty with
                  | Some (_, t2) => ty_beq t2 (fn_ret d)
                  | None => false
                  end
              | None => false
              end
          | None => false
          end
      | None => false
      end
  | _, _ => false
  end.

(* THE RUN-TIME PRECONDITION on the arguments: the values that main's parameters [xa] and [xb]
   (the operands of the loop) receive are arrays whose join keys are strictly ascending *)
Definition join_inputs_sorted (P : program) (args : list (list bool)) : Prop :=
  match main_join_site P with
  | Some (d, _, js, _) =>
      forall vals xs ys, Sem.decode_args P (fn_params d) args = Some vals ->
      let en := Sem.bind_all (Sem.push_scope (Sem.mkEnv [[]] false)) vals in
      Sem.lookup_var en (js_xa js) = Some (Sem.VArr xs) -> Sem.lookup_var en (js_xb js) = Some (Sem.VArr ys) ->
      asc_keys P (js_jt js) (js_ta js) xs /\ asc_keys P (js_jt js) (js_tb js) ys
  | None => True
  end.

(* ------------------------------------------------------------------ the program theorem *)

Section Program.
  Variable P : program.
  Hypothesis Hsm : enums_small P = true.
  Notation rel := (env_rel3 (VRa P)).

  Definition QS (js : join_site) (en : Sem.env) : Prop :=
    forall xs ys, Sem.lookup_var en (js_xa js) = Some (Sem.VArr xs) -> Sem.lookup_var en (js_xb js) = Some (Sem.VArr ys) ->
    asc_keys P (js_jt js) (js_ta js) xs /\ asc_keys P (js_jt js) (js_tb js) ys.

  Lemma lit_let_keeps js s : lit_let (js_xa js) (js_xb js) s = true -> keeps P s (QS js).
  Proof.
    intros Hl f en v en' Hx HQ xs ys Ha Hb. destruct (lit_let_exec P _ _ s f en v en' Hl Hx) as [E1 E2].
    apply HQ; congruence.
  Qed.

  (* the initialisations, then the rest *)
  Lemma pre_chain js f fw : forall pre g last g1 t1,
    forallb (lit_let (js_xa js) (js_xb js)) pre = true -> scf_stmts fw P pre g last = Some (g1, t1) ->
    forall tail g2 t2, AgSSQ P f (QS js) g1 tail t1 g2 t2 -> AgSSQ P f (QS js) g (pre ++ tail) last g2 t2.
  Proof.
    destruct (agree_all_full P Hsm f) as [_ IHs].
    induction pre as [|s r IH]; intros g last g1 t1 Hl Hsc tail g2 t2 Ht; cbn [scf_stmts forallb app] in *.
    - injection Hsc as <- <-. destruct Ht; econstructor; eassumption.
    - apply andb_prop in Hl. destruct Hl as [Hl1 Hl2].
      destruct (scf_stmt fw P g s) as [[g' t']|] eqn:Es; [|discriminate Hsc].
      econstructor; [apply AgSQ_keep; [eapply IHs; exact Es|now apply lit_let_keeps]|].
      eapply IH; eassumption.
  Qed.

  (* the loop, on the environments in which the two tables are sorted *)
  Lemma join_stmt_chain f fw g1 p jt xa xb ta na tb nb ma mb body m bs gb tbody :
    let js := mkJS p jt xa xb ta na tb nb (Ex (EId xa) ma (TArr ta na)) (Ex (EId xb) mb (TArr tb nb)) body m in
    scf_expr fw P g1 (js_a js) = true -> scf_expr fw P g1 (js_b js) = true ->
    (szn P jt <= szn P ta)%nat -> (szn P jt <= szn P tb)%nat -> ty_fits P (TTup [ta; tb]) ->
    gpat_b P false p (TTup [ta; tb]) = Some bs ->
    scf_stmts fw P body (tbind_all ([] :: g1) bs false) unit_ty = Some (gb, tbody) ->
    AgSQ P f g1 g1 unit_ty (St (SJoinLoop p jt (js_a js) (js_b js) body) m) (QS js) (fun _ => True).
  Proof.
    intros js Ha Hb Ja Jb Ftup Hp Hbody en E fT w E' o' Hrel HQ Hrun.
    destruct f as [|[|f]]; [exact I| |].
    - rewrite sem_exec_join. exact I.
    - destruct (agree_all_full P Hsm (S f)) as [IHe _]. destruct (agree_all_full P Hsm f) as [_ IHs].
      destruct (stmts_AgSS_f P f IHs fw body _ _ _ _ Hbody) as [HA Htl]. rewrite tl_tbind_all in Htl. cbn [tl] in Htl.
      pose proof (join_loop_node_at P f g1 p bs jt (js_a js) (js_b js) body m ta na tb nb gb tbody en
                    (IHe fw g1 _ Ha) (IHe fw g1 _ Hb) eq_refl eq_refl Ja Jb) as HN.
      assert (Hpa : PA P p (TTup [ta; tb]) bs).
      { intros v mw en0 E0 g0 fT0 c E0' o0 o0' HV Hfit Hrel0 Hrun0.
        exact (TSemSemAgg.gpat_agrees P Hsm p _ bs (gpat_b_sound P p _ bs Hp) v mw en0 E0 g0 fT0 c E0' o0 o0' HV Hfit Hrel0 Hrun0). }
      specialize (HN Hpa Ftup HA Htl).
      assert (Hasc : forall xs en1 ys en2,
        Sem.eval (S f) P en (js_a js) = Sem.Done (Sem.VArr xs, en1) -> Sem.eval (S f) P en1 (js_b js) = Sem.Done (Sem.VArr ys, en2) ->
        asc_keys P jt ta xs /\ asc_keys P jt tb ys).
      { intros xs en1 ys en2 E1 E2. cbn [js_a js_b js Sem.eval] in E1, E2.
        destruct (Sem.lookup_var en xa) as [va|] eqn:La; [|discriminate E1]. injection E1 as -> <-.
        destruct (Sem.lookup_var en xb) as [vb|] eqn:Lb; [|discriminate E2]. injection E2 as -> _.
        exact (HQ xs ys La Lb). }
      specialize (HN Hasc E fT w E' o' Hrel Hrun). revert HN.
      destruct (Sem.exec (S (S f)) P en _) as [[v en1]|r1 m1|c1|]; auto. intros (-> & HV & Hr). auto.
  Qed.

  Theorem tsem_sem_program_join fuel fw fT args o outs :
    join_main_ok fw P = true -> join_inputs_sorted P args -> canonical_main_args P args = true ->
    tsem_program fT P args = Ok (o, outs) ->
    match Sem.run_main fuel P args with
    | Sem.RunOk bits _ => o = None /\ outs = bits
    | Sem.RunPanic r m => o = Some (preason_num (pr r), ploc32 (ploc_of m))
    | Sem.RunStuck _ | Sem.RunNoFuel => True
    end.
  Proof.
    intros Hok Hsorted Hcan Hrun. unfold join_main_ok in Hok. unfold join_inputs_sorted in Hsorted.
    destruct (p_consts P) as [|c0 cs] eqn:Hc; [|discriminate Hok].
    destruct (main_join_site P) as [[[[d pre] js] post]|] eqn:Hsite; [|discriminate Hok].
    unfold main_join_site in Hsite. unfold canonical_main_args in Hcan.
    destruct (find_fn P (p_main P)) as [d'|] eqn:Hfind; [|discriminate Hsite].
    destruct (split_join (fn_body d')) as [[[pre' j] post']|] eqn:Hsp; [|discriminate Hsite].
    destruct (join_site_of j) as [js'|] eqn:Hjs; [|discriminate Hsite]. injection Hsite as -> -> -> ->.
    apply split_join_app in Hsp.
    (* the loop statement *)
    destruct j as [[| | | |p jt a b jbody|] mj]; try discriminate Hjs. cbn [join_site_of] in Hjs.
    destruct a as [[| | | |xa| | | | | | | | | | | | | | | | | |] ma [| |ta na| | |]]; try discriminate Hjs.
    destruct b as [[| | | |xb| | | | | | | | | | | | | | | | | |] mb [| |tb nb| | |]]; try discriminate Hjs.
    injection Hjs as <-. cbn [js_xa js_xb js_jt js_ta js_tb js_pat js_body js_a js_b] in *.
    (* the checks *)
    apply andb_prop in Hok. destruct Hok as [Hok Hrest]. apply andb_prop in Hok. destruct Hok as [_ Hlits].
    set (g0 := tbind_all [[]; []] (fn_params d) true) in *.
    destruct (scf_stmts fw P pre ([] :: g0) unit_ty) as [[g1 t1]|] eqn:Epre; [|discriminate Hrest].
    destruct (gpat_b P false p (TTup [ta; tb])) as [bs|] eqn:Ep;
      [|apply andb_prop in Hrest; destruct Hrest as [_ Hrest]; discriminate Hrest].
    apply andb_prop in Hrest. destruct Hrest as [Hrest Hpost].
    apply andb_prop in Hrest. destruct Hrest as [Hrest Hfit]. apply andb_prop in Hrest. destruct Hrest as [Hrest Jb].
    apply andb_prop in Hrest. destruct Hrest as [Hrest Ja]. apply andb_prop in Hrest. destruct Hrest as [Ha Hb].
    apply Nat.leb_le in Ja, Jb.
    destruct (scf_stmts fw P jbody (tbind_all ([] :: g1) bs false) unit_ty) as [[gb tbody]|] eqn:Ebody; [|discriminate Hpost].
    destruct (scf_stmts fw P post g1 unit_ty) as [[g2 t2]|] eqn:Epost; [|discriminate Hpost].
    apply ty_beq_eq in Hpost. subst t2.
    (* the bit-level side *)
    unfold tsem_program in Hrun. rewrite Hfind in Hrun.
    destruct (negb (same_len (fn_params d) args)); [discriminate Hrun|].
    unfold main_env, global_scope in Hrun. rewrite Hc in Hrun. cbn [fold_left bind] in Hrun.
    destruct (fold_left (fun Er b => let* E := Er in env_let E (fst b) (snd b))
                (combine (map fst (fn_params d)) args) (Ok (env_push [[]]))) as [E0| |] eqn:Ef;
      cbn [bind] in Hrun; try discriminate Hrun.
    destruct (lower_block tops fT P (fn_body d) E0 None) as [[[w E'] o1]| |] eqn:Hblk; cbn [bind] in Hrun;
      try discriminate Hrun. injection Hrun as <- <-.
    (* the source side *)
    unfold Sem.run_main. rewrite Hfind.
    destruct (Sem.decode_args P (fn_params d) args) as [vals|] eqn:Ed; [|exact I].
    unfold Sem.eval_consts. rewrite Hc.
    assert (Hrel0 : rel (Sem.push_scope (Sem.mkEnv [[]] false)) (env_push [[]]) ([] :: [[]])).
    { apply rel_push. unfold env_rel3. cbn [Sem.scopes]. constructor; [|constructor].
      split; [exact I|]. intro x. cbn. auto. }
    pose proof (init_rel_f P _ _ _ Ed Hcan _ _ _ _ Hrel0 Ef) as Hrel. fold g0 in Hrel.
    set (en1 := Sem.bind_all (Sem.push_scope (Sem.mkEnv [[]] false)) vals) in *.
    destruct fuel as [|f]; [exact I|]. rewrite exec_block_S.
    destruct fT as [|fT']; [discriminate Hblk|]. rewrite lower_block_S in Hblk. unfold lower_block_body in Hblk.
    minva Hblk as [w1 E1] o2 H1. minva Hblk as E2 o3 H2. apply lift_res_inv in H2. destruct H2 as [_ ->].
    apply ret_inv in Hblk. destruct Hblk as [Heq ->]. injection Heq as -> ->.
    (* the chain of main's statements *)
    set (js := mkJS p jt xa xb ta na tb nb (Ex (EId xa) ma (TArr ta na)) (Ex (EId xb) mb (TArr tb nb)) jbody mj) in *.
    destruct (agree_all_full P Hsm f) as [_ IHs].
    destruct (stmts_AgSS_f P f IHs fw post _ _ _ _ Epost) as [HApost _].
    assert (Hchain : AgSSQ P f (QS js) ([] :: g0) (fn_body d) unit_ty g2 (fn_ret d)).
    { rewrite Hsp. eapply (pre_chain js f fw pre); [exact Hlits|exact Epre|].
      econstructor; [|apply AgSSQ_of_AgSS; exact HApost].
      exact (join_stmt_chain f fw g1 p jt xa xb ta na tb nb ma mb jbody mj bs gb tbody Ha Hb Ja Jb Hfit Ep Ebody). }
    assert (HQ0 : QS js (Sem.push_scope en1)).
    { intros xs ys La Lb. apply (Hsorted vals xs ys eq_refl); [exact La|exact Lb]. }
    pose proof (stmts_nodeQ P f _ _ _ _ _ _ Hchain (Sem.push_scope en1) (env_push E0) fT' Sem.unit_val [] _ _ _
                  (rel_push _ _ _ _ Hrel) HQ0 (VRa_unit P) H1) as HR. revert HR.
    destruct (sem_stmts P f (fn_body d) Sem.unit_val (Sem.push_scope en1)) as [[v en2]|r m|c|]; cbn [Sem.obind];
      intro HR; try exact I; [|exact HR].
    destruct HR as (-> & [HV Hfitr] & _).
    rewrite (has_enc_encode P _ _ _ HV Hfitr). auto.
  Qed.
End Program.
Print Assumptions tsem_sem_program_join.

(* ------------------------------------------------------------------ non-vacuity *)

Module JoinProgramExample.
  Import JoinExamples TSemArith1.
  (* pub fn main(a: [(u8, u8); 2], b: [(u8, u8); 3]) -> (u8, u8) {
       let mut s = 0u8; let mut t = 0u8;
       for ((k1, p1), (k2, p2)) in join(a, b) { s = s + p1; t = p2; }
       (s, t) }                                      join key: the first component (u8) *)
  Definition ta2 := TArr el 2.
  Definition tb3 := TArr el 3.
  Definition main_fn : fndef :=
    mkFn 9 [(5, ta2); (6, tb3)] el
      [ st (SLetMut 1 (lit8 0)); st (SLetMut 2 (lit8 0));
        st (SJoinLoop jpat u8 (Ex (EId 5) m0 ta2) (Ex (EId 6) m0 tb3)
              [st (SAssign 1 [] (Ex (EOp OAdd (Ex (EId 1) m0 u8) (Ex (EId 12) m0 u8)) m0 u8));
               st (SAssign 2 [] (Ex (EId 14) m0 u8))]);
        st (SExpr (Ex (ETupLit [Ex (EId 1) m0 u8; Ex (EId 2) m0 u8]) m0 el)) ].
  Definition P1 : program := mkProgram [] [] [main_fn] [] 9.

  Example accepted : join_main_ok 8 P1 = true.
  Proof. vm_compute. reflexivity. Qed.

  Definition tbl (l : list (Z * Z)) : list bool := concat (map (fun kp => enc 8 (fst kp) ++ enc 8 (snd kp)) l).
  Definition A1 : list (list bool) := [tbl [(0, 7); (3, 9)]; tbl [(0, 1); (2, 5); (3, 2)]]%Z.

  Lemma sorted_A1 : join_inputs_sorted P1 A1.
  Proof.
    unfold join_inputs_sorted. set (s := main_join_site P1). vm_compute in s. subst s. cbv beta iota zeta.
    intros vals xs ys Hd. vm_compute in Hd. injection Hd as <-. vm_compute. intros [= <-] [= <-].
    split; repeat constructor.
  Qed.

  (* s = 7 + 9, t = 2 on both sides, by the theorem *)
  Example sorted_run : exists o outs l,
    tsem_program 12 P1 A1 = Ok (o, outs) /\ Sem.run_main 12 P1 A1 = Sem.RunOk (enc2 16 2) l /\ o = None /\ outs = enc2 16 2.
  Proof.
    destruct (tsem_program 12 P1 A1) as [[o outs]| |] eqn:Hrun;
      [|vm_compute in Hrun; discriminate Hrun|vm_compute in Hrun; discriminate Hrun].
    assert (Hcan : canonical_main_args P1 A1 = true) by (vm_compute; reflexivity).
    pose proof (tsem_sem_program_join P1 eq_refl 12 8 12 A1 o outs accepted sorted_A1 Hcan Hrun) as H.
    assert (exists l, Sem.run_main 12 P1 A1 = Sem.RunOk (enc2 16 2) l) as [l Ev] by (eexists; vm_compute; reflexivity).
    rewrite Ev in H. destruct H as [-> ->]. exists None, (enc2 16 2), l. repeat split; assumption || reflexivity.
  Qed.

  (* the precondition is needed at program level too: table a not ascending -- the circuit's
     result and Sem.v's differ *)
  Definition A2 : list (list bool) := [tbl [(3, 9); (0, 7)]; tbl [(0, 1); (2, 5); (3, 2)]]%Z.
  Example unsorted_differs :
    canonical_main_args P1 A2 = true /\
    tsem_program 12 P1 A2 = Ok (None, enc2 1 7) /\ Sem.run_main 12 P1 A2 = Sem.RunOk (enc2 16 1) false.
  Proof. vm_compute. repeat split; reflexivity. Qed.
End JoinProgramExample.
