(* Control flow and patterns of the lowering of Compile/Lower.v on the Boolean instance
   (TSem.tops): what `&&` / `||`, `match`, scalar and tuple patterns, blocks and `let`
   compute, as equations on (result bits, environment, panic observation).

   (1) short circuit: when the right operand of `&&` / `||` is not evaluated by the source
       semantics, neither its assignments nor its panics are visible;
   (2) match: value, environment and observation are those of the FIRST arm whose pattern
       matches ([select_first]), independent of the later arms;
   (3) scalar patterns: the match bit is the Boolean of [Sem.pmatch] on the decoded value;
   (4) tuple patterns: conjunction of the field match bits, bindings accumulate left to right;
   (5) blocks and let statements.

   Conventions as in TSemArith1.v: bit vectors are MSB first, [uval] / [sval] are the unsigned /
   two's-complement readings, [enc n z] is the n-bit vector reading z modulo 2^n. *)
From Coq Require Import Lia ZArith.
From GV Require Import Base.Util Base.Bits Base.BitsProofs Lang.Ast Gadgets.Gadgets Gadgets.GadgetSpec
  Gadgets.Arith Panic.PanicRec Panic.PanicSem Compile.Lower Compile.TSem Compile.TSemFacts
  Compile.TSemArith1 Compile.TSemArith2.
From GV Require Lang.Sem.
Local Open Scope N_scope.

(* ------------------------------------------------------------------ shapes of environments *)

Lemma same_scope_shape_refl a : same_scope_shape a a.
Proof. induction a; constructor; [split; reflexivity|assumption]. Qed.

Lemma same_env_shape_refl a : same_env_shape a a.
Proof. induction a; constructor; [apply same_scope_shape_refl|assumption]. Qed.

Lemma same_scope_shape_sym a b : same_scope_shape a b -> same_scope_shape b a.
Proof. induction 1 as [|p q a b [H1 H2] _ IH]; constructor; [split; congruence|assumption]. Qed.

Lemma same_env_shape_sym a b : same_env_shape a b -> same_env_shape b a.
Proof. induction 1; constructor; [now apply same_scope_shape_sym|assumption]. Qed.

Lemma same_scope_shape_trans a b c : same_scope_shape a b -> same_scope_shape b c -> same_scope_shape a c.
Proof.
  intro H. revert c. induction H as [|p q a b [H1 H2] _ IH]; intros c Hc; inversion Hc as [|q' r b' c' [H3 H4] Hr]; subst;
    constructor; [split; congruence|now apply IH].
Qed.

Lemma same_env_shape_trans a b c : same_env_shape a b -> same_env_shape b c -> same_env_shape a c.
Proof.
  intro H. revert c. induction H as [|p q a b H1 _ IH]; intros c Hc; inversion Hc; subst;
    constructor; [eapply same_scope_shape_trans; eassumption|now apply IH].
Qed.

(* distinctness of the keys depends on the shape only *)
Lemma same_scope_shape_keys a b : same_scope_shape a b -> map fst a = map fst b.
Proof. induction 1 as [|p q a b [H1 _] _ IH]; cbn [map]; congruence. Qed.

Lemma keys_distinct_shape a b : same_env_shape a b -> Forall keys_distinct b -> Forall keys_distinct a.
Proof.
  induction 1 as [|p q a b H1 _ IH]; intro Hd; [constructor|]. inversion Hd; subst.
  constructor; [|now apply IH]. unfold keys_distinct in *. now rewrite (same_scope_shape_keys _ _ H1).
Qed.

(* ------------------------------------------------------------------ (1) short circuit *)

Section ShortCircuit.
  Variable P : program.
  Variable eB : expr -> @cenv bool -> pobs -> res ((list bool * @cenv bool) * pobs).
  Variable pB : pattern -> list bool -> @cenv bool -> pobs -> res ((bool * @cenv bool) * pobs).
  Variable bB : list stmt -> @cenv bool -> pobs -> res ((list bool * @cenv bool) * pobs).

  (* x && y: both operands are evaluated, the right one from the state after the left one; if
     the left operand is false the environment and the observation are those after the left
     operand alone: no assignment and no panic of the right operand is visible. *)
  Theorem tsem_land_short_circuit x y m ty E o bx E1 o1 by_ E2 o2 :
    eB x E o = Ok (([bx], E1), o1) ->
    eB y E1 o1 = Ok (([by_], E2), o2) ->
    same_env_shape E2 E1 -> Forall keys_distinct E1 ->
    lower_expr_body tops P eB pB bB (Ex (EOp OLAnd x y) m ty) E o =
      Ok (([bx && by_], if bx then E2 else E1), if bx then o2 else o1).
  Proof.
    intros Hx Hy Hs Hd. cbn [lower_expr_body]. unfold mbind at 1. rewrite Hx.
    unfold mbind at 1. cbn [one_wire]. unfold ret at 1.
    unfold mbind at 1. cbn [m_peek o_peek tops].
    unfold mbind at 1. rewrite Hy.
    unfold mbind at 1. cbn [one_wire]. unfold ret at 1.
    unfold mbind at 1. rewrite tsem_mux_envs by assumption.
    unfold mbind at 1. cbn [m_peek o_peek tops].
    unfold mbind at 1. cbn [m_mux_panic o_mux_panic tops].
    unfold mbind at 1. cbn [m_replace o_replace tops].
    unfold mbind at 1. cbn [m_and o_and tops]. unfold tret, ret. reflexivity.
  Qed.

  (* x || y: symmetric; the right operand is invisible when the left one is true *)
  Theorem tsem_lor_short_circuit x y m ty E o bx E1 o1 by_ E2 o2 :
    eB x E o = Ok (([bx], E1), o1) ->
    eB y E1 o1 = Ok (([by_], E2), o2) ->
    same_env_shape E1 E2 -> Forall keys_distinct E2 ->
    lower_expr_body tops P eB pB bB (Ex (EOp OLOr x y) m ty) E o =
      Ok (([bx || by_], if bx then E1 else E2), if bx then o1 else o2).
  Proof.
    intros Hx Hy Hs Hd. cbn [lower_expr_body]. unfold mbind at 1. rewrite Hx.
    unfold mbind at 1. cbn [one_wire]. unfold ret at 1.
    unfold mbind at 1. cbn [m_peek o_peek tops].
    unfold mbind at 1. rewrite Hy.
    unfold mbind at 1. cbn [one_wire]. unfold ret at 1.
    unfold mbind at 1. rewrite tsem_mux_envs by assumption.
    unfold mbind at 1. cbn [m_peek o_peek tops].
    unfold mbind at 1. cbn [m_mux_panic o_mux_panic tops].
    unfold mbind at 1. cbn [m_replace o_replace tops].
    unfold mbind at 1. cbn [m_or o_or tops]. unfold tret, ret. reflexivity.
  Qed.
End ShortCircuit.
Print Assumptions tsem_land_short_circuit.
Print Assumptions tsem_lor_short_circuit.

(* ------------------------------------------------------------------ (2) match *)

(* what one arm does when it is evaluated on its own: its match bit, the bits of its body,
   the environment after its scope is popped, the observation after its body *)
Record arm_out := mkArmOut {
  ao_match : bool;
  ao_bits : list bool;
  ao_env : @cenv bool;
  ao_obs : pobs
}.

(* (result bits, observation, environment) *)
Definition arm_res := (list bool * pobs * @cenv bool)%type.

(* the outcome of the first arm that matches; [dflt] if none does *)
Fixpoint select_first (bits : nat) (outs : list arm_out) (dflt : arm_res) : arm_res :=
  match outs with
  | [] => dflt
  | a :: r =>
      if ao_match a then (firstn bits (ao_bits a), ao_obs a, ao_env a)
      else select_first bits r dflt
  end.

(* the arms after the first matching one are irrelevant *)
Lemma select_first_match bits pre a post dflt :
  Forall (fun b => ao_match b = false) pre -> ao_match a = true ->
  select_first bits (pre ++ a :: post) dflt = (firstn bits (ao_bits a), ao_obs a, ao_env a).
Proof.
  intros Hpre Ha. induction Hpre as [|b pre Hb _ IH]; cbn [app select_first].
  - now rewrite Ha.
  - now rewrite Hb.
Qed.

Lemma select_first_none bits outs dflt :
  Forall (fun b => ao_match b = false) outs -> select_first bits outs dflt = dflt.
Proof. induction 1 as [|b r Hb _ IH]; cbn [select_first]; [reflexivity|now rewrite Hb]. Qed.

Lemma last_cons_default {A} (l : list A) a d : last (a :: l) d = last l a.
Proof.
  revert a d. induction l as [|b l IH]; intros a d; [reflexivity|].
  change (last (a :: b :: l) d) with (last (b :: l) d). rewrite (IH b d). symmetry. apply IH.
Qed.

Section Match.
  Variable P : program.
  Variable eB : expr -> @cenv bool -> pobs -> res ((list bool * @cenv bool) * pobs).
  Variable pB : pattern -> list bool -> @cenv bool -> pobs -> res ((bool * @cenv bool) * pobs).
  Variable bB : list stmt -> @cenv bool -> pobs -> res ((list bool * @cenv bool) * pobs).

  (* the arm (pattern, body) evaluates to [a]: the pattern is matched against the scrutinee
     [sw] in a fresh scope over [E0], FROM THE SAVED OBSERVATION [P0]; the body runs in the
     resulting environment; the scope is popped; the body has at least [bits] bits and the
     environment has the shape of [E0] again *)
  Definition arm_evaluates (bits : nat) (sw : list bool) (E0 : @cenv bool) (P0 : pobs)
      (arm : pattern * expr) (a : arm_out) : Prop :=
    exists E1 o1 E2,
      pB (fst arm) sw (env_push E0) P0 = Ok ((ao_match a, E1), o1) /\
      eB (snd arm) E1 o1 = Ok ((ao_bits a, E2), ao_obs a) /\
      env_pop E2 = Ok (ao_env a) /\
      (bits <= length (ao_bits a))%nat /\
      same_env_shape (ao_env a) E0.

  (* The loop over the arms, from any accumulators: if an earlier arm has matched
     ([hp] = true) the accumulators are returned unchanged, otherwise they are those of the first
     matching arm; the final compiler state is the observation after the last arm (it is
     overwritten by the caller). *)
  Theorem tsem_lower_arms bits sw E0 P0 : Forall keys_distinct E0 ->
    forall arms outs, Forall2 (arm_evaluates bits sw E0 P0) arms outs ->
    forall hp mret mpanic menv o, length mret = bits -> same_env_shape menv E0 ->
    lower_arms tops eB pB bits sw E0 P0 arms hp mret mpanic menv o =
      Ok ((if hp then (mret, mpanic, menv) else select_first bits outs (mret, mpanic, menv),
           hp || existsb ao_match outs),
          last (map ao_obs outs) o).
  Proof.
    intros Hd arms outs HF. induction HF as [|[pat body] a arms outs Ha _ IH];
      intros hp mret mpanic menv o Hl Hm.
    - cbn [lower_arms select_first existsb map last]. unfold ret. rewrite orb_false_r.
      destruct hp; reflexivity.
    - destruct Ha as (E1 & o1 & E2 & Hp & He & Hpop & Hlen & Hsh). cbn [fst snd] in Hp, He.
      cbn [lower_arms].
      unfold mbind at 1. cbn [m_replace o_replace tops].
      unfold mbind at 1. rewrite Hp.
      unfold mbind at 1. rewrite He.
      unfold mbind at 1. cbn [m_not o_not tops]. unfold tret at 1.
      unfold mbind at 1. cbn [m_and o_and tops]. unfold tret at 1.
      unfold mbind at 1. rewrite Hpop. cbn [lift_res].
      unfold mbind at 1. cbn [m_peek o_peek tops].
      unfold mbind at 1. cbn [m_mux_panic o_mux_panic tops].
      assert (Hdm : Forall keys_distinct menv) by (eapply keys_distinct_shape; eassumption).
      assert (Hsm : same_env_shape (ao_env a) menv)
        by (eapply same_env_shape_trans; [exact Hsh|now apply same_env_shape_sym]).
      unfold mbind at 1. rewrite tsem_mux_envs by assumption.
      destruct (Nat.ltb_spec (length (ao_bits a)) bits) as [Hlt|_]; [lia|].
      assert (Hfl : length (firstn bits (ao_bits a)) = length mret)
        by (rewrite firstn_length, Hl; lia).
      unfold mbind at 1.
      rewrite (tsem_map2_mux (negb hp && ao_match a) (firstn bits (ao_bits a)) mret Hfl).
      unfold mbind at 1. cbn [m_or o_or tops]. unfold tret at 1.
      rewrite IH.
      + cbn [select_first existsb map]. rewrite last_cons_default.
        destruct hp, (ao_match a); reflexivity.
      + destruct (negb hp && ao_match a); [now rewrite Hfl|assumption].
      + destruct (negb hp && ao_match a); assumption.
  Qed.

  (* match: the scrutinee is evaluated once; value, environment and observation of the whole
     expression are those of the first arm whose pattern matches, whatever the later arms do
     (their panics and assignments included); if no arm matches: zeros, and the state after
     the scrutinee *)
  Theorem tsem_match_selects scrut arms m ty E o sw E0 P0 outs :
    eB scrut E o = Ok ((sw, E0), P0) ->
    Forall keys_distinct E0 ->
    Forall2 (arm_evaluates (szn P ty) sw E0 P0) arms outs ->
    lower_expr_body tops P eB pB bB (Ex (EMatch scrut arms) m ty) E o =
      let '(w, ob, env) := select_first (szn P ty) outs (repeat false (szn P ty), P0, E0) in
      Ok ((w, env), ob).
  Proof.
    intros Hs Hd HF. cbn [lower_expr_body]. unfold mbind at 1. rewrite Hs.
    unfold mbind at 1. cbn [m_peek o_peek tops].
    unfold mbind at 1.
    change (repeat (wF tops) (szn P ty)) with (repeat false (szn P ty)).
    change (wF tops) with false.
    rewrite (tsem_lower_arms (szn P ty) sw E0 P0 Hd arms outs HF false _ P0 E0 P0
               (repeat_length false (szn P ty)) (same_env_shape_refl E0)).
    destruct (select_first (szn P ty) outs (repeat false (szn P ty), P0, E0)) as [[w ob] env].
    unfold mbind at 1. cbn [m_replace o_replace tops]. unfold ret. reflexivity.
  Qed.

  (* the same, spelt out: the arms before [a] do not match, [a] does *)
  Corollary tsem_match_first scrut pre_arms arm post_arms m ty E o sw E0 P0 pre a post :
    eB scrut E o = Ok ((sw, E0), P0) ->
    Forall keys_distinct E0 ->
    Forall2 (arm_evaluates (szn P ty) sw E0 P0) pre_arms pre ->
    arm_evaluates (szn P ty) sw E0 P0 arm a ->
    Forall2 (arm_evaluates (szn P ty) sw E0 P0) post_arms post ->
    Forall (fun b => ao_match b = false) pre -> ao_match a = true ->
    lower_expr_body tops P eB pB bB (Ex (EMatch scrut (pre_arms ++ arm :: post_arms)) m ty) E o =
      Ok ((firstn (szn P ty) (ao_bits a), ao_env a), ao_obs a).
  Proof.
    intros Hs Hd H1 H2 H3 Hn Hy.
    rewrite (tsem_match_selects scrut _ m ty E o sw E0 P0 (pre ++ a :: post) Hs Hd).
    - now rewrite select_first_match.
    - apply Forall2_app; [assumption|]. now constructor.
  Qed.
End Match.
Print Assumptions tsem_lower_arms.
Print Assumptions tsem_match_selects.
Print Assumptions tsem_match_first.

(* ------------------------------------------------------------------ (3) scalar patterns *)

(* the wires of a literal, on Booleans, are the encoding of the literal *)
Lemma N_to_bits_map k v :
  N_to_bits k v = map (fun i => N.testbit v (N.of_nat (k - 1 - i))) (seq 0 k).
Proof.
  induction k as [|k IH]; [reflexivity|].
  cbn [N_to_bits]. rewrite <- cons_seq, <- seq_shift, map_cons, map_map.
  replace (S k - 1 - 0)%nat with k by lia. f_equal. rewrite IH. apply map_ext. intro i.
  replace (S k - 1 - S i)%nat with (k - 1 - i)%nat by lia. reflexivity.
Qed.

Lemma tsem_unsigned_as_wires n k : unsigned_as_wires tops n k = enc k (Z.of_N n).
Proof.
  apply enc_unique.
  - unfold unsigned_as_wires. now rewrite map_length, seq_length.
  - assert (unsigned_as_wires tops n k = N_to_bits k n) as ->.
    { rewrite N_to_bits_map. unfold unsigned_as_wires. apply map_ext. intro i.
      change (wT tops) with true. change (wF tops) with false.
      now destruct (N.testbit n (N.of_nat (k - 1 - i))). }
    unfold uval. rewrite bits_to_N_N_to_bits. rewrite N2Z.inj_mod, pow2_N_Z, nat_N_Z. reflexivity.
Qed.

Lemma tsem_signed_as_wires z k : signed_as_wires tops z k = enc k z.
Proof.
  unfold enc. rewrite N_to_bits_map. unfold signed_as_wires. apply map_ext_in. intros i Hi.
  apply in_seq in Hi. change (wT tops) with true. change (wF tops) with false.
  assert (0 < 2 ^ Z.of_nat k)%Z as Hp by (apply Z.pow_pos_nonneg; lia).
  pose proof (Z.mod_pos_bound z _ Hp) as Hb.
  assert (N.testbit (Z.to_N (z mod 2 ^ Z.of_nat k)) (N.of_nat (k - 1 - i)) =
          Z.testbit z (Z.of_nat (k - 1 - i))) as ->.
  { rewrite <- Z.testbit_of_N. rewrite Z2N.id by lia. rewrite nat_N_Z.
    apply Z.mod_pow2_bits_low. lia. }
  now destruct (Z.testbit z (Z.of_nat (k - 1 - i))).
Qed.

(* reading an encoding of an in-range integer gives the integer back *)
Lemma in_range_signed_width k z : Sem.in_range true (N.of_nat k) z = true -> (1 <= k)%nat.
Proof.
  destruct k as [|k]; [|lia]. unfold Sem.in_range. cbn [N.of_nat Z.of_N Z.sub Z.opp Z.add Z.pow Z.pow_pos].
  change (2 ^ (0 - 1))%Z with 0%Z. destruct (Z.leb_spec (- 0) z); destruct (Z.ltb_spec z 0); cbn [andb]; try discriminate; lia.
Qed.

Lemma int_val_enc sg k z : Sem.in_range sg (N.of_nat k) z = true -> int_val sg (enc k z) = z.
Proof.
  intro Hr. destruct sg; cbn [int_val].
  - apply (sval_enc_in_range k z); [now apply (in_range_signed_width k z)|exact Hr].
  - now apply (uval_enc_in_range k z).
Qed.

(* bit-vector equality with the encoding of an in-range literal is equality of the readings *)
Lemma eq_s_enc_int_val sg k z mw : length mw = k -> Sem.in_range sg (N.of_nat k) z = true ->
  eq_s (enc k z) mw = (int_val sg mw =? z)%Z.
Proof.
  intros Hl Hr. pose proof (int_val_enc sg k z Hr) as Hv.
  assert (Hle : length (enc k z) = length mw) by (now rewrite length_enc).
  rewrite Z.eqb_sym. rewrite <- Hv at 2. destruct sg; cbn [int_val].
  - apply eq_s_sval; [|exact Hle]. apply in_range_signed_width in Hr. intro Hn.
    pose proof (length_enc k z) as L. rewrite Hn in L. cbn [length] in L. lia.
  - now apply eq_s_uval.
Qed.

Lemma cmp_s_int_val sg x y : length x = length y ->
  cmp_s (length x) x sg y sg = ((int_val sg x <? int_val sg y)%Z, (int_val sg y <? int_val sg x)%Z).
Proof.
  intro Hl. destruct sg; cbn [int_val].
  - now apply cmp_s_signed.
  - now apply cmp_s_unsigned.
Qed.

(* whether the source semantics says the pattern matches the value *)
Definition pmatches (P : program) (p : pattern) (v : Sem.value) : bool :=
  match Sem.pmatch P p v with Some _ => true | None => false end.

Section ScalarPatterns.
  Variable P : program.
  Variable pB : pattern -> list bool -> @cenv bool -> pobs -> res ((bool * @cenv bool) * pobs).

  (* an identifier always matches and binds the scrutinee in the current scope *)
  Theorem tsem_pat_id x m t mw E o E1 :
    env_let E x mw = Ok E1 ->
    lower_pattern_body tops P pB (Pat (PId x) m t) mw E o = Ok ((true, E1), o).
  Proof.
    intro H. cbn [lower_pattern_body]. unfold mbind. rewrite H. cbn [lift_res]. reflexivity.
  Qed.

  Theorem tsem_pat_id_pmatch x m t v : pmatches P (Pat (PId x) m t) v = true.
  Proof. reflexivity. Qed.

  Theorem tsem_pat_true m t b E o :
    lower_pattern_body tops P pB (Pat PTrue m t) [b] E o =
      Ok ((pmatches P (Pat PTrue m t) (Sem.VBool b), E), o).
  Proof. destruct b; reflexivity. Qed.

  Theorem tsem_pat_false m t b E o :
    lower_pattern_body tops P pB (Pat PFalse m t) [b] E o =
      Ok ((pmatches P (Pat PFalse m t) (Sem.VBool b), E), o).
  Proof. destruct b; reflexivity. Qed.

  (* the match bit of a numeric literal pattern, as bit-vector equality with the encoding
     of the literal (no hypothesis on the literal) *)
  Lemma tsem_eq_match_enc z t mw (E : @cenv bool) (o : pobs) (lit : list bool) : length mw = szn P t ->
    lit = enc (szn P t) z ->
    (if (length mw <? szn P t)%nat then crash
     else mbind (eq_acc tops (wT tops) (combine lit (firstn (szn P t) mw))) (fun acc => ret (acc, E))) o =
    Ok ((eq_s (enc (szn P t) z) mw, E), o).
  Proof.
    intros Hl ->. destruct (Nat.ltb_spec (length mw) (szn P t)) as [Hlt|_]; [lia|].
    rewrite <- Hl, firstn_all. unfold mbind. change (wT tops) with true.
    rewrite eq_acc_eq_s by (now rewrite length_enc). reflexivity.
  Qed.

  (* numeric literals: equality of the decoded scrutinee with the literal, signed or unsigned
     according to the type of the pattern; the literal must be a value of that type *)
  Theorem tsem_pat_numU n m t mw E o : length mw = szn P t ->
    Sem.in_range (is_signed t) (N.of_nat (szn P t)) (Z.of_N n) = true ->
    lower_pattern_body tops P pB (Pat (PNumU n) m t) mw E o =
      Ok (((int_val (is_signed t) mw =? Z.of_N n)%Z, E), o).
  Proof.
    intros Hl Hr. cbn [lower_pattern_body].
    rewrite (tsem_eq_match_enc (Z.of_N n) t mw E o _ Hl (tsem_unsigned_as_wires n (szn P t))).
    now rewrite (eq_s_enc_int_val (is_signed t) (szn P t) (Z.of_N n) mw Hl Hr).
  Qed.

  Theorem tsem_pat_numS z m t mw E o : length mw = szn P t ->
    Sem.in_range (is_signed t) (N.of_nat (szn P t)) z = true ->
    lower_pattern_body tops P pB (Pat (PNumS z) m t) mw E o =
      Ok (((int_val (is_signed t) mw =? z)%Z, E), o).
  Proof.
    intros Hl Hr. cbn [lower_pattern_body].
    rewrite (tsem_eq_match_enc z t mw E o _ Hl (tsem_signed_as_wires z (szn P t))).
    now rewrite (eq_s_enc_int_val (is_signed t) (szn P t) z mw Hl Hr).
  Qed.

  (* ranges (both ends inclusive): lo <= v <= hi on the decoded scrutinee *)
  Lemma tsem_range_match lo hi t mw (E : @cenv bool) (o : pobs) (lw hw : list bool) : length mw = szn P t ->
    lw = enc (szn P t) lo -> hw = enc (szn P t) hi ->
    Sem.in_range (is_signed t) (N.of_nat (szn P t)) lo = true ->
    Sem.in_range (is_signed t) (N.of_nat (szn P t)) hi = true ->
    mbind (o_comparator tops (szn P t) mw (is_signed t) lw (is_signed t)) (fun '(lt_min, _) =>
    mbind (o_comparator tops (szn P t) mw (is_signed t) hw (is_signed t)) (fun '(_, gt_max) =>
    mbind (m_not tops lt_min) (fun a =>
    mbind (m_not tops gt_max) (fun c =>
    mbind (m_and tops a c) (fun r => ret (r, E)))))) o =
    Ok (((lo <=? int_val (is_signed t) mw)%Z && (int_val (is_signed t) mw <=? hi)%Z, E), o).
  Proof.
    intros Hl -> -> Hlo Hhi. rewrite <- Hl.
    unfold mbind at 1. rewrite comparator_same_length by (now rewrite length_enc).
    rewrite cmp_s_int_val by (now rewrite length_enc).
    unfold mbind at 1. rewrite comparator_same_length by (now rewrite length_enc).
    rewrite cmp_s_int_val by (now rewrite length_enc).
    rewrite Hl, (int_val_enc _ _ _ Hlo), (int_val_enc _ _ _ Hhi).
    unfold mbind, m_not, m_and, ret. cbn [o_not o_and tops]. unfold tret.
    now rewrite !Z.leb_antisym.
  Qed.

  Theorem tsem_pat_urange lo hi m t mw E o : length mw = szn P t ->
    Sem.in_range (is_signed t) (N.of_nat (szn P t)) (Z.of_N lo) = true ->
    Sem.in_range (is_signed t) (N.of_nat (szn P t)) (Z.of_N hi) = true ->
    lower_pattern_body tops P pB (Pat (PURange lo hi) m t) mw E o =
      Ok (((Z.of_N lo <=? int_val (is_signed t) mw)%Z && (int_val (is_signed t) mw <=? Z.of_N hi)%Z, E), o).
  Proof.
    intros Hl Hlo Hhi. cbn [lower_pattern_body].
    exact (tsem_range_match (Z.of_N lo) (Z.of_N hi) t mw E o _ _ Hl
             (tsem_unsigned_as_wires lo (szn P t)) (tsem_unsigned_as_wires hi (szn P t)) Hlo Hhi).
  Qed.

  Theorem tsem_pat_srange lo hi m t mw E o : length mw = szn P t ->
    Sem.in_range (is_signed t) (N.of_nat (szn P t)) lo = true ->
    Sem.in_range (is_signed t) (N.of_nat (szn P t)) hi = true ->
    lower_pattern_body tops P pB (Pat (PSRange lo hi) m t) mw E o =
      Ok (((lo <=? int_val (is_signed t) mw)%Z && (int_val (is_signed t) mw <=? hi)%Z, E), o).
  Proof.
    intros Hl Hlo Hhi. cbn [lower_pattern_body].
    exact (tsem_range_match lo hi t mw E o _ _ Hl
             (tsem_signed_as_wires lo (szn P t)) (tsem_signed_as_wires hi (szn P t)) Hlo Hhi).
  Qed.

  (* the same four, against the source semantics: the match bit is [Sem.pmatch] on the
     integer the scrutinee encodes *)
  Lemma pmatches_numU n m t z : pmatches P (Pat (PNumU n) m t) (Sem.VInt z) = (z =? Z.of_N n)%Z.
  Proof. unfold pmatches. cbn [Sem.pmatch]. now destruct (z =? Z.of_N n)%Z. Qed.
  Lemma pmatches_numS n m t z : pmatches P (Pat (PNumS n) m t) (Sem.VInt z) = (z =? n)%Z.
  Proof. unfold pmatches. cbn [Sem.pmatch]. now destruct (z =? n)%Z. Qed.
  Lemma pmatches_urange lo hi m t z :
    pmatches P (Pat (PURange lo hi) m t) (Sem.VInt z) = ((Z.of_N lo <=? z) && (z <=? Z.of_N hi))%Z.
  Proof. unfold pmatches. cbn [Sem.pmatch]. now destruct ((Z.of_N lo <=? z) && (z <=? Z.of_N hi))%Z. Qed.
  Lemma pmatches_srange lo hi m t z :
    pmatches P (Pat (PSRange lo hi) m t) (Sem.VInt z) = ((lo <=? z) && (z <=? hi))%Z.
  Proof. unfold pmatches. cbn [Sem.pmatch]. now destruct ((lo <=? z) && (z <=? hi))%Z. Qed.

  Corollary tsem_pat_numU_pmatch n m t mw E o : length mw = szn P t ->
    Sem.in_range (is_signed t) (N.of_nat (szn P t)) (Z.of_N n) = true ->
    lower_pattern_body tops P pB (Pat (PNumU n) m t) mw E o =
      Ok ((pmatches P (Pat (PNumU n) m t) (Sem.VInt (int_val (is_signed t) mw)), E), o).
  Proof. intros. rewrite pmatches_numU. now apply tsem_pat_numU. Qed.

  Corollary tsem_pat_numS_pmatch z m t mw E o : length mw = szn P t ->
    Sem.in_range (is_signed t) (N.of_nat (szn P t)) z = true ->
    lower_pattern_body tops P pB (Pat (PNumS z) m t) mw E o =
      Ok ((pmatches P (Pat (PNumS z) m t) (Sem.VInt (int_val (is_signed t) mw)), E), o).
  Proof. intros. rewrite pmatches_numS. now apply tsem_pat_numS. Qed.

  Corollary tsem_pat_urange_pmatch lo hi m t mw E o : length mw = szn P t ->
    Sem.in_range (is_signed t) (N.of_nat (szn P t)) (Z.of_N lo) = true ->
    Sem.in_range (is_signed t) (N.of_nat (szn P t)) (Z.of_N hi) = true ->
    lower_pattern_body tops P pB (Pat (PURange lo hi) m t) mw E o =
      Ok ((pmatches P (Pat (PURange lo hi) m t) (Sem.VInt (int_val (is_signed t) mw)), E), o).
  Proof. intros. rewrite pmatches_urange. now apply tsem_pat_urange. Qed.

  Corollary tsem_pat_srange_pmatch lo hi m t mw E o : length mw = szn P t ->
    Sem.in_range (is_signed t) (N.of_nat (szn P t)) lo = true ->
    Sem.in_range (is_signed t) (N.of_nat (szn P t)) hi = true ->
    lower_pattern_body tops P pB (Pat (PSRange lo hi) m t) mw E o =
      Ok ((pmatches P (Pat (PSRange lo hi) m t) (Sem.VInt (int_val (is_signed t) mw)), E), o).
  Proof. intros. rewrite pmatches_srange. now apply tsem_pat_srange. Qed.
End ScalarPatterns.
Print Assumptions tsem_pat_id.
Print Assumptions tsem_pat_true.
Print Assumptions tsem_pat_false.
Print Assumptions tsem_pat_numU.
Print Assumptions tsem_pat_numS.
Print Assumptions tsem_pat_urange.
Print Assumptions tsem_pat_srange.
Print Assumptions tsem_pat_numU_pmatch.
Print Assumptions tsem_pat_numS_pmatch.
Print Assumptions tsem_pat_urange_pmatch.
Print Assumptions tsem_pat_srange_pmatch.

Lemma pmatches_true P m t b : pmatches P (Pat PTrue m t) (Sem.VBool b) = b.
Proof. now destruct b. Qed.
Lemma pmatches_false P m t b : pmatches P (Pat PFalse m t) (Sem.VBool b) = negb b.
Proof. now destruct b. Qed.

(* ------------------------------------------------------------------ (4) tuple patterns *)

Section Fields.
  Variable P : program.
  Variable pB : pattern -> list bool -> @cenv bool -> pobs -> res ((bool * @cenv bool) * pobs).

  (* the sub-patterns [ps] (each with its width) are matched, left to right, against the
     consecutive slices of [mw] starting at offset [w]; environment and observation are
     threaded; [ms] collects the match bits *)
  Inductive fields_eval (mw : list bool) :
    list (pattern * nat) -> nat -> @cenv bool -> pobs -> list bool -> @cenv bool -> pobs -> Prop :=
  | FE_nil w E o : fields_eval mw [] w E o [] E o
  | FE_cons fp fbits r w E o fm E1 o1 ms E' o' :
      (w + fbits <= length mw)%nat ->
      pB fp (firstn fbits (skipn w mw)) E o = Ok ((fm, E1), o1) ->
      fields_eval mw r (w + fbits) E1 o1 ms E' o' ->
      fields_eval mw ((fp, fbits) :: r) w E o (fm :: ms) E' o'.

  Lemma fold_andb_forallb ms : forall acc, fold_left andb ms acc = acc && forallb (fun b => b) ms.
  Proof.
    induction ms as [|b ms IH]; intro acc; cbn [fold_left forallb]; [now rewrite andb_true_r|].
    now rewrite IH, andb_assoc.
  Qed.

  Theorem tsem_fields_match mw ps w E o ms E' o' :
    fields_eval mw ps w E o ms E' o' ->
    forall acc,
    fields_match tops pB mw ps w acc E o = Ok ((acc && forallb (fun b => b) ms, E'), o').
  Proof.
    induction 1 as [w E o|fp fbits r w E o fm E1 o1 ms E' o' Hle Hp _ IH]; intro acc.
    - cbn [fields_match forallb]. unfold ret. now rewrite andb_true_r.
    - cbn [fields_match]. unfold mbind at 1. unfold slice.
      destruct (Nat.leb_spec (w + fbits) (length mw)) as [_|Hgt]; [|lia]. cbn [lift_res].
      unfold mbind at 1. rewrite Hp.
      unfold mbind at 1. cbn [m_and o_and tops]. unfold tret at 1.
      rewrite IH. cbn [forallb]. now rewrite andb_assoc.
  Qed.

  (* a tuple pattern: the fields are laid out consecutively, each with the width of the type
     of its sub-pattern; the pattern matches iff every field does *)
  Theorem tsem_pat_tuple ps m t mw E o ms E' o' :
    fields_eval mw (map (fun fp => (fp, szn P (p_ty fp))) ps) 0 E o ms E' o' ->
    lower_pattern_body tops P pB (Pat (PTup ps) m t) mw E o =
      Ok ((forallb (fun b => b) ms, E'), o').
  Proof.
    intro H. cbn [lower_pattern_body]. change (wT tops) with true.
    now rewrite (tsem_fields_match _ _ _ _ _ _ _ _ H true).
  Qed.

  (* two fields, spelt out *)
  Corollary tsem_pat_pair p1 p2 m t mw E o m1 E1 o1 m2 E2 o2 :
    let n1 := szn P (p_ty p1) in let n2 := szn P (p_ty p2) in
    (n1 + n2 <= length mw)%nat ->
    pB p1 (firstn n1 mw) E o = Ok ((m1, E1), o1) ->
    pB p2 (firstn n2 (skipn n1 mw)) E1 o1 = Ok ((m2, E2), o2) ->
    lower_pattern_body tops P pB (Pat (PTup [p1; p2]) m t) mw E o = Ok ((m1 && m2, E2), o2).
  Proof.
    intros n1 n2 Hl H1 H2.
    rewrite (tsem_pat_tuple [p1; p2] m t mw E o [m1; m2] E2 o2).
    - cbn [forallb]. now rewrite andb_true_r.
    - cbn [map]. econstructor; [fold n1; lia|exact H1|].
      econstructor; [fold n1 n2; cbn [Nat.add]; lia|exact H2|]. constructor.
  Qed.
End Fields.
Print Assumptions tsem_fields_match.
Print Assumptions tsem_pat_tuple.
Print Assumptions tsem_pat_pair.

(* ------------------------------------------------------------------ (5) blocks and statements *)

Section Blocks.
  Variable sB : stmt -> @cenv bool -> pobs -> res ((list bool * @cenv bool) * pobs).

  (* the statements run in order, environment and observation threaded; the value is that of
     the last statement ([last] if there is none) *)
  Inductive stmts_eval : list stmt -> list bool -> @cenv bool -> pobs ->
                         list bool -> @cenv bool -> pobs -> Prop :=
  | SE_nil last E o : stmts_eval [] last E o last E o
  | SE_cons s r last E o w E1 o1 w' E' o' :
      sB s E o = Ok ((w, E1), o1) ->
      stmts_eval r w E1 o1 w' E' o' ->
      stmts_eval (s :: r) last E o w' E' o'.

  Theorem tsem_block_stmts ss last E o w' E' o' :
    stmts_eval ss last E o w' E' o' ->
    block_stmts (Cs:=pobs) sB ss last E o = Ok ((w', E'), o').
  Proof.
    induction 1 as [last E o|s r last E o w E1 o1 w' E' o' Hs _ IH].
    - reflexivity.
    - cbn [block_stmts]. unfold mbind at 1. rewrite Hs. exact IH.
  Qed.

  (* a block: a scope is pushed, the statements run, the scope is popped *)
  Theorem tsem_block ss E o w E1 o1 E2 :
    stmts_eval ss [] (env_push E) o w E1 o1 ->
    env_pop E1 = Ok E2 ->
    lower_block_body (Cs:=pobs) sB ss E o = Ok ((w, E2), o1).
  Proof.
    intros Hs Hp. unfold lower_block_body. unfold mbind at 1.
    rewrite (tsem_block_stmts _ _ _ _ _ _ _ Hs). unfold mbind at 1. rewrite Hp. reflexivity.
  Qed.

  (* the empty block is the unit value and changes nothing *)
  Corollary tsem_block_empty E o : lower_block_body (Cs:=pobs) sB [] E o = Ok (([], E), o).
  Proof. apply (tsem_block [] E o [] (env_push E) o E); [constructor|reflexivity]. Qed.
End Blocks.
Print Assumptions tsem_block_stmts.
Print Assumptions tsem_block.
Print Assumptions tsem_block_empty.

Section Statements.
  Variable P : program.
  Variable eB : expr -> @cenv bool -> pobs -> res ((list bool * @cenv bool) * pobs).
  Variable pB : pattern -> list bool -> @cenv bool -> pobs -> res ((bool * @cenv bool) * pobs).
  Variable sB : stmt -> @cenv bool -> pobs -> res ((list bool * @cenv bool) * pobs).

  (* let pat = e: the pattern is matched against the wires of e in the CURRENT scope; the
     match bit is dropped (the pattern is irrefutable) *)
  Theorem tsem_let pat e m E o w E1 o1 b E2 o2 :
    eB e E o = Ok ((w, E1), o1) ->
    pB pat w E1 o1 = Ok ((b, E2), o2) ->
    lower_stmt_body tops P eB pB sB (St (SLet pat e) m) E o = Ok (([], E2), o2).
  Proof.
    intros He Hp. cbn [lower_stmt_body]. unfold mbind at 1. rewrite He.
    unfold mbind at 1. rewrite Hp. reflexivity.
  Qed.

  (* let mut x = e: binds x to the wires of e in the current scope *)
  Theorem tsem_let_mut x e m E o w E1 o1 E2 :
    eB e E o = Ok ((w, E1), o1) ->
    env_let E1 x w = Ok E2 ->
    lower_stmt_body tops P eB pB sB (St (SLetMut x e) m) E o = Ok (([], E2), o1).
  Proof.
    intros He Hl. cbn [lower_stmt_body]. unfold mbind at 1. rewrite He.
    unfold mbind at 1. rewrite Hl. reflexivity.
  Qed.

  (* an expression statement is the expression *)
  Theorem tsem_expr_stmt e m E o :
    lower_stmt_body tops P eB pB sB (St (SExpr e) m) E o = eB e E o.
  Proof. reflexivity. Qed.
End Statements.
Print Assumptions tsem_let.
Print Assumptions tsem_let_mut.
Print Assumptions tsem_expr_stmt.

(* let x = e with the knot tied (the fixpoints on fuel of Lower.v): exactly `let mut x = e` *)
Theorem tsem_let_id fuel P x mp tp e m E o w E1 o1 E2 :
  lower_expr tops (S fuel) P e E o = Ok ((w, E1), o1) ->
  env_let E1 x w = Ok E2 ->
  lower_stmt tops (S (S fuel)) P (St (SLet (Pat (PId x) mp tp) e) m) E o = Ok (([], E2), o1).
Proof.
  intros He Hl.
  change (lower_stmt tops (S (S fuel)) P (St (SLet (Pat (PId x) mp tp) e) m) E o)
    with (lower_stmt_body tops P (lower_expr tops (S fuel) P) (lower_pattern tops (S fuel) P)
            (lower_stmt tops (S fuel) P) (St (SLet (Pat (PId x) mp tp) e) m) E o).
  apply (tsem_let P _ _ _ _ e m E o w E1 o1 true E2 o1 He).
  change (lower_pattern tops (S fuel) P (Pat (PId x) mp tp) w E1 o1)
    with (lower_pattern_body tops P (lower_pattern tops fuel P) (Pat (PId x) mp tp) w E1 o1).
  now apply tsem_pat_id.
Qed.
Print Assumptions tsem_let_id.

Theorem tsem_let_mut_fuel fuel P x e m E o w E1 o1 E2 :
  lower_expr tops fuel P e E o = Ok ((w, E1), o1) ->
  env_let E1 x w = Ok E2 ->
  lower_stmt tops (S fuel) P (St (SLetMut x e) m) E o = Ok (([], E2), o1).
Proof.
  intros He Hl.
  change (lower_stmt tops (S fuel) P (St (SLetMut x e) m) E o)
    with (lower_stmt_body tops P (lower_expr tops fuel P) (lower_pattern tops fuel P)
            (lower_stmt tops fuel P) (St (SLetMut x e) m) E o).
  now apply (tsem_let_mut P _ _ _ x e m E o w E1 o1 E2).
Qed.
Print Assumptions tsem_let_mut_fuel.
