(* STICKINESS of the bit-level semantics, for the WHOLE language: any run of
   lower_expr / lower_block / lower_stmt / lower_pattern on Booleans ([TSem.tops]) that starts
   from a recorded panic [Some x] and returns [Ok] ends in the same [Some x].  No typing
   hypothesis, no fragment: every change of the observation goes through [o_panic_if]
   (= [push_spec], first failure wins) or through the peek / replace / mux_panic protocol of
   branches, which only ever stores and selects observations that are [Some x] themselves. *)
From GV Require Import Base.Util Lang.Ast Gadgets.Gadgets Gadgets.GadgetSpec Sort.Sort
  Panic.PanicRec Panic.PanicSem Compile.Lower Compile.TSem.
From GV Require Lang.Sem.
Local Open Scope N_scope.

Definition MB (A : Type) := pobs -> res (A * pobs).

(* from [Some x], an Ok run ends in [Some x] *)
Definition stkx {A} (x : N * ploc) (m : MB A) : Prop :=
  forall a o', m (Some x) = Ok (a, o') -> o' = Some x.

(* the observation is not touched *)
Definition pure_m {A} (m : MB A) : Prop := forall o a o', m o = Ok (a, o') -> o' = o.

Lemma stkx_pure {A} x (m : MB A) : pure_m m -> stkx x m.
Proof. intros H a o' Hr. exact (H _ _ _ Hr). Qed.

Lemma stkx_ret {A} x (a : A) : stkx x (ret a).
Proof. intros b o' [= _ <-]. reflexivity. Qed.

Lemma stkx_crash {A} x : stkx x (@crash pobs A).
Proof. intros a o' H. discriminate H. Qed.

Lemma stkx_nofuel {A} x : stkx x (@nofuel pobs A).
Proof. intros a o' H. discriminate H. Qed.

Lemma stkx_lift {A} x (r : res A) : stkx x (lift_res r).
Proof. intros a o' H. destruct r; inversion H. reflexivity. Qed.

Lemma stkx_bind {A B} x (m : MB A) (k : A -> MB B) :
  stkx x m -> (forall a, stkx x (k a)) -> stkx x (mbind m k).
Proof.
  intros Hm Hk b o' H. unfold mbind in H.
  destruct (m (Some x)) as [[a o1]| |] eqn:Em; try discriminate H.
  rewrite (Hm a o1 Em) in H. exact (Hk a b o' H).
Qed.

Lemma stkx_panic_if x c r m : stkx x (m_panic_if tops c r m).
Proof. intros a o' [= _ <-]. reflexivity. Qed.

(* the panic protocol: at state [Some x] *)
Lemma stkx_peek {B} x (k : pobs -> MB B) : stkx x (k (Some x)) -> stkx x (mbind (m_peek tops) k).
Proof. intros H b o' Hr. exact (H b o' Hr). Qed.

Lemma stkx_replace {B} x (k : pobs -> MB B) :
  stkx x (k (Some x)) -> stkx x (mbind (m_replace tops (Some x)) k).
Proof. intros H b o' Hr. exact (H b o' Hr). Qed.

Lemma stkx_mux_panic {B} x c (k : pobs -> MB B) :
  stkx x (k (Some x)) -> stkx x (mbind (m_mux_panic tops c (Some x) (Some x)) k).
Proof. intros H b o' Hr. destruct c; exact (H b o' Hr). Qed.

(* the primitive operations that do not touch the observation *)
Lemma pure_tret {A} (a : A) : pure_m (tret a).
Proof. intros o b o' [= _ <-]. reflexivity. Qed.

Ltac pure_prim :=
  let o := fresh "o" in let a := fresh "a" in let o' := fresh "o'" in let H := fresh "H" in
  intros o a o' H; cbn in H;
  repeat match type of H with
  | (if ?c then _ else _) = _ => destruct c
  end; inversion H; reflexivity.

Lemma pure_xor a b : pure_m (m_xor tops a b). Proof. pure_prim. Qed.
Lemma pure_and a b : pure_m (m_and tops a b). Proof. pure_prim. Qed.
Lemma pure_or a b : pure_m (m_or tops a b). Proof. pure_prim. Qed.
Lemma pure_eq a b : pure_m (m_eq tops a b). Proof. pure_prim. Qed.
Lemma pure_not a : pure_m (m_not tops a). Proof. pure_prim. Qed.
Lemma pure_mux s a b : pure_m (m_mux tops s a b). Proof. pure_prim. Qed.
Lemma pure_negation a : pure_m (o_negation tops a). Proof. pure_prim. Qed.
Lemma pure_addition a b : pure_m (o_addition tops a b). Proof. pure_prim. Qed.
Lemma pure_subtraction a b s : pure_m (o_subtraction tops a b s). Proof. pure_prim. Qed.
Lemma pure_multiplier a b c d : pure_m (o_multiplier tops a b c d). Proof. pure_prim. Qed.
Lemma pure_udiv a b : pure_m (o_udiv tops a b). Proof. pure_prim. Qed.
Lemma pure_sdiv a b : pure_m (o_sdiv tops a b). Proof. pure_prim. Qed.
Lemma pure_comparator n a sa b sb : pure_m (o_comparator tops n a sa b sb). Proof. pure_prim. Qed.
Lemma pure_eq_circuit a b : pure_m (o_eq_circuit tops a b). Proof. pure_prim. Qed.
Lemma pure_merger n asc v : pure_m (o_merger tops n asc v). Proof. pure_prim. Qed.
Lemma pure_sorter n v : pure_m (o_sorter tops n v). Proof. pure_prim. Qed.

(* the tactic: decompose a computation along binds, matches and conditionals; leaves are
   primitives, recursive calls (hypotheses) or previously proved helpers (hint database) *)
Create HintDb stk discriminated.
#[export] Hint Resolve stkx_ret stkx_crash stkx_nofuel stkx_lift stkx_panic_if : stk.
#[export] Hint Extern 1 (stkx _ (m_xor tops _ _)) => apply stkx_pure, pure_xor : stk.
#[export] Hint Extern 1 (stkx _ (m_and tops _ _)) => apply stkx_pure, pure_and : stk.
#[export] Hint Extern 1 (stkx _ (m_or tops _ _)) => apply stkx_pure, pure_or : stk.
#[export] Hint Extern 1 (stkx _ (m_eq tops _ _)) => apply stkx_pure, pure_eq : stk.
#[export] Hint Extern 1 (stkx _ (m_not tops _)) => apply stkx_pure, pure_not : stk.
#[export] Hint Extern 1 (stkx _ (m_mux tops _ _ _)) => apply stkx_pure, pure_mux : stk.
#[export] Hint Extern 1 (stkx _ (o_negation tops _)) => apply stkx_pure, pure_negation : stk.
#[export] Hint Extern 1 (stkx _ (o_addition tops _ _)) => apply stkx_pure, pure_addition : stk.
#[export] Hint Extern 1 (stkx _ (o_subtraction tops _ _ _)) => apply stkx_pure, pure_subtraction : stk.
#[export] Hint Extern 1 (stkx _ (o_multiplier tops _ _ _ _)) => apply stkx_pure, pure_multiplier : stk.
#[export] Hint Extern 1 (stkx _ (o_udiv tops _ _)) => apply stkx_pure, pure_udiv : stk.
#[export] Hint Extern 1 (stkx _ (o_sdiv tops _ _)) => apply stkx_pure, pure_sdiv : stk.
#[export] Hint Extern 1 (stkx _ (o_comparator tops _ _ _ _ _)) => apply stkx_pure, pure_comparator : stk.
#[export] Hint Extern 1 (stkx _ (o_eq_circuit tops _ _)) => apply stkx_pure, pure_eq_circuit : stk.
#[export] Hint Extern 1 (stkx _ (o_merger tops _ _ _)) => apply stkx_pure, pure_merger : stk.
#[export] Hint Extern 1 (stkx _ (o_sorter tops _ _)) => apply stkx_pure, pure_sorter : stk.

Ltac stk_step :=
  match goal with
  | |- stkx _ (mbind _ _) => apply stkx_bind; [|intros ?]
  | |- stkx _ (match ?d with _ => _ end) => destruct d
  | |- stkx _ (fun _ => _) => fail 1
  | |- stkx _ _ => solve [eauto with stk]
  end.
Ltac stk := repeat stk_step.

#[export] Hint Extern 1 (stkx _ (m_extend tops _ _ _)) => unfold m_extend; apply stkx_lift : stk.

Section Helpers.
  Variable x : N * ploc.

  Lemma stkx_mapM {A C} (f : A -> MB C) l : (forall a, stkx x (f a)) -> stkx x (mapM_M f l).
  Proof. intro Hf. induction l as [|a r IH]; cbn [mapM_M]; stk. Qed.

  Lemma stkx_map2 (f : bool -> bool -> MB bool) : (forall a b, stkx x (f a b)) ->
    forall xs ys, stkx x (map2_M f xs ys).
  Proof. intro Hf. induction xs as [|a r IH]; intros [|b ys]; cbn [map2_M]; stk. Qed.

  Lemma stkx_map2_mux c xs ys : stkx x (map2_M (m_mux tops c) xs ys).
  Proof. apply stkx_map2. intros. stk. Qed.

  Lemma stkx_mux_bits c xs ys : stkx x (mux_bits tops c xs ys).
  Proof. unfold mux_bits. destruct (negb _); [stk|apply stkx_map2_mux]. Qed.
  Hint Resolve stkx_mux_bits : stk.

  Lemma stkx_mux_scope c b : forall a, stkx x (mux_scope tops c a b).
  Proof. induction a as [|[k va] r IH]; cbn [mux_scope]; stk. Qed.
  Hint Resolve stkx_mux_scope : stk.

  Lemma stkx_mux_scopes c : forall sa sb, stkx x (mux_scopes tops c sa sb).
  Proof. induction sa as [|a ra IH]; intros [|b rb]; cbn [mux_scopes]; stk. Qed.
  Hint Resolve stkx_mux_scopes : stk.

  Lemma stkx_mux_envs c a b : stkx x (mux_envs tops c a b).
  Proof. unfold mux_envs. stk. Qed.

  Lemma stkx_index_layer s eb : forall fuel arr, stkx x (index_layer tops fuel s arr eb).
  Proof.
    induction fuel as [|f IH]; intro arr; cbn [index_layer]; [stk|].
    destruct arr as [|a0 ar]; [stk|]. destruct (skipn eb (a0 :: ar)) as [|b0 br].
    - apply stkx_mapM. intros. stk.
    - apply stkx_bind; [apply stkx_map2; intros; stk|intros ?]. stk.
  Qed.
  Hint Resolve stkx_index_layer : stk.

  Lemma stkx_index_layers eb : forall idx arr, stkx x (index_layers tops idx arr eb).
  Proof. induction idx as [|s r IH]; intro arr; cbn [index_layers]; stk. Qed.
  Hint Resolve stkx_index_layers : stk.

  Lemma stkx_bounds_check idx n m : stkx x (bounds_check tops idx n m).
  Proof. unfold bounds_check. stk. Qed.
  Hint Resolve stkx_bounds_check : stk.

  Lemma stkx_array_read arr idx eb n m : stkx x (array_read tops arr idx eb n m).
  Proof. unfold array_read. stk. Qed.

  Lemma stkx_write_chain x0 i : forall index neg x1, stkx x (write_chain tops x0 x1 i index neg).
  Proof. induction index as [|ix ir IH]; intros [|nx nr] x1; cbn [write_chain]; stk. Qed.
  Hint Resolve stkx_write_chain : stk.

  Lemma stkx_write_elem i index neg : forall elem value, stkx x (write_elem tops elem value i index neg).
  Proof. induction elem as [|x0 er IH]; intros [|v vr]; cbn [write_elem]; stk. Qed.
  Hint Resolve stkx_write_elem : stk.

  Lemma stkx_write_elems eb value index neg : forall fuel arr i,
    stkx x (write_elems tops fuel arr eb value i index neg).
  Proof.
    induction fuel as [|f IH]; intros arr i; cbn [write_elems]; [stk|].
    destruct (length arr <? eb)%nat; [stk|]. destruct arr; stk.
  Qed.
  Hint Resolve stkx_write_elems : stk.

  Lemma stkx_array_write arr eb size idx value m : stkx x (array_write tops arr eb size idx value m).
  Proof.
    unfold array_write. apply stkx_bind; [stk|intros ?].
    apply stkx_bind; [apply stkx_mapM; intros; stk|intros ?]. stk.
  Qed.

  Lemma stkx_shift_layers left fill : forall y_rev v sh, stkx x (shift_layers tops left fill v y_rev sh).
  Proof.
    induction y_rev as [|s r IH]; intros v sh; cbn [shift_layers]; [stk|].
    apply stkx_bind; [apply stkx_map2; intros; stk|intros ?]. apply IH.
  Qed.
  Hint Resolve stkx_shift_layers : stk.

  Lemma stkx_or_all : forall ws acc, stkx x (or_all_M tops acc ws).
  Proof. induction ws as [|w r IH]; intro acc; cbn [or_all_M]; stk. Qed.
  Hint Resolve stkx_or_all : stk.

  Lemma stkx_eq_acc : forall xys acc, stkx x (eq_acc tops acc xys).
  Proof. induction xys as [|[a b] r IH]; intro acc; cbn [eq_acc]; stk. Qed.
  Hint Resolve stkx_eq_acc : stk.

  Lemma stkx_mul_row xi : forall yzs carry acc, stkx x (mul_row tops xi yzs carry acc).
  Proof. induction yzs as [|[yj z] r IH]; intros carry acc; cbn [mul_row]; stk. Qed.
  Hint Resolve stkx_mul_row : stk.

  Lemma stkx_mul_rows y : forall xs prev acc, stkx x (mul_rows tops xs y prev acc).
  Proof. induction xs as [|xi r IH]; intros prev acc; cbn [mul_rows]; stk. Qed.
  Hint Resolve stkx_mul_rows : stk.

  Lemma stkx_and_not_all : forall ws acc, stkx x (and_not_all tops acc ws).
  Proof. induction ws as [|w r IH]; intro acc; cbn [and_not_all]; stk. Qed.
  Hint Resolve stkx_and_not_all : stk.

  Lemma stkx_lower_mul sg a b m : stkx x (lower_mul tops sg a b m).
  Proof.
    unfold lower_mul.
    apply stkx_bind.
    { destruct sg; [|stk]. repeat (apply stkx_bind; [first [apply stkx_map2; intros; stk|stk]|intros ?]). stk. }
    intros [[? ?] ?]. apply stkx_bind; [stk|intros [? ?]]. apply stkx_bind; [stk|intros [? ?]].
    apply stkx_bind; [stk|intros ?].
    apply stkx_bind.
    { destruct sg; [|stk]. repeat (apply stkx_bind; [first [apply stkx_map2; intros; stk|stk]|intros ?]). stk. }
    intros [? ?]. stk.
  Qed.
  Hint Resolve stkx_lower_mul : stk.

  Lemma stkx_lower_binop o t tx ty_ a b m : stkx x (lower_binop tops o t tx ty_ a b m).
  Proof.
    unfold lower_binop. apply stkx_bind; [stk|intros ?]. apply stkx_bind; [stk|intros ?].
    destruct o; try solve [stk]; try solve [apply stkx_map2; intros; stk].
  Qed.

  Lemma stkx_lower_shift left sg a b m : stkx x (lower_shift tops left sg a b m).
  Proof. unfold lower_shift. stk. Qed.

  Lemma stkx_window_binding a b eba ebb jts f i : stkx x (window_binding tops a b eba ebb jts f i).
  Proof. unfold window_binding. stk. Qed.
End Helpers.

#[export] Hint Resolve stkx_mux_bits stkx_mux_envs stkx_index_layers stkx_bounds_check stkx_array_read
  stkx_array_write stkx_or_all stkx_eq_acc stkx_lower_binop stkx_lower_shift stkx_window_binding
  stkx_map2_mux : stk.

Section Rec.
  Variable x : N * ploc.
  Variable P : program.
  Variable rec_e : expr -> @cenv bool -> MB (list bool * @cenv bool).
  Variable rec_p : pattern -> list bool -> @cenv bool -> MB (bool * @cenv bool).
  Variable rec_s : stmt -> @cenv bool -> MB (list bool * @cenv bool).
  Variable rec_b : list stmt -> @cenv bool -> MB (list bool * @cenv bool).
  Hypothesis He : forall e E, stkx x (rec_e e E).
  Hypothesis Hp : forall p mw E, stkx x (rec_p p mw E).
  Hypothesis Hs : forall s E, stkx x (rec_s s E).
  Hypothesis Hb : forall b E, stkx x (rec_b b E).
  Hint Resolve He Hp Hs Hb : stk.

  Lemma stkx_lower_list : forall es E, stkx x (lower_list rec_e es E).
  Proof. induction es as [|e r IH]; intro E; cbn [lower_list]; stk. Qed.
  Hint Resolve stkx_lower_list : stk.

  Lemma stkx_lower_struct_fields fields : forall ds E, stkx x (lower_struct_fields rec_e fields ds E).
  Proof. induction ds as [|[fname ?] r IH]; intro E; cbn [lower_struct_fields]; stk. Qed.
  Hint Resolve stkx_lower_struct_fields : stk.

  Lemma stkx_lower_args : forall ps args E, stkx x (lower_args rec_e ps args E).
  Proof. induction ps as [|[pn ?] pr IH]; intros [|a ar] E; cbn [lower_args]; stk. Qed.
  Hint Resolve stkx_lower_args : stk.

  Lemma stkx_lower_stmts : forall ss E, stkx x (lower_stmts rec_s ss E).
  Proof. induction ss as [|s r IH]; intro E; cbn [lower_stmts]; stk. Qed.
  Hint Resolve stkx_lower_stmts : stk.

  Lemma stkx_join_func_windows eba ebb jts ha : forall ws, stkx x (join_func_windows tops eba ebb jts ha ws).
  Proof.
    induction ws as [|w0_ r IH]; cbn [join_func_windows]; [stk|].
    destruct r as [|w1_ r']; [stk|].
    apply stkx_bind; [stk|intros [je binding]].
    apply stkx_bind.
    { destruct binding; [stk|]. apply stkx_bind; [apply stkx_mapM; intros; stk|intros ?]. stk. }
    intros ?. apply stkx_bind; [exact IH|intros ?]. stk.
  Qed.
  Hint Resolve stkx_join_func_windows : stk.

  Lemma stkx_for_iterations pat body eb : forall n aw E, stkx x (for_iterations rec_p rec_s pat body eb n aw E).
  Proof. induction n as [|k IH]; intros aw E; cbn [for_iterations]; stk. Qed.
  Hint Resolve stkx_for_iterations : stk.

  Lemma stkx_assign_indexes m : forall accs E acc, stkx x (assign_indexes tops P rec_e m accs E acc).
  Proof. induction accs as [|[aty idx| |] r IH]; intros E acc; cbn [assign_indexes]; stk. Qed.
  Hint Resolve stkx_assign_indexes : stk.

  Lemma stkx_assign_forward : forall accs coll idxs acc, stkx x (assign_forward tops P accs coll idxs acc).
  Proof. induction accs as [|[aty idx|tty i|sty fld] r IH]; intros coll idxs acc; cbn [assign_forward]; stk. Qed.
  Hint Resolve stkx_assign_forward : stk.

  Lemma stkx_assign_backward m : forall acc value, stkx x (assign_backward tops m acc value).
  Proof. induction acc as [|[[[before a] n] [iw|]] r IH]; intro value; cbn [assign_backward]; stk. Qed.
  Hint Resolve stkx_assign_backward : stk.

  Lemma stkx_fields_match mw : forall ps w im E, stkx x (fields_match tops rec_p mw ps w im E).
  Proof. induction ps as [|[fp fbits] r IH]; intros w im E; cbn [fields_match]; stk. Qed.
  Hint Resolve stkx_fields_match : stk.

  Lemma stkx_struct_match mw fields : forall ds w im E, stkx x (struct_match tops P rec_p mw fields ds w im E).
  Proof. induction ds as [|[fname fty] r IH]; intros w im E; cbn [struct_match]; stk. Qed.
  Hint Resolve stkx_struct_match : stk.

  Lemma stkx_one_wire (w : list bool) : stkx x (one_wire (Cs:=pobs) w).
  Proof. unfold one_wire. destruct w as [|? [|? ?]]; stk. Qed.
  Hint Resolve stkx_one_wire : stk.

  Lemma stkx_block_stmts : forall ss last E, stkx x (block_stmts rec_s ss last E).
  Proof. induction ss as [|s r IH]; intros last E; cbn [block_stmts]; stk. Qed.
  Hint Resolve stkx_block_stmts : stk.

  Lemma stkx_lower_block_body ss E : stkx x (lower_block_body rec_s ss E).
  Proof. unfold lower_block_body. stk. Qed.
End Rec.

(* with a property of the returned value *)
Definition stkxQ {A} (x : N * ploc) (Q : A -> Prop) (m : MB A) : Prop :=
  forall a o', m (Some x) = Ok (a, o') -> o' = Some x /\ Q a.

Lemma stkxQ_ret {A} x (Q : A -> Prop) a : Q a -> stkxQ x Q (ret a).
Proof. intros HQ b o' [= <- <-]. auto. Qed.

Lemma stkxQ_bind {A B} x (Q : B -> Prop) (m : MB A) (k : A -> MB B) :
  stkx x m -> (forall a, stkxQ x Q (k a)) -> stkxQ x Q (mbind m k).
Proof.
  intros Hm Hk b o' H. unfold mbind in H.
  destruct (m (Some x)) as [[a o1]| |] eqn:Em; try discriminate H.
  rewrite (Hm a o1 Em) in H. exact (Hk a b o' H).
Qed.

Lemma stkx_bindQ {A B} x (Q : A -> Prop) (m : MB A) (k : A -> MB B) :
  stkxQ x Q m -> (forall a, Q a -> stkx x (k a)) -> stkx x (mbind m k).
Proof.
  intros Hm Hk b o' H. unfold mbind in H.
  destruct (m (Some x)) as [[a o1]| |] eqn:Em; try discriminate H.
  destruct (Hm a o1 Em) as [-> HQ]. exact (Hk a HQ b o' H).
Qed.

Lemma stkxQ_peek {B} x (Q : B -> Prop) (k : pobs -> MB B) :
  stkxQ x Q (k (Some x)) -> stkxQ x Q (mbind (m_peek tops) k).
Proof. intros H b o' Hr. exact (H b o' Hr). Qed.

Lemma stkxQ_replace {B} x (Q : B -> Prop) (k : pobs -> MB B) :
  stkxQ x Q (k (Some x)) -> stkxQ x Q (mbind (m_replace tops (Some x)) k).
Proof. intros H b o' Hr. exact (H b o' Hr). Qed.

Lemma stkxQ_mux_panic {B} x (Q : B -> Prop) c (k : pobs -> MB B) :
  stkxQ x Q (k (Some x)) -> stkxQ x Q (mbind (m_mux_panic tops c (Some x) (Some x)) k).
Proof. intros H b o' Hr. destruct c; exact (H b o' Hr). Qed.

Ltac stkp_step :=
  match goal with
  | |- stkx _ (mbind (m_peek tops) _) => apply stkx_peek; cbv beta
  | |- stkx _ (mbind (m_replace tops (Some _)) _) => apply stkx_replace; cbv beta
  | |- stkx _ (mbind (m_mux_panic tops _ (Some _) (Some _)) _) => apply stkx_mux_panic; cbv beta
  | |- stkxQ _ _ (mbind (m_peek tops) _) => apply stkxQ_peek; cbv beta
  | |- stkxQ _ _ (mbind (m_replace tops (Some _)) _) => apply stkxQ_replace; cbv beta
  | |- stkxQ _ _ (mbind (m_mux_panic tops _ (Some _) (Some _)) _) => apply stkxQ_mux_panic; cbv beta
  | |- stkxQ _ _ (mbind _ _) => apply stkxQ_bind; [|intros ?]
  | |- stkxQ _ _ (match ?d with _ => _ end) => destruct d
  | |- stkx _ (mbind _ _) => apply stkx_bind; [|intros ?]
  | |- stkx _ (match ?d with _ => _ end) => destruct d
  | |- stkx _ (fun _ => _) => fail 1
  | |- stkx _ _ => solve [eauto with stk]
  end.
Ltac stkp := repeat stkp_step.

Section Rec2.
  Variable x : N * ploc.
  Variable P : program.
  Variable rec_e : expr -> @cenv bool -> MB (list bool * @cenv bool).
  Variable rec_p : pattern -> list bool -> @cenv bool -> MB (bool * @cenv bool).
  Variable rec_s : stmt -> @cenv bool -> MB (list bool * @cenv bool).
  Variable rec_b : list stmt -> @cenv bool -> MB (list bool * @cenv bool).
  Hypothesis He : forall e E, stkx x (rec_e e E).
  Hypothesis Hp : forall p mw E, stkx x (rec_p p mw E).
  Hypothesis Hs : forall s E, stkx x (rec_s s E).
  Hypothesis Hb : forall b E, stkx x (rec_b b E).
  Hint Resolve He Hp Hs Hb : stk.
  Hint Resolve stkx_lower_list stkx_lower_struct_fields stkx_lower_args stkx_lower_stmts
    stkx_join_func_windows stkx_for_iterations stkx_assign_indexes stkx_assign_forward
    stkx_assign_backward stkx_fields_match stkx_struct_match stkx_one_wire stkx_block_stmts : stk.

  Lemma stkxQ_lower_arms bits sw E0 : forall arms hp mret menv,
    stkxQ x (fun r => snd (fst (fst r)) = Some x)
      (lower_arms tops rec_e rec_p bits sw E0 (Some x) arms hp mret (Some x) menv).
  Proof.
    induction arms as [|[pat body] r IH]; intros hp mret menv; cbn [lower_arms].
    - now apply stkxQ_ret.
    - stkp. apply IH.
  Qed.

  Lemma stkx_join_loop_windows pat body eba ebb jts : forall ws E,
    stkx x (join_loop_windows tops rec_p rec_s pat body eba ebb jts ws E).
  Proof.
    induction ws as [|w0_ r IH]; intro E; cbn [join_loop_windows]; [stk|].
    destruct r as [|w1_ r']; [stk|]. stkp.
  Qed.
  Hint Resolve stkx_join_loop_windows : stk.

  Lemma stkx_lower_expr_body e E : stkx x (lower_expr_body tops P rec_e rec_p rec_b e E).
  Proof.
    destruct e as [ei m t]. destruct ei; cbn [lower_expr_body]; try solve [stkp].
    - (* match *)
      apply stkx_bind; [stk|intros [sw E0]]. apply stkx_peek. cbv beta.
      eapply stkx_bindQ; [apply stkxQ_lower_arms|]. intros [[[rw mp] me] hp] HQ. cbn [fst snd] in HQ.
      subst mp. stkp.
    - (* ! *)
      apply stkx_bind; [stk|intros [? ?]].
      apply stkx_bind; [apply stkx_mapM; intros; stk|intros ?]. stk.
  Qed.

  Lemma stkx_lower_stmt_body s E : stkx x (lower_stmt_body tops P rec_e rec_p rec_s s E).
  Proof. destruct s as [si m]. destruct si; cbn [lower_stmt_body]; stkp. Qed.

  Lemma stkx_lower_pattern_body p mw E : stkx x (lower_pattern_body tops P rec_p p mw E).
  Proof. destruct p as [pi m t]. destruct pi; cbn [lower_pattern_body]; stkp. Qed.
End Rec2.

(* ------------------------------------------------------------------ the theorem *)

Theorem tsem_sticky_fuel x P : forall fuel,
  (forall e E, stkx x (lower_expr tops fuel P e E)) /\
  (forall b E, stkx x (lower_block tops fuel P b E)) /\
  (forall s E, stkx x (lower_stmt tops fuel P s E)) /\
  (forall p mw E, stkx x (lower_pattern tops fuel P p mw E)).
Proof.
  induction fuel as [|f (IHe & IHb & IHs & IHp)].
  - repeat split; intros; apply stkx_nofuel.
  - repeat split; intros.
    + apply (stkx_lower_expr_body x P _ _ _ IHe IHp IHb).
    + apply (stkx_lower_block_body x _ IHs).
    + apply (stkx_lower_stmt_body x P _ _ _ IHe IHp IHs).
    + apply (stkx_lower_pattern_body x P _ IHp).
Qed.

(* STICKINESS, whole language: a recorded panic is never changed *)
Theorem tsem_sticky_all P fuel x :
  (forall e E w E' o', lower_expr tops fuel P e E (Some x) = Ok ((w, E'), o') -> o' = Some x) /\
  (forall b E w E' o', lower_block tops fuel P b E (Some x) = Ok ((w, E'), o') -> o' = Some x) /\
  (forall s E w E' o', lower_stmt tops fuel P s E (Some x) = Ok ((w, E'), o') -> o' = Some x) /\
  (forall p mw E c E' o', lower_pattern tops fuel P p mw E (Some x) = Ok ((c, E'), o') -> o' = Some x).
Proof.
  destruct (tsem_sticky_fuel x P fuel) as (He & Hb & Hs & Hp).
  repeat split; intros.
  - eapply He; eassumption.
  - eapply Hb; eassumption.
  - eapply Hs; eassumption.
  - eapply Hp; eassumption.
Qed.
Print Assumptions tsem_sticky_all.
