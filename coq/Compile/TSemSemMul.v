(* Agreement of the bit-level semantics with Lang/Sem.v on the product by a small literal,
   `x * c` / `c * x` with 0 < |c| < (bits of the literal's suffix type), which compile.rs does
   not compile as a multiplication: the non-literal operand is lowered ONCE, bound to the
   reserved name [MUL_TMP] in a scope of its own, and the sum  tmp + tmp + ... + tmp  (|c| terms,
   |c| - 1 checked additions, left-associated, every addition with the meta and the type of
   the product node), negated for a negative literal (a checked negation, same meta), is lowered
   in that scope, which is then popped ([Lower.rewrite_one], the [Some (operand, e')] case of
   [lower_expr_body]).

   What the sum computes, for v the value of the operand (in the range of the type):
   - the partial sums v*j (1 <= j <= n = |c|) grow in absolute value, so an addition overflows
     iff v*n is out of range; a positive literal therefore agrees with Sem.v's checked
     product for every v: same value, Overflow at the node's location in the same cases;
   - a negative literal c = -n panics iff v*n is out of range or v*n = MIN (the negation),
     Sem.v iff -(v*n) is out of range: they differ exactly when v*n = 2^(bits-1), which some v in
     range satisfies iff n >= 2 divides 2^(bits-1) (n = 2, 4, ... : `x * -2i8` at x = 64 panics
     although -128 is an i8: the finding const-mul-rewrite-intermediate-overflow).
   [mul_lit_ok b n neg]: the Boolean that excludes exactly these literals ([mul_lit_ok_exact]).

   The reserved name needs NO side condition: the agreement of the operand is used as it is
   (environments related before the binding), the sum only reads the name from the scope it was
   just bound in, and that scope is popped before the environments are related again.

   [mul_lit_node]: the node lemma, in the form of TSemSemFull.ScalarG ([binop_node_g]): any
   value relation that is the scalar encoding on scalar types.  [mul_plain_node]: products with
   a literal operand for which the rewrite does NOT fire (|c| = 0 or |c| >= suffix bits) are
   ordinary checked multiplications.  [MulFindings]: counterexamples outside [mul_lit_ok]. *)
From Coq Require Import Lia ZArith.
From GV Require Import Base.Util Base.Bits Base.BitsProofs Lang.Ast Lang.Wt Gadgets.Gadgets
  Gadgets.GadgetSpec Panic.PanicRec Panic.PanicSem Compile.Lower
  Compile.TSem Compile.TSemFacts Compile.TSemArith1 Compile.TSemArith2 Compile.TSemControl
  Compile.TSemSemExpr Compile.TSemSticky Compile.TSemSemStmt.
From GV Require Lang.Sem.
Local Open Scope N_scope.

(* ------------------------------------------------------------------ arithmetic *)

(* the multiples of a value in range grow in absolute value *)
Lemma in_range_mul_mono sg b v j j' : Sem.in_range sg b v = true -> (1 <= j <= j')%Z ->
  Sem.in_range sg b (v * j') = true -> Sem.in_range sg b (v * j) = true.
Proof.
  unfold Sem.in_range. intros Hv Hj Hj'. destruct sg.
  - apply andb_prop in Hv as [H1 H2]. apply andb_prop in Hj' as [H3 H4].
    apply Z.leb_le in H1, H3. apply Z.ltb_lt in H2, H4.
    set (H := (2 ^ (Z.of_N b - 1))%Z) in *. clearbody H.
    apply andb_true_intro. split; [apply Z.leb_le|apply Z.ltb_lt]; destruct (Z.le_gt_cases 0 v); nia.
  - apply andb_prop in Hv as [H1 H2]. apply andb_prop in Hj' as [H3 H4].
    apply Z.leb_le in H1, H3. apply Z.ltb_lt in H2, H4.
    set (H := (2 ^ Z.of_N b)%Z) in *. clearbody H.
    apply andb_true_intro. split; [apply Z.leb_le|apply Z.ltb_lt]; nia.
Qed.

(* the literals for which the rewritten product agrees with the checked product for every
   value of the other operand: all positive ones; a negative one -n unless n >= 2 divides
   2^(bits-1) *)
Definition mul_lit_ok (b n : N) (neg : bool) : bool :=
  negb neg || negb ((2 <=? n) && ((2 ^ (Z.of_N b - 1)) mod (Z.of_N n) =? 0)%Z).

(* the only case of disagreement for a negative literal *)
Lemma neg_disagreement b n v : 1 <= n -> Sem.in_range true b v = true ->
  Sem.in_range true b (v * Z.of_N n) = false -> Sem.in_range true b (- (v * Z.of_N n)) = true ->
  mul_lit_ok b n true = false.
Proof.
  unfold Sem.in_range, mul_lit_ok. intros Hn Hv H1 H2. cbn [negb orb]. apply negb_false_iff.
  apply andb_prop in Hv as [Hv1 Hv2]. apply andb_prop in H2 as [H3 H4].
  apply Z.leb_le in Hv1, H3. apply Z.ltb_lt in Hv2, H4.
  assert (v * Z.of_N n = 2 ^ (Z.of_N b - 1))%Z as E.
  { destruct (Z.leb_spec (- 2 ^ (Z.of_N b - 1)) (v * Z.of_N n)); destruct (Z.ltb_spec (v * Z.of_N n) (2 ^ (Z.of_N b - 1)));
      cbn [andb] in H1; try discriminate H1; lia. }
  apply andb_true_intro. split.
  - apply N.leb_le. destruct (N.eq_dec n 1) as [->|]; [|lia]. change (Z.of_N 1) with 1%Z in E. lia.
  - apply Z.eqb_eq. rewrite <- E. apply Z.mod_mul. lia.
Qed.

(* ... and it does occur: outside [mul_lit_ok] some value in range has an out-of-range multiple
   whose opposite is in range *)
Lemma mul_lit_ok_exact b n : 2 <= b -> mul_lit_ok b n true = false ->
  exists v, Sem.in_range true b v = true /\ Sem.in_range true b (v * Z.of_N n) = false /\
            Sem.in_range true b (v * - Z.of_N n) = true.
Proof.
  unfold mul_lit_ok. cbn [negb orb]. intros Hb H. apply negb_false_iff in H. apply andb_prop in H as [H1 H2].
  apply N.leb_le in H1. apply Z.eqb_eq in H2.
  set (Hh := (2 ^ (Z.of_N b - 1))%Z) in *.
  assert (2 <= Hh)%Z as HhP.
  { unfold Hh. replace (Z.of_N b - 1)%Z with (1 + (Z.of_N b - 2))%Z by lia. rewrite Z.pow_add_r by lia.
    assert (0 < 2 ^ (Z.of_N b - 2))%Z by (apply Z.pow_pos_nonneg; lia). lia. }
  apply Z.mod_divide in H2; [|lia]. destruct H2 as [q Hq].
  exists q. unfold Sem.in_range. fold Hh.
  assert (0 < q < Hh)%Z by nia.
  repeat split; apply andb_true_iff || apply andb_false_iff; rewrite ?Z.leb_le, ?Z.ltb_lt, ?Z.leb_gt, ?Z.ltb_ge; nia.
Qed.

(* ------------------------------------------------------------------ the run of the sum *)

Section MulRun.
  Variable P : program.

  Lemma add_step sg b m a c : ok_width b = true ->
    Sem.in_range sg b a = true -> Sem.in_range sg b c = true ->
    if Sem.in_range sg b (a + c) then
      lower_binop tops OAdd (TInt sg b) (TInt sg b) (TInt sg b) (enc (N.to_nat b) a) (enc (N.to_nat b) c) m None
      = Ok (enc (N.to_nat b) (a + c), None)
    else
      exists w, lower_binop tops OAdd (TInt sg b) (TInt sg b) (TInt sg b) (enc (N.to_nat b) a) (enc (N.to_nat b) c) m None
                = Ok (w, Some (pcode Sem.ROverflow m)).
  Proof.
    intros Hb Ha Hc.
    assert (HA : binop_agrees OAdd m (TInt sg b) (TInt sg b) (Sem.VInt a) (Sem.VInt c) false).
    { destruct sg; [apply binop_signed_agrees|apply binop_unsigned_agrees]; auto. }
    unfold binop_agrees in HA. cbn [Sem.eval_binop Sem.int_ty enc_val] in HA. unfold Sem.checked in HA.
    destruct (Sem.in_range sg b (a + c)); cbn [Sem.obind enc_val] in HA.
    - exact (proj2 HA).
    - exact (proj2 HA).
  Qed.

  Lemma id_run fT E o x m t r E' o' :
    lower_expr tops fT P (Ex (EId x) m t) E o = Ok ((r, E'), o') -> env_get E x = Some r /\ E' = E /\ o' = o.
  Proof.
    destruct fT as [|fT]; [discriminate|]. rewrite lower_expr_S. cbn [lower_expr_body].
    destruct (env_get E x) as [v|]; [|discriminate]. intro H. apply ret_inv in H. destruct H as [Heq ->].
    injection Heq as -> ->. auto.
  Qed.

  Variables (sg : bool) (b : N).
  Hypothesis Hb : ok_width b = true.
  Variable v : Z.
  Hypothesis Hv : Sem.in_range sg b v = true.
  Variables (m my : meta).
  Variable E2 : @cenv bool.
  Hypothesis HE2 : env_get E2 MUL_TMP = Some (enc (N.to_nat b) v).

  Let t := TInt sg b.
  Let yv := Ex (EId MUL_TMP) my t.
  Definition mul_sum (k : nat) : expr := Nat.iter k (fun e => Ex (EOp OAdd e yv) m t) yv.

  Lemma e_ty_mul_sum k : e_ty (mul_sum k) = t.
  Proof. destruct k; reflexivity. Qed.

  (* from no panic: the multiple (k+1)*v if it is in range, else Overflow at [m]; a panic stays *)
  Lemma sum_run : forall k fT o r E3 o3,
    lower_expr tops fT P (mul_sum k) E2 o = Ok ((r, E3), o3) ->
    E3 = E2 /\
    match o with
    | Some c => o3 = Some c
    | None =>
        if Sem.in_range sg b (v * Z.of_nat (S k))
        then o3 = None /\ r = enc (N.to_nat b) (v * Z.of_nat (S k))
        else o3 = Some (pcode Sem.ROverflow m)
    end.
  Proof.
    induction k as [|k IH]; intros fT o r E3 o3 Hrun.
    - apply id_run in Hrun. destruct Hrun as (Hg & -> & ->). rewrite HE2 in Hg. injection Hg as <-.
      split; [reflexivity|]. destruct o; [reflexivity|]. change (Z.of_nat 1) with 1%Z. rewrite Z.mul_1_r, Hv. auto.
    - destruct fT as [|fT]; [discriminate Hrun|]. rewrite lower_expr_S in Hrun.
      change (mul_sum (S k)) with (Ex (EOp OAdd (mul_sum k) yv) m t) in Hrun.
      apply binop_run_inv in Hrun; [|reflexivity|discriminate].
      destruct Hrun as (xw & E1 & o1 & yw & o2 & Hx & Hy & Hbin).
      destruct (IH _ _ _ _ _ Hx) as [-> Ho1]. apply id_run in Hy. destruct Hy as (Hg & -> & ->).
      rewrite HE2 in Hg. injection Hg as <-. split; [reflexivity|].
      rewrite e_ty_mul_sum in Hbin. cbn [e_ty yv] in Hbin.
      destruct o as [c|].
      + subst o1. exact (stkx_lower_binop c _ _ _ _ _ _ _ _ _ Hbin).
      + destruct (Sem.in_range sg b (v * Z.of_nat (S k))) eqn:Hk.
        * destruct Ho1 as [-> ->]. pose proof (add_step sg b m _ _ Hb Hk Hv) as HA.
          replace (v * Z.of_nat (S k) + v)%Z with (v * Z.of_nat (S (S k)))%Z in HA by lia.
          destruct (Sem.in_range sg b (v * Z.of_nat (S (S k)))).
          -- unfold t in Hbin. rewrite HA in Hbin. injection Hbin as <- <-. auto.
          -- destruct HA as [w HA]. unfold t in Hbin. rewrite HA in Hbin. now injection Hbin as _ <-.
        * subst o1.
          assert (Sem.in_range sg b (v * Z.of_nat (S (S k))) = false) as ->.
          { destruct (Sem.in_range sg b (v * Z.of_nat (S (S k)))) eqn:Hk2; [|reflexivity].
            rewrite (in_range_mul_mono sg b v (Z.of_nat (S k)) (Z.of_nat (S (S k))) Hv ltac:(lia) Hk2) in Hk. discriminate Hk. }
          exact (stkx_lower_binop _ _ _ _ _ _ _ _ _ _ Hbin).
  Qed.

  (* the negated sum *)
  Lemma neg_sum_run k fT r E3 o3 : sg = true ->
    lower_expr tops fT P (Ex (ENeg (mul_sum k)) m t) E2 None = Ok ((r, E3), o3) ->
    E3 = E2 /\
    if Sem.in_range sg b (v * Z.of_nat (S k)) && Sem.in_range sg b (- (v * Z.of_nat (S k)))
    then o3 = None /\ r = enc (N.to_nat b) (- (v * Z.of_nat (S k)))
    else o3 = Some (pcode Sem.ROverflow m).
  Proof.
    intros Hsg Hrun. destruct fT as [|fT]; [discriminate Hrun|]. rewrite lower_expr_S, lower_neg_case in Hrun.
    minva Hrun as [x E1] o1 He. cbv beta iota in Hrun.
    destruct (sum_run _ _ _ _ _ _ He) as [-> Ho1]. cbv beta iota in Ho1. pose proof (ok_width_pos b Hb) as Hb2.
    destruct (Sem.in_range sg b (v * Z.of_nat (S k))) eqn:Hk; cbn [andb].
    - destruct Ho1 as [-> ->]. rewrite Hsg in Hk. rewrite Hsg.
      rewrite neg_steps_correct in Hrun by (apply enc_nonempty; lia).
      rewrite length_enc, N2Nat.id, (sval_enc_ok b _) in Hrun by (assumption || lia).
      apply ret_inv in Hrun. destruct Hrun as [Heq ->]. injection Heq as -> ->. split; [reflexivity|].
      destruct (Sem.in_range true b (- (v * Z.of_nat (S k)))); cbn [negb push_spec]; auto.
    - subst o1. split.
      + unfold neg_steps in Hrun. minva Hrun as ng o4 H1. minva Hrun as x0 o5 H2. minva Hrun as n0 o6 H3.
        minva Hrun as ov o7 H4. minva Hrun as u o8 H5. apply ret_inv in Hrun. destruct Hrun as [Heq _]. now injection Heq.
      + assert (stkx (pcode Sem.ROverflow m) (neg_steps x m (fun neg : list bool => ret (neg, E2)))) as Hst
          by (apply stkx_neg_steps; intro; apply stkx_ret).
        exact (Hst _ _ Hrun).
  Qed.
End MulRun.

(* ------------------------------------------------------------------ what the lowering does with
   a product, computed from the tree *)

(* [Some (left, n, neg)]: the rewrite fires; the literal is the LEFT operand (left = true, the
   operand lowered is y) or the right one; n = |literal|, neg = the literal is negative *)
Definition mul_lit_info (x y : expr) (m : meta) (t : ty) : option (bool * N * bool) :=
  match rewrite_one x y m t, lit_info x with
  | Some _, Some (n, _, neg) => Some (true, n, neg)
  | _, _ =>
      match rewrite_one y x m t, lit_info y with
      | Some _, Some (n, _, neg) => Some (false, n, neg)
      | _, _ => None
      end
  end.

Definition lit_Z (n : N) (neg : bool) : Z := if neg then (- Z.of_N n)%Z else Z.of_N n.

Lemma rewrite_one_shape a y m sg b n lb neg r : e_ty y = TInt sg b ->
  rewrite_one a y m (TInt sg b) = Some r -> lit_info a = Some (n, lb, neg) ->
  1 <= n /\
  r = (y, if neg then Ex (ENeg (mul_sum sg b m (e_meta y) (N.to_nat (n - 1)))) m (TInt sg b)
          else mul_sum sg b m (e_meta y) (N.to_nat (n - 1))).
Proof.
  intros Ety H Hl. unfold rewrite_one in H. rewrite Hl in H.
  destruct (N.eqb_spec n 0) as [|Hn0]; [discriminate H|]. destruct (n <? lb); [|discriminate H].
  injection H as <-. split; [lia|]. rewrite N2Nat.inj_iter, Ety. reflexivity.
Qed.

Lemma rewrite_one_none_lit a y m t : lit_info a = None -> rewrite_one a y m t = None.
Proof. unfold rewrite_one. now intros ->. Qed.

Lemma mul_lit_info_spec x y m sg b left n neg : e_ty x = TInt sg b -> e_ty y = TInt sg b ->
  mul_lit_info x y m (TInt sg b) = Some (left, n, neg) ->
  let lit := if left then x else y in
  let operand := if left then y else x in
  1 <= n /\ (exists lb, lit_info lit = Some (n, lb, neg)) /\
  mul_rewrite x y m (TInt sg b) =
    Some (operand, if neg then Ex (ENeg (mul_sum sg b m (e_meta operand) (N.to_nat (n - 1)))) m (TInt sg b)
                   else mul_sum sg b m (e_meta operand) (N.to_nat (n - 1))).
Proof.
  intros Ex_ Ey H. unfold mul_lit_info in H. unfold mul_rewrite.
  destruct (rewrite_one x y m (TInt sg b)) as [r1|] eqn:E1.
  - destruct (lit_info x) as [[[n1 lb1] neg1]|] eqn:L1.
    + injection H as <- <- <-. destruct (rewrite_one_shape x y m sg b n1 lb1 neg1 r1 Ey E1 L1) as [Hn ->].
      cbv zeta. split; [exact Hn|]. split; [eauto|reflexivity].
    + rewrite (rewrite_one_none_lit x y m _ L1) in E1. discriminate E1.
  - destruct (rewrite_one y x m (TInt sg b)) as [r2|] eqn:E2; [|destruct (lit_info x) as [[[? ?] ?]|]; discriminate H].
    assert (exists n2 lb2 neg2, lit_info y = Some (n2, lb2, neg2)) as (n2 & lb2 & neg2 & L2).
    { destruct (lit_info y) as [[[n2 lb2] neg2]|] eqn:L2; [eauto|].
      rewrite (rewrite_one_none_lit y x m _ L2) in E2. discriminate E2. }
    rewrite L2 in H. assert (left = false /\ n = n2 /\ neg = neg2) as (-> & -> & ->).
    { destruct (lit_info x) as [[[? ?] ?]|]; injection H as <- <- <-; auto. }
    destruct (rewrite_one_shape y x m sg b n2 lb2 neg2 r2 Ex_ E2 L2) as [Hn ->].
    cbv zeta. split; [exact Hn|]. split; [eauto|reflexivity].
Qed.

(* ------------------------------------------------------------------ the node lemma *)

Section MulNode.
  Variable P : program.
  Variable VR : ty -> Sem.value -> list bool -> Prop.
  Hypothesis VR_sc_elim : forall t v w, scalar_ty t = true -> VR t v w -> val_ok t v /\ w = enc_val t v.
  Hypothesis VR_sc_intro : forall t v, scalar_ty t = true -> val_ok t v -> VR t v (enc_val t v).
  Notation AgE' := (AgE P VR).

  (* Sem.v on a literal *)
  Lemma lit_info_eval e n lb neg f en : lit_info e = Some (n, lb, neg) ->
    Sem.eval (S f) P en e = Sem.Done (Sem.VInt (lit_Z n neg), en).
  Proof.
    destruct e as [ei m t]. destruct ei; try discriminate; cbn [lit_info]; intros [= <- <- <-]; cbn [Sem.eval]; unfold lit_Z.
    - reflexivity.
    - do 2 f_equal. f_equal. rewrite N2Z.inj_abs_N. destruct (Z.ltb_spec z 0); lia.
  Qed.

  (* the rewritten sum against the checked product *)
  Lemma mul_core sg b m my n neg a (E2 : @cenv bool) fT r E3 o3 :
    ok_width b = true -> Sem.in_range sg b a = true -> 1 <= n ->
    negb neg || sg = true -> mul_lit_ok b n neg = true ->
    env_get E2 MUL_TMP = Some (enc (N.to_nat b) a) ->
    lower_expr tops fT P (if neg then Ex (ENeg (mul_sum sg b m my (N.to_nat (n - 1)))) m (TInt sg b)
                          else mul_sum sg b m my (N.to_nat (n - 1))) E2 None = Ok ((r, E3), o3) ->
    E3 = E2 /\
    if Sem.in_range sg b (a * lit_Z n neg)
    then o3 = None /\ r = enc (N.to_nat b) (a * lit_Z n neg)
    else o3 = Some (pcode Sem.ROverflow m).
  Proof.
    intros Hb Ha Hn Hsg Hok HE2 Hrun.
    assert (Z.of_nat (S (N.to_nat (n - 1))) = Z.of_N n) as Ek by lia.
    destruct neg; unfold lit_Z.
    - cbn [negb orb] in Hsg.
      destruct (neg_sum_run P sg b Hb a Ha m my E2 HE2 _ _ _ _ _ Hsg Hrun) as [-> H]. split; [reflexivity|].
      rewrite Ek in H. replace (a * - Z.of_N n)%Z with (- (a * Z.of_N n))%Z by lia.
      destruct (Sem.in_range sg b (a * Z.of_N n)) eqn:H1; cbn [andb] in H; [exact H|].
      destruct (Sem.in_range sg b (- (a * Z.of_N n))) eqn:H2; [|exact H]. subst sg.
      rewrite (neg_disagreement b n a Hn Ha H1 H2) in Hok. discriminate Hok.
    - destruct (sum_run P sg b Hb a Ha m my E2 HE2 _ _ _ _ _ _ Hrun) as [-> H]. split; [reflexivity|].
      now rewrite Ek in H.
  Qed.

  (* `x * c` / `c * x` where the rewrite fires *)
  Theorem mul_lit_node f g x y m sg b left n neg :
    ok_width b = true -> e_ty x = TInt sg b -> e_ty y = TInt sg b ->
    mul_lit_info x y m (TInt sg b) = Some (left, n, neg) ->
    negb neg || sg = true -> mul_lit_ok b n neg = true ->
    AgE' f g (if left then y else x) ->
    AgE' (S f) g (Ex (EOp OMul x y) m (TInt sg b)).
  Proof.
    intros Hb Etx Ety Hinfo Hsg Hok IH en E fT w E' o' Hrel Hrun.
    destruct (mul_lit_info_spec x y m sg b left n neg Etx Ety Hinfo) as (Hn & (lb & Hlit) & Hrw). cbv zeta in Hlit, Hrw.
    destruct fT as [|fT]; [discriminate Hrun|]. rewrite lower_expr_S in Hrun. cbn [lower_expr_body] in Hrun.
    rewrite Hrw in Hrun. minva Hrun as [wv E1] o1 Hop. minva Hrun as E2 o2 Hlet.
    apply lift_res_inv in Hlet. destruct Hlet as [Hlet ->]. cbn [env_push env_let scope_insert] in Hlet.
    injection Hlet as <-. minva Hrun as [r E3] o3 Hsum. minva Hrun as E4 o4 Hpop.
    apply lift_res_inv in Hpop. destruct Hpop as [Hpop ->]. apply ret_inv in Hrun. destruct Hrun as [Heq ->].
    injection Heq as -> ->.
    rewrite (sem_eval_op P f en OMul x y m (TInt sg b) eq_refl).
    assert (Hety : e_ty (if left then y else x) = TInt sg b) by (destruct left; assumption).
    (* the run of the operand and of the sum against the operand's evaluation from [en0] *)
    assert (Hcore : forall en0, env_rel3 VR en0 E g ->
      match Sem.eval f P en0 (if left then y else x) with
      | Sem.Done (Sem.VInt a, en1) =>
          Sem.in_range sg b a = true /\ env_rel3 VR en1 E1 g /\ E4 = E1 /\
          if Sem.in_range sg b (a * lit_Z n neg)
          then o3 = None /\ r = enc (N.to_nat b) (a * lit_Z n neg)
          else o3 = Some (pcode Sem.ROverflow m)
      | Sem.Done (_, _) => False
      | Sem.Panicked r0 m0 => o3 = Some (pcode r0 m0)
      | _ => True
      end).
    { intros en0 Hrel0. pose proof (IH en0 E fT _ _ _ Hrel0 Hop) as IH1. revert IH1.
      destruct (Sem.eval f P en0 (if left then y else x)) as [[vx en1]|r1 m1|c1|]; intro IH1; try exact I.
      - destruct IH1 as (-> & HV & Hrel1). rewrite Hety in HV.
        destruct (VR_sc_elim (TInt sg b) _ _ Hb HV) as [Hokv ->].
        destruct vx as [|a| | |]; try contradiction. cbn [val_ok enc_val] in *.
        assert (HE2 : env_get ([(MUL_TMP, enc (N.to_nat b) a)] :: E1) MUL_TMP = Some (enc (N.to_nat b) a))
          by (cbn [env_get assocN]; now rewrite N.eqb_refl).
        destruct (mul_core sg b m _ n neg a _ fT _ _ _ Hb Hokv Hn Hsg Hok HE2 Hsum) as [-> Hres].
        cbn [env_pop] in Hpop. injection Hpop as <-. auto.
      - subst o1. exact (sticky_e P fT _ _ _ _ _ _ Hsum). }
    pose proof (ok_width_pos b Hb) as Hb2.
    (* Sem.v: both operands, then the checked product *)
    destruct left.
    - (* the literal on the left *)
      destruct f as [|f']; [exact I|]. rewrite (lit_info_eval x n lb neg f' en Hlit). cbn [Sem.obind].
      specialize (Hcore en Hrel). revert Hcore.
      destruct (Sem.eval (S f') P en y) as [[vy en1]|r1 m1|c1|]; cbn [Sem.obind]; try (intro; exact I); [|intro H; exact H].
      destruct vy as [|a| | |]; try contradiction. intros (Ha & Hrel1 & -> & Hres).
      rewrite Etx. cbn [Sem.eval_binop Sem.int_ty]. unfold Sem.checked. rewrite (Z.mul_comm (lit_Z n neg) a).
      destruct (Sem.in_range sg b (a * lit_Z n neg)) eqn:Hr; cbn [Sem.obind e_ty].
      + destruct Hres as [-> ->]. split; [reflexivity|]. split.
        * now apply (VR_sc_intro (TInt sg b) (Sem.VInt (a * lit_Z n neg))).
        * eapply rel_scopes; [|exact Hrel1]. reflexivity.
      + exact Hres.
    - (* the literal on the right *)
      specialize (Hcore en Hrel). revert Hcore.
      destruct (Sem.eval f P en x) as [[vx en1]|r1 m1|c1|]; cbn [Sem.obind]; try (intro; exact I); [|intro H; exact H].
      destruct vx as [|a| | |]; try contradiction. intros (Ha & Hrel1 & -> & Hres).
      destruct f as [|f']; [exact I|]. rewrite (lit_info_eval y n lb neg f' en1 Hlit). cbn [Sem.obind].
      rewrite Etx. cbn [Sem.eval_binop Sem.int_ty]. unfold Sem.checked.
      destruct (Sem.in_range sg b (a * lit_Z n neg)) eqn:Hr; cbn [Sem.obind e_ty].
      + destruct Hres as [-> ->]. split; [reflexivity|]. split.
        * now apply (VR_sc_intro (TInt sg b) (Sem.VInt (a * lit_Z n neg))).
        * eapply rel_scopes; [|exact Hrel1]. reflexivity.
      + exact Hres.
  Qed.
End MulNode.
Print Assumptions mul_lit_node.

(* the premises of [mul_lit_node] other than the type annotations, as ONE Boolean, and the
   operand whose agreement is needed *)
Definition mul_node_ok (x y : expr) (m : meta) (t : ty) : bool :=
  match t with
  | TInt sg b =>
      ok_width b &&
      match mul_lit_info x y m t with
      | Some (_, n, neg) => (negb neg || sg) && mul_lit_ok b n neg
      | None => false
      end
  | _ => false
  end.

Definition mul_operand (x y : expr) (m : meta) (t : ty) : expr :=
  match mul_lit_info x y m t with Some (true, _, _) => y | _ => x end.

Section MulNodeB.
  Variable P : program.
  Variable VR : ty -> Sem.value -> list bool -> Prop.
  Hypothesis VR_sc_elim : forall t v w, scalar_ty t = true -> VR t v w -> val_ok t v /\ w = enc_val t v.
  Hypothesis VR_sc_intro : forall t v, scalar_ty t = true -> val_ok t v -> VR t v (enc_val t v).

  Corollary mul_lit_node_b f g x y m t :
    e_ty x = t -> e_ty y = t -> mul_node_ok x y m t = true ->
    AgE P VR f g (mul_operand x y m t) -> AgE P VR (S f) g (Ex (EOp OMul x y) m t).
  Proof.
    intros Etx Ety Hok IH. unfold mul_node_ok in Hok. destruct t as [|sg b| | | |]; try discriminate Hok.
    apply andb_prop in Hok as [Hb Hok]. unfold mul_operand in IH.
    destruct (mul_lit_info x y m (TInt sg b)) as [[[left n] neg]|] eqn:Hi; [|discriminate Hok].
    apply andb_prop in Hok as [Hsg Hlit].
    eapply (mul_lit_node P VR VR_sc_elim VR_sc_intro f g x y m sg b left n neg); try eassumption.
  Qed.
End MulNodeB.

(* ------------------------------------------------------------------ products with a literal
   operand for which the rewrite does not fire (|c| = 0 or |c| >= bits of the suffix type): an
   ordinary multiplication ([TSemSemFull.binop_node_g] asks for non-literal operands only because
   it needs [mul_rewrite x y m t = None]) *)

Section MulPlain.
  Variable P : program.
  Variable VR : ty -> Sem.value -> list bool -> Prop.
  Hypothesis VR_sc_elim : forall t v w, scalar_ty t = true -> VR t v w -> val_ok t v /\ w = enc_val t v.
  Hypothesis VR_sc_intro : forall t v, scalar_ty t = true -> val_ok t v -> VR t v (enc_val t v).
  Notation AgE' := (AgE P VR).

  Lemma mul_plain_run_inv re rp rb x y m t E o0 w E' o' : mul_rewrite x y m t = None ->
    lower_expr_body tops P re rp rb (Ex (EOp OMul x y) m t) E o0 = Ok ((w, E'), o') ->
    exists xw E1 o1 yw o2,
      re x E o0 = Ok ((xw, E1), o1) /\ re y E1 o1 = Ok ((yw, E'), o2) /\
      lower_binop tops OMul t (e_ty x) (e_ty y) xw yw m o2 = Ok (w, o').
  Proof.
    intros Hm H. cbn [lower_expr_body] in H. rewrite Hm in H.
    minva H as [xw E1] o1 Hx. minva H as [yw E2] o2 Hy. minva H as r o3 Hb.
    apply ret_inv in H. destruct H as [Heq ->]. injection Heq as -> ->.
    exists xw, E1, o1, yw, o2. auto.
  Qed.

  Theorem mul_plain_node f g x y m t tx :
    mul_rewrite x y m t = None ->
    e_ty x = tx -> e_ty y = tx -> scalar_ty tx = true -> scalar_ty t = true ->
    (forall vx vy len, val_ok tx vx -> val_ok tx vy -> binop_agrees OMul m t tx vx vy len) ->
    AgE' f g x -> AgE' f g y -> AgE' (S f) g (Ex (EOp OMul x y) m t).
  Proof.
    intros Hm Etx Ety Hsx Hst Hag IHx IHy en E fT w E' o' Hrel Hrun.
    destruct fT as [|fT]; [discriminate Hrun|]. rewrite lower_expr_S in Hrun.
    apply mul_plain_run_inv in Hrun; [|exact Hm].
    destruct Hrun as (xw & E1 & o1 & yw & o2 & Hx & Hy & Hb).
    rewrite (sem_eval_op P f en OMul x y m t eq_refl).
    pose proof (IHx en E fT _ _ _ Hrel Hx) as IH1. revert IH1.
    destruct (Sem.eval f P en x) as [[vx en1]|r1 m1|c1|]; intro IH1; cbn [Sem.obind]; try exact I.
    - destruct IH1 as (-> & HVx & Hrel1). rewrite Etx in HVx.
      destruct (VR_sc_elim _ _ _ Hsx HVx) as [Hokx ->].
      pose proof (IHy en1 E1 fT _ _ _ Hrel1 Hy) as IH2. revert IH2.
      destruct (Sem.eval f P en1 y) as [[vy en2]|r2 m2|c2|]; intro IH2; cbn [Sem.obind]; try exact I.
      + destruct IH2 as (-> & HVy & Hrel2). rewrite Ety in HVy.
        destruct (VR_sc_elim _ _ _ Hsx HVy) as [Hoky ->].
        pose proof (Hag vx vy (Sem.lenient en2) Hokx Hoky) as HA. unfold binop_agrees in HA.
        rewrite Etx, Ety in Hb. rewrite Etx. revert HA.
        destruct (Sem.eval_binop OMul m t tx vx vy (Sem.lenient en2)) as [[v len]|r3 m3|c3|];
          intro HA; cbn [Sem.obind]; try contradiction.
        * destruct HA as [Hokv HB]. rewrite HB in Hb. injection Hb as <- <-. cbn [e_ty].
          split; [reflexivity|]. split; [now apply VR_sc_intro|]. eapply rel_scopes; [|exact Hrel2]. reflexivity.
        * destruct HA as [-> [w' HB]]. rewrite HB in Hb. now injection Hb as _ <-.
      + subst o2.
        match type of Hb with ?mm (Some ?c) = _ => assert (stkx c mm) as Hstk by apply stkx_lower_binop end.
        exact (Hstk _ _ Hb).
    - subst o1. pose proof (sticky_e P _ _ _ _ _ _ _ Hy) as ->.
      match type of Hb with ?mm (Some ?c) = _ => assert (stkx c mm) as Hstk by apply stkx_lower_binop end.
      exact (Hstk _ _ Hb).
  Qed.
End MulPlain.
Print Assumptions mul_plain_node.

(* ------------------------------------------------------------------ counterexamples outside
   [mul_lit_ok]: the known finding const-mul-rewrite-intermediate-overflow, and that it is the
   whole family  -2^j, j >= 1 *)

Module MulFindings.
  Definition P0 : program := mkProgram [] [] [] [] 0.
  Definition mm (k : N) : meta := mkMeta k 1 k 9.
  Definition i8 := TInt true 8.
  Definition i16 := TInt true 16.
  Definition g0 (t : ty) : tenv := [[(0, (t, false))]].
  Definition en0 (z : Z) : Sem.env := Sem.mkEnv [[(0, Sem.VInt z)]] false.
  Definition E0 (bits : nat) (z : Z) : @cenv bool := [[(0, enc bits z)]].
  Definition ovf (k : N) : pobs := Some (pcode Sem.ROverflow (mm k)).

  (* x * -2i8 at x = 64: -128 is an i8; the sum 64 + 64 overflows *)
  Definition e1 : expr := Ex (EOp OMul (Ex (EId 0) (mm 1) i8) (Ex (ENumS (-2) 8) (mm 2) i8)) (mm 3) i8.
  Example neg2_i8 :
    wt_expr 5 P0 (g0 i8) e1 = true /\
    mul_lit_info (Ex (EId 0) (mm 1) i8) (Ex (ENumS (-2) 8) (mm 2) i8) (mm 3) i8 = Some (false, 2, true) /\
    mul_lit_ok 8 2 true = false /\
    Sem.eval 5 P0 (en0 64) e1 = Sem.Done (Sem.VInt (-128), en0 64) /\
    (exists w, lower_expr tops 9 P0 e1 (E0 8 64) None = Ok ((w, E0 8 64), ovf 3)).
  Proof. repeat split; try (vm_compute; reflexivity). eexists. vm_compute. reflexivity. Qed.

  (* the literal on the left: -4i8 * x at x = 32 *)
  Definition e2 : expr := Ex (EOp OMul (Ex (ENumS (-4) 8) (mm 1) i8) (Ex (EId 0) (mm 2) i8)) (mm 3) i8.
  Example neg4_i8_left :
    mul_lit_info (Ex (ENumS (-4) 8) (mm 1) i8) (Ex (EId 0) (mm 2) i8) (mm 3) i8 = Some (true, 4, true) /\
    mul_lit_ok 8 4 true = false /\
    Sem.eval 5 P0 (en0 32) e2 = Sem.Done (Sem.VInt (-128), en0 32) /\
    (exists w, lower_expr tops 9 P0 e2 (E0 8 32) None = Ok ((w, E0 8 32), ovf 3)).
  Proof. repeat split; try (vm_compute; reflexivity). eexists. vm_compute. reflexivity. Qed.

  (* x * -8i16 at x = 4096 *)
  Definition e3 : expr := Ex (EOp OMul (Ex (EId 0) (mm 1) i16) (Ex (ENumS (-8) 16) (mm 2) i16)) (mm 3) i16.
  Example neg8_i16 :
    mul_lit_ok 16 8 true = false /\
    Sem.eval 5 P0 (en0 4096) e3 = Sem.Done (Sem.VInt (-32768), en0 4096) /\
    (exists w, lower_expr tops 12 P0 e3 (E0 16 4096) None = Ok ((w, E0 16 4096), ovf 3)).
  Proof. repeat split; try (vm_compute; reflexivity). eexists. vm_compute. reflexivity. Qed.

  (* inside [mul_lit_ok]: -3, -5, -6, -7 (i8), -1 and every positive literal *)
  Example ok_literals :
    mul_lit_ok 8 3 true = true /\ mul_lit_ok 8 5 true = true /\ mul_lit_ok 8 6 true = true /\
    mul_lit_ok 8 7 true = true /\ mul_lit_ok 8 1 true = true /\ mul_lit_ok 8 2 false = true /\
    mul_lit_ok 8 4 false = true /\ mul_lit_ok 64 2 true = false /\ mul_lit_ok 64 32 true = false /\
    mul_lit_ok 64 33 true = true.
  Proof. repeat split; vm_compute; reflexivity. Qed.

  (* x * -3i8 at x = 43: both panic (the sum 43 + 43 + 43 = 129, and -129 is no i8) *)
  Definition e4 : expr := Ex (EOp OMul (Ex (EId 0) (mm 1) i8) (Ex (ENumS (-3) 8) (mm 2) i8)) (mm 3) i8.
  Example neg3_i8_agrees :
    Sem.eval 5 P0 (en0 43) e4 = Sem.Panicked Sem.ROverflow (mm 3) /\
    (exists w, lower_expr tops 9 P0 e4 (E0 8 43) None = Ok ((w, E0 8 43), ovf 3)) /\
    Sem.eval 5 P0 (en0 (-42)) e4 = Sem.Done (Sem.VInt 126, en0 (-42)) /\
    lower_expr tops 9 P0 e4 (E0 8 (-42)) None = Ok ((enc 8 126, E0 8 (-42)), None).
  Proof. repeat split; try (vm_compute; reflexivity). eexists. vm_compute. reflexivity. Qed.
End MulFindings.
